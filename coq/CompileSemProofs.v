(* CompileSemProofs.v — compile_correct for statements with control flow:
   assignments to globals, if / else-if / else chains, while, break — nested.
   Part 1: a fuel-indexed big-step semantics; the LAYOUT relation describing
   the final code of a compiled statement; the simulation theorem: the VM
   model run on code laid out that way reaches the globals of the semantics
   (induction on the fuel; the loop is re-entered at its start pc). *)
From Coq Require Import ZArith NArith List Bool Lia ZifyBool ZifyNat ZifyN Floats.
From EvyV Require Import Base Bytecode BytecodeProofs SymTab SymTabProofs Vm VmProofs Compile CompileSem CompileProofs
     CompileWfProofs CompileStmtProofs CompileJumpProofs CompileHoleProofs CompileSymProofs CompileCtlProofs.
Require Import EvyV.Gen.Opcodes.
Import ListNotations.
Open Scope N_scope.

(* ---------- the layout of compiled statements ---------- *)
Definition same_resolve (a b : symtab) : Prop := forall n, st_resolve n a = st_resolve n b.

Definition jbytes (o : opc) (T : N) (bs : list N) : Prop :=
  exists hi lo, bs = [N_of_opc o; hi; lo] /\ hi * 256 + lo = T.

(* an end-of-block jump: to End, or still holding the placeholder *)
Definition jshape (fin : bool) (End : N) (je : list N) : Prop :=
  if fin then jbytes Jump End je else exists h0 l0, je = [N_of_opc Jump; h0; l0].

(* a break jump: to the end of the innermost loop, or still holding the placeholder *)
Definition bshape (brk : option N) (jb : list N) : Prop :=
  match brk with Some T => jbytes Jump T jb | None => exists h0 l0, jb = [N_of_opc Jump; h0; l0] end.

(* LAY brk s st st' bs seg: seg is the code of s compiled from st to st';
   bs are the positions of the break jumps of s that belong to an enclosing
   loop; they jump to T (brk = Some T) or are still pending (brk = None: the
   code before the enclosing compileWhileStatement patched c.breaks) *)
Inductive LAY : option N -> stmt -> cstate -> cstate -> list Z -> list N -> Prop :=
| lay_assign brk n e st st1 st' y seg_e sg :
    efrag e = true -> compile_expr true e st = COk st1 -> ccode st1 = ccode st ++ seg_e ->
    st_resolve n (csym st) = Some y -> sscp y = GlobalScope -> jbytes SetGlobal (sidx y) sg ->
    cconsts st' = cconsts st1 -> csym st' = csym st ->
    LAY brk (SAssign (EVar n) e) st st' [] (seg_e ++ sg)
| lay_empty brk st : LAY brk SEmpty st st [] []
| lay_break brk st st' jb :
    bshape brk jb -> cconsts st' = cconsts st -> csym st' = csym st ->
    LAY brk SBreak st st' [Z.of_nat (List.length (ccode st))] jb
| lay_while brk c b st st1 stx stb st' bs_b seg_c seg_b jf jb :
    efrag c = true -> compile_expr true c st = COk st1 -> ccode st1 = ccode st ++ seg_c ->
    cconsts stx = cconsts st1 -> same_resolve (csym stx) (csym st) ->
    N.of_nat (List.length (ccode stx)) = N.of_nat (List.length (ccode st1)) + 3 ->
    LAYL (Some (N.of_nat (List.length (ccode st)) + N.of_nat (List.length (seg_c ++ jf ++ seg_b ++ jb)))) b stx stb bs_b seg_b ->
    jbytes JumpOnFalse (N.of_nat (List.length (ccode st)) + N.of_nat (List.length (seg_c ++ jf ++ seg_b ++ jb))) jf ->
    jbytes Jump (N.of_nat (List.length (ccode st))) jb ->
    cconsts st' = cconsts stb -> csym st' = csym st ->
    LAY brk (SWhile c b) st st' [] (seg_c ++ jf ++ seg_b ++ jb)
| lay_forstep brk start stop step b st s1 s2 s3 st' seg1 seg2 seg3 seg_r :
    efrag stop = true -> compile_expr true stop st = COk s1 -> ccode s1 = ccode st ++ seg1 ->
    efrag (match step with OSome e => e | ONoneE => ENum 1 end) = true ->
    compile_expr true (match step with OSome e => e | ONoneE => ENum 1 end) s1 = COk s2 -> ccode s2 = ccode s1 ++ seg2 ->
    efrag (match start with OSome e => e | ONoneE => ENum 0 end) = true ->
    compile_expr true (match start with OSome e => e | ONoneE => ENum 0 end) s2 = COk s3 -> ccode s3 = ccode s2 ++ seg3 ->
    LAYR b s3 st' 3 StepRange seg_r ->
    LAY brk (SForStep None start stop step b) st st' [] (seg1 ++ seg2 ++ seg3 ++ seg_r)
| lay_foriter brk t e b st s1 s2 st' seg1 segk seg_r :
    (t = TStr \/ t = TArr \/ t = TMap) ->
    efrag e = true -> compile_expr true e st = COk s1 -> ccode s1 = ccode st ++ seg1 ->
    emit_const true (KNum 0) s1 = COk s2 -> ccode s2 = ccode s1 ++ segk ->
    LAYR b s2 st' 2 IterRange seg_r ->
    LAY brk (SForIter None t e b) st st' [] (seg1 ++ segk ++ seg_r)
| lay_if brk c b elifs els st ste st' js bs seg :
    LAYC brk true (CCons c b elifs) els st ste (N.of_nat (List.length (ccode st)) + N.of_nat (List.length seg)) js bs seg ->
    cconsts st' = cconsts ste -> csym st' = csym st ->
    LAY brk (SIf c b elifs els) st st' bs seg
with LAYL : option N -> slist -> cstate -> cstate -> list Z -> list N -> Prop :=
| layl_nil brk st : LAYL brk SNil st st [] []
| layl_cons brk s t st st1 st2 bs1 bs2 seg1 seg2 :
    LAY brk s st st1 bs1 seg1 ->
    N.of_nat (List.length (ccode st1)) = N.of_nat (List.length (ccode st)) + N.of_nat (List.length seg1) ->
    LAYL brk t st1 st2 bs2 seg2 ->
    LAYL brk (SCons s t) st st2 (bs1 ++ bs2) (seg1 ++ seg2)
(* a chain of `cond / block` with its else part; every block ends with a jump
   to End (fin = true) or with a jump whose operand is still the placeholder
   (fin = false: the code before compileIfStatement's final patching); js are
   the positions of those jumps *)
with LAYC : option N -> bool -> clist -> oslist -> cstate -> cstate -> N -> list Z -> list Z -> list N -> Prop :=
| layc_nil_noelse brk fin st End : End = N.of_nat (List.length (ccode st)) -> LAYC brk fin CNil NoElse st st End [] [] []
| layc_nil_else brk fin eb st sty ste End bs_e seg_e :
    cconsts sty = cconsts st -> same_resolve (csym sty) (csym st) ->
    List.length (ccode sty) = List.length (ccode st) ->
    LAYL brk eb sty ste bs_e seg_e -> End = N.of_nat (List.length (ccode st)) + N.of_nat (List.length seg_e) ->
    LAYC brk fin CNil (Else eb) st ste End [] bs_e seg_e
| layc_cons brk fin c b t els st st1 stx stb sty st' End js bs_b bs_r seg_c seg_b jf je seg_r :
    efrag c = true -> compile_expr true c st = COk st1 -> ccode st1 = ccode st ++ seg_c ->
    cconsts stx = cconsts st1 -> same_resolve (csym stx) (csym st) ->
    N.of_nat (List.length (ccode stx)) = N.of_nat (List.length (ccode st1)) + 3 ->
    LAYL brk b stx stb bs_b seg_b ->
    jbytes JumpOnFalse (N.of_nat (List.length (ccode st)) + N.of_nat (List.length (seg_c ++ jf ++ seg_b ++ je))) jf ->
    jshape fin End je ->
    cconsts sty = cconsts stb -> same_resolve (csym sty) (csym st) ->
    N.of_nat (List.length (ccode sty)) = N.of_nat (List.length (ccode stb)) + 3 ->
    LAYC brk fin t els sty st' End js bs_r seg_r ->
    LAYC brk fin (CCons c b t) els st st' End
         (Z.of_nat (List.length (ccode st) + List.length (seg_c ++ jf ++ seg_b)) :: js)
         (bs_b ++ bs_r)
         (seg_c ++ jf ++ seg_b ++ je ++ seg_r)

(* the loop part of a range loop, entered with the S slots of its state on the
   stack: range op (no loop variable); exit jump to the OpDrop; body (its
   breaks go to the OpDrop too); jump back to the range op; OpDrop S *)
with LAYR : slist -> cstate -> cstate -> N -> opc -> list N -> Prop :=
| layr rop S b s3 stx stb st' bs_b seg_b jf jb :
    cconsts stx = cconsts s3 -> same_resolve (csym stx) (csym s3) ->
    N.of_nat (List.length (ccode stx)) = N.of_nat (List.length (ccode s3)) + 6 ->
    LAYL (Some (N.of_nat (List.length (ccode s3)) + N.of_nat (List.length ([N_of_opc rop; 0; 0] ++ jf ++ seg_b ++ jb)))) b stx stb bs_b seg_b ->
    jbytes JumpOnFalse (N.of_nat (List.length (ccode s3)) + N.of_nat (List.length ([N_of_opc rop; 0; 0] ++ jf ++ seg_b ++ jb))) jf ->
    jbytes Jump (N.of_nat (List.length (ccode s3))) jb ->
    cconsts st' = cconsts stb -> csym st' = csym s3 ->
    LAYR b s3 st' S rop ([N_of_opc rop; 0; 0] ++ jf ++ seg_b ++ jb ++ [N_of_opc Drop; 0; S]).

Scheme LAY_mind := Induction for LAY Sort Prop
  with LAYL_mind := Induction for LAYL Sort Prop
  with LAYC_mind := Induction for LAYC Sort Prop
  with LAYR_mind := Induction for LAYR Sort Prop.
Combined Scheme LAY_mutind from LAY_mind, LAYL_mind, LAYC_mind, LAYR_mind.

(* ---------- machine steps for the two jumps ---------- *)
Lemma step_jof p vs pre post jf T b rest :
  jbytes JumpOnFalse T jf -> pcode p = pre ++ jf ++ post -> ip vs = N.of_nat (List.length pre) ->
  ostack vs = VBool b :: rest ->
  vm_step p vs = Running {| ip := if b then ip vs + 3 else T; ostack := rest; locals := locals vs; globals := globals vs |}.
Proof.
  intros (hi & lo & -> & E) HC HI HS. rewrite (fetch_arg p vs JumpOnFalse hi lo pre post HC HI eq_refl).
  unfold exec. rewrite HS, E. reflexivity.
Qed.

Lemma step_jump p vs pre post jb T :
  jbytes Jump T jb -> pcode p = pre ++ jb ++ post -> ip vs = N.of_nat (List.length pre) ->
  vm_step p vs = Running {| ip := T; ostack := ostack vs; locals := locals vs; globals := globals vs |}.
Proof.
  intros (hi & lo & -> & E) HC HI. rewrite (fetch_arg p vs Jump hi lo pre post HC HI eq_refl).
  unfold exec. rewrite E. reflexivity.
Qed.

Lemma jbytes_len o T bs : jbytes o T bs -> List.length bs = 3%nat.
Proof. intros (hi & lo & -> & _). reflexivity. Qed.

Lemma reaches_refl p s : reaches p s s.
Proof. exists 0%nat. reflexivity. Qed.

Lemma reaches_step p s s' : vm_step p s = Running s' -> reaches p s s'.
Proof. intro H. exists 1%nat. simpl. rewrite H. reflexivity. Qed.

Lemma step_steprange p vs pre post idx stp stop base :
  pcode p = pre ++ [N_of_opc StepRange; 0; 0] ++ post -> ip vs = N.of_nat (List.length pre) ->
  ostack vs = VNum idx :: VNum stp :: VNum stop :: base -> PrimFloat.eqb stp 0 = false ->
  N.of_nat (List.length (locals vs)) + N.of_nat (List.length base) + 4 <= StackSize ->
  vm_step p vs = Running {| ip := ip vs + 3;
                            ostack := VBool (going idx stp stop) :: VNum (idx + stp)%float :: VNum stp :: VNum stop :: base;
                            locals := locals vs; globals := globals vs |}.
Proof.
  intros HC HI HS HZ HR. rewrite (fetch_arg p vs StepRange 0 0 pre post HC HI eq_refl).
  unfold exec. rewrite HS. cbn [List.length Nat.ltb Nat.leb zero_step]. rewrite HZ.
  change (0 * 256 + 0) with 0. cbn [step_range N.eqb negb andb]. rewrite andb_false_r. fold (going idx stp stop).
  unfold with_stack. cbn [List.length].
  destruct (StackSize <? N.of_nat (List.length (locals vs)) + N.of_nat (S (S (S (S (List.length base)))))) eqn:E; [apply N.ltb_lt in E; lia|].
  reflexivity.
Qed.

Lemma step_drop3 p vs pre post a b c base :
  pcode p = pre ++ [N_of_opc Drop; 0; 3] ++ post -> ip vs = N.of_nat (List.length pre) ->
  ostack vs = a :: b :: c :: base ->
  vm_step p vs = Running {| ip := ip vs + 3; ostack := base; locals := locals vs; globals := globals vs |}.
Proof.
  intros HC HI HS. rewrite (fetch_arg p vs Drop 0 3 pre post HC HI eq_refl).
  unfold exec. change (0 * 256 + 3) with 3. cbn [simple_effect]. rewrite HS. reflexivity.
Qed.

Lemma step_steprange_lv p vs pre post idx stp stop base :
  pcode p = pre ++ [N_of_opc StepRange; 0; 1] ++ post -> ip vs = N.of_nat (List.length pre) ->
  ostack vs = VNum idx :: VNum stp :: VNum stop :: base -> PrimFloat.eqb stp 0 = false ->
  N.of_nat (List.length (locals vs)) + N.of_nat (List.length base) + 5 <= StackSize ->
  vm_step p vs = Running {| ip := ip vs + 3;
                            ostack := VBool (going idx stp stop) ::
                                      (if going idx stp stop then [VNum idx] else []) ++ VNum (idx + stp)%float :: VNum stp :: VNum stop :: base;
                            locals := locals vs; globals := globals vs |}.
Proof.
  intros HC HI HS HZ HR. rewrite (fetch_arg p vs StepRange 0 1 pre post HC HI eq_refl).
  unfold exec. rewrite HS. cbn [List.length Nat.ltb Nat.leb zero_step]. rewrite HZ.
  change (0 * 256 + 1) with 1. cbn [step_range N.eqb Pos.eqb negb andb]. rewrite andb_true_r. fold (going idx stp stop).
  unfold with_stack. destruct (going idx stp stop); cbn [List.length app];
    match goal with |- (if ?c then _ else _) = _ => destruct c eqn:E; [apply N.ltb_lt in E; lia|reflexivity] end.
Qed.

Lemma step_iterrange_lv p vs pre post idx iter base :
  pcode p = pre ++ [N_of_opc IterRange; 0; 1] ++ post -> ip vs = N.of_nat (List.length pre) ->
  ostack vs = VNum idx :: iter :: base ->
  N.of_nat (List.length (locals vs)) + N.of_nat (List.length base) + 4 <= StackSize ->
  forall r, iter_next iter idx = Some r ->
  vm_step p vs = Running {| ip := ip vs + 3;
                            ostack := match r with
                                      | Some v => VBool true :: v :: VNum (idx + 1)%float :: iter :: base
                                      | None => VBool false :: VNum (idx + 1)%float :: iter :: base
                                      end;
                            locals := locals vs; globals := globals vs |}.
Proof.
  intros HC HI HS HR r HN. rewrite (fetch_arg p vs IterRange 0 1 pre post HC HI eq_refl).
  unfold exec. rewrite HS. cbn [List.length Nat.ltb Nat.leb]. change (0 * 256 + 1) with 1.
  unfold iter_next in HN. unfold iter_range. destruct (float_to_Z idx) as [z|]; [|discriminate].
  destruct (z <? 0)%Z; [discriminate|]. inversion HN; subst r. unfold iter_elem.
  cbn [N.eqb Pos.eqb negb].
  set (val := match iter with
              | VArr l => nth_error l (Z.to_nat z)
              | VMap m => option_map (fun kv => VStr (fst kv)) (nth_error m (Z.to_nat z))
              | VStr s => if (Z.to_nat z <? List.length (utf8_decode s))%nat then Some (VStr (utf8_encode (firstn 1 (skipn (Z.to_nat z) (utf8_decode s))))) else None
              | _ => None
              end).
  unfold with_stack. destruct val; cbn [List.length];
    match goal with |- (if ?c then _ else _) = _ => destruct c eqn:E; [apply N.ltb_lt in E; lia|reflexivity] end.
Qed.

Lemma step_iterrange p vs pre post idx iter base :
  pcode p = pre ++ [N_of_opc IterRange; 0; 0] ++ post -> ip vs = N.of_nat (List.length pre) ->
  ostack vs = VNum idx :: iter :: base ->
  N.of_nat (List.length (locals vs)) + N.of_nat (List.length base) + 3 <= StackSize ->
  forall r, iter_next iter idx = Some r ->
  vm_step p vs = Running {| ip := ip vs + 3;
                            ostack := VBool (match r with Some _ => true | None => false end) :: VNum (idx + 1)%float :: iter :: base;
                            locals := locals vs; globals := globals vs |}.
Proof.
  intros HC HI HS HR r HN. rewrite (fetch_arg p vs IterRange 0 0 pre post HC HI eq_refl).
  unfold exec. rewrite HS. cbn [List.length Nat.ltb Nat.leb]. change (0 * 256 + 0) with 0.
  unfold iter_next in HN. unfold iter_range. destruct (float_to_Z idx) as [z|]; [|discriminate].
  destruct (z <? 0)%Z; [discriminate|]. inversion HN; subst r. unfold iter_elem.
  cbn [N.eqb negb].
  set (val := match iter with
              | VArr l => nth_error l (Z.to_nat z)
              | VMap m => option_map (fun kv => VStr (fst kv)) (nth_error m (Z.to_nat z))
              | VStr s => if (Z.to_nat z <? List.length (utf8_decode s))%nat then Some (VStr (utf8_encode (firstn 1 (skipn (Z.to_nat z) (utf8_decode s))))) else None
              | _ => None
              end).
  unfold with_stack. destruct val; cbn [List.length];
    match goal with |- (if ?c then _ else _) = _ => destruct c eqn:E; [apply N.ltb_lt in E; lia|reflexivity] end.
Qed.

Lemma step_drop2 p vs pre post a b base :
  pcode p = pre ++ [N_of_opc Drop; 0; 2] ++ post -> ip vs = N.of_nat (List.length pre) ->
  ostack vs = a :: b :: base ->
  vm_step p vs = Running {| ip := ip vs + 3; ostack := base; locals := locals vs; globals := globals vs |}.
Proof.
  intros HC HI HS. rewrite (fetch_arg p vs Drop 0 2 pre post HC HI eq_refl).
  unfold exec. change (0 * 256 + 2) with 2. cbn [simple_effect]. rewrite HS. reflexivity.
Qed.

Lemma step_onone p vs pre post :
  pcode p = pre ++ [N_of_opc ONone] ++ post -> ip vs = N.of_nat (List.length pre) ->
  N.of_nat (List.length (locals vs)) + N.of_nat (List.length (ostack vs)) + 1 <= StackSize ->
  vm_step p vs = Running {| ip := ip vs + 1; ostack := VNone :: ostack vs; locals := locals vs; globals := globals vs |}.
Proof.
  intros HC HI HR. rewrite (fetch_noarg p vs ONone pre post HC HI eq_refl).
  rewrite (exec_pure p vs ONone 0 (ip vs + 1) 0 VNone); try reflexivity; simpl; lia.
Qed.

Lemma step_setglobal p vs pre post sg idx v rest :
  jbytes SetGlobal idx sg -> pcode p = pre ++ sg ++ post -> ip vs = N.of_nat (List.length pre) ->
  ostack vs = v :: rest -> (N.to_nat idx < List.length (globals vs))%nat ->
  vm_step p vs = Running {| ip := ip vs + 3; ostack := rest; locals := locals vs; globals := set_nth (N.to_nat idx) v (globals vs) |}.
Proof.
  intros (hi & lo & -> & E) HC HI HS HL. rewrite (fetch_arg p vs SetGlobal hi lo pre post HC HI eq_refl).
  rewrite E. apply exec_setglobal; assumption.
Qed.

(* ---------- what the simulation assumes about the machine state ---------- *)
Definition slots_distinct (sym : symtab) : Prop :=
  forall n1 n2 y1 y2, st_resolve n1 sym = Some y1 -> st_resolve n2 sym = Some y2 -> sidx y1 = sidx y2 -> n1 = n2.
Definition slots_exist (sym : symtab) (g : list value) : Prop :=
  forall n y, st_resolve n sym = Some y -> (N.to_nat (sidx y) < List.length g)%nat.

Definition consts_of (p : program) (st : cstate) : Prop :=
  exists more, pconsts p = map const_value (cconsts st) ++ more.

Lemma consts_of_prefix p st st' newc : cconsts st' = cconsts st ++ newc -> consts_of p st' -> consts_of p st.
Proof. intros E (more & H). exists (map const_value newc ++ more). rewrite H, E, map_app, <- app_assoc. reflexivity. Qed.

Lemma globals_hold_same env a b g : same_resolve b a -> globals_hold env a g -> globals_hold env b g.
Proof. intros HS HG n y v HR HE. rewrite HS in HR. apply (HG n y v HR HE). Qed.
Lemma sym_static_same a b : same_resolve b a -> sym_static a -> sym_static b.
Proof. intros HS H n y HR. rewrite HS in HR. apply (H n y HR). Qed.
Lemma slots_distinct_same a b : same_resolve b a -> slots_distinct a -> slots_distinct b.
Proof. intros HS H n1 n2 y1 y2 H1 H2. rewrite HS in H1, H2. apply (H n1 n2 y1 y2 H1 H2). Qed.
Lemma slots_exist_same a b g : same_resolve b a -> slots_exist a g -> slots_exist b g.
Proof. intros HS H n y HR. rewrite HS in HR. apply (H n y HR). Qed.
Lemma same_resolve_refl a : same_resolve a a.
Proof. intro n. reflexivity. Qed.
Lemma same_resolve_eq a b : a = b -> same_resolve a b.
Proof. intros ->. apply same_resolve_refl. Qed.

(* ---------- consts and symbols along a layout ---------- *)
Lemma efrag_consts e st st1 : efrag e = true -> compile_expr true e st = COk st1 ->
  (exists newc, cconsts st1 = cconsts st ++ newc) /\ csym st1 = csym st.
Proof. intros HF HC. destruct (efrag_sl e HF st st1 HC) as (A & ops & newc & _ & C & _). split; [eauto|exact A]. Qed.

Ltac chain_consts :=
  eexists;
  repeat match goal with H : cconsts ?a = _ |- context [cconsts ?a] => rewrite H end;
  rewrite <- ?app_assoc; reflexivity.
Ltac chain_resolve :=
  let n := fresh "n" in intro n;
  repeat match goal with
         | H : same_resolve ?a _ |- context [st_resolve n ?a] => rewrite (H n)
         | H : csym ?a = _ |- context [csym ?a] => rewrite H
         end; reflexivity.

Lemma lay_frame :
  (forall brk s st st' bs seg, LAY brk s st st' bs seg -> (exists newc, cconsts st' = cconsts st ++ newc) /\ same_resolve (csym st') (csym st)) /\
  (forall brk l st st' bs seg, LAYL brk l st st' bs seg -> (exists newc, cconsts st' = cconsts st ++ newc) /\ same_resolve (csym st') (csym st)) /\
  (forall brk fin l els st st' End js bs seg, LAYC brk fin l els st st' End js bs seg ->
     (exists newc, cconsts st' = cconsts st ++ newc) /\ same_resolve (csym st') (csym st)) /\
  (forall b s3 st' S rop seg, LAYR b s3 st' S rop seg ->
     (exists newc, cconsts st' = cconsts s3 ++ newc) /\ same_resolve (csym st') (csym s3)).
Proof.
  apply LAY_mutind; intros;
    repeat match goal with
    | HF : efrag ?e = true, HC : compile_expr true ?e ?st = COk ?st1 |- _ =>
        let nc := fresh "nc" in let K := fresh "K" in let SE := fresh "SE" in
        destruct (efrag_consts e st st1 HF HC) as [(nc & K) SE]; clear HC
    | HC : emit_const true ?k ?st = COk ?st1 |- _ =>
        let K := fresh "Kk" in let SE := fresh "SEk" in
        destruct (const_sl _ _ _ HC) as (_ & SE & _ & K); clear HC
    | H : (exists newc, _) /\ _ |- _ => let nb := fresh "nb" in let Kb := fresh "Kb" in let Sb := fresh "Sb" in destruct H as [(nb & Kb) Sb]
    end;
    (split; [first [exists []; rewrite app_nil_r; first [reflexivity|assumption] | chain_consts]
            |first [apply same_resolve_refl | chain_resolve]]).
Qed.

Lemma lay_len :
  (forall brk s st st' bs seg, LAY brk s st st' bs seg -> True) /\
  (forall brk l st st' bs seg, LAYL brk l st st' bs seg ->
     N.of_nat (List.length (ccode st')) = N.of_nat (List.length (ccode st)) + N.of_nat (List.length seg)) /\
  (forall brk fin l els st st' End js bs seg, LAYC brk fin l els st st' End js bs seg ->
     End = N.of_nat (List.length (ccode st)) + N.of_nat (List.length seg)) /\
  (forall b s3 st' S rop seg, LAYR b s3 st' S rop seg -> True).
Proof.
  apply LAY_mutind; intros; auto.
  - simpl. lia.
  - rewrite app_length, Nat2N.inj_add. lia.
  - simpl. lia.
  - subst End. pose proof (jbytes_len _ _ _ j) as Lj.
    assert (Lje : List.length je = 3%nat).
    { destruct fin; cbn [jshape] in j0; [apply (jbytes_len _ _ _ j0)|destruct j0 as (hh & ll & ->); reflexivity]. }
    apply (f_equal (@List.length N)) in e1. rewrite app_length in e1.
    rewrite !app_length, Lj, Lje, !Nat2N.inj_add. lia.
Qed.

Lemma layl_len : forall brk l st st' bs seg, LAYL brk l st st' bs seg ->
  N.of_nat (List.length (ccode st')) = N.of_nat (List.length (ccode st)) + N.of_nat (List.length seg).
Proof. apply lay_len. Qed.

(* ---------- the simulation ---------- *)
(* base: what lies on the operand stack below the statement (the state of the
   enclosing range loops) *)
Definition mstate_ok (G : nat) (st : cstate) (env : genv) (base : list value) (vs : vmstate) : Prop :=
  ostack vs = base /\ locals vs = [] /\ globals_hold env (csym st) (globals vs) /\ slots_exist (csym st) (globals vs) /\
  List.length (globals vs) = G.

(* where the machine is after a statement: at the break target T if a break
   is under way, right after the code otherwise *)
Definition SIMs (fuel : nat) (T : N) (s : stmt) (st st' : cstate) (seg : list N) : Prop :=
  forall G env env' br base, exec_s fuel s env = Some (env', br) -> forall p vs pre post,
    pcode p = pre ++ seg ++ post -> List.length pre = List.length (ccode st) -> consts_of p st' ->
    ip vs = N.of_nat (List.length pre) -> mstate_ok G st env base vs ->
    sym_static (csym st) -> slots_distinct (csym st) -> N.of_nat (List.length base) + sdepth s <= StackSize ->
    exists vs', reaches p vs vs' /\ ip vs' = (if br then T else ip vs + N.of_nat (List.length seg)) /\ mstate_ok G st env' base vs'.

Definition SIMl (fuel : nat) (T : N) (l : slist) (st st' : cstate) (seg : list N) : Prop :=
  forall G env env' br base, exec_l fuel l env = Some (env', br) -> forall p vs pre post,
    pcode p = pre ++ seg ++ post -> List.length pre = List.length (ccode st) -> consts_of p st' ->
    ip vs = N.of_nat (List.length pre) -> mstate_ok G st env base vs ->
    sym_static (csym st) -> slots_distinct (csym st) -> N.of_nat (List.length base) + ldepth l <= StackSize ->
    exists vs', reaches p vs vs' /\ ip vs' = (if br then T else ip vs + N.of_nat (List.length seg)) /\ mstate_ok G st env' base vs'.

Definition odepth (els : oslist) : N := match els with NoElse => 0 | Else eb => ldepth eb end.

(* a chain ends at End, whichever block ran *)
Definition SIMc (fuel : nat) (T : N) (l : clist) (els : oslist) (st st' : cstate) (End : N) (seg : list N) : Prop :=
  forall G env env' br base, exec_c fuel l els env = Some (env', br) -> forall p vs pre post,
    pcode p = pre ++ seg ++ post -> List.length pre = List.length (ccode st) -> consts_of p st' ->
    ip vs = N.of_nat (List.length pre) -> mstate_ok G st env base vs ->
    sym_static (csym st) -> slots_distinct (csym st) ->
    N.of_nat (List.length base) + cdepth l <= StackSize -> N.of_nat (List.length base) + odepth els <= StackSize ->
    exists vs', reaches p vs vs' /\ ip vs' = (if br then T else End) /\ mstate_ok G st env' base vs'.

(* the loop part of a step range, entered with index / step / stop on the stack *)
Definition SIMr (fuel : nat) (b : slist) (s3 st' : cstate) (seg : list N) : Prop :=
  forall G env env' br idx stp stop base, exec_r fuel idx stp stop b env = Some (env', br) -> forall p vs pre post,
    pcode p = pre ++ seg ++ post -> List.length pre = List.length (ccode s3) -> consts_of p st' ->
    ip vs = N.of_nat (List.length pre) -> PrimFloat.eqb stp 0 = false ->
    mstate_ok G s3 env (VNum idx :: VNum stp :: VNum stop :: base) vs ->
    sym_static (csym s3) -> slots_distinct (csym s3) ->
    N.of_nat (List.length base) + 4 <= StackSize -> N.of_nat (List.length base) + 3 + ldepth b <= StackSize ->
    exists vs', reaches p vs vs' /\ ip vs' = ip vs + N.of_nat (List.length seg) /\ mstate_ok G s3 env' base vs'.

Definition SIMi (fuel : nat) (b : slist) (s3 st' : cstate) (seg : list N) : Prop :=
  forall G env env' br idx iter base, exec_i fuel idx iter b env = Some (env', br) -> forall p vs pre post,
    pcode p = pre ++ seg ++ post -> List.length pre = List.length (ccode s3) -> consts_of p st' ->
    ip vs = N.of_nat (List.length pre) ->
    mstate_ok G s3 env (VNum idx :: iter :: base) vs ->
    sym_static (csym s3) -> slots_distinct (csym s3) ->
    N.of_nat (List.length base) + 3 <= StackSize -> N.of_nat (List.length base) + 2 + ldepth b <= StackSize ->
    exists vs', reaches p vs vs' /\ ip vs' = ip vs + N.of_nat (List.length seg) /\ mstate_ok G s3 env' base vs'.

Lemma exec_i_false : forall fuel idx iter b env env' br,
  exec_i fuel idx iter b env = Some (env', br) -> br = false.
Proof.
  induction fuel as [|f IH]; intros idx iter b env env' br H; [discriminate|]. cbn [exec_i] in H.
  destruct (iter_next iter idx) as [[v|]|]; [|inversion H; reflexivity|discriminate].
  destruct (exec_l f b env) as [[env1 [|]]|]; [inversion H; reflexivity|apply (IH _ _ _ _ _ _ H)|discriminate].
Qed.

Lemma exec_r_false : forall fuel idx stp stop b env env' br,
  exec_r fuel idx stp stop b env = Some (env', br) -> br = false.
Proof.
  induction fuel as [|f IH]; intros idx stp stop b env env' br H; [discriminate|]. cbn [exec_r] in H.
  destruct (going idx stp stop); [|inversion H; reflexivity].
  destruct (exec_l f b env) as [[env1 [|]]|]; [inversion H; reflexivity|apply (IH _ _ _ _ _ _ _ H)|discriminate].
Qed.

Lemma store_global' env n v y sym (g : list value) :
  slots_distinct sym -> st_resolve n sym = Some y -> (N.to_nat (sidx y) < List.length g)%nat ->
  globals_hold env sym g -> globals_hold (upd env n v) sym (set_nth (N.to_nat (sidx y)) v g).
Proof.
  intros HD HR HL HG m ym vm HRm HEm. unfold upd in HEm.
  destruct (str_eqb m n) eqn:E.
  - apply str_eqb_eq in E. subst m. rewrite HR in HRm. inversion HRm; subst ym. inversion HEm; subst vm.
    apply nth_error_set_nth_same. exact HL.
  - rewrite nth_error_set_nth_other; [apply (HG m ym vm HRm HEm)|].
    intro EQ. assert (sidx y = sidx ym) by lia.
    pose proof (HD n m y ym HR HRm H) as ->. rewrite str_eqb_refl in E. discriminate.
Qed.

Lemma mstate_same G st st2 env base vs : same_resolve (csym st2) (csym st) -> mstate_ok G st env base vs -> mstate_ok G st2 env base vs.
Proof.
  intros HS (A & B & C & D & E). repeat split; auto; [eapply globals_hold_same; eauto|eapply slots_exist_same; eauto].
Qed.
Lemma mstate_same_back G st st2 env base vs : same_resolve (csym st2) (csym st) -> mstate_ok G st2 env base vs -> mstate_ok G st env base vs.
Proof.
  intros HS H. apply (mstate_same G st2 st env base vs); [intro n; rewrite HS; reflexivity|exact H].
Qed.

(* an expression of the fragment evaluated by the machine, from an empty stack *)
Lemma expr_runs G e st st1 seg_e env v base p vs pre post :
  efrag e = true -> compile_expr true e st = COk st1 -> ccode st1 = ccode st ++ seg_e ->
  eval_expr env e = Some v -> sym_static (csym st) ->
  pcode p = pre ++ seg_e ++ post -> consts_of p st1 -> ip vs = N.of_nat (List.length pre) ->
  mstate_ok G st env base vs -> N.of_nat (List.length base) + edepth e <= StackSize ->
  reaches p vs {| ip := ip vs + N.of_nat (List.length seg_e); ostack := v :: base; locals := locals vs; globals := globals vs |}.
Proof.
  intros HF HC HSeg HE HS HP (more & HK) HI (M1 & M2 & M3 & M4 & M5) HD.
  destruct (compile_expr_correct e HF env st st1 v HC HE HS) as (_ & seg & newc & B & _ & D).
  assert (seg = seg_e) by (rewrite HSeg in B; apply app_inv_head in B; congruence). subst seg.
  destruct (D p vs more pre post HP HK HI M3) as (n & R).
  - rewrite M1, M2. simpl. lia.
  - exists n. rewrite R, M1. reflexivity.
Qed.

Theorem sim_all : forall fuel,
  (forall T s st st' bs seg, LAY (Some T) s st st' bs seg -> SIMs fuel T s st st' seg) /\
  (forall T l st st' bs seg, LAYL (Some T) l st st' bs seg -> SIMl fuel T l st st' seg) /\
  (forall T l els st st' End js bs seg, LAYC (Some T) true l els st st' End js bs seg -> SIMc fuel T l els st st' End seg) /\
  (forall b s3 st' seg, LAYR b s3 st' 3 StepRange seg -> SIMr fuel b s3 st' seg) /\
  (forall b s3 st' seg, LAYR b s3 st' 2 IterRange seg -> SIMi fuel b s3 st' seg).
Proof.
  induction fuel as [|f (IHs & IHl & IHc & IHr & IHi)].
  - repeat split; intros; intros G env env' br; intros; simpl in *; discriminate.
  - split; [|split; [|split; [|split]]].
    + intros T s st st' bs seg HL. inversion HL; subst; intros G env env' br base HX p vs pre post HP HLen HK HI HM HSS HSD HDp.
      * (* assign *)
        cbn [exec_s] in HX. destruct (eval_expr env e) as [v|] eqn:HE; [|discriminate]. inversion HX; subst env' br.
        destruct (efrag_consts e st st1 H H0) as [(nc & K1) S1].
        assert (HK1 : consts_of p st1) by (destruct HK as (more & HK); exists more; rewrite HK, H5; reflexivity).
        cbn [sdepth] in HDp.
        pose proof (expr_runs G e st st1 seg_e env v base p vs pre (sg ++ post) H H0 H1 HE HSS
                      ltac:(rewrite HP, <- !app_assoc; reflexivity) HK1 HI HM HDp) as R1.
        set (vs1 := {| ip := ip vs + N.of_nat (List.length seg_e); ostack := v :: base; locals := locals vs; globals := globals vs |}) in *.
        destruct HM as (M1 & M2 & M3 & M4 & M5). destruct H4 as (hi & lo & -> & E4).
        pose proof (M4 n y H2) as HL4.
        eexists. split; [|split].
        -- eapply reaches_trans; [exact R1|]. apply reaches_step.
           rewrite (fetch_arg p vs1 SetGlobal hi lo (pre ++ seg_e) post);
             [|rewrite HP, <- !app_assoc; reflexivity|unfold vs1; simpl; rewrite HI, app_length; lia|reflexivity].
           rewrite (exec_setglobal p vs1 _ _ v base); [reflexivity|reflexivity|unfold vs1; simpl; rewrite E4; exact HL4].
        -- simpl. rewrite app_length. simpl. lia.
        -- unfold mstate_ok. simpl. rewrite E4. repeat split; auto.
           ++ apply store_global'; auto.
           ++ intros m ym HRm. rewrite set_nth_length. apply (M4 m ym HRm).
           ++ rewrite set_nth_length. exact M5.
      * (* empty *)
        cbn [exec_s] in HX. inversion HX; subst. exists vs. split; [apply reaches_refl|]. split; [simpl; lia|exact HM].
      * (* break *)
        cbn [exec_s] in HX. inversion HX; subst env' br. cbn [bshape] in H.
        pose proof (step_jump p vs pre post seg T H HP HI) as R.
        eexists. split; [apply reaches_step; exact R|]. split; [reflexivity|].
        destruct HM as (M1 & M2 & M3 & M4 & M5). unfold mstate_ok; simpl. repeat split; auto.
      * (* while *)
        cbn [exec_s] in HX. cbn [sdepth] in HDp.
        destruct (lay_frame) as (_ & LF & _). destruct (LF _ _ _ _ _ _ H5) as [(nb & Kb) Sb].
        destruct (efrag_consts c st st1 H H0) as [(nc & K1) S1].
        assert (HKb : consts_of p stb) by (destruct HK as (more & HK); exists more; rewrite HK, H8; reflexivity).
        assert (HK1 : consts_of p st1).
        { apply (consts_of_prefix p st1 stb nb); [rewrite Kb, H2; reflexivity|exact HKb]. }
        pose proof (jbytes_len _ _ _ H6) as Ljf. pose proof (jbytes_len _ _ _ H7) as Ljb.
        destruct (eval_expr env c) as [[| [] | | | | |]|] eqn:HE; try discriminate.
        -- (* true: one more iteration *)
           destruct (exec_l f b env) as [[env1 brb]|] eqn:HXb; [|discriminate].
           pose proof (expr_runs G c st st1 seg_c env (VBool true) base p vs pre (jf ++ seg_b ++ jb ++ post) H H0 H1 HE HSS
                         ltac:(rewrite HP, <- !app_assoc; reflexivity) HK1 HI HM ltac:(lia)) as R1.
           set (vs1 := {| ip := ip vs + N.of_nat (List.length seg_c); ostack := VBool true :: base; locals := locals vs; globals := globals vs |}) in *.
           pose proof (step_jof p vs1 (pre ++ seg_c) (seg_b ++ jb ++ post) jf _ true base H6
                         ltac:(rewrite HP, <- !app_assoc; reflexivity)
                         ltac:(unfold vs1; simpl; rewrite HI, app_length; lia) eq_refl) as R2.
           set (vs2 := {| ip := ip vs1 + 3; ostack := base; locals := locals vs1; globals := globals vs1 |}) in *.
           destruct HM as (M1 & M2 & M3 & M4 & M5).
           assert (HM2 : mstate_ok G stx env base vs2).
           { apply (mstate_same G st stx); [exact H3|]. unfold vs2, vs1; simpl. repeat split; auto. }
           destruct (IHl _ b stx stb _ seg_b H5 G env env1 brb base HXb p vs2 (pre ++ seg_c ++ jf) (jb ++ post)) as (vs3 & R3 & I3 & HM3).
           { rewrite HP, <- !app_assoc. reflexivity. }
           { rewrite !app_length, Ljf. apply Nat2N.inj. rewrite H4, H1, app_length, !Nat2N.inj_add, HLen. simpl. lia. }
           { exact HKb. }
           { unfold vs2, vs1; simpl. rewrite HI, !app_length, Ljf. lia. }
           { exact HM2. }
           { apply (sym_static_same (csym st)); assumption. }
           { apply (slots_distinct_same (csym st)); assumption. }
           { lia. }
           destruct brb.
           ++ (* the body broke out: the machine is at the end of the loop *)
              inversion HX; subst env' br.
              exists vs3. split; [|split].
              ** eapply reaches_trans; [exact R1|]. eapply reaches_trans; [apply reaches_step; exact R2|exact R3].
              ** rewrite I3, HI, HLen. reflexivity.
              ** apply (mstate_same_back G st stx); [exact H3|exact HM3].
           ++ pose proof (step_jump p vs3 (pre ++ seg_c ++ jf ++ seg_b) post jb _ H7
                         ltac:(rewrite HP, <- !app_assoc; reflexivity)
                         ltac:(rewrite I3; unfold vs2, vs1; simpl; rewrite HI, !app_length, Ljf; lia)) as R4.
              set (vs4 := {| ip := N.of_nat (List.length (ccode st)); ostack := ostack vs3; locals := locals vs3; globals := globals vs3 |}) in *.
              assert (HM4 : mstate_ok G st env1 base vs4).
              { apply (mstate_same_back G st stx); [exact H3|]. destruct HM3 as (A3 & B3 & C3 & D3 & E3). unfold vs4; simpl. repeat split; auto. }
              destruct (IHs _ _ _ _ _ _ HL G env1 env' br base HX p vs4 pre post HP HLen HK) as (vs5 & R5 & I5 & HM5); auto.
              { unfold vs4; simpl. rewrite HLen. reflexivity. }
              exists vs5. split; [|split; [|exact HM5]].
              ** eapply reaches_trans; [exact R1|]. eapply reaches_trans; [apply reaches_step; exact R2|].
                 eapply reaches_trans; [exact R3|]. eapply reaches_trans; [apply reaches_step; exact R4|exact R5].
              ** rewrite I5. unfold vs4; simpl. rewrite HI, HLen. reflexivity.
        -- (* false: leave the loop *)
           inversion HX; subst env' br.
           pose proof (expr_runs G c st st1 seg_c env (VBool false) base p vs pre (jf ++ seg_b ++ jb ++ post) H H0 H1 HE HSS
                         ltac:(rewrite HP, <- !app_assoc; reflexivity) HK1 HI HM ltac:(lia)) as R1.
           set (vs1 := {| ip := ip vs + N.of_nat (List.length seg_c); ostack := VBool false :: base; locals := locals vs; globals := globals vs |}) in *.
           pose proof (step_jof p vs1 (pre ++ seg_c) (seg_b ++ jb ++ post) jf _ false base H6
                         ltac:(rewrite HP, <- !app_assoc; reflexivity)
                         ltac:(unfold vs1; simpl; rewrite HI, app_length; lia) eq_refl) as R2.
           eexists. split; [eapply reaches_trans; [exact R1|apply reaches_step; exact R2]|].
           destruct HM as (M1 & M2 & M3 & M4 & M5). split; [simpl; rewrite HI, HLen; reflexivity|].
           unfold mstate_ok, vs1; simpl. repeat split; auto.
      * (* for range, step form: the operands, then the loop part *)
        cbn [exec_s] in HX. cbn [sdepth] in HDp.
        set (estep := match step with OSome e => e | ONoneE => ENum 1 end) in *.
        set (estart := match start with OSome e => e | ONoneE => ENum 0 end) in *.
        destruct (eval_expr env stop) as [[vstop| | | | | |]|] eqn:HE1; try discriminate.
        destruct (eval_expr env estep) as [[vstep| | | | | |]|] eqn:HE2; try discriminate.
        destruct (eval_expr env estart) as [[vstart| | | | | |]|] eqn:HE3; try discriminate.
        destruct (PrimFloat.eqb vstep 0) eqn:HZ; [discriminate|].
        pose proof (exec_r_false _ _ _ _ _ _ _ _ HX) as ->.
        destruct (efrag_consts stop st s1 H H0) as [(n1 & K1) S1].
        destruct (efrag_consts estep s1 s2 H2 H3) as [(n2 & K2) S2].
        destruct (efrag_consts estart s2 s3 H5 H6) as [(n3 & K3) S3].
        destruct (proj2 (proj2 (proj2 lay_frame)) _ _ _ _ _ _ H8) as [(nr & Kr) Sr].
        assert (HK3 : consts_of p s3) by (apply (consts_of_prefix p s3 st' nr Kr HK)).
        assert (HK2 : consts_of p s2) by (apply (consts_of_prefix p s2 s3 n3 K3 HK3)).
        assert (HK1 : consts_of p s1) by (apply (consts_of_prefix p s1 s2 n2 K2 HK2)).
        pose proof (expr_runs G stop st s1 seg1 env (VNum vstop) base p vs pre (seg2 ++ seg3 ++ seg_r ++ post) H H0 H1 HE1 HSS
                      ltac:(rewrite HP, <- !app_assoc; reflexivity) HK1 HI HM ltac:(lia)) as R1.
        set (vs1 := {| ip := ip vs + N.of_nat (List.length seg1); ostack := VNum vstop :: base; locals := locals vs; globals := globals vs |}) in *.
        destruct HM as (M1 & M2 & M3 & M4 & M5).
        assert (HM1 : mstate_ok G s1 env (VNum vstop :: base) vs1).
        { unfold mstate_ok, vs1; simpl. rewrite S1. repeat split; auto. }
        assert (HSS1 : sym_static (csym s1)) by (rewrite S1; exact HSS).
        pose proof (expr_runs G estep s1 s2 seg2 env (VNum vstep) (VNum vstop :: base) p vs1 (pre ++ seg1) (seg3 ++ seg_r ++ post) H2 H3 H4 HE2 HSS1
                      ltac:(rewrite HP, <- !app_assoc; reflexivity) HK2 ltac:(unfold vs1; simpl; rewrite HI, app_length; lia) HM1
                      ltac:(cbn [List.length]; lia)) as R2.
        set (vs2 := {| ip := ip vs1 + N.of_nat (List.length seg2); ostack := VNum vstep :: VNum vstop :: base; locals := locals vs1; globals := globals vs1 |}) in *.
        assert (HM2 : mstate_ok G s2 env (VNum vstep :: VNum vstop :: base) vs2).
        { unfold mstate_ok, vs2, vs1; simpl. rewrite S2, S1. repeat split; auto. }
        assert (HSS2 : sym_static (csym s2)) by (rewrite S2, S1; exact HSS).
        pose proof (expr_runs G estart s2 s3 seg3 env (VNum vstart) (VNum vstep :: VNum vstop :: base) p vs2 (pre ++ seg1 ++ seg2) (seg_r ++ post) H5 H6 H7 HE3 HSS2
                      ltac:(rewrite HP, <- !app_assoc; reflexivity) HK3 ltac:(unfold vs2, vs1; simpl; rewrite HI, !app_length; lia) HM2
                      ltac:(cbn [List.length]; lia)) as R3.
        set (vs3 := {| ip := ip vs2 + N.of_nat (List.length seg3); ostack := VNum vstart :: VNum vstep :: VNum vstop :: base; locals := locals vs2; globals := globals vs2 |}) in *.
        assert (HM3 : mstate_ok G s3 env (VNum vstart :: VNum vstep :: VNum vstop :: base) vs3).
        { unfold mstate_ok, vs3, vs2, vs1; simpl. rewrite S3, S2, S1. repeat split; auto. }
        destruct (IHr b s3 st' seg_r H8 G env env' false vstart vstep vstop base HX p vs3 (pre ++ seg1 ++ seg2 ++ seg3) post) as (vs4 & R4 & I4 & HM4).
        { rewrite HP, <- !app_assoc. reflexivity. }
        { rewrite !app_length, H7, H4, H1, !app_length, HLen. lia. }
        { exact HK. }
        { unfold vs3, vs2, vs1; simpl. rewrite HI, !app_length. lia. }
        { exact HZ. }
        { exact HM3. }
        { rewrite S3, S2, S1; exact HSS. }
        { rewrite S3, S2, S1; exact HSD. }
        { lia. }
        { lia. }
        exists vs4. split; [|split].
        -- eapply reaches_trans; [exact R1|]. eapply reaches_trans; [exact R2|]. eapply reaches_trans; [exact R3|exact R4].
        -- rewrite I4. unfold vs3, vs2, vs1; simpl. rewrite !app_length. lia.
        -- destruct HM4 as (A1 & A2 & A3 & A4 & A5). rewrite S3, S2, S1 in A3, A4. repeat split; auto.
      * (* for range iterable (no loop variable): the iterable, the counter 0, the loop part *)
        cbn [exec_s] in HX. cbn [sdepth] in HDp.
        assert (HX' : match eval_expr env e with Some iter => exec_i f 0%float iter b env | None => None end = Some (env', br))
          by (destruct H as [->|[->| ->]]; exact HX). clear HX.
        destruct (eval_expr env e) as [iter|] eqn:HE1; [|discriminate].
        pose proof (exec_i_false _ _ _ _ _ _ _ HX') as ->.
        destruct (efrag_consts e st s1 H0 H1) as [(n1 & K1) S1].
        destruct (const_correct _ _ _ H3) as (S2 & segk' & C2 & K2 & D2).
        assert (segk' = segk) by (rewrite C2 in H4; apply app_inv_head in H4; exact H4). subst segk'.
        destruct (proj2 (proj2 (proj2 lay_frame)) _ _ _ _ _ _ H5) as [(nr & Kr) Sr].
        assert (HK2 : consts_of p s2) by (apply (consts_of_prefix p s2 st' nr Kr HK)).
        assert (HK1 : consts_of p s1) by (apply (consts_of_prefix p s1 s2 [KNum 0] K2 HK2)).
        pose proof (expr_runs G e st s1 seg1 env iter base p vs pre (segk ++ seg_r ++ post) H0 H1 H2 HE1 HSS
                      ltac:(rewrite HP, <- !app_assoc; reflexivity) HK1 HI HM ltac:(lia)) as R1.
        set (vs1 := {| ip := ip vs + N.of_nat (List.length seg1); ostack := iter :: base; locals := locals vs; globals := globals vs |}) in *.
        destruct HM as (M1 & M2 & M3 & M4 & M5).
        destruct HK2 as (more2 & HK2).
        destruct (D2 p vs1 more2 (pre ++ seg1) (seg_r ++ post)) as (nk & R2).
        { rewrite HP, <- !app_assoc. reflexivity. }
        { exact HK2. }
        { unfold vs1; simpl. rewrite HI, app_length. lia. }
        { unfold vs1; simpl. rewrite M2. simpl. lia. }
        cbn [const_value] in R2.
        set (vs2 := {| ip := ip vs1 + N.of_nat (List.length segk); ostack := VNum 0 :: ostack vs1; locals := locals vs1; globals := globals vs1 |}) in *.
        assert (HM2 : mstate_ok G s2 env (VNum 0 :: iter :: base) vs2).
        { unfold mstate_ok, vs2, vs1; simpl. rewrite S2, S1. repeat split; auto. }
        destruct (IHi b s2 st' seg_r H5 G env env' false 0%float iter base HX' p vs2 (pre ++ seg1 ++ segk) post) as (vs4 & R4 & I4 & HM4).
        { rewrite HP, <- !app_assoc. reflexivity. }
        { rewrite !app_length, H4, H2, !app_length, HLen. lia. }
        { exact HK. }
        { unfold vs2, vs1; simpl. rewrite HI, !app_length. lia. }
        { exact HM2. }
        { rewrite S2, S1; exact HSS. }
        { rewrite S2, S1; exact HSD. }
        { lia. }
        { lia. }
        exists vs4. split; [|split].
        -- eapply reaches_trans; [exact R1|]. eapply reaches_trans; [exists nk; exact R2|exact R4].
        -- rewrite I4. unfold vs2, vs1; simpl. rewrite !app_length. lia.
        -- destruct HM4 as (A1 & A2 & A3 & A4 & A5). rewrite S2, S1 in A3, A4. repeat split; auto.
      * (* if: the chain *)
        cbn [exec_s] in HX. cbn [sdepth] in HDp.
        destruct (IHc _ _ _ _ _ _ _ _ _ H G env env' br base HX p vs pre post HP HLen) as (vs' & R & I & HM'); auto.
        { destruct HK as (more & HK); exists more; rewrite HK, H0; reflexivity. }
        { cbn [cdepth]. lia. }
        { unfold odepth. lia. }
        exists vs'. split; [exact R|]. split; [rewrite I, HI, HLen; reflexivity|exact HM'].
    + intros T l st st' bs seg HL. inversion HL; subst; intros G env env' br base HX p vs pre post HP HLen HK HI HM HSS HSD HDp.
      * cbn [exec_l] in HX. inversion HX; subst. exists vs. split; [apply reaches_refl|]. split; [simpl; lia|exact HM].
      * cbn [exec_l] in HX. cbn [ldepth] in HDp.
        destruct (exec_s f s env) as [[env1 br1]|] eqn:HX1; [|discriminate].
        destruct (lay_frame) as (LFs & LFl & _). destruct (LFs _ _ _ _ _ _ H) as [(n1 & K1) S1]. destruct (LFl _ _ _ _ _ _ H1) as [(n2 & K2) S2].
        assert (HK1 : consts_of p st1) by (apply (consts_of_prefix p st1 st' n2 K2 HK)).
        destruct (IHs _ s st st1 _ seg1 H G env env1 br1 base HX1 p vs pre (seg2 ++ post)) as (vs1 & R1 & I1 & HM1); auto.
        { rewrite HP, <- !app_assoc. reflexivity. }
        { lia. }
        destruct br1.
        -- inversion HX; subst env' br. exists vs1. split; [exact R1|]. split; [exact I1|exact HM1].
        -- destruct (IHl _ t st1 st' _ seg2 H1 G env1 env' br base HX p vs1 (pre ++ seg1) post) as (vs2 & R2 & I2 & HM2).
           { rewrite HP, <- !app_assoc. reflexivity. }
           { rewrite app_length. apply Nat2N.inj. rewrite H0, Nat2N.inj_add, HLen. reflexivity. }
           { exact HK. }
           { rewrite I1, HI, app_length. lia. }
           { apply (mstate_same G st st1); [exact S1|exact HM1]. }
           { apply (sym_static_same (csym st)); assumption. }
           { apply (slots_distinct_same (csym st)); assumption. }
           { lia. }
           exists vs2. split; [eapply reaches_trans; eauto|]. split; [rewrite I2, I1, app_length; destruct br; [reflexivity|lia]|].
           apply (mstate_same_back G st st1); [exact S1|exact HM2].
    + intros T l els st st' End js bs seg HL. inversion HL; subst; intros G env env' br base HX p vs pre post HP HLen HK HI HM HSS HSD HDp HDo.
      * (* no more conditions, no else *)
        cbn [exec_c] in HX. inversion HX; subst. exists vs. split; [apply reaches_refl|]. split; [rewrite HI, HLen; reflexivity|exact HM].
      * (* the else block *)
        cbn [exec_c] in HX. unfold odepth in HDo.
        match goal with HL0 : LAYL _ eb sty st' _ seg |- _ => destruct (IHl _ eb sty st' _ seg HL0 G env env' br base HX p vs pre post HP) as (vs3 & R3 & I3 & HM3) end; auto; [congruence|apply (mstate_same G st sty); assumption|apply (sym_static_same (csym st)); assumption|apply (slots_distinct_same (csym st)); assumption|].
        exists vs3. split; [exact R3|]. split; [rewrite I3, HI, HLen; reflexivity|].
        apply (mstate_same_back G st sty); assumption.
      * (* a condition *)
        cbn [exec_c] in HX. cbn [cdepth] in HDp. cbn [jshape] in H7.
        destruct (lay_frame) as (_ & LF & LFc & _). destruct (LF _ _ _ _ _ _ H5) as [(nb & Kb) Sb]. destruct (LFc _ _ _ _ _ _ _ _ _ _ H11) as [(nr & Kr) Sr].
        destruct (efrag_consts c st st1 H H0) as [(nc & K1) S1].
        assert (HKb : consts_of p stb).
        { apply (consts_of_prefix p stb st' nr); [rewrite Kr, H8; reflexivity|exact HK]. }
        assert (HK1 : consts_of p st1).
        { apply (consts_of_prefix p st1 stb nb); [rewrite Kb, H2; reflexivity|exact HKb]. }
        pose proof (jbytes_len _ _ _ H6) as Ljf. pose proof (jbytes_len _ _ _ H7) as Lje.
        pose proof (layl_len _ _ _ _ _ _ H5) as LLb.
        destruct (eval_expr env c) as [[| [] | | | | |]|] eqn:HE; try discriminate.
        -- pose proof (expr_runs G c st st1 seg_c env (VBool true) base p vs pre (jf ++ seg_b ++ je ++ seg_r ++ post) H H0 H1 HE HSS
                         ltac:(rewrite HP, <- !app_assoc; reflexivity) HK1 HI HM ltac:(lia)) as R1.
           set (vs1 := {| ip := ip vs + N.of_nat (List.length seg_c); ostack := VBool true :: base; locals := locals vs; globals := globals vs |}) in *.
           pose proof (step_jof p vs1 (pre ++ seg_c) (seg_b ++ je ++ seg_r ++ post) jf _ true base H6
                         ltac:(rewrite HP, <- !app_assoc; reflexivity)
                         ltac:(unfold vs1; simpl; rewrite HI, app_length; lia) eq_refl) as R2.
           set (vs2 := {| ip := ip vs1 + 3; ostack := base; locals := locals vs1; globals := globals vs1 |}) in *.
           destruct HM as (M1 & M2 & M3 & M4 & M5).
           assert (HM2 : mstate_ok G stx env base vs2).
           { apply (mstate_same G st stx); [exact H3|]. unfold vs2, vs1; simpl. repeat split; auto. }
           destruct (IHl _ b stx stb _ seg_b H5 G env env' br base HX p vs2 (pre ++ seg_c ++ jf) (je ++ seg_r ++ post)) as (vs3 & R3 & I3 & HM3).
           { rewrite HP, <- !app_assoc. reflexivity. }
           { rewrite !app_length, Ljf. apply Nat2N.inj. rewrite H4, H1, app_length, !Nat2N.inj_add, HLen. simpl. lia. }
           { exact HKb. }
           { unfold vs2, vs1; simpl. rewrite HI, !app_length, Ljf. lia. }
           { exact HM2. }
           { apply (sym_static_same (csym st)); assumption. }
           { apply (slots_distinct_same (csym st)); assumption. }
           { lia. }
           destruct br.
           ++ exists vs3. split; [|split].
              ** eapply reaches_trans; [exact R1|]. eapply reaches_trans; [apply reaches_step; exact R2|exact R3].
              ** exact I3.
              ** apply (mstate_same_back G st stx); [exact H3|exact HM3].
           ++ pose proof (step_jump p vs3 (pre ++ seg_c ++ jf ++ seg_b) (seg_r ++ post) je _ H7
                         ltac:(rewrite HP, <- !app_assoc; reflexivity)
                         ltac:(rewrite I3; unfold vs2, vs1; simpl; rewrite HI, !app_length, Ljf; lia)) as R4.
              eexists. split; [|split].
              ** eapply reaches_trans; [exact R1|]. eapply reaches_trans; [apply reaches_step; exact R2|].
                 eapply reaches_trans; [exact R3|apply reaches_step; exact R4].
              ** reflexivity.
              ** apply (mstate_same_back G st stx); [exact H3|]. destruct HM3 as (A3 & B3 & C3 & D3 & E3). simpl. repeat split; auto.
        -- pose proof (expr_runs G c st st1 seg_c env (VBool false) base p vs pre (jf ++ seg_b ++ je ++ seg_r ++ post) H H0 H1 HE HSS
                         ltac:(rewrite HP, <- !app_assoc; reflexivity) HK1 HI HM ltac:(lia)) as R1.
           set (vs1 := {| ip := ip vs + N.of_nat (List.length seg_c); ostack := VBool false :: base; locals := locals vs; globals := globals vs |}) in *.
           pose proof (step_jof p vs1 (pre ++ seg_c) (seg_b ++ je ++ seg_r ++ post) jf _ false base H6
                         ltac:(rewrite HP, <- !app_assoc; reflexivity)
                         ltac:(unfold vs1; simpl; rewrite HI, app_length; lia) eq_refl) as R2.
           set (vs2 := {| ip := N.of_nat (List.length (ccode st)) + N.of_nat (List.length (seg_c ++ jf ++ seg_b ++ je));
                          ostack := base; locals := locals vs1; globals := globals vs1 |}) in *.
           destruct HM as (M1 & M2 & M3 & M4 & M5).
           assert (HM2 : mstate_ok G sty env base vs2).
           { apply (mstate_same G st sty); [exact H9|]. unfold vs2, vs1; simpl. repeat split; auto. }
           destruct (IHc _ t els sty st' End _ _ seg_r H11 G env env' br base HX p vs2 (pre ++ seg_c ++ jf ++ seg_b ++ je) post) as (vs3 & R3 & I3 & HM3).
           { rewrite HP, <- !app_assoc. reflexivity. }
           { assert (X : N.of_nat (List.length (ccode st1)) = N.of_nat (List.length (ccode st)) + N.of_nat (List.length seg_c)) by (rewrite H1, app_length; lia).
             apply Nat2N.inj. rewrite !app_length, Ljf, Lje. lia. }
           { exact HK. }
           { unfold vs2; simpl. rewrite !app_length, HLen. lia. }
           { exact HM2. }
           { apply (sym_static_same (csym st)); assumption. }
           { apply (slots_distinct_same (csym st)); assumption. }
           { lia. }
           { exact HDo. }
           exists vs3. split; [|split].
           ++ eapply reaches_trans; [exact R1|]. eapply reaches_trans; [apply reaches_step; exact R2|exact R3].
           ++ exact I3.
           ++ apply (mstate_same_back G st sty); [exact H9|exact HM3].
    + intros b s3 st' seg HL. inversion HL; subst.
      intros G env env' br idx stp stop base HX p vs pre post HP HLen HK HI HZ HM HSS HSD HD4 HDb.
      cbn [exec_r] in HX.
      set (sr := [N_of_opc StepRange; 0; 0]) in *. set (dr := [N_of_opc Drop; 0; 3]) in *.
      set (Endp := N.of_nat (List.length (ccode s3)) + N.of_nat (List.length (sr ++ jf ++ seg_b ++ jb))) in *.
      destruct (lay_frame) as (_ & LF & _). destruct (LF _ _ _ _ _ _ H2) as [(nb & Kb) Sb].
      assert (HKb : consts_of p stb) by (destruct HK as (more & HK); exists more; rewrite HK, H5; reflexivity).
      pose proof (jbytes_len _ _ _ H3) as Ljf. pose proof (jbytes_len _ _ _ H4) as Ljb.
      destruct HM as (M1 & M2 & M3 & M4 & M5).
      pose proof (step_steprange p vs pre (jf ++ seg_b ++ jb ++ dr ++ post) idx stp stop base
                    ltac:(rewrite HP; unfold sr; rewrite <- !app_assoc; reflexivity) HI M1 HZ ltac:(rewrite M2; simpl; lia)) as R1.
      set (vs1 := {| ip := ip vs + 3; ostack := VBool (going idx stp stop) :: VNum (idx + stp)%float :: VNum stp :: VNum stop :: base;
                     locals := locals vs; globals := globals vs |}) in *.
      set (base' := VNum (idx + stp)%float :: VNum stp :: VNum stop :: base) in *.
      pose proof (step_jof p vs1 (pre ++ sr) (seg_b ++ jb ++ dr ++ post) jf _ (going idx stp stop) base' H3
                    ltac:(rewrite HP, <- !app_assoc; reflexivity)
                    ltac:(unfold vs1, sr; simpl; rewrite HI, app_length; simpl; lia) eq_refl) as R2.
      (* the exit: OpDrop 3 *)
      assert (EXIT : forall env2 vsd, ip vsd = Endp -> ostack vsd = base' -> locals vsd = [] ->
                globals_hold env2 (csym s3) (globals vsd) -> slots_exist (csym s3) (globals vsd) -> List.length (globals vsd) = G ->
                exists vs', reaches p vsd vs' /\ ip vs' = ip vs + N.of_nat (List.length (sr ++ jf ++ seg_b ++ jb ++ dr)) /\ mstate_ok G s3 env2 base vs').
      { intros env2 vsd ID OD LD GD SD ND.
        pose proof (step_drop3 p vsd (pre ++ sr ++ jf ++ seg_b ++ jb) post _ _ _ base
                      ltac:(rewrite HP; unfold dr; rewrite <- !app_assoc; reflexivity)
                      ltac:(rewrite ID; unfold Endp; rewrite !app_length, HLen, !Nat2N.inj_add; lia) OD) as RD.
        eexists. split; [apply reaches_step; exact RD|]. split.
        - simpl. rewrite ID, HI. unfold Endp, dr. rewrite !app_length, HLen. simpl. lia.
        - unfold mstate_ok; simpl. repeat split; auto. }
      destruct (going idx stp stop) eqn:HG.
      * destruct (exec_l f b env) as [[env1 brb]|] eqn:HXb; [|discriminate].
        set (vs2 := {| ip := ip vs1 + 3; ostack := base'; locals := locals vs1; globals := globals vs1 |}) in *.
        assert (HM2 : mstate_ok G stx env base' vs2).
        { apply (mstate_same G s3 stx); [exact H0|]. unfold vs2, vs1; simpl. repeat split; auto. }
        destruct (IHl _ b stx stb _ seg_b H2 G env env1 brb base' HXb p vs2 (pre ++ sr ++ jf) (jb ++ dr ++ post)) as (vs3 & R3 & I3 & HM3).
        { rewrite HP, <- !app_assoc. reflexivity. }
        { rewrite !app_length, Ljf. apply Nat2N.inj. rewrite H1, !Nat2N.inj_add, HLen. unfold sr. simpl. lia. }
        { exact HKb. }
        { unfold vs2, vs1; cbn [ip]. rewrite HI, !app_length, Ljf. unfold sr. simpl. lia. }
        { exact HM2. }
        { apply (sym_static_same (csym s3)); assumption. }
        { apply (slots_distinct_same (csym s3)); assumption. }
        { unfold base'. cbn [List.length]. lia. }
        pose proof (mstate_same_back G s3 stx env1 base' vs3 H0 HM3) as (B1 & B2 & B3 & B4 & B5).
        destruct brb.
        -- (* break: the machine is at the OpDrop *)
           inversion HX; subst env' br.
           destruct (EXIT env1 vs3 I3 B1 B2 B3 B4 B5) as (vs' & RE & IE & ME).
           exists vs'. split; [|split; [exact IE|exact ME]].
           eapply reaches_trans; [apply reaches_step; exact R1|]. eapply reaches_trans; [apply reaches_step; exact R2|].
           eapply reaches_trans; [exact R3|exact RE].
        -- pose proof (step_jump p vs3 (pre ++ sr ++ jf ++ seg_b) (dr ++ post) jb _ H4
                         ltac:(rewrite HP, <- !app_assoc; reflexivity)
                         ltac:(rewrite I3; unfold vs2, vs1; cbn [ip]; rewrite HI, !app_length, Ljf; unfold sr; simpl; lia)) as R4.
           set (vs4 := {| ip := N.of_nat (List.length (ccode s3)); ostack := ostack vs3; locals := locals vs3; globals := globals vs3 |}) in *.
           assert (HM4 : mstate_ok G s3 env1 base' vs4) by (unfold vs4, mstate_ok; simpl; repeat split; auto).
           destruct (IHr b s3 st' _ HL G env1 env' br (idx + stp)%float stp stop base HX p vs4 pre post HP HLen HK) as (vs5 & R5 & I5 & HM5); auto.
           { unfold vs4; simpl. rewrite HLen. reflexivity. }
           exists vs5. split; [|split; [|exact HM5]].
           ++ eapply reaches_trans; [apply reaches_step; exact R1|]. eapply reaches_trans; [apply reaches_step; exact R2|].
              eapply reaches_trans; [exact R3|]. eapply reaches_trans; [apply reaches_step; exact R4|exact R5].
           ++ rewrite I5. unfold vs4; simpl. rewrite HI, HLen. reflexivity.
      * (* the range is exhausted *)
        inversion HX; subst env' br.
        set (vs2 := {| ip := Endp; ostack := base'; locals := locals vs1; globals := globals vs1 |}) in *.
        destruct (EXIT env vs2 eq_refl eq_refl M2 M3 M4 M5) as (vs' & RE & IE & ME).
        exists vs'. split; [|split; [exact IE|exact ME]].
        eapply reaches_trans; [apply reaches_step; exact R1|]. eapply reaches_trans; [apply reaches_step; exact R2|exact RE].
    + intros b s3 st' seg HL. inversion HL; subst.
      intros G env env' br idx iter base HX p vs pre post HP HLen HK HI HM HSS HSD HD4 HDb.
      cbn [exec_i] in HX.
      set (sr := [N_of_opc IterRange; 0; 0]) in *. set (dr := [N_of_opc Drop; 0; 2]) in *.
      set (Endp := N.of_nat (List.length (ccode s3)) + N.of_nat (List.length (sr ++ jf ++ seg_b ++ jb))) in *.
      destruct (lay_frame) as (_ & LF & _). destruct (LF _ _ _ _ _ _ H2) as [(nb & Kb) Sb].
      assert (HKb : consts_of p stb) by (destruct HK as (more & HK); exists more; rewrite HK, H5; reflexivity).
      pose proof (jbytes_len _ _ _ H3) as Ljf. pose proof (jbytes_len _ _ _ H4) as Ljb.
      destruct HM as (M1 & M2 & M3 & M4 & M5).
      destruct (iter_next iter idx) as [r|] eqn:HN; [|discriminate].
      pose proof (step_iterrange p vs pre (jf ++ seg_b ++ jb ++ dr ++ post) idx iter base
                    ltac:(rewrite HP; unfold sr; rewrite <- !app_assoc; reflexivity) HI M1 ltac:(rewrite M2; simpl; lia) r HN) as R1.
      set (gg := match r with Some _ => true | None => false end) in *.
      set (vs1 := {| ip := ip vs + 3; ostack := VBool gg :: VNum (idx + 1)%float :: iter :: base;
                     locals := locals vs; globals := globals vs |}) in *.
      set (base' := VNum (idx + 1)%float :: iter :: base) in *.
      pose proof (step_jof p vs1 (pre ++ sr) (seg_b ++ jb ++ dr ++ post) jf _ gg base' H3
                    ltac:(rewrite HP, <- !app_assoc; reflexivity)
                    ltac:(unfold vs1, sr; simpl; rewrite HI, app_length; simpl; lia) eq_refl) as R2.
      (* the exit: OpDrop 3 *)
      assert (EXIT : forall env2 vsd, ip vsd = Endp -> ostack vsd = base' -> locals vsd = [] ->
                globals_hold env2 (csym s3) (globals vsd) -> slots_exist (csym s3) (globals vsd) -> List.length (globals vsd) = G ->
                exists vs', reaches p vsd vs' /\ ip vs' = ip vs + N.of_nat (List.length (sr ++ jf ++ seg_b ++ jb ++ dr)) /\ mstate_ok G s3 env2 base vs').
      { intros env2 vsd ID OD LD GD SD ND.
        pose proof (step_drop2 p vsd (pre ++ sr ++ jf ++ seg_b ++ jb) post _ _ base
                      ltac:(rewrite HP; unfold dr; rewrite <- !app_assoc; reflexivity)
                      ltac:(rewrite ID; unfold Endp; rewrite !app_length, HLen, !Nat2N.inj_add; lia) OD) as RD.
        eexists. split; [apply reaches_step; exact RD|]. split.
        - simpl. rewrite ID, HI. unfold Endp, dr. rewrite !app_length, HLen. simpl. lia.
        - unfold mstate_ok; simpl. repeat split; auto. }
      destruct r as [v|]; unfold gg in *; clear gg.
      * destruct (exec_l f b env) as [[env1 brb]|] eqn:HXb; [|discriminate].
        set (vs2 := {| ip := ip vs1 + 3; ostack := base'; locals := locals vs1; globals := globals vs1 |}) in *.
        assert (HM2 : mstate_ok G stx env base' vs2).
        { apply (mstate_same G s3 stx); [exact H0|]. unfold vs2, vs1; simpl. repeat split; auto. }
        destruct (IHl _ b stx stb _ seg_b H2 G env env1 brb base' HXb p vs2 (pre ++ sr ++ jf) (jb ++ dr ++ post)) as (vs3 & R3 & I3 & HM3).
        { rewrite HP, <- !app_assoc. reflexivity. }
        { rewrite !app_length, Ljf. apply Nat2N.inj. rewrite H1, !Nat2N.inj_add, HLen. unfold sr. simpl. lia. }
        { exact HKb. }
        { unfold vs2, vs1; cbn [ip]. rewrite HI, !app_length, Ljf. unfold sr. simpl. lia. }
        { exact HM2. }
        { apply (sym_static_same (csym s3)); assumption. }
        { apply (slots_distinct_same (csym s3)); assumption. }
        { unfold base'. cbn [List.length]. lia. }
        pose proof (mstate_same_back G s3 stx env1 base' vs3 H0 HM3) as (B1 & B2 & B3 & B4 & B5).
        destruct brb.
        -- (* break: the machine is at the OpDrop *)
           inversion HX; subst env' br.
           destruct (EXIT env1 vs3 I3 B1 B2 B3 B4 B5) as (vs' & RE & IE & ME).
           exists vs'. split; [|split; [exact IE|exact ME]].
           eapply reaches_trans; [apply reaches_step; exact R1|]. eapply reaches_trans; [apply reaches_step; exact R2|].
           eapply reaches_trans; [exact R3|exact RE].
        -- pose proof (step_jump p vs3 (pre ++ sr ++ jf ++ seg_b) (dr ++ post) jb _ H4
                         ltac:(rewrite HP, <- !app_assoc; reflexivity)
                         ltac:(rewrite I3; unfold vs2, vs1; cbn [ip]; rewrite HI, !app_length, Ljf; unfold sr; simpl; lia)) as R4.
           set (vs4 := {| ip := N.of_nat (List.length (ccode s3)); ostack := ostack vs3; locals := locals vs3; globals := globals vs3 |}) in *.
           assert (HM4 : mstate_ok G s3 env1 base' vs4) by (unfold vs4, mstate_ok; simpl; repeat split; auto).
           destruct (IHi b s3 st' _ HL G env1 env' br (idx + 1)%float iter base HX p vs4 pre post HP HLen HK) as (vs5 & R5 & I5 & HM5); auto.
           { unfold vs4; simpl. rewrite HLen. reflexivity. }
           exists vs5. split; [|split; [|exact HM5]].
           ++ eapply reaches_trans; [apply reaches_step; exact R1|]. eapply reaches_trans; [apply reaches_step; exact R2|].
              eapply reaches_trans; [exact R3|]. eapply reaches_trans; [apply reaches_step; exact R4|exact R5].
           ++ rewrite I5. unfold vs4; simpl. rewrite HI, HLen. reflexivity.
      * (* the range is exhausted *)
        inversion HX; subst env' br.
        set (vs2 := {| ip := Endp; ostack := base'; locals := locals vs1; globals := globals vs1 |}) in *.
        destruct (EXIT env vs2 eq_refl eq_refl M2 M3 M4 M5) as (vs' & RE & IE & ME).
        exists vs'. split; [|split; [exact IE|exact ME]].
        eapply reaches_trans; [apply reaches_step; exact R1|]. eapply reaches_trans; [apply reaches_step; exact R2|exact RE].
Qed.

(* ---------- a step range WITH a loop variable (a global: top level only) ---------- *)
(* the loop part, entered with index / step / stop on the stack; y is the slot
   of the loop variable *)
Definition LAYRV (rop : opc) (S : N) (b : slist) (y : symbol) (s3 st' : cstate) (seg : list N) : Prop :=
  exists stx stb bs_b seg_b jf jb sg,
    jbytes SetGlobal (sidx y) sg /\
    cconsts stx = cconsts s3 /\ same_resolve (csym stx) (csym s3) /\
    N.of_nat (List.length (ccode stx)) = N.of_nat (List.length (ccode s3)) + 9 /\
    LAYL (Some (N.of_nat (List.length (ccode s3)) + N.of_nat (List.length ([N_of_opc rop; 0; 1] ++ jf ++ sg ++ seg_b ++ jb)))) b stx stb bs_b seg_b /\
    jbytes JumpOnFalse (N.of_nat (List.length (ccode s3)) + N.of_nat (List.length ([N_of_opc rop; 0; 1] ++ jf ++ sg ++ seg_b ++ jb))) jf /\
    jbytes Jump (N.of_nat (List.length (ccode s3))) jb /\
    cconsts st' = cconsts stb /\ csym st' = csym s3 /\
    seg = [N_of_opc rop; 0; 1] ++ jf ++ sg ++ seg_b ++ jb ++ [N_of_opc Drop; 0; S].

Lemma exec_rv_false : forall fuel n idx stp stop b env env' br,
  exec_rv fuel n idx stp stop b env = Some (env', br) -> br = false.
Proof.
  induction fuel as [|f IH]; intros n idx stp stop b env env' br H; [discriminate|]. cbn [exec_rv] in H.
  destruct (going idx stp stop); [|inversion H; reflexivity].
  destruct (exec_l f b (upd env n (VNum idx))) as [[env1 [|]]|]; [inversion H; reflexivity|apply (IH _ _ _ _ _ _ _ _ H)|discriminate].
Qed.

Lemma sim_rv n b y s3 st' seg : LAYRV StepRange 3 b y s3 st' seg -> st_resolve n (csym s3) = Some y ->
  forall fuel G env env' br idx stp stop base, exec_rv fuel n idx stp stop b env = Some (env', br) -> forall p vs pre post,
    pcode p = pre ++ seg ++ post -> List.length pre = List.length (ccode s3) -> consts_of p st' ->
    ip vs = N.of_nat (List.length pre) -> PrimFloat.eqb stp 0 = false ->
    mstate_ok G s3 env (VNum idx :: VNum stp :: VNum stop :: base) vs ->
    sym_static (csym s3) -> slots_distinct (csym s3) ->
    N.of_nat (List.length base) + 5 <= StackSize -> N.of_nat (List.length base) + 3 + ldepth b <= StackSize ->
    exists vs', reaches p vs vs' /\ ip vs' = ip vs + N.of_nat (List.length seg) /\ mstate_ok G s3 env' base vs'.
Proof.
  intros (stx & stb & bs_b & seg_b & jf & jb & sg & HSG & H & H0 & H1 & H2 & H3 & H4 & H5 & H6 & ->) HRy.
  set (sr := [N_of_opc StepRange; 0; 1]) in *. set (dr := [N_of_opc Drop; 0; 3]) in *.
  set (Endp := N.of_nat (List.length (ccode s3)) + N.of_nat (List.length (sr ++ jf ++ sg ++ seg_b ++ jb))) in *.
  induction fuel as [|f IHr]; intros G env env' br idx stp stop base HX p vs pre post HP HLen HK HI HZ HM HSS HSD HD5 HDb; [discriminate|].
  cbn [exec_rv] in HX.
  destruct (lay_frame) as (_ & LF & _). destruct (LF _ _ _ _ _ _ H2) as [(nb & Kb) Sb].
  assert (HKb : consts_of p stb) by (destruct HK as (more & HK); exists more; rewrite HK, H5; reflexivity).
  pose proof (jbytes_len _ _ _ H3) as Ljf. pose proof (jbytes_len _ _ _ H4) as Ljb. pose proof (jbytes_len _ _ _ HSG) as Lsg.
  destruct HM as (M1 & M2 & M3 & M4 & M5).
  pose proof (step_steprange_lv p vs pre (jf ++ sg ++ seg_b ++ jb ++ dr ++ post) idx stp stop base
                ltac:(rewrite HP; unfold sr; rewrite <- !app_assoc; reflexivity) HI M1 HZ ltac:(rewrite M2; simpl; lia)) as R1.
  set (base' := VNum (idx + stp)%float :: VNum stp :: VNum stop :: base) in *.
  assert (EXIT : forall env2 vsd, ip vsd = Endp -> ostack vsd = base' -> locals vsd = [] ->
            globals_hold env2 (csym s3) (globals vsd) -> slots_exist (csym s3) (globals vsd) -> List.length (globals vsd) = G ->
            exists vs', reaches p vsd vs' /\ ip vs' = ip vs + N.of_nat (List.length (sr ++ jf ++ sg ++ seg_b ++ jb ++ dr)) /\ mstate_ok G s3 env2 base vs').
  { intros env2 vsd ID OD LD GD SD ND.
    pose proof (step_drop3 p vsd (pre ++ sr ++ jf ++ sg ++ seg_b ++ jb) post _ _ _ base
                  ltac:(rewrite HP; unfold dr; rewrite <- !app_assoc; reflexivity)
                  ltac:(rewrite ID; unfold Endp; rewrite !app_length, HLen, !Nat2N.inj_add; lia) OD) as RD.
    eexists. split; [apply reaches_step; exact RD|]. split.
    - simpl. rewrite ID, HI. unfold Endp, dr. rewrite !app_length, HLen. simpl. lia.
    - unfold mstate_ok; simpl. repeat split; auto. }
  destruct (going idx stp stop) eqn:HG.
  - destruct (exec_l f b (upd env n (VNum idx))) as [[env1 brb]|] eqn:HXb; [|discriminate].
    cbn [app] in R1.
    set (vs1 := {| ip := ip vs + 3; ostack := VBool true :: VNum idx :: base'; locals := locals vs; globals := globals vs |}) in *.
    pose proof (step_jof p vs1 (pre ++ sr) (sg ++ seg_b ++ jb ++ dr ++ post) jf _ true (VNum idx :: base') H3
                  ltac:(rewrite HP, <- !app_assoc; reflexivity)
                  ltac:(unfold vs1, sr; cbn [ip]; rewrite HI, app_length; simpl; lia) eq_refl) as R2.
    set (vs2 := {| ip := ip vs1 + 3; ostack := VNum idx :: base'; locals := locals vs1; globals := globals vs1 |}) in *.
    pose proof (M4 n y HRy) as HLy.
    pose proof (step_setglobal p vs2 (pre ++ sr ++ jf) (seg_b ++ jb ++ dr ++ post) sg (sidx y) (VNum idx) base' HSG
                  ltac:(rewrite HP, <- !app_assoc; reflexivity)
                  ltac:(unfold vs2, vs1, sr; cbn [ip]; rewrite HI, !app_length, Ljf; simpl; lia) eq_refl
                  ltac:(unfold vs2, vs1; cbn [globals]; exact HLy)) as R3.
    set (vs3 := {| ip := ip vs2 + 3; ostack := base'; locals := locals vs2; globals := set_nth (N.to_nat (sidx y)) (VNum idx) (globals vs2) |}) in *.
    assert (HM3 : mstate_ok G stx (upd env n (VNum idx)) base' vs3).
    { apply (mstate_same G s3 stx); [exact H0|]. unfold mstate_ok, vs3, vs2, vs1; cbn [ostack locals globals]. repeat split; auto.
      - apply store_global'; auto.
      - intros m ym HRm. rewrite set_nth_length. apply (M4 m ym HRm).
      - rewrite set_nth_length. exact M5. }
    destruct (proj1 (proj2 (sim_all f)) _ b stx stb _ seg_b H2 G (upd env n (VNum idx)) env1 brb base' HXb p vs3 (pre ++ sr ++ jf ++ sg) (jb ++ dr ++ post)) as (vs4 & R4 & I4 & HM4).
    { rewrite HP, <- !app_assoc. reflexivity. }
    { rewrite !app_length, Ljf, Lsg. apply Nat2N.inj. rewrite H1, !Nat2N.inj_add, HLen. unfold sr. simpl. lia. }
    { exact HKb. }
    { unfold vs3, vs2, vs1; cbn [ip]. rewrite HI, !app_length, Ljf, Lsg. unfold sr. simpl. lia. }
    { exact HM3. }
    { apply (sym_static_same (csym s3)); assumption. }
    { apply (slots_distinct_same (csym s3)); assumption. }
    { unfold base'. cbn [List.length]. lia. }
    pose proof (mstate_same_back G s3 stx env1 base' vs4 H0 HM4) as (B1 & B2 & B3 & B4 & B5).
    destruct brb.
    + inversion HX; subst env' br.
      destruct (EXIT env1 vs4 I4 B1 B2 B3 B4 B5) as (vs' & RE & IE & ME).
      exists vs'. split; [|split; [exact IE|exact ME]].
      eapply reaches_trans; [apply reaches_step; exact R1|]. eapply reaches_trans; [apply reaches_step; exact R2|].
      eapply reaches_trans; [apply reaches_step; exact R3|]. eapply reaches_trans; [exact R4|exact RE].
    + pose proof (step_jump p vs4 (pre ++ sr ++ jf ++ sg ++ seg_b) (dr ++ post) jb _ H4
                    ltac:(rewrite HP, <- !app_assoc; reflexivity)
                    ltac:(rewrite I4; unfold vs3, vs2, vs1; cbn [ip]; rewrite HI, !app_length, Ljf, Lsg; unfold sr; simpl; lia)) as R5.
      set (vs5 := {| ip := N.of_nat (List.length (ccode s3)); ostack := ostack vs4; locals := locals vs4; globals := globals vs4 |}) in *.
      assert (HM5 : mstate_ok G s3 env1 base' vs5) by (unfold vs5, mstate_ok; simpl; repeat split; auto).
      destruct (IHr G env1 env' br (idx + stp)%float stp stop base HX p vs5 pre post HP HLen HK) as (vs6 & R6 & I6 & HM6); auto.
      { unfold vs5; simpl. rewrite HLen. reflexivity. }
      exists vs6. split; [|split; [|exact HM6]].
      * eapply reaches_trans; [apply reaches_step; exact R1|]. eapply reaches_trans; [apply reaches_step; exact R2|].
        eapply reaches_trans; [apply reaches_step; exact R3|]. eapply reaches_trans; [exact R4|].
        eapply reaches_trans; [apply reaches_step; exact R5|exact R6].
      * rewrite I6. unfold vs5; simpl. rewrite HI, HLen. reflexivity.
  - inversion HX; subst env' br. cbn [app] in R1.
    set (vs1 := {| ip := ip vs + 3; ostack := VBool false :: base'; locals := locals vs; globals := globals vs |}) in *.
    pose proof (step_jof p vs1 (pre ++ sr) (sg ++ seg_b ++ jb ++ dr ++ post) jf _ false base' H3
                  ltac:(rewrite HP, <- !app_assoc; reflexivity)
                  ltac:(unfold vs1, sr; cbn [ip]; rewrite HI, app_length; simpl; lia) eq_refl) as R2.
    set (vs2 := {| ip := Endp; ostack := base'; locals := locals vs1; globals := globals vs1 |}) in *.
    destruct (EXIT env vs2 eq_refl eq_refl M2 M3 M4 M5) as (vs' & RE & IE & ME).
    exists vs'. split; [|split; [exact IE|exact ME]].
    eapply reaches_trans; [apply reaches_step; exact R1|]. eapply reaches_trans; [apply reaches_step; exact R2|exact RE].
Qed.

Lemma sim_iv n b y s3 st' seg : LAYRV IterRange 2 b y s3 st' seg -> st_resolve n (csym s3) = Some y ->
  forall fuel G env env' br idx iter base, exec_iv fuel n idx iter b env = Some (env', br) -> forall p vs pre post,
    pcode p = pre ++ seg ++ post -> List.length pre = List.length (ccode s3) -> consts_of p st' ->
    ip vs = N.of_nat (List.length pre) ->
    mstate_ok G s3 env (VNum idx :: iter :: base) vs ->
    sym_static (csym s3) -> slots_distinct (csym s3) ->
    N.of_nat (List.length base) + 4 <= StackSize -> N.of_nat (List.length base) + 2 + ldepth b <= StackSize ->
    exists vs', reaches p vs vs' /\ ip vs' = ip vs + N.of_nat (List.length seg) /\ mstate_ok G s3 env' base vs'.
Proof.
  intros (stx & stb & bs_b & seg_b & jf & jb & sg & HSG & H & H0 & H1 & H2 & H3 & H4 & H5 & H6 & ->) HRy.
  set (sr := [N_of_opc IterRange; 0; 1]) in *. set (dr := [N_of_opc Drop; 0; 2]) in *.
  set (Endp := N.of_nat (List.length (ccode s3)) + N.of_nat (List.length (sr ++ jf ++ sg ++ seg_b ++ jb))) in *.
  induction fuel as [|f IHr]; intros G env env' br idx iter base HX p vs pre post HP HLen HK HI HM HSS HSD HD5 HDb; [discriminate|].
  cbn [exec_iv] in HX.
  destruct (lay_frame) as (_ & LF & _). destruct (LF _ _ _ _ _ _ H2) as [(nb & Kb) Sb].
  assert (HKb : consts_of p stb) by (destruct HK as (more & HK); exists more; rewrite HK, H5; reflexivity).
  pose proof (jbytes_len _ _ _ H3) as Ljf. pose proof (jbytes_len _ _ _ H4) as Ljb. pose proof (jbytes_len _ _ _ HSG) as Lsg.
  destruct HM as (M1 & M2 & M3 & M4 & M5).
  destruct (iter_next iter idx) as [r|] eqn:HN; [|discriminate].
  pose proof (step_iterrange_lv p vs pre (jf ++ sg ++ seg_b ++ jb ++ dr ++ post) idx iter base
                ltac:(rewrite HP; unfold sr; rewrite <- !app_assoc; reflexivity) HI M1 ltac:(rewrite M2; simpl; lia) r HN) as R1.
  set (base' := VNum (idx + 1)%float :: iter :: base) in *.
  assert (EXIT : forall env2 vsd, ip vsd = Endp -> ostack vsd = base' -> locals vsd = [] ->
            globals_hold env2 (csym s3) (globals vsd) -> slots_exist (csym s3) (globals vsd) -> List.length (globals vsd) = G ->
            exists vs', reaches p vsd vs' /\ ip vs' = ip vs + N.of_nat (List.length (sr ++ jf ++ sg ++ seg_b ++ jb ++ dr)) /\ mstate_ok G s3 env2 base vs').
  { intros env2 vsd ID OD LD GD SD ND.
    pose proof (step_drop2 p vsd (pre ++ sr ++ jf ++ sg ++ seg_b ++ jb) post _ _ base
                  ltac:(rewrite HP; unfold dr; rewrite <- !app_assoc; reflexivity)
                  ltac:(rewrite ID; unfold Endp; rewrite !app_length, HLen, !Nat2N.inj_add; lia) OD) as RD.
    eexists. split; [apply reaches_step; exact RD|]. split.
    - simpl. rewrite ID, HI. unfold Endp, dr. rewrite !app_length, HLen. simpl. lia.
    - unfold mstate_ok; simpl. repeat split; auto. }
  destruct r as [v|].
  - destruct (exec_l f b (upd env n v)) as [[env1 brb]|] eqn:HXb; [|discriminate].
    set (vs1 := {| ip := ip vs + 3; ostack := VBool true :: v :: base'; locals := locals vs; globals := globals vs |}) in *.
    pose proof (step_jof p vs1 (pre ++ sr) (sg ++ seg_b ++ jb ++ dr ++ post) jf _ true (v :: base') H3
                  ltac:(rewrite HP, <- !app_assoc; reflexivity)
                  ltac:(unfold vs1, sr; cbn [ip]; rewrite HI, app_length; simpl; lia) eq_refl) as R2.
    set (vs2 := {| ip := ip vs1 + 3; ostack := v :: base'; locals := locals vs1; globals := globals vs1 |}) in *.
    pose proof (M4 n y HRy) as HLy.
    pose proof (step_setglobal p vs2 (pre ++ sr ++ jf) (seg_b ++ jb ++ dr ++ post) sg (sidx y) v base' HSG
                  ltac:(rewrite HP, <- !app_assoc; reflexivity)
                  ltac:(unfold vs2, vs1, sr; cbn [ip]; rewrite HI, !app_length, Ljf; simpl; lia) eq_refl
                  ltac:(unfold vs2, vs1; cbn [globals]; exact HLy)) as R3.
    set (vs3 := {| ip := ip vs2 + 3; ostack := base'; locals := locals vs2; globals := set_nth (N.to_nat (sidx y)) v (globals vs2) |}) in *.
    assert (HM3 : mstate_ok G stx (upd env n v) base' vs3).
    { apply (mstate_same G s3 stx); [exact H0|]. unfold mstate_ok, vs3, vs2, vs1; cbn [ostack locals globals]. repeat split; auto.
      - apply store_global'; auto.
      - intros m ym HRm. rewrite set_nth_length. apply (M4 m ym HRm).
      - rewrite set_nth_length. exact M5. }
    destruct (proj1 (proj2 (sim_all f)) _ b stx stb _ seg_b H2 G (upd env n v) env1 brb base' HXb p vs3 (pre ++ sr ++ jf ++ sg) (jb ++ dr ++ post)) as (vs4 & R4 & I4 & HM4).
    { rewrite HP, <- !app_assoc. reflexivity. }
    { rewrite !app_length, Ljf, Lsg. apply Nat2N.inj. rewrite H1, !Nat2N.inj_add, HLen. unfold sr. simpl. lia. }
    { exact HKb. }
    { unfold vs3, vs2, vs1; cbn [ip]. rewrite HI, !app_length, Ljf, Lsg. unfold sr. simpl. lia. }
    { exact HM3. }
    { apply (sym_static_same (csym s3)); assumption. }
    { apply (slots_distinct_same (csym s3)); assumption. }
    { unfold base'. cbn [List.length]. lia. }
    pose proof (mstate_same_back G s3 stx env1 base' vs4 H0 HM4) as (B1 & B2 & B3 & B4 & B5).
    destruct brb.
    + inversion HX; subst env' br.
      destruct (EXIT env1 vs4 I4 B1 B2 B3 B4 B5) as (vs' & RE & IE & ME).
      exists vs'. split; [|split; [exact IE|exact ME]].
      eapply reaches_trans; [apply reaches_step; exact R1|]. eapply reaches_trans; [apply reaches_step; exact R2|].
      eapply reaches_trans; [apply reaches_step; exact R3|]. eapply reaches_trans; [exact R4|exact RE].
    + pose proof (step_jump p vs4 (pre ++ sr ++ jf ++ sg ++ seg_b) (dr ++ post) jb _ H4
                    ltac:(rewrite HP, <- !app_assoc; reflexivity)
                    ltac:(rewrite I4; unfold vs3, vs2, vs1; cbn [ip]; rewrite HI, !app_length, Ljf, Lsg; unfold sr; simpl; lia)) as R5.
      set (vs5 := {| ip := N.of_nat (List.length (ccode s3)); ostack := ostack vs4; locals := locals vs4; globals := globals vs4 |}) in *.
      assert (HM5 : mstate_ok G s3 env1 base' vs5) by (unfold vs5, mstate_ok; simpl; repeat split; auto).
      destruct (IHr G env1 env' br (idx + 1)%float iter base HX p vs5 pre post HP HLen HK) as (vs6 & R6 & I6 & HM6); auto.
      { unfold vs5; simpl. rewrite HLen. reflexivity. }
      exists vs6. split; [|split; [|exact HM6]].
      * eapply reaches_trans; [apply reaches_step; exact R1|]. eapply reaches_trans; [apply reaches_step; exact R2|].
        eapply reaches_trans; [apply reaches_step; exact R3|]. eapply reaches_trans; [exact R4|].
        eapply reaches_trans; [apply reaches_step; exact R5|exact R6].
      * rewrite I6. unfold vs5; simpl. rewrite HI, HLen. reflexivity.
  - inversion HX; subst env' br.
    set (vs1 := {| ip := ip vs + 3; ostack := VBool false :: base'; locals := locals vs; globals := globals vs |}) in *.
    pose proof (step_jof p vs1 (pre ++ sr) (sg ++ seg_b ++ jb ++ dr ++ post) jf _ false base' H3
                  ltac:(rewrite HP, <- !app_assoc; reflexivity)
                  ltac:(unfold vs1, sr; cbn [ip]; rewrite HI, app_length; simpl; lia) eq_refl) as R2.
    set (vs2 := {| ip := Endp; ostack := base'; locals := locals vs1; globals := globals vs1 |}) in *.
    destruct (EXIT env vs2 eq_refl eq_refl M2 M3 M4 M5) as (vs' & RE & IE & ME).
    exists vs'. split; [|split; [exact IE|exact ME]].
    eapply reaches_trans; [apply reaches_step; exact R1|]. eapply reaches_trans; [apply reaches_step; exact R2|exact RE].
Qed.

(* ====================================================================== *)
(* Part 2: the compiler lays its code out that way                         *)
(* ====================================================================== *)
Lemma patch_bytes pre a h l rest T s s' :
  ccode s = pre ++ a :: h :: l :: rest ->
  patch true (Z.of_nat (List.length pre)) T s = COk s' ->
  (0 <= T < 65536)%Z /\
  exists hi lo, hi * 256 + lo = Z.to_N T /\
    s' = {| ccode := pre ++ a :: hi :: lo :: rest; cconsts := cconsts s; csym := csym s; cbreaks := cbreaks s |}.
Proof.
  intros HC HP. unfold patch, change_operand in HP. destruct (fits16 T) eqn:HF; [|discriminate].
  unfold fits16 in HF. split; [lia|]. destruct (put16_read T ltac:(lia)) as (hi & lo & EP & E).
  exists hi, lo. split; [exact E|]. inversion HP; subst s'. f_equal.
  unfold change_operand_before_fix. rewrite EP, HC.
  replace (N.to_nat (Z.to_N (Z.of_nat (List.length pre)))) with (List.length pre) by lia. apply set_nth_patch.
Qed.

Lemma emit_hole_bytes o st st' : is_jump o = true -> emit true o [JumpPlaceholderZ] st = COk st' ->
  exists h l, st' = {| ccode := ccode st ++ [N_of_opc o; h; l]; cconsts := cconsts st; csym := csym st; cbreaks := cbreaks st |}.
Proof.
  intros HJ H. assert (HO : has_operand o = true) by (destruct o; try discriminate HJ; reflexivity).
  apply emit_ok in H. destruct H as (ins & HM & ->).
  destruct (make_arg_bytes o JumpPlaceholderZ HO ltac:(vm_compute; split; congruence)) as (h & l & HM' & _).
  rewrite HM in HM'. inversion HM'; subst. eauto.
Qed.

Lemma emit_jump_bytes T st st' : emit true Jump [T] st = COk st' ->
  exists jb, jbytes Jump (Z.to_N T) jb /\
    st' = {| ccode := ccode st ++ jb; cconsts := cconsts st; csym := csym st; cbreaks := cbreaks st |}.
Proof.
  intro H. apply emit_ok in H. destruct H as (ins & HM & ->).
  pose proof (make_some_range Jump T ins eq_refl HM) as HR.
  destruct (make_arg_bytes Jump T eq_refl HR) as (hi & lo & HM' & E). rewrite HM in HM'. inversion HM'; subst.
  exists [N_of_opc Jump; hi; lo]. split; [exists hi, lo; auto|reflexivity].
Qed.

Lemma emit_op_bytes o z st st' : has_operand o = true -> emit true o [z] st = COk st' ->
  exists ins, make (N_of_opc o) [z] = Some ins /\ jbytes o (Z.to_N z) ins /\
    st' = {| ccode := ccode st ++ ins; cconsts := cconsts st; csym := csym st; cbreaks := cbreaks st |}.
Proof.
  intros HO H. apply emit_ok in H. destruct H as (ins & HM & ->).
  pose proof (make_some_range o z ins HO HM) as HR.
  destruct (make_arg_bytes o z HO HR) as (hi & lo & HM' & E). rewrite HM in HM'. inversion HM'; subst.
  exists [N_of_opc o; hi; lo]. split; [exact HM|]. split; [exists hi, lo; auto|reflexivity].
Qed.

Lemma patch_all_nil T s : patch_all true [] T s = COk s.
Proof. reflexivity. Qed.

Lemma patch_all_app a b T s : patch_all true (a ++ b) T s = patch_all true a T s >>= patch_all true b T.
Proof.
  unfold patch_all. rewrite fold_left_app.
  destruct (fold_left (fun r p => r >>= patch true p T) a (COk s)) as [s1|e]; [reflexivity|]. cbn [bind]. apply fold_cerr.
Qed.

(* compileWhileStatement patches c.breaks: the pending break jumps of the body
   get their target; nothing else changes *)
Definition PATCHED (T : Z) (bs : list Z) (st : cstate) (seg : list N) (K : list N -> Prop) : Prop :=
  forall x x' pre post, ccode x = pre ++ seg ++ post -> List.length pre = List.length (ccode st) ->
    patch_all true bs T x = COk x' ->
    exists seg', ccode x' = pre ++ seg' ++ post /\ cconsts x' = cconsts x /\ csym x' = csym x /\ cbreaks x' = cbreaks x /\
      List.length seg' = List.length seg /\ K seg'.

Lemma lay_brk_patch T :
  (forall brk s st st' bs seg, LAY brk s st st' bs seg -> brk = None ->
     PATCHED T bs st seg (fun seg' => LAY (Some (Z.to_N T)) s st st' bs seg')) /\
  (forall brk l st st' bs seg, LAYL brk l st st' bs seg -> brk = None ->
     PATCHED T bs st seg (fun seg' => LAYL (Some (Z.to_N T)) l st st' bs seg')) /\
  (forall brk fin l els st st' End js bs seg, LAYC brk fin l els st st' End js bs seg -> brk = None ->
     PATCHED T bs st seg (fun seg' => LAYC (Some (Z.to_N T)) fin l els st st' End js bs seg')) /\
  (forall b s3 st' S rop seg, LAYR b s3 st' S rop seg -> True).
Proof.
  apply LAY_mutind; intros; try exact I; subst brk; intros x x' pre post HC HLen HP.
  - rewrite patch_all_nil in HP. inversion HP; subst x'. eexists. repeat split; eauto. eapply lay_assign; eauto.
  - rewrite patch_all_nil in HP. inversion HP; subst x'. eexists. repeat split; eauto. constructor.
  - cbn [bshape] in b. destruct b as (h0 & l0 & ->).
    unfold patch_all in HP. cbn [fold_left bind] in HP. rewrite <- HLen in HP.
    destruct (patch_bytes pre _ h0 l0 post T x x' HC HP) as (HT & hi & lo & EH & ->).
    exists [N_of_opc Jump; hi; lo]. cbn [ccode cconsts csym cbreaks]. repeat split; auto.
    apply lay_break; auto. exists hi, lo. auto.
  - rewrite patch_all_nil in HP. inversion HP; subst x'. eexists. repeat split; eauto. eapply lay_while; eauto.
  - rewrite patch_all_nil in HP. inversion HP; subst x'. eexists. repeat split; eauto. eapply lay_forstep; eauto.
  - rewrite patch_all_nil in HP. inversion HP; subst x'. eexists. repeat split; eauto. eapply lay_foriter; eauto.
  - destruct (H eq_refl x x' pre post HC HLen HP) as (seg' & C' & K' & S' & B' & L' & LY).
    exists seg'. repeat split; auto. eapply lay_if; eauto. rewrite L'. exact LY.
  - rewrite patch_all_nil in HP. inversion HP; subst x'. exists []. repeat split; auto. constructor.
  - rewrite patch_all_app in HP. destruct (patch_all true bs1 T x) as [x1|] eqn:E1; [|discriminate]. cbn [bind] in HP.
    destruct (H eq_refl x x1 pre (seg2 ++ post)) as (seg1' & C1 & K1 & S1 & B1 & L1 & LY1); auto.
    { rewrite HC, <- app_assoc. reflexivity. }
    destruct (H0 eq_refl x1 x' (pre ++ seg1') post) as (seg2' & C2 & K2 & S2 & B2 & L2 & LY2); auto.
    { rewrite C1, <- app_assoc. reflexivity. }
    { apply Nat2N.inj. rewrite app_length, L1, e, Nat2N.inj_add, HLen. reflexivity. }
    exists (seg1' ++ seg2'). split; [rewrite C2, <- !app_assoc; reflexivity|].
    split; [congruence|]. split; [congruence|]. split; [congruence|]. split; [rewrite !app_length; congruence|].
    eapply layl_cons; eauto. rewrite L1. exact e.
  - rewrite patch_all_nil in HP. inversion HP; subst x'. exists []. repeat split; auto. constructor; assumption.
  - destruct (H eq_refl x x' pre post HC) as (seg' & C' & K' & S' & B' & L' & LY); auto; [congruence|].
    exists seg'. repeat split; auto. eapply layc_nil_else; eauto. rewrite L'. assumption.
  - rewrite patch_all_app in HP. destruct (patch_all true bs_b T x) as [x1|] eqn:E1; [|discriminate]. cbn [bind] in HP.
    pose proof (jbytes_len _ _ _ j) as Ljf.
    pose proof (f_equal (@List.length N) e1) as L1. rewrite app_length in L1.
    pose proof (layl_len _ _ _ _ _ _ l) as LLb.
    destruct (H eq_refl x x1 (pre ++ seg_c ++ jf) (je ++ seg_r ++ post)) as (seg_b' & C1 & K1 & S1 & B1 & Lb & LY1); auto.
    { rewrite HC, <- !app_assoc. reflexivity. }
    { apply Nat2N.inj. rewrite !app_length, Ljf. lia. }
    destruct (H0 eq_refl x1 x' (pre ++ seg_c ++ jf ++ seg_b' ++ je) post) as (seg_r' & C2 & K2 & S2 & B2 & Lr & LY2); auto.
    { rewrite C1, <- !app_assoc. reflexivity. }
    { assert (Lje : List.length je = 3%nat).
      { destruct fin; cbn [jshape] in j0; [apply (jbytes_len _ _ _ j0)|destruct j0 as (hh & ll & ->); reflexivity]. }
      apply Nat2N.inj. rewrite !app_length, Ljf, Lje, Lb. lia. }
    exists (seg_c ++ jf ++ seg_b' ++ je ++ seg_r'). split; [rewrite C2, <- !app_assoc; reflexivity|].
    split; [congruence|]. split; [congruence|]. split; [congruence|]. split; [rewrite !app_length; congruence|].
    replace (List.length (ccode st) + List.length (seg_c ++ jf ++ seg_b))%nat
      with (List.length (ccode st) + List.length (seg_c ++ jf ++ seg_b'))%nat by (rewrite !app_length, Lb; reflexivity).
    eapply layc_cons; eauto.
    replace (List.length (seg_c ++ jf ++ seg_b' ++ je)) with (List.length (seg_c ++ jf ++ seg_b ++ je)) by (rewrite !app_length, Lb; reflexivity).
    exact j.
Qed.

Definition LAYOK (s : stmt) (st st' : cstate) : Prop :=
  exists bs seg, LAY None s st st' bs seg /\ ccode st' = ccode st ++ seg /\ cbreaks st' = cbreaks st ++ bs /\ csym st' = csym st.
Definition LAYLOK (l : slist) (st st' : cstate) : Prop :=
  exists bs seg, LAYL None l st st' bs seg /\ ccode st' = ccode st ++ seg /\ cbreaks st' = cbreaks st ++ bs /\ csym st' = csym st.

Definition slist_lay (l : slist) : Prop :=
  forall st st', body_of true l st = COk st' -> gsym (csym st) -> has_gb (csym st) -> LAYLOK l st st'.

Lemma same_resolve_push s : same_resolve (st_push s) s.
Proof. intro n. apply resolve_push. Qed.

Lemma lay_assign_ok n e st st' : efrag e = true ->
  compile_stmt true (SAssign (EVar n) e) st = COk st' -> has_gb (csym st) -> LAYOK (SAssign (EVar n) e) st st'.
Proof.
  intros HF HC (gc0 & HG0). cbn [compile_stmt] in HC.
  destruct (compile_expr true e st) as [st1|] eqn:E1; [|discriminate]. cbn [bind] in HC.
  destruct (efrag_sl e HF st st1 E1) as (S1 & ops & newc & C & K & _).
  destruct (st_resolve n (csym st1)) as [y|] eqn:ER; [|discriminate]. rewrite S1 in ER.
  destruct (HG0 n y ER) as [SG _].
  destruct (emit_setglobal_run y st1 st' HC SG) as (E1' & E2' & hi & lo & E3' & E4').
  exists [], (encode ops ++ [N_of_opc SetGlobal; hi; lo]). split; [|split; [|split]].
  - eapply lay_assign; eauto; [exists hi, lo; auto|congruence].
  - rewrite E3', C, app_assoc. reflexivity.
  - unfold emit_set_var in HC. rewrite SG in HC. apply emit_breaks in HC. rewrite HC, app_nil_r. apply (efrag_breaks e HF _ _ E1).
  - congruence.
Qed.

(* compileBreakStatement: a jump with the placeholder, its position appended to c.breaks *)
Lemma lay_break_ok st st' : compile_stmt true SBreak st = COk st' -> LAYOK SBreak st st'.
Proof.
  intro HC. cbn [compile_stmt] in HC.
  destruct (emit true Jump [JumpPlaceholderZ] st) as [st1|] eqn:E1; [|discriminate]. cbn [bind] in HC.
  apply emit_hole_bytes in E1; [|reflexivity]. destruct E1 as (h0 & l0 & ->). inversion HC; subst st'; clear HC.
  cbn [with_breaks ccode cconsts csym cbreaks].
  exists [pos_of st], [N_of_opc Jump; h0; l0]. split; [|split; [|split]]; try reflexivity.
  unfold pos_of. apply lay_break; [exists h0, l0; reflexivity|reflexivity|reflexivity].
Qed.

(* a block body compiled between enterScope and leaveScope *)
Lemma lay_block b st st' : slist_lay b -> compile_block true b st = COk st' -> gsym (csym st) -> has_gb (csym st) ->
  exists stx stb bs seg, LAYL None b stx stb bs seg /\
    cconsts stx = cconsts st /\ same_resolve (csym stx) (csym st) /\ ccode stx = ccode st /\
    ccode st' = ccode st ++ seg /\ ccode stb = ccode st' /\ cconsts st' = cconsts stb /\
    cbreaks st' = cbreaks st ++ bs /\ csym st' = csym st.
Proof.
  intros HB HC HG HGB. rewrite compile_block_body in HC.
  destruct (body_of true b (with_sym (st_push (csym st)) st)) as [st3|] eqn:E; [|discriminate]. cbn [bind] in HC.
  inversion HC; subst st'; clear HC.
  destruct (HB _ _ E) as (bs & seg & L & C & B & S); cbn [with_sym csym]; [apply gsym_push; exact HG|apply has_gb_push; exact HGB|].
  cbn [with_sym ccode cconsts csym cbreaks] in *.
  exists (with_sym (st_push (csym st)) st), st3, bs, seg. cbn [with_sym ccode cconsts csym cbreaks].
  split; [exact L|]. split; [reflexivity|]. split; [apply same_resolve_push|]. split; [reflexivity|].
  split; [exact C|]. split; [reflexivity|]. split; [reflexivity|]. split; [exact B|].
  rewrite S. apply pop_push_id. exact HG.
Qed.

Lemma lay_while_ok c b st st' : efrag c = true -> slist_lay b ->
  compile_stmt true (SWhile c b) st = COk st' -> gsym (csym st) -> has_gb (csym st) -> LAYOK (SWhile c b) st st'.
Proof.
  intros HF HB HC HG HGB. cbn [compile_stmt] in HC.
  destruct (compile_expr true c st) as [st1|] eqn:E1; [|discriminate]. cbn [bind] in HC.
  destruct (emit true JumpOnFalse [JumpPlaceholderZ] st1) as [st2|] eqn:E2; [|discriminate]. cbn [bind] in HC.
  destruct (compile_block true b (with_breaks [] st2)) as [stb|] eqn:E3; [|discriminate]. cbn [bind] in HC.
  destruct (emit true Jump [pos_of st] stb) as [st3|] eqn:E4; [|discriminate]. cbn [bind] in HC.
  destruct (patch true (pos_of st1) (pos_of st3) st3) as [st4|] eqn:E5; [|discriminate]. cbn [bind] in HC.
  destruct (patch_all true (cbreaks st3) (pos_of st3) st4) as [st5|] eqn:E6; [|discriminate]. cbn [bind] in HC.
  inversion HC; subst st'; clear HC.
  destruct (efrag_sl c HF st st1 E1) as (S1 & ops & newc & C & K & _).
  pose proof (efrag_breaks c HF _ _ E1) as B1.
  apply emit_hole_bytes in E2; [|reflexivity]. destruct E2 as (h0 & l0 & ->).
  destruct (lay_block b _ stb HB E3) as (stx & stbb & bs_b & seg_b & L & Kx & Sx & Cx & Cb & Cbb & Kb & Bb & Sb);
    cbn [with_breaks csym]; [rewrite S1; exact HG|rewrite S1; exact HGB|].
  cbn [with_breaks ccode cconsts csym cbreaks app] in Kx, Sx, Cx, Cb, Bb, Sb.
  apply emit_jump_bytes in E4. destruct E4 as (jb & HJB & ->).
  cbn [cbreaks] in E6. rewrite Bb in E6.
  assert (C3 : ccode stb ++ jb = ccode st1 ++ N_of_opc JumpOnFalse :: h0 :: l0 :: (seg_b ++ jb)).
  { rewrite Cb, <- !app_assoc. reflexivity. }
  unfold pos_of at 1 in E5.
  match type of E5 with patch _ _ ?T0 ?s0 = _ =>
    destruct (patch_bytes (ccode st1) _ h0 l0 (seg_b ++ jb) T0 s0 st4 C3 E5) as (HT & hi & lo & EH & ->) end.
  cbn [with_breaks ccode cconsts csym cbreaks] in E6 |- *.
  set (jf := [N_of_opc JumpOnFalse; hi; lo]).
  pose proof (jbytes_len _ _ _ HJB) as Ljb.
  match type of E6 with patch_all _ _ ?T0 ?x = _ =>
    destruct (proj1 (proj2 (lay_brk_patch T0)) _ _ _ _ _ _ L eq_refl x st5 (ccode st1 ++ jf) jb) as (seg_b' & C5 & K5 & S5 & B5 & L5 & LY5);
      [cbn [ccode]; unfold jf; rewrite <- !app_assoc; reflexivity
      |rewrite Cx, !app_length; reflexivity
      |exact E6|] end.
  cbn [ccode cconsts csym cbreaks] in C5, K5, S5, B5.
  exists [], (encode ops ++ jf ++ seg_b' ++ jb).
  assert (LEN : N.of_nat (List.length (ccode st)) + N.of_nat (List.length (encode ops ++ jf ++ seg_b' ++ jb)) = hi * 256 + lo).
  { rewrite EH. unfold pos_of. cbn [ccode]. rewrite C3, C.
    rewrite ?app_length; simpl List.length; rewrite ?app_length; simpl List.length; lia. }
  match type of LY5 with LAYL (Some ?X) _ _ _ _ _ => replace X with (N.of_nat (List.length (ccode st)) + N.of_nat (List.length (encode ops ++ jf ++ seg_b' ++ jb))) in LY5 by (rewrite LEN, EH; reflexivity) end.
  split; [|split; [|split]].
  - assert (F4 : cconsts stx = cconsts st1) by (rewrite Kx; reflexivity).
    assert (F5 : same_resolve (csym stx) (csym st)) by (intro n; rewrite Sx, S1; reflexivity).
    assert (F6 : N.of_nat (List.length (ccode stx)) = N.of_nat (List.length (ccode st1)) + 3) by (rewrite Cx, app_length; simpl; lia).
    assert (F8 : jbytes JumpOnFalse (N.of_nat (List.length (ccode st)) + N.of_nat (List.length (encode ops ++ jf ++ seg_b' ++ jb))) jf)
      by (exists hi, lo; split; [reflexivity|rewrite LEN; reflexivity]).
    assert (F9 : jbytes Jump (N.of_nat (List.length (ccode st))) jb) by (rewrite pos_pcof, N2Z.id in HJB; exact HJB).
    refine (lay_while None c b st st1 stx stbb _ bs_b (encode ops) seg_b' jf jb HF E1 C F4 F5 F6 LY5 F8 F9 _ _).
    + cbn [with_breaks cconsts]. rewrite K5. exact Kb.
    + cbn [with_breaks csym]. rewrite S5, Sb. exact S1.
  - cbn [with_breaks ccode]. rewrite C5, C. unfold jf. rewrite <- !app_assoc. reflexivity.
  - cbn [with_breaks cbreaks]. rewrite app_nil_r. exact B1.
  - cbn [with_breaks csym]. rewrite S5, Sb. exact S1.
Qed.

(* the loop part of `for range …` without loop variable *)
Lemma for_loop_none_body rop S b st : for_loop true None rop S b st =
  (emit true rop [0%Z] st >>= fun st2 =>
   emit true JumpOnFalse [JumpPlaceholderZ] st2 >>= fun st3 =>
   body_of true b (with_sym (st_push (csym st3)) (with_breaks [] st3)) >>= fun st4 =>
   emit true Jump [pos_of st] (with_sym (st_pop (csym st4)) st4) >>= fun st5 =>
   emit true Drop [S] st5 >>= fun st6 =>
   patch true (pos_of st2) (pos_of st5) st6 >>= patch_all true (cbreaks st6) (pos_of st5) >>= fun st7 =>
   COk (with_breaks (cbreaks st3) st7)).
Proof.
  destruct b; cbn [for_loop for_declare for_assign bind body_of];
    destruct (emit true rop [0%Z] st); cbn [bind]; try reflexivity;
    destruct (emit true JumpOnFalse [JumpPlaceholderZ] c); cbn [bind]; reflexivity.
Qed.

Lemma layr_ok rop S b s3 st' : range_op rop S -> slist_lay b ->
  for_loop true None rop (Z.of_N S) b s3 = COk st' -> gsym (csym s3) -> has_gb (csym s3) ->
  exists seg_r, LAYR b s3 st' S rop seg_r /\ ccode st' = ccode s3 ++ seg_r /\
                cbreaks st' = cbreaks s3 /\ csym st' = csym s3.
Proof.
  intros HRO HB HC HG HGB. rewrite for_loop_none_body in HC.
  assert (X1 : make (N_of_opc rop) [0%Z] = Some [N_of_opc rop; 0; 0]) by (destruct HRO as [[-> ->]|[-> ->]]; vm_compute; reflexivity).
  assert (X5 : make (N_of_opc Drop) [Z.of_N S] = Some [N_of_opc Drop; 0; S]) by (destruct HRO as [[-> ->]|[-> ->]]; vm_compute; reflexivity).
  destruct (emit true rop [0%Z] s3) as [st2|] eqn:E1; [|discriminate]. cbn [bind] in HC.
  destruct (emit true JumpOnFalse [JumpPlaceholderZ] st2) as [st3|] eqn:E2; [|discriminate]. cbn [bind] in HC.
  destruct (body_of true b (with_sym (st_push (csym st3)) (with_breaks [] st3))) as [st4|] eqn:E3; [|discriminate]. cbn [bind] in HC.
  destruct (emit true Jump [pos_of s3] (with_sym (st_pop (csym st4)) st4)) as [st5|] eqn:E4; [|discriminate]. cbn [bind] in HC.
  destruct (emit true Drop [Z.of_N S] st5) as [st6|] eqn:E5; [|discriminate]. cbn [bind] in HC.
  destruct (patch true (pos_of st2) (pos_of st5) st6) as [st7|] eqn:E6; [|discriminate]. cbn [bind] in HC.
  destruct (patch_all true (cbreaks st6) (pos_of st5) st7) as [st8|] eqn:E7; [|discriminate]. cbn [bind] in HC.
  inversion HC; subst st'; clear HC.
  apply emit_ok in E1. destruct E1 as (ins1 & HM1 & ->).
  assert (Y1 : ins1 = [N_of_opc rop; 0; 0]) by congruence. subst ins1. clear X1 HM1.
  apply emit_hole_bytes in E2; [|reflexivity]. destruct E2 as (h0 & l0 & ->). cbn [ccode cconsts csym cbreaks] in *.
  set (sr := [N_of_opc rop; 0; 0]) in *.
  destruct (HB _ _ E3) as (bs_b & seg_b & L & Cb & Bb & Sb); cbn [with_sym with_breaks csym];
    [apply gsym_push; exact HG|apply has_gb_push; exact HGB|].
  cbn [with_sym with_breaks ccode cconsts csym cbreaks app] in Cb, Bb, Sb.
  apply emit_jump_bytes in E4. destruct E4 as (jb & HJB & ->). cbn [with_sym ccode cconsts csym cbreaks] in *.
  apply emit_ok in E5. destruct E5 as (ins5 & HM5 & ->).
  assert (Y5 : ins5 = [N_of_opc Drop; 0; S]) by congruence. subst ins5. clear X5 HM5.
  cbn [ccode cconsts csym cbreaks] in *.
  set (dr := [N_of_opc Drop; 0; S]) in *.
  pose proof (jbytes_len _ _ _ HJB) as Ljb.
  assert (C6 : (ccode st4 ++ jb) ++ dr = (ccode s3 ++ sr) ++ N_of_opc JumpOnFalse :: h0 :: l0 :: (seg_b ++ jb ++ dr)).
  { rewrite Cb, <- !app_assoc. reflexivity. }
  assert (EP : pos_of {| ccode := ccode s3 ++ sr; cconsts := cconsts s3; csym := csym s3; cbreaks := cbreaks s3 |} = Z.of_nat (List.length (ccode s3 ++ sr)))
    by reflexivity.
  rewrite EP in E6.
  match type of E6 with patch _ _ ?T0 ?s0 = _ =>
    destruct (patch_bytes (ccode s3 ++ sr) _ h0 l0 (seg_b ++ jb ++ dr) T0 s0 st7 C6 E6) as (HT & hi & lo & EH & ->) end.
  cbn [ccode cconsts csym cbreaks] in E7 |- *. rewrite Bb in E7.
  set (jf := [N_of_opc JumpOnFalse; hi; lo]).
  assert (Cx : ccode {| ccode := (ccode s3 ++ sr) ++ [N_of_opc JumpOnFalse; h0; l0]; cconsts := cconsts s3; csym := st_push (csym s3); cbreaks := [] |}
               = (ccode s3 ++ sr) ++ [N_of_opc JumpOnFalse; h0; l0]) by reflexivity.
  match type of E7 with patch_all _ _ ?T0 ?x = _ =>
    destruct (proj1 (proj2 (lay_brk_patch T0)) _ _ _ _ _ _ L eq_refl x st8 ((ccode s3 ++ sr) ++ jf) (jb ++ dr)) as (seg_b' & C8 & K8 & S8 & B8 & L8 & LY8);
      [cbn [ccode]; unfold jf; rewrite <- !app_assoc; reflexivity
      |cbn [with_sym with_breaks ccode]; unfold jf; rewrite !app_length; reflexivity
      |exact E7|] end.
  cbn [ccode cconsts csym cbreaks] in C8, K8, S8, B8.
  assert (LEN : N.of_nat (List.length (ccode s3)) + N.of_nat (List.length (sr ++ jf ++ seg_b' ++ jb)) = hi * 256 + lo).
  { rewrite EH. unfold pos_of. cbn [ccode]. rewrite Cb.
    rewrite ?app_length; simpl List.length; rewrite ?app_length; simpl List.length; lia. }
  match type of LY8 with LAYL (Some ?X) _ _ _ _ _ => replace X with (N.of_nat (List.length (ccode s3)) + N.of_nat (List.length (sr ++ jf ++ seg_b' ++ jb))) in LY8 by (rewrite LEN, EH; reflexivity) end.
  exists (sr ++ jf ++ seg_b' ++ jb ++ dr).
  split; [|split; [|split]].
  - refine (layr rop S b s3 _ st4 _ bs_b seg_b' jf jb _ _ _ LY8 _ _ _ _).
    + reflexivity.
    + apply same_resolve_push.
    + cbn [with_sym with_breaks ccode]. unfold sr. rewrite !app_length. simpl. lia.
    + exists hi, lo. split; [reflexivity|]. symmetry. exact LEN.
    + rewrite pos_pcof, N2Z.id in HJB. exact HJB.
    + cbn [with_breaks cconsts]. exact K8.
    + cbn [with_breaks csym]. rewrite S8, Sb. apply pop_push_id. exact HG.
  - cbn [with_breaks ccode]. rewrite C8. unfold jf. rewrite <- !app_assoc. reflexivity.
  - reflexivity.
  - cbn [with_breaks csym]. rewrite S8, Sb. apply pop_push_id. exact HG.
Qed.

Lemma lay_foriter_ok t e b st st' :
  (t = TStr \/ t = TArr \/ t = TMap) -> efrag e = true -> slist_lay b ->
  compile_stmt true (SForIter None t e b) st = COk st' -> gsym (csym st) -> has_gb (csym st) ->
  LAYOK (SForIter None t e b) st st'.
Proof.
  intros Ht F HB HC HG HGB. cbn [compile_stmt] in HC.
  assert (HC' : compile_expr true e st >>= emit_const true (KNum 0) >>= for_loop true None IterRange 2 b = COk st')
    by (destruct Ht as [->|[->| ->]]; exact HC). clear HC.
  destruct (compile_expr true e st) as [s1|] eqn:E1; [|discriminate]. cbn [bind] in HC'.
  destruct (emit_const true (KNum 0) s1) as [s2|] eqn:E2; [|discriminate]. cbn [bind] in HC'.
  destruct (efrag_sl _ F st s1 E1) as (S1 & o1 & c1 & C1 & K1 & _). pose proof (efrag_breaks _ F _ _ E1) as B1.
  destruct (const_correct _ _ _ E2) as (S2 & segk & C2 & K2 & _).
  assert (B2 : cbreaks s2 = cbreaks s1) by (unfold emit_const in E2; apply emit_breaks in E2; exact E2).
  change 2%Z with (Z.of_N 2) in HC'.
  destruct (layr_ok IterRange 2 b s2 st' (or_intror (conj eq_refl eq_refl)) HB HC') as (seg_r & LR & CR & BR & SR);
    [rewrite S2, S1; exact HG|rewrite S2, S1; exact HGB|].
  exists [], (encode o1 ++ segk ++ seg_r). split; [|split; [|split]].
  - eapply lay_foriter; eauto.
  - rewrite CR, C2, C1, <- !app_assoc. reflexivity.
  - rewrite app_nil_r. congruence.
  - congruence.
Qed.

(* `for n := range …` at top level: the prologue (define n; OpNone; OpSetGlobal)
   and the loop part *)
Lemma for_loop_lv_body n rop S b st : for_loop true (Some n) rop S b st =
  (let (sym', y) := st_define n (csym st) in
   emit true ONone [] (with_sym sym' st) >>= emit_set_var true y >>= fun st1 =>
   emit true rop [1%Z] st1 >>= fun st2 =>
   emit true JumpOnFalse [JumpPlaceholderZ] st2 >>= for_assign true (Some n) >>= fun st3 =>
   body_of true b (with_sym (st_push (csym st3)) (with_breaks [] st3)) >>= fun st4 =>
   emit true Jump [pos_of st1] (with_sym (st_pop (csym st4)) st4) >>= fun st5 =>
   emit true Drop [S] st5 >>= fun st6 =>
   patch true (pos_of st2) (pos_of st5) st6 >>= patch_all true (cbreaks st6) (pos_of st5) >>= fun st7 =>
   COk (with_breaks (cbreaks st3) st7)).
Proof. destruct b; cbn [for_loop for_declare bind body_of]; destruct (st_define n (csym st)); reflexivity. Qed.

Lemma layrv_ok rop S n b s3 st' : range_op rop S -> slist_lay b -> top_ok s3 ->
  for_loop true (Some n) rop (Z.of_N S) b s3 = COk st' ->
  let sym' := fst (st_define n (csym s3)) in let y := snd (st_define n (csym s3)) in
  top_ok (with_sym sym' s3) /\ sscp y = GlobalScope /\ st_resolve n sym' = Some y /\
  exists sg seg_r,
    jbytes SetGlobal (sidx y) sg /\
    LAYRV rop S b y {| ccode := (ccode s3 ++ [N_of_opc ONone]) ++ sg; cconsts := cconsts s3; csym := sym'; cbreaks := cbreaks s3 |} st' seg_r /\
    ccode st' = ccode s3 ++ [N_of_opc ONone] ++ sg ++ seg_r /\ cbreaks st' = cbreaks s3 /\ csym st' = sym'.
Proof.
  intros HRO HB HT HC. pose proof HT as (HO & HI & HN). rewrite for_loop_lv_body in HC.
  assert (X1 : make (N_of_opc rop) [1%Z] = Some [N_of_opc rop; 0; 1]) by (destruct HRO as [[-> ->]|[-> ->]]; vm_compute; reflexivity).
  assert (X5 : make (N_of_opc Drop) [Z.of_N S] = Some [N_of_opc Drop; 0; S]) by (destruct HRO as [[-> ->]|[-> ->]]; vm_compute; reflexivity).
  destruct (st_define n (csym s3)) as [sym' y] eqn:ED. cbn [fst snd].
  assert (HD1 : fst (st_define n (csym s3)) = sym') by (rewrite ED; reflexivity).
  assert (HD2 : snd (st_define n (csym s3)) = y) by (rewrite ED; reflexivity).
  destruct (define_frame n (csym s3)) as (F1 & F2 & F3). rewrite HD1 in F1, F2, F3.
  pose proof (inv_define n (csym s3) HI) as HI'. rewrite HD1 in HI'.
  pose proof (define_then_resolve (csym s3) n) as DR. rewrite HD1, HD2 in DR.
  assert (HO' : outers sym' = []) by congruence.
  destruct (sym_top_globals _ HO' HI' _ _ DR) as [SG SI].
  assert (HT' : top_ok (with_sym sym' s3)) by (repeat split; cbn [with_sym csym]; auto; congruence).
  destruct (top_gsym _ HT') as [HG' HGB']. cbn [with_sym csym] in HG', HGB'.
  split; [exact HT'|]. split; [exact SG|]. split; [exact DR|].
  destruct (emit true ONone [] (with_sym sym' s3)) as [sa|] eqn:Ea; [|discriminate]. cbn [bind] in HC.
  destruct (emit_set_var true y sa) as [st1|] eqn:Eb; [|discriminate]. cbn [bind] in HC.
  destruct (emit true rop [1%Z] st1) as [st2|] eqn:E1; [|discriminate]. cbn [bind] in HC.
  destruct (emit true JumpOnFalse [JumpPlaceholderZ] st2) as [st2'|] eqn:E2; [|discriminate]. cbn [bind] in HC.
  destruct (for_assign true (Some n) st2') as [st3|] eqn:E2a; [|discriminate]. cbn [bind] in HC.
  destruct (body_of true b (with_sym (st_push (csym st3)) (with_breaks [] st3))) as [st4|] eqn:E3; [|discriminate]. cbn [bind] in HC.
  destruct (emit true Jump [pos_of st1] (with_sym (st_pop (csym st4)) st4)) as [st5|] eqn:E4; [|discriminate]. cbn [bind] in HC.
  destruct (emit true Drop [Z.of_N S] st5) as [st6|] eqn:E5; [|discriminate]. cbn [bind] in HC.
  destruct (patch true (pos_of st2) (pos_of st5) st6) as [st7|] eqn:E6; [|discriminate]. cbn [bind] in HC.
  destruct (patch_all true (cbreaks st6) (pos_of st5) st7) as [st8|] eqn:E7; [|discriminate]. cbn [bind] in HC.
  inversion HC; subst st'; clear HC.
  apply emit_ok in Ea. destruct Ea as (insa & HMa & ->).
  assert (Xa : make (N_of_opc ONone) [] = Some [N_of_opc ONone]) by (vm_compute; reflexivity).
  assert (Ya : insa = [N_of_opc ONone]) by congruence. subst insa. clear Xa HMa.
  cbn [with_sym ccode cconsts csym cbreaks] in *.
  unfold emit_set_var in Eb. rewrite SG in Eb. apply emit_op_bytes in Eb; [|reflexivity]. destruct Eb as (sg & HMG & HSG & ->).
  rewrite N2Z.id in HSG. cbn [ccode cconsts csym cbreaks] in *.
  apply emit_ok in E1. destruct E1 as (ins1 & HM1 & ->).
  assert (Y1 : ins1 = [N_of_opc rop; 0; 1]) by congruence. subst ins1. clear X1 HM1.
  apply emit_hole_bytes in E2; [|reflexivity]. destruct E2 as (h0 & l0 & ->). cbn [ccode cconsts csym cbreaks] in *.
  unfold for_assign in E2a. cbn [csym] in E2a. rewrite DR in E2a. unfold emit_set_var in E2a. rewrite SG in E2a.
  apply emit_op_bytes in E2a; [|reflexivity]. destruct E2a as (sg2 & HMG2 & _ & ->).
  assert (sg2 = sg) by congruence. subst sg2. clear HMG2. cbn [ccode cconsts csym cbreaks] in *.
  set (sr := [N_of_opc rop; 0; 1]) in *.
  set (sa := {| ccode := (ccode s3 ++ [N_of_opc ONone]) ++ sg; cconsts := cconsts s3; csym := sym'; cbreaks := cbreaks s3 |}) in *.
  destruct (HB _ _ E3) as (bs_b & seg_b & L & Cb & Bb & Sb); cbn [with_sym with_breaks csym];
    [apply gsym_push; exact HG'|apply has_gb_push; exact HGB'|].
  cbn [with_sym with_breaks ccode cconsts csym cbreaks app] in Cb, Bb, Sb.
  apply emit_jump_bytes in E4. destruct E4 as (jb & HJB & ->). cbn [with_sym ccode cconsts csym cbreaks] in *.
  apply emit_ok in E5. destruct E5 as (ins5 & HM5 & ->).
  assert (Y5 : ins5 = [N_of_opc Drop; 0; S]) by congruence. subst ins5. clear X5 HM5.
  cbn [ccode cconsts csym cbreaks] in *.
  set (dr := [N_of_opc Drop; 0; S]) in *.
  pose proof (jbytes_len _ _ _ HJB) as Ljb. pose proof (jbytes_len _ _ _ HSG) as Lsg.
  assert (C6 : (ccode st4 ++ jb) ++ dr = (ccode sa ++ sr) ++ N_of_opc JumpOnFalse :: h0 :: l0 :: (sg ++ seg_b ++ jb ++ dr)).
  { rewrite Cb. unfold sa. cbn [ccode]. rewrite <- !app_assoc. reflexivity. }
  assert (EP : pos_of {| ccode := ccode sa ++ sr; cconsts := cconsts s3; csym := sym'; cbreaks := cbreaks s3 |} = Z.of_nat (List.length (ccode sa ++ sr)))
    by reflexivity.
  change (((ccode s3 ++ [N_of_opc ONone]) ++ sg) ++ sr) with (ccode sa ++ sr) in E6. rewrite EP in E6.
  match type of E6 with patch _ _ ?T0 ?s0 = _ =>
    destruct (patch_bytes (ccode sa ++ sr) _ h0 l0 (sg ++ seg_b ++ jb ++ dr) T0 s0 st7 C6 E6) as (HTz & hi & lo & EH & ->) end.
  cbn [ccode cconsts csym cbreaks] in E7 |- *. rewrite Bb in E7.
  set (jf := [N_of_opc JumpOnFalse; hi; lo]).
  match type of E7 with patch_all _ _ ?T0 ?x = _ =>
    destruct (proj1 (proj2 (lay_brk_patch T0)) _ _ _ _ _ _ L eq_refl x st8 (((ccode sa ++ sr) ++ jf) ++ sg) (jb ++ dr)) as (seg_b' & C8 & K8 & S8 & B8 & L8 & LY8);
      [cbn [ccode]; unfold jf; rewrite <- !app_assoc; reflexivity
      |cbn [with_sym with_breaks ccode]; unfold jf, sa; cbn [ccode]; rewrite !app_length; reflexivity
      |exact E7|] end.
  cbn [ccode cconsts csym cbreaks] in C8, K8, S8, B8.
  assert (LEN : N.of_nat (List.length (ccode sa)) + N.of_nat (List.length (sr ++ jf ++ sg ++ seg_b' ++ jb)) = hi * 256 + lo).
  { rewrite EH. unfold pos_of. cbn [ccode]. rewrite Cb. unfold sa. cbn [ccode].
    rewrite ?app_length; simpl List.length; rewrite ?app_length; simpl List.length; lia. }
  match type of LY8 with LAYL (Some ?X) _ _ _ _ _ => replace X with (N.of_nat (List.length (ccode sa)) + N.of_nat (List.length (sr ++ jf ++ sg ++ seg_b' ++ jb))) in LY8 by (rewrite LEN, EH; reflexivity) end.
  assert (SF : st_pop (csym st4) = sym') by (rewrite Sb; apply pop_push_id; exact HG').
  exists sg, (sr ++ jf ++ sg ++ seg_b' ++ jb ++ dr).
  split; [exact HSG|]. split; [|split; [|split]].
  - unfold LAYRV. match type of LY8 with LAYL _ _ ?stx _ _ _ => exists stx, st4, bs_b, seg_b', jf, jb, sg end.
    split; [exact HSG|]. split; [reflexivity|]. split; [apply same_resolve_push|].
    split; [cbn [with_sym with_breaks ccode]; unfold sa, sr; cbn [ccode]; rewrite !app_length, Lsg; simpl; lia|].
    split; [exact LY8|]. split; [exists hi, lo; split; [reflexivity|symmetry; exact LEN]|].
    split; [change (pos_of sa) with (pos_of sa) in HJB; rewrite pos_pcof, N2Z.id in HJB; exact HJB|].
    split; [cbn [with_breaks cconsts]; exact K8|]. split; [cbn [with_breaks csym]; rewrite S8; exact SF|reflexivity].
  - cbn [with_breaks ccode]. rewrite C8. unfold jf, sa. cbn [ccode]. rewrite <- !app_assoc. reflexivity.
  - reflexivity.
  - cbn [with_breaks csym]. rewrite S8. exact SF.
Qed.

Lemma lay_forstep_ok start stop step b st st' :
  ofrag start = true -> efrag stop = true -> ofrag step = true -> slist_lay b ->
  compile_stmt true (SForStep None start stop step b) st = COk st' -> gsym (csym st) -> has_gb (csym st) ->
  LAYOK (SForStep None start stop step b) st st'.
Proof.
  intros F1 F2 F3 HB HC HG HGB. cbn [compile_stmt] in HC.
  pose proof (ofrag_expr step 1 F3) as F3'. pose proof (ofrag_expr start 0 F1) as F1'.
  destruct (compile_expr true stop st) as [s1|] eqn:E1; [|discriminate]. cbn [bind] in HC.
  destruct (compile_expr true (match step with OSome e => e | ONoneE => ENum 1 end) s1) as [s2|] eqn:E2; [|discriminate]. cbn [bind] in HC.
  destruct (compile_expr true (match start with OSome e => e | ONoneE => ENum 0 end) s2) as [s3|] eqn:E3; [|discriminate]. cbn [bind] in HC.
  destruct (efrag_sl _ F2 st s1 E1) as (S1 & o1 & c1 & C1 & K1 & _). pose proof (efrag_breaks _ F2 _ _ E1) as B1.
  destruct (efrag_sl _ F3' s1 s2 E2) as (S2 & o2 & c2 & C2 & K2 & _). pose proof (efrag_breaks _ F3' _ _ E2) as B2.
  destruct (efrag_sl _ F1' s2 s3 E3) as (S3 & o3 & c3 & C3 & K3 & _). pose proof (efrag_breaks _ F1' _ _ E3) as B3.
  destruct (layr_ok StepRange 3 b s3 st' (or_introl (conj eq_refl eq_refl)) HB HC) as (seg_r & LR & CR & BR & SR);
    [rewrite S3, S2, S1; exact HG|rewrite S3, S2, S1; exact HGB|].
  exists [], (encode o1 ++ encode o2 ++ encode o3 ++ seg_r). split; [|split; [|split]].
  - eapply lay_forstep; eauto.
  - rewrite CR, C3, C2, C1, <- !app_assoc. reflexivity.
  - rewrite app_nil_r. congruence.
  - congruence.
Qed.

(* one `cond / block` (compileConditionalBlock): a builder for the head of a
   chain whose end jump still holds the placeholder *)
Lemma cond_lay c b st st1 : efrag c = true -> slist_lay b ->
  compile_cond true c b st = COk st1 -> gsym (csym st) -> has_gb (csym st) ->
  csym st1 = csym st /\
  exists bs_h segh, cbreaks st1 = cbreaks st ++ bs_h /\ ccode st1 = ccode st ++ segh /\
    forall t els st' End js bs_r seg_r, LAYC None false t els st1 st' End js bs_r seg_r ->
      LAYC None false (CCons c b t) els st st' End ((pos_of st1 - 3)%Z :: js) (bs_h ++ bs_r) (segh ++ seg_r).
Proof.
  intros HF HB HC HG HGB. rewrite compile_cond_body in HC.
  destruct (compile_expr true c st) as [ste|] eqn:E1; [|discriminate]. cbn [bind] in HC.
  destruct (emit true JumpOnFalse [JumpPlaceholderZ] ste) as [st2|] eqn:E2; [|discriminate]. cbn [bind] in HC.
  destruct (body_of true b (with_sym (st_push (csym st2)) st2)) as [st3|] eqn:E3; [|discriminate]. cbn [bind] in HC.
  destruct (emit true Jump [JumpPlaceholderZ] (with_sym (st_pop (csym st3)) st3)) as [st4|] eqn:E4; [|discriminate]. cbn [bind] in HC.
  rename HC into E5.
  destruct (efrag_sl c HF st ste E1) as (S1 & ops & newc & C & K & _).
  pose proof (efrag_breaks c HF _ _ E1) as B1.
  apply emit_hole_bytes in E2; [|reflexivity]. destruct E2 as (h0 & l0 & ->). cbn [csym] in E3.
  destruct (HB _ _ E3) as (bs_b & seg_b & L & Cb & Bb & Sb); cbn [with_sym csym];
    [apply gsym_push; rewrite S1; exact HG|apply has_gb_push; rewrite S1; exact HGB|].
  cbn [with_sym ccode cconsts csym cbreaks] in Cb, Bb, Sb.
  apply emit_hole_bytes in E4; [|reflexivity]. destruct E4 as (h1 & l1 & ->). cbn [with_sym ccode cconsts csym cbreaks] in *.
  assert (C4 : ccode st3 ++ [N_of_opc Jump; h1; l1] = ccode ste ++ N_of_opc JumpOnFalse :: h0 :: l0 :: (seg_b ++ [N_of_opc Jump; h1; l1])).
  { rewrite Cb, <- !app_assoc. reflexivity. }
  unfold pos_of at 1 in E5.
  match type of E5 with patch _ _ ?T0 ?s0 = _ =>
    destruct (patch_bytes (ccode ste) _ h0 l0 (seg_b ++ [N_of_opc Jump; h1; l1]) T0 s0 st1 C4 E5) as (HT & hi & lo & EH & ->) end.
  cbn [ccode cconsts csym cbreaks].
  set (jf := [N_of_opc JumpOnFalse; hi; lo]) in *.
  set (je := [N_of_opc Jump; h1; l1]) in *.
  set (stc := {| ccode := ccode ste ++ N_of_opc JumpOnFalse :: hi :: lo :: seg_b ++ je;
                 cconsts := cconsts st3; csym := st_pop (csym st3); cbreaks := cbreaks st3 |}) in *.
  assert (Sc : csym stc = csym st) by (unfold stc; cbn [csym]; rewrite Sb, S1; apply pop_push_id; exact HG).
  assert (EJ : (pos_of stc - 3)%Z = Z.of_nat (List.length (ccode st) + List.length (encode ops ++ jf ++ seg_b))).
  { unfold pos_of, stc, jf, je. cbn [ccode]. rewrite C. rewrite ?app_length; simpl List.length; rewrite ?app_length; simpl List.length; lia. }
  assert (JFT : N.of_nat (List.length (ccode st)) + N.of_nat (List.length (encode ops ++ jf ++ seg_b ++ je)) = hi * 256 + lo).
  { rewrite EH. unfold pos_of. cbn [ccode]. rewrite C4, C. unfold je. rewrite ?app_length; simpl List.length; rewrite ?app_length; simpl List.length; lia. }
  split; [exact Sc|].
  exists bs_b, (encode ops ++ jf ++ seg_b ++ je). split; [unfold stc; cbn [cbreaks]; rewrite Bb, B1; reflexivity|]. split.
  { unfold stc, jf. cbn [ccode]. rewrite C, <- !app_assoc. reflexivity. }
  intros t els st' End js bs_r seg_r HT2. rewrite EJ, <- !app_assoc.
  set (stx := {| ccode := ccode ste ++ [N_of_opc JumpOnFalse; h0; l0]; cconsts := cconsts ste; csym := st_push (csym ste); cbreaks := cbreaks ste |}) in *.
  assert (F4 : cconsts stx = cconsts ste) by reflexivity.
  assert (F5 : same_resolve (csym stx) (csym st)) by (intro n; unfold stx; cbn [csym]; rewrite resolve_push, S1; reflexivity).
  assert (F6 : N.of_nat (List.length (ccode stx)) = N.of_nat (List.length (ccode ste)) + 3) by (unfold stx; cbn [ccode]; rewrite app_length; simpl; lia).
  assert (F8 : jbytes JumpOnFalse (N.of_nat (List.length (ccode st)) + N.of_nat (List.length (encode ops ++ jf ++ seg_b ++ je))) jf).
  { exists hi, lo. split; [reflexivity|]. rewrite <- JFT. reflexivity. }
  assert (F9 : jshape false End je) by (exists h1, l1; reflexivity).
  assert (G1 : cconsts stc = cconsts st3) by reflexivity.
  assert (G2 : same_resolve (csym stc) (csym st)) by (apply same_resolve_eq; exact Sc).
  assert (G3 : N.of_nat (List.length (ccode stc)) = N.of_nat (List.length (ccode st3)) + 3).
  { unfold stc, je. cbn [ccode]. rewrite Cb. unfold stx. cbn [ccode]. rewrite ?app_length; simpl List.length; rewrite ?app_length; simpl List.length; lia. }
  exact (layc_cons None false c b t els st ste stx st3 stc st' End js bs_b bs_r (encode ops) seg_b jf je seg_r HF E1 C F4 F5 F6 L F8 F9 G1 G2 G3 HT2).
Qed.

Fixpoint clist_ok (l : clist) : Prop :=
  match l with CNil => True | CCons c b t => efrag c = true /\ slist_lay b /\ clist_ok t end.

(* the else-if blocks: the chain up to its (still unknown) tail *)
Lemma elifs_lay : forall l, clist_ok l -> forall jumps st st2 js',
  compile_elifs true l jumps st = (COk st2, js') -> gsym (csym st) -> has_gb (csym st) ->
  csym st2 = csym st /\
  exists js bs seg, js' = jumps ++ js /\ ccode st2 = ccode st ++ seg /\ cbreaks st2 = cbreaks st ++ bs /\
    forall els st' End bs_e seg_e, LAYC None false CNil els st2 st' End [] bs_e seg_e ->
      LAYC None false l els st st' End js (bs ++ bs_e) (seg ++ seg_e).
Proof.
  induction l as [|c b t IH]; intros HOK jumps st st2 js' HC HG HGB.
  - cbn [compile_elifs] in HC. inversion HC; subst. split; [reflexivity|].
    exists [], [], []. split; [rewrite app_nil_r; reflexivity|]. split; [rewrite app_nil_r; reflexivity|]. split; [rewrite app_nil_r; reflexivity|].
    intros els st' End bs_e seg_e HT. exact HT.
  - destruct HOK as (HF & HB & HOK). cbn [compile_elifs] in HC.
    destruct (compile_cond true c b st) as [st1|] eqn:E1; [|inversion HC].
    destruct (cond_lay c b st st1 HF HB E1 HG HGB) as (S1 & bs_h & segh & B1 & C1 & BUILD).
    destruct (IH HOK _ _ _ _ HC) as (S2 & js & bs & seg & EJ & C2 & B2 & TAIL); [rewrite S1; exact HG|rewrite S1; exact HGB|].
    split; [congruence|].
    exists ((pos_of st1 - 3)%Z :: js), (bs_h ++ bs), (segh ++ seg). split; [rewrite EJ, <- app_assoc; reflexivity|].
    split; [rewrite C2, C1, app_assoc; reflexivity|]. split; [rewrite B2, B1, app_assoc; reflexivity|].
    intros els st' End bs_e seg_e HT. rewrite <- !app_assoc. apply BUILD. apply TAIL. exact HT.
Qed.

(* the final patching of compileIfStatement turns the pending chain into the
   final one; segment lengths and all compile-time states stay *)
Lemma layc_patch brk : forall l els st st' End js bs seg, LAYC brk false l els st st' End js bs seg ->
  forall T s s' pre post, Z.to_N T = End -> ccode s = pre ++ seg ++ post -> List.length pre = List.length (ccode st) ->
  patch_all true js T s = COk s' ->
  exists seg', ccode s' = pre ++ seg' ++ post /\ cconsts s' = cconsts s /\ csym s' = csym s /\ cbreaks s' = cbreaks s /\
    List.length seg' = List.length seg /\ LAYC brk true l els st st' End js bs seg'.
Proof.
  induction l as [|c b t IH]; intros els st st' End js bs seg HL T s s' pre post HT HC HLen HP.
  - inversion HL; subst; rewrite patch_all_nil in HP; inversion HP; subst s'.
    + exists []. repeat split; auto. constructor; assumption.
    + exists seg. repeat split; auto. econstructor; eauto.
  - inversion HL; subst.
    match goal with H : jshape false _ _ |- _ => cbn [jshape] in H; destruct H as (h0 & l0 & ->) end.
    unfold patch_all in HP. cbn [fold_left bind] in HP.
    match type of HP with fold_left _ _ ?X = _ => destruct X as [s1|e] eqn:E1; [|rewrite fold_cerr in HP; discriminate] end.
    change (patch_all true js0 T s1 = COk s') in HP.
    assert (CC : ccode s = (pre ++ seg_c ++ jf ++ seg_b) ++ N_of_opc Jump :: h0 :: l0 :: (seg_r ++ post)).
    { rewrite HC, <- !app_assoc. reflexivity. }
    assert (EL : (List.length (ccode st) + List.length (seg_c ++ jf ++ seg_b))%nat = List.length (pre ++ seg_c ++ jf ++ seg_b)).
    { rewrite (app_length pre), HLen. reflexivity. }
    rewrite EL in E1.
    destruct (patch_bytes _ _ h0 l0 (seg_r ++ post) T s s1 CC E1) as (HTr & hi & lo & EH & ->).
    match goal with HJ : jbytes JumpOnFalse _ jf |- _ => pose proof (jbytes_len _ _ _ HJ) as Ljf end.
    match goal with HB : LAYL _ b stx stb _ seg_b |- _ => pose proof (layl_len _ _ _ _ _ _ HB) as LLb end.
    match goal with H1 : ccode st1 = ccode st ++ seg_c |- _ => pose proof (f_equal (@List.length N) H1) as L1; rewrite app_length in L1 end.
    match type of HP with patch_all _ _ _ ?s1 = _ => set (s1v := s1) in * end.
    lazymatch goal with HT2 : LAYC _ false t els sty st' _ js0 _ seg_r |- _ =>
      destruct (IH els sty st' _ js0 _ seg_r HT2 T s1v s' (pre ++ seg_c ++ jf ++ seg_b ++ [N_of_opc Jump; hi; lo]) post eq_refl) as
        (seg_r' & C' & K' & S' & B' & L' & LY'); [unfold s1v; cbn [ccode]; rewrite <- !app_assoc; reflexivity| |exact HP|] end.
    { apply Nat2N.inj. rewrite !app_length, Ljf. simpl List.length. lia. }
    unfold s1v in *. cbn [ccode cconsts csym cbreaks] in *.
    exists (seg_c ++ jf ++ seg_b ++ [N_of_opc Jump; hi; lo] ++ seg_r').
    split; [rewrite C', <- !app_assoc; reflexivity|]. split; [exact K'|]. split; [exact S'|]. split; [exact B'|].
    split; [rewrite !app_length, L'; reflexivity|].
    eapply layc_cons; try eassumption.
    + match goal with HJ : jbytes JumpOnFalse ?X jf |- jbytes JumpOnFalse ?Y jf => replace Y with X; [exact HJ|] end.
      rewrite !app_length. reflexivity.
    + cbn [jshape]. exists hi, lo. split; [reflexivity|exact EH].
Qed.

Lemma lay_if_ok c b elifs els st st' : efrag c = true -> slist_lay b -> clist_ok elifs ->
  (match els with NoElse => True | Else eb => slist_lay eb end) ->
  compile_stmt true (SIf c b elifs els) st = COk st' -> gsym (csym st) -> has_gb (csym st) ->
  LAYOK (SIf c b elifs els) st st'.
Proof.
  intros HF HB HEL HE HC HG HGB. cbn [compile_stmt] in HC.
  destruct (compile_cond true c b st) as [st1|] eqn:E1; [|discriminate]. cbn [bind] in HC.
  destruct (compile_elifs true elifs [(pos_of st1 - 3)%Z] st1) as [r jumps] eqn:E2.
  destruct r as [st2|]; [|discriminate]. cbn [bind] in HC.
  destruct (cond_lay c b st st1 HF HB E1 HG HGB) as (S1 & bs_h & segh & B1 & C1 & BUILD).
  destruct (elifs_lay elifs HEL _ _ _ _ E2) as (S2 & js & bs2 & seg2 & EJ & C2 & B2 & TAIL); [rewrite S1; exact HG|rewrite S1; exact HGB|].
  subst jumps. cbn [app] in HC.
  assert (TAILOK : exists st3 ste End bs_e seg_e,
            (match els with NoElse => COk st2 | Else eb => compile_block true eb st2 end) = COk st3 /\
            LAYC None false CNil els st2 ste End [] bs_e seg_e /\ ccode st3 = ccode st2 ++ seg_e /\
            End = N.of_nat (List.length (ccode st3)) /\ cconsts st3 = cconsts ste /\ csym st3 = csym st2 /\
            cbreaks st3 = cbreaks st2 ++ bs_e).
  { destruct els as [|eb].
    - exists st2, st2, (N.of_nat (List.length (ccode st2))), [], []. repeat split; auto; [constructor; reflexivity|rewrite app_nil_r; reflexivity|rewrite app_nil_r; reflexivity].
    - destruct (compile_block true eb st2) as [st3|] eqn:E6; [|discriminate]. cbn [bind] in HC.
      destruct (lay_block eb st2 st3 HE E6) as (sty & stee & bs_e & seg_e & Le & Ky & Sy & Cy & Ce & Cee & Ke & Be & Se);
        [rewrite S2, S1; exact HG|rewrite S2, S1; exact HGB|].
      exists st3, stee, (N.of_nat (List.length (ccode st2)) + N.of_nat (List.length seg_e)), bs_e, seg_e.
      split; [reflexivity|]. split; [apply (layc_nil_else None false eb st2 sty stee _ bs_e seg_e Ky Sy (f_equal (@List.length N) Cy) Le eq_refl)|].
      split; [exact Ce|]. split; [rewrite Ce, app_length, Nat2N.inj_add; reflexivity|]. auto. }
  destruct TAILOK as (st3 & ste & End & bs_e & seg_e & E3 & LT & C3 & EE & K3 & S3 & B3). rewrite E3 in HC. cbn [bind] in HC.
  pose proof (BUILD _ _ _ _ _ _ _ (TAIL _ _ _ _ _ LT)) as LC.
  destruct (layc_patch _ _ _ _ _ _ _ _ _ LC (pos_of st3) st3 st' (ccode st) []) as (seg' & C' & K' & S' & B' & L' & LY).
  { unfold pos_of. rewrite EE. lia. }
  { rewrite C3, C2, C1, app_nil_r, <- !app_assoc. reflexivity. }
  { reflexivity. }
  { exact HC. }
  rewrite app_nil_r in C'.
  exists (bs_h ++ bs2 ++ bs_e), seg'. split; [|split; [exact C'|split; [|congruence]]].
  - eapply lay_if; [|rewrite K'; exact K3|congruence].
    replace (N.of_nat (List.length (ccode st)) + N.of_nat (List.length seg')) with End; [exact LY|].
    rewrite EE, C3, C2, C1, L', !app_length, !Nat2N.inj_add. lia.
  - rewrite B', B3, B2, B1, <- !app_assoc. reflexivity.
Qed.

(* ---------- every statement of the fragment ---------- *)
Theorem lay_all :
  (forall s, wfrag_stmt s = true -> forall st st', compile_stmt true s st = COk st' ->
             gsym (csym st) -> has_gb (csym st) -> LAYOK s st st') /\
  (forall l, wfrag_slist l = true -> slist_lay l) /\
  (forall l, wfrag_clist l = true -> clist_ok l) /\
  (forall o, match o with NoElse => True | Else b => wfrag_slist b = true -> slist_lay b end).
Proof.
  apply stmt_mutind; try (intros; exact I).
  - intros n e HF. discriminate.
  - intros target e HF st st' HC HG HGB. destruct target; try discriminate HF. apply (lay_assign_ok n e st st' HF HC HGB).
  - intros c b Hb elifs Hc els Ho HF st st' HC HG HGB. cbn [wfrag_stmt] in HF.
    apply andb_true_iff in HF. destruct HF as [HF F4]. apply andb_true_iff in HF. destruct HF as [HF F3].
    apply andb_true_iff in HF. destruct HF as [F1 F2].
    apply (lay_if_ok c b elifs els st st' F1 (Hb F2) (Hc F3)); auto. destruct els; [exact I|apply Ho; exact F4].
  - intros c b Hb HF st st' HC HG HGB. cbn [wfrag_stmt] in HF. apply andb_true_iff in HF. destruct HF as [F1 F2].
    apply (lay_while_ok c b st st' F1 (Hb F2) HC HG HGB).
  - intros lv start stop step b Hb HF st st' HC HG HGB. cbn [wfrag_stmt] in HF. destruct lv; [discriminate|].
    apply andb_true_iff in HF. destruct HF as [HF F4]. apply andb_true_iff in HF. destruct HF as [HF F3].
    apply andb_true_iff in HF. destruct HF as [F1 F2].
    apply (lay_forstep_ok start stop step b st st' F1 F2 F3 (Hb F4) HC HG HGB).
  - intros lv t e b Hb HF st st' HC HG HGB. cbn [wfrag_stmt] in HF. destruct lv; [discriminate|].
    assert (Ht : t = TStr \/ t = TArr \/ t = TMap) by (destruct t; try discriminate HF; auto).
    assert (HF' : efrag e && wfrag_slist b = true) by (destruct t; try discriminate HF; exact HF).
    apply andb_true_iff in HF'. destruct HF' as [F1 F2].
    apply (lay_foriter_ok t e b st st' Ht F1 (Hb F2) HC HG HGB).
  - intros _ st st' HC _ _. apply (lay_break_ok st st' HC).
  - intros _ st st' HC _ _. cbn [compile_stmt] in HC. inversion HC; subst.
    exists [], []. split; [constructor|]. split; [rewrite app_nil_r; reflexivity|]. split; [rewrite app_nil_r; reflexivity|reflexivity].
  - intros b _ HF. discriminate.
  - intros w HF. discriminate.
  - intros _ st st' HC _ _. cbn [body_of] in HC. inversion HC; subst.
    exists [], []. split; [constructor|]. split; [rewrite app_nil_r; reflexivity|]. split; [rewrite app_nil_r; reflexivity|reflexivity].
  - intros s Hs t Ht HF st st' HC HG HGB. cbn [wfrag_slist] in HF. apply andb_true_iff in HF. destruct HF as [F1 F2].
    cbn [body_of] in HC. destruct (compile_stmt true s st) as [st1|] eqn:E1; [|discriminate]. cbn [bind] in HC.
    destruct (Hs F1 st st1 E1 HG HGB) as (bs1 & seg1 & L1 & C1 & B1 & S1). rewrite compile_slist_body in HC.
    destruct (Ht F2 st1 st' HC) as (bs2 & seg2 & L2 & C2 & B2 & S2); [rewrite S1; exact HG|rewrite S1; exact HGB|].
    exists (bs1 ++ bs2), (seg1 ++ seg2). split; [|split; [rewrite C2, C1, app_assoc; reflexivity|split; [rewrite B2, B1, app_assoc; reflexivity|congruence]]].
    eapply layl_cons; eauto. rewrite C1, app_length, Nat2N.inj_add. reflexivity.
  - intros c b Hb t Ht HF. cbn [wfrag_clist] in HF.
    apply andb_true_iff in HF. destruct HF as [HF F3]. apply andb_true_iff in HF. destruct HF as [F1 F2].
    cbn [clist_ok]. auto.
  - intros b Hb. exact Hb.
Qed.

(* ====================================================================== *)
(* Part 3: whole programs, from NewCompiler and NewVM                      *)
(* ====================================================================== *)
Lemma nb_no_breaks :
  (forall brk s st st' bs seg, LAY brk s st st' bs seg -> nb_stmt s = true -> bs = []) /\
  (forall brk l st st' bs seg, LAYL brk l st st' bs seg -> nb_slist l = true -> bs = []) /\
  (forall brk fin l els st st' End js bs seg, LAYC brk fin l els st st' End js bs seg ->
     nb_clist l = true -> match els with NoElse => True | Else eb => nb_slist eb = true end -> bs = []) /\
  (forall b s3 st' S rop seg, LAYR b s3 st' S rop seg -> True).
Proof.
  apply LAY_mutind; intros; try reflexivity; try exact I.
  - discriminate.
  - cbn [nb_stmt] in H0. apply andb_true_iff in H0. destruct H0 as [H0 F3]. apply andb_true_iff in H0. destruct H0 as [F1 F2].
    apply H; [cbn [nb_clist]; rewrite F1, F2; reflexivity|destruct els; [exact I|exact F3]].
  - cbn [nb_slist] in H1. apply andb_true_iff in H1. destruct H1 as [F1 F2]. rewrite (H F1), (H0 F2). reflexivity.
  - apply H. exact H1.
  - cbn [nb_clist] in H1. apply andb_true_iff in H1. destruct H1 as [F1 F2]. rewrite (H F1), (H0 F2 H2). reflexivity.
Qed.

Definition STEP (s : stmt) (st st' : cstate) : Prop :=
  forall fuel env env1, exec_s fuel s env = Some (env1, false) ->
  top_ok st' /\ index (cur (csym st)) <= index (cur (csym st')) /\
  exists seg newc, ccode st' = ccode st ++ seg /\ cconsts st' = cconsts st ++ newc /\
    forall p vs pre post,
      pcode p = pre ++ seg ++ post -> List.length pre = List.length (ccode st) -> consts_of p st' ->
      ip vs = N.of_nat (List.length pre) -> ostack vs = [] -> locals vs = [] ->
      index (cur (csym st')) <= N.of_nat (List.length (globals vs)) ->
      globals_hold env (csym st) (globals vs) -> sdepth s <= StackSize ->
      exists vs', reaches p vs vs' /\ ip vs' = ip vs + N.of_nat (List.length seg) /\ ostack vs' = [] /\ locals vs' = [] /\
                  List.length (globals vs') = List.length (globals vs) /\ globals_hold env1 (csym st') (globals vs').

Lemma top_static st : top_ok st -> sym_static (csym st) /\ slots_distinct (csym st).
Proof.
  intros (HO & HI & _). split.
  - intros n y HR. apply (sym_top_globals _ HO HI n y HR).
  - intros n1 n2 y1 y2 H1 H2 HE. apply (top_distinct (csym st) n1 n2 y1 y2 HO HI H1 H2 HE).
Qed.

Lemma step_decl n e st st' : efrag e = true -> compile_stmt true (SDecl n e) st = COk st' -> top_ok st -> STEP (SDecl n e) st st'.
Proof.
  intros HF HC HT fuel env env1 HX. destruct fuel as [|f]; [discriminate|]. cbn [exec_s] in HX.
  assert (HX' : exec_stmt env (SDecl n e) = Some env1).
  { cbn [exec_stmt]. destruct (eval_expr env e); [|discriminate]. inversion HX. reflexivity. }
  clear HX. rename HX' into HX.
  destruct (stmt_frag_ok (SDecl n e) env env1 st st' HF HC HT HX) as (T1 & M1 & seg & newc & C & K & D).
  split; [exact T1|]. split; [exact M1|]. exists seg, newc. split; [exact C|]. split; [exact K|].
  intros p vs pre post HP _ (more & HK) HI HO HL HIdx HG HD.
  destruct (D p vs more pre post HP HK HI HO HIdx HG) as (vs' & R & I & O & L & G & GH).
  - rewrite HL. simpl. cbn [sdepth] in HD. exact HD.
  - exists vs'. repeat split; auto. congruence.
Qed.

Lemma step_ctl s st st' : wfrag_stmt s = true -> nb_stmt s = true -> compile_stmt true s st = COk st' -> top_ok st -> STEP s st st'.
Proof.
  intros HF HNB HC HT fuel env env1 HX.
  destruct (top_gsym st HT) as [HG HGB]. destruct (top_static st HT) as [HSS HSD].
  destruct (proj1 lay_all s HF st st' HC HG HGB) as (bs & seg & L0 & C & B & S).
  pose proof (proj1 nb_no_breaks _ _ _ _ _ _ L0 HNB) as ->.
  (* no pending break: the layout holds for any break target *)
  destruct (proj1 (lay_brk_patch 0%Z) _ _ _ _ _ _ L0 eq_refl st' st' (ccode st) []) as (seg' & C' & _ & _ & _ & _ & L);
    [rewrite app_nil_r; exact C|reflexivity|reflexivity|].
  rewrite app_nil_r, C in C'. apply app_inv_head in C'. subst seg'.
  destruct (proj1 lay_frame _ _ _ _ _ _ L) as [(newc & K) _].
  split; [unfold top_ok; rewrite S; exact HT|]. split; [rewrite S; lia|].
  exists seg, newc. split; [exact C|]. split; [exact K|].
  intros p vs pre post HP HLen HK HI HO HL HIdx HGl HD.
  assert (HM : mstate_ok (List.length (globals vs)) st env [] vs).
  { repeat split; auto. intros m y HR. destruct (top_globals st HT m y HR) as [_ HI2]. rewrite S in HIdx. lia. }
  destruct (proj1 (sim_all fuel) _ s st st' _ seg L _ env env1 false [] HX p vs pre post HP HLen HK HI HM HSS HSD HD) as (vs' & R & I & (A1 & A2 & A3 & A4 & A5)).
  exists vs'. repeat split; auto. rewrite S. exact A3.
Qed.

(* `for n := range [start] stop [step]` at top level: n becomes a global *)
Lemma step_forstep_lv n start stop step b st st' :
  ofrag start = true -> efrag stop = true -> ofrag step = true -> wfrag_slist b = true ->
  compile_stmt true (SForStep (Some n) start stop step b) st = COk st' -> top_ok st ->
  STEP (SForStep (Some n) start stop step b) st st'.
Proof.
  intros F1 F2 F3 F4 HC HT fuel env env1 HX. pose proof HT as (HO & HI & HN).
  pose proof (ofrag_expr step 1 F3) as F3'. pose proof (ofrag_expr start 0 F1) as F1'.
  destruct fuel as [|f]; [discriminate|]. cbn [exec_s] in HX. cbn [compile_stmt] in HC.
  set (estep := match step with OSome e => e | ONoneE => ENum 1 end) in *.
  set (estart := match start with OSome e => e | ONoneE => ENum 0 end) in *.
  destruct (eval_expr env stop) as [[vstop| | | | | |]|] eqn:HE1; try discriminate.
  destruct (eval_expr env estep) as [[vstep| | | | | |]|] eqn:HE2; try discriminate.
  destruct (eval_expr env estart) as [[vstart| | | | | |]|] eqn:HE3; try discriminate.
  destruct (PrimFloat.eqb vstep 0) eqn:HZ; [discriminate|].
  destruct (compile_expr true stop st) as [s1|] eqn:E1; [|discriminate]. cbn [bind] in HC.
  destruct (compile_expr true estep s1) as [s2|] eqn:E2; [|discriminate]. cbn [bind] in HC.
  destruct (compile_expr true estart s2) as [s3|] eqn:E3; [|discriminate]. cbn [bind] in HC.
  destruct (efrag_sl _ F2 st s1 E1) as (S1 & o1 & c1 & C1 & K1 & _).
  destruct (efrag_sl _ F3' s1 s2 E2) as (S2 & o2 & c2 & C2 & K2 & _).
  destruct (efrag_sl _ F1' s2 s3 E3) as (S3 & o3 & c3 & C3 & K3 & _).
  assert (HT3 : top_ok s3) by (unfold top_ok; rewrite S3, S2, S1; exact HT).
  destruct (layrv_ok StepRange 3 n b s3 st' (or_introl (conj eq_refl eq_refl)) (proj1 (proj2 lay_all) b F4) HT3 HC) as (HT' & SG & DR & sg & seg_r & HSG & LR & CR & BR & SR).
  set (sym' := fst (st_define n (csym s3))) in *. set (y := snd (st_define n (csym s3))) in *.
  set (sa := {| ccode := (ccode s3 ++ [N_of_opc ONone]) ++ sg; cconsts := cconsts s3; csym := sym'; cbreaks := cbreaks s3 |}) in *.
  destruct (define_frame n (csym s3)) as (FD1 & FD2 & FD3). fold sym' in FD1, FD2, FD3.
  assert (KR : exists nr, cconsts st' = cconsts s3 ++ nr).
  { destruct LR as (stx & stb & bs_b & seg_b & jf & jb & sg0 & _ & Kx & _ & _ & LL & _ & _ & Kb & _).
    destruct (proj1 (proj2 lay_frame) _ _ _ _ _ _ LL) as [(nb & Knb) _]. exists nb. rewrite Kb, Knb, Kx. reflexivity. }
  destruct KR as (nr & KR).
  split; [unfold top_ok; rewrite SR; exact HT'|]. split; [rewrite SR, <- S1, <- S2, <- S3; exact FD3|].
  exists (encode o1 ++ encode o2 ++ encode o3 ++ [N_of_opc ONone] ++ sg ++ seg_r), (c1 ++ c2 ++ c3 ++ nr).
  split; [rewrite CR, C3, C2, C1, <- !app_assoc; reflexivity|]. split; [rewrite KR, K3, K2, K1, <- !app_assoc; reflexivity|].
  intros p vs pre post HP HLen HK HI0 HOs HLs HIdx HGl HD. cbn [sdepth] in HD. fold estep estart in HD.
  set (G := List.length (globals vs)).
  destruct (top_static st HT) as [HSS HSD].
  assert (HIdx0 : index (cur (csym st)) <= N.of_nat G) by (rewrite SR in HIdx; rewrite <- S1, <- S2, <- S3; unfold G; lia).
  assert (HM : mstate_ok G st env [] vs).
  { repeat split; auto. intros m ym HR. destruct (top_globals st HT m ym HR) as [_ HI2]. unfold G in HIdx0. lia. }
  assert (HK3 : consts_of p s3) by (apply (consts_of_prefix p s3 st' nr KR HK)).
  assert (HK2 : consts_of p s2) by (apply (consts_of_prefix p s2 s3 c3 K3 HK3)).
  assert (HK1 : consts_of p s1) by (apply (consts_of_prefix p s1 s2 c2 K2 HK2)).
  set (seg1 := encode o1) in *. set (seg2 := encode o2) in *. set (seg3 := encode o3) in *.
  pose proof (expr_runs G stop st s1 seg1 env (VNum vstop) [] p vs pre (seg2 ++ seg3 ++ [N_of_opc ONone] ++ sg ++ seg_r ++ post) F2 E1 C1 HE1 HSS
                ltac:(rewrite HP, <- !app_assoc; reflexivity) HK1 HI0 HM ltac:(cbn [List.length]; lia)) as R1.
  set (vs1 := {| ip := ip vs + N.of_nat (List.length seg1); ostack := [VNum vstop]; locals := locals vs; globals := globals vs |}) in *.
  destruct HM as (M1 & M2 & M3 & M4 & M5).
  assert (HM1 : mstate_ok G s1 env [VNum vstop] vs1).
  { unfold mstate_ok, vs1; simpl. rewrite S1. repeat split; auto. }
  assert (HSS1 : sym_static (csym s1)) by (rewrite S1; exact HSS).
  pose proof (expr_runs G estep s1 s2 seg2 env (VNum vstep) [VNum vstop] p vs1 (pre ++ seg1) (seg3 ++ [N_of_opc ONone] ++ sg ++ seg_r ++ post) F3' E2 C2 HE2 HSS1
                ltac:(rewrite HP, <- !app_assoc; reflexivity) HK2 ltac:(unfold vs1; simpl; rewrite HI0, app_length; lia) HM1
                ltac:(cbn [List.length]; lia)) as R2.
  set (vs2 := {| ip := ip vs1 + N.of_nat (List.length seg2); ostack := [VNum vstep; VNum vstop]; locals := locals vs1; globals := globals vs1 |}) in *.
  assert (HM2 : mstate_ok G s2 env [VNum vstep; VNum vstop] vs2).
  { unfold mstate_ok, vs2, vs1; simpl. rewrite S2, S1. repeat split; auto. }
  assert (HSS2 : sym_static (csym s2)) by (rewrite S2, S1; exact HSS).
  pose proof (expr_runs G estart s2 s3 seg3 env (VNum vstart) [VNum vstep; VNum vstop] p vs2 (pre ++ seg1 ++ seg2) ([N_of_opc ONone] ++ sg ++ seg_r ++ post) F1' E3 C3 HE3 HSS2
                ltac:(rewrite HP, <- !app_assoc; reflexivity) HK3 ltac:(unfold vs2, vs1; simpl; rewrite HI0, !app_length; lia) HM2
                ltac:(cbn [List.length]; lia)) as R3.
  set (vs3 := {| ip := ip vs2 + N.of_nat (List.length seg3); ostack := [VNum vstart; VNum vstep; VNum vstop]; locals := locals vs2; globals := globals vs2 |}) in *.
  (* the prologue: OpNone; OpSetGlobal n *)
  pose proof (step_onone p vs3 (pre ++ seg1 ++ seg2 ++ seg3) (sg ++ seg_r ++ post)
                ltac:(rewrite HP, <- !app_assoc; reflexivity)
                ltac:(unfold vs3, vs2, vs1; simpl; rewrite HI0, !app_length; lia)
                ltac:(unfold vs3, vs2, vs1; simpl; rewrite M2; simpl; lia)) as R4.
  set (vs4 := {| ip := ip vs3 + 1; ostack := VNone :: ostack vs3; locals := locals vs3; globals := globals vs3 |}) in *.
  destruct (sym_top_globals _ (proj1 HT') (proj1 (proj2 HT')) _ _ DR) as [_ SI]. cbn [with_sym csym] in SI.
  assert (HLy : (N.to_nat (sidx y) < List.length (globals vs))%nat) by (rewrite SR in HIdx; lia).
  pose proof (step_setglobal p vs4 (pre ++ seg1 ++ seg2 ++ seg3 ++ [N_of_opc ONone]) (seg_r ++ post) sg (sidx y) VNone [VNum vstart; VNum vstep; VNum vstop] HSG
                ltac:(rewrite HP, <- !app_assoc; reflexivity)
                ltac:(unfold vs4, vs3, vs2, vs1; simpl; rewrite HI0, !app_length; simpl; lia) eq_refl
                ltac:(unfold vs4, vs3, vs2, vs1; simpl; exact HLy)) as R5.
  set (vs5 := {| ip := ip vs4 + 3; ostack := [VNum vstart; VNum vstep; VNum vstop]; locals := locals vs4;
                 globals := set_nth (N.to_nat (sidx y)) VNone (globals vs4) |}) in *.
  pose proof (jbytes_len _ _ _ HSG) as Lsg.
  assert (HM5 : mstate_ok G sa (upd env n VNone) [VNum vstart; VNum vstep; VNum vstop] vs5).
  { unfold mstate_ok, vs5, vs4, vs3, vs2, vs1, sa; cbn [ostack locals globals csym]. repeat split; auto.
    - apply (store_global env n VNone y (csym st) sym' (globals vs) (proj1 HT') (proj1 (proj2 HT')) DR); auto.
      intros m Em. unfold sym'. rewrite S3, S2, S1. apply define_resolve_other. intros ->. rewrite str_eqb_refl in Em. discriminate.
    - intros m ym HRm. rewrite set_nth_length. destruct (sym_top_globals _ (proj1 HT') (proj1 (proj2 HT')) _ _ HRm) as [_ X].
      cbn [with_sym csym] in X. rewrite SR in HIdx. lia.
    - rewrite set_nth_length. reflexivity. }
  destruct (top_static _ HT') as [HSSa HSDa]. cbn [with_sym csym] in HSSa, HSDa.
  destruct (sim_rv n b y sa st' seg_r LR DR f G (upd env n VNone) env1 false vstart vstep vstop [] HX p vs5
              (pre ++ seg1 ++ seg2 ++ seg3 ++ [N_of_opc ONone] ++ sg) post) as (vs6 & R6 & I6 & HM6); auto.
  { rewrite HP, <- !app_assoc. reflexivity. }
  { unfold sa. cbn [ccode]. rewrite C3, C2, C1. fold seg1 seg2 seg3. rewrite !app_length, HLen. simpl. lia. }
  { unfold vs5, vs4, vs3, vs2, vs1; cbn [ip]. rewrite HI0, !app_length, Lsg. simpl. lia. }
  { cbn [List.length]. lia. }
  { cbn [List.length]. lia. }
  destruct HM6 as (A1 & A2 & A3 & A4 & A5).
  exists vs6. split; [|split; [|split; [exact A1|split; [exact A2|split; [exact A5|rewrite SR; exact A3]]]]].
  - eapply reaches_trans; [exact R1|]. eapply reaches_trans; [exact R2|]. eapply reaches_trans; [exact R3|].
    eapply reaches_trans; [apply reaches_step; exact R4|]. eapply reaches_trans; [apply reaches_step; exact R5|exact R6].
  - rewrite I6. unfold vs5, vs4, vs3, vs2, vs1; cbn [ip]. rewrite !app_length, Lsg. simpl. lia.
Qed.

(* `for n := range iterable` at top level: n becomes a global *)
Lemma step_foriter_lv n t e b st st' :
  (t = TStr \/ t = TArr \/ t = TMap) -> efrag e = true -> wfrag_slist b = true ->
  compile_stmt true (SForIter (Some n) t e b) st = COk st' -> top_ok st ->
  STEP (SForIter (Some n) t e b) st st'.
Proof.
  intros Ht F2 F4 HC HT fuel env env1 HX. pose proof HT as (HO & HI & HN).
  destruct fuel as [|f]; [discriminate|]. cbn [exec_s] in HX. cbn [compile_stmt] in HC.
  assert (HC' : compile_expr true e st >>= emit_const true (KNum 0) >>= for_loop true (Some n) IterRange 2 b = COk st')
    by (destruct Ht as [->|[->| ->]]; exact HC). clear HC.
  assert (HX' : match eval_expr env e with Some iter => exec_iv f n 0%float iter b (upd env n VNone) | None => None end = Some (env1, false))
    by (destruct Ht as [->|[->| ->]]; exact HX). clear HX.
  destruct (eval_expr env e) as [iter|] eqn:HE1; [|discriminate].
  destruct (compile_expr true e st) as [s1|] eqn:E1; [|discriminate]. cbn [bind] in HC'.
  destruct (emit_const true (KNum 0) s1) as [s2|] eqn:E2; [|discriminate]. cbn [bind] in HC'.
  destruct (efrag_sl _ F2 st s1 E1) as (S1 & o1 & c1 & C1 & K1 & _).
  destruct (const_correct _ _ _ E2) as (S2 & segk & C2 & K2 & D2).
  assert (HT2 : top_ok s2) by (unfold top_ok; rewrite S2, S1; exact HT).
  change 2%Z with (Z.of_N 2) in HC'.
  destruct (layrv_ok IterRange 2 n b s2 st' (or_intror (conj eq_refl eq_refl)) (proj1 (proj2 lay_all) b F4) HT2 HC') as (HT' & SG & DR & sg & seg_r & HSG & LR & CR & BR & SR).
  set (sym' := fst (st_define n (csym s2))) in *. set (y := snd (st_define n (csym s2))) in *.
  set (sa := {| ccode := (ccode s2 ++ [N_of_opc ONone]) ++ sg; cconsts := cconsts s2; csym := sym'; cbreaks := cbreaks s2 |}) in *.
  destruct (define_frame n (csym s2)) as (FD1 & FD2 & FD3). fold sym' in FD1, FD2, FD3.
  assert (KR : exists nr, cconsts st' = cconsts s2 ++ nr).
  { destruct LR as (stx & stb & bs_b & seg_b & jf & jb & sg0 & _ & Kx & _ & _ & LL & _ & _ & Kb & _).
    destruct (proj1 (proj2 lay_frame) _ _ _ _ _ _ LL) as [(nb & Knb) _]. exists nb. rewrite Kb, Knb, Kx. reflexivity. }
  destruct KR as (nr & KR).
  split; [unfold top_ok; rewrite SR; exact HT'|]. split; [rewrite SR, <- S1, <- S2; exact FD3|].
  exists (encode o1 ++ segk ++ [N_of_opc ONone] ++ sg ++ seg_r), (c1 ++ [KNum 0] ++ nr).
  split; [rewrite CR, C2, C1, <- !app_assoc; reflexivity|]. split; [rewrite KR, K2, K1, <- !app_assoc; reflexivity|].
  intros p vs pre post HP HLen HK HI0 HOs HLs HIdx HGl HD. cbn [sdepth] in HD.
  set (G := List.length (globals vs)).
  destruct (top_static st HT) as [HSS HSD].
  assert (HIdx0 : index (cur (csym st)) <= N.of_nat G) by (rewrite SR in HIdx; rewrite <- S1, <- S2; unfold G; lia).
  assert (HM : mstate_ok G st env [] vs).
  { repeat split; auto. intros m ym HR. destruct (top_globals st HT m ym HR) as [_ HI2]. unfold G in HIdx0. lia. }
  assert (HK2 : consts_of p s2) by (apply (consts_of_prefix p s2 st' nr KR HK)).
  assert (HK1 : consts_of p s1) by (apply (consts_of_prefix p s1 s2 [KNum 0] K2 HK2)).
  set (seg1 := encode o1) in *.
  pose proof (expr_runs G e st s1 seg1 env iter [] p vs pre (segk ++ [N_of_opc ONone] ++ sg ++ seg_r ++ post) F2 E1 C1 HE1 HSS
                ltac:(rewrite HP, <- !app_assoc; reflexivity) HK1 HI0 HM ltac:(cbn [List.length]; lia)) as R1.
  set (vs1 := {| ip := ip vs + N.of_nat (List.length seg1); ostack := [iter]; locals := locals vs; globals := globals vs |}) in *.
  destruct HM as (M1 & M2 & M3 & M4 & M5).
  (* the counter: the constant 0 *)
  destruct HK2 as (more2 & HK2).
  destruct (D2 p vs1 more2 (pre ++ seg1) ([N_of_opc ONone] ++ sg ++ seg_r ++ post)) as (nk & R2).
  { rewrite HP, <- !app_assoc. reflexivity. }
  { exact HK2. }
  { unfold vs1; simpl. rewrite HI0, app_length. lia. }
  { unfold vs1; simpl. rewrite M2. simpl. lia. }
  cbn [const_value] in R2.
  set (vs2 := {| ip := ip vs1 + N.of_nat (List.length segk); ostack := VNum 0 :: ostack vs1; locals := locals vs1; globals := globals vs1 |}) in *.
  (* the prologue: OpNone; OpSetGlobal n *)
  pose proof (step_onone p vs2 (pre ++ seg1 ++ segk) (sg ++ seg_r ++ post)
                ltac:(rewrite HP, <- !app_assoc; reflexivity)
                ltac:(unfold vs2, vs1; simpl; rewrite HI0, !app_length; lia)
                ltac:(unfold vs2, vs1; simpl; rewrite M2; simpl; lia)) as R4.
  set (vs4 := {| ip := ip vs2 + 1; ostack := VNone :: ostack vs2; locals := locals vs2; globals := globals vs2 |}) in *.
  destruct (sym_top_globals _ (proj1 HT') (proj1 (proj2 HT')) _ _ DR) as [_ SI]. cbn [with_sym csym] in SI.
  assert (HLy : (N.to_nat (sidx y) < List.length (globals vs))%nat) by (rewrite SR in HIdx; lia).
  pose proof (step_setglobal p vs4 (pre ++ seg1 ++ segk ++ [N_of_opc ONone]) (seg_r ++ post) sg (sidx y) VNone [VNum 0; iter] HSG
                ltac:(rewrite HP, <- !app_assoc; reflexivity)
                ltac:(unfold vs4, vs2, vs1; cbn [ip]; rewrite HI0, !app_length; simpl; lia) eq_refl
                ltac:(unfold vs4, vs2, vs1; simpl; exact HLy)) as R5.
  set (vs5 := {| ip := ip vs4 + 3; ostack := [VNum 0; iter]; locals := locals vs4;
                 globals := set_nth (N.to_nat (sidx y)) VNone (globals vs4) |}) in *.
  pose proof (jbytes_len _ _ _ HSG) as Lsg.
  assert (HM5 : mstate_ok G sa (upd env n VNone) [VNum 0; iter] vs5).
  { unfold mstate_ok, vs5, vs4, vs2, vs1, sa; cbn [ostack locals globals csym]. repeat split; auto.
    - apply (store_global env n VNone y (csym st) sym' (globals vs) (proj1 HT') (proj1 (proj2 HT')) DR); auto.
      intros m Em. unfold sym'. rewrite S2, S1. apply define_resolve_other. intros ->. rewrite str_eqb_refl in Em. discriminate.
    - intros m ym HRm. rewrite set_nth_length. destruct (sym_top_globals _ (proj1 HT') (proj1 (proj2 HT')) _ _ HRm) as [_ X].
      cbn [with_sym csym] in X. rewrite SR in HIdx. lia.
    - rewrite set_nth_length. reflexivity. }
  destruct (top_static _ HT') as [HSSa HSDa]. cbn [with_sym csym] in HSSa, HSDa.
  destruct (sim_iv n b y sa st' seg_r LR DR f G (upd env n VNone) env1 false 0%float iter [] HX' p vs5
              (pre ++ seg1 ++ segk ++ [N_of_opc ONone] ++ sg) post) as (vs6 & R6 & I6 & HM6); auto.
  { rewrite HP, <- !app_assoc. reflexivity. }
  { unfold sa. cbn [ccode]. rewrite C2, C1. fold seg1. rewrite !app_length, HLen. simpl. lia. }
  { unfold vs5, vs4, vs2, vs1; cbn [ip]. rewrite HI0, !app_length, Lsg. simpl. lia. }
  { cbn [List.length]. lia. }
  { cbn [List.length]. lia. }
  destruct HM6 as (A1 & A2 & A3 & A4 & A5).
  exists vs6. split; [|split; [|split; [exact A1|split; [exact A2|split; [exact A5|rewrite SR; exact A3]]]]].
  - eapply reaches_trans; [exact R1|]. eapply reaches_trans; [exists nk; exact R2|].
    eapply reaches_trans; [apply reaches_step; exact R4|]. eapply reaches_trans; [apply reaches_step; exact R5|exact R6].
  - rewrite I6. unfold vs5, vs4, vs2, vs1; cbn [ip]. rewrite !app_length, Lsg. simpl. lia.
Qed.

Lemma step_of_stmt s st st' : psfrag_stmt s = true -> compile_stmt true s st = COk st' -> top_ok st -> STEP s st st'.
Proof.
  intros HF HC HT.
  assert (GEN : wfrag_stmt s && nb_stmt s = true -> STEP s st st').
  { intro X. apply andb_true_iff in X. destruct X as [X1 X2]. apply step_ctl; assumption. }
  destruct s; try (apply GEN; exact HF).
  - apply (step_decl n e st st' HF HC HT).
  - destruct lv as [n|]; [|apply GEN; exact HF]. cbn [psfrag_stmt] in HF.
    apply andb_true_iff in HF. destruct HF as [HF F4]. apply andb_true_iff in HF. destruct HF as [HF F3].
    apply andb_true_iff in HF. destruct HF as [F1 F2].
    apply (step_forstep_lv n start stop step b st st' F1 F2 F3 F4 HC HT).
  - destruct lv as [n|]; [|apply GEN; exact HF]. cbn [psfrag_stmt] in HF.
    assert (Ht : t = TStr \/ t = TArr \/ t = TMap) by (destruct t; try discriminate HF; auto).
    assert (HF' : efrag e && wfrag_slist b = true) by (destruct t; try discriminate HF; exact HF).
    apply andb_true_iff in HF'. destruct HF' as [F1 F2].
    apply (step_foriter_lv n t e b st st' Ht F1 F2 HC HT).
Qed.

(* compile_correct for programs with control flow: top-level declarations,
   assignments to globals, if / else, while — nested.  If the compiler
   succeeds and the fuel-indexed semantics of the program is defined, the VM
   model started by NewVM reaches the end of the code with an empty operand
   stack, halts, and every global slot holds the value of the semantics. *)
Lemma prog_sem p : forall fuel env env' st st',
  psfrag p = true -> compile_slist true p st = COk st' -> top_ok st -> exec_l fuel p env = Some (env', false) ->
  top_ok st' /\ index (cur (csym st)) <= index (cur (csym st')) /\
  exists seg newc, ccode st' = ccode st ++ seg /\ cconsts st' = cconsts st ++ newc /\
    forall pr vs pre post,
      pcode pr = pre ++ seg ++ post -> List.length pre = List.length (ccode st) -> consts_of pr st' ->
      ip vs = N.of_nat (List.length pre) -> ostack vs = [] -> locals vs = [] ->
      index (cur (csym st')) <= N.of_nat (List.length (globals vs)) ->
      globals_hold env (csym st) (globals vs) -> ldepth p <= StackSize ->
      exists vs', reaches pr vs vs' /\ ip vs' = ip vs + N.of_nat (List.length seg) /\ ostack vs' = [] /\ locals vs' = [] /\
                  List.length (globals vs') = List.length (globals vs) /\ globals_hold env' (csym st') (globals vs').
Proof.
  induction p as [|s t IH]; intros fuel env env' st st' HF HC HT HX.
  - destruct fuel as [|f]; [discriminate|]. cbn [exec_l] in HX. inversion HX; subst env'.
    simpl in HC. inversion HC; subst st'. split; [exact HT|]. split; [lia|].
    exists [], []. split; [rewrite app_nil_r; reflexivity|]. split; [rewrite app_nil_r; reflexivity|].
    intros pr vs pre post _ _ _ HI HO HL _ HG _. exists vs. split; [apply reaches_refl|]. simpl. repeat split; auto. lia.
  - destruct fuel as [|f]; [discriminate|]. cbn [exec_l] in HX.
    destruct (exec_s f s env) as [[env1 [|]]|] eqn:HX1; try discriminate.
    cbn [psfrag] in HF. apply andb_true_iff in HF. destruct HF as [F1 F2]. cbn [compile_slist] in HC.
    destruct (compile_stmt true s st) as [st1|] eqn:E1; [|discriminate]. cbn [bind] in HC.
    destruct (step_of_stmt s st st1 F1 E1 HT f env env1 HX1) as (T1 & M1 & seg1 & c1 & C1 & K1 & D1).
    destruct (IH f env1 env' st1 st' F2 HC T1 HX) as (T2 & M2 & seg2 & c2 & C2 & K2 & D2).
    split; [exact T2|]. split; [lia|]. exists (seg1 ++ seg2), (c1 ++ c2).
    split; [rewrite C2, C1, app_assoc; reflexivity|]. split; [rewrite K2, K1, app_assoc; reflexivity|].
    intros pr vs pre post HP HLen HK HI HO HL HIdx HG HD. cbn [ldepth] in HD.
    destruct (D1 pr vs pre (seg2 ++ post)) as (vs1 & R1 & I1 & O1 & L1 & G1 & GH1); auto.
    { rewrite HP, <- !app_assoc. reflexivity. }
    { apply (consts_of_prefix pr st1 st' c2 K2 HK). }
    { lia. }
    { pose proof (N.le_max_l (sdepth s) (ldepth t)). lia. }
    destruct (D2 pr vs1 (pre ++ seg1) post) as (vs2 & R2 & I2 & O2 & L2 & G2 & GH2); auto.
    { rewrite HP, <- !app_assoc. reflexivity. }
    { rewrite app_length, C1, app_length, HLen. reflexivity. }
    { rewrite I1, HI, app_length. lia. }
    { rewrite G1. exact HIdx. }
    { pose proof (N.le_max_r (sdepth s) (ldepth t)). lia. }
    exists vs2. split; [eapply reaches_trans; eauto|]. split; [rewrite I2, I1, app_length; lia|].
    repeat split; auto. congruence.
Qed.

Theorem compile_correct_ctl : forall (p : slist) (st : cstate) (fuel : nat) (env' : genv),
  psfrag p = true -> compile p = COk st -> exec_l fuel p (fun _ => None) = Some (env', false) ->
  ldepth p <= StackSize ->
  let prog := program_of (bytecode_of st) in
  exists s, reaches prog (vm_init prog) s /\
            vm_step prog s = Halted s /\ ostack s = [] /\
            forall n y v, st_resolve n (csym st) = Some y -> env' n = Some v ->
                          nth_error (globals s) (N.to_nat (sidx y)) = Some v.
Proof.
  intros p st fuel env' HF HC HX HD prog. unfold compile, compile_program in HC.
  assert (HT : top_ok cinit) by (split; [reflexivity|split; [apply inv_new|reflexivity]]).
  destruct (prog_sem p fuel _ env' cinit st HF HC HT HX) as ((T1 & T2 & T3) & _ & seg & newc & C & K & D).
  simpl in C, K.
  destruct (D prog (vm_init prog) [] []) as (s & R & I & O & L & G & GH); auto.
  - unfold prog, program_of, bytecode_of. cbn [pcode out_code]. rewrite C, app_nil_r. reflexivity.
  - exists []. unfold prog, program_of, bytecode_of. cbn [pconsts out_consts]. rewrite app_nil_r. reflexivity.
  - unfold prog, program_of, bytecode_of, vm_init, st_local_count. cbn [locals plcount out_lcount]. rewrite T3. reflexivity.
  - unfold prog, program_of, bytecode_of, vm_init, st_global_count. cbn [globals pgcount out_gcount]. rewrite repeat_length. lia.
  - intros n y v HR. discriminate.
  - exists s. split; [exact R|]. split; [|split; [exact O|exact GH]].
    unfold vm_step. rewrite I. unfold prog, program_of, bytecode_of. cbn [pcode out_code vm_init ip]. rewrite C.
    simpl N.of_nat. rewrite N.add_0_l, Nat2N.id, skipn_all. reflexivity.
Qed.
