(* CompileSemProofs.v — compile_correct for statements with control flow:
   assignments to globals, if / else (one condition), while — nested.
   Part 1: a fuel-indexed big-step semantics; the LAYOUT relation describing
   the final code of a compiled statement; the simulation theorem: the VM
   model run on code laid out that way reaches the globals of the semantics
   (induction on the fuel; the loop is re-entered at its start pc). *)
From Coq Require Import ZArith NArith List Bool Lia ZifyBool ZifyNat ZifyN Floats.
From EvyV Require Import Base Bytecode BytecodeProofs SymTab SymTabProofs Vm VmProofs Compile CompileProofs
     CompileWfProofs CompileStmtProofs CompileJumpProofs CompileHoleProofs CompileCtlProofs.
Require Import EvyV.Gen.Opcodes.
Import ListNotations.
Open Scope N_scope.

(* ---------- semantics ---------- *)
(* [None]: out of fuel, or an expression whose evaluation is undefined
   (eval_expr), or a statement outside the fragment *)
Fixpoint exec_s (fuel : nat) (s : stmt) (env : genv) {struct fuel} : option genv :=
  match fuel with
  | O => None
  | S f =>
      match s with
      | SDecl n e => option_map (upd env n) (eval_expr env e)
      | SAssign (EVar n) e => option_map (upd env n) (eval_expr env e)
      | SEmpty => Some env
      | SIf c b CNil els =>
          match eval_expr env c with
          | Some (VBool true) => exec_l f b env
          | Some (VBool false) => match els with NoElse => Some env | Else eb => exec_l f eb env end
          | _ => None
          end
      | SWhile c b =>
          match eval_expr env c with
          | Some (VBool true) => match exec_l f b env with Some env1 => exec_s f (SWhile c b) env1 | None => None end
          | Some (VBool false) => Some env
          | _ => None
          end
      | _ => None
      end
  end
with exec_l (fuel : nat) (l : slist) (env : genv) {struct fuel} : option genv :=
  match fuel with
  | O => None
  | S f =>
      match l with
      | SNil => Some env
      | SCons s1 t => match exec_s f s1 env with Some env1 => exec_l f t env1 | None => None end
      end
  end.

(* the deepest expression of a statement *)
Fixpoint sdepth (s : stmt) : N :=
  match s with
  | SDecl _ e | SAssign _ e => edepth e
  | SIf c b _ els => N.max (edepth c) (N.max (ldepth b) (match els with NoElse => 0 | Else eb => ldepth eb end))
  | SWhile c b => N.max (edepth c) (ldepth b)
  | _ => 0
  end
with ldepth (l : slist) : N :=
  match l with SNil => 0 | SCons s t => N.max (sdepth s) (ldepth t) end.

(* ---------- the layout of compiled statements ---------- *)
Definition same_resolve (a b : symtab) : Prop := forall n, st_resolve n a = st_resolve n b.

Definition jbytes (o : opc) (T : N) (bs : list N) : Prop :=
  exists hi lo, bs = [N_of_opc o; hi; lo] /\ hi * 256 + lo = T.

Inductive LAY : stmt -> cstate -> cstate -> list N -> Prop :=
| lay_assign n e st st1 st' y seg_e sg :
    efrag e = true -> compile_expr true e st = COk st1 -> ccode st1 = ccode st ++ seg_e ->
    st_resolve n (csym st) = Some y -> sscp y = GlobalScope -> jbytes SetGlobal (sidx y) sg ->
    cconsts st' = cconsts st1 -> csym st' = csym st ->
    LAY (SAssign (EVar n) e) st st' (seg_e ++ sg)
| lay_empty st : LAY SEmpty st st []
| lay_while c b st st1 stx stb st' seg_c seg_b jf jb :
    efrag c = true -> compile_expr true c st = COk st1 -> ccode st1 = ccode st ++ seg_c ->
    cconsts stx = cconsts st1 -> same_resolve (csym stx) (csym st) ->
    N.of_nat (List.length (ccode stx)) = N.of_nat (List.length (ccode st1)) + 3 ->
    LAYL b stx stb seg_b ->
    jbytes JumpOnFalse (N.of_nat (List.length (ccode st)) + N.of_nat (List.length (seg_c ++ jf ++ seg_b ++ jb))) jf ->
    jbytes Jump (N.of_nat (List.length (ccode st))) jb ->
    cconsts st' = cconsts stb -> csym st' = csym st ->
    LAY (SWhile c b) st st' (seg_c ++ jf ++ seg_b ++ jb)
| lay_if_noelse c b st st1 stx stb st' seg_c seg_b jf je :
    efrag c = true -> compile_expr true c st = COk st1 -> ccode st1 = ccode st ++ seg_c ->
    cconsts stx = cconsts st1 -> same_resolve (csym stx) (csym st) ->
    N.of_nat (List.length (ccode stx)) = N.of_nat (List.length (ccode st1)) + 3 ->
    LAYL b stx stb seg_b ->
    jbytes JumpOnFalse (N.of_nat (List.length (ccode st)) + N.of_nat (List.length (seg_c ++ jf ++ seg_b ++ je))) jf ->
    jbytes Jump (N.of_nat (List.length (ccode st)) + N.of_nat (List.length (seg_c ++ jf ++ seg_b ++ je))) je ->
    cconsts st' = cconsts stb -> csym st' = csym st ->
    LAY (SIf c b CNil NoElse) st st' (seg_c ++ jf ++ seg_b ++ je)
| lay_if_else c b eb st st1 stx stb sty ste st' seg_c seg_b seg_e jf je :
    efrag c = true -> compile_expr true c st = COk st1 -> ccode st1 = ccode st ++ seg_c ->
    cconsts stx = cconsts st1 -> same_resolve (csym stx) (csym st) ->
    N.of_nat (List.length (ccode stx)) = N.of_nat (List.length (ccode st1)) + 3 ->
    LAYL b stx stb seg_b ->
    (* the else part starts right after the end jump *)
    cconsts sty = cconsts stb -> same_resolve (csym sty) (csym st) ->
    N.of_nat (List.length (ccode sty)) = N.of_nat (List.length (ccode stb)) + 3 ->
    LAYL eb sty ste seg_e ->
    jbytes JumpOnFalse (N.of_nat (List.length (ccode st)) + N.of_nat (List.length (seg_c ++ jf ++ seg_b ++ je))) jf ->
    jbytes Jump (N.of_nat (List.length (ccode st)) + N.of_nat (List.length (seg_c ++ jf ++ seg_b ++ je ++ seg_e))) je ->
    cconsts st' = cconsts ste -> csym st' = csym st ->
    LAY (SIf c b CNil (Else eb)) st st' (seg_c ++ jf ++ seg_b ++ je ++ seg_e)
with LAYL : slist -> cstate -> cstate -> list N -> Prop :=
| layl_nil st : LAYL SNil st st []
| layl_cons s t st st1 st2 seg1 seg2 :
    LAY s st st1 seg1 ->
    N.of_nat (List.length (ccode st1)) = N.of_nat (List.length (ccode st)) + N.of_nat (List.length seg1) ->
    LAYL t st1 st2 seg2 ->
    LAYL (SCons s t) st st2 (seg1 ++ seg2).

Scheme LAY_mind := Induction for LAY Sort Prop
  with LAYL_mind := Induction for LAYL Sort Prop.
Combined Scheme LAY_mutind from LAY_mind, LAYL_mind.

(* ---------- machine steps for the two jumps ---------- *)
Lemma step_jof p vs pre post jf T b rest :
  jbytes JumpOnFalse T jf -> pcode p = pre ++ jf ++ post -> ip vs = N.of_nat (List.length pre) ->
  ostack vs = VBool b :: rest ->
  vm_step p vs = Running {| ip := if b then ip vs + 3 else T; ostack := rest; locals := locals vs; globals := globals vs |}.
Proof.
  intros (hi & lo & -> & E) HC HI HS. rewrite (fetch_arg p vs JumpOnFalse hi lo pre post HC HI eq_refl).
  unfold exec. rewrite HS, E. reflexivity.
Qed.

Lemma step_jump p vs pre post jb T :
  jbytes Jump T jb -> pcode p = pre ++ jb ++ post -> ip vs = N.of_nat (List.length pre) ->
  vm_step p vs = Running {| ip := T; ostack := ostack vs; locals := locals vs; globals := globals vs |}.
Proof.
  intros (hi & lo & -> & E) HC HI. rewrite (fetch_arg p vs Jump hi lo pre post HC HI eq_refl).
  unfold exec. rewrite E. reflexivity.
Qed.

Lemma jbytes_len o T bs : jbytes o T bs -> List.length bs = 3%nat.
Proof. intros (hi & lo & -> & _). reflexivity. Qed.

Lemma reaches_refl p s : reaches p s s.
Proof. exists 0%nat. reflexivity. Qed.

Lemma reaches_step p s s' : vm_step p s = Running s' -> reaches p s s'.
Proof. intro H. exists 1%nat. simpl. rewrite H. reflexivity. Qed.

(* ---------- what the simulation assumes about the machine state ---------- *)
Definition slots_distinct (sym : symtab) : Prop :=
  forall n1 n2 y1 y2, st_resolve n1 sym = Some y1 -> st_resolve n2 sym = Some y2 -> sidx y1 = sidx y2 -> n1 = n2.
Definition slots_exist (sym : symtab) (g : list value) : Prop :=
  forall n y, st_resolve n sym = Some y -> (N.to_nat (sidx y) < List.length g)%nat.

Definition consts_of (p : program) (st : cstate) : Prop :=
  exists more, pconsts p = map const_value (cconsts st) ++ more.

Lemma consts_of_prefix p st st' newc : cconsts st' = cconsts st ++ newc -> consts_of p st' -> consts_of p st.
Proof. intros E (more & H). exists (map const_value newc ++ more). rewrite H, E, map_app, <- app_assoc. reflexivity. Qed.

Lemma globals_hold_same env a b g : same_resolve b a -> globals_hold env a g -> globals_hold env b g.
Proof. intros HS HG n y v HR HE. rewrite HS in HR. apply (HG n y v HR HE). Qed.
Lemma sym_static_same a b : same_resolve b a -> sym_static a -> sym_static b.
Proof. intros HS H n y HR. rewrite HS in HR. apply (H n y HR). Qed.
Lemma slots_distinct_same a b : same_resolve b a -> slots_distinct a -> slots_distinct b.
Proof. intros HS H n1 n2 y1 y2 H1 H2. rewrite HS in H1, H2. apply (H n1 n2 y1 y2 H1 H2). Qed.
Lemma slots_exist_same a b g : same_resolve b a -> slots_exist a g -> slots_exist b g.
Proof. intros HS H n y HR. rewrite HS in HR. apply (H n y HR). Qed.
Lemma same_resolve_refl a : same_resolve a a.
Proof. intro n. reflexivity. Qed.
Lemma same_resolve_eq a b : a = b -> same_resolve a b.
Proof. intros ->. apply same_resolve_refl. Qed.

(* ---------- consts and symbols along a layout ---------- *)
Lemma efrag_consts e st st1 : efrag e = true -> compile_expr true e st = COk st1 ->
  (exists newc, cconsts st1 = cconsts st ++ newc) /\ csym st1 = csym st.
Proof. intros HF HC. destruct (efrag_sl e HF st st1 HC) as (A & ops & newc & _ & C & _). split; [eauto|exact A]. Qed.

Lemma lay_frame :
  (forall s st st' seg, LAY s st st' seg -> (exists newc, cconsts st' = cconsts st ++ newc) /\ same_resolve (csym st') (csym st)) /\
  (forall l st st' seg, LAYL l st st' seg -> (exists newc, cconsts st' = cconsts st ++ newc) /\ same_resolve (csym st') (csym st)).
Proof.
  apply LAY_mutind; intros;
    repeat match goal with
    | HF : efrag ?e = true, HC : compile_expr true ?e ?st = COk ?st1 |- _ =>
        let nc := fresh "nc" in let K := fresh "K" in
        destruct (efrag_consts e st st1 HF HC) as [(nc & K) _]; clear HC
    | H : (exists newc, _) /\ _ |- _ => let nb := fresh "nb" in let Kb := fresh "Kb" in let Sb := fresh "Sb" in destruct H as [(nb & Kb) Sb]
    end.
  - split; [exists nc; congruence|apply same_resolve_eq; assumption].
  - split; [exists []; rewrite app_nil_r; reflexivity|apply same_resolve_refl].
  - split; [exists (nc ++ nb); rewrite app_assoc; congruence|apply same_resolve_eq; assumption].
  - split; [exists (nc ++ nb); rewrite app_assoc; congruence|apply same_resolve_eq; assumption].
  - split; [first [exists (nc ++ nb ++ nb0); rewrite !app_assoc; congruence|exists (nc ++ nb0 ++ nb); rewrite !app_assoc; congruence]|apply same_resolve_eq; assumption].
  - split; [exists []; rewrite app_nil_r; reflexivity|apply same_resolve_refl].
  - split; [first [exists (nb ++ nb0); rewrite app_assoc; congruence|exists (nb0 ++ nb); rewrite app_assoc; congruence]|].
    intro n. first [rewrite Sb0, Sb; reflexivity|rewrite Sb, Sb0; reflexivity].
Qed.

Lemma layl_len : forall l st st' seg, LAYL l st st' seg ->
  N.of_nat (List.length (ccode st')) = N.of_nat (List.length (ccode st)) + N.of_nat (List.length seg).
Proof.
  apply (LAYL_mind (fun _ _ _ _ _ => True)
           (fun l st st' seg _ => N.of_nat (List.length (ccode st')) = N.of_nat (List.length (ccode st)) + N.of_nat (List.length seg)));
    intros; auto.
  - simpl. lia.
  - rewrite app_length, Nat2N.inj_add. lia.
Qed.

(* ---------- the simulation ---------- *)
Definition mstate_ok (st : cstate) (env : genv) (vs : vmstate) : Prop :=
  ostack vs = [] /\ locals vs = [] /\ globals_hold env (csym st) (globals vs) /\ slots_exist (csym st) (globals vs).

Definition SIMs (fuel : nat) (s : stmt) (st st' : cstate) (seg : list N) : Prop :=
  forall env env', exec_s fuel s env = Some env' -> forall p vs pre post,
    pcode p = pre ++ seg ++ post -> List.length pre = List.length (ccode st) -> consts_of p st' ->
    ip vs = N.of_nat (List.length pre) -> mstate_ok st env vs ->
    sym_static (csym st) -> slots_distinct (csym st) -> sdepth s <= StackSize ->
    exists vs', reaches p vs vs' /\ ip vs' = ip vs + N.of_nat (List.length seg) /\ mstate_ok st env' vs'.

Definition SIMl (fuel : nat) (l : slist) (st st' : cstate) (seg : list N) : Prop :=
  forall env env', exec_l fuel l env = Some env' -> forall p vs pre post,
    pcode p = pre ++ seg ++ post -> List.length pre = List.length (ccode st) -> consts_of p st' ->
    ip vs = N.of_nat (List.length pre) -> mstate_ok st env vs ->
    sym_static (csym st) -> slots_distinct (csym st) -> ldepth l <= StackSize ->
    exists vs', reaches p vs vs' /\ ip vs' = ip vs + N.of_nat (List.length seg) /\ mstate_ok st env' vs'.

Lemma store_global' env n v y sym (g : list value) :
  slots_distinct sym -> st_resolve n sym = Some y -> (N.to_nat (sidx y) < List.length g)%nat ->
  globals_hold env sym g -> globals_hold (upd env n v) sym (set_nth (N.to_nat (sidx y)) v g).
Proof.
  intros HD HR HL HG m ym vm HRm HEm. unfold upd in HEm.
  destruct (str_eqb m n) eqn:E.
  - apply str_eqb_eq in E. subst m. rewrite HR in HRm. inversion HRm; subst ym. inversion HEm; subst vm.
    apply nth_error_set_nth_same. exact HL.
  - rewrite nth_error_set_nth_other; [apply (HG m ym vm HRm HEm)|].
    intro EQ. assert (sidx y = sidx ym) by lia.
    pose proof (HD n m y ym HR HRm H) as ->. rewrite str_eqb_refl in E. discriminate.
Qed.

Lemma mstate_same st st2 env vs : same_resolve (csym st2) (csym st) -> mstate_ok st env vs -> mstate_ok st2 env vs.
Proof.
  intros HS (A & B & C & D). repeat split; auto; [eapply globals_hold_same; eauto|eapply slots_exist_same; eauto].
Qed.
Lemma mstate_same_back st st2 env vs : same_resolve (csym st2) (csym st) -> mstate_ok st2 env vs -> mstate_ok st env vs.
Proof.
  intros HS H. apply (mstate_same st2 st env vs); [intro n; rewrite HS; reflexivity|exact H].
Qed.

(* an expression of the fragment evaluated by the machine, from an empty stack *)
Lemma expr_runs e st st1 seg_e env v p vs pre post :
  efrag e = true -> compile_expr true e st = COk st1 -> ccode st1 = ccode st ++ seg_e ->
  eval_expr env e = Some v -> sym_static (csym st) ->
  pcode p = pre ++ seg_e ++ post -> consts_of p st1 -> ip vs = N.of_nat (List.length pre) ->
  mstate_ok st env vs -> edepth e <= StackSize ->
  reaches p vs {| ip := ip vs + N.of_nat (List.length seg_e); ostack := [v]; locals := locals vs; globals := globals vs |}.
Proof.
  intros HF HC HSeg HE HS HP (more & HK) HI (M1 & M2 & M3 & M4) HD.
  destruct (compile_expr_correct e HF env st st1 v HC HE HS) as (_ & seg & newc & B & _ & D).
  assert (seg = seg_e) by (rewrite HSeg in B; apply app_inv_head in B; congruence). subst seg.
  destruct (D p vs more pre post HP HK HI M3) as (n & R).
  - rewrite M1, M2. simpl. lia.
  - exists n. rewrite R, M1. reflexivity.
Qed.

Theorem sim_all : forall fuel,
  (forall s st st' seg, LAY s st st' seg -> SIMs fuel s st st' seg) /\
  (forall l st st' seg, LAYL l st st' seg -> SIMl fuel l st st' seg).
Proof.
  induction fuel as [|f [IHs IHl]].
  - split; intros; intros env env' HX; simpl in HX; discriminate.
  - split.
    + intros s st st' seg HL. inversion HL; subst; intros env env' HX p vs pre post HP HLen HK HI HM HSS HSD HDp.
      * (* assign *)
        cbn [exec_s] in HX. destruct (eval_expr env e) as [v|] eqn:HE; [|discriminate]. inversion HX; subst env'.
        destruct (efrag_consts e st st1 H H0) as [(nc & K1) S1].
        assert (HK1 : consts_of p st1) by (destruct HK as (more & HK); exists more; rewrite HK, H5; reflexivity).
        cbn [sdepth] in HDp.
        pose proof (expr_runs e st st1 seg_e env v p vs pre (sg ++ post) H H0 H1 HE HSS
                      ltac:(rewrite HP, <- !app_assoc; reflexivity) HK1 HI HM HDp) as R1.
        set (vs1 := {| ip := ip vs + N.of_nat (List.length seg_e); ostack := [v]; locals := locals vs; globals := globals vs |}) in *.
        destruct HM as (M1 & M2 & M3 & M4). destruct H4 as (hi & lo & -> & E4).
        pose proof (M4 n y H2) as HL4.
        eexists. split; [|split].
        -- eapply reaches_trans; [exact R1|]. apply reaches_step.
           rewrite (fetch_arg p vs1 SetGlobal hi lo (pre ++ seg_e) post);
             [|rewrite HP, <- !app_assoc; reflexivity|unfold vs1; simpl; rewrite HI, app_length; lia|reflexivity].
           rewrite (exec_setglobal p vs1 _ _ v []); [reflexivity|reflexivity|unfold vs1; simpl; rewrite E4; exact HL4].
        -- simpl. rewrite app_length. simpl. lia.
        -- unfold mstate_ok. simpl. rewrite E4. repeat split; auto.
           ++ apply store_global'; auto.
           ++ intros m ym HRm. rewrite set_nth_length. apply (M4 m ym HRm).
      * (* empty *)
        cbn [exec_s] in HX. inversion HX; subst. exists vs. split; [apply reaches_refl|]. split; [simpl; lia|exact HM].
      * (* while *)
        cbn [exec_s] in HX. cbn [sdepth] in HDp.
        destruct (lay_frame) as [_ LF]. destruct (LF _ _ _ _ H5) as [(nb & Kb) Sb].
        destruct (efrag_consts c st st1 H H0) as [(nc & K1) S1].
        assert (HKb : consts_of p stb) by (destruct HK as (more & HK); exists more; rewrite HK, H8; reflexivity).
        assert (HK1 : consts_of p st1).
        { apply (consts_of_prefix p st1 stb nb); [rewrite Kb, H2; reflexivity|exact HKb]. }
        pose proof (jbytes_len _ _ _ H6) as Ljf. pose proof (jbytes_len _ _ _ H7) as Ljb.
        destruct (eval_expr env c) as [[| [] | | | | |]|] eqn:HE; try discriminate.
        -- (* true: one more iteration *)
           destruct (exec_l f b env) as [env1|] eqn:HXb; [|discriminate].
           pose proof (expr_runs c st st1 seg_c env (VBool true) p vs pre (jf ++ seg_b ++ jb ++ post) H H0 H1 HE HSS
                         ltac:(rewrite HP, <- !app_assoc; reflexivity) HK1 HI HM ltac:(lia)) as R1.
           set (vs1 := {| ip := ip vs + N.of_nat (List.length seg_c); ostack := [VBool true]; locals := locals vs; globals := globals vs |}) in *.
           pose proof (step_jof p vs1 (pre ++ seg_c) (seg_b ++ jb ++ post) jf _ true [] H6
                         ltac:(rewrite HP, <- !app_assoc; reflexivity)
                         ltac:(unfold vs1; simpl; rewrite HI, app_length; lia) eq_refl) as R2.
           set (vs2 := {| ip := ip vs1 + 3; ostack := []; locals := locals vs1; globals := globals vs1 |}) in *.
           destruct HM as (M1 & M2 & M3 & M4).
           assert (HM2 : mstate_ok stx env vs2).
           { apply (mstate_same st stx); [exact H3|]. unfold vs2, vs1; simpl. repeat split; auto. }
           destruct (IHl b stx stb seg_b H5 env env1 HXb p vs2 (pre ++ seg_c ++ jf) (jb ++ post)) as (vs3 & R3 & I3 & HM3).
           { rewrite HP, <- !app_assoc. reflexivity. }
           { rewrite !app_length, Ljf. apply Nat2N.inj. rewrite H4, H1, app_length, !Nat2N.inj_add, HLen. simpl. lia. }
           { exact HKb. }
           { unfold vs2, vs1; simpl. rewrite HI, !app_length, Ljf. lia. }
           { exact HM2. }
           { apply (sym_static_same (csym st)); assumption. }
           { apply (slots_distinct_same (csym st)); assumption. }
           { lia. }
           pose proof (step_jump p vs3 (pre ++ seg_c ++ jf ++ seg_b) post jb _ H7
                         ltac:(rewrite HP, <- !app_assoc; reflexivity)
                         ltac:(rewrite I3; unfold vs2, vs1; simpl; rewrite HI, !app_length, Ljf; lia)) as R4.
           set (vs4 := {| ip := N.of_nat (List.length (ccode st)); ostack := ostack vs3; locals := locals vs3; globals := globals vs3 |}) in *.
           assert (HM4 : mstate_ok st env1 vs4).
           { apply (mstate_same_back st stx); [exact H3|]. destruct HM3 as (A3 & B3 & C3 & D3). unfold vs4; simpl. repeat split; auto. }
           destruct (IHs _ _ _ _ HL env1 env' HX p vs4 pre post HP HLen HK) as (vs5 & R5 & I5 & HM5); auto.
           { unfold vs4; simpl. rewrite HLen. reflexivity. }
           exists vs5. split; [|split; [|exact HM5]].
           ++ eapply reaches_trans; [exact R1|]. eapply reaches_trans; [apply reaches_step; exact R2|].
              eapply reaches_trans; [exact R3|]. eapply reaches_trans; [apply reaches_step; exact R4|exact R5].
           ++ rewrite I5. unfold vs4; simpl. rewrite HI, HLen. reflexivity.
        -- (* false: leave the loop *)
           inversion HX; subst env'.
           pose proof (expr_runs c st st1 seg_c env (VBool false) p vs pre (jf ++ seg_b ++ jb ++ post) H H0 H1 HE HSS
                         ltac:(rewrite HP, <- !app_assoc; reflexivity) HK1 HI HM ltac:(lia)) as R1.
           set (vs1 := {| ip := ip vs + N.of_nat (List.length seg_c); ostack := [VBool false]; locals := locals vs; globals := globals vs |}) in *.
           pose proof (step_jof p vs1 (pre ++ seg_c) (seg_b ++ jb ++ post) jf _ false [] H6
                         ltac:(rewrite HP, <- !app_assoc; reflexivity)
                         ltac:(unfold vs1; simpl; rewrite HI, app_length; lia) eq_refl) as R2.
           eexists. split; [eapply reaches_trans; [exact R1|apply reaches_step; exact R2]|].
           destruct HM as (M1 & M2 & M3 & M4). split; [simpl; rewrite HI, HLen; reflexivity|].
           unfold mstate_ok, vs1; simpl. repeat split; auto.
      * (* if without else *)
        cbn [exec_s] in HX. cbn [sdepth] in HDp.
        destruct (lay_frame) as [_ LF]. destruct (LF _ _ _ _ H5) as [(nb & Kb) Sb].
        destruct (efrag_consts c st st1 H H0) as [(nc & K1) S1].
        assert (HKb : consts_of p stb) by (destruct HK as (more & HK); exists more; rewrite HK, H8; reflexivity).
        assert (HK1 : consts_of p st1).
        { apply (consts_of_prefix p st1 stb nb); [rewrite Kb, H2; reflexivity|exact HKb]. }
        pose proof (jbytes_len _ _ _ H6) as Ljf. pose proof (jbytes_len _ _ _ H7) as Lje.
        destruct (eval_expr env c) as [[| [] | | | | |]|] eqn:HE; try discriminate.
        -- pose proof (expr_runs c st st1 seg_c env (VBool true) p vs pre (jf ++ seg_b ++ je ++ post) H H0 H1 HE HSS
                         ltac:(rewrite HP, <- !app_assoc; reflexivity) HK1 HI HM ltac:(lia)) as R1.
           set (vs1 := {| ip := ip vs + N.of_nat (List.length seg_c); ostack := [VBool true]; locals := locals vs; globals := globals vs |}) in *.
           pose proof (step_jof p vs1 (pre ++ seg_c) (seg_b ++ je ++ post) jf _ true [] H6
                         ltac:(rewrite HP, <- !app_assoc; reflexivity)
                         ltac:(unfold vs1; simpl; rewrite HI, app_length; lia) eq_refl) as R2.
           set (vs2 := {| ip := ip vs1 + 3; ostack := []; locals := locals vs1; globals := globals vs1 |}) in *.
           destruct HM as (M1 & M2 & M3 & M4).
           assert (HM2 : mstate_ok stx env vs2).
           { apply (mstate_same st stx); [exact H3|]. unfold vs2, vs1; simpl. repeat split; auto. }
           destruct (IHl b stx stb seg_b H5 env env' HX p vs2 (pre ++ seg_c ++ jf) (je ++ post)) as (vs3 & R3 & I3 & HM3).
           { rewrite HP, <- !app_assoc. reflexivity. }
           { rewrite !app_length, Ljf. apply Nat2N.inj. rewrite H4, H1, app_length, !Nat2N.inj_add, HLen. simpl. lia. }
           { exact HKb. }
           { unfold vs2, vs1; simpl. rewrite HI, !app_length, Ljf. lia. }
           { exact HM2. }
           { apply (sym_static_same (csym st)); assumption. }
           { apply (slots_distinct_same (csym st)); assumption. }
           { lia. }
           pose proof (step_jump p vs3 (pre ++ seg_c ++ jf ++ seg_b) post je _ H7
                         ltac:(rewrite HP, <- !app_assoc; reflexivity)
                         ltac:(rewrite I3; unfold vs2, vs1; simpl; rewrite HI, !app_length, Ljf; lia)) as R4.
           eexists. split; [|split].
           ++ eapply reaches_trans; [exact R1|]. eapply reaches_trans; [apply reaches_step; exact R2|].
              eapply reaches_trans; [exact R3|apply reaches_step; exact R4].
           ++ simpl. rewrite HI, HLen. reflexivity.
           ++ apply (mstate_same_back st stx); [exact H3|]. destruct HM3 as (A3 & B3 & C3 & D3). simpl. repeat split; auto.
        -- inversion HX; subst env'.
           pose proof (expr_runs c st st1 seg_c env (VBool false) p vs pre (jf ++ seg_b ++ je ++ post) H H0 H1 HE HSS
                         ltac:(rewrite HP, <- !app_assoc; reflexivity) HK1 HI HM ltac:(lia)) as R1.
           set (vs1 := {| ip := ip vs + N.of_nat (List.length seg_c); ostack := [VBool false]; locals := locals vs; globals := globals vs |}) in *.
           pose proof (step_jof p vs1 (pre ++ seg_c) (seg_b ++ je ++ post) jf _ false [] H6
                         ltac:(rewrite HP, <- !app_assoc; reflexivity)
                         ltac:(unfold vs1; simpl; rewrite HI, app_length; lia) eq_refl) as R2.
           eexists. split; [eapply reaches_trans; [exact R1|apply reaches_step; exact R2]|].
           destruct HM as (M1 & M2 & M3 & M4). split; [simpl; rewrite HI, HLen; reflexivity|].
           unfold mstate_ok, vs1; simpl. repeat split; auto.
      * (* if with else *)
        cbn [exec_s] in HX. cbn [sdepth] in HDp.
        destruct (lay_frame) as [_ LF]. destruct (LF _ _ _ _ H5) as [(nb & Kb) Sb]. destruct (LF _ _ _ _ H9) as [(ne & Ke) Se].
        destruct (efrag_consts c st st1 H H0) as [(nc & K1) S1].
        assert (HKe : consts_of p ste) by (destruct HK as (more & HK); exists more; rewrite HK, H12; reflexivity).
        assert (HKb : consts_of p stb).
        { apply (consts_of_prefix p stb ste ne); [rewrite Ke, H6; reflexivity|exact HKe]. }
        assert (HK1 : consts_of p st1).
        { apply (consts_of_prefix p st1 stb nb); [rewrite Kb, H2; reflexivity|exact HKb]. }
        pose proof (jbytes_len _ _ _ H10) as Ljf. pose proof (jbytes_len _ _ _ H11) as Lje.
        pose proof (layl_len _ _ _ _ H5) as LLb.
        destruct (eval_expr env c) as [[| [] | | | | |]|] eqn:HE; try discriminate.
        -- pose proof (expr_runs c st st1 seg_c env (VBool true) p vs pre (jf ++ seg_b ++ je ++ seg_e ++ post) H H0 H1 HE HSS
                         ltac:(rewrite HP, <- !app_assoc; reflexivity) HK1 HI HM ltac:(lia)) as R1.
           set (vs1 := {| ip := ip vs + N.of_nat (List.length seg_c); ostack := [VBool true]; locals := locals vs; globals := globals vs |}) in *.
           pose proof (step_jof p vs1 (pre ++ seg_c) (seg_b ++ je ++ seg_e ++ post) jf _ true [] H10
                         ltac:(rewrite HP, <- !app_assoc; reflexivity)
                         ltac:(unfold vs1; simpl; rewrite HI, app_length; lia) eq_refl) as R2.
           set (vs2 := {| ip := ip vs1 + 3; ostack := []; locals := locals vs1; globals := globals vs1 |}) in *.
           destruct HM as (M1 & M2 & M3 & M4).
           assert (HM2 : mstate_ok stx env vs2).
           { apply (mstate_same st stx); [exact H3|]. unfold vs2, vs1; simpl. repeat split; auto. }
           destruct (IHl b stx stb seg_b H5 env env' HX p vs2 (pre ++ seg_c ++ jf) (je ++ seg_e ++ post)) as (vs3 & R3 & I3 & HM3).
           { rewrite HP, <- !app_assoc. reflexivity. }
           { rewrite !app_length, Ljf. apply Nat2N.inj. rewrite H4, H1, app_length, !Nat2N.inj_add, HLen. simpl. lia. }
           { exact HKb. }
           { unfold vs2, vs1; simpl. rewrite HI, !app_length, Ljf. lia. }
           { exact HM2. }
           { apply (sym_static_same (csym st)); assumption. }
           { apply (slots_distinct_same (csym st)); assumption. }
           { lia. }
           pose proof (step_jump p vs3 (pre ++ seg_c ++ jf ++ seg_b) (seg_e ++ post) je _ H11
                         ltac:(rewrite HP, <- !app_assoc; reflexivity)
                         ltac:(rewrite I3; unfold vs2, vs1; simpl; rewrite HI, !app_length, Ljf; lia)) as R4.
           eexists. split; [|split].
           ++ eapply reaches_trans; [exact R1|]. eapply reaches_trans; [apply reaches_step; exact R2|].
              eapply reaches_trans; [exact R3|apply reaches_step; exact R4].
           ++ simpl. rewrite HI, HLen. reflexivity.
           ++ apply (mstate_same_back st stx); [exact H3|]. destruct HM3 as (A3 & B3 & C3 & D3). simpl. repeat split; auto.
        -- pose proof (expr_runs c st st1 seg_c env (VBool false) p vs pre (jf ++ seg_b ++ je ++ seg_e ++ post) H H0 H1 HE HSS
                         ltac:(rewrite HP, <- !app_assoc; reflexivity) HK1 HI HM ltac:(lia)) as R1.
           set (vs1 := {| ip := ip vs + N.of_nat (List.length seg_c); ostack := [VBool false]; locals := locals vs; globals := globals vs |}) in *.
           pose proof (step_jof p vs1 (pre ++ seg_c) (seg_b ++ je ++ seg_e ++ post) jf _ false [] H10
                         ltac:(rewrite HP, <- !app_assoc; reflexivity)
                         ltac:(unfold vs1; simpl; rewrite HI, app_length; lia) eq_refl) as R2.
           set (vs2 := {| ip := N.of_nat (List.length (ccode st)) + N.of_nat (List.length (seg_c ++ jf ++ seg_b ++ je));
                          ostack := []; locals := locals vs1; globals := globals vs1 |}) in *.
           destruct HM as (M1 & M2 & M3 & M4).
           assert (HM2 : mstate_ok sty env vs2).
           { apply (mstate_same st sty); [exact H7|]. unfold vs2, vs1; simpl. repeat split; auto. }
           destruct (IHl eb sty ste seg_e H9 env env' HX p vs2 (pre ++ seg_c ++ jf ++ seg_b ++ je) post) as (vs3 & R3 & I3 & HM3).
           { rewrite HP, <- !app_assoc. reflexivity. }
           { assert (X : N.of_nat (List.length (ccode st1)) = N.of_nat (List.length (ccode st)) + N.of_nat (List.length seg_c)) by (rewrite H1, app_length; lia).
             apply Nat2N.inj. rewrite !app_length, Ljf, Lje. lia. }
           { exact HKe. }
           { unfold vs2; simpl. rewrite !app_length, HLen. lia. }
           { exact HM2. }
           { apply (sym_static_same (csym st)); assumption. }
           { apply (slots_distinct_same (csym st)); assumption. }
           { lia. }
           exists vs3. split; [|split].
           ++ eapply reaches_trans; [exact R1|]. eapply reaches_trans; [apply reaches_step; exact R2|exact R3].
           ++ rewrite I3. unfold vs2; simpl. rewrite HI, HLen, !app_length, !Nat2N.inj_add. lia.
           ++ apply (mstate_same_back st sty); [exact H7|exact HM3].
    + intros l st st' seg HL. inversion HL; subst; intros env env' HX p vs pre post HP HLen HK HI HM HSS HSD HDp.
      * cbn [exec_l] in HX. inversion HX; subst. exists vs. split; [apply reaches_refl|]. split; [simpl; lia|exact HM].
      * cbn [exec_l] in HX. cbn [ldepth] in HDp.
        destruct (exec_s f s env) as [env1|] eqn:HX1; [|discriminate].
        destruct (lay_frame) as [LFs LFl]. destruct (LFs _ _ _ _ H) as [(n1 & K1) S1]. destruct (LFl _ _ _ _ H1) as [(n2 & K2) S2].
        assert (HK1 : consts_of p st1) by (apply (consts_of_prefix p st1 st' n2 K2 HK)).
        destruct (IHs s st st1 seg1 H env env1 HX1 p vs pre (seg2 ++ post)) as (vs1 & R1 & I1 & HM1); auto.
        { rewrite HP, <- !app_assoc. reflexivity. }
        { lia. }
        destruct (IHl t st1 st' seg2 H1 env1 env' HX p vs1 (pre ++ seg1) post) as (vs2 & R2 & I2 & HM2).
        { rewrite HP, <- !app_assoc. reflexivity. }
        { rewrite app_length. apply Nat2N.inj. rewrite H0, Nat2N.inj_add, HLen. reflexivity. }
        { exact HK. }
        { rewrite I1, HI, app_length. lia. }
        { apply (mstate_same st st1); [exact S1|exact HM1]. }
        { apply (sym_static_same (csym st)); assumption. }
        { apply (slots_distinct_same (csym st)); assumption. }
        { lia. }
        exists vs2. split; [eapply reaches_trans; eauto|]. split; [rewrite I2, I1, app_length; lia|].
        apply (mstate_same_back st st1); [exact S1|exact HM2].
Qed.
