(* CompileSemTieVm.v — compile_correct (C16) composed with the tie of its source semantics to
   the evaluator model: on the fragment of CompileSemTie.v the VM model run of the compiled
   program ends with every global equal to what the global of the Sem.v run reads back as. *)
From Coq Require Import ZArith NArith List String Bool Floats.
From EvyV Require Import Base Num Ast Omap Sem CompileSemTie.
From EvyV Require Bytecode SymTab Vm VmProofs Compile CompileSem CompileStmtProofs CompileLocProofs.
Require EvyV.Gen.Opcodes.
Import ListNotations.


Theorem vm_equals_evaluator_model_partial :
  forall (P : program) (p : Compile.slist) (st : Compile.cstate) (fuel : nat) (env' : CompileSem.senv) input ff ay,
  tfrag_l p = true -> lrel p (p_stmts P) ->
  CompileSem.lpfrag p = true -> Compile.compile p = Compile.COk st ->
  CompileSem.lx_l fuel p [[]] = Some (env', false) ->
  (SymTab.st_local_count (Compile.csym st) + CompileSem.ldepth p <= Gen.Opcodes.StackSize)%N ->
  let prog := Compile.program_of (Compile.bytecode_of st) in
  exists sv N s1,
    CompileStmtProofs.reaches prog (Vm.vm_init prog) sv /\ Vm.vm_step prog sv = Vm.Halted sv /\
    Vm.ostack sv = [] /\
    (forall n, (N <= n)%nat -> run_program n P (init_state None input ff ay) = (ODone, s1)) /\
    st_trace s1 = [] /\
    forall n y v, SymTab.st_resolve n (Compile.csym st) = Some y -> CompileSem.slook n env' = Some v ->
                  nth_error (Vm.globals sv) (N.to_nat (SymTab.sidx y)) = Some v /\
                  sem_global s1 n v.
Proof.
  intros P p st fuel env' input ff ay Ft Rl Fl Hc Hx Hd prog.
  destruct (CompileLocProofs.compile_correct_locals p st fuel env' Fl Hc Hx Hd) as (sv & Hr & Hh & Ho & Hg).
  destruct (tie_program P p fuel env' (init_state None input ff ay) Hx Rl Ft (good_init input ff ay) eq_refl eq_refl)
    as (N & s1 & Hrun & Htr & Hsem).
  exists sv, N, s1. split; [exact Hr|]. split; [exact Hh|]. split; [exact Ho|]. split; [exact Hrun|].
  split; [rewrite Htr; reflexivity|]. intros n y v Hy Hv. split; [apply (Hg n y v Hy Hv) | apply Hsem; exact Hv].
Qed.

(* with the canonical translation of the program *)
Corollary vm_equals_evaluator_model_tr_partial :
  forall (p : Compile.slist) (st : Compile.cstate) (fuel : nat) (env' : CompileSem.senv) input ff ay,
  tfrag_l p = true -> CompileSem.lpfrag p = true -> Compile.compile p = Compile.COk st ->
  CompileSem.lx_l fuel p [[]] = Some (env', false) ->
  (SymTab.st_local_count (Compile.csym st) + CompileSem.ldepth p <= Gen.Opcodes.StackSize)%N ->
  let prog := Compile.program_of (Compile.bytecode_of st) in
  let P := {| p_funcs := []; p_handlers := []; p_stmts := tr_l p |} in
  exists sv N s1,
    CompileStmtProofs.reaches prog (Vm.vm_init prog) sv /\ Vm.vm_step prog sv = Vm.Halted sv /\
    Vm.ostack sv = [] /\
    (forall n, (N <= n)%nat -> run_program n P (init_state None input ff ay) = (ODone, s1)) /\
    st_trace s1 = [] /\
    forall n y v, SymTab.st_resolve n (Compile.csym st) = Some y -> CompileSem.slook n env' = Some v ->
                  nth_error (Vm.globals sv) (N.to_nat (SymTab.sidx y)) = Some v /\
                  sem_global s1 n v.
Proof.
  intros p st fuel env' input ff ay Ft Fl Hc Hx Hd prog P.
  apply (vm_equals_evaluator_model_partial P p st fuel env' input ff ay Ft); auto.
  apply (proj1 (proj2 tr_rel)); exact Ft.
Qed.
