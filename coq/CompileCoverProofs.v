(* CompileCoverProofs.v — what the fragment of compile_correct_locals leaves
   out: every program the compiler accepts and that is [plain] (no element
   store; plus two shapes the parser never produces) lies in lfrag. *)
From Coq Require Import ZArith NArith List Bool Lia.
From EvyV Require Import Base Bytecode BytecodeProofs SymTab Vm Compile CompileSem CompileProofs CompileStmtProofs CompileCtlProofs CompileLocProofs.
Require Import EvyV.Gen.Opcodes.
Import ListNotations.

Ltac split_hyps := repeat match goal with H : _ && _ = true |- _ => apply andb_true_iff in H; destruct H end.
Ltac split_goal := repeat (apply andb_true_iff; split).

Lemma cover_expr :
  (forall e st st', compile_expr true e st = COk st' -> mapok e = true -> efrag e = true) /\
  (forall l st st', compile_elist true l st = COk st' -> mapok_list l = true -> efrag_list l = true) /\
  (forall l st st', compile_pairs true l st = COk st' -> mapok_pairs l = true -> efrag_pairs l = true) /\
  (forall o st st', compile_oexpr true o st = COk st' -> mapok_o o = true -> efrag_o o = true).
Proof.
  apply expr_mutind; intros; simpl in *; auto; binds;
    try (destruct op; try discriminate);
    split_hyps;
    repeat match goal with
           | IH : forall st st', _ = COk st' -> _ = true -> _ = true, H : _ = COk _ |- _ => specialize (IH _ _ H); clear H
           end;
    split_goal; auto; try discriminate.
Qed.

Ltac derive2 SE SO BLOCK COND FOR :=
    repeat match goal with
    | H : compile_expr true _ _ = COk _ |- _ => let X := fresh "X" in pose proof (SE _ _ _ H) as X; clear H
    | H : compile_oexpr true _ _ = COk _ |- _ => let X := fresh "X" in pose proof (SO _ _ _ H) as X; clear H
    | IH : (forall st st', body_of true ?b st = COk st' -> _), H : compile_block true ?b _ = COk _ |- _ =>
        let X := fresh "X" in pose proof (BLOCK _ IH _ _ H) as X; clear H
    | IH : (forall st st', body_of true ?b st = COk st' -> _), H : compile_cond true _ ?b _ = COk _ |- _ =>
        let X := fresh "X" in pose proof (COND _ _ IH _ _ H) as X; clear H; destruct X
    | IH : (forall st st', body_of true ?b st = COk st' -> _), H : for_loop true _ _ _ ?b _ = COk _ |- _ =>
        let X := fresh "X" in pose proof (FOR _ _ _ _ IH _ _ H) as X; clear H
    end.

Opaque emit emit_const.
Lemma cover_stmt :
  (forall s st st', compile_stmt true s st = COk st' -> plain_stmt s = true -> lfrag_stmt s = true) /\
  (forall l st st', body_of true l st = COk st' -> plain_slist l = true -> lfrag_slist l = true) /\
  (forall l jumps st st', fst (compile_elifs true l jumps st) = COk st' -> plain_clist l = true -> lfrag_clist l = true) /\
  (forall o, match o with
             | NoElse => True
             | Else b => forall st st', body_of true b st = COk st' -> plain_slist b = true -> lfrag_slist b = true
             end).
Proof.
  destruct cover_expr as (SE & SL & SP & SO).
  assert (BLOCK : forall b, (forall st st', body_of true b st = COk st' -> plain_slist b = true -> lfrag_slist b = true) ->
                            forall st st', compile_block true b st = COk st' -> plain_slist b = true -> lfrag_slist b = true).
  { intros b Hb st st' H HP. destruct b as [|s t]; [reflexivity|]. simpl in H. bind_inv H.
    eapply Hb; [simpl; eassumption|exact HP]. }
  assert (COND : forall c b, (forall st st', body_of true b st = COk st' -> plain_slist b = true -> lfrag_slist b = true) ->
                             forall st st', compile_cond true c b st = COk st' ->
                                            (mapok c = true -> efrag c = true) /\ (plain_slist b = true -> lfrag_slist b = true)).
  { intros c b Hb st st' H. destruct b as [|s t].
    - simpl in H. bind_inv H. split; [eapply SE; eassumption|reflexivity].
    - simpl in H. bind_inv H; bind_inv H; bind_inv H.
      split; [eapply SE; eassumption|]. intro HP. eapply Hb; [simpl; eassumption|exact HP]. }
  assert (FOR : forall lv rop n b, (forall st st', body_of true b st = COk st' -> plain_slist b = true -> lfrag_slist b = true) ->
                                   forall st st', for_loop true lv rop n b st = COk st' -> plain_slist b = true -> lfrag_slist b = true).
  { intros lv rop n b Hb st st' H HP. destruct b as [|s t]; [reflexivity|]. simpl in H.
    bind_inv H; bind_inv H; bind_inv H; bind_inv H. eapply Hb; [simpl; eassumption|exact HP]. }
  apply stmt_mutind; intros; simpl in *; auto.
  - (* SDecl *) binds. derive2 SE SO BLOCK COND FOR. auto.
  - (* SAssign *)
    match goal with H : _ = COk _ |- _ => bind_inv H; rename H into HT end.
    destruct target; simpl in *; try discriminate; binds; split_hyps; try discriminate.
    derive2 SE SO BLOCK COND FOR. auto.
  - (* SIf *)
    match goal with H : _ = COk _ |- _ => bind_inv H; rename H into HT end.
    match type of HT with context [compile_elifs true ?l ?j ?x] =>
      destruct (compile_elifs true l j x) as [r jumps] eqn:EE end.
    binds. split_hyps.
    match goal with IH : forall jumps st st', fst (compile_elifs true elifs jumps st) = COk st' -> _ |- _ =>
      assert (XE : lfrag_clist elifs = true) by (eapply IH; [rewrite EE; simpl; eassumption|assumption]) end.
    destruct els; simpl in *; derive2 SE SO BLOCK COND FOR; split_goal; auto.
  - (* SWhile *) binds. split_hyps. derive2 SE SO BLOCK COND FOR. split_goal; auto.
  - (* SForStep *) binds. split_hyps. derive2 SE SO BLOCK COND FOR. destruct start, step; simpl in *; split_goal; auto.
  - (* SForIter *) destruct t; try discriminate; binds; split_hyps; derive2 SE SO BLOCK COND FOR; split_goal; auto.
  - (* SUnsupported *) discriminate.
  - (* SCons *) binds. split_hyps.
    match goal with H : compile_slist true _ _ = COk _ |- _ => rewrite compile_slist_body in H end.
    split_goal; eauto.
  - (* CCons *)
    match goal with H : fst (match ?x with _ => _ end) = COk _ |- _ => destruct x eqn:EC; [|simpl in H; discriminate] end.
    split_hyps. derive2 SE SO BLOCK COND FOR. split_goal; eauto.
  - (* Else *) eauto.
Qed.
Transparent emit emit_const.

(* every program the compiler accepts is in the fragment, unless it has an
   element store (or one of the two shapes the parser never produces) *)
Theorem compile_covered : forall (p : slist) (st : cstate),
  compile p = COk st -> plain_slist p = true -> lfrag_slist p = true.
Proof.
  intros p st H HP. unfold compile, compile_program in H. rewrite compile_slist_body in H.
  destruct cover_stmt as (_ & SL & _). eapply SL; eauto.
Qed.

(* compile_correct for every program the compiler accepts, element stores
   aside: the hypotheses on the shape of p are [plain] (no element store; the
   parser guarantees the rest of it) and no break outside a loop (a parse
   error as well). *)
Theorem compile_correct_plain : forall (p : slist) (st : cstate) (fuel : nat) (env' : senv),
  compile p = COk st -> plain_slist p = true -> nb_slist p = true ->
  lx_l fuel p [[]] = Some (env', false) ->
  (st_local_count (csym st) + ldepth p <= StackSize)%N ->
  let prog := program_of (bytecode_of st) in
  exists s, reaches prog (vm_init prog) s /\
            vm_step prog s = Halted s /\ ostack s = [] /\
            forall n y v, st_resolve n (csym st) = Some y -> slook n env' = Some v ->
                          nth_error (globals s) (N.to_nat (sidx y)) = Some v.
Proof.
  intros p st fuel env' HC HP HNB HX HD. apply (compile_correct_locals p st fuel env'); auto.
  unfold lpfrag. rewrite (compile_covered p st HC HP), HNB. reflexivity.
Qed.

(* ====================================================================== *)
(* the same for compile_wf: element stores included                        *)
(* ====================================================================== *)
Opaque emit emit_const.
Lemma cover_stmt_wf :
  (forall s st st', compile_stmt true s st = COk st' -> wplain_stmt s = true -> cfrag_stmt s = true) /\
  (forall l st st', body_of true l st = COk st' -> wplain_slist l = true -> cfrag_slist l = true) /\
  (forall l jumps st st', fst (compile_elifs true l jumps st) = COk st' -> wplain_clist l = true -> cfrag_clist l = true) /\
  (forall o, match o with
             | NoElse => True
             | Else b => forall st st', body_of true b st = COk st' -> wplain_slist b = true -> cfrag_slist b = true
             end).
Proof.
  destruct cover_expr as (SE & SL & SP & SO).
  assert (BLOCK : forall b, (forall st st', body_of true b st = COk st' -> wplain_slist b = true -> cfrag_slist b = true) ->
                            forall st st', compile_block true b st = COk st' -> wplain_slist b = true -> cfrag_slist b = true).
  { intros b Hb st st' H HP. destruct b as [|s t]; [reflexivity|]. simpl in H. bind_inv H.
    eapply Hb; [simpl; eassumption|exact HP]. }
  assert (COND : forall c b, (forall st st', body_of true b st = COk st' -> wplain_slist b = true -> cfrag_slist b = true) ->
                             forall st st', compile_cond true c b st = COk st' ->
                                            (mapok c = true -> efrag c = true) /\ (wplain_slist b = true -> cfrag_slist b = true)).
  { intros c b Hb st st' H. destruct b as [|s t].
    - simpl in H. bind_inv H. split; [eapply SE; eassumption|reflexivity].
    - simpl in H. bind_inv H; bind_inv H; bind_inv H.
      split; [eapply SE; eassumption|]. intro HP. eapply Hb; [simpl; eassumption|exact HP]. }
  assert (FOR : forall lv rop n b, (forall st st', body_of true b st = COk st' -> wplain_slist b = true -> cfrag_slist b = true) ->
                                   forall st st', for_loop true lv rop n b st = COk st' -> wplain_slist b = true -> cfrag_slist b = true).
  { intros lv rop n b Hb st st' H HP. destruct b as [|s t]; [reflexivity|]. simpl in H.
    bind_inv H; bind_inv H; bind_inv H; bind_inv H. eapply Hb; [simpl; eassumption|exact HP]. }
  apply stmt_mutind; intros; simpl in *; auto.
  - (* SDecl *) binds. derive2 SE SO BLOCK COND FOR. auto.
  - (* SAssign *)
    match goal with H : _ = COk _ |- _ => bind_inv H; rename H into HT end.
    destruct target; simpl in *; try discriminate; binds; split_hyps; try discriminate;
      derive2 SE SO BLOCK COND FOR; split_goal; auto.
  - (* SIf *)
    match goal with H : _ = COk _ |- _ => bind_inv H; rename H into HT end.
    match type of HT with context [compile_elifs true ?l ?j ?x] =>
      destruct (compile_elifs true l j x) as [r jumps] eqn:EE end.
    binds. split_hyps.
    match goal with IH : forall jumps st st', fst (compile_elifs true elifs jumps st) = COk st' -> _ |- _ =>
      assert (XE : cfrag_clist elifs = true) by (eapply IH; [rewrite EE; simpl; eassumption|assumption]) end.
    destruct els; simpl in *; derive2 SE SO BLOCK COND FOR; split_goal; auto.
  - (* SWhile *) binds. split_hyps. derive2 SE SO BLOCK COND FOR. split_goal; auto.
  - (* SForStep *) binds. split_hyps. derive2 SE SO BLOCK COND FOR. destruct start, step; simpl in *; split_goal; auto.
  - (* SForIter *) destruct t; try discriminate; binds; split_hyps; derive2 SE SO BLOCK COND FOR; split_goal; auto.
  - (* SUnsupported *) discriminate.
  - (* SCons *) binds. split_hyps.
    match goal with H : compile_slist true _ _ = COk _ |- _ => rewrite compile_slist_body in H end.
    split_goal; eauto.
  - (* CCons *)
    match goal with H : fst (match ?x with _ => _ end) = COk _ |- _ => destruct x eqn:EC; [|simpl in H; discriminate] end.
    split_hyps. derive2 SE SO BLOCK COND FOR. split_goal; eauto.
  - (* Else *) eauto.
Qed.
Transparent emit emit_const.

Lemma pfrag2_cfrag p : pfrag2 p = cfrag_slist p.
Proof. induction p as [|s t IH]; [reflexivity|]. cbn [pfrag2 cfrag_slist]. unfold pfrag_stmt2. rewrite IH. reflexivity. Qed.

Theorem compile_covered_wf : forall (p : slist) (st : cstate),
  compile p = COk st -> wplain_slist p = true -> pfrag2 p = true.
Proof.
  intros p st H HP. rewrite pfrag2_cfrag. unfold compile, compile_program in H. rewrite compile_slist_body in H.
  destruct cover_stmt_wf as (_ & SL & _). eapply SL; eauto.
Qed.

(* compile_wf for EVERY program the compiler accepts: wplain only excludes
   two shapes the parser never produces, and a pending break at the end is a
   break outside a loop (a parse error) *)
Theorem compile_wf_all : forall (p : slist) (st : cstate),
  compile p = COk st -> wplain_slist p = true -> cbreaks st = [] ->
  WF {| bcode := out_code (bytecode_of st); nconsts := N.of_nat (List.length (out_consts (bytecode_of st)));
        gcount := out_gcount (bytecode_of st); lcount := out_lcount (bytecode_of st) |}.
Proof. intros p st HC HP HB. apply (compile_wf_ctl2 p st (compile_covered_wf p st HC HP) HC HB). Qed.

(* ====================================================================== *)
(* no break outside a loop: nothing is pending at the end                  *)
(* ====================================================================== *)
Lemma setvar_breaks y st st' : emit_set_var true y st = COk st' -> cbreaks st' = cbreaks st.
Proof. unfold emit_set_var. destruct (sscp y); apply emit_breaks. Qed.

Lemma expr_breaks_any :
  (forall e st st', compile_expr true e st = COk st' -> cbreaks st' = cbreaks st) /\
  (forall l st st', compile_elist true l st = COk st' -> cbreaks st' = cbreaks st) /\
  (forall l st st', compile_pairs true l st = COk st' -> cbreaks st' = cbreaks st) /\
  (forall o st st', compile_oexpr true o st = COk st' -> cbreaks st' = cbreaks st).
Proof.
  apply expr_mutind; intros; cbn [compile_expr compile_elist compile_pairs compile_oexpr] in *; binds;
    try (match goal with H : compile_var true _ _ = COk _ |- _ =>
           unfold compile_var in H; destruct (st_resolve _ _); [|discriminate]; destruct (sscp _) end);
    try (match goal with H : compile_binop true ?op ?lt ?rt _ = COk _ |- _ =>
           unfold compile_binop in H; destruct op, lt, rt; cbn [num_binop str_binop] in H; try discriminate end);
    try (match goal with H : match ?op with UMinus => _ | UBang => _ | UOtherOp => _ end = COk _ |- _ => destruct op; try discriminate end);
    try discriminate;
    repeat match goal with
           | H : emit_const true _ _ = COk _ |- _ => unfold emit_const in H
           | H : emit true _ _ _ = COk _ |- _ => apply emit_breaks in H
           | H : COk _ = COk _ |- _ => inversion H; subst; clear H
           | IH : forall st st', _ = COk st' -> cbreaks st' = cbreaks st, H : _ = COk _ |- _ => apply IH in H
           end;
    cbn [cbreaks] in *; congruence.
Qed.

Lemma emit_const_breaks k st st' : emit_const true k st = COk st' -> cbreaks st' = cbreaks st.
Proof. unfold emit_const. intro H. apply emit_breaks in H. exact H. Qed.

Lemma patch_breaks p t st st' : patch true p t st = COk st' -> cbreaks st' = cbreaks st.
Proof. unfold patch. destruct (change_operand _ _ _); [|discriminate]. intro H. inversion H. reflexivity. Qed.

Lemma patch_all_breaks l t : forall r st', fold_left (fun r p => r >>= patch true p t) l r = COk st' ->
  exists st0, r = COk st0 /\ cbreaks st' = cbreaks st0.
Proof.
  induction l as [|p l IH]; intros r st' H; cbn [fold_left] in H.
  - exists st'. auto.
  - destruct (IH _ _ H) as (st1 & E & B). apply bind_ok in E. destruct E as (st0 & -> & E).
    exists st0. split; [reflexivity|]. rewrite B. apply (patch_breaks _ _ _ _ E).
Qed.

Lemma patch_all_breaks' l t st st' : patch_all true l t st = COk st' -> cbreaks st' = cbreaks st.
Proof. unfold patch_all. intro H. destruct (patch_all_breaks _ _ _ _ H) as (st0 & E & B). inversion E; subst. exact B. Qed.

Lemma for_declare_breaks lv st st' : for_declare true lv st = COk st' -> cbreaks st' = cbreaks st.
Proof.
  unfold for_declare. destruct lv as [n|]; [|intro H; inversion H; reflexivity].
  destruct (st_define n (csym st)) as [s' y]. intro H. bind_inv H. apply emit_breaks in H0. apply setvar_breaks in H.
  cbn [with_sym cbreaks] in H0. congruence.
Qed.
Lemma for_assign_breaks lv st st' : for_assign true lv st = COk st' -> cbreaks st' = cbreaks st.
Proof.
  unfold for_assign. destruct lv as [n|]; [|intro H; inversion H; reflexivity].
  destruct (st_resolve n (csym st)); [|discriminate]. apply setvar_breaks.
Qed.

(* a loop leaves the enclosing loop's list as it found it, whatever its body does *)
Lemma for_loop_breaks lv rop n b st st' : for_loop true lv rop n b st = COk st' -> cbreaks st' = cbreaks st.
Proof.
  intro H. destruct b as [|s t]; cbn [for_loop] in H;
    repeat (apply bind_ok in H; let x := fresh "c" in let E := fresh "E" in destruct H as (x & E & H));
    inversion H; subst; cbn [with_breaks cbreaks];
    repeat match goal with
           | X : (_ >>= _) = COk _ |- _ => bind_inv X
           | X : for_declare true _ _ = COk _ |- _ => apply for_declare_breaks in X
           | X : for_assign true _ _ = COk _ |- _ => apply for_assign_breaks in X
           | X : emit true _ _ _ = COk _ |- _ => apply emit_breaks in X
           end; congruence.
Qed.

Lemma while_breaks c b st st' : compile_stmt true (SWhile c b) st = COk st' -> cbreaks st' = cbreaks st.
Proof.
  intro H. cbn [compile_stmt] in H.
  repeat (apply bind_ok in H; let x := fresh "c" in let E := fresh "E" in destruct H as (x & E & H)).
  inversion H; subst; cbn [with_breaks cbreaks].
  repeat match goal with
         | X : (_ >>= _) = COk _ |- _ => bind_inv X
         | X : compile_expr true _ _ = COk _ |- _ => apply (proj1 expr_breaks_any) in X
         | X : emit true _ _ _ = COk _ |- _ => apply emit_breaks in X
         end; congruence.
Qed.

Ltac bi H x E := apply bind_ok in H; destruct H as (x & E & H).

Opaque emit emit_const.
Lemma stmt_no_breaks :
  (forall s st st', compile_stmt true s st = COk st' -> wplain_stmt s = true -> nb_stmt s = true -> cbreaks st' = cbreaks st) /\
  (forall l st st', body_of true l st = COk st' -> wplain_slist l = true -> nb_slist l = true -> cbreaks st' = cbreaks st) /\
  (forall l jumps st st', fst (compile_elifs true l jumps st) = COk st' -> wplain_clist l = true -> nb_clist l = true -> cbreaks st' = cbreaks st) /\
  (forall o, match o with
             | NoElse => True
             | Else b => forall st st', body_of true b st = COk st' -> wplain_slist b = true -> nb_slist b = true -> cbreaks st' = cbreaks st
             end).
Proof.
  destruct expr_breaks_any as (EB & _ & _ & _).
  assert (BLOCK : forall b, (forall st st', body_of true b st = COk st' -> wplain_slist b = true -> nb_slist b = true -> cbreaks st' = cbreaks st) ->
                            forall st st', compile_block true b st = COk st' -> wplain_slist b = true -> nb_slist b = true -> cbreaks st' = cbreaks st).
  { intros b Hb st st' H HP HN. destruct b as [|s t].
    - simpl in H. inversion H; reflexivity.
    - simpl in H. bi H c1 E1. inversion H; subst. cbn [with_sym cbreaks].
      rewrite (Hb (with_sym (st_push (csym st)) st) c1); [reflexivity|simpl; exact E1|exact HP|exact HN]. }
  assert (COND : forall c b, (forall st st', body_of true b st = COk st' -> wplain_slist b = true -> nb_slist b = true -> cbreaks st' = cbreaks st) ->
                             forall st st', compile_cond true c b st = COk st' -> wplain_slist b = true -> nb_slist b = true -> cbreaks st' = cbreaks st).
  { intros c b Hb st st' H HP HN. destruct b as [|s t].
    - simpl in H. bi H c1 E1. bi H c2 E2. bi H c4 E4.
      apply EB in E1. apply emit_breaks in E2. apply emit_breaks in E4. apply patch_breaks in H. cbn [with_sym cbreaks] in *. congruence.
    - simpl in H. bi H c1 E1. bi H c2 E2. bi H c3 E3. bi H c4 E4.
      apply EB in E1. apply emit_breaks in E2. apply emit_breaks in E4. apply patch_breaks in H. cbn [with_sym cbreaks] in *.
      pose proof (Hb (with_sym (st_push (csym c2)) c2) c3 ltac:(simpl; exact E3) HP HN) as X. cbn [with_sym cbreaks] in X. congruence. }
  apply stmt_mutind.
  - (* SDecl *) intros n e st st' H _ _. cbn [compile_stmt] in H. bi H c1 E1. apply EB in E1.
    destruct (st_define n (csym c1)). apply setvar_breaks in H. cbn [with_sym cbreaks] in H. congruence.
  - (* SAssign *) intros target e st st' H _ _. cbn [compile_stmt] in H. bi H c1 E1. apply EB in E1.
    destruct target; try discriminate H.
    + destruct (st_resolve n (csym c1)); [|discriminate]. apply setvar_breaks in H. congruence.
    + bi H c3 E3. bi E3 c2 E2. apply EB in E2. apply EB in E3. apply emit_breaks in H. congruence.
  - (* SIf *) intros c b Hb elifs He els Ho st st' H HP HN. cbn [compile_stmt] in H. cbn [wplain_stmt nb_stmt] in HP, HN. split_hyps.
    bi H c1 E1.
    destruct (compile_elifs true elifs [(pos_of c1 - 3)%Z] c1) as [r jumps] eqn:EE.
    bi H c2 E2. bi H c3 E3. subst r. apply patch_all_breaks' in H.
    assert (X1 : cbreaks c1 = cbreaks st) by (apply (COND c b Hb _ _ E1); assumption).
    assert (X2 : cbreaks c2 = cbreaks c1) by (apply (He [(pos_of c1 - 3)%Z] c1 c2); [rewrite EE; reflexivity|assumption|assumption]).
    assert (X3 : cbreaks c3 = cbreaks c2).
    { destruct els; [inversion E3; reflexivity|]. apply (BLOCK _ Ho _ _ E3); assumption. }
    congruence.
  - (* SWhile *) intros c b _ st st' H _ _. apply (while_breaks c b st st' H).
  - (* SForStep *) intros lv start stop step b _ st st' H _ _. cbn [compile_stmt] in H.
    bi H c3 E3. bi E3 c2 E2. bi E2 c1 E1. apply EB in E1. apply EB in E2. apply EB in E3. apply for_loop_breaks in H. congruence.
  - (* SForIter *) intros lv t e b _ st st' H _ _. cbn [compile_stmt] in H. destruct t; try discriminate H;
      (bi H c2 E2; bi E2 c1 E1; apply EB in E1; apply emit_const_breaks in E2; apply for_loop_breaks in H; congruence).
  - (* SBreak *) intros st st' _ _ HN. discriminate HN.
  - (* SEmpty *) intros st st' H _ _. inversion H; reflexivity.
  - (* SBlock *) intros b _ st st' _ HP. discriminate HP.
  - (* SUnsupported *) intros w st st' H. discriminate H.
  - (* SNil *) intros st st' H _ _. inversion H; reflexivity.
  - (* SCons *) intros s Hs t Ht st st' H HP HN. cbn [body_of] in H. bi H c1 E1. rewrite compile_slist_body in H.
    cbn [wplain_slist nb_slist] in HP, HN. split_hyps.
    rewrite (Ht _ _ H), (Hs _ _ E1); auto.
  - (* CNil *) intros jumps st st' H _ _. inversion H; reflexivity.
  - (* CCons *) intros c b Hb t Ht jumps st st' H HP HN. cbn [compile_elifs] in H.
    destruct (compile_cond true c b st) as [c1|] eqn:EC; [|discriminate H].
    cbn [wplain_clist nb_clist] in HP, HN. split_hyps.
    rewrite (Ht _ _ _ H), (COND _ _ Hb _ _ EC); auto.
  - (* NoElse *) exact I.
  - (* Else *) intros b Hb. exact Hb.
Qed.
Transparent emit emit_const.

Theorem compile_no_pending_break : forall (p : slist) (st : cstate),
  compile p = COk st -> wplain_slist p = true -> nb_slist p = true -> cbreaks st = [].
Proof.
  intros p st H HP HN. unfold compile, compile_program in H. rewrite compile_slist_body in H.
  destruct stmt_no_breaks as (_ & SL & _). apply (SL p cinit st H HP HN).
Qed.

(* … so the side conditions of compile_wf_all are two syntactic facts about
   the program, both guaranteed by the parser *)
Theorem compile_wf_total : forall (p : slist) (st : cstate),
  compile p = COk st -> wplain_slist p = true -> nb_slist p = true ->
  WF {| bcode := out_code (bytecode_of st); nconsts := N.of_nat (List.length (out_consts (bytecode_of st)));
        gcount := out_gcount (bytecode_of st); lcount := out_lcount (bytecode_of st) |}.
Proof. intros p st HC HP HN. apply (compile_wf_all p st HC HP (compile_no_pending_break p st HC HP HN)). Qed.
