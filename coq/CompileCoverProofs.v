(* CompileCoverProofs.v — what the fragment of compile_correct_locals leaves
   out: every program the compiler accepts and that is [plain] (no element
   store; plus two shapes the parser never produces) lies in lfrag. *)
From Coq Require Import ZArith NArith List Bool Lia.
From EvyV Require Import Base Bytecode BytecodeProofs SymTab Vm Compile CompileSem CompileProofs CompileStmtProofs CompileCtlProofs CompileLocProofs.
Require Import EvyV.Gen.Opcodes.
Import ListNotations.

Ltac split_hyps := repeat match goal with H : _ && _ = true |- _ => apply andb_true_iff in H; destruct H end.
Ltac split_goal := repeat (apply andb_true_iff; split).

Lemma cover_expr :
  (forall e st st', compile_expr true e st = COk st' -> mapok e = true -> efrag e = true) /\
  (forall l st st', compile_elist true l st = COk st' -> mapok_list l = true -> efrag_list l = true) /\
  (forall l st st', compile_pairs true l st = COk st' -> mapok_pairs l = true -> efrag_pairs l = true) /\
  (forall o st st', compile_oexpr true o st = COk st' -> mapok_o o = true -> efrag_o o = true).
Proof.
  apply expr_mutind; intros; simpl in *; auto; binds;
    try (destruct op; try discriminate);
    split_hyps;
    repeat match goal with
           | IH : forall st st', _ = COk st' -> _ = true -> _ = true, H : _ = COk _ |- _ => specialize (IH _ _ H); clear H
           end;
    split_goal; auto; try discriminate.
Qed.

Ltac derive2 SE SO BLOCK COND FOR :=
    repeat match goal with
    | H : compile_expr true _ _ = COk _ |- _ => let X := fresh "X" in pose proof (SE _ _ _ H) as X; clear H
    | H : compile_oexpr true _ _ = COk _ |- _ => let X := fresh "X" in pose proof (SO _ _ _ H) as X; clear H
    | IH : (forall st st', body_of true ?b st = COk st' -> _), H : compile_block true ?b _ = COk _ |- _ =>
        let X := fresh "X" in pose proof (BLOCK _ IH _ _ H) as X; clear H
    | IH : (forall st st', body_of true ?b st = COk st' -> _), H : compile_cond true _ ?b _ = COk _ |- _ =>
        let X := fresh "X" in pose proof (COND _ _ IH _ _ H) as X; clear H; destruct X
    | IH : (forall st st', body_of true ?b st = COk st' -> _), H : for_loop true _ _ _ ?b _ = COk _ |- _ =>
        let X := fresh "X" in pose proof (FOR _ _ _ _ IH _ _ H) as X; clear H
    end.

Opaque emit emit_const.
Lemma cover_stmt :
  (forall s st st', compile_stmt true s st = COk st' -> plain_stmt s = true -> lfrag_stmt s = true) /\
  (forall l st st', body_of true l st = COk st' -> plain_slist l = true -> lfrag_slist l = true) /\
  (forall l jumps st st', fst (compile_elifs true l jumps st) = COk st' -> plain_clist l = true -> lfrag_clist l = true) /\
  (forall o, match o with
             | NoElse => True
             | Else b => forall st st', body_of true b st = COk st' -> plain_slist b = true -> lfrag_slist b = true
             end).
Proof.
  destruct cover_expr as (SE & SL & SP & SO).
  assert (BLOCK : forall b, (forall st st', body_of true b st = COk st' -> plain_slist b = true -> lfrag_slist b = true) ->
                            forall st st', compile_block true b st = COk st' -> plain_slist b = true -> lfrag_slist b = true).
  { intros b Hb st st' H HP. destruct b as [|s t]; [reflexivity|]. simpl in H. bind_inv H.
    eapply Hb; [simpl; eassumption|exact HP]. }
  assert (COND : forall c b, (forall st st', body_of true b st = COk st' -> plain_slist b = true -> lfrag_slist b = true) ->
                             forall st st', compile_cond true c b st = COk st' ->
                                            (mapok c = true -> efrag c = true) /\ (plain_slist b = true -> lfrag_slist b = true)).
  { intros c b Hb st st' H. destruct b as [|s t].
    - simpl in H. bind_inv H. split; [eapply SE; eassumption|reflexivity].
    - simpl in H. bind_inv H; bind_inv H; bind_inv H.
      split; [eapply SE; eassumption|]. intro HP. eapply Hb; [simpl; eassumption|exact HP]. }
  assert (FOR : forall lv rop n b, (forall st st', body_of true b st = COk st' -> plain_slist b = true -> lfrag_slist b = true) ->
                                   forall st st', for_loop true lv rop n b st = COk st' -> plain_slist b = true -> lfrag_slist b = true).
  { intros lv rop n b Hb st st' H HP. destruct b as [|s t]; [reflexivity|]. simpl in H.
    bind_inv H; bind_inv H; bind_inv H; bind_inv H. eapply Hb; [simpl; eassumption|exact HP]. }
  apply stmt_mutind; intros; simpl in *; auto.
  - (* SDecl *) binds. derive2 SE SO BLOCK COND FOR. auto.
  - (* SAssign *)
    match goal with H : _ = COk _ |- _ => bind_inv H; rename H into HT end.
    destruct target; simpl in *; try discriminate; binds; split_hyps; try discriminate.
    derive2 SE SO BLOCK COND FOR. auto.
  - (* SIf *)
    match goal with H : _ = COk _ |- _ => bind_inv H; rename H into HT end.
    match type of HT with context [compile_elifs true ?l ?j ?x] =>
      destruct (compile_elifs true l j x) as [r jumps] eqn:EE end.
    binds. split_hyps.
    match goal with IH : forall jumps st st', fst (compile_elifs true elifs jumps st) = COk st' -> _ |- _ =>
      assert (XE : lfrag_clist elifs = true) by (eapply IH; [rewrite EE; simpl; eassumption|assumption]) end.
    destruct els; simpl in *; derive2 SE SO BLOCK COND FOR; split_goal; auto.
  - (* SWhile *) binds. split_hyps. derive2 SE SO BLOCK COND FOR. split_goal; auto.
  - (* SForStep *) binds. split_hyps. derive2 SE SO BLOCK COND FOR. destruct start, step; simpl in *; split_goal; auto.
  - (* SForIter *) destruct t; try discriminate; binds; split_hyps; derive2 SE SO BLOCK COND FOR; split_goal; auto.
  - (* SUnsupported *) discriminate.
  - (* SCons *) binds. split_hyps.
    match goal with H : compile_slist true _ _ = COk _ |- _ => rewrite compile_slist_body in H end.
    split_goal; eauto.
  - (* CCons *)
    match goal with H : fst (match ?x with _ => _ end) = COk _ |- _ => destruct x eqn:EC; [|simpl in H; discriminate] end.
    split_hyps. derive2 SE SO BLOCK COND FOR. split_goal; eauto.
  - (* Else *) eauto.
Qed.
Transparent emit emit_const.

(* every program the compiler accepts is in the fragment, unless it has an
   element store (or one of the two shapes the parser never produces) *)
Theorem compile_covered : forall (p : slist) (st : cstate),
  compile p = COk st -> plain_slist p = true -> lfrag_slist p = true.
Proof.
  intros p st H HP. unfold compile, compile_program in H. rewrite compile_slist_body in H.
  destruct cover_stmt as (_ & SL & _). eapply SL; eauto.
Qed.

(* compile_correct for every program the compiler accepts, element stores
   aside: the hypotheses on the shape of p are [plain] (no element store; the
   parser guarantees the rest of it) and no break outside a loop (a parse
   error as well). *)
Theorem compile_correct_plain : forall (p : slist) (st : cstate) (fuel : nat) (env' : senv),
  compile p = COk st -> plain_slist p = true -> nb_slist p = true ->
  lx_l fuel p [[]] = Some (env', false) ->
  (st_local_count (csym st) + ldepth p <= StackSize)%N ->
  let prog := program_of (bytecode_of st) in
  exists s, reaches prog (vm_init prog) s /\
            vm_step prog s = Halted s /\ ostack s = [] /\
            forall n y v, st_resolve n (csym st) = Some y -> slook n env' = Some v ->
                          nth_error (globals s) (N.to_nat (sidx y)) = Some v.
Proof.
  intros p st fuel env' HC HP HNB HX HD. apply (compile_correct_locals p st fuel env'); auto.
  unfold lpfrag. rewrite (compile_covered p st HC HP), HNB. reflexivity.
Qed.

(* ====================================================================== *)
(* the same for compile_wf: element stores included                        *)
(* ====================================================================== *)
Opaque emit emit_const.
Lemma cover_stmt_wf :
  (forall s st st', compile_stmt true s st = COk st' -> wplain_stmt s = true -> cfrag_stmt s = true) /\
  (forall l st st', body_of true l st = COk st' -> wplain_slist l = true -> cfrag_slist l = true) /\
  (forall l jumps st st', fst (compile_elifs true l jumps st) = COk st' -> wplain_clist l = true -> cfrag_clist l = true) /\
  (forall o, match o with
             | NoElse => True
             | Else b => forall st st', body_of true b st = COk st' -> wplain_slist b = true -> cfrag_slist b = true
             end).
Proof.
  destruct cover_expr as (SE & SL & SP & SO).
  assert (BLOCK : forall b, (forall st st', body_of true b st = COk st' -> wplain_slist b = true -> cfrag_slist b = true) ->
                            forall st st', compile_block true b st = COk st' -> wplain_slist b = true -> cfrag_slist b = true).
  { intros b Hb st st' H HP. destruct b as [|s t]; [reflexivity|]. simpl in H. bind_inv H.
    eapply Hb; [simpl; eassumption|exact HP]. }
  assert (COND : forall c b, (forall st st', body_of true b st = COk st' -> wplain_slist b = true -> cfrag_slist b = true) ->
                             forall st st', compile_cond true c b st = COk st' ->
                                            (mapok c = true -> efrag c = true) /\ (wplain_slist b = true -> cfrag_slist b = true)).
  { intros c b Hb st st' H. destruct b as [|s t].
    - simpl in H. bind_inv H. split; [eapply SE; eassumption|reflexivity].
    - simpl in H. bind_inv H; bind_inv H; bind_inv H.
      split; [eapply SE; eassumption|]. intro HP. eapply Hb; [simpl; eassumption|exact HP]. }
  assert (FOR : forall lv rop n b, (forall st st', body_of true b st = COk st' -> wplain_slist b = true -> cfrag_slist b = true) ->
                                   forall st st', for_loop true lv rop n b st = COk st' -> wplain_slist b = true -> cfrag_slist b = true).
  { intros lv rop n b Hb st st' H HP. destruct b as [|s t]; [reflexivity|]. simpl in H.
    bind_inv H; bind_inv H; bind_inv H; bind_inv H. eapply Hb; [simpl; eassumption|exact HP]. }
  apply stmt_mutind; intros; simpl in *; auto.
  - (* SDecl *) binds. derive2 SE SO BLOCK COND FOR. auto.
  - (* SAssign *)
    match goal with H : _ = COk _ |- _ => bind_inv H; rename H into HT end.
    destruct target; simpl in *; try discriminate; binds; split_hyps; try discriminate;
      derive2 SE SO BLOCK COND FOR; split_goal; auto.
  - (* SIf *)
    match goal with H : _ = COk _ |- _ => bind_inv H; rename H into HT end.
    match type of HT with context [compile_elifs true ?l ?j ?x] =>
      destruct (compile_elifs true l j x) as [r jumps] eqn:EE end.
    binds. split_hyps.
    match goal with IH : forall jumps st st', fst (compile_elifs true elifs jumps st) = COk st' -> _ |- _ =>
      assert (XE : cfrag_clist elifs = true) by (eapply IH; [rewrite EE; simpl; eassumption|assumption]) end.
    destruct els; simpl in *; derive2 SE SO BLOCK COND FOR; split_goal; auto.
  - (* SWhile *) binds. split_hyps. derive2 SE SO BLOCK COND FOR. split_goal; auto.
  - (* SForStep *) binds. split_hyps. derive2 SE SO BLOCK COND FOR. destruct start, step; simpl in *; split_goal; auto.
  - (* SForIter *) destruct t; try discriminate; binds; split_hyps; derive2 SE SO BLOCK COND FOR; split_goal; auto.
  - (* SUnsupported *) discriminate.
  - (* SCons *) binds. split_hyps.
    match goal with H : compile_slist true _ _ = COk _ |- _ => rewrite compile_slist_body in H end.
    split_goal; eauto.
  - (* CCons *)
    match goal with H : fst (match ?x with _ => _ end) = COk _ |- _ => destruct x eqn:EC; [|simpl in H; discriminate] end.
    split_hyps. derive2 SE SO BLOCK COND FOR. split_goal; eauto.
  - (* Else *) eauto.
Qed.
Transparent emit emit_const.

Lemma pfrag2_cfrag p : pfrag2 p = cfrag_slist p.
Proof. induction p as [|s t IH]; [reflexivity|]. cbn [pfrag2 cfrag_slist]. unfold pfrag_stmt2. rewrite IH. reflexivity. Qed.

Theorem compile_covered_wf : forall (p : slist) (st : cstate),
  compile p = COk st -> wplain_slist p = true -> pfrag2 p = true.
Proof.
  intros p st H HP. rewrite pfrag2_cfrag. unfold compile, compile_program in H. rewrite compile_slist_body in H.
  destruct cover_stmt_wf as (_ & SL & _). eapply SL; eauto.
Qed.

(* compile_wf for EVERY program the compiler accepts: wplain only excludes
   two shapes the parser never produces, and a pending break at the end is a
   break outside a loop (a parse error) *)
Theorem compile_wf_all : forall (p : slist) (st : cstate),
  compile p = COk st -> wplain_slist p = true -> cbreaks st = [] ->
  WF {| bcode := out_code (bytecode_of st); nconsts := N.of_nat (List.length (out_consts (bytecode_of st)));
        gcount := out_gcount (bytecode_of st); lcount := out_lcount (bytecode_of st) |}.
Proof. intros p st HC HP HB. apply (compile_wf_ctl2 p st (compile_covered_wf p st HC HP) HC HB). Qed.
