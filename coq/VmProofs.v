(* VmProofs.v — a well-formed program never drives the VM model into a stack
   underflow, an out-of-range constant/global/local access, a fetch outside
   the code or into the middle of an instruction; the operand stack never goes
   below LocalCount and is exactly LocalCount when the program ends. *)
From Coq Require Import ZArith NArith List Bool Lia ZifyBool ZifyNat ZifyN Floats.
From EvyV Require Import Base Bytecode BytecodeProofs Vm.
Require Import EvyV.Gen.Opcodes.
Import ListNotations.
Open Scope N_scope.

Lemma set_nth_length {A} n (x : A) : forall l, List.length (set_nth n x l) = List.length l.
Proof.
  induction n as [|n IH]; intros [|y t]; simpl; auto.
Qed.

Lemma has_operand_vm o : vm_has_operand o = has_operand o.
Proof. destruct o; reflexivity. Qed.

(* ---------- which crashes the value operations can produce ---------- *)
Lemma index_value_crash l i c : index_value l i = PCrash c -> c = CType.
Proof.
  unfold index_value. intro H.
  repeat match type of H with
         | context [match ?x with _ => _ end] => destruct x; try discriminate
         end; inversion H; reflexivity.
Qed.

Lemma slice_value_crash l a b c : slice_value l a b = PCrash c -> c = CType.
Proof.
  unfold slice_value. intro H.
  destruct l; try (inversion H; reflexivity);
    match type of H with context [slice_bounds ?x ?y ?z] => destruct (slice_bounds x y z) as [[[?|?] [?|?]]|] end;
    try discriminate; try (inversion H; reflexivity);
    match type of H with context [if ?c then _ else _] => destruct c end; discriminate.
Qed.

Lemma num2_crash args f c : (forall l r c', f l r = PCrash c' -> c' = CType) -> num2 args f = PCrash c -> c = CType.
Proof.
  intros Hf H. unfold num2 in H.
  destruct args as [|[] [|[] [|]]]; try (inversion H; reflexivity). eapply Hf; eauto.
Qed.

Lemma str2_crash args f c : str2 args f = PCrash c -> c = CType.
Proof.
  intro H. unfold str2 in H.
  destruct args as [|[] [|[] [|]]]; try (inversion H; reflexivity); discriminate.
Qed.

(* what may crash besides a type-directed panic: OpArrayRepeat without the
   count guard (the tree before 208ef1c; with repeat_guarded = true this is c = CType) *)
Definition crash_ok (c : crash) : Prop := c = CType \/ (repeat_guarded = false /\ c = CHost).

Lemma arr_repeat_crash g r l c : arr_repeat g r l = PCrash c -> g = false /\ c = CHost.
Proof.
  unfold arr_repeat. destruct (go_int_exact r) as [n|]; [|discriminate]. destruct (n <? 0)%Z; [discriminate|].
  destruct (repeat_too_large (List.length l) n); [|discriminate]. destruct g; [discriminate|]. intro H; inversion H. auto.
Qed.

Lemma pure_sem_crash o arg cs ls gs args c :
  pure_sem o arg cs ls gs args = PCrash c ->
  crash_ok c \/
  (c = COperand /\
   ((o = Constant /\ nth_error cs (N.to_nat arg) = None) \/
    (o = GetGlobal /\ nth_error gs (N.to_nat arg) = None) \/
    (o = GetLocal /\ nth_error ls (N.to_nat arg) = None))).
Proof.
  intro H. destruct o; simpl in H;
    try (left; left; inversion H; reflexivity);
    try discriminate;
    try (left; left; eapply str2_crash; eassumption);
    try (left; left; eapply num2_crash; [|eassumption]; intros l r c' Hc; cbv beta in Hc;
         repeat match type of Hc with context [if ?b then _ else _] => destruct b end; discriminate).
  - destruct (nth_error cs (N.to_nat arg)) eqn:E; [discriminate|]. inversion H. right. split; auto.
  - destruct (nth_error gs (N.to_nat arg)) eqn:E; [discriminate|]. inversion H. right. split; auto.
  - destruct (nth_error ls (N.to_nat arg)) eqn:E; [discriminate|]. inversion H. right. split; auto.
  - left. left. destruct args as [|[] [|]]; try discriminate; inversion H; reflexivity.
  - left. left. destruct args as [|[] [|]]; try discriminate; inversion H; reflexivity.
  - left. left. destruct args as [|r [|l [|]]]; try (inversion H; reflexivity).
    destruct (val_equals l r); [discriminate|inversion H; reflexivity].
  - left. left. destruct args as [|r [|l [|]]]; try (inversion H; reflexivity).
    destruct (val_equals l r); [discriminate|inversion H; reflexivity].
  - left. left. destruct args as [|[] [|[] [|]]]; try discriminate; inversion H; reflexivity.
  - left. destruct args as [|[] [|[] [|]]]; try (left; inversion H; reflexivity).
    right. apply (arr_repeat_crash _ _ _ _ H).
  - left. left. destruct (map_pairs args []); [discriminate|inversion H; reflexivity].
  - left. left. destruct args as [|i [|l [|]]]; try (inversion H; reflexivity). eapply index_value_crash; eauto.
  - left. left. destruct args as [|b [|a [|l [|]]]]; try (inversion H; reflexivity). eapply slice_value_crash; eauto.
Qed.

Lemma set_index_check_crash args c : set_index_check args = Some (PCrash c) -> c = CType.
Proof.
  unfold set_index_check. intro H.
  destruct args as [|i [|l [|v [|]]]]; try discriminate.
  all: destruct l; try discriminate; destruct i; try discriminate; try (inversion H; reflexivity);
    match type of H with context [normalize_index ?f ?n ?b] => destruct (normalize_index f n b) end; discriminate.
Qed.

(* ---------- what an element store may change behind the model's back ---------- *)
(* Vm.v has value semantics for arrays and maps: its OpSetIndex pops and
   checks, but the store itself — which on the real VM is visible through
   every alias of the array / map object — is not performed.  [perturbed]
   over-approximates that effect: the CONTENTS of arrays and maps anywhere in
   the machine state (stack, locals, globals) may change arbitrarily; numbers,
   booleans, strings, the positions of all values and ip stay. *)
Definition vshape (v v' : value) : Prop :=
  match v, v' with
  | VArr _, VArr _ => True
  | VMap _, VMap _ => True
  | _, _ => v = v'
  end.

Definition perturbed (s s' : vmstate) : Prop :=
  ip s' = ip s /\ Forall2 vshape (ostack s) (ostack s') /\
  Forall2 vshape (locals s) (locals s') /\ Forall2 vshape (globals s) (globals s').

Lemma forall2_length {A B} (R : A -> B -> Prop) l l' : Forall2 R l l' -> List.length l' = List.length l.
Proof. induction 1; simpl; congruence. Qed.

Lemma vshape_refl v : vshape v v.
Proof. destruct v; simpl; auto. Qed.
Lemma perturbed_refl s : perturbed s s.
Proof.
  assert (R : forall l, Forall2 vshape l l) by (induction l; constructor; auto using vshape_refl).
  repeat split; auto.
Qed.

(* reachable, with such a change allowed between any two steps *)
Inductive reachable_h (p : program) : vmstate -> Prop :=
| rh_init : reachable_h p (vm_init p)
| rh_step s s' : reachable_h p s -> vm_step p s = Running s' -> reachable_h p s'
| rh_heap s s' : reachable_h p s -> perturbed s s' -> reachable_h p s'.

Lemma reachable_reachable_h p s : reachable p s -> reachable_h p s.
Proof. induction 1; [constructor|eapply rh_step; eauto]. Qed.

(* ---------- the invariant ---------- *)
Section Safe.
  Variable p : program.
  Let bc := info_of p.
  Let lc := plcount p.
  Variable instrs : list (N * instr).
  Variable h : N -> option ast.
  Hypothesis HD : decode_all (pcode p) = Some instrs.
  Hypothesis HS : forall pc i, In (pc, i) instrs -> operand_ok bc i = true.
  Hypothesis HF : forall pc a, h pc = Some a ->
       exists i succs, In (pc, i) instrs /\ xfer lc pc i a = Some succs /\
         forall t a', In (t, a') succs ->
           (t = codelen bc /\ a' = AH lc) \/ (t < codelen bc /\ h t = Some a').

  Definition amatch (a : ast) (stk : list value) : Prop :=
    match a with
    | AH k => lc + N.of_nat (List.length stk) = k
    | ACond k => exists b rest, stk = VBool b :: rest /\
                                lc + N.of_nat (List.length rest) = (if b then k + 1 else k)
    end.

  Definition frame_ok (s : vmstate) : Prop :=
    N.of_nat (List.length (locals s)) = lc /\ N.of_nat (List.length (globals s)) = pgcount p.

  Definition vinv (s : vmstate) : Prop :=
    frame_ok s /\
    ((ip s = codelen bc /\ ostack s = []) \/
     (ip s < codelen bc /\ exists a, h (ip s) = Some a /\ amatch a (ostack s))).

  Definition succ_cond (t : N) (a' : ast) : Prop :=
    (t = codelen bc /\ a' = AH lc) \/ (t < codelen bc /\ h t = Some a').

  Definition good (out : outcome) : Prop :=
    match out with
    | Running s' => vinv s'
    | Halted _ => False
    | Failed _ => True
    | Crashed c => crash_ok c
    end.

  Lemma mk_inv t a' s' : succ_cond t a' -> ip s' = t -> frame_ok s' -> amatch a' (ostack s') -> vinv s'.
  Proof.
    intros [[Ht Ha]|[Ht Ha]] Hip Hfr Hm; split; auto.
    - left. subst a'. simpl in Hm. split; [congruence|]. destruct (ostack s'); [reflexivity|simpl in Hm; lia].
    - right. split; [congruence|]. exists a'. split; [congruence|exact Hm].
  Qed.

  (* the invariant does not look into arrays and maps *)
  Lemma vinv_perturbed s s' : vinv s -> perturbed s s' -> vinv s'.
  Proof.
    intros [[HL HG] HV] (Hip & HO & HLo & HGl). split.
    - split; [rewrite (forall2_length _ _ _ HLo); exact HL|rewrite (forall2_length _ _ _ HGl); exact HG].
    - rewrite Hip. destruct HV as [[H1 H2]|[H1 (a & Ha & Hm)]].
      + left. split; [exact H1|]. rewrite H2 in HO. inversion HO. reflexivity.
      + right. split; [exact H1|]. exists a. split; [exact Ha|].
        destruct a as [k|k]; simpl in *.
        * rewrite (forall2_length _ _ _ HO). exact Hm.
        * destruct Hm as (b0 & rest & ES & Hh). rewrite ES in HO.
          destruct (ostack s') as [|y l'] eqn:ES'; [inversion HO|].
          assert (Hxy : vshape (VBool b0) y) by (inversion HO; assumption).
          assert (Hrest : Forall2 vshape rest l') by (inversion HO; assumption).
          assert (Ey : y = VBool b0) by (destruct y; simpl in Hxy; congruence). subst y.
          exists b0, l'. split; [reflexivity|]. rewrite (forall2_length _ _ _ Hrest). exact Hh.
  Qed.

  Lemma with_stack_good s next stk a' :
    frame_ok s -> succ_cond next a' -> amatch a' stk -> good (with_stack s next stk).
  Proof.
    intros Hfr Hs Hm. unfold with_stack. destruct (StackSize <? _); [exact I|].
    simpl. eapply mk_inv; eauto.
  Qed.

  Lemma firstn_one {A} (l : list A) : (1 <= List.length l)%nat -> exists x, firstn 1 l = [x].
  Proof. destruct l; simpl; [lia|eauto]. Qed.

  Lemma exec_good s a i succs o :
    frame_ok s -> amatch a (ostack s) -> operand_ok bc i = true -> opc_of_N (iop i) = Some o ->
    xfer lc (ip s) i a = Some succs -> (forall t a', In (t, a') succs -> succ_cond t a') ->
    good (exec p s o (arg0 i) (ip s + ilen i)).
  Proof.
    intros Hfr Hm Hop Ho Hx Hsucc. pose proof Hfr as [HL HG].
    unfold xfer in Hx. rewrite Ho in Hx. unfold operand_ok in Hop. rewrite Ho in Hop.
    set (arg := arg0 i) in *. set (next := ip s + ilen i) in *.
    (* the generic straight-line case *)
    assert (SIMPLE : forall pn q k, a = AH k -> simple_effect o arg = Some (pn, q) ->
              lc + pn <= k -> succ_cond next (AH (k - pn + q)) ->
              o <> Jump -> o <> JumpOnFalse -> o <> StepRange -> o <> IterRange ->
              good (exec p s o arg next)).
    { intros pn q k -> HE Hk Hsc N1 N2 N3 N4. simpl in Hm.
      assert (Hlen : (N.to_nat pn <= List.length (ostack s))%nat) by lia.
      assert (Hrest : N.of_nat (List.length (skipn (N.to_nat pn) (ostack s))) = k - pn - lc)
        by (rewrite skipn_length; lia).
      unfold exec. rewrite HE.
      destruct (List.length (ostack s) <? N.to_nat pn)%nat eqn:EU; [apply Nat.ltb_lt in EU; lia|].
      destruct o; try congruence; simpl in HE; inversion HE; subst pn q; clear HE;
        try (match goal with
             | |- good (match pure_sem ?o ?a ?c ?l ?g ?x with _ => _ end) =>
                 destruct (pure_sem o a c l g x) as [v|e|c0] eqn:EP;
                 [ eapply with_stack_good; [exact Hfr|exact Hsc|cbn [amatch List.length]; lia]
                 | exact I
                 | apply pure_sem_crash in EP; destruct EP as [EP|[-> EP]]; [exact EP|exfalso];
                   destruct EP as [[E1 E2]|[[E1 E2]|[E1 E2]]]; try discriminate E1;
                   apply nth_error_None in E2; unfold bc, info_of in Hop; simpl in Hop; lia ]
             end).
      - (* SetGlobal *)
        destruct (firstn_one (ostack s)) as [x Hx1]; [change (N.to_nat 1) with 1%nat in Hlen; lia|]. change (N.to_nat 1) with 1%nat. rewrite Hx1.
        unfold set_nth_opt. destruct (N.to_nat arg <? List.length (globals s))%nat eqn:EB.
        + eapply mk_inv; [exact Hsc|reflexivity| |simpl; simpl in Hrest; rewrite Hrest; lia].
          split; simpl; [exact HL|rewrite set_nth_length; exact HG].
        + apply Nat.ltb_ge in EB. unfold bc, info_of in Hop. simpl in Hop. lia.
      - (* Drop *)
        eapply mk_inv; [exact Hsc|reflexivity|exact Hfr|cbn [amatch ostack]; lia].
      - (* SetLocal *)
        destruct (firstn_one (ostack s)) as [x Hx1]; [change (N.to_nat 1) with 1%nat in Hlen; lia|]. change (N.to_nat 1) with 1%nat. rewrite Hx1.
        unfold set_nth_opt. destruct (N.to_nat arg <? List.length (locals s))%nat eqn:EB.
        + eapply mk_inv; [exact Hsc|reflexivity| |simpl; simpl in Hrest; rewrite Hrest; lia].
          split; simpl; [rewrite set_nth_length; exact HL|exact HG].
        + apply Nat.ltb_ge in EB. unfold bc, info_of in Hop. simpl in Hop. fold lc in Hop. lia.
      - (* SetIndex *)
        destruct (set_index_check _) as [[v|e|c0]|] eqn:ES.
        + eapply mk_inv; [exact Hsc|reflexivity|exact Hfr|cbn [amatch ostack]; lia].
        + exact I.
        + apply set_index_check_crash in ES. left. exact ES.
        + eapply mk_inv; [exact Hsc|reflexivity|exact Hfr|cbn [amatch ostack]; lia]. }
    destruct a as [k|k].
    - (* a plain height *)
      simpl in Hm.
      destruct o;
        try (cbn [simple_effect] in Hx;
             match type of Hx with (if ?c then _ else _) = _ => destruct c eqn:EK; [|discriminate] end;
             inversion Hx; subst succs; clear Hx;
             eapply SIMPLE; [reflexivity|reflexivity|lia|apply Hsucc; left; reflexivity|discriminate..]).
      + (* Jump *)
        inversion Hx; subst succs; clear Hx. simpl.
        eapply mk_inv; [apply Hsucc; left; reflexivity|reflexivity|exact Hfr|simpl; exact Hm].
      + (* JumpOnFalse *)
        destruct (lc + 1 <=? k) eqn:EK; [|discriminate]. inversion Hx; subst succs; clear Hx. simpl.
        destruct (ostack s) as [|v rest] eqn:ES; [simpl in Hm; lia|].
        destruct v; try (left; reflexivity). simpl in Hm.
        destruct b.
        * eapply mk_inv; [apply Hsucc; left; reflexivity|reflexivity|exact Hfr|simpl; lia].
        * eapply mk_inv; [apply Hsucc; right; left; reflexivity|reflexivity|exact Hfr|simpl; lia].
      + (* StepRange *)
        destruct (lc + 3 <=? k) eqn:EK; [|discriminate]. inversion Hx; subst succs; clear Hx. simpl.
        destruct (List.length (ostack s) <? 3)%nat eqn:EU; [apply Nat.ltb_lt in EU; lia|].
        destruct (zero_step (ostack s)); [exact I|].
        destruct (step_range arg (ostack s)) as [stk|] eqn:ER; [|left; reflexivity].
        unfold step_range in ER.
        destruct (ostack s) as [|[] [|[] [|[] rest]]]; try discriminate. inversion ER; subst stk; clear ER.
        eapply with_stack_good; [exact Hfr|apply Hsucc; left; reflexivity|].
        simpl in Hm. destruct (arg =? 0) eqn:EA; simpl.
        * rewrite andb_false_r. simpl. lia.
        * rewrite andb_true_r. eexists _, _. split; [reflexivity|].
          match goal with |- context [if ?g then _ else _] => destruct g end; simpl; lia.
      + (* IterRange *)
        destruct (lc + 2 <=? k) eqn:EK; [|discriminate]. inversion Hx; subst succs; clear Hx. simpl.
        destruct (List.length (ostack s) <? 2)%nat eqn:EU; [apply Nat.ltb_lt in EU; lia|].
        destruct (iter_range arg (ostack s)) as [stk|] eqn:ER; [|left; reflexivity].
        unfold iter_range in ER.
        destruct (ostack s) as [|[] [|it rest]]; try discriminate.
        destruct (float_to_Z f) as [z|]; [|discriminate]. destruct (z <? 0)%Z; [discriminate|].
        inversion ER; subst stk; clear ER.
        eapply with_stack_good; [exact Hfr|apply Hsucc; left; reflexivity|].
        simpl in Hm.
        match goal with |- context [match ?v with Some _ => _ | None => _ end] => destruct v end;
          destruct (arg =? 0) eqn:EA; simpl; try lia;
          eexists _, _; (split; [reflexivity|]); simpl; lia.
    - (* right after a range instruction with a loop variable *)
      destruct o; try discriminate. inversion Hx; subst succs; clear Hx. simpl.
      destruct Hm as (b & rest & ES & Hh). rewrite ES. destruct b.
      + eapply mk_inv; [apply Hsucc; left; reflexivity|reflexivity|exact Hfr|simpl; lia].
      + eapply mk_inv; [apply Hsucc; right; left; reflexivity|reflexivity|exact Hfr|simpl; lia].
  Qed.

  Lemma codelen_len : codelen bc = N.of_nat (List.length (pcode p)).
  Proof. reflexivity. Qed.

  (* one loop iteration from a state satisfying the invariant *)
  Lemma step_good s : vinv s ->
    match vm_step p s with
    | Running s' => vinv s'
    | Halted s' => s' = s /\ ip s = codelen bc /\ ostack s = []
    | Failed _ => True
    | Crashed c => crash_ok c
    end.
  Proof.
    intros [Hfr [[Hip Hst]|[Hip (a & Ha & Hm)]]].
    - unfold vm_step. rewrite Hip, codelen_len, Nat2N.id, skipn_all. auto.
    - destruct (HF _ _ Ha) as (i & succs & HI & Hx & Hsucc).
      destruct (decode_all_fetch _ _ _ _ HD HI) as (rest & HD1 & Hend).
      pose proof Hx as Hx'. unfold xfer in Hx'.
      destruct (opc_of_N (iop i)) as [o|] eqn:Ho; [|discriminate]. clear Hx'.
      pose proof (decode1_opc _ _ _ _ HD1 Ho) as [Hlen Hshape].
      pose proof (exec_good s a i succs o Hfr Hm (HS _ _ HI) Ho Hx Hsucc) as G.
      unfold vm_step.
      destruct (has_operand o) eqn:EH.
      + destruct Hshape as (hi & lo & -> & Hargs). rewrite Ho, has_operand_vm, EH. rewrite Hlen in G.
        unfold arg0 in G. rewrite Hargs in G. simpl in G.
        destruct (exec p s o (hi * 256 + lo) (ip s + 3)); simpl in *; auto; contradiction.
      + destruct Hshape as (-> & Hargs). rewrite Ho, has_operand_vm, EH. rewrite Hlen in G.
        unfold arg0 in G. rewrite Hargs in G. simpl in G.
        destruct (exec p s o 0 (ip s + 1)); simpl in *; auto; contradiction.
  Qed.

End Safe.

Lemma decode_all_nonempty code instrs : decode_all code = Some instrs -> code <> [] -> instrs <> [].
Proof.
  unfold decode_all. destruct code as [|b t]; [congruence|]. intros H _.
  cbn [List.length decode_from] in H.
  destruct (decode1 (b :: t)) as [[i r]|]; [|discriminate].
  destruct (decode_from _ _ r); [|discriminate]. inversion H. discriminate.
Qed.

(* The VM-safety theorem (partial: type-directed panics, CType, are not
   covered — they need the typed simulation of C16). *)
Theorem wf_vm_safe_crash_ok : forall (p : program), WF (info_of p) ->
  forall s, reachable p s ->
    (* the stack discipline: never below LocalCount *)
    plcount p <= sp_of s /\
    match vm_step p s with
    | Running _ | Failed _ => True
    (* the program ends exactly at the end of the code, with sp = LocalCount *)
    | Halted s' => ip s' = N.of_nat (List.length (pcode p)) /\ sp_of s' = plcount p
    (* no underflow, no out-of-range constant/global/local, no bad fetch; a host
       crash only from OpArrayRepeat while its count is unguarded (crash_ok) *)
    | Crashed c => crash_ok c
    end.
Proof.
  intros p (instrs & h & HD & HS & HE & HF) s HR.
  assert (HS' : forall pc i, In (pc, i) instrs -> operand_ok (info_of p) i = true)
    by (intros pc i HI; apply (HS pc i HI)).
  assert (INV : vinv p h s).
  { induction HR as [|s s' HR IH Hstep].
    - split; [split; simpl; rewrite repeat_length; lia|].
      destruct (pcode p) as [|b t] eqn:EC.
      + left. split; [unfold codelen; simpl; rewrite EC; reflexivity|reflexivity].
      + right. split; [unfold codelen; simpl; rewrite EC; simpl; lia|].
        exists (AH (plcount p)). split; [|simpl; lia].
        apply HE. simpl in HD. rewrite EC in HD. eapply decode_all_nonempty; eauto. discriminate.
    - pose proof (step_good p instrs h HD HS' HF s IH) as G. rewrite Hstep in G. exact G. }
  split.
  - destruct INV as [[HL _] [[_ Hst]|[_ (a & _ & Hm)]]]; unfold sp_of; rewrite HL.
    + lia.
    + destruct a as [k|k]; simpl in Hm; [lia|]. lia.
  - pose proof (step_good p instrs h HD HS' HF s INV) as G.
    destruct (vm_step p s); auto.
    destruct G as (-> & Hip & Hst). split; [exact Hip|].
    destruct INV as [[HL _] _]. unfold sp_of. rewrite HL, Hst. simpl. lia.
Qed.

Lemma crash_ok_type c : crash_ok c -> c = CType.
Proof. intros [H|[H _]]; [exact H|discriminate H]. Qed.

(* since 208ef1c (repeat_guarded = true) the only crash left is the type-directed one *)
Theorem wf_vm_safe_partial : forall (p : program), WF (info_of p) ->
  forall s, reachable p s ->
    plcount p <= sp_of s /\
    match vm_step p s with
    | Running _ | Failed _ => True
    | Halted s' => ip s' = N.of_nat (List.length (pcode p)) /\ sp_of s' = plcount p
    | Crashed c => c = CType
    end.
Proof.
  intros p HW s HR. destruct (wf_vm_safe_crash_ok p HW s HR) as [A B]. split; [exact A|].
  destruct (vm_step p s); auto. apply crash_ok_type. exact B.
Qed.

(* The same with the heap effect of element stores over-approximated: between
   any two steps the contents of arrays and maps anywhere in the state may
   change (reachable_h).  The safety argument never looks into them. *)
Theorem wf_vm_safe_heap_partial : forall (p : program), WF (info_of p) ->
  forall s, reachable_h p s ->
    plcount p <= sp_of s /\
    match vm_step p s with
    | Running _ | Failed _ => True
    | Halted s' => ip s' = N.of_nat (List.length (pcode p)) /\ sp_of s' = plcount p
    | Crashed c => c = CType
    end.
Proof.
  intros p (instrs & h & HD & HS & HE & HF) s HR.
  assert (HS' : forall pc i, In (pc, i) instrs -> operand_ok (info_of p) i = true)
    by (intros pc i HI; apply (HS pc i HI)).
  assert (INV : vinv p h s).
  { induction HR as [|s s' HR IH Hstep|s s' HR IH HP].
    - split; [split; simpl; rewrite repeat_length; lia|].
      destruct (pcode p) as [|b t] eqn:EC.
      + left. split; [unfold codelen; simpl; rewrite EC; reflexivity|reflexivity].
      + right. split; [unfold codelen; simpl; rewrite EC; simpl; lia|].
        exists (AH (plcount p)). split; [|simpl; lia].
        apply HE. simpl in HD. rewrite EC in HD. eapply decode_all_nonempty; eauto. discriminate.
    - pose proof (step_good p instrs h HD HS' HF s IH) as G. rewrite Hstep in G. exact G.
    - apply (vinv_perturbed p h s s' IH HP). }
  split.
  - destruct INV as [[HL _] [[_ Hst]|[_ (a & _ & Hm)]]]; unfold sp_of; rewrite HL.
    + lia.
    + destruct a as [k|k]; simpl in Hm; [lia|]. lia.
  - pose proof (step_good p instrs h HD HS' HF s INV) as G.
    destruct (vm_step p s); auto.
    + destruct G as (-> & Hip & Hst). split; [exact Hip|].
      destruct INV as [[HL _] _]. unfold sp_of. rewrite HL, Hst. simpl. lia.
    + apply crash_ok_type. exact G.
Qed.
