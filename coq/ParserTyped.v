(* ParserTyped.v — the statement parser model of Parser.v with a CONCRETE typing oracle.
   No proofs here (ParserTypedProofs.v).

   Parser.v abstracts typing by an oracle  b_tyerr : tsite -> tree -> nat -> bool  that sees the
   site, the tree and the blamed token, but not the types of the variables in scope.  This file
   closes route A (source text -> Lexer -> Parser -> accept / reject with the ordered error
   positions INCLUDING typing errors) without any information borrowed from the real type
   checker:

   1. [tc_tree]: the type of a Pratt tree under a typing environment (types of the variables of
      the scope chain, function signatures), written with the functions of Types.v (the model of
      pkg/parser/type.go and of the typing decisions of expression.go that C04 compares with the
      exported Go functions): validate_binary / binary_node_type, validate_unary, index_type,
      slice_type, dot_type, validate_assert, combine + wrap_all for composite literals, infer,
      fixed_type, accepts, range_var_type.  ParserTypedProofs.tc_tree_erase: on trees whose
      variables and calls have source-expressible types it IS Types.tc of the erased expression.
   2. [oracle3]: what each of the 18 sites consulted by Pratt.v / Parser.v asks, answered from
      tc_tree (None = the typing function is undefined there: a Go panic site of Types.v, or a
      name without a type).
   3. [tparse]: a typed run of the statement parser.  The simple statements (declarations,
      assignment, call, return, break, empty) ARE Parser.parse_statement_body, called with the
      builtin record whose oracle is closed over the typing environment at that statement; the
      compound statements (for / while / if / func / on, the block and program loops) are
      re-stated here because the typing environment has to flow from one statement of a block to
      the next, which the state of Parser.v has no room for.  The typed run yields the ordered
      error list (site, blamed token) — among them the typing errors.
   4. [typed_parse]: Parser.parse itself, with the oracle "the typed run reported a typing error at
      this (site, blamed token)".  Its verdict is the model's answer; it is given only when it
      coincides with the typed run's own error list (otherwise: unsupported, the re-stated
      compound statements and Parser.v disagree on this input — never guessed).  So every theorem
      of Parser.v that holds for every oracle (parse_total, errors_located, the structure and
      scoping theorems of C05) holds for this run.

   What the model does not mirror (as in Parser.v): the token blamed by assertArgTypes
   (arg.Token()); such errors are reported as unlocated markers, one per call. *)
From Coq Require Import List String NArith ZArith Bool Arith.
From EvyV Require Import Base Pratt Parser.
From EvyV Require TypesSyntax Types.
From EvyV.Gen Require Import Prec TypeNames.
Import ListNotations.
Local Open Scope nat_scope.


Definition vty := Types.ty.

(* parseType: Pratt.ty -> *Type *)
Fixpoint conv (t : Pratt.ty) : vty :=
  match t with
  | TyNum => Types.TNum | TyStr => Types.TString | TyBool => Types.TBool | TyAny => Types.TAny
  | TyArr s => Types.TArr false (conv s)
  | TyMap s => Types.TMap false (conv s)
  end.

(* FuncDefStmt as far as typing reads it: Params[i].Type(), VariadicParam.Type(), ReturnType *)
Record fsig := { fs_params : list vty; fs_variadic : option vty; fs_ret : vty }.

(* the typing environment: the scope chain (innermost first, newest first) and p.funcs *)
Record tenv := { te_vars : list (list (str * vty)); te_sigs : list (str * fsig) }.

Fixpoint assoc {A} (n : str) (l : list (str * A)) : option A :=
  match l with [] => None | (m, a) :: r => if str_eqb m n then Some a else assoc n r end.

(* scope.get *)
Fixpoint tlookup (n : str) (l : list (list (str * vty))) : option vty :=
  match l with
  | [] => None
  | sc :: r => match assoc n sc with Some t => Some t | None => tlookup n r end
  end.

Definition binop_of (t : toktype) : option TypesSyntax.binop :=
  match t with
  | T_PLUS => Some TypesSyntax.OpPlus | T_MINUS => Some TypesSyntax.OpMinus | T_ASTERISK => Some TypesSyntax.OpAsterisk
  | T_SLASH => Some TypesSyntax.OpSlash | T_PERCENT => Some TypesSyntax.OpPercent
  | T_EQ => Some TypesSyntax.OpEq | T_NOT_EQ => Some TypesSyntax.OpNotEq | T_LT => Some TypesSyntax.OpLt | T_GT => Some TypesSyntax.OpGt
  | T_LTEQ => Some TypesSyntax.OpLtEq | T_GTEQ => Some TypesSyntax.OpGtEq | T_AND => Some TypesSyntax.OpAnd | T_OR => Some TypesSyntax.OpOr
  | _ => None
  end.
Definition unop_of (t : toktype) : option TypesSyntax.unop :=
  match t with T_MINUS => Some TypesSyntax.UMinus | T_BANG => Some TypesSyntax.UBang | _ => None end.

(* parseArrayLiteral / parseMapLiteral on the outcomes of the elements (as Types.tc does) *)
Definition tc_lit (mk : vty -> list Types.node -> Types.node) (empty : vty) (comp : vty -> vty) (os : list Types.outcome) : Types.outcome :=
  match Types.seq_outcomes os with
  | None => Types.OCrash
  | Some None => Types.ONil
  | Some (Some (ns, err)) =>
      match ns with
      | [] => Types.ONode (mk empty []) err
      | _ => match Types.combine (map Types.node_type ns) with
             | None => Types.OCrash
             | Some s => match Types.wrap_all ns s with
                         | None => Types.OCrash
                         | Some ns' => Types.ONode (mk (comp s) ns') err
                         end
             end
      end
  end.

(* the node parseExpr builds for a tree (Types.tc on Pratt trees, with the types of variables and
   calls read from the environment) *)
Fixpoint tc_tree (G : tenv) (t : tree) {struct t} : Types.outcome :=
  match t with
  | TNum _ => Types.ONode (Types.NLeaf Types.TNum) false
  | TStr _ => Types.ONode (Types.NLeaf Types.TString) false
  | TBool _ => Types.ONode (Types.NLeaf Types.TBool) false
  | TVar n => match tlookup n (te_vars G) with                    (* lookupVar: a copy of the Var, type T *)
              | Some ty => Types.ONode (Types.NLeaf ty) false
              | None => Types.OCrash
              end
  | TCall n _ => match assoc n (te_sigs G) with                   (* FuncCall.Type() = fixedType(FuncDef.ReturnType) *)
                 | Some sg => Types.ONode (Types.NLeaf (Types.fixed_type (fs_ret sg))) false
                 | None => Types.OCrash
                 end
  | TArr els => tc_lit Types.NArrLit Types.TEmptyArr (Types.TArr false) (map (tc_tree G) els)
  | TMap ps => tc_lit Types.NMapLit Types.TEmptyMap (Types.TMap false) (map (fun kv => tc_tree G (snd kv)) ps)
  | TBin op l r =>
      match binop_of op with
      | None => Types.ONil                                             (* "invalid binary operator" *)
      | Some o =>
        Types.bind_node (tc_tree G l) (fun ln le =>
        Types.bind_node (tc_tree G r) (fun rn re =>
          let lt := Types.node_type ln in
          let rt := Types.node_type rn in
          if Types.validate_binary o lt rt then Types.ONode (Types.NBin (Types.binary_node_type o lt rt) o ln rn) (le || re)
          else Types.ONil))
      end
  | TUn op r =>
      match unop_of op with
      | None => Types.ONil
      | Some o =>
        Types.bind_node (tc_tree G r) (fun rn re =>
          if Types.validate_unary o (Types.node_type rn) then Types.ONode (Types.NLeaf (Types.node_type rn)) re else Types.ONil)
      end
  | TGroup g => Types.bind_node (tc_tree G g) (fun gn ge => Types.ONode (Types.NGroup gn) ge)
  | TIndex l i =>
      Types.bind_node (tc_tree G l) (fun ln le =>
        let lt := Types.node_type ln in
        if negb (Types.is_array_name lt || Types.is_map_name lt || Types.is_string lt) then Types.ONil
        else Types.bind_node (tc_tree G i) (fun inode ie =>
          match Types.index_type lt (Types.node_type inode) with
          | Some t => match Types.infer t with
                      | Some t' => Types.ONode (Types.NLeaf (Types.fixed_type t')) (le || ie)
                      | None => Types.OCrash
                      end
          | None => if Types.is_generic lt then Types.OCrash else Types.ONil
          end))
  | TSlice l s e' =>
      Types.bind_node (tc_tree G l) (fun ln le =>
        let lt := Types.node_type ln in
        if negb (Types.is_array_name lt || Types.is_map_name lt || Types.is_string lt) then Types.ONil
        else
          let so := match s with Some x => Some (tc_tree G x) | None => None end in
          match so with
          | Some Types.ONil => Types.ONil
          | Some Types.OCrash => Types.OCrash
          | _ =>
              if negb (Types.is_array_name lt || Types.is_string lt) then Types.ONil
              else
                let eo := match e' with Some x => Some (tc_tree G x) | None => None end in
                match eo with
                | Some Types.ONil => Types.ONil
                | Some Types.OCrash => Types.OCrash
                | _ =>
                    let errs := le || match so with Some (Types.ONode _ x) => x | _ => false end
                                   || match eo with Some (Types.ONode _ x) => x | _ => false end in
                    let st := match so with Some (Types.ONode n _) => Some (Types.node_type n) | _ => None end in
                    let et := match eo with Some (Types.ONode n _) => Some (Types.node_type n) | _ => None end in
                    match Types.slice_type lt st et with
                    | Some t => Types.ONode (Types.NSlice t ln) errs
                    | None => Types.ONil
                    end
                end
          end)
  | TDot l _ =>
      Types.bind_node (tc_tree G l) (fun ln le =>
        match Types.dot_type (Types.node_type ln) with
        | Some t => match Types.infer t with
                    | Some t' => Types.ONode (Types.NLeaf (Types.fixed_type t')) le
                    | None => Types.OCrash
                    end
        | None => if Types.is_generic (Types.node_type ln) then Types.OCrash else Types.ONil
        end)
  | TAssert a (Some t) =>
      Types.bind_node (tc_tree G a) (fun an ae =>
        Types.ONode (Types.NLeaf (Types.fixed_type (conv t))) (ae || negb (Types.validate_assert (Types.node_type an) (conv t))))
  | TAssert _ None => Types.ONil                                       (* if t == nil { return nil } *)
  end.

(* Node.Type() of the node built for a tree; None = no node (nil / panic / a name without a type) *)
Definition ty_of (G : tenv) (t : tree) : option vty :=
  match tc_tree G t with Types.ONode n _ => Some (Types.node_type n) | _ => None end.

Definition obind {A B} (o : option A) (k : A -> option B) : option B :=
  match o with Some a => k a | None => None end.

Fixpoint tys_of (G : tenv) (l : list tree) : option (list vty) :=
  match l with
  | [] => Some []
  | t :: r => obind (ty_of G t) (fun a => obind (tys_of G r) (fun b => Some (a :: b)))
  end.

(* assertArgTypes, the argument types (the count is checked before, Pratt.arity_wrong): true = an error is appended *)
Fixpoint args_bad (ps : list vty) (ats : list vty) : option bool :=
  match ps, ats with
  | [], [] => Some false
  | p :: ps', a :: ats' => obind (args_bad ps' ats') (fun b => Some (negb (Types.accepts p a) || b))
  | _, _ => None
  end.

(* parseStepRange on the operand types: true = an error is appended (blamed: the `range` token) *)
Definition step_range_bad (ts : list vty) : bool :=
  Nat.ltb 3 (List.length ts) || negb (forallb Types.is_num (firstn 3 ts)).

(* the kind of range statement the operand types select *)
Inductive range_kind := RK_iter | RK_step | RK_bad.
Definition range_kind_of (t : vty) : range_kind :=
  match Types.name t with
  | STRING | MAP | ARRAY => RK_iter
  | NUM => RK_step
  | _ => RK_bad
  end.

(* What every typing site asks, answered: Some true = the type checker appends an error there.
   [rho] = p.scope.returnType (None = nil). *)
Definition oracle3 (G : tenv) (rho : option vty) (site : tsite) (t : tree) : option bool :=
  match site with
  | TS_unary =>                                     (* validateUnaryType *)
      match t with
      | TUn op r => obind (ty_of G r) (fun rt =>
                      Some (match unop_of op with Some o => negb (Types.validate_unary o rt) | None => true end))
      | _ => None
      end
  | TS_binary =>                                    (* validateBinaryType *)
      match t with
      | TBin op l r => obind (ty_of G l) (fun lt => obind (ty_of G r) (fun rt =>
                         Some (match binop_of op with Some o => negb (Types.validate_binary o lt rt) | None => true end)))
      | _ => None
      end
  | TS_not_indexable =>                             (* parseIndexOrSliceExpr: leftType != ARRAY && != MAP && != STRING *)
      obind (ty_of G t) (fun lt => Some (negb (Types.is_array_name lt || Types.is_map_name lt || Types.is_string lt)))
  | TS_index_type =>                                (* validateIndex *)
      match t with
      | TIndex l i => obind (ty_of G l) (fun lt => obind (ty_of G i) (fun it =>
                        Some (((Types.is_array_name lt || Types.is_string lt) && negb (Types.is_num it))
                              || (Types.is_map_name lt && negb (Types.is_string it)))))
      | _ => None
      end
  | TS_not_sliceable =>                             (* parseSlice: leftType != ARRAY && != STRING *)
      obind (ty_of G t) (fun lt => Some (negb (Types.is_array_name lt || Types.is_string lt)))
  | TS_slice_bounds =>                              (* parseSlice: start / end != NUM_TYPE *)
      match t with
      | TSlice _ s e =>
          let bad (o : option tree) : option bool :=
            match o with None => Some false | Some x => obind (ty_of G x) (fun xt => Some (negb (Types.is_num xt))) end in
          obind (bad s) (fun a => obind (bad e) (fun b => Some (a || b)))
      | _ => None
      end
  | TS_dot_not_map => obind (ty_of G t) (fun lt => Some (negb (Types.is_map_name lt)))
  | TS_assert_not_any => obind (ty_of G t) (fun lt => Some (negb (Types.is_any lt)))
  | TS_array_elem_none | TS_map_value_none | TS_decl_none => obind (ty_of G t) (fun vt => Some (Types.is_none vt))
  | TS_call_args =>                                 (* assertArgTypes *)
      match t with
      | TCall name args =>
          obind (assoc name (te_sigs G)) (fun sg => obind (tys_of G args) (fun ats =>
            match fs_variadic sg with
            | Some pt => Some (existsb (fun a => negb (Types.accepts pt a)) ats)
            | None => args_bad (fs_params sg) ats
            end))
      | _ => None
      end
  | TS_assign_string_index => obind (ty_of G t) (fun nt => Some (Types.is_string nt))
  | TS_assign_type =>                               (* target.Type().accepts(value.Type()) *)
      match t with
      | TBin _ target value => obind (ty_of G target) (fun tt => obind (ty_of G value) (fun vt => Some (negb (Types.accepts tt vt))))
      | _ => None
      end
  | TS_return_type =>                               (* p.scope.returnType.accepts(ret.T) *)
      obind rho (fun r => obind (ty_of G t) (fun vt => Some (negb (Types.accepts r vt))))
  | TS_for_multi => obind (ty_of G t) (fun nt => Some (negb (Types.name_eqb (Types.name nt) NUM)))
  | TS_for_range_type =>                            (* the switch of parseForStatement + parseStepRange *)
      match t with
      | TCall _ nodes =>
          obind (tys_of G nodes) (fun ts =>
            match ts with
            | [] => None
            | t0 :: _ => Some (match range_kind_of t0 with RK_iter => false | RK_step => step_range_bad ts | RK_bad => true end)
            end)
      | _ => None
      end
  | TS_condition => obind (ty_of G t) (fun ct => Some (negb (Types.is_bool ct)))
  | TS_event_param => None                          (* not consulted by Parser.v (decided there on the declared types) *)
  end.

(* the oracle in the shape Parser.v wants; [d] answers where the typing function is undefined *)
Definition coracle (d : bool) (G : tenv) (rho : option vty) (site : tsite) (t : tree) (_ : nat) : bool :=
  match oracle3 G rho site t with Some b => b | None => d end.

(* ---------- the typed run ---------- *)
(* what the parser keeps besides Parser.pst: the types of the variables of the scope chain (parallel to
   scs), the return type of the scope (inherited by inner scopes), and the `range` tokens blamed by
   parseStepRange, keyed by the position Parser.v reports that error at *)
Record tinfo := { ti_vars : list (list (str * vty)); ti_ret : option vty; ti_step : list (nat * nat) }.

Definition tpush (ti : tinfo) : tinfo := {| ti_vars := [] :: ti_vars ti; ti_ret := ti_ret ti; ti_step := ti_step ti |}.
Definition tpop (ti : tinfo) : tinfo := {| ti_vars := tl (ti_vars ti); ti_ret := ti_ret ti; ti_step := ti_step ti |}.
Definition tset_ret (r : option vty) (ti : tinfo) : tinfo := {| ti_vars := ti_vars ti; ti_ret := r; ti_step := ti_step ti |}.
(* scope.set *)
Definition tadd (n : str) (t : vty) (ti : tinfo) : tinfo :=
  if str_eqb n (s_ "_") then ti else
  match ti_vars ti with
  | [] => ti
  | sc :: r => {| ti_vars := ((n, t) :: sc) :: r; ti_ret := ti_ret ti; ti_step := ti_step ti |}
  end.
Definition tadd_step (at_ tok : nat) (ti : tinfo) : tinfo :=
  {| ti_vars := ti_vars ti; ti_ret := ti_ret ti; ti_step := (at_, tok) :: ti_step ti |}.

Section Typed.
Variable Bs : benv.                       (* the builtin tables; its b_tyerr is not used *)
Variable dflt : bool.                     (* the answer where the typing function is undefined *)
Variable sigs : list (str * fsig).        (* p.funcs with types *)

Definition env_of_ti (ti : tinfo) : tenv := {| te_vars := ti_vars ti; te_sigs := sigs |}.

(* the builtin record whose oracle is the concrete one, closed over the typing environment *)
Definition BT (ti : tinfo) : benv :=
  {| b_funcs := b_funcs Bs; b_arity := b_arity Bs; b_globals := b_globals Bs; b_events := b_events Bs;
     b_tyerr := coracle dflt (env_of_ti ti) (ti_ret ti) |}.

(* the type environment after a simple statement: the declarations put a variable into the scope *)
Definition post_simple (ti : tinfo) (s s' : pst) (r : option stmt) : tinfo :=
  match r with
  | Some (STypedDecl name (Some t)) =>                       (* decl.Var.T = fixedType(v), if scope.set was reached *)
      if negb (in_local name s) && in_local name s' then tadd name (Types.fixed_type (conv t)) ti else ti
  | Some (SInferredDecl name v) =>                           (* decl.Var.T = fixedType(val.Type().infer()) *)
      match obind (ty_of (env_of_ti ti) v) Types.infer with
      | Some vt => tadd name (Types.fixed_type vt) ti
      | None => tadd name Types.TNone ti                         (* undefined: every later use is undefined or an error, see dflt *)
      end
  | _ => ti
  end.

Section TOpen.
Variable tps : pst -> tinfo -> PR (option stmt * tinfo).

(* parseBlockWithEndTokens: the loop *)
Fixpoint tblock_loop (fuel : nat) (els : bool) (acc : list stmt) (terms : bool) (s : pst) (ti : tinfo) : PR (block * tinfo) :=
  match fuel with
  | 0 => Oof
  | S f =>
    let at_end := match ct s with T_END | T_EOF => true | T_ELSE => els | _ => false end in
    if at_end then Ok (Block (rev acc) terms, ti) s else
    let tok := pos s in
    pdo (r, s1) <- tps s ti;
    match r with
    | (None, ti1) => tblock_loop f els acc terms s1 ti1
    | (Some st, ti1) =>
      if terms && negb (is_empty_stmt st) then tblock_loop f els acc terms (serr_at K_unreachable tok s1) ti1
      else tblock_loop f els (st :: acc) (terms || always_terms st) s1 ti1
    end
  end.

Definition tparse_block_with (fuel : nat) (els : bool) (s : pst) (ti : tinfo) : PR (block * tinfo) :=
  let btok := pos s in
  pdo (r, s1) <- tblock_loop fuel els [] false s ti;
  let '(b, ti1) := r in
  let s2 := match b with Block [] _ => serr_at K_empty_block btok s1 | _ => s1 end in
  Ok (b, ti1) (validate_scope s2).

(* parseForStatement *)
Definition tparse_for_stmt (fuel : nat) (s : pst) (ti : tinfo) : PR (option stmt * tinfo) :=
  let s1 := adv (push_inherit true s) in
  let ti1 := tpush ti in
  let lv : option (option str) * pst :=
    match ct s1 with
    | T_IDENT =>
        let name := tlit (cur (cs s1)) in
        let '(ok, s2) := validate_var_decl Bs name (pos s1) false s1 in
        if ok then (Some (Some name), adv (snd (passert T_DECLARE (adv (scope_set name (pos s1) s2)))))
        else (None, s2)
    | _ => (Some None, s1)
    end in
  match lv with
  | (None, s2) => Ok (None, tpop ti1) (pop_scope (apnl s2))
  | (Some v, s4) =>
    (* forNode.LoopVar = &Var{..., T: NONE_TYPE}: in scope while the range operands are parsed *)
    let ti2 := match v with Some name => tadd name Types.TNone ti1 | None => ti1 end in
    let B := BT ti2 in
    let '(ok, s5) := passert T_RANGE s4 in
    if negb ok then Ok (None, tpop ti2) (pop_scope (apnl s5)) else
    let rtok := pos s5 in
    let s6 := adv s5 in
    pdo (ns, s7) <- p_expr_list B s6;
    let nodes := match ns with Some l => l | None => [] end in
    match nodes with
    | [] => Ok (None, tpop ti2) (pop_scope (serr K_range_empty s7))
    | n :: more =>
      if (match more with [] => false | _ => true end) && tyerr_s B TS_for_multi n (pos s7)
      then Ok (None, tpop ti2) (pop_scope (ty_err_here TS_for_multi s7)) else
      let s8 := assert_eol s7 in
      let bad := tyerr_s B TS_for_range_type (TCall [] nodes) (pos s8) in
      let s9 := if bad then ty_err_here TS_for_range_type s8 else s8 in
      let nt := ty_of (env_of_ti ti2) n in
      let kind := match nt with Some t => range_kind_of t | None => RK_bad end in
      (* an error of parseStepRange blames the `range` token *)
      let ti3 := if bad && (match kind with RK_step => true | _ => false end) then tadd_step (pos s8) rtok ti2 else ti2 in
      (* forNode.LoopVar.T *)
      let ti4 := match v, nt with
                 | Some name, Some t =>
                     match Types.range_var_type t with
                     | Some (Some vt) => tadd name vt ti3
                     | _ => ti3
                     end
                 | _, _ => ti3
                 end in
      pdo (r, s10) <- tparse_block_with fuel false (apnl s9) ti4;
      let '(b, ti5) := r in
      Ok (Some (SFor v nodes b), tpop ti5) (pop_scope (finish_end s10))
    end
  end.

(* parseWhileStatement *)
Definition tparse_while_stmt (fuel : nat) (s : pst) (ti : tinfo) : PR (option stmt * tinfo) :=
  let s1 := push_inherit true (adv s) in
  let ti1 := tpush ti in
  pdo (c, s2) <- parse_condition (BT ti1) s1;
  pdo (r, s3) <- tparse_block_with fuel false (apnl s2) ti1;
  let '(b, ti2) := r in
  Ok (Some (SWhile c b), tpop ti2) (pop_scope (finish_end s3)).

(* parseIfConditionalBlock *)
Definition tparse_if_cond_block (fuel : nat) (s : pst) (ti : tinfo) : PR (option tree * block * tinfo) :=
  let s1 := adv (push_inherit false s) in
  let ti1 := tpush ti in
  pdo (c, s2) <- parse_condition (BT ti1) s1;
  pdo (r, s3) <- tparse_block_with fuel true (apnl s2) ti1;
  let '(b, ti2) := r in
  Ok (c, b, tpop ti2) (pop_scope s3).

Fixpoint telse_if_loop (fuel : nat) (bfuel : nat) (acc : list (option tree * block)) (s : pst) (ti : tinfo)
  : PR (list (option tree * block) * tinfo) :=
  match fuel with
  | 0 => Oof
  | S f =>
    match ct s, ttype (peek (cs s)) with
    | T_ELSE, T_IF =>
        pdo (r, s1) <- tparse_if_cond_block bfuel (adv s) ti;
        let '(c, b, ti1) := r in
        telse_if_loop f bfuel ((c, b) :: acc) s1 ti1
    | _, _ => Ok (rev acc, ti) s
    end
  end.

(* parseIfStatement *)
Definition tparse_if_stmt (fuel : nat) (s : pst) (ti : tinfo) : PR (option stmt * tinfo) :=
  pdo (r, s1) <- tparse_if_cond_block fuel s ti;
  let '(c, b, ti1) := r in
  pdo (r2, s2) <- telse_if_loop (S (pos s1)) fuel [(c, b)] s1 ti1;
  let '(brs, ti2) := r2 in
  pdo (r3, s3) <- (match ct s2 with
                   | T_ELSE =>
                       let s3 := push_inherit false (apnl (assert_eol (adv s2))) in
                       pdo (r, s4) <- tparse_block_with fuel false s3 (tpush ti2);
                       let '(b, ti3) := r in
                       Ok (Some b, tpop ti3) (pop_scope s4)
                   | _ => Ok (None, ti2) s2
                   end);
  let '(els, ti3) := r3 in
  Ok (Some (SIf brs els), ti3) (finish_end s3).

(* parseStatement: the simple statements are Parser.parse_statement_body with the concrete oracle of this
   point of the program ([ps] is not reached by them) *)
Definition tparse_statement_body (fuel : nat) (s : pst) (ti : tinfo) : PR (option stmt * tinfo) :=
  match ct s with
  | T_FOR => tparse_for_stmt fuel s ti
  | T_WHILE => tparse_while_stmt fuel s ti
  | T_IF => tparse_if_stmt fuel s ti
  | _ =>
      pdo (r, s1) <- parse_statement_body (BT ti) (fun _ => Oof) fuel s;
      Ok (r, post_simple ti s s1 r) s1
  end.

End TOpen.

Fixpoint tparse_statement (fuel : nat) (s : pst) (ti : tinfo) : PR (option stmt * tinfo) :=
  match fuel with
  | 0 => Oof
  | S f => tparse_statement_body (tparse_statement f) f s ti
  end.

Definition tparse_block (fuel : nat) (s : pst) (ti : tinfo) : PR (block * tinfo) :=
  tparse_block_with (tparse_statement fuel) fuel false s ti.

(* addParamsToScope, the types: Params as declared (fixedType(v)), the variadic parameter as an array *)
Definition param_types (sg : fsig) : list vty :=
  match fs_variadic sg with
  | Some pt => [Types.TArr true pt]
  | None => fs_params sg
  end.
Fixpoint tadd_params (names : list (str * nat)) (tys : list vty) (ti : tinfo) : tinfo :=
  match names, tys with
  | (n, _) :: names', t :: tys' => tadd_params names' tys' (tadd n t ti)
  | (n, _) :: names', [] => tadd_params names' [] (tadd n Types.TNone ti)
  | [], _ => ti
  end.

(* parseFunc *)
Definition tparse_func (fuel : nat) (s : pst) (ti : tinfo) : PR (option stmt * tinfo) :=
  let s1 := adv s in
  let is_ident := match ct s1 with T_IDENT => true | _ => false end in
  let name := tlit (cur (cs s1)) in
  let s2 := apnl s1 in
  let found := if is_ident then lookup_fn name (fns s2) else None in
  let fi := match found with
            | Some fi => fi
            | None => {| fi_nil := true; fi_ret := false; fi_arity := Some 0; fi_params := [] |}
            end in
  let sg := match found, assoc name sigs with
            | Some _, Some sg => sg
            | _, _ => {| fs_params := []; fs_variadic := None; fs_ret := Types.TNone |}
            end in
  let s3 := add_params Bs (fi_params fi) (push_scope true (fi_ret fi) false s2) in
  let ti3 := tadd_params (fi_params fi) (param_types sg) (tset_ret (Some (fs_ret sg)) (tpush ti)) in
  pdo (r, s4) <- tparse_block fuel s3 ti3;
  let '(b, ti4) := r in
  let ti5 := tset_ret (ti_ret ti) (tpop ti4) in
  if negb is_ident then Ok (None, ti5) (pop_scope s4)
  else if mem_str name (bodies s4) then Ok (None, ti5) (pop_scope (serr K_redecl_func_body s4))
  else
    let s5 := if fi_ret fi && negb (block_terms b) then serr K_missing_return s4 else s4 in
    let s6 := finish_end s5 in
    Ok (Some (SFunc name (fi_ret fi) (map fst (fi_params fi)) b), ti5)
       (pop_scope {| cs := cs s6; scs := scs s6; fns := fns s6; bodies := name :: bodies s6; hds := hds s6 |}).

(* addEventParamsToScope, the types: the declared type, the expected one when the declaration is invalid *)
Fixpoint tadd_event_params (ps : list (str * nat * option Pratt.ty)) (ex : list Pratt.ty) (ti : tinfo) : tinfo :=
  match ps, ex with
  | (n, _, t) :: ps', e :: ex' =>
      tadd_event_params ps' ex' (tadd n (match t with Some t' => Types.fixed_type (conv t') | None => conv e end) ti)
  | _, _ => ti
  end.

(* parseEventHandler *)
Definition tparse_event_handler (fuel : nat) (s : pst) (ti : tinfo) : PR (option stmt * tinfo) :=
  let s1 := adv s in
  let '(ok, s2) := passert T_IDENT s1 in
  if negb ok then Ok (None, ti) (apnl s2) else
  let name := tlit (cur (cs s2)) in
  let ev := lookup_ev name (b_events Bs) in
  let s3 := if mem_str name (hds s2) then serr K_redecl_on s2
            else match ev with
                 | None => serr K_unknown_event s2
                 | Some _ => {| cs := cs s2; scs := scs s2; fns := fns s2; bodies := bodies s2; hds := name :: hds s2 |}
                 end in
  pdo (params, s4) <- on_params_loop Bs (S (pos s3)) [] (adv s3);
  let s5 := push_scope true false false (apnl s4) in
  let ti5 := tset_ret (Some Types.TNone) (tpush ti) in
  let '(s6, ti6) := match params, ev with
                    | _ :: _, Some ex =>
                        let s' := if Nat.eqb (List.length params) (List.length ex) then s5 else serr K_event_param_count s5 in
                        (add_event_params Bs params ex s', tadd_event_params params ex ti5)
                    | _, _ => (s5, ti5)
                    end in
  pdo (r, s7) <- tparse_block fuel s6 ti6;
  let '(b, ti7) := r in
  Ok (Some (SOn name (map (fun d => fst (fst d)) params) b), tset_ret (ti_ret ti) (tpop ti7)) (pop_scope (finish_end s7)).

(* parseProgram: the statement loop *)
Fixpoint tprogram_loop (fuel : nat) (acc : list stmt) (terms : bool) (s : pst) (ti : tinfo) : PR (list stmt * tinfo) :=
  match fuel with
  | 0 => Oof
  | S f =>
    match ct s with
    | T_EOF => Ok (rev acc, ti) s
    | T_FUNC =>
        pdo (r, s1) <- tparse_func f s ti;
        let '(st, ti1) := r in
        tprogram_loop f (match st with Some st => st :: acc | None => acc end) terms s1 ti1
    | T_ON =>
        pdo (r, s1) <- tparse_event_handler f s ti;
        let '(st, ti1) := r in
        tprogram_loop f (match st with Some st => st :: acc | None => acc end) terms s1 ti1
    | _ =>
        let tok := pos s in
        pdo (r, s1) <- tparse_statement f s ti;
        match r with
        | (None, ti1) => tprogram_loop f acc terms s1 ti1
        | (Some st, ti1) =>
          if terms then tprogram_loop f acc terms (serr_at K_unreachable tok s1) ti1
          else tprogram_loop f (st :: acc) (always_terms st) s1 ti1
        end
    end
  end.

End Typed.

(* ---------- the signature pre-pass, with types ---------- *)
Section Sigs.
Variable Bs : benv.

Fixpoint tsig_params_loop (fuel : nat) (acc : list (option Pratt.ty)) (s : pst) : PR (list (option Pratt.ty)) :=
  match fuel with
  | 0 => Oof
  | S f =>
    if is_at_eol (cs s) || (match ct s with T_DOT3 => true | _ => false end) then Ok (rev acc) s else
    pdo (d, s1) <- parse_typed_decl Bs (snd (passert T_IDENT s));
    let '(_, _, t) := d in
    tsig_params_loop f (t :: acc) s1
  end.

Definition oconv (t : option Pratt.ty) : vty := match t with Some t' => conv t' | None => Types.TNone end.

(* parseFuncDefSignature: name and types (the errors are those of Parser.parse_func_def_signature) *)
Definition tparse_sig (s : pst) : PR (option (str * fsig)) :=
  let s1 := adv s in
  let '(ok, s2) := passert T_IDENT s1 in
  if negb ok then Ok None s2 else
  let name := tlit (cur (cs s2)) in
  let s3 := adv s2 in
  pdo (ret, s4) <- (match ct s3 with
                    | T_COLON => pdo (t, s5) <- p_type Bs (adv s3); Ok (oconv t) s5
                    | _ => Ok Types.TNone s3
                    end);
  pdo (params, s5) <- tsig_params_loop (S (pos s4)) [] s4;
  let variadic := match ct s5 with T_DOT3 => Nat.eqb (List.length params) 1 | _ => false end in
  let ptys := map (fun t => Types.fixed_type (oconv t)) params in       (* decl.Var.T = fixedType(v) *)
  Ok (Some (name, if variadic then {| fs_params := []; fs_variadic := Some (hd Types.TNone ptys); fs_ret := ret |}
                  else {| fs_params := ptys; fs_variadic := None; fs_ret := ret |})) s5.

(* parseFuncSignatures: a later signature of the same name replaces the earlier one *)
Fixpoint tsignatures (pv : token) (toks : list token) (s : pst) (acc : list (str * fsig)) : PR (list (str * fsig)) :=
  match toks with
  | [] => Ok acc s
  | t :: r =>
    match ttype t with
    | T_FUNC =>
        pdo (x, _s1) <- tparse_sig (with_cs s (state_at pv toks []));
        tsignatures t r s (match x with Some e => e :: acc | None => acc end)
    | _ => tsignatures t r s acc
    end
  end.

End Sigs.

(* ---------- Parse, typed ---------- *)
Inductive toutcome :=
| TAccept
| TReject (illegal : list position) (errors : list (perr * nat)) (steps : list (nat * nat))   (* in the order Go reports them *)
| TCrashOut
| TOutOfFuel.

(* [globals]: builtins.Globals with their types; [bsigs]: builtins.Funcs with their types *)
Definition tparse (Bs : benv) (globals : list (str * vty)) (bsigs : list (str * fsig)) (dflt : bool)
                  (raw : list (token * position)) : toutcome :=
  let illegal := map snd (filter (fun tp => is_illegal (fst tp)) raw) in
  let toks := legal_toks raw in
  let s0 := newparser_state Bs toks in
  match signatures Bs tEOF toks s0, tsignatures Bs tEOF toks s0 [] with
  | Crash _, _ | _, Crash _ => TCrashOut
  | Oof, _ | _, Oof => TOutOfFuel
  | Ok _ s1, Ok usigs _ =>
    match illegal, errs (cs s1) with
    | [], [] =>
      let s2 := {| cs := state_at tEOF toks []; scs := [globals_scope Bs]; fns := fns s1; bodies := []; hds := [] |} in
      let ti := {| ti_vars := [globals]; ti_ret := None; ti_step := [] |} in
      match tprogram_loop Bs dflt (usigs ++ bsigs) (fuel_of toks) [] false s2 ti with
      | Crash _ => TCrashOut
      | Oof => TOutOfFuel
      | Ok (_, ti3) s3 =>
        let s4 := validate_scope s3 in
        match errs (cs s4) with
        | [] => TAccept
        | es => TReject [] (rev es) (ti_step ti3)
        end
      end
    | _, es => TReject illegal (rev es) []
    end
  end.

Definition perr_is_type (e : perr) : option tsite := match e with E_type s => Some s | _ => None end.

Definition tsite_eqb (a b : tsite) : bool := String.eqb (tsite_name a) (tsite_name b).

(* the typing errors of a typed run, as (site, blamed token) *)
Definition type_errors (es : list (perr * nat)) : list (tsite * nat) :=
  flat_map (fun e => match perr_is_type (fst e) with Some s => [(s, snd e)] | None => [] end) es.

(* the oracle "the typed run reported a typing error at this site for this token" *)
Definition derived_oracle (tes : list (tsite * nat)) (site : tsite) (_ : tree) (n : nat) : bool :=
  existsb (fun e => tsite_eqb (fst e) site && Nat.eqb (snd e) n) tes.

Definition with_oracle (Bs : benv) (o : tsite -> tree -> nat -> bool) : benv :=
  {| b_funcs := b_funcs Bs; b_arity := b_arity Bs; b_globals := b_globals Bs; b_events := b_events Bs; b_tyerr := o |}.

(* the benv of the concrete run of Parser.parse on [raw] *)
Definition typed_benv (Bs : benv) (globals : list (str * vty)) (bsigs : list (str * fsig)) (raw : list (token * position)) : benv :=
  with_oracle Bs (derived_oracle (match tparse Bs globals bsigs false raw with
                                  | TReject _ es _ => type_errors es
                                  | _ => []
                                  end)).

(* Parser.parse with the concrete oracle *)
Definition typed_parse (Bs : benv) (globals : list (str * vty)) (bsigs : list (str * fsig))
                       (raw : list (token * position)) (eof : position) : outcome :=
  parse (typed_benv Bs globals bsigs raw) raw eof.

(* ---------- the answer ---------- *)
Inductive located :=
| L_at (p : position)        (* an error at this token *)
| L_arity                    (* assertArgTypes, the argument count: blamed token not mirrored *)
| L_args.                    (* assertArgTypes, the argument types: blamed tokens not mirrored, one marker per call *)

Inductive answer :=
| A_accept
| A_reject (es : list located)
| A_unsupported (why : string)
| A_crash
| A_oof.

Definition locate_err (poss : list position) (eof : position) (steps : list (nat * nat)) (e : perr * nat) : located :=
  match fst e with
  | E_arity => L_arity
  | E_type TS_call_args => L_args
  | E_type TS_for_range_type =>
      match find (fun st => Nat.eqb (fst st) (snd e)) steps with
      | Some st => L_at (locate poss eof (snd st))
      | None => L_at (locate poss eof (snd e))
      end
  | _ => L_at (locate poss eof (snd e))
  end.

(* the positions Parser.parse reports for an error list *)
Definition plain_positions (poss : list position) (eof : position) (es : list (perr * nat)) : list position :=
  map (fun e : perr * nat => match fst e with E_arity => (0, 0) | _ => locate poss eof (snd e) end) es.

Fixpoint pos_list_eqb (a b : list position) : bool :=
  match a, b with
  | [], [] => true
  | (x1, y1) :: a', (x2, y2) :: b' => Nat.eqb x1 x2 && Nat.eqb y1 y2 && pos_list_eqb a' b'
  | _, _ => false
  end.

Fixpoint perr_list_eqb (a b : list (perr * nat)) : bool :=
  match a, b with
  | [], [] => true
  | (e1, n1) :: a', (e2, n2) :: b' =>
      Nat.eqb n1 n2 &&
      (match e1, e2 with
       | E_type s1, E_type s2 => tsite_eqb s1 s2
       | E_stmt k1, E_stmt k2 => Nat.eqb k1 k2
       | E_type _, _ | _, E_type _ | E_stmt _, _ | _, E_stmt _ => false
       | _, _ => true        (* the expression-level syntax errors: compared by position *)
       end) && perr_list_eqb a' b'
  | _, _ => false
  end.

Definition toutcome_eqb (a b : toutcome) : bool :=
  match a, b with
  | TAccept, TAccept | TCrashOut, TCrashOut | TOutOfFuel, TOutOfFuel => true
  | TReject i1 e1 _, TReject i2 e2 _ => pos_list_eqb i1 i2 && perr_list_eqb e1 e2
  | _, _ => false
  end.

Definition typed_answer (Bs : benv) (globals : list (str * vty)) (bsigs : list (str * fsig))
                        (raw : list (token * position)) (eof : position) : answer :=
  let good := filter (fun tp => negb (is_illegal (fst tp))) raw in
  let poss := map snd good in
  let run := tparse Bs globals bsigs false raw in
  (* the typing function was undefined somewhere that matters: the two default answers part ways *)
  if negb (toutcome_eqb run (tparse Bs globals bsigs true raw)) then A_unsupported "typing undefined" else
  match run, typed_parse Bs globals bsigs raw eof with
  | TAccept, Accept _ => A_accept
  | TReject illegal es steps, Reject ps =>
      if pos_list_eqb ps (illegal ++ plain_positions poss eof es)
      then A_reject (map L_at illegal ++ map (locate_err poss eof steps) es)
      else A_unsupported "typed run and Parser.parse disagree"
  | TCrashOut, CrashOut _ => A_crash
  | TOutOfFuel, OutOfFuel => A_oof
  | _, _ => A_unsupported "typed run and Parser.parse disagree"
  end.

(* ---------- wire format ---------- *)
Definition decode_fsig (x : sx) : option (str * fsig) :=
  match x with
  | Lst [Str n; Lst ps; v; r] =>
      match Types.dec_tys ps, Types.dec_ty r with
      | Some pts, Some rt =>
          match v with
          | Sym _ => if sym_is v "novariadic" then Some (n, {| fs_params := pts; fs_variadic := None; fs_ret := rt |}) else None
          | Lst [vt] => match Types.dec_ty vt with
                        | Some vt' => Some (n, {| fs_params := pts; fs_variadic := Some vt'; fs_ret := rt |})
                        | None => None
                        end
          | _ => None
          end
      | _, _ => None
      end
  | _ => None
  end.

Definition decode_global (x : sx) : option (str * vty) :=
  match x with
  | Lst [Str n; t] => match Types.dec_ty t with Some t' => Some (n, t') | None => None end
  | _ => None
  end.

Definition located_sx (l : located) : sx :=
  match l with
  | L_at p => Lst [Sym (s_ "at"); sx_nat (fst p); sx_nat (snd p)]
  | L_arity => Lst [Sym (s_ "arity")]
  | L_args => Lst [Sym (s_ "args")]
  end.

(* case: (((fname niladic nparams|variadic) ...) ((global type) ...) ((event (ty ...)) ...) ((TYPE "lit" line col) ...)
          (eofline eofcol) ((fname (paramtype ...) novariadic|(type) rettype) ...))
   Nothing of the real parser's result is part of the case: the builtin tables and the tokens of the real lexer.
   answer: (accept) | (reject (at line col)|(arity)|(args) ...) | (unsupported "why") | (crash) | (oof) *)
Definition typed_case (x : sx) : sx :=
  match x with
  | Lst [Lst fs; Lst gs; Lst evs; Lst ts; Lst [Int el; Int ec]; Lst sgs] =>
    match decode_list decode_func_ar fs, decode_list decode_global gs, decode_list decode_event evs,
          decode_list decode_pos_token ts, decode_list decode_fsig sgs with
    | Some funcs, Some globals, Some events, Some raw, Some bsigs =>
      let Bs := {| b_funcs := map (fun x => (fst (fst x), snd (fst x))) funcs; b_arity := map (fun x => (fst (fst x), snd x)) funcs;
                   b_globals := map fst globals; b_events := events; b_tyerr := fun _ _ _ => false |} in
      match typed_answer Bs globals bsigs raw (Z.to_nat el, Z.to_nat ec) with
      | A_accept => Lst [Sym (s_ "accept")]
      | A_reject es => Lst (Sym (s_ "reject") :: map located_sx es)
      | A_unsupported why => Lst [Sym (s_ "unsupported"); Str (s_ why)]
      | A_crash => Lst [Sym (s_ "crash")]
      | A_oof => Lst [Sym (s_ "oof")]
      end
    | _, _, _, _, _ => Sym (s_ "bad-case")
    end
  | _ => Sym (s_ "bad-case")
  end.
