(* Base.v — shared vocabulary of all models: code-point strings, the generic
   S-expression type that is the wire format between the Go harness and the
   models (decoded *inside Coq*, so the OCaml driver needs no per-model glue),
   and IEEE-754 binary64 numbers as Coq primitive floats with exact
   bit-pattern conversions. *)
From Coq Require Import ZArith NArith List String Ascii Bool Floats.
Import ListNotations.
Open Scope Z_scope.

(* ---------- strings are lists of code points ---------- *)
Definition str := list N.

Definition s_ (x : string) : str :=
  List.map N_of_ascii (list_ascii_of_string x).

Fixpoint str_eqb (a b : str) : bool :=
  match a, b with
  | [], [] => true
  | x :: a', y :: b' => N.eqb x y && str_eqb a' b'
  | _, _ => false
  end.

Lemma str_eqb_eq a b : str_eqb a b = true <-> a = b.
Proof.
  revert b; induction a as [|x a IH]; intros [|y b]; simpl; split; intro H;
    try reflexivity; try discriminate.
  - apply andb_true_iff in H as [H1 H2]. apply N.eqb_eq in H1. apply IH in H2. congruence.
  - inversion H; subst. apply andb_true_iff; split; [apply N.eqb_refl | apply IH; reflexivity].
Qed.

Lemma str_eqb_refl a : str_eqb a a = true.
Proof. apply str_eqb_eq; reflexivity. Qed.

Lemma str_eqb_neq a b : str_eqb a b = false <-> a <> b.
Proof.
  split; intro H.
  - intro E. apply str_eqb_eq in E. congruence.
  - destruct (str_eqb a b) eqn:E; [|reflexivity]. apply str_eqb_eq in E. contradiction.
Qed.

Definition str_eq_dec (a b : str) : {a = b} + {a <> b}.
Proof. destruct (str_eqb a b) eqn:E; [left; apply str_eqb_eq; exact E | right; apply str_eqb_neq; exact E]. Defined.

(* lexicographic comparison on code points (what Go's string < does on valid
   UTF-8: byte-wise comparison of UTF-8 coincides with code-point order) *)
Fixpoint str_ltb (a b : str) : bool :=
  match a, b with
  | [], [] => false
  | [], _ :: _ => true
  | _ :: _, [] => false
  | x :: a', y :: b' => if N.ltb x y then true else if N.ltb y x then false else str_ltb a' b'
  end.

(* ---------- generic S-expressions (wire format) ---------- *)
Inductive sx : Type :=
| Sym (s : str)
| Str (s : str)
| Int (z : Z)
| Lst (l : list sx).

Definition sym_is (x : sx) (name : string) : bool :=
  match x with Sym s => str_eqb s (s_ name) | _ => false end.

Definition sx_bool (b : bool) : sx := Sym (s_ (if b then "true" else "false")).
Definition sx_nat (n : nat) : sx := Int (Z.of_nat n).

(* ---------- binary64 <-> bit pattern ---------- *)
Definition sf_of_bits (b : Z) : SpecFloat.spec_float :=
  let s := Z.testbit b 63 in
  let e := Z.land (Z.shiftr b 52) 2047 in
  let m := Z.land b (2^52 - 1) in
  if e =? 2047 then (if m =? 0 then SpecFloat.S754_infinity s else SpecFloat.S754_nan)
  else if e =? 0 then (if m =? 0 then SpecFloat.S754_zero s
                       else SpecFloat.S754_finite s (Z.to_pos m) (-1074))
  else SpecFloat.S754_finite s (Z.to_pos (m + 2^52)) (e - 1075).

Definition float_of_bits (b : Z) : float := SF2Prim (sf_of_bits b).

Definition sign_bit (s : bool) : Z := if s then 2^63 else 0.

(* NaN is canonicalised to the quiet NaN Go produces for 0/0 on amd64
   (0x7ff8000000000001 is what math.NaN() gives; the harness canonicalises
   every NaN to 0x7ff8000000000000 on both sides before comparing). *)
Definition bits_of_sf (f : SpecFloat.spec_float) : Z :=
  match f with
  | SpecFloat.S754_zero s => sign_bit s
  | SpecFloat.S754_infinity s => sign_bit s + 2047 * 2^52
  | SpecFloat.S754_nan => 2047 * 2^52 + 2^51
  | SpecFloat.S754_finite s m e =>
      let m := Z.pos m in
      if m <? 2^52 then sign_bit s + m
      else sign_bit s + (e + 1075) * 2^52 + (m - 2^52)
  end.

Definition bits_of_float (f : float) : Z := bits_of_sf (Prim2SF f).

Definition sx_float (f : float) : sx := Int (bits_of_float f).

Definition is_nan (f : float) : bool := negb (PrimFloat.eqb f f).

(* Integer-ness of a float, decoded from its SpecFloat form: [float_to_Z f]
   is [Some i] exactly when f is finite and denotes the integer i. *)
Definition float_to_Z (f : float) : option Z :=
  match Prim2SF f with
  | SpecFloat.S754_zero _ => Some 0
  | SpecFloat.S754_finite s m e =>
      let m := Z.pos m in
      let v := if 0 <=? e then Some (m * 2^e)
               else let d := 2^(-e) in if (m mod d) =? 0 then Some (m / d) else None in
      match v with Some v => Some (if s then - v else v) | None => None end
  | _ => None
  end.

(* float of a (small) integer; exact for |z| < 2^53 *)
Definition float_of_Z (z : Z) : float :=
  match z with
  | Z0 => 0%float
  | Zpos p => SF2Prim (SpecFloat.binary_normalize 53 1024 z 0 false)
  | Zneg p => SF2Prim (SpecFloat.binary_normalize 53 1024 z 0 false)
  end.

(* ---------- small list helpers used across models ---------- *)
Fixpoint remove_first (k : str) (l : list str) : list str :=
  match l with
  | [] => []
  | x :: t => if str_eqb x k then t else x :: remove_first k t
  end.

Fixpoint mem_str (k : str) (l : list str) : bool :=
  match l with [] => false | x :: t => str_eqb x k || mem_str k t end.

Lemma mem_str_In k l : mem_str k l = true <-> In k l.
Proof.
  induction l as [|x t IH]; simpl; [split; [discriminate | tauto]|].
  rewrite orb_true_iff, IH, str_eqb_eq. tauto.
Qed.
