(* Static.v — the type checker of pkg/parser (type.go, expression.go, parser.go:
   accepts / matches / wrapAny / validateBinaryType / assertArgTypes / ...) as a
   CERTIFICATE CHECKER on the exported, already annotated tree (Ast.v):
   [wt_program] re-checks every type annotation and every [EAny] wrapper the Go
   parser produced.  Executable, no proofs (see SemSound.v).

   The rules are the parser's, made strict where the parser is loose: after
   wrapAny the static type of a value and the type of the slot it flows into
   are *equal* in every tree the parser produces (literals are re-typed,
   non-any values are wrapped in Any), so the checker demands equality; the
   untyped literals [] and {} keep their own types TEmptyArr / TEmptyMap and
   only combine where the evaluator is safe.  A program the Go parser accepts
   and [wt_program] rejects is a candidate hole of the Go checker. *)
From Coq Require Import ZArith NArith List String Bool Floats.
From EvyV Require Import Base Num Ast Omap Sem.
Import ListNotations.
Open Scope Z_scope.

(* ---------- types ---------- *)
(* types an expression may have: built from num/string/bool/any/[]/{} and the
   untyped-literal types; never none or the generic parameter types *)
Fixpoint ty_value (t : ty) : bool :=
  match t with
  | TNum | TStr | TBool | TAny | TEmptyArr | TEmptyMap => true
  | TArr u | TMap u => ty_value u
  | TNone | TGenArr | TGenMap => false
  end.

(* types the type syntax can denote (declarations, parameters, assertions) *)
Fixpoint ty_proper (t : ty) : bool :=
  match t with
  | TNum | TStr | TBool | TAny => true
  | TArr u | TMap u => ty_proper u
  | _ => false
  end.

Fixpoint ty_depth (t : ty) : nat :=
  match t with TArr u | TMap u => S (ty_depth u) | _ => O end.

(* the model walks values with a fixed recursion budget (Sem.value_depth);
   annotations nested deeper than this are outside the checked subset *)
Definition max_ty_depth : nat := 64.

Definition ty_small (t : ty) : bool := Nat.leb (ty_depth t) max_ty_depth.
Definition ty_ann (t : ty) : bool := ty_value t && ty_small t.
Definition ty_decl (t : ty) : bool := ty_proper t && ty_small t.

Definition is_any (t : ty) : bool := match t with TAny => true | _ => false end.
Definition is_none (t : ty) : bool := match t with TNone => true | _ => false end.

(* operands of == / != : same kind at every level, an untyped literal type
   matching every composite of its kind (Type.matches) *)
Fixpoint ty_compat (a b : ty) : bool :=
  match a, b with
  | TNum, TNum | TStr, TStr | TBool, TBool | TAny, TAny => true      (* not none: validateBinaryType rejects NONE_TYPE operands (c2a6828) *)
  | TArr x, TArr y => ty_compat x y
  | TMap x, TMap y => ty_compat x y
  | TEmptyArr, TArr _ | TEmptyArr, TEmptyArr | TArr _, TEmptyArr => true
  | TEmptyMap, TMap _ | TEmptyMap, TEmptyMap | TMap _, TEmptyMap => true
  | _, _ => false
  end.

(* the operator table (validateBinaryType), with the result type the evaluator
   really produces: [] + a : type of a;  a + [] : type of a.  ([] * n, which
   the parser types as num, and slices of the untyped [] are not accepted.) *)
Definition bin_ty (op : binop) (a b : ty) : option ty :=
  match op with
  | BPlus =>
      match a, b with
      | TNum, TNum => Some TNum
      | TStr, TStr => Some TStr
      | TArr x, TArr y => if ty_eqb x y then Some a else None
      | TEmptyArr, TArr _ | TEmptyArr, TEmptyArr => Some b
      | TArr _, TEmptyArr => Some a
      | _, _ => None
      end
  | BMinus | BSlash | BPercent => match a, b with TNum, TNum => Some TNum | _, _ => None end
  | BAsterisk =>
      match a, b with
      | TNum, TNum => Some TNum
      | TArr _, TNum => Some a
      | _, _ => None
      end
  | BLt | BGt | BLtEq | BGtEq =>
      match a, b with TNum, TNum | TStr, TStr => Some TBool | _, _ => None end
  | BAnd | BOr => match a, b with TBool, TBool => Some TBool | _, _ => None end
  | BEq | BNotEq => if ty_compat a b then Some TBool else None
  end.

(* operators on the untyped [] whose result is the empty array: the parser annotates them with the
   type the context infers ([]any, or the declared array type), or leaves [] *)
Definition arrish (t : ty) : bool := match t with TArr _ | TEmptyArr => true | _ => false end.
Definition bin_empty (op : binop) (a b t : ty) : bool :=
  match op, a, b with
  | BPlus, TEmptyArr, TEmptyArr | BAsterisk, TEmptyArr, TNum => arrish t
  | _, _, _ => false
  end.

(* ---------- function signatures ---------- *)
Record fsig := mk_sig { fs_params : list ty; fs_var : option ty; fs_ret : ty }.

(* BuiltinDecls() of pkg/evaluator/builtin.go (dumped from the real table) *)
Definition builtin_sigs : list (str * fsig) := Eval compute in
  [(s_ "abs", mk_sig [TNum] None TNum);
   (s_ "atan2", mk_sig [TNum; TNum] None TNum);
   (s_ "ceil", mk_sig [TNum] None TNum);
   (s_ "circle", mk_sig [TNum] None TNone);
   (s_ "clear", mk_sig [] (Some TStr) TNone);
   (s_ "cls", mk_sig [] None TNone);
   (s_ "color", mk_sig [TStr] None TNone);
   (s_ "colour", mk_sig [TStr] None TNone);
   (s_ "cos", mk_sig [TNum] None TNum);
   (s_ "dash", mk_sig [] (Some TNum) TNone);
   (s_ "del", mk_sig [TGenMap; TStr] None TNone);
   (s_ "ellipse", mk_sig [] (Some TNum) TNone);
   (s_ "endswith", mk_sig [TStr; TStr] None TBool);
   (s_ "exit", mk_sig [TNum] None TNone);
   (s_ "fill", mk_sig [TStr] None TNone);
   (s_ "floor", mk_sig [TNum] None TNum);
   (s_ "font", mk_sig [(TMap TAny)] None TNone);
   (s_ "grid", mk_sig [] None TNone);
   (s_ "gridn", mk_sig [TNum; TStr] None TNone);
   (s_ "has", mk_sig [TGenMap; TStr] None TBool);
   (s_ "hsl", mk_sig [] (Some TNum) TStr);
   (s_ "index", mk_sig [TStr; TStr] None TNum);
   (s_ "join", mk_sig [TGenArr; TStr] None TStr);
   (s_ "len", mk_sig [TAny] None TNum);
   (s_ "line", mk_sig [TNum; TNum] None TNone);
   (s_ "linecap", mk_sig [TStr] None TNone);
   (s_ "log", mk_sig [TNum] None TNum);
   (s_ "lower", mk_sig [TStr] None TStr);
   (s_ "max", mk_sig [TNum; TNum] None TNum);
   (s_ "min", mk_sig [TNum; TNum] None TNum);
   (s_ "move", mk_sig [TNum; TNum] None TNone);
   (s_ "panic", mk_sig [TStr] None TNone);
   (s_ "poly", mk_sig [] (Some (TArr TNum)) TNone);
   (s_ "pow", mk_sig [TNum; TNum] None TNum);
   (s_ "print", mk_sig [] (Some TAny) TNone);
   (s_ "printf", mk_sig [] (Some TAny) TNone);
   (s_ "rand", mk_sig [TNum] None TNum);
   (s_ "rand1", mk_sig [] None TNum);
   (s_ "read", mk_sig [] None TStr);
   (s_ "rect", mk_sig [TNum; TNum] None TNone);
   (s_ "replace", mk_sig [TStr; TStr; TStr] None TStr);
   (s_ "repr", mk_sig [] (Some TAny) TStr);
   (s_ "round", mk_sig [TNum] None TNum);
   (s_ "sin", mk_sig [TNum] None TNum);
   (s_ "sleep", mk_sig [TNum] None TNone);
   (s_ "split", mk_sig [TStr; TStr] None (TArr TStr));
   (s_ "sprint", mk_sig [] (Some TAny) TStr);
   (s_ "sprintf", mk_sig [] (Some TAny) TStr);
   (s_ "sqrt", mk_sig [TNum] None TNum);
   (s_ "startswith", mk_sig [TStr; TStr] None TBool);
   (s_ "str2bool", mk_sig [TStr] None TBool);
   (s_ "str2num", mk_sig [TStr] None TNum);
   (s_ "stroke", mk_sig [TStr] None TNone);
   (s_ "test", mk_sig [] (Some TAny) TNone);
   (s_ "text", mk_sig [TStr] None TNone);
   (s_ "trim", mk_sig [TStr; TStr] None TStr);
   (s_ "typeof", mk_sig [TAny] None TStr);
   (s_ "upper", mk_sig [TStr] None TStr);
   (s_ "width", mk_sig [TNum] None TNone)]%string.

Definition builtin_sig (name : str) : option fsig := assoc_str name builtin_sigs.

Definition sig_of_fd (fd : funcdef) : fsig :=
  {| fs_params := map snd (fn_params fd); fs_var := option_map snd (fn_variadic fd); fs_ret := fn_ret fd |}.

(* same priority as evalFunccall: test, built-ins, then user functions *)
Definition lookup_sig (F : list funcdef) (name : str) : option fsig :=
  match builtin_sig name with
  | Some s => Some s
  | None => option_map sig_of_fd (find_func name F)
  end.

(* parameter p takes an argument of static type a (after wrapAny): equal, or a
   generic built-in parameter taking every array / every map *)
Definition arg_ok (p a : ty) : bool :=
  match p with
  | TGenArr => match a with TArr _ | TEmptyArr => ty_ann a | _ => false end
  | TGenMap => match a with TMap _ | TEmptyMap => ty_ann a | _ => false end
  | _ => ty_eqb p a && ty_ann a
  end.

Fixpoint args_ok (ps : list ty) (va : option ty) (args : list ty) : bool :=
  match ps, args with
  | [], [] => true
  | [], _ :: _ => match va with Some v => forallb (arg_ok v) args | None => false end
  | p :: ps', a :: args' => arg_ok p a && args_ok ps' va args'
  | _ :: _, [] => false
  end.

(* evy's variadic functions have no fixed parameters *)
Definition sig_args_ok (sg : fsig) (args : list ty) : bool :=
  match fs_var sg with
  | Some v => match fs_params sg with [] => forallb (arg_ok v) args | _ => false end
  | None => args_ok (fs_params sg) None args
  end.

(* ---------- static environments ---------- *)
Definition sframe := list (str * ty).
(* innermost frame first; the last frame is the global one *)
Definition tyenv := list sframe.

Fixpoint sget (n : str) (f : sframe) : option ty :=
  match f with [] => None | (k, t) :: r => if str_eqb k n then Some t else sget n r end.

Fixpoint slookup (n : str) (G : tyenv) : option ty :=
  match G with
  | [] => None
  | f :: r => match sget n f with Some t => Some t | None => slookup n r end
  end.

Definition is_some {A} (o : option A) : bool := match o with Some _ => true | None => false end.

Definition reserved_names : list str := Eval compute in [n_err; n_errmsg; s_ "pi"].

(* names a declaration, loop variable or parameter may bind *)
Definition binder_ok (n : str) : bool :=
  negb (str_eqb n underscore) && negb (mem_str n reserved_names).

Definition opt_ty_eqb (o : option ty) (t : ty) : bool :=
  match o with Some u => ty_eqb u t | None => false end.

Fixpoint keys_nodup (l : list str) : bool :=
  match l with [] => true | x :: r => negb (mem_str x r) && keys_nodup r end.

(* ---------- expressions ---------- *)
Fixpoint ety (F : list funcdef) (G : tyenv) (e : expr) {struct e} : option ty :=
  let etys := fix etys (es : list expr) : option (list ty) :=
    match es with
    | [] => Some []
    | x :: r => match ety F G x, etys r with Some t, Some ts => Some (t :: ts) | _, _ => None end
    end in
  let etyp := fix etyp (ps : list (str * expr)) : option (list ty) :=
    match ps with
    | [] => Some []
    | (_, x) :: r => match ety F G x, etyp r with Some t, Some ts => Some (t :: ts) | _, _ => None end
    end in
  let etyo (o : option expr) : bool :=
    match o with None => true | Some x => opt_ty_eqb (ety F G x) TNum end in
  match e with
  | ENum _ => Some TNum
  | EStr _ => Some TStr
  | EBool _ => Some TBool
  | EVar n t =>
      if negb (str_eqb n underscore) && opt_ty_eqb (slookup n G) t && ty_ann t then Some t else None
  | EAny a t =>
      (* wrapAny: the wrapped value is not an any, and the recorded type is its static type *)
      if opt_ty_eqb (ety F G a) t && negb (is_any t) && ty_ann t then Some TAny else None
  | EArr t es =>
      match es with
      | [] => match t with
              | TEmptyArr => Some t
              | TArr _ => if ty_ann t then Some t else None
              | _ => None end
      | _ :: _ =>
          match t, etys es with
          | TArr u, Some ts => if forallb (ty_eqb u) ts && ty_ann t then Some t else None
          | _, _ => None
          end
      end
  | EMap t ps =>
      match ps with
      | [] => match t with
              | TEmptyMap => Some t
              | TMap _ => if ty_ann t then Some t else None
              | _ => None end
      | _ :: _ =>
          match t, etyp ps with
          | TMap u, Some ts =>
              if forallb (ty_eqb u) ts && ty_ann t && keys_nodup (map fst ps) then Some t else None
          | _, _ => None
          end
      end
  | ECall name t args =>
      match lookup_sig F name, etys args with
      | Some sg, Some ts =>
          if sig_args_ok sg ts && ty_eqb (fs_ret sg) t then Some t else None
      | _, _ => None
      end
  | EUn op a =>
      match op, ety F G a with
      | UMinus, Some TNum => Some TNum
      | UBang, Some TBool => Some TBool
      | _, _ => None
      end
  | EBin op t l r =>
      match ety F G l, ety F G r with
      | Some a, Some b => if (opt_ty_eqb (bin_ty op a b) t || bin_empty op a b t) && ty_ann t then Some t else None
      | _, _ => None
      end
  | EIndex t l i =>
      match ety F G l, ety F G i with
      | Some (TArr u), Some TNum => if ty_eqb u t && ty_ann t then Some t else None
      | Some TStr, Some TNum => if ty_eqb TStr t then Some t else None
      | Some (TMap u), Some TStr => if ty_eqb u t && ty_ann t then Some t else None
      | _, _ => None
      end
  | ESlice t l lo hi =>
      match ety F G l with
      | Some a =>
          match a with
          | TArr _ | TEmptyArr | TStr => if ty_eqb a t && etyo lo && etyo hi then Some t else None
          | _ => None
          end
      | None => None
      end
  | EDot t l _ =>
      match ety F G l with
      | Some (TMap u) => if ty_eqb u t && ty_ann t then Some t else None
      | _ => None
      end
  | EGroup a => ety F G a
  | EAssert t a =>
      match ety F G a with
      | Some TAny => if negb (is_any t) && ty_decl t then Some t else None
      | _ => None
      end
  end.

Section Etys.
  Context (F : list funcdef) (G : tyenv).
  Fixpoint etys (es : list expr) : option (list ty) :=
    match es with
    | [] => Some []
    | x :: r => match ety F G x, etys r with Some t, Some ts => Some (t :: ts) | _, _ => None end
    end.
  Fixpoint etyps (ps : list (str * expr)) : option (list ty) :=
    match ps with
    | [] => Some []
    | (_, x) :: r => match ety F G x, etyps r with Some t, Some ts => Some (t :: ts) | _, _ => None end
    end.
End Etys.

Definition etyo (F : list funcdef) (G : tyenv) (o : option expr) : bool :=
  match o with None => true | Some x => opt_ty_eqb (ety F G x) TNum end.

(* the result type of a call `name args` *)
Definition call_ty (F : list funcdef) (G : tyenv) (name : str) (args : list expr) : option ty :=
  match lookup_sig F name, etys F G args with
  | Some sg, Some ts => if sig_args_ok sg ts then Some (fs_ret sg) else None
  | _, _ => None
  end.

(* ---------- statements ---------- *)
(* the type of the loop variable for `range e` *)
Definition range_var_ty (t : ty) : option ty :=
  match t with
  | TArr u => Some u
  | TEmptyArr => Some TAny            (* infer(): []any *)
  | TStr | TMap _ | TEmptyMap => Some TStr
  | _ => None
  end.

Definition push (G : tyenv) : tyenv := [] :: G.

Fixpoint wt_stmt (F : list funcdef) (ret : option ty) (inloop : bool) (G : tyenv) (s : stmt) {struct s}
  : option tyenv :=
  let wt_stmts := fix wt_stmts (inloop : bool) (G : tyenv) (l : list stmt) : option tyenv :=
    match l with
    | [] => Some G
    | x :: r => match wt_stmt F ret inloop G x with Some G' => wt_stmts inloop G' r | None => None end
    end in
  match s with
  | SDecl n t e =>
      match G with
      | fr :: G' =>
          if binder_ok n && negb (is_some (sget n fr))
             && ty_decl t && opt_ty_eqb (ety F G e) t
          then Some (((n, t) :: fr) :: G') else None
      | [] => None
      end
  | SAssign target e =>
      let shape_ok :=
        match target with
        | EVar _ _ => true
        | EIndex _ a _ => match ety F G a with Some (TArr _) | Some (TMap _) => true | _ => false end
        | EDot _ _ _ => true
        | _ => false
        end in
      match ety F G target, ety F G e with
      | Some tg, Some tv => if shape_ok && ty_eqb tg tv then Some G else None
      | _, _ => None
      end
  | SCallStmt name args => if is_some (call_ty F G name args) then Some G else None
  | SReturn None => match ret with Some TNone => Some G | _ => None end
  | SReturn (Some e) =>
      match ret with
      | Some t => if negb (is_none t) && opt_ty_eqb (ety F G e) t then Some G else None
      | None => None
      end
  | SBreak => if inloop then Some G else None
  | SIf conds els =>
      let conds_ok := (fix go (cs : list (expr * list stmt)) : bool :=
        match cs with
        | [] => true
        | (c, body) :: r =>
            opt_ty_eqb (ety F (push G) c) TBool && is_some (wt_stmts inloop (push G) body) && go r
        end) conds in
      let els_ok := match els with Some body => is_some (wt_stmts inloop (push G) body) | None => true end in
      if conds_ok && els_ok then Some G else None
  | SWhile c body =>
      if opt_ty_eqb (ety F (push G) c) TBool && is_some (wt_stmts true (push G) body) then Some G else None
  | SFor var vt r body =>
      let G1 := push G in
      let rng : option ty :=      (* the loop variable's type *)
        match r with
        | RStep start stop step =>
            if etyo F G1 start && opt_ty_eqb (ety F G1 stop) TNum && etyo F G1 step then Some TNum else None
        | RExpr y => match ety F G1 y with Some t => range_var_ty t | None => None end
        end in
      match rng with
      | None => None
      | Some t =>
          let G2 := match var with
                    | Some v => if binder_ok v && ty_eqb vt t && ty_decl vt then Some ([(v, vt)] :: G) else None
                    | None => Some ([] :: G)
                    end in
          match G2 with
          | Some G2 => if is_some (wt_stmts true (push G2) body) then Some G else None
          | None => None
          end
      end
  | SNop => Some G
  end.

Section WtStmts.
  Context (F : list funcdef) (ret : option ty).
  Fixpoint wt_stmts (inloop : bool) (G : tyenv) (l : list stmt) : option tyenv :=
    match l with
    | [] => Some G
    | x :: r => match wt_stmt F ret inloop G x with Some G' => wt_stmts inloop G' r | None => None end
    end.
End WtStmts.

(* every path through the statements ends in a return (alwaysTerminates) *)
Fixpoint stmt_returns (s : stmt) {struct s} : bool :=
  let any := fix any (l : list stmt) : bool :=
    match l with [] => false | x :: r => stmt_returns x || any r end in
  match s with
  | SReturn _ => true
  | SIf conds (Some els) =>
      (fix go (cs : list (expr * list stmt)) : bool :=
         match cs with [] => true | (_, b) :: t => any b && go t end) conds
      && any els
  | _ => false
  end.
Definition always_returns (l : list stmt) : bool := existsb stmt_returns l.

(* ---------- programs ---------- *)
Definition global_frame0 : sframe := Eval compute in [(n_err, TBool); (n_errmsg, TStr); (s_ "pi", TNum)].

Fixpoint names_distinct (l : list str) : bool :=
  match l with [] => true | x :: r => (str_eqb x underscore || negb (mem_str x r)) && names_distinct r end.

Definition param_ok (p : str * ty) : bool :=
  (str_eqb (fst p) underscore || binder_ok (fst p)) && ty_decl (snd p).

Definition params_frame (ps : list (str * ty)) : sframe :=
  rev (filter (fun p => negb (str_eqb (fst p) underscore)) ps).

Definition wt_func (F : list funcdef) (globals : sframe) (fd : funcdef) : bool :=
  let ps := fn_params fd in
  let vp := match fn_variadic fd with Some (n, t) => [(n, TArr t)] | None => [] end in
  forallb param_ok (ps ++ vp) && names_distinct (map fst (ps ++ vp))
  && (match fn_variadic fd with Some _ => match ps with [] => true | _ => false end | None => true end)
  && (is_none (fn_ret fd) || ty_decl (fn_ret fd))
  && negb (is_some (builtin_sig (fn_name fd)))
  && is_some (wt_stmts F (Some (fn_ret fd)) false [params_frame (ps ++ vp); globals] (fn_body fd))
  && (is_none (fn_ret fd) || always_returns (fn_body fd)).

Definition event_sigs : list (str * list ty) := Eval compute in
  [(s_ "up", [TNum; TNum]); (s_ "down", [TNum; TNum]); (s_ "move", [TNum; TNum]);
   (s_ "key", [TStr]); (s_ "input", [TStr; TStr]); (s_ "animate", [TNum])]%string.

Fixpoint tys_eqb (a b : list ty) : bool :=
  match a, b with
  | [], [] => true
  | x :: a', y :: b' => ty_eqb x y && tys_eqb a' b'
  | _, _ => false
  end.

(* a handler declares no parameters or exactly the event's *)
Definition wt_handler (F : list funcdef) (globals : sframe) (h : handler) : bool :=
  match assoc_str (h_name h) event_sigs with
  | None => false
  | Some ts =>
      (match h_params h with [] => true | ps => tys_eqb (map snd ps) ts end)
      && forallb param_ok (h_params h) && names_distinct (map fst (h_params h))
      && is_some (wt_stmts F (Some TNone) false [params_frame (h_params h); globals] (h_body h))
  end.

(* the final global frame when the top-level statements check *)
Definition wt_top (P : program) : option sframe :=
  match wt_stmts (p_funcs P) None false [global_frame0] (p_stmts P) with
  | Some [g] => Some g
  | _ => None
  end.

Definition wt_program (P : program) : bool :=
  match wt_top P with
  | Some g => forallb (wt_func (p_funcs P) g) (p_funcs P) && forallb (wt_handler (p_funcs P) g) (p_handlers P)
  | None => false
  end.

(* ---------- Stage-1 fragment (what SemSound.v proves sound) ---------- *)
(* types with `any` only at the top: num, string, bool, nested arrays and maps of those,
   the untyped [] and {}, and any *)
Fixpoint ty_s1in (t : ty) : bool :=
  match t with
  | TNum | TStr | TBool | TEmptyArr | TEmptyMap => true
  | TArr u | TMap u => ty_s1in u
  | _ => false
  end.
Definition ty_s1 (t : ty) : bool := match t with TAny => true | _ => ty_s1in t end.

Definition s1_builtins : list str := Eval compute in map s_
  ["print"; "sprint"; "read"; "cls"; "sleep"; "len"; "has"; "del"; "typeof"; "str2num"; "str2bool"; "exit"; "panic";
   "join"; "startswith"; "endswith"; "min"; "max"; "abs"; "sqrt";
   "circle"; "width"; "move"; "line"; "rect"; "color"; "colour"; "stroke"; "fill"; "linecap"; "text";
   (* the pure string and math built-ins of Sem.pure_builtin (results typed in SemSound.pure_builtin_sound) *)
   "upper"; "lower"; "trim"; "replace"; "index"; "split"; "hsl"; "floor"; "ceil"; "round";
   "pow"; "atan2"; "log"; "sin"; "cos"; "rand"; "rand1";
   (* fmt.Sprintf on evy values (Sem.builtin: Builtins.sprintf_loop; SemSound.builtin_sound) *)
   "sprintf"; "printf"]%string.

(* the type component of the fragment predicate: in the strict fragment `any` never occurs inside a
   composite type *)
Definition fr_tyin (strict : bool) (t : ty) : bool := if strict then ty_s1in t else true.
Definition fr_ty (strict : bool) (t : ty) : bool := if strict then ty_s1 t else true.

(* callable inside the fragment: the modelled built-ins, test, and the user's functions *)
Definition call_frag (name : str) : bool :=
  mem_str name s1_builtins || negb (is_some (builtin_sig name)) || str_eqb name n_test.

Section Frag.
Context (strict : bool).

Fixpoint s1_expr (e : expr) {struct e} : bool :=
  let s1_exprs := fix go (es : list expr) : bool :=
    match es with [] => true | x :: r => s1_expr x && go r end in
  let s1_opt (o : option expr) : bool := match o with Some x => s1_expr x | None => true end in
  let s1_pairs := fix go (ps : list (str * expr)) : bool :=
    match ps with [] => true | (_, x) :: r => s1_expr x && go r end in
  match e with
  | ENum _ | EStr _ | EBool _ => true
  | EVar _ t => fr_ty strict t
  | EAny a t => fr_tyin strict t && s1_expr a
  | EArr t es => fr_tyin strict t && s1_exprs es
  | EMap t ps => fr_tyin strict t && s1_pairs ps
  | ECall name t args => call_frag name && s1_exprs args
  | EUn _ a => s1_expr a
  | EBin _ t l r => fr_tyin strict t && s1_expr l && s1_expr r
  | EIndex t l i => fr_tyin strict t && s1_expr l && s1_expr i
  | ESlice t l lo hi => fr_tyin strict t && s1_expr l && s1_opt lo && s1_opt hi
  | EDot t l _ => fr_tyin strict t && s1_expr l
  | EGroup a => s1_expr a
  | EAssert t a => fr_tyin strict t && s1_expr a
  end.

Fixpoint s1_exprs (es : list expr) : bool :=
  match es with [] => true | x :: r => s1_expr x && s1_exprs r end.

Definition s1_opt (o : option expr) : bool := match o with Some x => s1_expr x | None => true end.

Fixpoint s1_pairs (ps : list (str * expr)) : bool :=
  match ps with [] => true | (_, x) :: r => s1_expr x && s1_pairs r end.

Fixpoint s1_stmt (s : stmt) {struct s} : bool :=
  let s1_stmts := fix go (l : list stmt) : bool :=
    match l with [] => true | x :: r => s1_stmt x && go r end in
  match s with
  | SDecl _ t e => fr_ty strict t && s1_expr e
  | SAssign target e => s1_expr target && s1_expr e
  | SCallStmt name args => call_frag name && s1_exprs args
  | SReturn o => s1_opt o
  | SBreak => true
  | SIf conds els =>
      (fix go (cs : list (expr * list stmt)) : bool :=
         match cs with [] => true | (c, b) :: r => s1_expr c && s1_stmts b && go r end) conds
      && match els with Some b => s1_stmts b | None => true end
  | SWhile c body => s1_expr c && s1_stmts body
  | SFor var vt r body =>
      match var with Some _ => fr_ty strict vt | None => true end
      && match r with
         | RStep a b c => s1_opt a && s1_expr b && s1_opt c
         | RExpr y => s1_expr y
         end
      && s1_stmts body
  | SNop => true
  end.

Fixpoint s1_stmts (l : list stmt) : bool :=
  match l with [] => true | x :: r => s1_stmt x && s1_stmts r end.

(* a function of the fragment: its body, and (strict) a variadic parameter whose array type is in it *)
Definition s1_func (fd : funcdef) : bool :=
  s1_stmts (fn_body fd) && match fn_variadic fd with Some (_, t) => fr_tyin strict t | None => true end.

End Frag.

(* the two proved fragments: [s1_program] (any never inside a composite: no run goes wrong at all) and
   the wider [s2_program] (no run goes wrong except by exhausting the host stack on a cyclic value) *)
Definition s1_program (P : program) : bool :=
  s1_stmts true (p_stmts P) && forallb (s1_func true) (p_funcs P)
  && forallb (fun h => s1_stmts true (h_body h)) (p_handlers P).
Definition s2_program (P : program) : bool :=
  s1_stmts false (p_stmts P) && forallb (s1_func false) (p_funcs P)
  && forallb (fun h => s1_stmts false (h_body h)) (p_handlers P).

(* ---------- diagnosis: a short reason symbol for a rejected program ---------- *)
Definition expr_kind (e : expr) : string :=
  match e with
  | ENum _ => "num" | EStr _ => "str" | EBool _ => "bool" | EVar _ _ => "var" | EAny _ _ => "any"
  | EArr _ _ => "arr" | EMap _ _ => "maplit" | ECall _ _ _ => "call" | EUn _ _ => "un"
  | EBin BPlus _ _ _ => "bin-plus" | EBin BAsterisk _ _ _ => "bin-times"
  | EBin BEq _ _ _ | EBin BNotEq _ _ _ => "bin-eq" | EBin _ _ _ _ => "bin"
  | EIndex _ _ _ => "idx" | ESlice _ _ _ _ => "slice" | EDot _ _ _ => "dot" | EGroup _ => "group"
  | EAssert _ _ => "assert"
  end%string.

(* the innermost sub-expression that does not type although its children do *)
Fixpoint why_expr (F : list funcdef) (G : tyenv) (e : expr) {struct e} : option string :=
  let first := fix first (es : list expr) : option string :=
    match es with
    | [] => None
    | x :: r => match why_expr F G x with Some w => Some w | None => first r end
    end in
  let firstp := fix firstp (ps : list (str * expr)) : option string :=
    match ps with
    | [] => None
    | (_, x) :: r => match why_expr F G x with Some w => Some w | None => firstp r end
    end in
  let opt (o : option expr) : option string := match o with Some x => why_expr F G x | None => None end in
  let sub : option string :=
    match e with
    | EAny a _ | EUn _ a | EGroup a | EAssert _ a | EDot _ a _ => why_expr F G a
    | EArr _ es | ECall _ _ es => first es
    | EMap _ ps => firstp ps
    | EBin _ _ l r | EIndex _ l r => match why_expr F G l with Some w => Some w | None => why_expr F G r end
    | ESlice _ l lo hi =>
        match why_expr F G l with
        | Some w => Some w
        | None => match opt lo with Some w => Some w | None => opt hi end
        end
    | _ => None
    end in
  match sub with
  | Some w => Some w
  | None => match ety F G e with Some _ => None | None => Some (expr_kind e) end
  end.

Definition first_why (F : list funcdef) (G : tyenv) (es : list expr) : option string :=
  fold_right (fun x acc => match why_expr F G x with Some w => Some w | None => acc end) None es.

Definition stmt_exprs (s : stmt) : list expr :=
  match s with
  | SDecl _ _ e => [e]
  | SAssign t e => [t; e]
  | SCallStmt _ args => args
  | SReturn (Some e) => [e]
  | SWhile c _ => [c]
  | SIf conds _ => map fst conds
  | SFor _ _ (RExpr y) _ => [y]
  | SFor _ _ (RStep a b c) _ =>
      (match a with Some x => [x] | None => [] end) ++ [b] ++ (match c with Some x => [x] | None => [] end)
  | _ => []
  end.

Definition stmt_kind (s : stmt) : string :=
  match s with
  | SDecl _ _ _ => "decl" | SAssign _ _ => "assign" | SCallStmt _ _ => "callstmt" | SReturn _ => "ret"
  | SBreak => "break" | SIf _ _ => "if" | SWhile _ _ => "while" | SFor _ _ _ _ => "for" | SNop => "nop"
  end%string.

(* first failing statement of a list, descending into blocks *)
Fixpoint why_stmts (fuel : nat) (F : list funcdef) (ret : option ty) (inloop : bool) (G : tyenv) (l : list stmt)
  : string :=
  match fuel with
  | O => "deep"%string
  | S f =>
      match l with
      | [] => "none"%string
      | s :: r =>
          match wt_stmt F ret inloop G s with
          | Some G' => why_stmts f F ret inloop G' r
          | None =>
              let here (G0 : tyenv) : string :=
                match first_why F G0 (stmt_exprs s) with
                | Some w => (stmt_kind s ++ "/" ++ w)%string
                | None => stmt_kind s
                end in
              let block (inl : bool) (G0 : tyenv) (b : list stmt) : option string :=
                match wt_stmts F ret inl G0 b with Some _ => None | None => Some (why_stmts f F ret inl G0 b) end in
              match s with
              | SIf conds els =>
                  match first_why F (push G) (map fst conds) with
                  | Some w => ("if/" ++ w)%string
                  | None =>
                      let bs := map snd conds ++ (match els with Some b => [b] | None => [] end) in
                      match fold_right (fun b acc => match block inloop (push G) b with Some w => Some w | None => acc end)
                                       None bs with
                      | Some w => w
                      | None => "if"%string
                      end
                  end
              | SWhile c b =>
                  match why_expr F (push G) c with
                  | Some w => ("while/" ++ w)%string
                  | None => match block true (push G) b with Some w => w | None => "while"%string end
                  end
              | SFor var vt rg b =>
                  match first_why F (push G) (stmt_exprs s) with
                  | Some w => ("for/" ++ w)%string
                  | None =>
                      let G2 := push (match var with Some v => [(v, vt)] :: G | None => [] :: G end) in
                      match block true G2 b with
                      | Some w => if str_eqb (s_ w) (s_ "none") then "for" else w
                      | None => "for"
                      end%string
                  end
              | _ => here G
              end
          end
      end
  end.

Definition why_program (P : program) : string :=
  match wt_stmts (p_funcs P) None false [global_frame0] (p_stmts P) with
  | None => why_stmts 1000 (p_funcs P) None false [global_frame0] (p_stmts P)
  | Some [g] =>
      match find (fun fd => negb (wt_func (p_funcs P) g fd)) (p_funcs P) with
      | Some fd =>
          let ps := fn_params fd in
          let vp := match fn_variadic fd with Some (n, t) => [(n, TArr t)] | None => [] end in
          let G0 := [params_frame (ps ++ vp); g] in
          match wt_stmts (p_funcs P) (Some (fn_ret fd)) false G0 (fn_body fd) with
          | None => ("func/" ++ why_stmts 1000 (p_funcs P) (Some (fn_ret fd)) false G0 (fn_body fd))%string
          | Some _ => "func-signature"%string
          end
      | None =>
          match find (fun h => negb (wt_handler (p_funcs P) g h)) (p_handlers P) with
          | Some h =>
              let G0 := [params_frame (h_params h); g] in
              match wt_stmts (p_funcs P) (Some TNone) false G0 (h_body h) with
              | None => ("on/" ++ why_stmts 1000 (p_funcs P) (Some TNone) false G0 (h_body h))%string
              | Some _ => "on-signature"%string
              end
          | None => "handler"%string
          end
      end
  | Some _ => "env"%string
  end.

(* ---------- wire entry ---------- *)
(* (prog ...) ↦ (wt true) | (wt false reason) | decode-error *)
Definition wt_case (x : sx) : sx :=
  match dec_program x with
  | Some P =>
      if wt_program P then Lst [Sym (s_ "wt"); sx_bool true; sx_bool (s2_program P); sx_bool (s1_program P)]
      else Lst [Sym (s_ "wt"); sx_bool false; Sym (s_ (why_program P))]
  | None => Sym (s_ "decode-error")
  end.
