(* VmHeapCase.v — entry point of the model `vmheap`: compile (Compile.v) and
   run on the VM with the store (VmHeap.v).  Same wire format as
   Compile.run_case; arrays and maps are read back through the heap the way
   VM.VerifGlobalRepr prints them (maps: the keys of `order` with m's values). *)
From Coq Require Import ZArith NArith List Bool String.
From EvyV Require Import Base Bytecode Vm Compile VmHeap.
Import ListNotations.
Open Scope N_scope.

(* fuel in two levels, as Compile.vm_run_chunks *)
Fixpoint hvm_run_k (fuel : nat) (p : program) (s : hstate) : hstate + hfinal :=
  match fuel with
  | O => inl s
  | S f =>
      match hvm_step p s with
      | HRunning s' => hvm_run_k f p s'
      | HHalted s' => inr (HFHalted s')
      | HFailed e => inr (HFFailed e)
      | HCrashed c => inr (HFCrashed c)
      end
  end.
Fixpoint hvm_run_chunks (chunks chunk : nat) (p : program) (s : hstate) : hfinal :=
  match chunks with
  | O => HFOutOfFuel
  | S c => match hvm_run_k chunk p s with
           | inl s' => hvm_run_chunks c chunk p s'
           | inr f => f
           end
  end.

(* (run (stmt…)) ↦ (halted sp (global…)) | (failed kind) | (crashed) | (outoffuel) | (compile-error) *)
Definition hrun_case (x : sx) : sx :=
  match x with
  | Lst [Sym t; Lst stmts] =>
      if str_eqb t (s_ "run") then
        match dec_program 400 stmts with
        | None => Sym (s_ "decode-error")
        | Some p =>
            match compile p with
            | CErr _ => Lst [Sym (s_ "compile-error")]
            | COk st =>
                let prog := program_of (bytecode_of st) in
                match hvm_run_chunks 2000 2000 prog (hvm_init prog) with
                | HFHalted s => Lst [Sym (s_ "halted"); Int (Z.of_N (hsp_of s));
                                     Lst (map (fun g => enc_value 50 (resolve 50 (hheap s) g)) (hglobals s))]
                | HFFailed e => Lst [Sym (s_ "failed"); enc_perr e]
                | HFCrashed _ => Lst [Sym (s_ "crashed")]
                | HFOutOfFuel => Lst [Sym (s_ "outoffuel")]
                end
            end
        end
      else Sym (s_ "decode-error")
  | _ => Sym (s_ "decode-error")
  end.
