(* BuiltinsProofs.v — lemmas about the model of the built-ins (Builtins.v). *)
From Coq Require Import ZArith NArith List Bool Lia ZifyBool ZifyNat ZifyN Floats Arith.
From Coq Require Strings.String.
Import Coq.Strings.String.StringSyntax.
Local Open Scope string_scope.
Local Open Scope list_scope.
From EvyV Require Import Base BuiltinTy Builtins.
Import ListNotations.

(* ====================================================================== *)
(** * independent list specifications *)

(* [sub] occurs in [s] at position [i] (in code points) *)
Definition Occurs (sub s : str) (i : nat) : Prop :=
  exists a b, s = a ++ sub ++ b /\ List.length a = i.
(* … and nowhere before *)
Definition FirstOcc (sub s : str) (i : nat) : Prop :=
  Occurs sub s i /\ forall j, Occurs sub s j -> (i <= j)%nat.
Definition NoOcc (sub s : str) : Prop := forall i, ~ Occurs sub s i.

Definition IsPrefix (p s : str) : Prop := exists t, s = p ++ t.
Definition IsSuffix (suf s : str) : Prop := exists t, s = t ++ suf.

Lemma firstn_exact {A} (a r : list A) : firstn (List.length a) (a ++ r) = a.
Proof. induction a; simpl; [destruct r; reflexivity | f_equal; assumption]. Qed.

Lemma skipn_exact {A} (a r : list A) : skipn (List.length a) (a ++ r) = r.
Proof. induction a; simpl; [reflexivity | assumption]. Qed.

Lemma skipn_exact2 {A} (a m r : list A) : skipn (List.length a + List.length m) (a ++ m ++ r) = r.
Proof. rewrite <- app_length, app_assoc. apply skipn_exact. Qed.

(* ---------- prefix / suffix ---------- *)
Lemma prefixb_spec p s : prefixb p s = true <-> IsPrefix p s.
Proof.
  revert s; induction p as [|x p IH]; intros s; simpl.
  - split; [intros _; exists s; reflexivity | reflexivity].
  - destruct s as [|y s].
    + split; [discriminate | intros [t H]; discriminate].
    + rewrite andb_true_iff, N.eqb_eq, IH. split.
      * intros [-> [t ->]]. exists t. reflexivity.
      * intros [t H]. inversion H; subst. split; [reflexivity | exists t; reflexivity].
Qed.

Lemma startswith_spec s p : startswith s p = true <-> IsPrefix p s.
Proof. apply prefixb_spec. Qed.

Lemma endswith_spec s suf : endswith s suf = true <-> IsSuffix suf s.
Proof.
  unfold endswith. rewrite andb_true_iff, Nat.leb_le, str_eqb_eq. split.
  - intros [Hle Heq]. exists (firstn (List.length s - List.length suf) s).
    rewrite <- Heq at 2. symmetry. apply firstn_skipn.
  - intros [t ->]. rewrite app_length. split; [lia|].
    replace (List.length t + List.length suf - List.length suf)%nat with (List.length t + 0)%nat by lia.
    rewrite skipn_app, Nat.add_0_r, skipn_all.
    replace (List.length t - List.length t)%nat with 0%nat by lia. reflexivity.
Qed.

(* ---------- index ---------- *)
Lemma occurs_0_prefix sub s : Occurs sub s 0 <-> IsPrefix sub s.
Proof.
  split.
  - intros (a & b & -> & Hl). destruct a; [|discriminate]. exists b. reflexivity.
  - intros [t ->]. exists [], t. split; reflexivity.
Qed.

Lemma occurs_cons sub c s i : Occurs sub (c :: s) (S i) <-> Occurs sub s i.
Proof.
  split.
  - intros (a & b & H & Hl). destruct a as [|x a]; [discriminate|].
    simpl in H. inversion H; subst. exists a, b. split; [reflexivity | simpl in Hl; lia].
  - intros (a & b & -> & Hl). exists (c :: a), b. split; [reflexivity | simpl; lia].
Qed.

Lemma occurs_nil_inv sub i : Occurs sub [] i -> sub = [] /\ i = 0%nat.
Proof.
  intros (a & b & H & Hl). symmetry in H. apply app_eq_nil in H as [-> H].
  apply app_eq_nil in H as [-> _]. split; [reflexivity | simpl in Hl; lia].
Qed.

Lemma index_from_some k s sub n :
  index_from k s sub = Some n -> exists i, n = (k + i)%nat /\ FirstOcc sub s i.
Proof.
  revert k; induction s as [|c s IH]; intros k; simpl.
  - destruct (prefixb sub []) eqn:E; [|discriminate].
    intros [= <-]. exists 0%nat. split; [lia|]. split; [|intros; lia].
    apply occurs_0_prefix, prefixb_spec, E.
  - destruct (prefixb sub (c :: s)) eqn:E.
    + intros [= <-]. exists 0%nat. split; [lia|]. split; [|intros; lia].
      apply occurs_0_prefix, prefixb_spec, E.
    + intros H. apply IH in H as (i & -> & Ho & Hmin). exists (S i). split; [lia|]. split.
      * apply occurs_cons, Ho.
      * intros [|j] Hj.
        -- apply occurs_0_prefix, prefixb_spec in Hj. congruence.
        -- apply (proj1 (occurs_cons sub c s j)) in Hj. apply Hmin in Hj. lia.
Qed.

Lemma index_from_none k s sub : index_from k s sub = None -> NoOcc sub s.
Proof.
  revert k; induction s as [|c s IH]; intros k; simpl.
  - destruct (prefixb sub []) eqn:E; [discriminate|]. intros _ i Ho.
    destruct (occurs_nil_inv _ _ Ho) as [-> _]. discriminate.
  - destruct (prefixb sub (c :: s)) eqn:E; [discriminate|]. intros H [|i] Ho.
    + apply occurs_0_prefix, prefixb_spec in Ho. congruence.
    + apply (proj1 (occurs_cons sub c s i)) in Ho. exact (IH _ H i Ho).
Qed.

Lemma first_occ_unique sub s i j : FirstOcc sub s i -> FirstOcc sub s j -> i = j.
Proof. intros [H1 M1] [H2 M2]. apply M1 in H2. apply M2 in H1. lia. Qed.

Lemma index_cp_spec s sub :
  match index_cp s sub with
  | Some i => FirstOcc sub s i
  | None => NoOcc sub s
  end.
Proof.
  unfold index_cp. destruct (index_from 0 s sub) eqn:E.
  - apply index_from_some in E as (i & -> & H). exact H.
  - eapply index_from_none, E.
Qed.

Lemma index_cp_some_iff s sub i : index_cp s sub = Some i <-> FirstOcc sub s i.
Proof.
  pose proof (index_cp_spec s sub) as H. split.
  - intros E. rewrite E in H. exact H.
  - intros F. destruct (index_cp s sub) as [j|].
    + f_equal. eapply first_occ_unique; eassumption.
    + destruct F as [Ho _]. exfalso. exact (H i Ho).
Qed.

Lemma index_cp_none_iff s sub : index_cp s sub = None <-> NoOcc sub s.
Proof.
  pose proof (index_cp_spec s sub) as H. split.
  - intros E. rewrite E in H. exact H.
  - intros N. destruct (index_cp s sub) as [j|]; [|reflexivity].
    destruct H as [Ho _]. exfalso. exact (N j Ho).
Qed.

(* index: position in code points of the first occurrence, or -1 *)
Lemma index_chars_spec s sub :
  (forall i, index_chars s sub = Z.of_nat i <-> FirstOcc sub s i) /\
  (index_chars s sub = (-1)%Z <-> NoOcc sub s).
Proof.
  unfold index_chars. split.
  - intros i. rewrite <- index_cp_some_iff. destruct (index_cp s sub).
    + split; [intros H; f_equal; lia | intros [= ->]; reflexivity].
    + split; [lia | discriminate].
  - rewrite <- index_cp_none_iff. destruct (index_cp s sub); split; try reflexivity; try discriminate; lia.
Qed.

(* index before 79c1bbb: the same occurrence, measured in bytes of the prefix *)
Lemma index_bytes_before_fix_spec s sub :
  (forall i, FirstOcc sub s i -> index_bytes_before_fix s sub = Z.of_nat (utf8_len (firstn i s))) /\
  (index_bytes_before_fix s sub = (-1)%Z <-> NoOcc sub s).
Proof.
  unfold index_bytes_before_fix. split.
  - intros i F. apply index_cp_some_iff in F. rewrite F. reflexivity.
  - rewrite <- index_cp_none_iff. destruct (index_cp s sub); split; try reflexivity; try discriminate; lia.
Qed.

Lemma utf8_width_pos c : (1 <= utf8_width c <= 4)%nat.
Proof. unfold utf8_width. repeat destruct (_ <? _)%N; lia. Qed.

Lemma utf8_len_ge s : (List.length s <= utf8_len s)%nat.
Proof. induction s as [|c s IH]; simpl; [lia|]. pose proof (utf8_width_pos c). lia. Qed.

Lemma utf8_len_ascii s : utf8_len s = List.length s <-> Forall (fun c => (c < 128)%N) s.
Proof.
  induction s as [|c s IH]; simpl.
  - split; [constructor | reflexivity].
  - pose proof (utf8_len_ge s) as Hge. pose proof (utf8_width_pos c) as Hw. split.
    + intros H. assert (utf8_width c = 1%nat) as Hw1 by lia. assert (utf8_len s = List.length s) as Hl by lia.
      constructor; [|apply IH; assumption].
      unfold utf8_width in Hw1. destruct (c <? 128)%N eqn:E; [lia|].
      repeat destruct (_ <? _)%N; discriminate.
    + intros H. inversion H as [|? ? Hc Hs]; subst. apply IH in Hs. unfold utf8_width.
      destruct (c <? 128)%N eqn:E; lia.
Qed.

(* on ASCII prefixes the two coincide; they differ exactly when a non-ASCII
   character precedes the occurrence *)
Lemma index_bytes_before_fix_eq_iff s sub i :
  FirstOcc sub s i -> (index_bytes_before_fix s sub = index_chars s sub <-> Forall (fun c => (c < 128)%N) (firstn i s)).
Proof.
  intros F. pose proof F as F'. apply index_cp_some_iff in F. unfold index_bytes_before_fix, index_chars. rewrite F.
  rewrite <- utf8_len_ascii. destruct F' as [(a & b & -> & Hl) _].
  subst i. rewrite firstn_exact. lia.
Qed.

(* ---------- join / split ---------- *)
Lemma join_cons x l sep : l <> [] -> join (x :: l) sep = x ++ sep ++ join l sep.
Proof. destruct l; [congruence | reflexivity]. Qed.

Lemma occurs_decompose sub s i : Occurs sub s i -> s = firstn i s ++ sub ++ skipn (i + List.length sub) s.
Proof.
  intros (a & b & -> & <-). rewrite firstn_exact, skipn_exact2. reflexivity.
Qed.

Lemma split_ne_nonempty f s sep : split_ne f s sep <> [].
Proof. destruct f; simpl; [|destruct (index_cp s sep)]; discriminate. Qed.

Lemma split_ne_join fuel s sep : join (split_ne fuel s sep) sep = s.
Proof.
  revert s; induction fuel as [|f IH]; intros s; simpl; [reflexivity|].
  destruct (index_cp s sep) as [m|] eqn:E; [|reflexivity].
  rewrite join_cons.
  - rewrite IH. apply index_cp_some_iff in E as [Ho _]. symmetry. apply occurs_decompose, Ho.
  - apply split_ne_nonempty.
Qed.

Lemma join_explode s : join (explode s) [] = s.
Proof.
  induction s as [|c s IH]; [reflexivity|]. unfold explode in *. simpl map.
  destruct s as [|d s]; [reflexivity|]. rewrite join_cons by discriminate. rewrite IH. reflexivity.
Qed.

(* join (split s sep) sep = s — for every s and every sep (also the empty one) *)
Lemma split_join s sep : join (split s sep) sep = s.
Proof.
  unfold split. destruct sep; [apply join_explode | apply split_ne_join].
Qed.

(* the pieces of a split: each separator found is the leftmost one in what
   remains, and the last piece contains none *)
Inductive SplitSpec (sep : str) : str -> list str -> Prop :=
| SS_last s : NoOcc sep s -> SplitSpec sep s [s]
| SS_cons a b ps : FirstOcc sep (a ++ sep ++ b) (List.length a) -> SplitSpec sep b ps ->
                   SplitSpec sep (a ++ sep ++ b) (a :: ps).

Lemma split_ne_spec fuel s sep : sep <> [] -> (List.length s < fuel)%nat -> SplitSpec sep s (split_ne fuel s sep).
Proof.
  intros Hsep. revert s; induction fuel as [|f IH]; intros s Hf; [lia|]. simpl.
  destruct (index_cp s sep) as [m|] eqn:E.
  - apply index_cp_some_iff in E. pose proof E as [Ho _]. pose proof Ho as (a & b & Hs & Hl).
    pose proof (occurs_decompose _ _ _ Ho) as Hd.
    assert (firstn m s = a) as Ha by (subst s m; apply firstn_exact).
    assert (skipn (m + List.length sep) s = b) as Hb.
    { subst s m. apply skipn_exact2. }
    rewrite Ha, Hb. rewrite Hs. apply SS_cons.
    + rewrite <- Hs, Hl. exact E.
    + apply IH. subst s. rewrite !app_length in Hf. destruct sep; [congruence|]. simpl in Hf. lia.
  - apply SS_last. apply index_cp_none_iff, E.
Qed.

Lemma split_spec s sep : sep <> [] -> SplitSpec sep s (split s sep).
Proof.
  intros H. unfold split. destruct sep; [congruence|]. apply split_ne_spec; [discriminate | lia].
Qed.

Lemma split_empty_sep s : split s [] = map (fun c => [c]) s.
Proof. reflexivity. Qed.

Lemma split_empty_empty : split [] [] = [].
Proof. reflexivity. Qed.

Lemma split_empty_string sep : sep <> [] -> split [] sep = [[]].
Proof.
  intros H. destruct sep as [|c sep]; [congruence|]. unfold split. simpl.
  unfold index_cp. simpl. reflexivity.
Qed.

Lemma app_sep_inj (sep a b a0 b0 : str) :
  a0 ++ sep ++ b0 = a ++ sep ++ b -> List.length a = List.length a0 -> a = a0 /\ b = b0.
Proof.
  intros H Hl. pose proof (f_equal (firstn (List.length a)) H) as Hfst.
  rewrite firstn_exact in Hfst. rewrite Hl, firstn_exact in Hfst. subst a0.
  apply app_inv_head in H. apply app_inv_head in H. split; congruence.
Qed.

(* a SplitSpec determines the pieces: the specification is functional *)
Lemma split_spec_unique sep s ps qs : sep <> [] -> SplitSpec sep s ps -> SplitSpec sep s qs -> ps = qs.
Proof.
  intros Hsep H. revert qs. induction H as [s Hn | a b ps Hf Hs IH]; intros qs Hq.
  - inversion Hq; subst; [reflexivity|]. exfalso. destruct H as [Ho _]. exact (Hn _ Ho).
  - inversion Hq; subst.
    + exfalso. destruct Hf as [Ho _]. exact (H _ Ho).
    + assert (List.length a = List.length a0) as Hl.
      { rewrite H in H0. eapply first_occ_unique; eassumption. }
      destruct (app_sep_inj _ _ _ _ _ H Hl) as [<- <-].
      f_equal. apply IH. assumption.
Qed.

(* ---------- replace ---------- *)
(* all non-overlapping occurrences, left to right *)
Inductive ReplSpec (old new : str) : str -> str -> Prop :=
| RS_none s : NoOcc old s -> ReplSpec old new s s
| RS_occ a b r : FirstOcc old (a ++ old ++ b) (List.length a) -> ReplSpec old new b r ->
                 ReplSpec old new (a ++ old ++ b) (a ++ new ++ r).

Lemma replace_ne_spec fuel s old new : old <> [] -> (List.length s < fuel)%nat -> ReplSpec old new s (replace_ne fuel s old new).
Proof.
  intros Hold. revert s; induction fuel as [|f IH]; intros s Hf; [lia|]. simpl.
  destruct (index_cp s old) as [m|] eqn:E.
  - apply index_cp_some_iff in E. pose proof E as [Ho _]. pose proof Ho as (a & b & Hs & Hl).
    assert (firstn m s = a) as Ha by (subst s m; apply firstn_exact).
    assert (skipn (m + List.length old) s = b) as Hb.
    { subst s m. apply skipn_exact2. }
    rewrite Ha, Hb. rewrite Hs at 1. apply RS_occ.
    + rewrite <- Hs, Hl. exact E.
    + apply IH. subst s. rewrite !app_length in Hf. destruct old; [congruence|]. simpl in Hf. lia.
  - apply RS_none. apply index_cp_none_iff, E.
Qed.

Lemma replace_ne_join_split fuel s old new : replace_ne fuel s old new = join (split_ne fuel s old) new.
Proof.
  revert s; induction fuel as [|f IH]; intros s; simpl; [reflexivity|].
  destruct (index_cp s old) as [m|] eqn:E; [|reflexivity].
  rewrite join_cons.
  - rewrite IH. reflexivity.
  - apply split_ne_nonempty.
Qed.

Lemma repl_spec_same old s r : ReplSpec old old s r -> r = s.
Proof. induction 1; [reflexivity | congruence]. Qed.

Lemma repl_spec_total old new s : old <> [] -> exists r, ReplSpec old new s r.
Proof. intros H. exists (replace_ne (S (List.length s)) s old new). apply replace_ne_spec; [assumption | lia]. Qed.

Lemma repl_spec_unique old new s r1 r2 : old <> [] -> ReplSpec old new s r1 -> ReplSpec old new s r2 -> r1 = r2.
Proof.
  intros Hold H. revert r2. induction H as [s Hn | a b r Hf Hs IH]; intros r2 Hq.
  - inversion Hq; subst; [reflexivity|]. exfalso. destruct H as [Ho _]. exact (Hn _ Ho).
  - inversion Hq; subst.
    + exfalso. destruct Hf as [Ho _]. exact (H _ Ho).
    + assert (List.length a = List.length a0) as Hl.
      { rewrite H in H0. eapply first_occ_unique; eassumption. }
      destruct (app_sep_inj _ _ _ _ _ H Hl) as [<- <-].
      f_equal. f_equal. apply IH. assumption.
Qed.

(* replaceFunc, old non-empty: the result is THE string obtained by replacing
   all non-overlapping occurrences left to right *)
Lemma replace_spec s old new : old <> [] -> ReplSpec old new s (replace s old new).
Proof.
  intros Hold. unfold replace. destruct (str_eqb old new) eqn:E.
  - apply str_eqb_eq in E. subst new.
    destruct (repl_spec_total old old s Hold) as [r Hr]. pose proof (repl_spec_same _ _ _ Hr). subst r. exact Hr.
  - destruct old; [congruence|]. apply replace_ne_spec; [discriminate | lia].
Qed.

(* old empty: new before every character and at the end *)
Lemma replace_empty_old s new : new <> [] -> replace s [] new = new ++ flat_map (fun c => c :: new) s.
Proof.
  intros H. unfold replace. destruct (str_eqb [] new) eqn:E; [apply str_eqb_eq in E; congruence|].
  induction s as [|c s IH]; simpl; [rewrite app_nil_r; reflexivity|].
  rewrite IH. reflexivity.
Qed.

Lemma replace_is_join_split s old new : old <> [] -> replace s old new = join (split s old) new.
Proof.
  intros Hold. unfold replace, split. destruct (str_eqb old new) eqn:E.
  - apply str_eqb_eq in E. subst new. destruct old; [congruence|]. symmetry. apply split_ne_join.
  - destruct old; [congruence|]. apply replace_ne_join_split.
Qed.

(* ---------- trim ---------- *)
Definition InCut (cut : str) (c : N) : Prop := In c cut.

Lemma memN_In c l : memN c l = true <-> In c l.
Proof.
  induction l as [|x l IH]; simpl; [split; [discriminate | tauto]|].
  rewrite orb_true_iff, N.eqb_eq, IH. tauto.
Qed.

Lemma trim_left_spec s cut :
  exists l, s = l ++ trim_left s cut /\ Forall (InCut cut) l /\
            match trim_left s cut with [] => True | c :: _ => ~ In c cut end.
Proof.
  induction s as [|c s (l & Hs & Hl & Hh)]; simpl.
  - exists []. repeat split; constructor.
  - destruct (memN c cut) eqn:E.
    + exists (c :: l). split; [simpl; congruence|]. split; [constructor; [apply memN_In, E | exact Hl] | exact Hh].
    + exists []. split; [reflexivity|]. split; [constructor|]. intro Hin. apply memN_In in Hin. congruence.
Qed.

Definition last_opt (s : str) : option N := match rev s with [] => None | c :: _ => Some c end.

Lemma trim_right_spec s cut :
  exists r, s = trim_right s cut ++ r /\ Forall (InCut cut) r /\
            match last_opt (trim_right s cut) with None => True | Some c => ~ In c cut end.
Proof.
  unfold trim_right, last_opt. destruct (trim_left_spec (rev s) cut) as (l & Hs & Hl & Hh).
  exists (rev l). split.
  - rewrite <- rev_app_distr, <- Hs, rev_involutive. reflexivity.
  - split; [apply Forall_rev, Hl|]. rewrite rev_involutive. destruct (trim_left (rev s) cut); exact Hh.
Qed.

Lemma trim_left_suffix_last s cut c :
  last_opt (trim_left s cut) = Some c -> last_opt s = Some c.
Proof.
  destruct (trim_left_spec s cut) as (l & Hs & _ & _). unfold last_opt. intros H.
  rewrite Hs at 1. rewrite rev_app_distr. destruct (rev (trim_left s cut)); [discriminate|]. simpl. exact H.
Qed.

(* maximal trimming: s = l ++ trim s cut ++ r with l, r made of cutset
   characters only, and the result neither starts nor ends with one *)
Lemma trim_spec s cut :
  exists l r, s = l ++ trim s cut ++ r /\ Forall (InCut cut) l /\ Forall (InCut cut) r /\
              match trim s cut with [] => True | c :: _ => ~ In c cut end /\
              match last_opt (trim s cut) with None => True | Some c => ~ In c cut end.
Proof.
  unfold trim. destruct s as [|c0 s0] eqn:Es.
  - exists [], []. repeat split; constructor.
  - destruct cut as [|k cut0] eqn:Ec.
    + exists [], []. rewrite app_nil_r. repeat split; try constructor.
      * intros [].
      * destruct (last_opt (c0 :: s0)); [intros [] | exact I].
    + rewrite <- Es, <- Ec. clear Es Ec.
      destruct (trim_right_spec s cut) as (r & Hs & Hr & Hlast).
      destruct (trim_left_spec (trim_right s cut) cut) as (l & Hs2 & Hl & Hh).
      exists l, r. split; [rewrite app_assoc, <- Hs2; exact Hs|]. repeat split; try assumption.
      destruct (last_opt (trim_left (trim_right s cut) cut)) eqn:E; [|exact I].
      apply trim_left_suffix_last in E. rewrite E in Hlast. exact Hlast.
Qed.


(* ====================================================================== *)
(** * len *)
Lemma len_str_app a b : len_str (a ++ b) = (len_str a + len_str b)%nat.
Proof. apply app_length. Qed.

Lemma len_split_chars s : List.length (split s []) = len_str s.
Proof. unfold split, explode. apply map_length. Qed.

(* ====================================================================== *)
(** * the err / errmsg protocol over histories *)

(* what a call does to the err state: the two conversions, or anything else *)
Inductive hcall := HStr2Num (s : str) | HStr2Bool (s : str) | HOther.

Section Err.
Variable o : oracles.

Definition hstep (st : errst) (c : hcall) : errst :=
  match c with
  | HStr2Num s => snd (str2num o s st)
  | HStr2Bool s => snd (str2bool o s st)
  | HOther => st
  end.
Definition hrun (st : errst) (h : list hcall) : errst := fold_left hstep h st.

(* the documentation: a conversion succeeds or fails … *)
Definition conv_succeeds (c : hcall) : bool :=
  match c with
  | HStr2Num s => match o_parse_float o s with PFOk _ => true | _ => false end
  | HStr2Bool s => mem_str s true_literals || mem_str s false_literals
  | HOther => true
  end.
(* … and err/errmsg afterwards say which: (false, "") or (true, message naming
   the function and quoting the input) *)
Definition documented_state (c : hcall) : errst :=
  if conv_succeeds c then {| e_err := false; e_msg := [] |}
  else match c with
       | HStr2Num s => {| e_err := true; e_msg := s_ "str2num: cannot parse " ++ quote o s |}
       | HStr2Bool s => {| e_err := true; e_msg := s_ "str2bool: cannot parse " ++ quote o s |}
       | HOther => {| e_err := false; e_msg := [] |}
       end.

Definition pick_conv (acc : option hcall) (c : hcall) : option hcall :=
  match c with HOther => acc | _ => Some c end.
(* the last conversion call of a history *)
Definition last_conv (h : list hcall) : option hcall := fold_left pick_conv h None.

Lemma hstep_conv st c : c <> HOther -> hstep st c = documented_state c.
Proof.
  destruct c as [s|s|]; intros H; [| |congruence]; unfold hstep, documented_state, conv_succeeds.
  - unfold str2num. destruct (o_parse_float o s); reflexivity.
  - unfold str2bool, parse_bool. destruct (mem_str s true_literals); [reflexivity|].
    destruct (mem_str s false_literals); reflexivity.
Qed.

Lemma hrun_gen h : forall st acc,
  (forall c, acc = Some c -> st = documented_state c) ->
  hrun st h = match fold_left pick_conv h acc with Some c => documented_state c | None => st end
  /\ (fold_left pick_conv h acc = None -> acc = None).
Proof.
  induction h as [|c h IH]; intros st acc Hacc; simpl.
  - split; [|tauto]. destruct acc; [apply Hacc; reflexivity | reflexivity].
  - destruct c as [s|s|].
    + destruct (IH (hstep st (HStr2Num s)) (Some (HStr2Num s))) as [E N].
      { intros c [= <-]. apply hstep_conv. discriminate. }
      split; [|intros F; apply N in F; discriminate].
      change (pick_conv acc (HStr2Num s)) with (Some (HStr2Num s)). rewrite E.
      destruct (fold_left pick_conv h (Some (HStr2Num s))) eqn:F; [reflexivity|].
      discriminate (N eq_refl).
    + destruct (IH (hstep st (HStr2Bool s)) (Some (HStr2Bool s))) as [E N].
      { intros c [= <-]. apply hstep_conv. discriminate. }
      split; [|intros F; apply N in F; discriminate].
      change (pick_conv acc (HStr2Bool s)) with (Some (HStr2Bool s)). rewrite E.
      destruct (fold_left pick_conv h (Some (HStr2Bool s))) eqn:F; [reflexivity|].
      discriminate (N eq_refl).
    + apply (IH st acc Hacc).
Qed.

(* after ANY history of calls, err and errmsg describe the last conversion
   call (set on failure, reset on success); without one they are untouched *)
Lemma err_protocol h st :
  hrun st h = match last_conv h with Some c => documented_state c | None => st end.
Proof. apply (hrun_gen h st None). discriminate. Qed.

Lemma err_after_append h st c : c <> HOther -> hrun st (h ++ [c]) = documented_state c.
Proof. intros H. unfold hrun. rewrite fold_left_app. simpl. apply hstep_conv, H. Qed.

End Err.

(* ---------- str2bool's literals ---------- *)
Lemma literals_disjoint : forallb (fun x => negb (mem_str x true_literals)) false_literals = true.
Proof. vm_compute. reflexivity. Qed.

Lemma parse_bool_true s : parse_bool s = Some true <-> In s true_literals.
Proof.
  unfold parse_bool. rewrite <- mem_str_In. destruct (mem_str s true_literals); [tauto|].
  destruct (mem_str s false_literals); split; discriminate.
Qed.

Lemma parse_bool_false s : parse_bool s = Some false <-> In s false_literals.
Proof.
  unfold parse_bool. rewrite <- (mem_str_In s false_literals).
  destruct (mem_str s true_literals) eqn:T.
  - split; [discriminate|]. intros F. pose proof literals_disjoint as D.
    rewrite forallb_forall in D. apply mem_str_In in F. apply D in F. rewrite T in F. discriminate.
  - destruct (mem_str s false_literals); split; try discriminate; reflexivity.
Qed.

Lemma parse_bool_none s : parse_bool s = None <-> ~ In s (true_literals ++ false_literals).
Proof.
  rewrite in_app_iff, <- !mem_str_In. unfold parse_bool.
  destruct (mem_str s true_literals); [split; [discriminate | intros H; exfalso; apply H; left; reflexivity]|].
  destruct (mem_str s false_literals); [split; [discriminate | intros H; exfalso; apply H; right; reflexivity]|].
  split; [intros _ [H|H]; discriminate | reflexivity].
Qed.

(* ---------- repr: map keys ---------- *)
Section Keys.
Variable o : oracles.

(* an identifier: a letter or underscore, then letters, digits, underscores *)
Definition IdentSpec (k : str) : Prop :=
  exists c t, k = c :: t /\ is_letter_ o c = true /\ Forall (fun x => is_letter_ o x = true \/ is_digit_ x = true) t.

Definition ident_rest (t : str) : bool := forallb (fun c => is_letter_ o c || is_digit_ c) t.

Lemma is_ident_loop_false t : is_ident_loop o false t = ident_rest t.
Proof.
  induction t as [|c t IH]; [reflexivity|]. simpl. rewrite <- IH.
  destruct (is_letter_ o c), (is_digit_ c); reflexivity.
Qed.

(* the loop of lexer.IsIdent computes: first character a letter/underscore, the
   rest letters, digits, underscores *)
Lemma is_ident_unfold k :
  is_ident o k = match k with [] => false | c :: t => is_letter_ o c && ident_rest t end.
Proof.
  destruct k as [|c t]; [reflexivity|]. unfold is_ident. simpl.
  rewrite is_ident_loop_false. destruct (is_letter_ o c); reflexivity.
Qed.

Lemma is_ident_spec k : is_ident o k = true <-> IdentSpec k.
Proof.
  rewrite is_ident_unfold. unfold IdentSpec, ident_rest. destruct k as [|c t].
  - split; [discriminate | intros (c & t & H & _); discriminate].
  - rewrite andb_true_iff, forallb_forall. split.
    + intros [Hc Ht]. exists c, t. split; [reflexivity|]. split; [exact Hc|].
      apply Forall_forall. intros x Hx. apply Ht in Hx. apply orb_true_iff in Hx. exact Hx.
    + intros (c' & t' & [= <- <-] & Hc & Ht). split; [exact Hc|]. intros x Hx.
      rewrite Forall_forall in Ht. apply orb_true_iff. apply Ht, Hx.
Qed.

Lemma is_ident_loop_before_fix_false t : is_ident_loop_before_fix o false t = ident_rest t.
Proof.
  induction t as [|c t IH]; [reflexivity|]. simpl. rewrite <- IH.
  destruct (is_letter_ o c), (is_digit_ c); reflexivity.
Qed.

(* before 09cb4c8 the FIRST character was never examined *)
Lemma is_ident_before_fix_unfold k :
  is_ident_before_fix o k = match k with [] => false | _ :: t => ident_rest t end.
Proof.
  destruct k as [|c t]; [reflexivity|]. unfold is_ident_before_fix. simpl.
  rewrite andb_false_r. apply is_ident_loop_before_fix_false.
Qed.

Lemma esc_char_nonempty a c : (1 <= List.length (esc_char o a c))%nat.
Proof.
  unfold esc_char.
  repeat match goal with |- context [if ?b then _ else _] => destruct b end;
    cbn; rewrite ?app_length; cbn; lia.
Qed.

Lemma flat_map_esc_length a s : (List.length s <= List.length (flat_map (esc_char o a) s))%nat.
Proof.
  induction s as [|c s IH]; simpl; [lia|]. rewrite app_length. pose proof (esc_char_nonempty a c). lia.
Qed.

Lemma quote_longer s : (List.length s + 2 <= List.length (quote o s))%nat.
Proof.
  unfold quote, quote_with. simpl. rewrite app_length. simpl. pose proof (flat_map_esc_length false s). lia.
Qed.

Lemma quote_neq s : quote o s <> s.
Proof. intros H. pose proof (quote_longer s) as L. rewrite H in L. lia. Qed.

(* keyRepr: a key is printed bare iff it is an identifier, quoted otherwise *)
Lemma key_repr_spec k :
  (key_repr o k = k <-> IdentSpec k) /\ (key_repr o k = quote o k <-> ~ IdentSpec k).
Proof.
  unfold key_repr. rewrite <- is_ident_spec. destruct (is_ident o k).
  - split; [tauto|]. split; [intros H; symmetry in H; apply quote_neq in H; contradiction | intros H; exfalso; apply H; reflexivity].
  - split; [split; [intros H; apply quote_neq in H; contradiction | discriminate] | split; [discriminate | reflexivity]].
Qed.

End Keys.

(* ====================================================================== *)
(** * test bookkeeping over histories of test outcomes *)

Fixpoint run_tests (failfast : bool) (outs : list outcome) (t : testinfo) : testinfo * option outcome :=
  match outs with
  | [] => (t, None)
  | r0 :: rest =>
      let '(r, t') := account_test failfast true r0 t in
      if stops r then (t', Some r) else run_tests failfast rest t'
  end.

(* specification, independent of the counters: which calls are executed … *)
Definition ends_run (failfast : bool) (r : outcome) : bool :=
  match r with ORet _ => false | OTestFail _ => failfast | _ => true end.
Fixpoint executed (failfast : bool) (outs : list outcome) : list outcome :=
  match outs with
  | [] => []
  | r :: rest => if ends_run failfast r then [r] else r :: executed failfast rest
  end.
Definition is_fail (r : outcome) : bool := match r with OTestFail _ => true | _ => false end.
Definition fail_msgs (l : list outcome) : list str :=
  flat_map (fun r => match r with OTestFail m => [m] | _ => [] end) l.

Lemma fail_msgs_length l : List.length (fail_msgs l) = List.length (filter is_fail l).
Proof. induction l as [|r l IH]; [reflexivity|]. destruct r; simpl; auto. Qed.

Lemma run_tests_gen ff outs : forall t,
  let '(t', stop) := run_tests ff outs t in
  t_total t' = (t_total t + List.length (executed ff outs))%nat /\
  t_errors t' = t_errors t ++ fail_msgs (executed ff outs) /\
  (stop = None <-> forallb (fun r => negb (ends_run ff r)) outs = true) /\
  (forall r, stop = Some r -> ends_run ff r = true /\ In r outs).
Proof.
  induction outs as [|r0 rest IH]; intros t; simpl.
  - rewrite Nat.add_0_r, app_nil_r. repeat split; discriminate.
  - destruct r0 as [v|k|f|msg| | |]; unfold account_test; simpl;
      try (rewrite app_nil_r; split; [lia|]; split; [reflexivity|]; split; [split; discriminate|];
           intros r' [= <-]; split; [reflexivity | left; reflexivity]).
    + (* ORet *)
      specialize (IH {| t_total := S (t_total t); t_errors := t_errors t |}).
      destruct (run_tests ff rest _) as [t' stop]. simpl in IH. destruct IH as (A & B & C & D).
      split; [lia|]. split; [assumption|]. split; [exact C|].
      intros r Hr. destruct (D r Hr). split; [assumption | right; assumption].
    + (* OTestFail *)
      destruct ff; simpl.
      * split; [lia|]. split; [reflexivity|]. split; [split; discriminate|].
        intros r [= <-]. split; [reflexivity | left; reflexivity].
      * specialize (IH {| t_total := S (t_total t); t_errors := t_errors t ++ [msg] |}).
        destruct (run_tests false rest _) as [t' stop]. simpl in IH. destruct IH as (A & B & C & D).
        split; [lia|]. split; [rewrite B, <- app_assoc; reflexivity|]. split; [exact C|].
        intros r Hr. destruct (D r Hr). split; [assumption | right; assumption].
Qed.

Lemma filter_len_le {A} (f : A -> bool) l : (List.length (filter f l) <= List.length l)%nat.
Proof. induction l as [|x l IH]; simpl; [lia|]. destruct (f x); simpl; lia. Qed.

(* over every history of test outcomes and both fail-fast settings *)
Lemma test_bookkeeping ff outs :
  let '(t, stop) := run_tests ff outs ti_init in
  let ex := executed ff outs in
  t_total t = List.length ex /\
  fail_count t = List.length (filter is_fail ex) /\
  (success_count t + fail_count t = t_total t)%nat /\
  t_errors t = fail_msgs ex /\
  (stop = None <-> forallb (fun r => negb (ends_run ff r)) outs = true) /\
  (classify stop t = RcOk <-> stop = None /\ fail_count t = 0%nat).
Proof.
  pose proof (run_tests_gen ff outs ti_init) as H. destruct (run_tests ff outs ti_init) as [t stop].
  simpl in H. destruct H as (A & B & C & D).
  assert (fail_count t = List.length (filter is_fail (executed ff outs))) as F.
  { unfold fail_count. rewrite B. apply fail_msgs_length. }
  assert (List.length (filter is_fail (executed ff outs)) <= List.length (executed ff outs))%nat as L by apply filter_len_le.
  assert (CL : classify stop t = RcOk <-> stop = None /\ fail_count t = 0%nat).
  { split.
    - intros Hc. unfold classify in Hc. destruct stop as [r|].
      + destruct (D r eq_refl) as [E _]. destruct r; simpl in *; try discriminate.
      + destruct (Nat.ltb 0 (fail_count t)) eqn:G; [discriminate|]. apply Nat.ltb_ge in G. split; [reflexivity | lia].
    - intros [-> Z0]. unfold classify. rewrite Z0. reflexivity. }
  split; [exact A|]. split; [exact F|]. split; [unfold success_count; lia|].
  split; [exact B|]. split; [exact C | exact CL].
Qed.

(* the summary: nothing for zero tests or with --no-test-summary; otherwise the
   counts of failed and passed tests with "test"/"tests" *)
Lemma report_spec ns t :
  report ns t =
  if ns || Nat.eqb (t_total t) 0 then None
  else if Nat.eqb (fail_count t) 0
       then Some (green_mark ++ nat_str (success_count t) ++ s_ " passed test" ++ plural_suffix (success_count t) ++ [10%N])
       else Some (cross_mark ++ nat_str (fail_count t) ++ s_ " failed test" ++ plural_suffix (fail_count t) ++ [10%N]
                  ++ check_mark ++ nat_str (success_count t) ++ s_ " passed test" ++ plural_suffix (success_count t) ++ [10%N]).
Proof.
  unfold report. destruct (ns || Nat.eqb (t_total t) 0); [reflexivity|].
  destruct (fail_count t); reflexivity.
Qed.

Lemma plural_suffix_spec n : plural_suffix n = [] <-> n = 1%nat.
Proof.
  unfold plural_suffix. destruct (Nat.eqb n 1) eqn:E.
  - apply Nat.eqb_eq in E. tauto.
  - apply Nat.eqb_neq in E. split; [discriminate | tauto].
Qed.

(* ====================================================================== *)
(** * exit status *)
Lemma exit_status_range f : (0 <= exit_status f < 256)%Z.
Proof. unfold exit_status. apply Z.mod_pos_bound. lia. Qed.

Lemma float_to_Z_trunc f z : float_to_Z f = Some z -> float_trunc f = Some z.
Proof.
  unfold float_to_Z, float_trunc. destruct (Prim2SF f) as [s|s| |s m e]; try discriminate; [tauto|].
  destruct (0 <=? e)%Z; [tauto|].
  destruct ((Z.pos m mod 2 ^ (- e)) =? 0)%Z; [tauto | discriminate].
Qed.

(* for an integer n in the range of Go's int: the status is n mod 256 *)
Lemma exit_status_int f z : float_to_Z f = Some z -> (- 2 ^ 63 <= z < 2 ^ 63)%Z -> exit_status f = (z mod 256)%Z.
Proof.
  intros H R. unfold exit_status, go_int64. rewrite (float_to_Z_trunc f z H).
  replace ((- 2 ^ 63 <=? z) && (z <? 2 ^ 63))%Z with true; [reflexivity|].
  symmetry. apply andb_true_iff. split; [apply Z.leb_le | apply Z.ltb_lt]; lia.
Qed.

Lemma exit_status_small f z : float_to_Z f = Some z -> (0 <= z < 256)%Z -> exit_status f = z.
Proof.
  intros H R. rewrite (exit_status_int f z H); [apply Z.mod_small; lia|].
  assert (256 < 2 ^ 63)%Z by (vm_compute; reflexivity). lia.
Qed.

(* NaN and ±Inf (no integer part at all): Go's conversion gives -2^63, status 0 *)
Lemma exit_status_nonfinite f : float_trunc f = None -> exit_status f = 0%Z.
Proof. intros H. unfold exit_status, go_int64. rewrite H. vm_compute. reflexivity. Qed.

(* ====================================================================== *)
(** * rand *)

(* binary64 facts needed: a valid finite float with exponent above the
   subnormal range has a 53-bit mantissa *)
Lemma digits2_pos_bounds m :
  (2 ^ (Z.pos (SpecFloat.digits2_pos m) - 1) <= Z.pos m < 2 ^ (Z.pos (SpecFloat.digits2_pos m)))%Z.
Proof.
  induction m as [m IH|m IH|]; simpl SpecFloat.digits2_pos.
  - rewrite Pos2Z.inj_succ. replace (Z.succ (Z.pos (SpecFloat.digits2_pos m)) - 1)%Z with (Z.succ (Z.pos (SpecFloat.digits2_pos m) - 1))%Z by lia.
    rewrite !Z.pow_succ_r by lia. lia.
  - rewrite Pos2Z.inj_succ. replace (Z.succ (Z.pos (SpecFloat.digits2_pos m)) - 1)%Z with (Z.succ (Z.pos (SpecFloat.digits2_pos m) - 1))%Z by lia.
    rewrite !Z.pow_succ_r by lia. lia.
  - simpl. lia.
Qed.

Lemma valid_normal_mantissa s m e :
  SpecFloat.valid_binary FloatOps.prec FloatOps.emax (SpecFloat.S754_finite s m e) = true ->
  (-1074 < e)%Z -> (2 ^ 52 <= Z.pos m < 2 ^ 53)%Z.
Proof.
  unfold SpecFloat.valid_binary, SpecFloat.bounded, SpecFloat.canonical_mantissa, SpecFloat.fexp, SpecFloat.emin.
  intros H He. apply andb_true_iff in H as [H _]. apply Zeq_bool_eq in H.
  change FloatOps.prec with 53%Z in H. change FloatOps.emax with 1024%Z in H.
  assert (Z.pos (SpecFloat.digits2_pos m) = 53%Z) as D by lia.
  pose proof (digits2_pos_bounds m) as B. rewrite D in B. exact B.
Qed.

Lemma prim2sf_one : Prim2SF 1 = SpecFloat.S754_finite false 4503599627370496 (-52).
Proof. vm_compute. reflexivity. Qed.
Lemma prim2sf_int31max : Prim2SF 2147483647 = SpecFloat.S754_finite false 9007199250546688 (-22).
Proof. vm_compute. reflexivity. Qed.

(* the accepted range [1, 2^31-1] (as the two float comparisons decide it)
   truncates to an integer in [1, 2^31) — in particular never NaN, never <= 0 *)
Lemma rand_domain_int32 upper :
  PrimFloat.leb 1 upper = true -> PrimFloat.leb upper 2147483647 = true ->
  (1 <= go_int32 upper < 2 ^ 31)%Z.
Proof.
  rewrite !leb_spec, prim2sf_one, prim2sf_int31max.
  pose proof (Prim2SF_valid upper) as V.
  unfold go_int32, float_trunc.
  destruct (Prim2SF upper) as [s|s| |s m e]; unfold SpecFloat.SFleb, SpecFloat.SFcompare.
  - discriminate.
  - destruct s; discriminate.
  - discriminate.
  - destruct s; [discriminate|].
    intros H1 H2.
    assert (-52 <= e)%Z as E1.
    { revert H1. destruct (Z.compare_spec (-52) e); intros H1; [lia | lia | discriminate]. }
    assert (e <= -22)%Z as E2.
    { revert H2. destruct (Z.compare_spec e (-22)); intros H2; [lia | lia | discriminate]. }
    assert (e = -22 -> Z.pos m <= 9007199250546688)%Z as E3.
    { intros ->. rewrite Z.compare_refl in H2.
      remember 9007199250546688%positive as c eqn:Hc.
      assert (m <= c)%positive as Hle.
      { unfold Pos.le, Pos.compare. intros G. rewrite G in H2. discriminate. }
      lia. }
    pose proof (valid_normal_mantissa false m e V ltac:(lia)) as M.
    destruct (0 <=? e)%Z eqn:P; [lia|].
    assert (0 < 2 ^ (- e))%Z as Q by (apply Z.pow_pos_nonneg; lia).
    assert (2 ^ (- e) <= 2 ^ 52)%Z as Q2 by (apply Z.pow_le_mono_r; lia).
    assert (1 <= Z.pos m / 2 ^ (- e))%Z as L by (apply Z.div_le_lower_bound; lia).
    assert (Z.pos m / 2 ^ (- e) < 2 ^ 31)%Z as U.
    { apply Z.div_lt_upper_bound; [exact Q|].
      destruct (Z.eq_dec e (-22)) as [->|Ne].
      - specialize (E3 eq_refl). change (2 ^ (- -22) * 2 ^ 31)%Z with 9007199254740992%Z. lia.
      - rewrite <- Z.pow_add_r by lia.
        assert (2 ^ 54 <= 2 ^ (- e + 31))%Z by (apply Z.pow_le_mono_r; lia).
        assert (2 ^ 53 < 2 ^ 54)%Z by (vm_compute; reflexivity). lia. }
    assert (- 2 ^ 31 <= Z.pos m / 2 ^ (- e))%Z as L2 by (assert (- 2 ^ 31 < 0)%Z by (vm_compute; reflexivity); lia).
    replace ((- 2 ^ 31 <=? Z.pos m / 2 ^ (- e)) && (Z.pos m / 2 ^ (- e) <? 2 ^ 31))%Z with true
      by (symmetry; apply andb_true_iff; split; [apply Z.leb_le | apply Z.ltb_lt]; assumption).
    lia.
Qed.

Section Rand.
Variable o : oracles.
Hypothesis rand_contract : forall n, (0 < n)%Z -> (0 <= o_rand o n < n)%Z.

(* rand never reaches the host crash: NaN and everything outside [1, 2^31-1]
   is rejected first, and what passes truncates to n >= 1 *)
Lemma rand_no_host_crash upper : rand_model o upper <> OHostCrash.
Proof.
  unfold rand_model. destruct (PrimFloat.leb 1 upper) eqn:A; simpl; [|discriminate].
  destruct (PrimFloat.leb upper 2147483647) eqn:B; simpl; [|discriminate].
  pose proof (rand_domain_int32 upper A B) as R.
  destruct (go_int32 upper <=? 0)%Z eqn:C; [apply Z.leb_le in C; lia | discriminate].
Qed.

(* rand n: for 1 <= n <= 2^31-1 an integer in [0, int32(n)), for every other n
   (NaN included) the documented panic — nothing else *)
Lemma rand_range upper :
  if PrimFloat.leb 1 upper && PrimFloat.leb upper 2147483647
  then exists z, rand_model o upper = ORet (VNum (float_of_Z z)) /\ (0 <= z < go_int32 upper)%Z /\ (1 <= go_int32 upper < 2 ^ 31)%Z
  else rand_model o upper = OPanic BadArguments.
Proof.
  unfold rand_model. destruct (PrimFloat.leb 1 upper) eqn:A; simpl; [|reflexivity].
  destruct (PrimFloat.leb upper 2147483647) eqn:B; simpl; [|reflexivity].
  pose proof (rand_domain_int32 upper A B) as R.
  destruct (go_int32 upper <=? 0)%Z eqn:C; [apply Z.leb_le in C; lia|].
  exists (o_rand o (go_int32 upper)). split; [reflexivity|]. split; [apply rand_contract; lia | exact R].
Qed.
End Rand.

(* ====================================================================== *)
(** * test bookkeeping through the dispatcher *)
Lemma args_accepted_variadic_any tys : args_accepted [] (Some TAny) tys = true.
Proof. induction tys as [|t tys IH]; [reflexivity|]. simpl. exact IH. Qed.

Lemma wrap_args_variadic_any args : wrap_args [] (Some TAny) args = map wrap_any args.
Proof. induction args as [|a args IH]; [reflexivity|]. simpl. rewrite IH. reflexivity. Qed.

(* the dispatcher on "test": no effect, no state change, testFunc on the any-wrapped arguments *)
Lemma call_builtin_test o args st :
  call_builtin o (s_ "test") args st = (test_func o (map wrap_any args), [], st).
Proof.
  unfold call_builtin.
  replace (find (fun s => str_eqb (s_ (b_name s)) (s_ "test")) Gen.BuiltinSigs.builtin_sigs)
    with (Some {| b_name := "test"; b_params := []; b_variadic := Some TAny; b_ret := TNone |})
    by (vm_compute; reflexivity).
  cbn [b_params b_variadic]. rewrite args_accepted_variadic_any, wrap_args_variadic_any. cbn [negb].
  unfold name_is.
  repeat match goal with
         | |- context [str_eqb (s_ "test") (s_ ?l)] =>
             let b := eval vm_compute in (str_eqb (s_ "test") (s_ l)) in
             replace (str_eqb (s_ "test") (s_ l)) with b by (vm_compute; reflexivity)
         end.
  reflexivity.
Qed.

Definition test_calls (argss : list (list val)) : list (str * list val) := map (fun a => (s_ "test", a)) argss.

(* a program that is a sequence of test calls: the bookkeeping of run_calls is
   run_tests on the outcomes of testFunc *)
Lemma run_calls_tests o ff argss : forall st t,
  let '(_, _, t', stop) := run_calls o ff (test_calls argss) st t in
  (t', stop) = run_tests ff (map (fun a => test_func o (map wrap_any a)) argss) t.
Proof.
  induction argss as [|a rest IH]; intros st t; [reflexivity|].
  cbn [test_calls map run_calls run_tests]. rewrite call_builtin_test, str_eqb_refl.
  destruct (account_test ff true (test_func o (map wrap_any a)) t) as [r t'].
  destruct (stops r); [reflexivity|].
  specialize (IH st t'). unfold test_calls in IH.
  destruct (run_calls o ff (map (fun a0 => (s_ "test", a0)) rest) st t') as [[[crs effs] t''] stop].
  cbn [app]. exact IH.
Qed.

(* the bookkeeping theorem for real programs of test calls *)
Lemma test_bookkeeping_programs o ff argss st :
  let outs := map (fun a => test_func o (map wrap_any a)) argss in
  let '(_, _, t, stop) := run_calls o ff (test_calls argss) st ti_init in
  let ex := executed ff outs in
  t_total t = List.length ex /\
  fail_count t = List.length (filter is_fail ex) /\
  (success_count t + fail_count t = t_total t)%nat /\
  t_errors t = fail_msgs ex /\
  (stop = None <-> forallb (fun r => negb (ends_run ff r)) outs = true) /\
  (classify stop t = RcOk <-> stop = None /\ fail_count t = 0%nat).
Proof.
  cbv zeta. pose proof (run_calls_tests o ff argss st ti_init) as B.
  pose proof (test_bookkeeping ff (map (fun a => test_func o (map wrap_any a)) argss)) as T.
  destruct (run_calls o ff (test_calls argss) st ti_init) as [[[crs effs] t] stop].
  rewrite <- B in T. exact T.
Qed.

(* ====================================================================== *)
(** * the text of a failed test *)

(* testMessage: nothing with <= 2 arguments; with exactly 3 the third argument
   VERBATIM (no formatting: a '%' in it is just a character); with >= 4 the
   third argument is a format string applied to the remaining arguments *)
Lemma test_message_none o args : (List.length args <= 2)%nat -> test_message o args = Some [].
Proof. destruct args as [|a [|b [|c r]]]; simpl; intros H; try reflexivity; lia. Qed.

Lemma test_message_three o a b m msg :
  any_inner m = VStr msg -> test_message o [a; b; m] = Some (s_ " (" ++ msg ++ s_ ")").
Proof. intros H. simpl. rewrite H. reflexivity. Qed.

Lemma test_message_format o a b m msg x rest :
  any_inner m = VStr msg ->
  test_message o (a :: b :: m :: x :: rest)
  = option_map (fun r => s_ " (" ++ r ++ s_ ")") (sprintf o msg (x :: rest)).
Proof. intros H. simpl. rewrite H. reflexivity. Qed.

(* the error of a failing two-value test: want != got with both values in
   repr form, followed by the message part *)
Lemma test_func_failure o want got rest tail :
  same want got = false ->
  match rest with [] => True | m :: _ => exists msg, any_inner m = VStr msg end ->
  test_message o (want :: got :: rest) = Some tail ->
  test_func o (want :: got :: rest)
  = OTestFail (s_ "want != got: " ++ vrepr o want ++ s_ " != " ++ vrepr o got ++ tail).
Proof.
  intros S M T. unfold test_func. 
  assert (match rest with [] => true | m :: _ => match any_inner m with VStr _ => true | _ => false end end = true) as OK.
  { destruct rest as [|m r]; [reflexivity|]. destruct M as [msg ->]. reflexivity. }
  rewrite OK, S, T. reflexivity.
Qed.

(* ====================================================================== *)
(** * hsl *)

(* binary64 comparison: swapping the operands reverses the result *)
Lemma SFcompare_antisym x y :
  SpecFloat.SFcompare y x = option_map CompOpp (SpecFloat.SFcompare x y).
Proof.
  destruct x as [sx|sx| |sx mx ex], y as [sy|sy| |sy my ey]; simpl; try reflexivity;
    try (destruct sx; reflexivity); try (destruct sy; reflexivity); try (destruct sx, sy; reflexivity).
  destruct sx, sy; simpl; try reflexivity; rewrite (Z.compare_antisym ex ey);
    destruct (ex ?= ey)%Z; simpl; try reflexivity.
  - rewrite (Pos.compare_cont_antisym mx my Eq). reflexivity.
  - rewrite (Pos.compare_cont_antisym mx my Eq). reflexivity.
Qed.

Lemma SFcompare_none x y : SpecFloat.SFcompare x y = None -> x = SpecFloat.S754_nan \/ y = SpecFloat.S754_nan.
Proof.
  destruct x as [sx|sx| |sx mx ex], y as [sy|sy| |sy my ey]; simpl; intros H; try discriminate; auto.
Qed.

Lemma not_nan_sf x : is_nan x = false -> Prim2SF x <> SpecFloat.S754_nan.
Proof.
  unfold is_nan. rewrite eqb_spec. intros H E. rewrite E in H. discriminate.
Qed.

(* for numbers (not NaN): x < y is the negation of y <= x *)
Lemma ltb_negb_leb x y : is_nan x = false -> is_nan y = false -> PrimFloat.ltb x y = negb (PrimFloat.leb y x).
Proof.
  intros Hx Hy. rewrite ltb_spec, leb_spec. unfold SpecFloat.SFltb, SpecFloat.SFleb.
  rewrite (SFcompare_antisym (Prim2SF x) (Prim2SF y)).
  destruct (SpecFloat.SFcompare (Prim2SF x) (Prim2SF y)) as [c|] eqn:E.
  - destruct c; reflexivity.
  - apply SFcompare_none in E. destruct E as [E|E]; [apply not_nan_sf in Hx | apply not_nan_sf in Hy]; contradiction.
Qed.

(* the code's range test and the documented range agree on numbers *)
Lemma hsl_range_tests_agree x hi : is_nan x = false -> is_nan hi = false ->
  hsl_out_of_range x hi = negb (hsl_in_range x hi).
Proof.
  intros Hx Hh. unfold hsl_out_of_range, hsl_in_range.
  rewrite (ltb_negb_leb x 0 Hx) by (vm_compute; reflexivity). rewrite (ltb_negb_leb hi x Hh Hx).
  rewrite negb_andb. reflexivity.
Qed.

Section HslFacts.
Variable o : oracles.

(* wrong number of arguments: the documented panic, whatever the values *)
Lemma hsl_arg_count bad nums : (List.length nums = 0 \/ 5 <= List.length nums)%nat ->
  hsl_with o bad nums = OPanic BadArguments.
Proof.
  destruct nums as [|a [|b [|c [|d [|e r]]]]]; simpl; intros H; try reflexivity; lia.
Qed.

Lemma hsl_with_ext bad1 bad2 nums :
  (forall x, In x nums -> bad1 x 360%float = bad2 x 360%float /\ bad1 x 100%float = bad2 x 100%float) ->
  hsl_with o bad1 nums = hsl_with o bad2 nums.
Proof.
  intros H. destruct nums as [|a [|b [|c [|d [|e r]]]]]; try reflexivity; unfold hsl_with;
    repeat match goal with
           | |- context [bad1 ?x 360%float] => rewrite (proj1 (H x ltac:(simpl; tauto)))
           | |- context [bad1 ?x 100%float] => rewrite (proj2 (H x ltac:(simpl; tauto)))
           end; reflexivity.
Qed.

(* documented acceptance: hue in [0,360], the others in [0,100] *)
Definition hsl_args_ok (nums : list float) : bool :=
  match nums with
  | [] => false
  | h :: rest => hsl_in_range h 360 && forallb (fun x => hsl_in_range x 100) rest
  end.

(* hsl: accepted exactly when 1..4 arguments are all
   in their documented ranges; missing arguments default to 100, 50, 100; the
   result has the documented shape *)
Lemma hsl_model_spec nums : (1 <= List.length nums <= 4)%nat ->
  hsl_model o nums =
  if hsl_args_ok nums
  then ORet (VStr (hsl_text o (nth 0 nums 0%float) (nth 1 nums 100%float) (nth 2 nums 50%float) (nth 3 nums 100%float)))
  else OPanic BadArguments.
Proof.
  destruct nums as [|a [|b [|c [|d [|e r]]]]]; simpl; intros H; try lia;
    unfold hsl_model, hsl_with; simpl;
    repeat match goal with |- context [hsl_in_range ?x ?hi] => destruct (hsl_in_range x hi); simpl end;
    reflexivity.
Qed.

(* the tests before 1433667 (`x < 0 || x > max`) gave the same result for numbers *)
Lemma hsl_before_fix_agrees nums : Forall (fun x => is_nan x = false) nums ->
  hsl_before_fix o nums = hsl_model o nums.
Proof.
  intros F. apply hsl_with_ext. intros x Hin.
  rewrite Forall_forall in F. specialize (F x Hin).
  split; apply hsl_range_tests_agree; try exact F; vm_compute; reflexivity.
Qed.

(* defaults: saturation 100, lightness 50, alpha 100 *)
Lemma hsl_defaults h sa l :
  hsl_model o [h] = hsl_model o [h; 100%float; 50%float; 100%float] /\
  hsl_model o [h; sa] = hsl_model o [h; sa; 50%float; 100%float] /\
  hsl_model o [h; sa; l] = hsl_model o [h; sa; l; 100%float].
Proof.
  assert (A : hsl_in_range 100 100 = true) by (vm_compute; reflexivity).
  assert (B : hsl_in_range 50 100 = true) by (vm_compute; reflexivity).
  unfold hsl_model, hsl_with. rewrite A, B.
  repeat split; repeat match goal with |- context [hsl_in_range ?x ?hi] => destruct (hsl_in_range x hi) end; reflexivity.
Qed.

End HslFacts.

(* float constants for Props/C13.v (which does not import Floats, so that Print
   Assumptions shows the primitive operations with their qualified names) *)
Definition fc_nan : float := nan.
Definition fc_inf : float := infinity.
Definition fc_zero : float := zero.
Definition fc_one : float := one.
Definition fc_int31max : float := 2147483647%float.
Definition fc_half : float := 0.5%float.
Definition fc_lit (z : Z) : float := float_of_Z z.
Definition fc_frac (num den : Z) : float := PrimFloat.div (float_of_Z num) (float_of_Z den).

(* ====================================================================== *)
(** * the err protocol through the dispatcher: every built-in, every program *)
Definition hcall_of (name : str) (args : list val) : hcall :=
  if str_eqb name (s_ "str2num") then match args with [VStr s] => HStr2Num s | _ => HOther end
  else if str_eqb name (s_ "str2bool") then match args with [VStr s] => HStr2Bool s | _ => HOther end
  else HOther.

Lemma call_builtin_err_other o name args st :
  str_eqb name (s_ "str2num") = false -> str_eqb name (s_ "str2bool") = false ->
  b_err (snd (call_builtin o name args st)) = b_err st.
Proof.
  intros N1 N2. unfold call_builtin.
  destruct (find _ _) as [sg|]; [|reflexivity].
  destruct (negb _); [reflexivity|].
  unfold name_is.
  repeat match goal with
         | |- context [if str_eqb name ?l then _ else _] =>
             let E := fresh "E" in destruct (str_eqb name l) eqn:E
         end;
    try congruence; try reflexivity;
    repeat match goal with
           | |- context [match ?x with _ => _ end] => destruct x
           end; try reflexivity.
Qed.

Lemma call_builtin_err_conv o (isnum : bool) args st :
  let name := if isnum then s_ "str2num" else s_ "str2bool" in
  b_err (snd (call_builtin o name args st)) = hstep o (b_err st) (hcall_of name args).
Proof.
  destruct isnum; cbv zeta.
  - destruct args as [|v [|w r]]; [vm_compute; reflexivity | | destruct v; vm_compute; reflexivity].
    destruct v; try (vm_compute; reflexivity).
    unfold hcall_of. rewrite str_eqb_refl. cbn [hstep].
    destruct st as [e0 ins]. unfold call_builtin. cbv -[str2num]. destruct (str2num o s e0). reflexivity.
  - destruct args as [|v [|w r]]; [vm_compute; reflexivity | | destruct v; vm_compute; reflexivity].
    destruct v; try (vm_compute; reflexivity).
    unfold hcall_of. replace (str_eqb (s_ "str2bool") (s_ "str2num")) with false by (vm_compute; reflexivity).
    rewrite str_eqb_refl. cbn [hstep].
    destruct st as [e0 ins]. unfold call_builtin. cbv -[str2bool]. destruct (str2bool o s e0). reflexivity.
Qed.

(* what any built-in call does to err/errmsg *)
Lemma call_builtin_err o name args st :
  b_err (snd (call_builtin o name args st)) = hstep o (b_err st) (hcall_of name args).
Proof.
  destruct (str_eqb name (s_ "str2num")) eqn:E1.
  - apply str_eqb_eq in E1. subst name. apply (call_builtin_err_conv o true).
  - destruct (str_eqb name (s_ "str2bool")) eqn:E2.
    + apply str_eqb_eq in E2. subst name. apply (call_builtin_err_conv o false).
    + unfold hcall_of. rewrite E1, E2. apply call_builtin_err_other; assumption.
Qed.

Definition calls_hist (calls : list (str * list val)) : list hcall :=
  map (fun c => hcall_of (fst c) (snd c)) calls.

(* in a program that is any sequence of built-in calls, the err state observed
   after the i-th executed call is the history's *)
Lemma run_calls_err o ff calls : forall st t i cr,
  nth_error (fst (fst (fst (run_calls o ff calls st t)))) i = Some cr ->
  c_err cr = hrun o (b_err st) (firstn (S i) (calls_hist calls)).
Proof.
  induction calls as [|[name args] rest IH]; intros st t i cr; simpl.
  - destruct i; discriminate.
  - pose proof (call_builtin_err o name args st) as HE.
    destruct (call_builtin o name args st) as [[r0 effs] st']. simpl in HE.
    destruct (account_test ff (str_eqb name (s_ "test")) r0 t) as [r t'].
    destruct (stops r).
    + simpl. destruct i as [|i]; [|destruct i; discriminate].
      intros [= <-]. simpl. exact HE.
    + specialize (IH st' t').
      destruct (run_calls o ff rest st' t') as [[[crs effs'] t''] stop]. simpl in *.
      destruct i as [|i].
      * intros [= <-]. simpl. exact HE.
      * intros H. rewrite (IH i cr H). rewrite HE. reflexivity.
Qed.

(* … hence err/errmsg after the i-th call describe the last conversion among
   the first i+1 calls (set on failure, reset on success) *)
Lemma run_calls_err_protocol o ff calls st t i cr :
  nth_error (fst (fst (fst (run_calls o ff calls st t)))) i = Some cr ->
  c_err cr = match last_conv (firstn (S i) (calls_hist calls)) with
             | Some c => documented_state o c
             | None => b_err st
             end.
Proof. intros H. rewrite (run_calls_err o ff calls st t i cr H). apply err_protocol. Qed.
Definition fc_360 : float := 360%float.
Definition fc_100 : float := 100%float.
Definition fc_50 : float := 50%float.
