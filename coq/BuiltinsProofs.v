(* BuiltinsProofs.v — lemmas about the model of the built-ins (Builtins.v). *)
From Coq Require Import ZArith NArith List Bool Lia ZifyBool ZifyNat ZifyN Floats Arith.
From EvyV Require Import Base BuiltinTy Builtins.
Import ListNotations.

(* ====================================================================== *)
(** * independent list specifications *)

(* [sub] occurs in [s] at position [i] (in code points) *)
Definition Occurs (sub s : str) (i : nat) : Prop :=
  exists a b, s = a ++ sub ++ b /\ List.length a = i.
(* … and nowhere before *)
Definition FirstOcc (sub s : str) (i : nat) : Prop :=
  Occurs sub s i /\ forall j, Occurs sub s j -> (i <= j)%nat.
Definition NoOcc (sub s : str) : Prop := forall i, ~ Occurs sub s i.

Definition IsPrefix (p s : str) : Prop := exists t, s = p ++ t.
Definition IsSuffix (suf s : str) : Prop := exists t, s = t ++ suf.

Lemma firstn_exact {A} (a r : list A) : firstn (List.length a) (a ++ r) = a.
Proof. induction a; simpl; [destruct r; reflexivity | f_equal; assumption]. Qed.

Lemma skipn_exact {A} (a r : list A) : skipn (List.length a) (a ++ r) = r.
Proof. induction a; simpl; [reflexivity | assumption]. Qed.

Lemma skipn_exact2 {A} (a m r : list A) : skipn (List.length a + List.length m) (a ++ m ++ r) = r.
Proof. rewrite <- app_length, app_assoc. apply skipn_exact. Qed.

(* ---------- prefix / suffix ---------- *)
Lemma prefixb_spec p s : prefixb p s = true <-> IsPrefix p s.
Proof.
  revert s; induction p as [|x p IH]; intros s; simpl.
  - split; [intros _; exists s; reflexivity | reflexivity].
  - destruct s as [|y s].
    + split; [discriminate | intros [t H]; discriminate].
    + rewrite andb_true_iff, N.eqb_eq, IH. split.
      * intros [-> [t ->]]. exists t. reflexivity.
      * intros [t H]. inversion H; subst. split; [reflexivity | exists t; reflexivity].
Qed.

Lemma startswith_spec s p : startswith s p = true <-> IsPrefix p s.
Proof. apply prefixb_spec. Qed.

Lemma endswith_spec s suf : endswith s suf = true <-> IsSuffix suf s.
Proof.
  unfold endswith. rewrite andb_true_iff, Nat.leb_le, str_eqb_eq. split.
  - intros [Hle Heq]. exists (firstn (List.length s - List.length suf) s).
    rewrite <- Heq at 2. symmetry. apply firstn_skipn.
  - intros [t ->]. rewrite app_length. split; [lia|].
    replace (List.length t + List.length suf - List.length suf)%nat with (List.length t + 0)%nat by lia.
    rewrite skipn_app, Nat.add_0_r, skipn_all.
    replace (List.length t - List.length t)%nat with 0%nat by lia. reflexivity.
Qed.

(* ---------- index ---------- *)
Lemma occurs_0_prefix sub s : Occurs sub s 0 <-> IsPrefix sub s.
Proof.
  split.
  - intros (a & b & -> & Hl). destruct a; [|discriminate]. exists b. reflexivity.
  - intros [t ->]. exists [], t. split; reflexivity.
Qed.

Lemma occurs_cons sub c s i : Occurs sub (c :: s) (S i) <-> Occurs sub s i.
Proof.
  split.
  - intros (a & b & H & Hl). destruct a as [|x a]; [discriminate|].
    simpl in H. inversion H; subst. exists a, b. split; [reflexivity | simpl in Hl; lia].
  - intros (a & b & -> & Hl). exists (c :: a), b. split; [reflexivity | simpl; lia].
Qed.

Lemma occurs_nil_inv sub i : Occurs sub [] i -> sub = [] /\ i = 0%nat.
Proof.
  intros (a & b & H & Hl). symmetry in H. apply app_eq_nil in H as [-> H].
  apply app_eq_nil in H as [-> _]. split; [reflexivity | simpl in Hl; lia].
Qed.

Lemma index_from_some k s sub n :
  index_from k s sub = Some n -> exists i, n = (k + i)%nat /\ FirstOcc sub s i.
Proof.
  revert k; induction s as [|c s IH]; intros k; simpl.
  - destruct (prefixb sub []) eqn:E; [|discriminate].
    intros [= <-]. exists 0%nat. split; [lia|]. split; [|intros; lia].
    apply occurs_0_prefix, prefixb_spec, E.
  - destruct (prefixb sub (c :: s)) eqn:E.
    + intros [= <-]. exists 0%nat. split; [lia|]. split; [|intros; lia].
      apply occurs_0_prefix, prefixb_spec, E.
    + intros H. apply IH in H as (i & -> & Ho & Hmin). exists (S i). split; [lia|]. split.
      * apply occurs_cons, Ho.
      * intros [|j] Hj.
        -- apply occurs_0_prefix, prefixb_spec in Hj. congruence.
        -- apply (proj1 (occurs_cons sub c s j)) in Hj. apply Hmin in Hj. lia.
Qed.

Lemma index_from_none k s sub : index_from k s sub = None -> NoOcc sub s.
Proof.
  revert k; induction s as [|c s IH]; intros k; simpl.
  - destruct (prefixb sub []) eqn:E; [discriminate|]. intros _ i Ho.
    destruct (occurs_nil_inv _ _ Ho) as [-> _]. discriminate.
  - destruct (prefixb sub (c :: s)) eqn:E; [discriminate|]. intros H [|i] Ho.
    + apply occurs_0_prefix, prefixb_spec in Ho. congruence.
    + apply (proj1 (occurs_cons sub c s i)) in Ho. exact (IH _ H i Ho).
Qed.

Lemma first_occ_unique sub s i j : FirstOcc sub s i -> FirstOcc sub s j -> i = j.
Proof. intros [H1 M1] [H2 M2]. apply M1 in H2. apply M2 in H1. lia. Qed.

Lemma index_cp_spec s sub :
  match index_cp s sub with
  | Some i => FirstOcc sub s i
  | None => NoOcc sub s
  end.
Proof.
  unfold index_cp. destruct (index_from 0 s sub) eqn:E.
  - apply index_from_some in E as (i & -> & H). exact H.
  - eapply index_from_none, E.
Qed.

Lemma index_cp_some_iff s sub i : index_cp s sub = Some i <-> FirstOcc sub s i.
Proof.
  pose proof (index_cp_spec s sub) as H. split.
  - intros E. rewrite E in H. exact H.
  - intros F. destruct (index_cp s sub) as [j|].
    + f_equal. eapply first_occ_unique; eassumption.
    + destruct F as [Ho _]. exfalso. exact (H i Ho).
Qed.

Lemma index_cp_none_iff s sub : index_cp s sub = None <-> NoOcc sub s.
Proof.
  pose proof (index_cp_spec s sub) as H. split.
  - intros E. rewrite E in H. exact H.
  - intros N. destruct (index_cp s sub) as [j|]; [|reflexivity].
    destruct H as [Ho _]. exfalso. exact (N j Ho).
Qed.

(* the corrected index: position in code points of the first occurrence, or -1 *)
Lemma index_fixed_spec s sub :
  (forall i, index_fixed s sub = Z.of_nat i <-> FirstOcc sub s i) /\
  (index_fixed s sub = (-1)%Z <-> NoOcc sub s).
Proof.
  unfold index_fixed. split.
  - intros i. rewrite <- index_cp_some_iff. destruct (index_cp s sub).
    + split; [intros H; f_equal; lia | intros [= ->]; reflexivity].
    + split; [lia | discriminate].
  - rewrite <- index_cp_none_iff. destruct (index_cp s sub); split; try reflexivity; try discriminate; lia.
Qed.

(* the code's index: the same occurrence, measured in bytes of the prefix *)
Lemma index_bytes_spec s sub :
  (forall i, FirstOcc sub s i -> index_bytes s sub = Z.of_nat (utf8_len (firstn i s))) /\
  (index_bytes s sub = (-1)%Z <-> NoOcc sub s).
Proof.
  unfold index_bytes. split.
  - intros i F. apply index_cp_some_iff in F. rewrite F. reflexivity.
  - rewrite <- index_cp_none_iff. destruct (index_cp s sub); split; try reflexivity; try discriminate; lia.
Qed.

Lemma utf8_width_pos c : (1 <= utf8_width c <= 4)%nat.
Proof. unfold utf8_width. repeat destruct (_ <? _)%N; lia. Qed.

Lemma utf8_len_ge s : (List.length s <= utf8_len s)%nat.
Proof. induction s as [|c s IH]; simpl; [lia|]. pose proof (utf8_width_pos c). lia. Qed.

Lemma utf8_len_ascii s : utf8_len s = List.length s <-> Forall (fun c => (c < 128)%N) s.
Proof.
  induction s as [|c s IH]; simpl.
  - split; [constructor | reflexivity].
  - pose proof (utf8_len_ge s) as Hge. pose proof (utf8_width_pos c) as Hw. split.
    + intros H. assert (utf8_width c = 1%nat) as Hw1 by lia. assert (utf8_len s = List.length s) as Hl by lia.
      constructor; [|apply IH; assumption].
      unfold utf8_width in Hw1. destruct (c <? 128)%N eqn:E; [lia|].
      repeat destruct (_ <? _)%N; discriminate.
    + intros H. inversion H as [|? ? Hc Hs]; subst. apply IH in Hs. unfold utf8_width.
      destruct (c <? 128)%N eqn:E; lia.
Qed.

(* on ASCII prefixes the two coincide; they differ exactly when a non-ASCII
   character precedes the occurrence *)
Lemma index_bytes_eq_fixed_iff s sub i :
  FirstOcc sub s i -> (index_bytes s sub = index_fixed s sub <-> Forall (fun c => (c < 128)%N) (firstn i s)).
Proof.
  intros F. pose proof F as F'. apply index_cp_some_iff in F. unfold index_bytes, index_fixed. rewrite F.
  rewrite <- utf8_len_ascii. destruct F' as [(a & b & -> & Hl) _].
  subst i. rewrite firstn_exact. lia.
Qed.

(* ---------- join / split ---------- *)
Lemma join_cons x l sep : l <> [] -> join (x :: l) sep = x ++ sep ++ join l sep.
Proof. destruct l; [congruence | reflexivity]. Qed.

Lemma occurs_decompose sub s i : Occurs sub s i -> s = firstn i s ++ sub ++ skipn (i + List.length sub) s.
Proof.
  intros (a & b & -> & <-). rewrite firstn_exact, skipn_exact2. reflexivity.
Qed.

Lemma split_ne_nonempty f s sep : split_ne f s sep <> [].
Proof. destruct f; simpl; [|destruct (index_cp s sep)]; discriminate. Qed.

Lemma split_ne_join fuel s sep : join (split_ne fuel s sep) sep = s.
Proof.
  revert s; induction fuel as [|f IH]; intros s; simpl; [reflexivity|].
  destruct (index_cp s sep) as [m|] eqn:E; [|reflexivity].
  rewrite join_cons.
  - rewrite IH. apply index_cp_some_iff in E as [Ho _]. symmetry. apply occurs_decompose, Ho.
  - apply split_ne_nonempty.
Qed.

Lemma join_explode s : join (explode s) [] = s.
Proof.
  induction s as [|c s IH]; [reflexivity|]. unfold explode in *. simpl map.
  destruct s as [|d s]; [reflexivity|]. rewrite join_cons by discriminate. rewrite IH. reflexivity.
Qed.

(* join (split s sep) sep = s — for every s and every sep (also the empty one) *)
Lemma split_join s sep : join (split s sep) sep = s.
Proof.
  unfold split. destruct sep; [apply join_explode | apply split_ne_join].
Qed.

(* the pieces of a split: each separator found is the leftmost one in what
   remains, and the last piece contains none *)
Inductive SplitSpec (sep : str) : str -> list str -> Prop :=
| SS_last s : NoOcc sep s -> SplitSpec sep s [s]
| SS_cons a b ps : FirstOcc sep (a ++ sep ++ b) (List.length a) -> SplitSpec sep b ps ->
                   SplitSpec sep (a ++ sep ++ b) (a :: ps).

Lemma split_ne_spec fuel s sep : sep <> [] -> (List.length s < fuel)%nat -> SplitSpec sep s (split_ne fuel s sep).
Proof.
  intros Hsep. revert s; induction fuel as [|f IH]; intros s Hf; [lia|]. simpl.
  destruct (index_cp s sep) as [m|] eqn:E.
  - apply index_cp_some_iff in E. pose proof E as [Ho _]. pose proof Ho as (a & b & Hs & Hl).
    pose proof (occurs_decompose _ _ _ Ho) as Hd.
    assert (firstn m s = a) as Ha by (subst s m; apply firstn_exact).
    assert (skipn (m + List.length sep) s = b) as Hb.
    { subst s m. apply skipn_exact2. }
    rewrite Ha, Hb. rewrite Hs. apply SS_cons.
    + rewrite <- Hs, Hl. exact E.
    + apply IH. subst s. rewrite !app_length in Hf. destruct sep; [congruence|]. simpl in Hf. lia.
  - apply SS_last. apply index_cp_none_iff, E.
Qed.

Lemma split_spec s sep : sep <> [] -> SplitSpec sep s (split s sep).
Proof.
  intros H. unfold split. destruct sep; [congruence|]. apply split_ne_spec; [discriminate | lia].
Qed.

Lemma split_empty_sep s : split s [] = map (fun c => [c]) s.
Proof. reflexivity. Qed.

Lemma split_empty_empty : split [] [] = [].
Proof. reflexivity. Qed.

Lemma split_empty_string sep : sep <> [] -> split [] sep = [[]].
Proof.
  intros H. destruct sep as [|c sep]; [congruence|]. unfold split. simpl.
  unfold index_cp. simpl. reflexivity.
Qed.

Lemma app_sep_inj (sep a b a0 b0 : str) :
  a0 ++ sep ++ b0 = a ++ sep ++ b -> List.length a = List.length a0 -> a = a0 /\ b = b0.
Proof.
  intros H Hl. pose proof (f_equal (firstn (List.length a)) H) as Hfst.
  rewrite firstn_exact in Hfst. rewrite Hl, firstn_exact in Hfst. subst a0.
  apply app_inv_head in H. apply app_inv_head in H. split; congruence.
Qed.

(* a SplitSpec determines the pieces: the specification is functional *)
Lemma split_spec_unique sep s ps qs : sep <> [] -> SplitSpec sep s ps -> SplitSpec sep s qs -> ps = qs.
Proof.
  intros Hsep H. revert qs. induction H as [s Hn | a b ps Hf Hs IH]; intros qs Hq.
  - inversion Hq; subst; [reflexivity|]. exfalso. destruct H as [Ho _]. exact (Hn _ Ho).
  - inversion Hq; subst.
    + exfalso. destruct Hf as [Ho _]. exact (H _ Ho).
    + assert (List.length a = List.length a0) as Hl.
      { rewrite H in H0. eapply first_occ_unique; eassumption. }
      destruct (app_sep_inj _ _ _ _ _ H Hl) as [<- <-].
      f_equal. apply IH. assumption.
Qed.

(* ---------- replace ---------- *)
(* all non-overlapping occurrences, left to right *)
Inductive ReplSpec (old new : str) : str -> str -> Prop :=
| RS_none s : NoOcc old s -> ReplSpec old new s s
| RS_occ a b r : FirstOcc old (a ++ old ++ b) (List.length a) -> ReplSpec old new b r ->
                 ReplSpec old new (a ++ old ++ b) (a ++ new ++ r).

Lemma replace_ne_spec fuel s old new : old <> [] -> (List.length s < fuel)%nat -> ReplSpec old new s (replace_ne fuel s old new).
Proof.
  intros Hold. revert s; induction fuel as [|f IH]; intros s Hf; [lia|]. simpl.
  destruct (index_cp s old) as [m|] eqn:E.
  - apply index_cp_some_iff in E. pose proof E as [Ho _]. pose proof Ho as (a & b & Hs & Hl).
    assert (firstn m s = a) as Ha by (subst s m; apply firstn_exact).
    assert (skipn (m + List.length old) s = b) as Hb.
    { subst s m. apply skipn_exact2. }
    rewrite Ha, Hb. rewrite Hs at 1. apply RS_occ.
    + rewrite <- Hs, Hl. exact E.
    + apply IH. subst s. rewrite !app_length in Hf. destruct old; [congruence|]. simpl in Hf. lia.
  - apply RS_none. apply index_cp_none_iff, E.
Qed.

Lemma replace_ne_join_split fuel s old new : replace_ne fuel s old new = join (split_ne fuel s old) new.
Proof.
  revert s; induction fuel as [|f IH]; intros s; simpl; [reflexivity|].
  destruct (index_cp s old) as [m|] eqn:E; [|reflexivity].
  rewrite join_cons.
  - rewrite IH. reflexivity.
  - apply split_ne_nonempty.
Qed.

Lemma repl_spec_same old s r : ReplSpec old old s r -> r = s.
Proof. induction 1; [reflexivity | congruence]. Qed.

Lemma repl_spec_total old new s : old <> [] -> exists r, ReplSpec old new s r.
Proof. intros H. exists (replace_ne (S (List.length s)) s old new). apply replace_ne_spec; [assumption | lia]. Qed.

Lemma repl_spec_unique old new s r1 r2 : old <> [] -> ReplSpec old new s r1 -> ReplSpec old new s r2 -> r1 = r2.
Proof.
  intros Hold H. revert r2. induction H as [s Hn | a b r Hf Hs IH]; intros r2 Hq.
  - inversion Hq; subst; [reflexivity|]. exfalso. destruct H as [Ho _]. exact (Hn _ Ho).
  - inversion Hq; subst.
    + exfalso. destruct Hf as [Ho _]. exact (H _ Ho).
    + assert (List.length a = List.length a0) as Hl.
      { rewrite H in H0. eapply first_occ_unique; eassumption. }
      destruct (app_sep_inj _ _ _ _ _ H Hl) as [<- <-].
      f_equal. f_equal. apply IH. assumption.
Qed.

(* replaceFunc, old non-empty: the result is THE string obtained by replacing
   all non-overlapping occurrences left to right *)
Lemma replace_spec s old new : old <> [] -> ReplSpec old new s (replace s old new).
Proof.
  intros Hold. unfold replace. destruct (str_eqb old new) eqn:E.
  - apply str_eqb_eq in E. subst new.
    destruct (repl_spec_total old old s Hold) as [r Hr]. pose proof (repl_spec_same _ _ _ Hr). subst r. exact Hr.
  - destruct old; [congruence|]. apply replace_ne_spec; [discriminate | lia].
Qed.

(* old empty: new before every character and at the end *)
Lemma replace_empty_old s new : new <> [] -> replace s [] new = new ++ flat_map (fun c => c :: new) s.
Proof.
  intros H. unfold replace. destruct (str_eqb [] new) eqn:E; [apply str_eqb_eq in E; congruence|].
  induction s as [|c s IH]; simpl; [rewrite app_nil_r; reflexivity|].
  rewrite IH. reflexivity.
Qed.

Lemma replace_is_join_split s old new : old <> [] -> replace s old new = join (split s old) new.
Proof.
  intros Hold. unfold replace, split. destruct (str_eqb old new) eqn:E.
  - apply str_eqb_eq in E. subst new. destruct old; [congruence|]. symmetry. apply split_ne_join.
  - destruct old; [congruence|]. apply replace_ne_join_split.
Qed.

(* ---------- trim ---------- *)
Definition InCut (cut : str) (c : N) : Prop := In c cut.

Lemma memN_In c l : memN c l = true <-> In c l.
Proof.
  induction l as [|x l IH]; simpl; [split; [discriminate | tauto]|].
  rewrite orb_true_iff, N.eqb_eq, IH. tauto.
Qed.

Lemma trim_left_spec s cut :
  exists l, s = l ++ trim_left s cut /\ Forall (InCut cut) l /\
            match trim_left s cut with [] => True | c :: _ => ~ In c cut end.
Proof.
  induction s as [|c s (l & Hs & Hl & Hh)]; simpl.
  - exists []. repeat split; constructor.
  - destruct (memN c cut) eqn:E.
    + exists (c :: l). split; [simpl; congruence|]. split; [constructor; [apply memN_In, E | exact Hl] | exact Hh].
    + exists []. split; [reflexivity|]. split; [constructor|]. intro Hin. apply memN_In in Hin. congruence.
Qed.

Definition last_opt (s : str) : option N := match rev s with [] => None | c :: _ => Some c end.

Lemma trim_right_spec s cut :
  exists r, s = trim_right s cut ++ r /\ Forall (InCut cut) r /\
            match last_opt (trim_right s cut) with None => True | Some c => ~ In c cut end.
Proof.
  unfold trim_right, last_opt. destruct (trim_left_spec (rev s) cut) as (l & Hs & Hl & Hh).
  exists (rev l). split.
  - rewrite <- rev_app_distr, <- Hs, rev_involutive. reflexivity.
  - split; [apply Forall_rev, Hl|]. rewrite rev_involutive. destruct (trim_left (rev s) cut); exact Hh.
Qed.

Lemma trim_left_suffix_last s cut c :
  last_opt (trim_left s cut) = Some c -> last_opt s = Some c.
Proof.
  destruct (trim_left_spec s cut) as (l & Hs & _ & _). unfold last_opt. intros H.
  rewrite Hs at 1. rewrite rev_app_distr. destruct (rev (trim_left s cut)); [discriminate|]. simpl. exact H.
Qed.

(* maximal trimming: s = l ++ trim s cut ++ r with l, r made of cutset
   characters only, and the result neither starts nor ends with one *)
Lemma trim_spec s cut :
  exists l r, s = l ++ trim s cut ++ r /\ Forall (InCut cut) l /\ Forall (InCut cut) r /\
              match trim s cut with [] => True | c :: _ => ~ In c cut end /\
              match last_opt (trim s cut) with None => True | Some c => ~ In c cut end.
Proof.
  unfold trim. destruct s as [|c0 s0] eqn:Es.
  - exists [], []. repeat split; constructor.
  - destruct cut as [|k cut0] eqn:Ec.
    + exists [], []. rewrite app_nil_r. repeat split; try constructor.
      * intros [].
      * destruct (last_opt (c0 :: s0)); [intros [] | exact I].
    + rewrite <- Es, <- Ec. clear Es Ec.
      destruct (trim_right_spec s cut) as (r & Hs & Hr & Hlast).
      destruct (trim_left_spec (trim_right s cut) cut) as (l & Hs2 & Hl & Hh).
      exists l, r. split; [rewrite app_assoc, <- Hs2; exact Hs|]. repeat split; try assumption.
      destruct (last_opt (trim_left (trim_right s cut) cut)) eqn:E; [|exact I].
      apply trim_left_suffix_last in E. rewrite E in Hlast. exact Hlast.
Qed.

