(* CompileSymProofs.v — what a compiled statement may do to the compiler's
   symbol table: the relation SX (a preorder) that replaces `the symbol table
   is unchanged` once blocks declare locals; the bound on local slots
   (SymTabProofs.bound, the LocalCount the table will end with) only grows. *)
From Coq Require Import ZArith NArith List Bool Lia ZifyBool ZifyNat ZifyN.
From EvyV Require Import Base SymTab SymTabProofs Bytecode Compile CompileSem CompileWfProofs.
Import ListNotations.
Open Scope N_scope.

Record SX (s s' : symtab) : Prop := {
  sx_out : outers s' = outers s;
  sx_inv : Inv s -> Inv s';
  sx_bound : bound s <= bound s';
  sx_gbw : forall gc, gbw s gc -> gbw s' gc;
  sx_top : outers s = [] -> store (cur s') = store (cur s) /\ index (cur s') = index (cur s)
}.

Lemma SX_refl s : SX s s.
Proof. constructor; auto. lia. Qed.

Lemma SX_eq s s' : s' = s -> SX s s'.
Proof. intros ->. apply SX_refl. Qed.

Lemma SX_trans s1 s2 s3 : SX s1 s2 -> SX s2 s3 -> SX s1 s3.
Proof.
  intros A B. constructor.
  - rewrite (sx_out _ _ B). apply (sx_out _ _ A).
  - intro H. apply (sx_inv _ _ B), (sx_inv _ _ A), H.
  - pose proof (sx_bound _ _ A). pose proof (sx_bound _ _ B). lia.
  - intros gc H. apply (sx_gbw _ _ B), (sx_gbw _ _ A), H.
  - intro H. destruct (sx_top _ _ A H) as [E1 E2].
    assert (H2 : outers s2 = []) by (rewrite (sx_out _ _ A); exact H).
    destruct (sx_top _ _ B H2) as [F1 F2]. split; congruence.
Qed.

(* a block: enterScope; body; leaveScope *)
Lemma SX_block s s3 : SX (st_push s) s3 -> SX s (st_pop s3).
Proof.
  intro A. pose proof (sx_out _ _ A) as HO. cbn [st_push outers] in HO.
  assert (EP : st_pop s3 = {| cur := {| store := store (cur s); index := index (cur s);
                                         nmax := N.max (nmax (cur s)) (nmax (cur s3) + index (cur s3)) |};
                              outers := outers s |}).
  { unfold st_pop. rewrite HO. reflexivity. }
  constructor.
  - rewrite EP. reflexivity.
  - intro H. apply inv_pop, (sx_inv _ _ A), inv_push, H.
  - pose proof (bound_step SPush s) as B1. pose proof (sx_bound _ _ A) as B2. pose proof (bound_step SPop s3) as B3.
    cbn [st_step fst] in B1, B3. lia.
  - intros gc H n y HR. apply (H n y). rewrite EP in HR. unfold st_resolve in *. cbn [cur outers resolve_in store] in *. exact HR.
  - intros _. rewrite EP. cbn [cur store index]. auto.
Qed.

Lemma resolve_push' n s : st_resolve n (st_push s) = st_resolve n s.
Proof. unfold st_resolve, st_push. reflexivity. Qed.

Lemma gbw_push s gc : gbw s gc -> gbw (st_push s) gc.
Proof. intros H n y HR. rewrite resolve_push' in HR. apply (H n y HR). Qed.

(* a declaration inside a block defines a local *)
Lemma define_resolve_other n m s : m <> n -> st_resolve m (fst (st_define n s)) = st_resolve m s.
Proof.
  intro NE. unfold st_define, st_resolve. destruct (slookup n (store (cur s))); cbn [fst cur outers resolve_in store slookup]; [reflexivity|].
  destruct (str_eqb n m) eqn:E; [apply str_eqb_eq in E; congruence|reflexivity].
Qed.

Lemma define_local n s : outers s <> [] -> Inv s -> sscp (snd (st_define n s)) = LocalScope.
Proof.
  intros HO HI. unfold st_define. destruct (slookup n (store (cur s))) as [y|] eqn:E; cbn [snd].
  - unfold Inv in HI. apply chain_ok_cons in HI; [|exact HO]. destruct HI as [(_ & B & _) _]. apply (B n y E).
  - cbn [sscp]. destruct (outers s); [congruence|reflexivity].
Qed.

Lemma SX_define n s : outers s <> [] -> Inv s -> SX s (fst (st_define n s)).
Proof.
  intros HO HI. constructor.
  - apply define_frame.
  - intros _. apply inv_define. exact HI.
  - pose proof (bound_step (SDefine n) s) as B. cbn [st_step] in B. destruct (st_define n s); exact B.
  - intros gc H m y HR HS. destruct (str_eqb m n) eqn:E.
    + apply str_eqb_eq in E. subst m. rewrite define_then_resolve in HR. inversion HR; subst y.
      rewrite (define_local n s HO HI) in HS. discriminate.
    + rewrite define_resolve_other in HR; [apply (H m y HR HS)|]. intros ->. rewrite str_eqb_refl in E. discriminate.
  - intro H. congruence.
Qed.

(* every local that can be resolved lies below the bound *)
Lemma resolve_local_below s n y : Inv s -> st_resolve n s = Some y -> sscp y = LocalScope -> sidx y < bound s.
Proof.
  intros HI HR HS. pose proof (resolve_innermost s n) as RI. rewrite HR in RI. destruct RI as (d & L & _).
  apply (live_below_bound s HI d n y L HS).
Qed.

Lemma inv_lbw s lc : Inv s -> bound s <= lc -> lbw s lc.
Proof. intros HI HB n y HR HS. pose proof (resolve_local_below s n y HI HR HS). lia. Qed.

Lemma define_below n s : Inv s -> sscp (snd (st_define n s)) = LocalScope -> sidx (snd (st_define n s)) < bound (fst (st_define n s)).
Proof.
  intros HI HS. apply (resolve_local_below _ n); [apply inv_define; exact HI|apply define_then_resolve|exact HS].
Qed.

Lemma bound_top s : outers s = [] -> bound s = nmax (cur s).
Proof. intro H. unfold bound. rewrite H. reflexivity. Qed.

(* two names that resolve at the same moment never share (scope, slot) *)
Theorem visible_no_sharing s n1 n2 y1 y2 : Inv s ->
  st_resolve n1 s = Some y1 -> st_resolve n2 s = Some y2 -> sscp y1 = sscp y2 -> sidx y1 = sidx y2 -> n1 = n2.
Proof.
  intros HI R1 R2 ES EI.
  pose proof (resolve_innermost s n1) as A. rewrite R1 in A. destruct A as (d1 & L1 & _).
  pose proof (resolve_innermost s n2) as B. rewrite R2 in B. destruct B as (d2 & L2 & _).
  apply (chain_no_sharing _ HI d1 d2 n1 n2 y1 y2 L1 L2 ES EI).
Qed.
