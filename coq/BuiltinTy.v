(* BuiltinTy.v — vocabulary shared by the regenerated built-in signature table
   (Gen/BuiltinSigs.v, written by harness/gen_builtins.go from
   evaluator.BuiltinDecls()), the documented table (BuiltinsSpec.v) and the
   model of the built-ins (Builtins.v).  Mirrors parser.Type as far as the
   built-in declarations use it. *)
From Coq Require Import List String Bool.
Import ListNotations.

(* parser.Type: NUM STRING BOOL ANY NONE, ARRAY/MAP with a Sub type; the
   interned GENERIC_ARRAY / GENERIC_MAP (Sub == nil) are TGenArr / TGenMap;
   EMPTY_ARRAY / EMPTY_MAP are TArr TNone / TMap TNone. *)
Inductive ty : Type :=
| TNum | TStr | TBool | TAny | TNone
| TArr (t : ty) | TMap (t : ty)
| TGenArr | TGenMap.

Fixpoint ty_eqb (a b : ty) : bool :=
  match a, b with
  | TNum, TNum | TStr, TStr | TBool, TBool | TAny, TAny | TNone, TNone
  | TGenArr, TGenArr | TGenMap, TGenMap => true
  | TArr x, TArr y | TMap x, TMap y => ty_eqb x y
  | _, _ => false
  end.

Lemma ty_eqb_eq a b : ty_eqb a b = true <-> a = b.
Proof.
  revert b; induction a; intros []; simpl; split; intro H;
    try reflexivity; try discriminate; try (apply IHa in H; congruence);
    try (inversion H; subst; apply IHa; reflexivity).
Qed.

(* one declaration: name, fixed parameter types, variadic parameter type (if
   any), result type *)
Record bsig := { b_name : string; b_params : list ty; b_variadic : option ty; b_ret : ty }.

Definition opt_ty_eqb (a b : option ty) : bool :=
  match a, b with
  | None, None => true
  | Some x, Some y => ty_eqb x y
  | _, _ => false
  end.

Fixpoint tys_eqb (a b : list ty) : bool :=
  match a, b with
  | [], [] => true
  | x :: a', y :: b' => ty_eqb x y && tys_eqb a' b'
  | _, _ => false
  end.

Definition bsig_eqb (a b : bsig) : bool :=
  String.eqb (b_name a) (b_name b) && tys_eqb (b_params a) (b_params b)
  && opt_ty_eqb (b_variadic a) (b_variadic b) && ty_eqb (b_ret a) (b_ret b).

Fixpoint find_sig (name : string) (l : list bsig) : option bsig :=
  match l with
  | [] => None
  | s :: t => if String.eqb (b_name s) name then Some s else find_sig name t
  end.
