(* FmtCmdProofs.v — lemmas about FmtCmd.v: every run of `evy fmt` on one file,
   for every adversary schedule (any number of failing / short calls) and every
   kill point. *)
From Coq Require Import ZArith NArith List Bool Arith Lia.
From EvyV Require Import Base FmtCmd.
Import ListNotations.
Local Open Scope nat_scope.

(* ---------- file-system updates ---------- *)
Lemma upd_same fs p v : files (upd fs p v) p = v.
Proof. unfold upd; simpl. now rewrite str_eqb_refl. Qed.

Lemma upd_other fs p v q : q <> p -> files (upd fs p v) q = files fs q.
Proof. intro H. unfold upd; simpl. apply str_eqb_neq in H. now rewrite H. Qed.

Lemma dirw_upd fs p v : dirw (upd fs p v) = dirw fs.
Proof. reflexivity. Qed.

(* what one system call can do to the file system *)
Definition call_effect (fs : fsys) (c : call) (fs' : fsys) (r : ret) : Prop :=
  match c with
  | CCreateTemp p m =>
      (is_ok r = false /\ fs' = fs) \/
      (r = ROk /\ files fs p = None /\ fs' = upd fs p (Some {| f_data := []; f_mode := m |}))
  | CWrite p d =>
      (is_ok r = false /\ fs' = fs) \/
      (exists f n, files fs p = Some f /\ n <= List.length d /\ r = RCount n /\
                   fs' = upd fs p (Some {| f_data := f_data f ++ firstn n d; f_mode := f_mode f |}))
  | CFchmod p m =>
      (is_ok r = false /\ fs' = fs) \/
      (exists f, files fs p = Some f /\ r = ROk /\ fs' = upd fs p (Some {| f_data := f_data f; f_mode := m |}))
  | CRename a b =>
      (is_ok r = false /\ fs' = fs) \/
      (exists f, files fs a = Some f /\ r = ROk /\
                 ((a = b /\ fs' = fs) \/ (a <> b /\ fs' = upd (upd fs b (Some f)) a None)))
  | CUnlink p =>
      (is_ok r = false /\ fs' = fs) \/ (r = ROk /\ fs' = upd fs p None)
  | CStat p | CFstat p | CLstat p =>
      fs' = fs /\ (forall m, r = RMode m -> exists f, files fs p = Some f /\ f_mode f = m)
  | COpenR p => fs' = fs /\ (is_ok r = true -> exists f, files fs p = Some f)
  | _ => fs' = fs
  end.

Lemma sys_exec_effect fs c o fs' r : sys_exec fs c o = (fs', r) -> call_effect fs c fs' r.
Proof.
  intro H. unfold sys_exec in H.
  destruct o as [|n|e].
  - destruct c; simpl in *;
      repeat match goal with
             | H : context [match files ?fs ?p with _ => _ end] |- _ => destruct (files fs p) eqn:?
             | H : context [if ?b then _ else _] |- _ => destruct b eqn:?
             | H : (_, _) = (_, _) |- _ => inversion H; subst; clear H
             end; simpl; auto;
      try (split; [reflexivity | intros m0 Hm; try discriminate; inversion Hm; subst; eauto]);
      try (split; [reflexivity | intros Hm; try discriminate; eauto]).
    + right. exists f, (List.length d). repeat split; auto.
    + right. exists f. auto.
    + right. exists f. repeat split; auto. left. split; auto. now apply str_eqb_eq.
    + right. exists f. repeat split; auto. right. split; auto. now apply str_eqb_neq.
  - destruct c; simpl in *;
      repeat match goal with
             | H : context [match files ?fs ?p with _ => _ end] |- _ => destruct (files fs p) eqn:?
             | H : context [if ?b then _ else _] |- _ => destruct b eqn:?
             | H : (_, _) = (_, _) |- _ => inversion H; subst; clear H
             end; simpl; auto;
      try (split; [reflexivity | intros m0 Hm; try discriminate; inversion Hm; subst; eauto]);
      try (split; [reflexivity | intros Hm; try discriminate; eauto]).
    + right. exists f, (Nat.min n (List.length d)). repeat split; auto. apply Nat.le_min_r.
    + right. exists f. auto.
    + right. exists f. repeat split; auto. left. split; auto. now apply str_eqb_eq.
    + right. exists f. repeat split; auto. right. split; auto. now apply str_eqb_neq.
  - inversion H; subst. destruct c; simpl; auto; split; auto; intros; discriminate.
Qed.

(* ---------- a small program logic for [world -> step A] ---------- *)
Definition post {A} (m : world -> step A) (w : world)
           (Q : A -> world -> Prop) (K : status -> world -> Prop) : Prop :=
  match m w with Go a w' => Q a w' | Stop s w' => K s w' end.

Lemma post_bind {A B} (m : world -> step A) (k : A -> world -> step B) w (Q : B -> world -> Prop) (K : status -> world -> Prop) :
  post m w (fun a w' => post (k a) w' Q K) K -> post (bind m k) w Q K.
Proof. unfold post, bind. destruct (m w); auto. Qed.

Lemma post_ret {A} (a : A) w (Q : A -> world -> Prop) (K : status -> world -> Prop) : Q a w -> post (ret_ a) w Q K.
Proof. auto. Qed.

Lemma post_weaken {A} (m : world -> step A) w (Q Q' : A -> world -> Prop) (K K' : status -> world -> Prop) :
  post m w Q K -> (forall a w', Q a w' -> Q' a w') -> (forall s w', K s w' -> K' s w') -> post m w Q' K'.
Proof. unfold post. destruct (m w); auto. Qed.

Lemma post_syscall c w (Q : ret -> world -> Prop) (K : status -> world -> Prop) :
  (w_left w = 0 -> K Killed w) ->
  (forall k fs' r, w_left w = S k -> call_effect (w_fs w) c fs' r ->
     Q r {| w_fs := fs'; w_sched := tl (w_sched w); w_left := k; w_trace := (c, r) :: w_trace w |}) ->
  post (syscall c) w Q K.
Proof.
  intros HK HQ. unfold post, syscall. destruct (w_left w) as [|k] eqn:E.
  - auto.
  - cbv zeta. apply HQ; auto. apply sys_exec_effect with (o := hd OOk (w_sched w)).
    now destruct (sys_exec (w_fs w) c (hd OOk (w_sched w))).
Qed.

(* ---------- reading ---------- *)
Definition is_read_call (p : path) (c : call) : Prop :=
  match c with
  | COpenR q | CFstat q | CCloseR q => q = p
  | CRead q _ => q = p
  | _ => False
  end.

(* the trace of w' extends the trace of w by read calls on p only *)
Definition read_ext (p : path) (w w' : world) : Prop :=
  exists evs, w_trace w' = evs ++ w_trace w /\ Forall (fun e => is_read_call p (fst e)) evs.

Lemma read_ext_refl p w : read_ext p w w.
Proof. exists []. split; auto. Qed.

Lemma read_ext_step p w c fs' r sch k :
  is_read_call p c ->
  read_ext p w {| w_fs := fs'; w_sched := sch; w_left := k; w_trace := (c, r) :: w_trace w |}.
Proof. intro H. exists [(c, r)]. split; auto. Qed.

Lemma read_ext_trans p w1 w2 w3 : read_ext p w1 w2 -> read_ext p w2 w3 -> read_ext p w1 w3.
Proof.
  intros [e1 [H1 F1]] [e2 [H2 F2]]. exists (e2 ++ e1). split.
  - rewrite H2, H1. now rewrite app_assoc.
  - apply Forall_app; auto.
Qed.

Lemma skipn_length_app {A} (a r : list A) : skipn (List.length a) (a ++ r) = r.
Proof. induction a; simpl; auto. Qed.

Lemma firstn_nil_inv {A} n (l : list A) : firstn n l = [] -> n = 0 \/ l = [].
Proof. destruct n, l; simpl; auto; discriminate. Qed.

Lemma sys_exec_read fs p off o f :
  files fs p = Some f ->
  exists r, sys_exec fs (CRead p off) o = (fs, r) /\
    ((exists e, r = RErr e) \/
     (exists d d', r = RData d /\ skipn off (f_data f) = d ++ d' /\ (d = [] -> d' = []))).
Proof.
  intro Hf. unfold sys_exec. destruct o as [|n|e]; cbv beta iota; try rewrite Hf.
  - eexists. split; [reflexivity|]. right. exists (skipn off (f_data f)), []. rewrite firstn_all, app_nil_r. auto.
  - eexists. split; [reflexivity|]. right.
    set (rest := skipn off (f_data f)). set (m := Nat.max 1 (Nat.min n (List.length rest))).
    exists (firstn m rest), (skipn m rest). rewrite firstn_skipn. repeat split; auto.
    intro E. apply firstn_nil_inv in E. destruct E as [E|E]; [unfold m in E; lia|]. rewrite E. now destruct m.
  - eexists. split; [reflexivity|]. left. eauto.
Qed.

Lemma syscall_go c w k :
  w_left w = S k ->
  syscall c w = Go (snd (sys_exec (w_fs w) c (hd OOk (w_sched w))))
                   {| w_fs := fst (sys_exec (w_fs w) c (hd OOk (w_sched w))); w_sched := tl (w_sched w); w_left := k;
                      w_trace := (c, snd (sys_exec (w_fs w) c (hd OOk (w_sched w)))) :: w_trace w |}.
Proof. intro H. unfold syscall. now rewrite H. Qed.

Lemma read_loop_post fuel p acc w f rest :
  files (w_fs w) p = Some f -> f_data f = acc ++ rest -> List.length rest < fuel ->
  post (read_loop fuel p acc) w
       (fun r w' => w_fs w' = w_fs w /\ read_ext p w w' /\ (forall d, r = Some d -> d = f_data f))
       (fun s w' => s = Killed /\ w_fs w' = w_fs w /\ read_ext p w w').
Proof.
  revert acc w rest. induction fuel as [|fuel IH]; intros acc w rest Hf Hd Hl; [lia|].
  unfold post. simpl.
  destruct (w_left w) as [|k] eqn:El.
  - unfold syscall. rewrite El. repeat split; auto using read_ext_refl.
  - rewrite (syscall_go _ _ _ El).
    destruct (sys_exec_read (w_fs w) p (List.length acc) (hd OOk (w_sched w)) f Hf) as [r [Er Hr]].
    rewrite Er. simpl.
    assert (Hsk : skipn (List.length acc) (f_data f) = rest) by (rewrite Hd; apply skipn_length_app).
    rewrite Hsk in Hr.
    destruct Hr as [[e ->] | [d [d' [-> [Hs Hn]]]]].
    + repeat split; auto. { apply read_ext_step; simpl; auto. } intros; discriminate.
    + destruct d as [|x d].
      * specialize (Hn eq_refl). subst d'. simpl in Hs. subst rest.
        repeat split; auto. { apply read_ext_step; simpl; auto. }
        intros d0 Hd0. inversion Hd0; subst. now rewrite Hd, app_nil_r.
      * match goal with |- match read_loop fuel p ?a ?w0 with _ => _ end =>
          specialize (IH a w0 d') end.
        simpl in IH. unfold post in IH.
        assert (Hl' : List.length d' < fuel).
        { subst rest. rewrite app_length in Hl. simpl in Hl. lia. }
        assert (Hd' : f_data f = (acc ++ x :: d) ++ d') by (rewrite <- app_assoc, <- Hs; exact Hd).
        specialize (IH Hf Hd' Hl').
        match goal with |- match ?X with _ => _ end => destruct X eqn:E end.
        -- destruct IH as [H1 [H2 H3]].
           repeat split; auto. eapply read_ext_trans; [|exact H2]. apply read_ext_step; simpl; auto.
        -- destruct IH as [H1 [H2 H3]].
           repeat split; auto. eapply read_ext_trans; [|exact H3]. apply read_ext_step; simpl; auto.
Qed.

Lemma read_file_post p w :
  post (read_file p) w
       (fun r w' => w_fs w' = w_fs w /\ read_ext p w w' /\
                    (forall d, r = Some d -> exists f, files (w_fs w) p = Some f /\ d = f_data f))
       (fun s w' => s = Killed /\ w_fs w' = w_fs w /\ read_ext p w w').
Proof.
  unfold read_file. apply post_bind, post_syscall.
  - intros _. repeat split; auto using read_ext_refl.
  - intros k fs' r El [-> Hop]. destruct (is_ok r) eqn:Eok.
    + destruct (Hop eq_refl) as [f Hf].
      apply post_bind, post_syscall.
      * intros _. simpl. repeat split; auto. apply read_ext_step; simpl; auto.
      * intros k2 fs2 r2 El2 [-> _]. cbn [w_fs w_left w_sched w_trace]. cbv beta.
        apply post_bind.
        match goal with |- post _ ?w2 _ _ => set (w2' := w2) end.
        assert (R2 : read_ext p w w2').
        { exists [(CFstat p, r2); (COpenR p, r)]. split; [reflexivity|]. repeat constructor; simpl; auto. }
        eapply post_weaken.
        { apply (read_loop_post _ p [] w2' f (f_data f)); auto.
          unfold file_len. simpl. rewrite Hf. lia. }
        -- intros a w3 [H1 [H2 H3]]. apply post_bind, post_syscall.
           ++ intros _. repeat split; auto. eapply read_ext_trans; eauto.
           ++ intros k4 fs4 r4 El4 Hfs4. simpl in Hfs4. subst fs4. apply post_ret. simpl.
              repeat split; auto.
              ** eapply read_ext_trans; [exact R2|]. eapply read_ext_trans; [exact H2|].
                 apply read_ext_step; simpl; auto.
              ** intros d Hd. exists f. split; auto.
        -- intros s w3 [H1 [H2 H3]]. repeat split; auto. eapply read_ext_trans; eauto.
    + apply post_ret. simpl. repeat split; auto. { apply read_ext_step; simpl; auto. } intros; discriminate.
Qed.

(* ---------- writing ---------- *)
Definition same_fs (fs0 fs : fsys) : Prop :=
  (forall q, files fs q = files fs0 q) /\ dirw fs = dirw fs0.

(* a temp file holding [written] (a prefix of [out]) exists beside an untouched rest *)
Definition tstate (fs0 : fsys) (tmp : path) (out : bytes) (m : N) (fs : fsys) (written : bytes) : Prop :=
  files fs tmp = Some {| f_data := written; f_mode := m |} /\
  (exists rest, out = written ++ rest) /\
  (forall q, q <> tmp -> files fs q = files fs0 q) /\ dirw fs = dirw fs0.

(* the three shapes the file system can have during / after writeAtomically *)
Inductive wstate (fs0 : fsys) (target tmp : path) (out : bytes) (fm : N) (fs : fsys) : Prop :=
| WSame : same_fs fs0 fs -> wstate fs0 target tmp out fm fs
| WTemp written m : tmp <> target -> files fs0 tmp = None ->
    tstate fs0 tmp out m fs written -> wstate fs0 target tmp out fm fs
| WDone : tmp <> target -> files fs0 tmp = None ->
    files fs target = Some {| f_data := out; f_mode := fm |} -> files fs tmp = None ->
    (forall q, q <> tmp -> q <> target -> files fs q = files fs0 q) -> dirw fs = dirw fs0 ->
    wstate fs0 target tmp out fm fs.

Lemma same_fs_refl fs : same_fs fs fs.
Proof. split; auto. Qed.

Lemma is_ok_false r : is_ok r = false -> exists e, r = RErr e.
Proof. destruct r; simpl; try discriminate. eauto. Qed.

Lemma write_loop_post fuel fs0 tmp out m rest w written :
  tstate fs0 tmp out m (w_fs w) written -> out = written ++ rest -> List.length rest < fuel ->
  post (write_loop fuel tmp rest) w
       (fun b w' => exists written', tstate fs0 tmp out m (w_fs w') written' /\ (b = true -> written' = out))
       (fun s w' => s = Killed /\ exists written', tstate fs0 tmp out m (w_fs w') written').
Proof.
  revert rest w written. induction fuel as [|fuel IH]; intros rest w written Ht Ho Hl; [lia|].
  unfold post. simpl.
  destruct (w_left w) as [|k] eqn:El.
  - unfold syscall. rewrite El. split; eauto.
  - rewrite (syscall_go _ _ _ El).
    destruct (sys_exec (w_fs w) (CWrite tmp rest) (hd OOk (w_sched w))) as [fs' r] eqn:Ex.
    apply sys_exec_effect in Ex. simpl in Ex. simpl.
    destruct Ex as [[Hr ->] | [f [n [Hf [Hn [-> ->]]]]]].
    + apply is_ok_false in Hr. destruct Hr as [e ->]. exists written. split; auto. discriminate.
    + destruct Ht as [Ht1 [Ht2 [Ht3 Ht4]]]. rewrite Ht1 in Hf. inversion Hf; subst f; clear Hf. simpl.
      assert (Hnew : tstate fs0 tmp (written ++ rest) m
                       (upd (w_fs w) tmp (Some {| f_data := written ++ firstn n rest; f_mode := m |}))
                       (written ++ firstn n rest)).
      { repeat split.
        - apply upd_same.
        - exists (skipn n rest). now rewrite <- app_assoc, firstn_skipn.
        - intros q Hq. rewrite upd_other; auto.
        - auto. }
      destruct (Nat.eqb n (List.length rest)) eqn:E1.
      * apply Nat.eqb_eq in E1. subst n. rewrite firstn_all in *. subst out. exists (written ++ rest). split; auto.
      * destruct (Nat.eqb n 0) eqn:E2.
        -- subst out. eexists. split; [exact Hnew|]. discriminate.
        -- apply Nat.eqb_neq in E1. apply Nat.eqb_neq in E2.
           match goal with |- match write_loop fuel tmp ?r ?w0 with _ => _ end =>
             specialize (IH r w0 (written ++ firstn n rest)) end.
           unfold post in IH. simpl in IH. subst out.
           apply IH; auto.
           ++ now rewrite <- app_assoc, firstn_skipn.
           ++ rewrite skipn_length. lia.
Qed.

(* the fixed protocol's clean-up: the temp file disappears, or (failed unlink) stays *)
Lemma remove_temp_post fs0 target tmp out fm m w written :
  tmp <> target -> files fs0 tmp = None -> tstate fs0 tmp out m (w_fs w) written ->
  post (remove_temp tmp) w
       (fun b w' => b = false /\ wstate fs0 target tmp out fm (w_fs w'))
       (fun s w' => s = Killed /\ wstate fs0 target tmp out fm (w_fs w')).
Proof.
  intros Hne H0 Ht. unfold remove_temp. apply post_bind, post_syscall.
  - intros _. split; auto. eapply WTemp; eauto.
  - intros k fs' r El Heff. simpl in Heff. cbn [w_fs].
    destruct Heff as [[Hr ->] | [-> ->]].
    + rewrite Hr. apply post_bind, post_syscall; cbn [w_fs].
      * intros _. split; auto. eapply WTemp; eauto.
      * intros k2 fs2 r2 El2 Hfs2. simpl in Hfs2. subst fs2. apply post_ret. split; auto. eapply WTemp; eauto.
    + simpl. apply post_ret. split; auto. apply WSame.
      destruct Ht as [Ht1 [Ht2 [Ht3 Ht4]]]. split; auto.
      intro q. cbn [w_fs]. destruct (str_eq_dec q tmp) as [->|Hq].
      * now rewrite upd_same, H0.
      * rewrite upd_other; auto.
Qed.

Lemma close_remove_temp_post fs0 target tmp out fm m w written :
  tmp <> target -> files fs0 tmp = None -> tstate fs0 tmp out m (w_fs w) written ->
  post (close_remove_temp tmp) w
       (fun b w' => b = false /\ wstate fs0 target tmp out fm (w_fs w'))
       (fun s w' => s = Killed /\ wstate fs0 target tmp out fm (w_fs w')).
Proof.
  intros Hne H0 Ht. unfold close_remove_temp. apply post_bind, post_syscall.
  - intros _. split; auto. eapply WTemp; eauto.
  - intros k fs' r El Hfs. simpl in Hfs. subst fs'. eapply remove_temp_post; eauto.
Qed.

(* rename of a complete temp file over the target *)
Lemma rename_effect fs0 fs target tmp out m fs' r f0 :
  tmp <> target -> files fs0 tmp = None -> files fs0 target = Some f0 ->
  tstate fs0 tmp out m fs out ->
  call_effect fs (CRename tmp target) fs' r ->
  (is_ok r = false /\ fs' = fs) \/
  (r = ROk /\ files fs' target = Some {| f_data := out; f_mode := m |} /\ files fs' tmp = None /\
   (forall q, q <> tmp -> q <> target -> files fs' q = files fs0 q) /\ dirw fs' = dirw fs0).
Proof.
  intros Hne H0 Hf0 [Ht1 [Ht2 [Ht3 Ht4]]] Heff. simpl in Heff.
  destruct Heff as [H|[f [Hf [-> [[E _]|[_ ->]]]]]]; auto; [contradiction|].
  right. rewrite Ht1 in Hf. inversion Hf; subst f. repeat split; auto.
  - rewrite upd_other; auto. apply upd_same.
  - apply upd_same.
  - intros q Hq1 Hq2. rewrite upd_other; auto. rewrite upd_other; auto.
Qed.

Lemma write_atomically_before_fix_post out target tmp w f0 :
  files (w_fs w) target = Some f0 ->
  post (write_atomically_before_fix out target tmp) w
       (fun b w' => wstate (w_fs w) target tmp out mode0600 (w_fs w') /\
                    (b = true -> files (w_fs w') target = Some {| f_data := out; f_mode := mode0600 |}))
       (fun s w' => s = Killed /\ wstate (w_fs w) target tmp out mode0600 (w_fs w')).
Proof.
  intro Hf0. set (fs0 := w_fs w). unfold write_atomically_before_fix.
  apply post_bind, post_syscall.
  - intros _. split; auto. apply WSame, same_fs_refl.
  - intros k fs1 r1 El1 Heff. simpl in Heff. fold fs0 in Heff.
    destruct Heff as [[Hr ->] | [-> [H0 ->]]].
    + rewrite Hr. apply post_ret. split; [apply WSame, same_fs_refl | discriminate].
    + simpl is_ok. cbv iota.
      assert (Hne : tmp <> target) by (intro E; subst tmp; unfold fs0 in *; congruence).
      apply post_bind.
      eapply post_weaken.
      { apply (write_loop_post _ fs0 tmp out mode0600 out _ []); simpl; auto.
        repeat split; auto.
        - apply upd_same.
        - exists out. reflexivity.
        - intros q Hq. now rewrite upd_other. }
      * intros b w2 [written [Ht Hb]]. destruct b.
        -- specialize (Hb eq_refl). subst written.
           apply post_bind, post_syscall.
           ++ intros _. split; auto. eapply WTemp; eauto.
           ++ intros k3 fs3 r3 El3 Hfs3. simpl in Hfs3. subst fs3. cbn [w_fs].
              destruct (is_ok r3).
              ** apply post_bind, post_syscall.
                 --- intros _. split; auto. eapply WTemp; eauto.
                 --- intros k4 fs4 r4 El4 [-> _]. cbn [w_fs].
                     apply post_bind, post_syscall.
                     +++ intros _. split; auto. eapply WTemp; eauto.
                     +++ intros k5 fs5 r5 El5 Heff5. cbn [w_fs] in Heff5.
                         apply post_ret. cbn [w_fs].
                         destruct (rename_effect fs0 _ target tmp out mode0600 fs5 r5 f0 Hne H0 Hf0 Ht Heff5)
                           as [[Hr5 ->] | [-> [H1 [H2 [H3 H4]]]]].
                         *** rewrite Hr5. split; [eapply WTemp; eauto | discriminate].
                         *** split; [apply WDone; auto | auto].
              ** apply post_ret. split; [eapply WTemp; eauto | discriminate].
        -- apply post_ret. split; [eapply WTemp; eauto | discriminate].
      * intros s w2 [-> [written Ht]]. split; auto. eapply WTemp; eauto.
Qed.

Lemma write_atomically_current_post out target tmp w f0 :
  files (w_fs w) target = Some f0 ->
  post (write_atomically out target tmp) w
       (fun b w' => wstate (w_fs w) target tmp out (f_mode f0) (w_fs w') /\
                    (b = true -> files (w_fs w') target = Some {| f_data := out; f_mode := f_mode f0 |}))
       (fun s w' => s = Killed /\ wstate (w_fs w) target tmp out (f_mode f0) (w_fs w')).
Proof.
  intro Hf0. set (fs0 := w_fs w). set (fm := f_mode f0). unfold write_atomically.
  assert (Wk : forall (b : bool) w', (b = false /\ wstate fs0 target tmp out fm (w_fs w')) ->
               wstate fs0 target tmp out fm (w_fs w') /\
               (b = true -> files (w_fs w') target = Some {| f_data := out; f_mode := fm |})).
  { intros b w' [-> H]. split; auto. discriminate. }
  apply post_bind, post_syscall.
  - intros _. split; auto. apply WSame, same_fs_refl.
  - intros k0 fs' r0 El0 [-> Hm]. cbn [w_fs]. fold fs0.
    destruct r0 as [| | |m|]; try (apply post_ret; split; [apply WSame, same_fs_refl | discriminate]).
    destruct (Hm m eq_refl) as [f [Hf Hfm]]. fold fs0 in Hf. unfold fs0 in Hf. rewrite Hf0 in Hf.
    inversion Hf; subst f; clear Hf. fold fm in Hfm. subst m.
    apply post_bind, post_syscall.
    + intros _. split; auto. apply WSame, same_fs_refl.
    + intros k fs1 r1 El1 Heff. simpl in Heff.
      destruct Heff as [[Hr ->] | [-> [H0 ->]]].
      * rewrite Hr. apply post_ret. split; [apply WSame, same_fs_refl | discriminate].
      * simpl is_ok. cbv iota. fold fs0 in H0.
        assert (Hne : tmp <> target) by (intro E; subst tmp; unfold fs0 in *; congruence).
        apply post_bind.
        eapply post_weaken.
        { apply (write_loop_post _ fs0 tmp out mode0600 out _ []); simpl; auto.
          repeat split; auto.
          - apply upd_same.
          - exists out. reflexivity.
          - intros q Hq. now rewrite upd_other. }
        -- intros b w2 [written [Ht Hb]]. destruct b.
           ++ specialize (Hb eq_refl). subst written.
              apply post_bind, post_syscall.
              ** intros _. split; auto. eapply WTemp; eauto.
              ** intros k2 fs2 r2 El2 Heff2. simpl in Heff2. cbn [w_fs].
                 destruct Heff2 as [[Hr2 ->] | [f [Hf [-> ->]]]].
                 --- rewrite Hr2. eapply post_weaken; [eapply (close_remove_temp_post fs0 target tmp out fm); eauto | exact Wk | auto].
                 --- simpl is_ok. cbv iota.
                     assert (Ht' : tstate fs0 tmp out fm
                                     (upd (w_fs w2) tmp (Some {| f_data := f_data f; f_mode := fm |})) out).
                     { destruct Ht as [Ht1 [Ht2 [Ht3 Ht4]]]. rewrite Ht1 in Hf. inversion Hf; subst f. simpl.
                       repeat split; auto.
                       - apply upd_same.
                       - intros q Hq. rewrite upd_other; auto. }
                     apply post_bind, post_syscall.
                     +++ intros _. split; auto. eapply WTemp; eauto.
                     +++ intros k3 fs3 r3 El3 Hfs3. simpl in Hfs3. subst fs3. cbn [w_fs].
                         destruct (is_ok r3).
                         *** apply post_bind, post_syscall.
                             ---- intros _. split; auto. eapply WTemp; eauto.
                             ---- intros k4 fs4 r4 El4 [-> _]. cbn [w_fs].
                                  apply post_bind, post_syscall.
                                  ++++ intros _. split; auto. eapply WTemp; eauto.
                                  ++++ intros k5 fs5 r5 El5 Heff5. cbn [w_fs] in Heff5. cbn [w_fs].
                                       destruct (rename_effect fs0 _ target tmp out fm fs5 r5 f0 Hne H0 Hf0 Ht' Heff5)
                                         as [[Hr5 ->] | [-> [H1 [H2 [H3 H4]]]]].
                                       **** rewrite Hr5. eapply post_weaken; [eapply (remove_temp_post fs0 target tmp out fm); eauto | exact Wk | auto].
                                       **** simpl is_ok. cbv iota. apply post_ret. cbn [w_fs]. split; [apply WDone; auto | auto].
                         *** eapply post_weaken; [eapply (remove_temp_post fs0 target tmp out fm); eauto | exact Wk | auto].
           ++ eapply post_weaken; [eapply (close_remove_temp_post fs0 target tmp out fm); eauto | exact Wk | auto].
        -- intros s w2 [-> [written Ht]]. split; auto. eapply WTemp; eauto.
Qed.

(* ---------- the whole command ---------- *)
Definition final_mode (v : variant) (f0 : file) : N :=
  match v with BeforeFix => mode0600 | Current => f_mode f0 end.

Lemma write_atomically_of_post v out target tmp w f0 :
  files (w_fs w) target = Some f0 ->
  post (write_atomically_of v out target tmp) w
       (fun b w' => wstate (w_fs w) target tmp out (final_mode v f0) (w_fs w') /\
                    (b = true -> files (w_fs w') target = Some {| f_data := out; f_mode := final_mode v f0 |}))
       (fun s w' => s = Killed /\ wstate (w_fs w) target tmp out (final_mode v f0) (w_fs w')).
Proof.
  destruct v; simpl; [apply write_atomically_before_fix_post | apply write_atomically_current_post].
Qed.

Section Formatter.
  Variable fmt1 : bytes -> option bytes.
  Variable parts : bytes -> list bytes.
  Variable join : bytes -> list bytes -> bytes.
  Notation fmtall := (fmt_all fmt1 parts join).
  Notation checkok := (check_ok fmt1 parts).

  Lemma check_ok_fmt_parts ps : forallb (part_ok fmt1) ps = true -> fmt_parts fmt1 ps = Some ps.
  Proof.
    induction ps as [|p t IH]; simpl; auto. intro H. apply andb_true_iff in H as [H1 H2].
    unfold part_ok in H1. destruct (fmt1 p) as [o|] eqn:E; [|discriminate].
    apply str_eqb_eq in H1. subst o. now rewrite IH.
  Qed.

  Lemma check_ok_parses src : checkok src = true -> fmtall src = Some (join src (parts src)).
  Proof. unfold check_ok, fmt_all. intro H. now rewrite check_ok_fmt_parts. Qed.

  (* outcome of fmt_file: b = Some true/false is the nil / non-nil error, None = killed *)
  Definition fout (v : variant) (c : cmd) (target tmp : path) (w : world) (b : option bool) (w' : world) : Prop :=
    (w_fs w' = w_fs w /\ read_ext target w w' /\
     (b = Some true -> exists f0, files (w_fs w) target = Some f0 /\
        match c with
        | CmdCheck => checkok (f_data f0) = true
        | CmdPlain => fmtall (f_data f0) <> None
        | CmdWrite => False
        end))
    \/
    (c = CmdWrite /\ exists f0 out, files (w_fs w) target = Some f0 /\ fmtall (f_data f0) = Some out /\
       wstate (w_fs w) target tmp out (final_mode v f0) (w_fs w') /\
       (b = Some true -> files (w_fs w') target = Some {| f_data := out; f_mode := final_mode v f0 |})).

  Lemma fmt_file_post v c target tmp w :
    post (fmt_file fmt1 parts join v c target tmp) w
         (fun b w' => fout v c target tmp w (Some b) w')
         (fun s w' => s = Killed /\ fout v c target tmp w None w').
  Proof.
    unfold fmt_file. apply post_bind. eapply post_weaken; [apply read_file_post | |].
    - intros r w1 [H1 [H2 H3]]. destruct r as [src|].
      + destruct (H3 src eq_refl) as [f0 [Hf0 ->]].
        destruct c.
        * destruct (fmtall (f_data f0)) as [out|] eqn:Ef.
          -- eapply post_weaken; [apply (write_atomically_of_post v out target tmp w1 f0); now rewrite H1 | |].
             ++ intros b w2 [Hw Hb]. right. split; auto. exists f0, out. rewrite H1 in *. repeat split; auto.
                intro E. inversion E; subst. auto.
             ++ intros s w2 [-> Hw]. split; auto. right. split; auto. exists f0, out. rewrite H1 in *.
                repeat split; auto. discriminate.
          -- apply post_ret. left. repeat split; auto. discriminate.
        * apply post_ret. left. repeat split; auto. intro E. inversion E. exists f0. split; auto.
        * apply post_ret. left. repeat split; auto. intro E. inversion E. exists f0. split; auto.
          destruct (fmtall (f_data f0)); [discriminate | discriminate].
      + apply post_ret. left. repeat split; auto. discriminate.
    - intros s w1 [-> [H1 H2]]. split; auto. left. repeat split; auto. discriminate.
  Qed.

  Definition w0 (fs : fsys) (sched : list outcome) (kill : nat) : world :=
    {| w_fs := fs; w_sched := sched; w_left := kill; w_trace := [] |}.

  Definition status_of (b : option bool) : status :=
    match b with Some true => Exit 0 | Some false => Exit 1 | None => Killed end.

  Lemma run_post v c target tmp fs sched kill :
    let r := run fmt1 parts join v c target tmp fs sched kill in
    exists b w', r_status r = status_of b /\ r_fs r = w_fs w' /\ r_trace r = rev (w_trace w') /\
                 fout v c target tmp (w0 fs sched kill) b w'.
  Proof.
    cbv zeta. unfold run. fold (w0 fs sched kill).
    pose proof (fmt_file_post v c target tmp (w0 fs sched kill)) as H. unfold post in H.
    destruct (fmt_file fmt1 parts join v c target tmp (w0 fs sched kill)) as [[|] w'|s w'].
    - exists (Some true), w'. auto.
    - exists (Some false), w'. auto.
    - destruct H as [-> H]. exists None, w'. auto.
  Qed.

  Lemma status_of_exit0 b : status_of b = Exit 0 -> b = Some true.
  Proof. destruct b as [[|]|]; simpl; intro H; try discriminate; auto. Qed.

  Lemma status_of_fuel b : status_of b <> OutOfFuel.
  Proof. destruct b as [[|]|]; simpl; discriminate. Qed.

  (* T0: the run never depends on its fuel *)
  Lemma run_no_fuel v c target tmp fs sched kill :
    r_status (run fmt1 parts join v c target tmp fs sched kill) <> OutOfFuel.
  Proof.
    destruct (run_post v c target tmp fs sched kill) as [b [w' [Hs _]]]. rewrite Hs. apply status_of_fuel.
  Qed.

  (* T1: atomicity *)
  Lemma fmt_w_atomic v target tmp fs sched kill :
    let r := run fmt1 parts join v CmdWrite target tmp fs sched kill in
    (files (r_fs r) target = files fs target \/
     exists f0 out m, files fs target = Some f0 /\ fmtall (f_data f0) = Some out /\
                      files (r_fs r) target = Some {| f_data := out; f_mode := m |}) /\
    (r_status r = Exit 0 ->
     exists f0 out m, files fs target = Some f0 /\ fmtall (f_data f0) = Some out /\
                      files (r_fs r) target = Some {| f_data := out; f_mode := m |}).
  Proof.
    cbv zeta. destruct (run_post v CmdWrite target tmp fs sched kill) as [b [w' [Hs [Hfs [_ Ho]]]]].
    rewrite Hs, Hfs. unfold fout, w0 in Ho; cbn [w_fs] in Ho. destruct Ho as [[H1 [_ H3]] | [_ [f0 [out [Hf0 [Hfmt [Hw Hb]]]]]]].
    - split; [left; now rewrite H1|]. intro E. apply status_of_exit0 in E. destruct (H3 E) as [? [_ []]].
    - split.
      + destruct Hw as [[Hq _] | written m Hne H0 [Ht1 [Ht2 [Ht3 Ht4]]] | Hne H0 Ht Htmp Hq Hd].
        * left. apply Hq.
        * left. apply Ht3. auto.
        * right. exists f0, out, (final_mode v f0). auto.
      + intro E. apply status_of_exit0 in E. exists f0, out, (final_mode v f0). auto.
  Qed.

  (* T2: what else may differ afterwards: only the temp file, holding a prefix of the formatted text *)
  Lemma fmt_w_leftover v target tmp fs sched kill q :
    let r := run fmt1 parts join v CmdWrite target tmp fs sched kill in
    q <> target ->
    files (r_fs r) q = files fs q \/
    (q = tmp /\ files fs tmp = None /\
     exists f0 out f rest, files fs target = Some f0 /\ fmtall (f_data f0) = Some out /\
                           files (r_fs r) tmp = Some f /\ out = f_data f ++ rest).
  Proof.
    cbv zeta. intro Hq. destruct (run_post v CmdWrite target tmp fs sched kill) as [b [w' [Hs [Hfs [_ Ho]]]]].
    rewrite Hfs. unfold fout, w0 in Ho; cbn [w_fs] in Ho. destruct Ho as [[H1 _] | [_ [f0 [out [Hf0 [Hfmt [Hw Hb]]]]]]].
    - left. now rewrite H1.
    - destruct Hw as [[Hsame _] | written m Hne H0 [Ht1 [[rest Ht2] [Ht3 Ht4]]] | Hne H0 Ht Htmp Hoth Hd].
      + left. apply Hsame.
      + destruct (str_eq_dec q tmp) as [->|Hqt].
        * right. split; auto. split; auto. exists f0, out, {| f_data := written; f_mode := m |}, rest. auto.
        * left. apply Ht3. auto.
      + destruct (str_eq_dec q tmp) as [->|Hqt].
        * left. now rewrite Htmp, H0.
        * left. apply Hoth; auto.
  Qed.

  (* T3: permission bits.  Whatever happens, the target's mode is its old mode
     or the protocol's final mode — which is the old mode for the fixed protocol. *)
  Lemma fmt_w_mode v target tmp fs sched kill f :
    let r := run fmt1 parts join v CmdWrite target tmp fs sched kill in
    files (r_fs r) target = Some f ->
    exists f0, files fs target = Some f0 /\ (f_mode f = f_mode f0 \/ f_mode f = final_mode v f0).
  Proof.
    cbv zeta. destruct (run_post v CmdWrite target tmp fs sched kill) as [b [w' [Hs [Hfs [_ Ho]]]]].
    rewrite Hfs. intro Hf. unfold fout, w0 in Ho; cbn [w_fs] in Ho.
    destruct Ho as [[H1 _] | [_ [f0 [out [Hf0 [Hfmt [Hw Hb]]]]]]].
    - rewrite H1 in Hf. exists f. auto.
    - destruct Hw as [[Hsame _] | written m Hne H0 [Ht1 [Ht2 [Ht3 Ht4]]] | Hne H0 Ht Htmp Hoth Hd].
      + rewrite Hsame in Hf. exists f. auto.
      + rewrite Ht3 in Hf; auto. exists f. auto.
      + rewrite Ht in Hf. inversion Hf; subst f. exists f0. split; auto.
  Qed.

  Lemma fmt_w_mode_preserved target tmp fs sched kill f :
    files (r_fs (run fmt1 parts join Current CmdWrite target tmp fs sched kill)) target = Some f ->
    exists f0, files fs target = Some f0 /\ f_mode f = f_mode f0.
  Proof.
    intro H. apply fmt_w_mode in H. destruct H as [f0 [H0 [H|H]]]; eauto.
  Qed.

  (* the tree's protocol preserves the mode exactly when it already was 0600 ... *)
  Lemma fmt_w_mode_preserved_before_fix_guarded target tmp fs sched kill f f0 :
    files fs target = Some f0 -> f_mode f0 = mode0600 ->
    files (r_fs (run fmt1 parts join BeforeFix CmdWrite target tmp fs sched kill)) target = Some f ->
    f_mode f = f_mode f0.
  Proof.
    intros H0 Hm H. apply fmt_w_mode in H. destruct H as [f0' [H0' [H|H]]]; rewrite H0 in H0'; inversion H0'; subst f0'; auto.
    simpl in H. congruence.
  Qed.

  (* ... and every successful run of it leaves the mode 0600, whatever it was *)
  Lemma fmt_w_before_fix_success_mode target tmp fs sched kill :
    let r := run fmt1 parts join BeforeFix CmdWrite target tmp fs sched kill in
    r_status r = Exit 0 -> exists f, files (r_fs r) target = Some f /\ f_mode f = mode0600.
  Proof.
    cbv zeta. destruct (run_post BeforeFix CmdWrite target tmp fs sched kill) as [b [w' [Hs [Hfs [_ Ho]]]]].
    rewrite Hfs, Hs. intro E. apply status_of_exit0 in E. unfold fout, w0 in Ho; cbn [w_fs] in Ho.
    destruct Ho as [[_ [_ H3]] | [_ [f0 [out [Hf0 [Hfmt [Hw Hb]]]]]]].
    - destruct (H3 E) as [? [_ []]].
    - eexists. split; [apply Hb; auto|]. reflexivity.
  Qed.

  (* T4: input that does not parse: only read calls on the target, nothing changes, never status 0 *)
  Lemma only_reads target fs sched kill w' :
    read_ext target (w0 fs sched kill) w' -> Forall (fun e => is_read_call target (fst e)) (rev (w_trace w')).
  Proof.
    intros [evs [He Hf]]. simpl in He. rewrite app_nil_r in He. rewrite He. now apply Forall_rev.
  Qed.

  Lemma unparsable_untouched v c target tmp fs sched kill f0 :
    files fs target = Some f0 -> fmtall (f_data f0) = None ->
    let r := run fmt1 parts join v c target tmp fs sched kill in
    r_fs r = fs /\ Forall (fun e => is_read_call target (fst e)) (r_trace r) /\ r_status r <> Exit 0.
  Proof.
    intros Hf0 Hn. cbv zeta. destruct (run_post v c target tmp fs sched kill) as [b [w' [Hs [Hfs [Htr Ho]]]]].
    rewrite Hfs, Hs, Htr. unfold fout in Ho. cbn [w0 w_fs] in Ho.
    destruct Ho as [[H1 [H2 H3]] | [_ [f0' [out [Hf0' [Hfmt _]]]]]].
    - repeat split; auto. { eapply only_reads; eauto. }
      intro E. apply status_of_exit0 in E. destruct (H3 E) as [f0' [Hf0' Hc]].
      rewrite Hf0 in Hf0'. inversion Hf0'; subst f0'.
      destruct c; auto.
      apply check_ok_parses in Hc. congruence.
    - rewrite Hf0 in Hf0'. inversion Hf0'; subst f0'. congruence.
  Qed.

  (* T5: check mode never writes, and status 0 means formatted *)
  Lemma check_no_write v target tmp fs sched kill :
    let r := run fmt1 parts join v CmdCheck target tmp fs sched kill in
    r_fs r = fs /\ Forall (fun e => is_read_call target (fst e)) (r_trace r) /\
    (r_status r = Exit 0 -> exists f0, files fs target = Some f0 /\ checkok (f_data f0) = true).
  Proof.
    cbv zeta. destruct (run_post v CmdCheck target tmp fs sched kill) as [b [w' [Hs [Hfs [Htr Ho]]]]].
    rewrite Hfs, Hs, Htr. unfold fout in Ho. cbn [w0 w_fs] in Ho.
    destruct Ho as [[H1 [H2 H3]] | [Hc _]]; [|discriminate].
    repeat split; auto. { eapply only_reads; eauto. }
    intro E. apply status_of_exit0 in E. apply H3; auto.
  Qed.
End Formatter.

(* ---------- fault-free runs ---------- *)
Lemma read_file_nofault p fs k tr f :
  files fs p = Some f ->
  exists w', read_file p {| w_fs := fs; w_sched := []; w_left := 5 + k; w_trace := tr |} = Go (Some (f_data f)) w' /\
             w_fs w' = fs /\ w_sched w' = [] /\ k <= w_left w'.
Proof.
  intro Hf. unfold read_file, bind, syscall, ret_, file_len. simpl. rewrite Hf. simpl. rewrite Hf. simpl.
  rewrite Hf. destruct (f_data f) as [|x l] eqn:Ed.
  - simpl. eexists. repeat split; simpl; lia.
  - cbn [skipn List.length firstn]. rewrite firstn_all.
    cbn [read_loop app List.length]. unfold syscall. cbn [w_left w_sched w_fs hd tl fst snd sys_exec].
    rewrite Hf, Ed. cbn [List.length skipn]. rewrite skipn_all.
    simpl. eexists. repeat split; simpl; lia.
Qed.

Section FormatterNoFault.
  Variable fmt1 : bytes -> option bytes.
  Variable parts : bytes -> list bytes.
  Variable join : bytes -> list bytes -> bytes.

  (* T5': without faults, `fmt -c` exits 0 exactly when every part is formatted *)
  Lemma check_truth_nofault v target tmp fs k f0 :
    files fs target = Some f0 ->
    r_status (run fmt1 parts join v CmdCheck target tmp fs [] (5 + k)) =
    if check_ok fmt1 parts (f_data f0) then Exit 0 else Exit 1.
  Proof.
    intro Hf. unfold run, fmt_file, bind.
    destruct (read_file_nofault target fs k [] f0 Hf) as [w' [-> _]].
    unfold ret_. now destruct (check_ok fmt1 parts (f_data f0)).
  Qed.
End FormatterNoFault.

(* for a plain .evy file: check_ok src  <->  format src = src *)
Lemma evy_check_ok_iff fmt1 src :
  check_ok fmt1 evy_parts src = true <-> fmt_all fmt1 evy_parts evy_join src = Some src.
Proof.
  unfold check_ok, fmt_all, evy_parts, part_ok. simpl.
  destruct (fmt1 src) as [o|]; simpl.
  - rewrite andb_true_r. rewrite str_eqb_eq. split; intro H; [now subst | now inversion H].
  - split; discriminate.
Qed.

(* ---------- the protocol in force removes its temp file ---------- *)
(* after the process has EXITED (was not killed), the temp path is empty again,
   unless the clean-up unlink itself failed *)
Definition tmp_gone (tmp : path) (w' : world) : Prop :=
  files (w_fs w') tmp = None \/ exists e, In (CUnlink tmp, RErr e) (w_trace w').

Lemma post_any {A} (m : world -> step A) w (Q : A -> world -> Prop) (K : status -> world -> Prop) :
  (forall a w', Q a w') -> (forall s w', K s w') -> post m w Q K.
Proof. intros HQ HK. unfold post. destruct (m w); auto. Qed.

Lemma remove_temp_gone tmp w :
  post (remove_temp tmp) w (fun _ w' => tmp_gone tmp w') (fun _ _ => True).
Proof.
  unfold remove_temp. apply post_bind, post_syscall; auto.
  intros k fs' r El Heff. simpl in Heff. destruct Heff as [[Hr ->] | [-> ->]].
  - rewrite Hr. apply is_ok_false in Hr. destruct Hr as [e ->].
    apply post_bind, post_syscall; auto.
    intros k2 fs2 r2 El2 _. apply post_ret. right. exists e. simpl. auto.
  - simpl. apply post_ret. left. cbn [w_fs]. apply upd_same.
Qed.

Lemma close_remove_temp_gone tmp w :
  post (close_remove_temp tmp) w (fun _ w' => tmp_gone tmp w') (fun _ _ => True).
Proof.
  unfold close_remove_temp. apply post_bind, post_syscall; auto.
  intros k fs' r El _. apply remove_temp_gone.
Qed.

Lemma write_atomically_clean out target tmp w :
  post (write_atomically out target tmp) w
       (fun _ w' => w_fs w' = w_fs w \/ (files (w_fs w) tmp = None /\ tmp_gone tmp w'))
       (fun _ _ => True).
Proof.
  unfold write_atomically. apply post_bind, post_syscall; auto.
  intros k0 fs' r0 El0 [-> Hm]. cbn [w_fs].
  destruct r0 as [| | |m|]; try (apply post_ret; left; reflexivity).
  destruct (Hm m eq_refl) as [f0 [Hf0 _]].
  apply post_bind, post_syscall; auto.
  intros k fs1 r1 El1 Heff. simpl in Heff. destruct Heff as [[Hr ->] | [-> [H0 ->]]].
  - rewrite Hr. apply post_ret. left. reflexivity.
  - simpl is_ok. cbv iota.
    assert (Hne : tmp <> target) by (intro E; subst tmp; congruence).
    assert (Hgo : forall (m0 : world -> step bool) w2,
               post m0 w2 (fun _ w' => tmp_gone tmp w') (fun _ _ => True) ->
               post m0 w2 (fun _ w' => w_fs w' = w_fs w \/ (files (w_fs w) tmp = None /\ tmp_gone tmp w')) (fun _ _ => True)).
    { intros m0 w2 H. eapply post_weaken; [exact H | | auto]. intros a w' Hg. right. auto. }
    apply post_bind. apply post_any; auto. intros okw w2. destruct okw.
    + apply post_bind, post_syscall; auto.
      intros k2 fs2 r2 El2 _. destruct (is_ok r2).
      * apply post_bind, post_syscall; auto.
        intros k3 fs3 r3 El3 _. destruct (is_ok r3).
        -- apply post_bind, post_syscall; auto.
           intros k4 fs4 r4 El4 _.
           apply post_bind, post_syscall; auto.
           intros k5 fs5 r5 El5 Heff5. simpl in Heff5.
           destruct Heff5 as [[Hr5 ->] | [f [Hf [-> [[E _] | [_ ->]]]]]].
           ++ rewrite Hr5. apply Hgo, remove_temp_gone.
           ++ contradiction.
           ++ simpl is_ok. cbv iota. apply post_ret. right. split; auto. left. cbn [w_fs]. apply upd_same.
        -- apply Hgo, remove_temp_gone.
      * apply Hgo, close_remove_temp_gone.
    + apply Hgo, close_remove_temp_gone.
Qed.

Section FormatterClean.
  Variable fmt1 : bytes -> option bytes.
  Variable parts : bytes -> list bytes.
  Variable join : bytes -> list bytes -> bytes.

  Lemma fmt_file_clean target tmp w :
    post (fmt_file fmt1 parts join Current CmdWrite target tmp) w
         (fun _ w' => w_fs w' = w_fs w \/ (files (w_fs w) tmp = None /\ tmp_gone tmp w'))
         (fun _ _ => True).
  Proof.
    unfold fmt_file. apply post_bind. eapply post_weaken; [apply read_file_post | | auto].
    intros r w1 [H1 _]. destruct r as [src|]; [|apply post_ret; auto].
    destruct (fmt_all fmt1 parts join src) as [out|]; [|apply post_ret; auto].
    simpl. eapply post_weaken; [apply write_atomically_clean | | auto].
    intros b w2 H. rewrite H1 in H. exact H.
  Qed.

  (* T6: a run of the protocol in force that exits (is not killed) leaves nothing at the temp
     path that was not there before, unless the clean-up unlink failed *)
  Lemma fmt_w_no_temp_left target tmp fs sched kill n :
    let r := run fmt1 parts join Current CmdWrite target tmp fs sched kill in
    r_status r = Exit n ->
    files (r_fs r) tmp = files fs tmp \/ exists e, In (CUnlink tmp, RErr e) (r_trace r).
  Proof.
    cbv zeta. unfold run.
    pose proof (fmt_file_clean target tmp {| w_fs := fs; w_sched := sched; w_left := kill; w_trace := [] |}) as Hc.
    pose proof (fmt_file_post fmt1 parts join Current CmdWrite target tmp
                  {| w_fs := fs; w_sched := sched; w_left := kill; w_trace := [] |}) as Hp.
    unfold post in Hc, Hp.
    destruct (fmt_file fmt1 parts join Current CmdWrite target tmp
                {| w_fs := fs; w_sched := sched; w_left := kill; w_trace := [] |}) as [b w'|s w'].
    - cbn [w_fs] in Hc. intros _.
      assert (Hgoal : files (w_fs w') tmp = files fs tmp \/ exists e, In (CUnlink tmp, RErr e) (rev (w_trace w'))).
      { destruct Hc as [-> | [H0 [Hg | [e He]]]]; auto.
        - left. now rewrite Hg, H0.
        - right. exists e. now apply in_rev in He. }
      destruct b; exact Hgoal.
    - destruct Hp as [-> _]. simpl. discriminate.
  Qed.
End FormatterClean.

(* ---------- several files in one invocation ---------- *)
Section Multi.
  Variable fmt1 : bytes -> option bytes.
  Variable parts : bytes -> list bytes.
  Variable join : bytes -> list bytes -> bytes.
  Notation fmtall := (fmt_all fmt1 parts join).
  Notation checkok := (check_ok fmt1 parts).

  (* target t held f0 in fs and holds the complete formatted text, with the protocol's final mode, in fs' *)
  Definition formatted_to (v : variant) (fs fs' : fsys) (t : path) : Prop :=
    exists f0 out, files fs t = Some f0 /\ fmtall (f_data f0) = Some out /\
                   files fs' t = Some {| f_data := out; f_mode := final_mode v f0 |}.

  Lemma fout_step v c target tmp w b w' :
    fout fmt1 parts join v c target tmp w b w' ->
    (forall q, q <> target -> q <> tmp -> files (w_fs w') q = files (w_fs w) q) /\
    (files (w_fs w') target = files (w_fs w) target \/ formatted_to v (w_fs w) (w_fs w') target) /\
    (b = Some true -> c = CmdWrite -> formatted_to v (w_fs w) (w_fs w') target).
  Proof.
    intros [[H1 [_ H3]] | [Hc [f0 [out [Hf0 [Hfmt [Hw Hb]]]]]]].
    - rewrite H1. repeat split; auto. intros E ->. destruct (H3 E) as [? [_ []]].
    - destruct Hw as [[Hq _] | written m Hne H0 [Ht1 [Ht2 [Ht3 Ht4]]] | Hne H0 Ht Htmp Hq Hd].
      + repeat split; auto. intros E _. exists f0, out. auto.
      + repeat split; auto. intros E _. exists f0, out. auto.
      + repeat split; auto.
        * right. exists f0, out. auto.
        * intros _ _. exists f0, out. auto.
  Qed.

  (* how far the run got: a prefix of the targets is formatted, then at most one target is
     "old or formatted", all later ones are untouched *)
  Inductive progress (v : variant) (fs fs' : fsys) : list path -> Prop :=
  | PNil : progress v fs fs' []
  | PDone t ts : formatted_to v fs fs' t -> progress v fs fs' ts -> progress v fs fs' (t :: ts)
  | PStop t ts : (files fs' t = files fs t \/ formatted_to v fs fs' t) ->
                 (forall t', In t' ts -> files fs' t' = files fs t') -> progress v fs fs' (t :: ts).

  Definition frame (fl : list (path * path)) (fs fs' : fsys) : Prop :=
    forall q, ~ In q (map fst fl) -> ~ In q (map snd fl) -> files fs' q = files fs q.

  Lemma formatted_to_transport v fs fs1 fs' t :
    files fs1 t = files fs t -> formatted_to v fs1 fs' t -> formatted_to v fs fs' t.
  Proof. intros E [f0 [out [H1 [H2 H3]]]]. exists f0, out. rewrite <- E. auto. Qed.

  Lemma progress_transport v fs fs1 fs' ts :
    (forall t, In t ts -> files fs1 t = files fs t) -> progress v fs1 fs' ts -> progress v fs fs' ts.
  Proof.
    intros E P. induction P as [|t ts Hf P IH|t ts Hf Hr].
    - constructor.
    - apply PDone.
      + eapply formatted_to_transport; [|exact Hf]. apply E. left; auto.
      + apply IH. intros t' Ht'. apply E. right; auto.
    - apply PStop.
      + destruct Hf as [Hf|Hf].
        * left. rewrite Hf. apply E. left; auto.
        * right. eapply formatted_to_transport; [|exact Hf]. apply E. left; auto.
      + intros t' Ht'. rewrite Hr; auto. apply E. right; auto.
  Qed.

  Lemma fmt_files_write_post v fl : forall w,
    NoDup (map fst fl) -> (forall p, In p fl -> ~ In (snd p) (map fst fl)) ->
    post (fmt_files fmt1 parts join v CmdWrite fl) w
         (fun b w' => frame fl (w_fs w) (w_fs w') /\ progress v (w_fs w) (w_fs w') (map fst fl) /\
                      (b = true -> Forall (formatted_to v (w_fs w) (w_fs w')) (map fst fl)))
         (fun s w' => s = Killed /\ frame fl (w_fs w) (w_fs w') /\ progress v (w_fs w) (w_fs w') (map fst fl)).
  Proof.
    induction fl as [|[t tmp] rest IH]; intros w Hnd Htmp.
    - simpl. apply post_ret. repeat split; auto; try (intros q _ _; reflexivity); constructor.
    - simpl in Hnd. inversion Hnd as [|? ? Hnotin Hnd']; subst.
      assert (Htmp_t : ~ In tmp (t :: map fst rest)) by (apply (Htmp (t, tmp)); left; auto).
      assert (Htmp' : forall p, In p rest -> ~ In (snd p) (map fst rest)).
      { intros p Hp Hin. apply (Htmp p); [right; auto | right; auto]. }
      assert (Hrest_t : forall p, In p rest -> snd p <> t).
      { intros p Hp E. apply (Htmp p); [right; auto | left; auto]. }
      simpl fmt_files. apply post_bind.
      eapply post_weaken; [apply fmt_file_post | |].
      + intros b w1 Ho. apply fout_step in Ho. destruct Ho as [F1 [F2 F3]].
        assert (Hunt : forall t', In t' (map fst rest) -> files (w_fs w1) t' = files (w_fs w) t').
        { intros t' Ht'. apply F1.
          - intro E; subst. contradiction.
          - intro E; subst. apply Htmp_t. right; auto. }
        assert (Hframe1 : forall q, ~ In q (map fst ((t, tmp) :: rest)) -> ~ In q (map snd ((t, tmp) :: rest)) ->
                                    files (w_fs w1) q = files (w_fs w) q).
        { intros q Hq1 Hq2. apply F1; intro E; subst; [apply Hq1 | apply Hq2]; left; auto. }
        destruct b.
        * specialize (F3 eq_refl eq_refl).
          eapply post_weaken; [apply (IH w1 Hnd' Htmp') | |].
          -- intros b' w' [Fr [Pr Hall]].
             assert (Ht_keep : files (w_fs w') t = files (w_fs w1) t).
             { apply Fr; auto. intro Hin. apply in_map_iff in Hin. destruct Hin as [p [Ep Hp]].
               apply (Hrest_t p Hp). auto. }
             assert (Hdone : formatted_to v (w_fs w) (w_fs w') t).
             { destruct F3 as [f0 [out [A [B C]]]]. exists f0, out. rewrite Ht_keep. auto. }
             repeat split.
             ++ intros q Hq1 Hq2. rewrite Fr.
                ** apply Hframe1; auto.
                ** intro Hin. apply Hq1. right; auto.
                ** intro Hin. apply Hq2. right; auto.
             ++ simpl. apply PDone; auto. eapply progress_transport; [|exact Pr]. auto.
             ++ intro E. simpl. constructor; auto.
                specialize (Hall E). rewrite Forall_forall in *. intros t' Ht'.
                eapply formatted_to_transport; [|apply Hall; auto]. auto.
          -- intros s w' [-> [Fr Pr]]. split; auto.
             assert (Ht_keep : files (w_fs w') t = files (w_fs w1) t).
             { apply Fr; auto. intro Hin. apply in_map_iff in Hin. destruct Hin as [p [Ep Hp]].
               apply (Hrest_t p Hp). auto. }
             split.
             ++ intros q Hq1 Hq2. rewrite Fr.
                ** apply Hframe1; auto.
                ** intro Hin. apply Hq1. right; auto.
                ** intro Hin. apply Hq2. right; auto.
             ++ simpl. apply PDone.
                ** destruct F3 as [f0 [out [A [B C]]]]. exists f0, out. rewrite Ht_keep. auto.
                ** eapply progress_transport; [|exact Pr]. auto.
        * apply post_ret. repeat split; auto.
          -- simpl. apply PStop; auto.
          -- discriminate.
      + intros s w1 [-> Ho]. apply fout_step in Ho. destruct Ho as [F1 [F2 F3]]. split; auto. split.
        * intros q Hq1 Hq2. apply F1; intro E; subst; [apply Hq1 | apply Hq2]; left; auto.
        * simpl. apply PStop; auto. intros t' Ht'. apply F1.
          -- intro E; subst. contradiction.
          -- intro E; subst. apply Htmp_t. right; auto.
  Qed.

  Lemma progress_each v fs fs' ts t :
    progress v fs fs' ts -> In t ts -> files fs' t = files fs t \/ formatted_to v fs fs' t.
  Proof.
    intro P. induction P as [|x ts Hf P IH|x ts Hf Hr]; intro Hin.
    - destruct Hin.
    - destruct Hin as [->|Hin]; auto.
    - destruct Hin as [->|Hin]; auto.
  Qed.

  Lemma progress_unparsable v fs fs' pre t post f0 :
    progress v fs fs' (pre ++ t :: post) -> files fs t = Some f0 -> fmtall (f_data f0) = None ->
    files fs' t = files fs t /\ forall t', In t' post -> files fs' t' = files fs t'.
  Proof.
    intros P Hf0 Hn.
    assert (Hnot : ~ formatted_to v fs fs' t).
    { intros [f0' [out [A [B _]]]]. rewrite Hf0 in A. inversion A; subst. congruence. }
    revert P. induction pre as [|x pre IH]; simpl; intro P.
    - inversion P as [|? ? Hf _|? ? Hf Hr]; subst; [contradiction|].
      split; auto. destruct Hf; [auto | contradiction].
    - inversion P as [|? ? _ P'|? ? _ Hr]; subst; auto.
      split; [apply Hr; apply in_or_app; right; left; auto|].
      intros t' Ht'. apply Hr. apply in_or_app. right. right. auto.
  Qed.

  Definition w0m (fs : fsys) (sched : list outcome) (kill : nat) : world :=
    {| w_fs := fs; w_sched := sched; w_left := kill; w_trace := [] |}.

  (* T7: fmt -w over a list of files *)
  Lemma fmt_w_multi_atomic v fl fs sched kill :
    NoDup (map fst fl) -> (forall p, In p fl -> ~ In (snd p) (map fst fl)) ->
    let r := run_files fmt1 parts join v CmdWrite fl fs sched kill in
    progress v fs (r_fs r) (map fst fl) /\ frame fl fs (r_fs r) /\
    (r_status r = Exit 0 -> Forall (formatted_to v fs (r_fs r)) (map fst fl)) /\
    r_status r <> OutOfFuel.
  Proof.
    intros Hnd Htmp. cbv zeta. unfold run_files.
    pose proof (fmt_files_write_post v fl (w0m fs sched kill) Hnd Htmp) as H. unfold post, w0m in H.
    destruct (fmt_files fmt1 parts join v CmdWrite fl {| w_fs := fs; w_sched := sched; w_left := kill; w_trace := [] |})
      as [[|] w'|s w']; cbn [w_fs] in H; cbn [r_fs r_status].
    - destruct H as [Fr [Pr Hall]]. repeat split; auto. discriminate.
    - destruct H as [Fr [Pr Hall]]. repeat split; auto; discriminate.
    - destruct H as [-> [Fr Pr]]. repeat split; auto; discriminate.
  Qed.

  (* ---- fmt -c over a list of files ---- *)
  Definition reads_ext (fl : list (path * path)) (w w' : world) : Prop :=
    exists evs, w_trace w' = evs ++ w_trace w /\
                Forall (fun e => exists t, In t (map fst fl) /\ is_read_call t (fst e)) evs.

  Lemma fmt_files_check_post v fl : forall w,
    post (fmt_files fmt1 parts join v CmdCheck fl) w
         (fun b w' => w_fs w' = w_fs w /\ reads_ext fl w w' /\
                      (b = true -> Forall (fun t => exists f0, files (w_fs w) t = Some f0 /\ checkok (f_data f0) = true)
                                          (map fst fl)))
         (fun s w' => s = Killed /\ w_fs w' = w_fs w /\ reads_ext fl w w').
  Proof.
    induction fl as [|[t tmp] rest IH]; intro w.
    - simpl. apply post_ret. repeat split; auto. exists []. split; auto.
    - simpl fmt_files. apply post_bind. eapply post_weaken; [apply fmt_file_post | |].
      + intros b w1 [[H1 [[evs [He Hf]] H3]] | [Hc _]]; [|discriminate].
        assert (R1 : reads_ext ((t, tmp) :: rest) w w1).
        { exists evs. split; auto. eapply Forall_impl; [|exact Hf]. intros e He'. exists t. split; auto. left; auto. }
        destruct b.
        * eapply post_weaken; [apply (IH w1) | |].
          -- intros b' w' [E [[evs' [He' Hf']] Hall]]. rewrite E, H1. repeat split; auto.
             ++ exists (evs' ++ evs). rewrite He', He, app_assoc. split; auto.
                apply Forall_app. split.
                ** eapply Forall_impl; [|exact Hf']. intros e [t' [Ht' Hr]]. exists t'. split; auto. right; auto.
                ** eapply Forall_impl; [|exact Hf]. intros e Hr. exists t. split; auto. left; auto.
             ++ intro Eb. simpl. constructor.
                ** destruct (H3 eq_refl) as [f0 [A B]]. exists f0. auto.
                ** specialize (Hall Eb). rewrite H1 in Hall. exact Hall.
          -- intros s w' [-> [E [evs' [He' Hf']]]]. rewrite E, H1. repeat split; auto.
             exists (evs' ++ evs). rewrite He', He, app_assoc. split; auto.
             apply Forall_app. split.
             ++ eapply Forall_impl; [|exact Hf']. intros e [t' [Ht' Hr]]. exists t'. split; auto. right; auto.
             ++ eapply Forall_impl; [|exact Hf]. intros e Hr. exists t. split; auto. left; auto.
        * apply post_ret. repeat split; auto. discriminate.
      + intros s w1 [-> [[H1 [[evs [He Hf]] _]] | [Hc _]]]; [|discriminate].
        repeat split; auto. exists evs. split; auto.
        eapply Forall_impl; [|exact Hf]. intros e He'. exists t. split; auto. left; auto.
  Qed.

  (* T8: fmt -c f1 … fn never writes, under any schedule, and status 0 means every file is formatted *)
  Lemma check_multi_no_write v fl fs sched kill :
    let r := run_files fmt1 parts join v CmdCheck fl fs sched kill in
    r_fs r = fs /\
    Forall (fun e => exists t, In t (map fst fl) /\ is_read_call t (fst e)) (r_trace r) /\
    (r_status r = Exit 0 ->
     Forall (fun t => exists f0, files fs t = Some f0 /\ checkok (f_data f0) = true) (map fst fl)).
  Proof.
    cbv zeta. unfold run_files.
    pose proof (fmt_files_check_post v fl (w0m fs sched kill)) as H. unfold post, w0m in H.
    destruct (fmt_files fmt1 parts join v CmdCheck fl {| w_fs := fs; w_sched := sched; w_left := kill; w_trace := [] |})
      as [[|] w'|s w']; cbn [w_fs w_trace] in H; cbn [r_fs r_status r_trace].
    - destruct H as [E [[evs [He Hf]] Hall]]. rewrite app_nil_r in He. rewrite He. repeat split; auto. now apply Forall_rev.
    - destruct H as [E [[evs [He Hf]] Hall]]. rewrite app_nil_r in He. rewrite He. repeat split; auto.
      + now apply Forall_rev.
      + discriminate.
    - destruct H as [-> [E [evs [He Hf]]]]. rewrite app_nil_r in He. rewrite He. repeat split; auto.
      + now apply Forall_rev.
      + discriminate.
  Qed.

  (* fault-free: status 0 exactly when every file is formatted *)
  Definition all_ok (fs : fsys) (fl : list (path * path)) : bool :=
    forallb (fun t => match files fs t with Some f => checkok (f_data f) | None => false end) (map fst fl).

  Lemma check_files_nofault v fl : forall fs k tr,
    (forall t, In t (map fst fl) -> files fs t <> None) ->
    exists w', fmt_files fmt1 parts join v CmdCheck fl
                 {| w_fs := fs; w_sched := []; w_left := 5 * List.length fl + k; w_trace := tr |} = Go (all_ok fs fl) w'.
  Proof.
    induction fl as [|[t tmp] rest IH]; intros fs k tr Hex.
    - simpl. eexists. reflexivity.
    - destruct (files fs t) as [f|] eqn:Hf; [|exfalso; apply (Hex t); [left; auto | auto]].
      replace (5 * List.length ((t, tmp) :: rest) + k) with (5 + (5 * List.length rest + k)) by (simpl; lia).
      destruct (read_file_nofault t fs (5 * List.length rest + k) tr f Hf) as [w1 [Hr [Hfs [Hs Hl]]]].
      unfold all_ok. cbn [map fst forallb fmt_files]. rewrite Hf. unfold fmt_file, bind. rewrite Hr. unfold ret_.
      destruct (checkok (f_data f)) eqn:Eok; cbn [andb].
      + destruct w1 as [fs1 s1 l1 t1]. simpl in *. subst fs1 s1.
        replace l1 with (5 * List.length rest + (l1 - 5 * List.length rest)) by lia.
        apply IH. intros t' Ht'. apply Hex. right; auto.
      + eexists. reflexivity.
  Qed.

  Lemma check_truth_multi v fl fs k :
    (forall t, In t (map fst fl) -> files fs t <> None) ->
    r_status (run_files fmt1 parts join v CmdCheck fl fs [] (5 * List.length fl + k)) =
    if all_ok fs fl then Exit 0 else Exit 1.
  Proof.
    intro Hex. unfold run_files. destruct (check_files_nofault v fl fs k [] Hex) as [w' ->].
    now destruct (all_ok fs fl).
  Qed.

  (* stdin mode *)
  Lemma stdin_truth c input :
    (fst (fmt_stdin fmt1 c input) = Exit 0 <->
     match c with
     | CmdWrite => False
     | CmdCheck => fmt1 input = Some input
     | CmdPlain => fmt1 input <> None
     end) /\
    (c = CmdPlain -> forall o, fmt1 input = Some o -> snd (fmt_stdin fmt1 c input) = o).
  Proof.
    unfold fmt_stdin, part_ok. destruct c; simpl.
    - split; [split; [discriminate | tauto] | discriminate].
    - split; [|discriminate]. destruct (fmt1 input) as [o|]; simpl.
      + destruct (str_eqb input o) eqn:E; simpl.
        * apply str_eqb_eq in E. subst. tauto.
        * apply str_eqb_neq in E. split; [discriminate|]. intro H. inversion H. subst. contradiction.
      + split; discriminate.
    - split.
      + destruct (fmt1 input); simpl; split; auto; try discriminate. intro H. contradiction.
      + intros _ o Ho. rewrite Ho. reflexivity.
  Qed.
End Multi.
