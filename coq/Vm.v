(* Vm.v — model of pkg/bytecode/vm.go (NewVM, Run's dispatch loop, push, pop,
   drop, pop*Val) and of the value operations of value.go it calls
   (Equals, Index, Slice, Set's bounds check, normalizeIndex,
   normalizeSliceIndices).  No proofs here (see VmProofs.v).

   Representation choices (stated, because the safety theorem is about them):
   - Go has ONE stack array whose first LocalCount slots hold the locals and
     whose operand part starts at sp = LocalCount.  The model keeps the locals
     and the operand part separately; popping from an empty operand part is the
     outcome [Crashed CUnderflow] (Go would read a local's slot and only panic
     with an index-out-of-range once sp reaches 0).  C17 is exactly the claim
     that this never happens for emitted code.
   - strings are Go strings: BYTE sequences; comparison and concatenation are
     byte-wise, indexing / slicing / ranging go through []rune (code points),
     as value.go does since 6a7e6f1 (utf8_decode mirrors Go's decoding: an
     invalid byte is U+FFFD).
   - arrays and maps are immutable values here: the heap effect of OpSetIndex
     (element store through shared backing arrays / the shared Go map) is not
     modelled — OpSetIndex only performs its pops, type checks and the index
     check (normalizeIndex since 8c3c11e).  The known VM divergences that live there are recorded through the
     implementation-level oracle of C16, not through this model.
   - every unchecked type assertion of vm.go/value.go is the outcome
     [Crashed CType]; every returned error is [Failed e]. *)
From Coq Require Import ZArith NArith List Bool String Floats.
From EvyV Require Import Base Bytecode.
Require Import EvyV.Gen.Opcodes.
Import ListNotations.
Open Scope N_scope.

Inductive value :=
| VNum (f : float) | VBool (b : bool) | VStr (s : list N)
| VArr (l : list value) | VMap (m : list (list N * value))
| VNone            (* noneVal{} *)
| VNil.            (* a nil interface: unset global / local slot *)

Inductive perr := EStackOverflow | EDivZero | EBadRepetition | EBounds | EIndexValue | EMapKey | ESlice
                | ERangeValue.   (* ErrRangeValue: a step range with step 0 (fc6a6b3) *)
Inductive crash := CUnderflow | COperand | CDecode | CType
                 | CHost.   (* the Go runtime panics or dies (makeslice: cap out of range, out of memory) *)
Inductive pres := POk (v : value) | PErr (e : perr) | PCrash (c : crash).

(* ---------- numbers ---------- *)
Definition two63 : Z := 9223372036854775808%Z.

(* int(f) when f is integral and fits int64 (then float64(int(f)) == f) *)
Definition go_int_exact (f : float) : option Z :=
  match float_to_Z f with
  | Some z => if ((- two63 <=? z) && (z <? two63))%Z then Some z else None
  | None => None
  end.

(* int(f): truncation toward zero; out of range / NaN / Inf give -2^63 (amd64) *)
Definition go_int_trunc (f : float) : Z :=
  match Prim2SF f with
  | SpecFloat.S754_zero _ => 0%Z
  | SpecFloat.S754_finite s m e =>
      let a := (if (0 <=? e)%Z then Z.pos m * 2 ^ e else Z.pos m / 2 ^ (- e))%Z in
      let z := if s then (- a)%Z else a in
      if ((- two63 <=? z) && (z <? two63))%Z then z else (- two63)%Z
  | _ => (- two63)%Z
  end.

(* math.Mod for the cases the VM reaches (y == 0 is rejected before): exact *)
Definition float_mod (x y : float) : float :=
  match Prim2SF x, Prim2SF y with
  | SpecFloat.S754_nan, _ | _, SpecFloat.S754_nan => nan
  | SpecFloat.S754_infinity _, _ => nan
  | _, SpecFloat.S754_zero _ => nan
  | SpecFloat.S754_zero _, _ => x
  | _, SpecFloat.S754_infinity _ => x
  | SpecFloat.S754_finite sx mx ex, SpecFloat.S754_finite _ my ey =>
      let e := Z.min ex ey in
      let a := (Z.pos mx * 2 ^ (ex - e))%Z in
      let b := (Z.pos my * 2 ^ (ey - e))%Z in
      let r := (a mod b)%Z in
      if (r =? 0)%Z then (if sx then (-0)%float else 0%float)
      else SF2Prim (SpecFloat.binary_normalize 53 1024 (if sx then - r else r)%Z e false)
  end.

(* ---------- UTF-8 ([]rune(string(s)) and string(runes)) ---------- *)
(* encoding of a code point; values >= 0x110000 stand for raw bytes (Base conventions) *)
Definition utf8_cp (c : N) : list N :=
  (if c <? 128 then [c]
   else if c <? 2048 then [192 + c / 64; 128 + c mod 64]
   else if c <? 65536 then [224 + c / 4096; 128 + (c / 64) mod 64; 128 + c mod 64]
   else if c <? 1114112 then [240 + c / 262144; 128 + (c / 4096) mod 64; 128 + (c / 64) mod 64; 128 + c mod 64]
   else [(c - 1114112) mod 256])%N.
Definition utf8_encode (s : list N) : list N := flat_map utf8_cp s.

Definition is_cont (b : N) : bool := (128 <=? b) && (b <=? 191).
Definition rune_error : N := 65533.

(* one rune, as utf8.DecodeRune does: (code point, bytes consumed) *)
Definition decode_rune (l : list N) : N * nat :=
  match l with
  | [] => (rune_error, 1%nat)
  | b0 :: t =>
      if b0 <? 128 then (b0, 1%nat)
      else if (194 <=? b0) && (b0 <=? 223) then
        match t with
        | b1 :: _ => if is_cont b1 then ((b0 - 192) * 64 + (b1 - 128), 2%nat) else (rune_error, 1%nat)
        | _ => (rune_error, 1%nat)
        end
      else if (224 <=? b0) && (b0 <=? 239) then
        match t with
        | b1 :: b2 :: _ =>
            let lo := if b0 =? 224 then 160 else 128 in
            let hi := if b0 =? 237 then 159 else 191 in
            if (lo <=? b1) && (b1 <=? hi) && is_cont b2
            then ((b0 - 224) * 4096 + (b1 - 128) * 64 + (b2 - 128), 3%nat) else (rune_error, 1%nat)
        | _ => (rune_error, 1%nat)
        end
      else if (240 <=? b0) && (b0 <=? 244) then
        match t with
        | b1 :: b2 :: b3 :: _ =>
            let lo := if b0 =? 240 then 144 else 128 in
            let hi := if b0 =? 244 then 143 else 191 in
            if (lo <=? b1) && (b1 <=? hi) && is_cont b2 && is_cont b3
            then ((b0 - 240) * 262144 + (b1 - 128) * 4096 + (b2 - 128) * 64 + (b3 - 128), 4%nat)
            else (rune_error, 1%nat)
        | _ => (rune_error, 1%nat)
        end
      else (rune_error, 1%nat)
  end.

Fixpoint utf8_decode_fuel (fuel : nat) (l : list N) : list N :=
  match fuel, l with
  | _, [] => []
  | O, _ => []
  | S f, _ => let (c, n) := decode_rune l in c :: utf8_decode_fuel f (skipn n l)
  end.
(* []rune(string(s)) *)
Definition utf8_decode (l : list N) : list N := utf8_decode_fuel (List.length l) l.

(* ---------- value.go ---------- *)
(* value.Equals; [None] = the "internal error" panic on a type mismatch or a
   nil receiver *)
Fixpoint val_equals (a b : value) {struct a} : option bool :=
  match a, b with
  | VNum x, VNum y => Some (PrimFloat.eqb x y)
  | VBool x, VBool y => Some (Bool.eqb x y)
  | VStr x, VStr y => Some (str_eqb x y)
  | VArr l1, VArr l2 =>
      if negb (Nat.eqb (List.length l1) (List.length l2)) then Some false
      else (fix go (l1 l2 : list value) : option bool :=
              match l1, l2 with
              | x :: t1, y :: t2 =>
                  match val_equals x y with
                  | Some true => go t1 t2
                  | r => r
                  end
              | _, _ => Some true
              end) l1 l2
  | VMap m1, VMap m2 =>
      if negb (Nat.eqb (List.length m1) (List.length m2)) then Some false
      else (fix go (m1 : list (list N * value)) : option bool :=
              match m1 with
              | [] => Some true
              | (k, v) :: t =>
                  match (fix look (m : list (list N * value)) : option value :=
                           match m with
                           | [] => None
                           | (k', v') :: r => if str_eqb k' k then Some v' else look r
                           end) m2 with
                  | None => Some false
                  | Some VNil => Some false
                  | Some v2 => match val_equals v v2 with
                               | Some true => go t
                               | r => r
                               end
                  end
              end) m1
  | VNone, _ => Some false
  | _, _ => None
  end.

Inductive idx_res := IOk (i : nat) | IErr (e : perr).

(* normalizeIndex *)
Definition normalize_index (f : float) (len : nat) (is_slice : bool) : idx_res :=
  match go_int_exact f with
  | None => IErr EIndexValue
  | Some i =>
      let length := Z.of_nat len in
      let limit := (if is_slice then length else length - 1)%Z in
      if ((i <? - length) || (limit <? i))%Z then IErr EBounds
      else if (i <? 0)%Z then IOk (Z.to_nat (length + i)) else IOk (Z.to_nat i)
  end.

Fixpoint map_lookup (k : list N) (m : list (list N * value)) : option value :=
  match m with
  | [] => None
  | (k', v) :: r => if str_eqb k' k then Some v else map_lookup k r
  end.

(* OpIndex: lhs.(indexable).Index(index) *)
Definition index_value (lhs idx : value) : pres :=
  match lhs with
  | VStr s =>
      match idx with
      | VNum f => let runes := utf8_decode s in
                  match normalize_index f (List.length runes) false with
                  | IOk i => POk (VStr (utf8_encode (firstn 1 (skipn i runes))))
                  | IErr e => PErr e
                  end
      | _ => PCrash CType
      end
  | VArr l =>
      match idx with
      | VNum f => match normalize_index f (List.length l) false with
                  | IOk i => match nth_error l i with Some v => POk v | None => PCrash CType end
                  | IErr e => PErr e
                  end
      | _ => PCrash CType
      end
  | VMap m =>
      match idx with
      | VStr k => match map_lookup k m with Some v => POk v | None => PErr EMapKey end
      | _ => PCrash CType
      end
  | _ => PCrash CType
  end.

(* normalizeSliceIndices *)
Definition slice_bounds (start stop : value) (len : nat) : option (idx_res * idx_res) :=
  let one (v : value) (dflt : nat) : option idx_res :=
    match v with
    | VNone => Some (IOk dflt)
    | VNum f => Some (normalize_index f len true)
    | _ => None
    end in
  match one start 0%nat with
  | None => None
  | Some (IErr e) => Some (IErr e, IErr e)
  | Some (IOk a) => match one stop len with
                    | None => None
                    | Some r => Some (IOk a, r)
                    end
  end.

(* OpSlice: lhs.(sliceable).Slice(start, end) *)
Definition slice_value (lhs start stop : value) : pres :=
  let go (len : nat) (mk : nat -> nat -> value) : pres :=
    match slice_bounds start stop len with
    | None => PCrash CType
    | Some (IErr e, _) => PErr e
    | Some (IOk _, IErr e) => PErr e
    | Some (IOk a, IOk b) => if (b <? a)%nat then PErr ESlice else POk (mk a b)
    end in
  match lhs with
  | VStr s => let runes := utf8_decode s in
              go (List.length runes) (fun a b => VStr (utf8_encode (firstn (b - a) (skipn a runes))))
  | VArr l => go (List.length l) (fun a b => VArr (firstn (b - a) (skipn a l)))
  | _ => PCrash CType
  end.

Fixpoint repeat_app {A} (n : nat) (l : list A) : list A :=
  match n with O => [] | S n' => l ++ repeat_app n' l end.

(* OpArrayRepeat: len * count is more than any array may have (the evaluator's
   guard: repetitions > math.MaxInt32 / len) *)
Definition repeat_too_large (len : nat) (n : Z) : bool :=
  negb (len =? 0)%nat && (2147483647 / Z.of_nat len <? n)%Z.
(* vm.go since 208ef1c returns ErrBadRepetition there (true); before, there was
   no guard: make([]value, 0, len*count) panicked in makeslice or the process
   ran out of memory (false: arr_repeat false, see the _before_fix lemma) *)
Definition repeat_guarded : bool := true.
Definition arr_repeat (guarded : bool) (r : float) (l : list value) : pres :=
  match go_int_exact r with
  | None => PErr EBadRepetition
  | Some n =>
      if (n <? 0)%Z then PErr EBadRepetition
      else if repeat_too_large (List.length l) n then (if guarded then PErr EBadRepetition else PCrash CHost)
      else POk (VArr (match l with [] => [] | _ :: _ => repeat_app (Z.to_nat n) l end))
           (* the empty array: no rounds at all since 208ef1c (before: count rounds over nothing, a hang for 2^53) *)
  end.

(* pairs (k1 v1 … kn vn), bottom-up order, from the popped values (top first) *)
Fixpoint map_pairs (args : list value) (acc : list (list N * value)) : option (list (list N * value)) :=
  match args with
  | [] => Some acc
  | v :: VStr k :: t => map_pairs t ((k, v) :: acc)
  | _ => None
  end.

Definition num2 (args : list value) (f : float -> float -> pres) : pres :=
  match args with
  | [VNum r; VNum l] => f l r
  | _ => PCrash CType
  end.
Definition str2 (args : list value) (f : list N -> list N -> value) : pres :=
  match args with
  | [VStr r; VStr l] => POk (f l r)
  | _ => PCrash CType
  end.

(* the instructions that pop p values and push exactly one; [args] are the
   popped values, top of stack first *)
Definition pure_sem (o : opc) (arg : N) (consts locals globals : list value) (args : list value) : pres :=
  match o with
  | Constant => match nth_error consts (N.to_nat arg) with Some v => POk v | None => PCrash COperand end
  | GetGlobal => match nth_error globals (N.to_nat arg) with Some v => POk v | None => PCrash COperand end
  | GetLocal => match nth_error locals (N.to_nat arg) with Some v => POk v | None => PCrash COperand end
  | OTrue => POk (VBool true)
  | OFalse => POk (VBool false)
  | ONone => POk VNone
  | Add => num2 args (fun l r => POk (VNum (l + r)))
  | Subtract => num2 args (fun l r => POk (VNum (l - r)))
  | Multiply => num2 args (fun l r => POk (VNum (l * r)))
  | Divide => num2 args (fun l r => if PrimFloat.eqb r 0 then PErr EDivZero else POk (VNum (l / r)))
  | Modulo => num2 args (fun l r => if PrimFloat.eqb r 0 then PErr EDivZero else POk (VNum (float_mod l r)))
  | Not => match args with [VBool b] => POk (VBool (negb b)) | _ => PCrash CType end
  | Minus => match args with [VNum f] => POk (VNum (- f)) | _ => PCrash CType end
  | Equal => match args with
             | [r; l] => match val_equals l r with Some b => POk (VBool b) | None => PCrash CType end
             | _ => PCrash CType
             end
  | NotEqual => match args with
                | [r; l] => match val_equals l r with Some b => POk (VBool (negb b)) | None => PCrash CType end
                | _ => PCrash CType
                end
  | NumLT => num2 args (fun l r => POk (VBool (PrimFloat.ltb l r)))
  | NumLE => num2 args (fun l r => POk (VBool (PrimFloat.leb l r)))
  | NumGT => num2 args (fun l r => POk (VBool (PrimFloat.ltb r l)))
  | NumGE => num2 args (fun l r => POk (VBool (PrimFloat.leb r l)))
  | StrLT => str2 args (fun l r => VBool (str_ltb l r))
  | StrLE => str2 args (fun l r => VBool (negb (str_ltb r l)))
  | StrGT => str2 args (fun l r => VBool (str_ltb r l))
  | StrGE => str2 args (fun l r => VBool (negb (str_ltb l r)))
  | StrConcat => str2 args (fun l r => VStr (l ++ r))
  | Array => POk (VArr (rev args))
  | Map => match map_pairs args [] with Some m => POk (VMap m) | None => PCrash CType end
  | ArrConcat => match args with [VArr r; VArr l] => POk (VArr (l ++ r)) | _ => PCrash CType end
  | ArrRepeat => match args with
                 | [VNum r; VArr l] => arr_repeat repeat_guarded r l
                 | _ => PCrash CType
                 end
  | Index => match args with [idx; lhs] => index_value lhs idx | _ => PCrash CType end
  | Slice => match args with [stop; start; lhs] => slice_value lhs start stop | _ => PCrash CType end
  | _ => PCrash CType
  end.

(* OpSetIndex after its three pops: only the checks (see header).
   arrayVal.Set goes through normalizeIndex (8c3c11e). *)
Definition set_index_check (args : list value) : option pres :=
  match args with
  | [idx; VMap _; _] => match idx with VStr _ => None | _ => Some (PCrash CType) end
  | [idx; VArr l; _] =>
      match idx with
      | VNum f => match normalize_index f (List.length l) false with
                  | IErr e => Some (PErr e)
                  | IOk _ => None
                  end
      | _ => Some (PCrash CType)
      end
  | _ => None
  end.

(* arrayVal.Set before 8c3c11e: int(idx) truncation, bounds check only *)
Definition set_index_check_before_fix (args : list value) : option pres :=
  match args with
  | [idx; VMap _; _] => match idx with VStr _ => None | _ => Some (PCrash CType) end
  | [idx; VArr l; _] =>
      match idx with
      | VNum f => let i := go_int_trunc f in
                  let length := Z.of_nat (List.length l) in
                  if ((length <=? i) || (i <? - length))%Z then Some (PErr EBounds) else None
      | _ => Some (PCrash CType)
      end
  | _ => None
  end.

(* stringVal.Index before 6a7e6f1: byte-wise *)
Definition index_value_before_fix (lhs idx : value) : pres :=
  match lhs, idx with
  | VStr s, VNum f => match normalize_index f (List.length s) false with
                      | IOk i => POk (VStr (firstn 1 (skipn i s)))
                      | IErr e => PErr e
                      end
  | _, _ => index_value lhs idx
  end.

(* ---------- the machine ---------- *)
Record program := { pcode : list N; pconsts : list value; pgcount : N; plcount : N }.

Definition info_of (p : program) : bcinfo :=
  {| bcode := pcode p; nconsts := N.of_nat (List.length (pconsts p)); gcount := pgcount p; lcount := plcount p |}.

Record vmstate := { ip : N; ostack : list value; locals : list value; globals : list value }.

Inductive outcome :=
| Running (s : vmstate)
| Halted (s : vmstate)
| Failed (e : perr)
| Crashed (c : crash).

(* NewVM *)
Definition vm_init (p : program) : vmstate :=
  {| ip := 0; ostack := []; locals := repeat VNil (N.to_nat (plcount p));
     globals := repeat VNil (N.to_nat (pgcount p)) |}.

(* vm.sp *)
Definition sp_of (s : vmstate) : N := N.of_nat (List.length (locals s)) + N.of_nat (List.length (ostack s)).

(* which instructions read a 16-bit operand in vm.go's switch *)
Definition vm_has_operand (o : opc) : bool :=
  match o with
  | Constant | GetGlobal | SetGlobal | GetLocal | SetLocal | Drop | Array | Map
  | Jump | JumpOnFalse | StepRange | IterRange => true
  | _ => false
  end.

(* vm.push: the final operand stack, or ErrStackOverflow when it would exceed StackSize *)
Definition with_stack (s : vmstate) (next : N) (stk : list value) : outcome :=
  if StackSize <? N.of_nat (List.length (locals s)) + N.of_nat (List.length stk) then Failed EStackOverflow
  else Running {| ip := next; ostack := stk; locals := locals s; globals := globals s |}.

Definition step_range (hv : N) (stk : list value) : option (list value) :=
  match stk with
  | VNum index :: VNum step :: VNum stop :: rest =>
      let going := (PrimFloat.ltb 0 step && PrimFloat.ltb index stop)
                   || (PrimFloat.ltb step 0 && PrimFloat.ltb stop index) in
      let base := VNum (index + step) :: VNum step :: VNum stop :: rest in
      Some (VBool going :: (if going && negb (hv =? 0) then VNum index :: base else base))
  | _ => None
  end.

(* the step of the range state on the stack is 0 *)
Definition zero_step (stk : list value) : bool :=
  match stk with
  | VNum _ :: VNum step :: VNum _ :: _ => PrimFloat.eqb step 0
  | _ => false
  end.

Definition iter_range (hv : N) (stk : list value) : option (list value) :=
  match stk with
  | VNum index :: iter :: rest =>
      match float_to_Z index with
      | Some z =>
          if (z <? 0)%Z then None else
          let i := Z.to_nat z in
          let val := match iter with
                     | VArr l => nth_error l i
                     | VMap m => option_map (fun kv => VStr (fst kv)) (nth_error m i)
                     | VStr s => let runes := utf8_decode s in
                                 if (i <? List.length runes)%nat then Some (VStr (utf8_encode (firstn 1 (skipn i runes)))) else None
                     | _ => None
                     end in
          let base := VNum (index + 1) :: iter :: rest in
          Some match val with
               | Some v => VBool true :: (if negb (hv =? 0) then v :: base else base)
               | None => VBool false :: base
               end
      | None => None
      end
  | _ => None
  end.

Definition set_nth_opt {A} (n : nat) (x : A) (l : list A) : option (list A) :=
  if (n <? List.length l)%nat then Some (set_nth n x l) else None.

(* the body of one iteration of Run's loop for opcode o with operand arg;
   [next] is the address of the following instruction *)
Definition exec (p : program) (s : vmstate) (o : opc) (arg next : N) : outcome :=
  match o with
  | Jump => Running {| ip := arg; ostack := ostack s; locals := locals s; globals := globals s |}
  | JumpOnFalse =>
      match ostack s with
      | [] => Crashed CUnderflow
      | VBool b :: rest =>
          Running {| ip := if b then next else arg; ostack := rest; locals := locals s; globals := globals s |}
      | _ :: _ => Crashed CType
      end
  | StepRange =>
      if (List.length (ostack s) <? 3)%nat then Crashed CUnderflow else
      if zero_step (ostack s) then Failed ERangeValue else   (* fc6a6b3: step == 0 is ErrRangeValue *)
      match step_range arg (ostack s) with
      | Some stk => with_stack s next stk
      | None => Crashed CType
      end
  | IterRange =>
      if (List.length (ostack s) <? 2)%nat then Crashed CUnderflow else
      match iter_range arg (ostack s) with
      | Some stk => with_stack s next stk
      | None => Crashed CType
      end
  | _ =>
      match simple_effect o arg with
      | None => Crashed CDecode
      | Some (pn, q) =>
          let pnat := N.to_nat pn in
          if (List.length (ostack s) <? pnat)%nat then Crashed CUnderflow else
          let args := firstn pnat (ostack s) in
          let rest := skipn pnat (ostack s) in
          match o with
          | SetGlobal =>
              match args, set_nth_opt (N.to_nat arg) (hd VNil args) (globals s) with
              | [_], Some g => Running {| ip := next; ostack := rest; locals := locals s; globals := g |}
              | _, _ => Crashed COperand
              end
          | SetLocal =>
              match args, set_nth_opt (N.to_nat arg) (hd VNil args) (locals s) with
              | [_], Some l => Running {| ip := next; ostack := rest; locals := l; globals := globals s |}
              | _, _ => Crashed COperand
              end
          | Drop => Running {| ip := next; ostack := rest; locals := locals s; globals := globals s |}
          | SetIndex =>
              match set_index_check args with
              | Some (PErr e) => Failed e
              | Some (PCrash c) => Crashed c
              | _ => Running {| ip := next; ostack := rest; locals := locals s; globals := globals s |}
              end
          | _ =>
              match pure_sem o arg (pconsts p) (locals s) (globals s) args with
              | POk v => with_stack s next (v :: rest)
              | PErr e => Failed e
              | PCrash c => Crashed c
              end
          end
      end
  end.

(* one iteration of `for ip := 0; ip < len(vm.instructions); ip++` *)
Definition vm_step (p : program) (s : vmstate) : outcome :=
  match skipn (N.to_nat (ip s)) (pcode p) with
  | [] => Halted s
  | b :: rest =>
      match opc_of_N b with
      | None =>
          (* the switch has no default case: an unknown opcode is skipped *)
          Running {| ip := ip s + 1; ostack := ostack s; locals := locals s; globals := globals s |}
      | Some o =>
          if vm_has_operand o then
            match rest with
            | hi :: lo :: _ => exec p s o (hi * 256 + lo) (ip s + 3)
            | _ => Crashed CDecode        (* ReadUint16 on a short slice *)
            end
          else exec p s o 0 (ip s + 1)
      end
  end.

Inductive final := FHalted (s : vmstate) | FFailed (e : perr) | FCrashed (c : crash) | FOutOfFuel.

Fixpoint vm_run (fuel : nat) (p : program) (s : vmstate) : final :=
  match fuel with
  | O => FOutOfFuel
  | S f =>
      match vm_step p s with
      | Running s' => vm_run f p s'
      | Halted s' => FHalted s'
      | Failed e => FFailed e
      | Crashed c => FCrashed c
      end
  end.

(* the states Run can be in after some number of loop iterations *)
Inductive reachable (p : program) : vmstate -> Prop :=
| reach_init : reachable p (vm_init p)
| reach_step s s' : reachable p s -> vm_step p s = Running s' -> reachable p s'.
