(* SvgProofs.v — lemmas about the SVG platform model (Svg.v). *)
From Coq Require Import ZArith NArith List Bool Floats Lia.
From EvyV Require Import Base Svg.
From EvyV.Gen Require Import SvgConsts.
Import ListNotations.

(* ---------- floats ---------- *)
Lemma sf_eqb_eq a b : sf_eqb a b = true -> a = b.
Proof.
  destruct a, b; simpl; try discriminate; intro H.
  - apply eqb_prop in H; congruence.
  - apply eqb_prop in H; congruence.
  - reflexivity.
  - apply andb_true_iff in H as [H H3]. apply andb_true_iff in H as [H1 H2].
    apply eqb_prop in H1. apply Pos.eqb_eq in H2. apply Z.eqb_eq in H3. congruence.
Qed.

Lemma Prim2SF_inj x y : Prim2SF x = Prim2SF y -> x = y.
Proof. intro H. rewrite <- (SF2Prim_Prim2SF x), <- (SF2Prim_Prim2SF y), H. reflexivity. Qed.

Lemma same_text_eq a b : same_text a b = true -> a = b.
Proof. intro H. apply Prim2SF_inj, sf_eqb_eq, H. Qed.

(* Go's == on float64 against a non-zero finite constant is identity of the value *)
Lemma feqb_finite_eq x d s m e :
  Prim2SF d = SpecFloat.S754_finite s m e -> PrimFloat.eqb x d = true -> x = d.
Proof.
  intros Hd H. rewrite eqb_spec, Hd in H. apply Prim2SF_inj. rewrite Hd.
  unfold SpecFloat.SFeqb, SpecFloat.SFcompare in H.
  destruct (Prim2SF x) as [s1|s1| |s1 m1 e1]; try discriminate.
  - destruct s; discriminate.
  - destruct s1; discriminate.
  - destruct s1, s; try discriminate.
    + destruct (Z.compare e1 e) eqn:E; try discriminate.
      apply Z.compare_eq in E. destruct (Pos.compare_cont Eq m1 m) eqn:P; try discriminate.
      apply Pos.compare_eq in P. congruence.
    + destruct (Z.compare e1 e) eqn:E; try discriminate.
      apply Z.compare_eq in E. destruct (Pos.compare_cont Eq m1 m) eqn:P; try discriminate.
      apply Pos.compare_eq in P. congruence.
Qed.

Lemma feqb_default_sw x : PrimFloat.eqb x default_StrokeWidth = true -> x = default_StrokeWidth.
Proof. eapply feqb_finite_eq. vm_compute. reflexivity. Qed.
Lemma feqb_default_size x : PrimFloat.eqb x default_FontSize = true -> x = default_FontSize.
Proof. eapply feqb_finite_eq. vm_compute. reflexivity. Qed.
Lemma feqb_default_weight x : PrimFloat.eqb x default_FontWeight = true -> x = default_FontWeight.
Proof. eapply feqb_finite_eq. vm_compute. reflexivity. Qed.

(* ---------- strings ---------- *)
Lemma pick_nds d s : pick_s (nds d s) d = eff d s.
Proof.
  unfold nds, eff. destruct (str_eqb s d) eqn:E.
  - apply str_eqb_eq in E. subst. simpl. destruct d; reflexivity.
  - destruct s; reflexivity.
Qed.

Lemma is_empty_true s : is_empty s = true -> s = [].
Proof. destruct s; [reflexivity | discriminate]. Qed.

Lemma pick_s_nonempty a b : is_empty a = false -> pick_s a b = a.
Proof. destruct a; [discriminate | reflexivity]. Qed.

Lemma clear_color_nonempty c : is_empty (clear_color c) = false.
Proof. unfold clear_color. destruct c; reflexivity. Qed.

(* ---------- inheritance ---------- *)
Lemma pick_s_nil_l x : pick_s [] x = x. Proof. reflexivity. Qed.
Lemma pick_s_assoc a b c : pick_s (pick_s a b) c = pick_s a (pick_s b c).
Proof. destruct a; reflexivity. Qed.
Lemma pick_o_assoc {A} (a b c : option A) : pick_o (pick_o a b) c = pick_o a (pick_o b c).
Proof. destruct a; reflexivity. Qed.
Lemma pick_l_assoc {A} (a b c : list A) : pick_l (pick_l a b) c = pick_l a (pick_l b c).
Proof. destruct a; reflexivity. Qed.

Lemma over_a_a0 x : over_a a0 x = x.
Proof. destruct x; reflexivity. Qed.
Lemma over_t_t0 x : over_t t0 x = x.
Proof. destruct x; reflexivity. Qed.
Lemma over_a_assoc a b c : over_a (over_a a b) c = over_a a (over_a b c).
Proof.
  unfold over_a; simpl. rewrite !pick_s_assoc, pick_o_assoc, pick_l_assoc. reflexivity.
Qed.

(* ---------- the context given by the root element and SVG's initial values ---------- *)
Definition ctx_a (fx : fixes) : eattr := over_a (root_a fx) initial_a.
Definition ctx_t (fx : fixes) : tattr := over_t (root_t fx) initial_t.

(* The root element's attributes together with SVG's initial values are the
   default pen: this is what justifies nonDefaultAttr dropping default values.
   (Closed facts about coq/Gen/SvgConsts.v: they are re-checked whenever a
   default or a root attribute changes in runtime.go.) *)
Lemma ctx_a_default fx :
  ctx_a fx = mkA default_Fill default_Stroke (Some default_StrokeWidth) default_StrokeLinecap [].
Proof. reflexivity. Qed.

Lemma ctx_t_default fx :
  ctx_t fx = mkT default_TextAnchor default_Baseline (Some default_FontSize) (Some default_FontWeight)
                 default_FontStyle (if fx_family fx then default_FontFamily else root_FontFamily) (Some default_LetterSpacing).
Proof. unfold ctx_t, root_t. destruct (fx_family fx); reflexivity. Qed.

(* the attributes in effect inside a <g> that Push builds under pen p / font f *)
Definition gctx_a (fx : fixes) (p : pen) : eattr := over_a (nd_attr p) (ctx_a fx).
Definition gctx_t (fx : fixes) (f : fnt) : tattr := over_t (nd_tattr f) (ctx_t fx).

Lemma gctx_a_spec fx p : gctx_a fx p = spec_paint p.
Proof.
  unfold gctx_a. rewrite ctx_a_default. unfold over_a, nd_attr, spec_paint; simpl.
  rewrite !pick_nds. f_equal.
  - destruct (PrimFloat.eqb (sw_val p) default_StrokeWidth) eqn:E; simpl; [|reflexivity].
    apply feqb_default_sw in E. congruence.
  - destruct (p_dash p); reflexivity.
Qed.

Lemma gctx_t_spec fx f : gctx_t fx f = spec_font fx f.
Proof.
  unfold gctx_t. rewrite ctx_t_default. unfold over_t, nd_tattr, spec_font; simpl.
  f_equal; try apply pick_nds.
  - destruct (PrimFloat.eqb (f_size f) default_FontSize) eqn:E; simpl; [|reflexivity].
    apply feqb_default_size in E. congruence.
  - destruct (PrimFloat.eqb (f_weight f) default_FontWeight) eqn:E; simpl; [|reflexivity].
    apply feqb_default_weight in E. congruence.
  - destruct (fx_family fx); [apply pick_nds | reflexivity].
  - destruct (same_text (f_ls f) default_LetterSpacing) eqn:E; simpl; [|reflexivity].
    apply same_text_eq in E. congruence.
Qed.

(* the default pen writes no attributes *)
Lemma nd_attr_default p : pen_is_default p = true -> nd_attr p = a0.
Proof.
  unfold pen_is_default, nd_attr, sw_val. intro H.
  repeat (apply andb_true_iff in H; destruct H as [H ?]).
  destruct (p_sw p); [discriminate|]. destruct (p_dash p); [|discriminate].
  unfold nds. rewrite H, H3, H1. reflexivity.
Qed.

(* ---------- the buffer invariant ----------
   every pending element was built by a drawing call under the CURRENT pen *)
Inductive item_ok (fx : fixes) (p : pen) : item -> Prop :=
| ok_plain g : is_text g = false -> item_ok fx p (IShape g a0 t0)
| ok_clear c : item_ok fx p (IShape GClear (mkA (clear_color c) (clear_color c) None [] []) t0)
| ok_text x y s : item_ok fx p (IShape (GText x y s) (text_attr fx p) t0)
| ok_grid c l : item_ok fx p (IGrid (mkA [] c None [] []) t0 l).

Lemma draw_item_ok fx fuel kk c it :
  draw_item fx fuel kk c = Some (Some it) -> item_ok fx (kpen kk) it.
Proof.
  destruct c; simpl; intro H; try discriminate; try (inversion H; subst; constructor; reflexivity).
  destruct (grid_lines fx fuel unit); inversion H; subst. constructor.
Qed.

Lemma text_paint_in_group fx p : over_a (text_attr fx p) (spec_paint p) = spec_text_paint fx p.
Proof.
  unfold text_attr, spec_text_paint. destruct (fx_text fx); simpl.
  - unfold over_a; simpl. destruct (p_dash p); reflexivity.
  - unfold over_a; simpl. destruct (str_eqb (p_fill p) (p_stroke p)); simpl.
    + destruct (p_dash p); reflexivity.
    + destruct (p_stroke p); simpl; destruct (p_dash p); reflexivity.
Qed.

Lemma grid_line_in_group p c gb :
  (fst gb, over_a (grid_line_attr (snd gb)) (over_a (mkA [] c None [] []) (spec_paint p)), @None tattr)
  = spec_grid_line p c gb.
Proof.
  unfold spec_grid_line, grid_line_attr, over_a. destruct gb as [g b]; simpl.
  destruct b, c; simpl; destruct (p_dash p); reflexivity.
Qed.

(* a drawing call appends one element whose shapes, resolved inside the group
   Push would build now, are exactly the specification's shapes for that call *)
Lemma draw_flat fx fuel kk c it :
  draw_item fx fuel kk c = Some (Some it) ->
  spec_shapes fx fuel kk c = Some (flat_item (gctx_a fx (kpen kk)) (gctx_t fx (kfnt kk)) it).
Proof.
  rewrite gctx_a_spec, gctx_t_spec.
  destruct c; simpl; intro H; try discriminate;
    try (inversion H; subst; simpl; rewrite ?over_a_a0; reflexivity).
  - (* clear *) inversion H; subst; simpl. unfold over_a; simpl.
    rewrite !(pick_s_nonempty _ _ (clear_color_nonempty c)). reflexivity.
  - (* text *) inversion H; subst; simpl. rewrite text_paint_in_group, over_t_t0. reflexivity.
  - (* gridn *) destruct (grid_lines fx fuel unit) as [l|]; inversion H; subst; simpl.
    rewrite map_map. f_equal. apply map_ext. intro gb. simpl. symmetry. apply grid_line_in_group.
Qed.

Lemma draw_none fx fuel kk c :
  draw_item fx fuel kk c = Some None -> spec_shapes fx fuel kk c = Some [] /\ is_draw c = false.
Proof.
  destruct c; simpl; intro H; try discriminate; try (split; reflexivity).
  destruct (grid_lines fx fuel unit); discriminate.
Qed.

Lemma draw_hang fx fuel kk c :
  draw_item fx fuel kk c = None <-> spec_shapes fx fuel kk c = None.
Proof.
  destruct c; simpl; split; intro H; try discriminate; destruct (grid_lines fx fuel unit); try discriminate; reflexivity.
Qed.

Lemma draw_keeps_pen fx c kk :
  is_style c = false -> kpen (core_step fx kk c) = kpen kk /\ kfnt (core_step fx kk c) = kfnt kk.
Proof. destruct c; simpl; intro H; try discriminate; split; reflexivity. Qed.

Lemma draw_not_style fx fuel kk c it : draw_item fx fuel kk c = Some (Some it) -> is_style c = false.
Proof. destruct c; simpl; intro H; try discriminate; reflexivity. Qed.

(* ---------- a lone element pushed by itself ---------- *)
Lemma text_lone_fill (F S d : str) :
  is_empty S && negb (is_empty F) && negb (str_eqb F d) = false ->
  pick_s (if str_eqb (nds d F) (nds d S) then nds d F else nds d S) d
  = pick_s (if str_eqb F S then [] else S) (pick_s (nds d F) d).
Proof.
  intro G. rewrite (pick_nds d F).
  destruct (str_eqb F S) eqn:EFS.
  - apply str_eqb_eq in EFS. subst. rewrite str_eqb_refl. simpl. apply pick_nds.
  - apply str_eqb_neq in EFS.
    destruct (str_eqb (nds d F) (nds d S)) eqn:EN.
    + apply str_eqb_eq in EN. rewrite pick_nds.
      destruct S as [|s0 S']; [reflexivity|]. simpl.
      unfold nds in EN.
      destruct (str_eqb (s0 :: S') d) eqn:ESd.
      * apply str_eqb_eq in ESd.
        destruct (str_eqb F d) eqn:EFd.
        -- apply str_eqb_eq in EFd. congruence.
        -- subst F. simpl. symmetry. exact ESd.
      * destruct (str_eqb F d); [discriminate | congruence].
    + rewrite pick_nds. destruct S as [|s0 S']; [|reflexivity].
      destruct F as [|f0 F']; [reflexivity|].
      change (negb (str_eqb (f0 :: F') d) = false) in G.
      apply negb_false_iff in G. apply str_eqb_eq in G. rewrite G. destruct d; reflexivity.
Qed.

Lemma default_fill_is_default_stroke : default_Fill = default_Stroke.
Proof. reflexivity. Qed.

Lemma lone_flat fx p f e :
  item_ok fx p e ->
  lone_ok fx p [e] = true ->
  flat_item (ctx_a fx) (ctx_t fx)
            (set_tattr (if pen_is_default p then e else set_attr fx e (nd_attr p)) (nd_tattr f))
  = flat_item (gctx_a fx p) (gctx_t fx f) e.
Proof.
  intros Hok G. unfold gctx_a. simpl in G. apply andb_true_iff in G as [G1 G2].
  destruct Hok as [g Hg | c | x y s | c l].
  - (* plain shape *)
    destruct (pen_is_default p) eqn:D.
    + rewrite (nd_attr_default p D). simpl. rewrite Hg. simpl. rewrite Hg, !over_a_a0. reflexivity.
    + do 3 (simpl; rewrite ?Hg); destruct (fx_lone fx); do 3 (simpl; rewrite ?Hg); rewrite ?over_a_a0; reflexivity.
  - (* clear *)
    destruct (pen_is_default p) eqn:D.
    + rewrite (nd_attr_default p D). simpl. rewrite !over_a_a0. reflexivity.
    + simpl. destruct (fx_lone fx); simpl.
      * rewrite over_a_assoc. reflexivity.
      * simpl in G1. rewrite clear_color_nonempty in G1. discriminate.
  - (* text *)
    unfold gctx_t.
    destruct (pen_is_default p) eqn:D.
    + rewrite (nd_attr_default p D). simpl. rewrite !over_a_a0, over_t_t0. reflexivity.
    + simpl. unfold text_attr in *. destruct (fx_text fx); simpl.
      * rewrite over_a_assoc, over_t_t0. reflexivity.
      * rewrite over_t_t0. simpl in G2. apply negb_true_iff in G2.
        pose proof (text_lone_fill (p_fill p) (p_stroke p) default_Fill G2) as TL.
        f_equal. f_equal. f_equal.
        rewrite ctx_a_default. unfold nd_attr, over_a; simpl.
        change default_Stroke with default_Fill in *.
        destruct (str_eqb (nds default_Fill (p_fill p)) (nds default_Fill (p_stroke p))) eqn:EN;
          simpl; f_equal; exact TL.
  - (* gridn group *)
    destruct (pen_is_default p) eqn:D.
    + rewrite (nd_attr_default p D). simpl. rewrite !over_a_a0. reflexivity.
    + simpl. destruct (fx_lone fx); simpl.
      * rewrite over_a_assoc. reflexivity.
      * simpl in G1. destruct c; [|discriminate]. change (mkA [] [] None [] []) with a0.
        rewrite over_a_a0. reflexivity.
Qed.

(* ---------- what a state will show ---------- *)
Definition flat_pushed (fx : fixes) (st : state) : list fshape :=
  flat_map (flat_top (ctx_a fx) (ctx_t fx)) (pushed st).
Definition flat_pending (fx : fixes) (st : state) : list fshape :=
  flat_map (flat_item (gctx_a fx (kpen (k st))) (gctx_t fx (kfnt (k st)))) (pending st).
Definition total (fx : fixes) (st : state) : list fshape := flat_pushed fx st ++ flat_pending fx st.
Definition inv (fx : fixes) (st : state) : Prop := Forall (item_ok fx (kpen (k st))) (pending st).

Lemma push_flat fx st :
  inv fx st ->
  lone_ok fx (kpen (k st)) (pending st) = true ->
  flat_pushed fx (push fx st) = total fx st /\ pending (push fx st) = [] /\ k (push fx st) = k st.
Proof.
  unfold inv, total, flat_pushed, flat_pending, push. intros I G.
  destruct (pending st) as [|e [|e2 es]] eqn:P.
  - rewrite P. simpl. rewrite app_nil_r. auto.
  - simpl. split; [|auto]. rewrite flat_map_app. simpl. rewrite !app_nil_r. f_equal.
    inversion I; subst. apply lone_flat; assumption.
  - simpl pending. simpl k. simpl pushed. split; [|auto]. rewrite flat_map_app. f_equal. simpl flat_map at 1.
    rewrite app_nil_r. unfold flat_top, gctx_a, gctx_t.
    destruct (pen_is_default (kpen (k st))) eqn:D; [rewrite (nd_attr_default _ D)|]; reflexivity.
Qed.

Lemma render_flat fx st :
  inv fx st -> lone_ok fx (kpen (k st)) (pending st) = true ->
  flatten (render fx st) = total fx st.
Proof. intros I G. destruct (push_flat fx st I G) as [H _]. exact H. Qed.

(* one call *)
Lemma step_total fx fuel st c st' :
  step fx fuel st c = Some st' ->
  inv fx st ->
  (is_style c = true -> lone_ok fx (kpen (k st)) (pending st) = true) ->
  exists shapes, spec_shapes fx fuel (k st) c = Some shapes /\
                 total fx st' = total fx st ++ shapes /\
                 k st' = core_step fx (k st) c /\ inv fx st'.
Proof.
  unfold step. intros H I G.
  destruct (draw_item fx fuel (k st) c) as [[it|]|] eqn:D; [| |discriminate].
  - (* drawing call *)
    inversion H; subst; clear H. exists (flat_item (gctx_a fx (kpen (k st))) (gctx_t fx (kfnt (k st))) it).
    pose proof (draw_not_style _ _ _ _ _ D) as NS.
    destruct (draw_keeps_pen fx c (k st) NS) as [KP KF].
    split; [apply draw_flat; exact D|]. split; [|split; [reflexivity|]].
    + unfold total, flat_pushed, flat_pending. simpl. rewrite KP, KF, flat_map_app. simpl.
      rewrite app_nil_r, app_assoc. reflexivity.
    + unfold inv. simpl. rewrite KP. apply Forall_app. split; [exact I|].
      constructor; [|constructor]. eapply draw_item_ok; exact D.
  - (* pen / cursor call *)
    destruct (draw_none _ _ _ _ D) as [SS ND]. exists []. rewrite app_nil_r. split; [exact SS|].
    destruct (is_style c) eqn:S.
    + destruct (push_flat fx st I (G eq_refl)) as [PF [PP PK]].
      inversion H; subst; clear H. rewrite PP, PK. split; [|split; [reflexivity|]].
      * unfold total at 1, flat_pending; simpl. rewrite app_nil_r. exact PF.
      * unfold inv. simpl. constructor.
    + inversion H; subst; clear H. destruct (draw_keeps_pen fx c (k st) S) as [KP KF].
      split; [|split; [reflexivity|]].
      * unfold total, flat_pushed, flat_pending. simpl. rewrite KP, KF. reflexivity.
      * unfold inv. simpl. rewrite KP. exact I.
Qed.

(* all histories *)
Lemma run_total fx fuel l : forall st st',
  run fx fuel st l = Some st' ->
  inv fx st ->
  guard fx fuel st l = true ->
  exists out, spec_from fx fuel (k st) l = Some out /\ flatten (render fx st') = total fx st ++ out.
Proof.
  induction l as [|c t IH]; intros st st' R I G.
  - simpl in R. inversion R; subst. exists []. split; [reflexivity|]. rewrite app_nil_r.
    apply render_flat; [exact I | exact G].
  - simpl in R. destruct (step fx fuel st c) as [st1|] eqn:S; [|discriminate].
    simpl in G. rewrite S in G. apply andb_true_iff in G as [G1 G2].
    assert (G1' : is_style c = true -> lone_ok fx (kpen (k st)) (pending st) = true).
    { intro SC. rewrite SC in G1. exact G1. }
    destruct (step_total fx fuel st c st1 S I G1') as [shapes [SS [T [K I1]]]].
    destruct (IH st1 st' R I1 G2) as [out [SF FL]].
    exists (shapes ++ out). simpl. rewrite SS, <- K, SF. split; [reflexivity|].
    rewrite FL, T, app_assoc. reflexivity.
Qed.

(* the model hangs exactly when the specification has no value: a gridn whose loop does not end *)
Lemma run_hangs_iff fx fuel l : forall st,
  run fx fuel st l = None <-> spec_from fx fuel (k st) l = None.
Proof.
  induction l as [|c t IH]; intro st; simpl; [split; discriminate|].
  unfold step at 1.
  destruct (draw_item fx fuel (k st) c) as [[it|]|] eqn:D.
  - rewrite (draw_flat _ _ _ _ _ D). rewrite IH. simpl.
    destruct (spec_from fx fuel (core_step fx (k st) c) t); split; intro; try discriminate; reflexivity.
  - destruct (draw_none _ _ _ _ D) as [SS _]. rewrite SS, IH. simpl.
    assert (K : k (if is_style c then push fx st else st) = k st).
    { destruct (is_style c); [|reflexivity]. unfold push. destruct (pending st) as [|? [|? ?]]; reflexivity. }
    rewrite K.
    destruct (spec_from fx fuel (core_step fx (k st) c) t); split; intro; try discriminate; reflexivity.
  - apply draw_hang in D. rewrite D. split; reflexivity.
Qed.

(* ---------- the theorems ---------- *)
Lemma inv_pre_init fx : inv fx pre_init.
Proof. constructor. Qed.

(* for every variant of the code: under that variant's guard, the document shows
   that variant's specification *)
Theorem shows_what_was_drawn fx fuel l st :
  run fx fuel pre_init l = Some st ->
  guard fx fuel pre_init l = true ->
  spec fx fuel l = Some (flatten (render fx st)).
Proof.
  intros R G. destruct (run_total fx fuel l pre_init st R (inv_pre_init fx) G) as [out [S F]].
  unfold spec. rewrite S, F. reflexivity.
Qed.

(* with both fx_lone and fx_text the guard is trivially true *)
Lemma guard_trivial fx fuel l : fx_lone fx = true -> fx_text fx = true -> forall st, guard fx fuel st l = true.
Proof.
  intros L T. assert (LO : forall p pend, lone_ok fx p pend = true).
  { intros p [|e [|? ?]]; simpl; try reflexivity. rewrite L, T. reflexivity. }
  induction l as [|c t IH]; intro st; simpl; [apply LO|].
  rewrite LO. destruct (is_style c); simpl; destruct (step fx fuel st c); auto.
Qed.

Theorem shows_what_was_drawn_fixed fuel l st :
  run all fuel pre_init l = Some st ->
  spec all fuel l = Some (flatten (render all st)).
Proof. intro R. apply shows_what_was_drawn; [exact R | apply guard_trivial; reflexivity]. Qed.

Theorem hangs_iff_spec_undefined fx fuel l :
  run fx fuel pre_init l = None <-> spec fx fuel l = None.
Proof. apply run_hangs_iff. Qed.

(* ---------- one shape per drawing call, in order ---------- *)
Definition is_gridn (c : cmd) : bool := match c with CGridn _ _ => true | _ => false end.

Lemma spec_one_shape fx fuel kk c :
  is_draw c = true -> is_gridn c = false -> exists sh, spec_shapes fx fuel kk c = Some [sh].
Proof. destruct c; simpl; intros H1 H2; try discriminate; eexists; reflexivity. Qed.

Lemma spec_no_shape fx fuel kk c : is_draw c = false -> spec_shapes fx fuel kk c = Some [].
Proof. destruct c; simpl; intro H; try discriminate; reflexivity. Qed.

Lemma spec_grid_shapes fx fuel kk u s :
  spec_shapes fx fuel kk (CGridn u s) = option_map (map (spec_grid_line (kpen kk) s)) (grid_lines fx fuel u).
Proof. simpl. destruct (grid_lines fx fuel u); reflexivity. Qed.

Lemma spec_count fx fuel l : forall kk out,
  forallb (fun c => negb (is_gridn c)) l = true ->
  spec_from fx fuel kk l = Some out ->
  List.length out = List.length (filter is_draw l).
Proof.
  induction l as [|c t IH]; intros kk out NG S; simpl in *.
  - inversion S. reflexivity.
  - apply andb_true_iff in NG as [NG1 NG2]. apply negb_true_iff in NG1.
    destruct (spec_shapes fx fuel kk c) as [a|] eqn:SS; [|discriminate].
    destruct (spec_from fx fuel (core_step fx kk c) t) as [b|] eqn:SF; [|discriminate].
    inversion S; subst. rewrite app_length, (IH _ _ NG2 SF).
    destruct (is_draw c) eqn:D.
    + destruct (spec_one_shape fx fuel kk c D NG1) as [sh E]. rewrite E in SS. inversion SS. reflexivity.
    + rewrite (spec_no_shape fx fuel kk c D) in SS. inversion SS. reflexivity.
Qed.

(* ---------- histories without the calls the remaining deviations are about ---------- *)
Definition no_dev (c : cmd) : bool :=
  match c with CEllipse _ _ _ _ _ | CText _ => false | _ => true end.
Definition agree (a b : core) : Prop := cx a = cx b /\ cy a = cy b /\ kpen a = kpen b.

Lemma spec_shapes_nodev fx1 fx2 fuel a b c :
  fx_gridn_bound fx1 = fx_gridn_bound fx2 ->
  no_dev c = true -> agree a b -> spec_shapes fx1 fuel a c = spec_shapes fx2 fuel b c.
Proof.
  intros GB N [X [Y P]]. destruct c; simpl in *; try discriminate; unfold grid_lines; rewrite ?X, ?Y, ?P, ?GB; reflexivity.
Qed.

Lemma core_step_agree fx1 fx2 a b c : agree a b -> agree (core_step fx1 a c) (core_step fx2 b c).
Proof.
  intros [X [Y P]]. unfold agree. destruct c; simpl; rewrite ?X, ?Y, ?P; auto.
Qed.

Lemma spec_from_nodev fx1 fx2 fuel l : fx_gridn_bound fx1 = fx_gridn_bound fx2 -> forall a b,
  forallb no_dev l = true -> agree a b -> spec_from fx1 fuel a l = spec_from fx2 fuel b l.
Proof.
  intro GB. induction l as [|c t IH]; intros a b N A; simpl in *; [reflexivity|].
  apply andb_true_iff in N as [N1 N2].
  rewrite (spec_shapes_nodev fx1 fx2 fuel a b c GB N1 A), (IH _ _ N2 (core_step_agree fx1 fx2 a b c A)). reflexivity.
Qed.

(* without a text call no text is ever pending, so with fx_lone the guard holds *)
Definition no_text_item (i : item) : bool := match i with IShape g _ _ => negb (is_text g) | IGrid _ _ _ => true end.

Lemma draw_no_text fx fuel kk c it :
  no_dev c = true -> draw_item fx fuel kk c = Some (Some it) -> no_text_item it = true.
Proof.
  destruct c; simpl; intros N H; try discriminate; try (inversion H; subst; reflexivity).
  destruct (grid_lines fx fuel unit); inversion H; subst. reflexivity.
Qed.

Lemma lone_ok_no_text fx p pend :
  fx_lone fx = true -> forallb no_text_item pend = true -> lone_ok fx p pend = true.
Proof.
  intros L N. destruct pend as [|e [|? ?]]; simpl; try reflexivity. rewrite L. simpl.
  simpl in N. apply andb_true_iff in N as [N _].
  destruct e as [g a t|a t l]; simpl in *; [|apply orb_true_r].
  apply negb_true_iff in N. rewrite N. simpl. apply orb_true_r.
Qed.

Lemma guard_no_text fx fuel l : fx_lone fx = true -> forall st,
  forallb no_dev l = true -> forallb no_text_item (pending st) = true -> guard fx fuel st l = true.
Proof.
  intros L. induction l as [|c t IH]; intros st N P; simpl.
  - apply lone_ok_no_text; assumption.
  - simpl in N. apply andb_true_iff in N as [N1 N2].
    rewrite (lone_ok_no_text fx _ _ L P).
    assert (E : (if is_style c then true else true) = true) by (destruct (is_style c); reflexivity).
    rewrite E. simpl.
    destruct (step fx fuel st c) as [st1|] eqn:S; [|reflexivity].
    apply IH; [exact N2|]. unfold step in S.
    destruct (draw_item fx fuel (k st) c) as [[it|]|] eqn:D; [| |discriminate]; inversion S; subst; simpl.
    + rewrite forallb_app, P. simpl. rewrite (draw_no_text _ _ _ _ _ N1 D). reflexivity.
    + destruct (is_style c); [|exact P]. unfold push.
      destruct (pending st) as [|? [|? ?]] eqn:PE; simpl; rewrite ?PE; reflexivity.
Qed.

(* the intended meaning, with the grid positions computed by the given loop
   variant (the two loops draw the same grid up to floating-point rounding; which
   one runs is a matter of termination, not of what is shown) *)
Definition intended (loop_bounded : bool) : fixes := mkFx true true true loop_bounded true true true.

(* the code in force against the INTENDED meaning: no ellipse / text call *)
Theorem shows_what_was_drawn_guarded fx fuel l st :
  fx_lone fx = true ->
  run fx fuel pre_init (program l) = Some st ->
  forallb no_dev l = true ->
  spec (intended (fx_gridn_bound fx)) fuel (program l) = Some (flatten (render fx st)).
Proof.
  intros L R N.
  assert (N' : forallb no_dev (program l) = true) by exact N.
  rewrite <- (shows_what_was_drawn fx fuel (program l) st R (guard_no_text fx fuel (program l) L pre_init N' eq_refl)).
  unfold spec. symmetry. apply spec_from_nodev; [reflexivity | exact N' | repeat split].
Qed.

(* ---------- argument validation in gridnFunc ---------- *)
Lemma effective_accepted fx l : forallb (wrapper_accepts fx) (effective fx l) = true.
Proof.
  induction l as [|c t IH]; simpl; [reflexivity|].
  destruct (wrapper_accepts fx c) eqn:E; simpl; [rewrite E, IH|]; reflexivity.
Qed.

Lemma effective_all_accepted fx l : rejected fx l = false -> effective fx l = l.
Proof.
  unfold rejected. induction l as [|c t IH]; simpl; [reflexivity|].
  destruct (wrapper_accepts fx c); simpl; [intro H; rewrite (IH H); reflexivity | discriminate].
Qed.

(* with the check in force, a unit <= 0 never reaches the loop *)
Lemma gridn_nonpositive_rejected fx u c :
  fx_gridn fx = true -> fx_gridn_bound fx = false ->
  PrimFloat.leb u 0%float = true -> wrapper_accepts fx (CGridn u c) = false.
Proof. intros G B L. simpl. rewrite G, B, L. reflexivity. Qed.

Lemma effective_units_positive fx l u c :
  fx_gridn fx = true -> fx_gridn_bound fx = false ->
  In (CGridn u c) (effective fx l) -> PrimFloat.leb u 0%float = false.
Proof.
  intros G B I. pose proof (effective_accepted fx l) as A. rewrite forallb_forall in A.
  specialize (A _ I). simpl in A. rewrite G, B in A. apply negb_true_iff in A. exact A.
Qed.

(* ---------- gridn's loop ---------- *)
Definition old_loop (fuel : nat) (u : float) : option (list (geom * bool)) := grid_loop fuel 0%float (tx u) 0%Z.

Lemma grid_lines_old fx fuel u : fx_gridn_bound fx = false -> grid_lines fx fuel u = old_loop fuel u.
Proof. intro H. unfold grid_lines. rewrite H. reflexivity. Qed.

(* --- with the bound (FIX gridn-tiny-unit-does-not-terminate): the loop always
   ends, whatever the unit, and draws at most 2 * (maxGridRounds + 1) lines --- *)
Lemma grid_rounds_length left : forall n u, (List.length (grid_rounds left n u) <= 2 * left)%nat.
Proof.
  induction left as [|k IH]; intros n u; simpl; [lia|].
  destruct (PrimFloat.leb (fmul (float_of_Z n) u) grid_bound); simpl; [|lia].
  specialize (IH (Z.succ n) u). lia.
Qed.

Theorem gridn_terminates_bounded fx fuel u :
  fx_gridn_bound fx = true ->
  exists l, grid_lines fx fuel u = Some l /\ (List.length l <= 2 * Z.to_nat (grid_max_rounds + 1))%nat.
Proof.
  intro H. exists (grid_count (tx u)). unfold grid_lines. rewrite H. split; [reflexivity|].
  apply grid_rounds_length.
Qed.

(* so with the bound no history hangs: a document is always written *)
Lemma step_some fx fuel st c : fx_gridn_bound fx = true -> exists st', step fx fuel st c = Some st'.
Proof.
  intro H. unfold step.
  destruct (draw_item fx fuel (k st) c) as [[it|]|] eqn:D; try (eexists; reflexivity).
  destruct c; simpl in D; try discriminate. unfold grid_lines in D. rewrite H in D. discriminate.
Qed.

Theorem never_hangs fx fuel l : fx_gridn_bound fx = true -> forall st, exists st', run fx fuel st l = Some st'.
Proof.
  intro H. induction l as [|c t IH]; intro st; simpl; [eexists; reflexivity|].
  destruct (step_some fx fuel st c H) as [st1 S]. rewrite S. apply IH.
Qed.

(* every gridn call that reaches the platform has a unit >= minGridUnit (in particular not NaN) *)
Lemma effective_units_at_least_min fx l u c :
  fx_gridn_bound fx = true -> In (CGridn u c) (effective fx l) -> PrimFloat.leb grid_min_unit u = true.
Proof.
  intros G I. pose proof (effective_accepted fx l) as A. rewrite forallb_forall in A.
  specialize (A _ I). simpl in A. rewrite G in A. exact A.
Qed.

(* --- the accumulating loop (code in force until the bound lands) --- *)
(* Termination, stated over the abstract condition: some natural-number
   measure of the loop variable strictly decreases at every round that is
   entered.  (Over binary64 "unit > 0" is NOT sufficient: i + unit = i once
   unit < ulp(i)/2, see [gridn_stalls].) *)
Lemma grid_loop_terminates u (m : float -> nat) :
  (forall i, PrimFloat.leb i grid_bound = true -> (m (fadd i u) < m i)%nat) ->
  forall n i cnt, (m i <= n)%nat -> exists l, grid_loop (S n) i u cnt = Some l.
Proof.
  intros Hm. induction n as [|n IH]; intros i cnt Hi.
  - simpl. destruct (PrimFloat.leb i grid_bound) eqn:E; [|eexists; reflexivity].
    specialize (Hm i E). lia.
  - change (grid_loop (S (S n)) i u cnt) with
      (if PrimFloat.leb i grid_bound then
         match grid_loop (S n) (fadd i u) u (Z.succ cnt) with
         | Some r => Some (grid_pair i (Z.eqb (Z.modulo cnt grid_every) 0) r)
         | None => None
         end
       else Some []).
    destruct (PrimFloat.leb i grid_bound) eqn:E; [|eexists; reflexivity].
    specialize (Hm i E). destruct (IH (fadd i u) (Z.succ cnt)) as [r Hr]; [lia|].
    rewrite Hr. eexists; reflexivity.
Qed.

Theorem gridn_terminates_if_measure unit (m : float -> nat) :
  (forall i, PrimFloat.leb i grid_bound = true -> (m (fadd i (tx unit)) < m i)%nat) ->
  exists fuel l, old_loop fuel unit = Some l.
Proof.
  intro Hm. destruct (grid_loop_terminates (tx unit) m Hm (m 0%float) 0%float 0%Z (le_n _)) as [l Hl].
  exists (S (m 0%float)), l. exact Hl.
Qed.

(* the loop variable does not move: the loop never ends *)
Lemma grid_loop_stuck u i :
  PrimFloat.leb i grid_bound = true -> fadd i u = i -> forall fuel cnt, grid_loop fuel i u cnt = None.
Proof.
  intros B S. induction fuel as [|f IH]; intro cnt; simpl; [reflexivity|].
  rewrite B, S, IH. reflexivity.
Qed.

Lemma gridn_zero_never_ends : forall fuel, old_loop fuel 0%float = None.
Proof. intro fuel. apply grid_loop_stuck; vm_compute; reflexivity. Qed.

Lemma gridn_neg_infinity_never_ends : forall fuel, old_loop fuel neg_infinity = None.
Proof.
  intros [|f]; [reflexivity|]. unfold old_loop. simpl.
  replace (PrimFloat.leb 0 grid_bound) with true by (vm_compute; reflexivity).
  replace (fadd 0 (tx neg_infinity)) with neg_infinity by (vm_compute; reflexivity).
  rewrite grid_loop_stuck; [reflexivity | vm_compute; reflexivity | vm_compute; reflexivity].
Qed.

(* the stall: with unit 1e-17 (scaled: 1e-16 < ulp(1)/2) the loop variable no
   longer moves once it has reached 1, and 1 <= 1000: from there the
   accumulating loop never ends, whatever the fuel *)
Lemma gridn_stalls :
  fadd 1%float (tx 1e-17%float) = 1%float /\
  forall fuel cnt, grid_loop fuel 1%float (tx 1e-17%float) cnt = None.
Proof.
  assert (E : fadd 1%float (tx 1e-17%float) = 1%float) by (vm_compute; reflexivity).
  split; [exact E|]. apply grid_loop_stuck; [vm_compute; reflexivity | exact E].
Qed.

(* non-vacuity of the measure hypothesis: unit = NaN (0/0): the loop body runs once *)
Lemma nan_measure :
  forall i, PrimFloat.leb i grid_bound = true ->
            ((fun x => if PrimFloat.leb x grid_bound then 1 else 0) (fadd i (tx nan)) <
             (fun x => if PrimFloat.leb x grid_bound then 1 else 0) i)%nat.
Proof.
  intros i E. cbv beta. rewrite E.
  assert (N : Prim2SF (fadd i (tx nan)) = SpecFloat.S754_nan).
  { unfold fadd. rewrite add_spec.
    replace (Prim2SF (tx nan)) with SpecFloat.S754_nan by (vm_compute; reflexivity).
    unfold SF64add, SpecFloat.SFadd. destruct (Prim2SF i); reflexivity. }
  rewrite leb_spec, N. simpl. lia.
Qed.

(* a second instance of the measure hypothesis: unit = +infinity *)
Lemma infinity_measure :
  forall i, PrimFloat.leb i grid_bound = true ->
            ((fun x => if PrimFloat.leb x grid_bound then 1 else 0) (fadd i (tx infinity)) <
             (fun x => if PrimFloat.leb x grid_bound then 1 else 0) i)%nat.
Proof.
  intros i E. cbv beta. rewrite E.
  assert (N : PrimFloat.leb (fadd i (tx infinity)) grid_bound = false).
  { rewrite leb_spec. unfold fadd. rewrite add_spec.
    replace (Prim2SF (tx infinity)) with (SpecFloat.S754_infinity false) by (vm_compute; reflexivity).
    replace (Prim2SF grid_bound) with (SpecFloat.S754_finite false 8796093022208000 (-43)) by (vm_compute; reflexivity).
    unfold SF64add, SpecFloat.SFadd. destruct (Prim2SF i) as [s|s| |s m e]; try reflexivity.
    destruct s; reflexivity. }
  rewrite N. lia.
Qed.
