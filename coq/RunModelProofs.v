From Coq Require Import List ZArith.
From EvyV Require Import RunModel.
Import ListNotations.

Section Proofs.
  Variables Src Prog PErr Eff : Type.
  Variable parse : Src -> Prog + list PErr.

  (* a rejected source: no Platform call from the library entry point, the
     parse errors are what Run returns *)
  Lemma rejected_runs_nothing_lib : forall (eval : Prog -> list Eff * eval_err) s errs,
    parse s = inr errs ->
    evaluator_run parse eval s = ([], RParse errs).
  Proof. intros eval s errs H. unfold evaluator_run. rewrite H. reflexivity. Qed.

  (* ... and the evaluator is never consulted: the result is the same for any two evaluators *)
  Lemma rejected_never_evaluates : forall (eval1 eval2 : Prog -> list Eff * eval_err) s errs,
    parse s = inr errs ->
    evaluator_run parse eval1 s = evaluator_run parse eval2 s.
  Proof. intros. rewrite !(rejected_runs_nothing_lib _ s errs) by assumption. reflexivity. Qed.

  (* `evy run`: nothing reaches the platform (so nothing on stdout, no drawing,
     no input request, no sleep), a message goes to stderr, the status is 1 *)
  Lemma rejected_runs_nothing_cli : forall (eval : Prog -> list Eff * eval_err) s errs,
    parse s = inr errs ->
    let o := cli_run parse eval s in
    platform_calls o = [] /\ stderr_message o = true /\ exit_status o = 1%Z.
  Proof.
    intros eval s errs H. unfold cli_run. rewrite (rejected_runs_nothing_lib eval s errs H). simpl. auto.
  Qed.

  (* conversely an accepted source is handed to the evaluator unchanged *)
  Lemma accepted_is_evaluated : forall (eval : Prog -> list Eff * eval_err) s p,
    parse s = inl p ->
    fst (evaluator_run parse eval s) = fst (eval p).
  Proof. intros eval s p H. unfold evaluator_run. rewrite H. destruct (eval p). reflexivity. Qed.
End Proofs.
