(* FormatParseProofs.v — C06, "the result is accepted again and has the same syntax tree",
   expression level, on the models: the tokens the formatter writes for an expression are the
   rendering of a derivation of the layered grammar of PrattProofs.v whose tree is the
   expression's own tree; PrattProofs.pratt_layered_fixed then says the Pratt parser
   (expression.go) returns exactly that tree. *)
From Coq Require Import List String NArith ZArith Bool Arith Lia.
From EvyV Require Import Base FmtAst Format Pratt PrattProofs FormatParse.
From EvyV.Gen Require Import Prec.
Import ListNotations.
Local Open Scope nat_scope.

(* ---------- the derivation (with its layout) that the formatter writes ---------- *)
Definition fop_binop (o : fop) : option binop :=
  match o with
  | OpOr => Some BOr | OpAnd => Some BAnd | OpEq => Some BEq | OpNotEq => Some BNe
  | OpLt => Some BLt | OpLtEq => Some BLe | OpGt => Some BGt | OpGtEq => Some BGe
  | OpPlus => Some BAdd | OpMinus => Some BSub | OpAsterisk => Some BMul | OpSlash => Some BDiv | OpPercent => Some BMod
  | _ => None
  end.
Definition fop_unop (o : fop) : option unop :=
  match o with OpMinus => Some UNeg | OpBang => Some UNot | _ => None end.

Definition dflt (tr : bool) : lexp := LAtom (ABool true) tr.

(* [tr]: is the last token of the expression followed by a blank *)
Fixpoint to_lexp (tr : bool) (e : fexpr) : lexp :=
  match e with
  | FVar n => LAtom (AVar n) tr
  | FNum _ t => LAtom (ANum t) tr
  | FStr _ q => LAtom (AStr q) tr
  | FBool b => LAtom (ABool b) tr
  | FAny e => to_lexp tr e
  | FGroup e => LGroup false (to_lexp false e) tr
  | FUn op r => match fop_unop op with Some o => LUn o (to_lexp tr r) | None => dflt tr end
  | FBin op w l r =>
      match fop_binop op with
      | Some o => LBin o (to_lexp (negb w) l) (negb w) (to_lexp tr r)
      | None => dflt tr
      end
  | FIdx l i => LIndex (to_lexp false l) false (to_lexp false i) tr
  | FSlice l s e =>
      LSlice (to_lexp false l) false (option_map (to_lexp false) s) false (option_map (to_lexp false) e) tr
  | FDot l k => LDot (to_lexp false l) k tr
  | FAssert l t => match fty_ty t with Some ty => LAssert (to_lexp false l) false ty false tr | None => dflt tr end
  | FArr _ _ | FMap _ _ _ | FCall _ _ => dflt tr
  end.

(* ---------- token facts ---------- *)
Lemma toks_app a b : toks_of_pieces (a ++ b) = toks_of_pieces a ++ toks_of_pieces b.
Proof. apply flat_map_app. Qed.

Lemma ident_text_spec s : ident_text s = true -> tok_of_text s = ident_tok s.
Proof.
  unfold ident_text, ident_tok. destruct (tok_of_text s) as [t l]. destruct t; try discriminate.
  intro H. apply str_eqb_eq in H. subst. reflexivity.
Qed.

Lemma num_text_spec s : num_text s = true -> tok_of_text s = {| ttype := T_NUM_LIT; tlit := s |} /\ num_lit_ok s = true.
Proof.
  unfold num_text. destruct (tok_of_text s) as [t l]. destruct t; try discriminate.
  intro H. apply andb_true_iff in H as [H1 H2]. apply str_eqb_eq in H1. subst. auto.
Qed.

Lemma binop_tok_text op o : fop_binop op = Some o -> tok_of_text (op_str op) = mk (binop_tok o).
Proof. destruct op; simpl; intro H; inversion H; subst; reflexivity. Qed.

Lemma unop_tok_text op o : fop_unop op = Some o -> tok_of_text (op_str op) = mk (unop_tok o).
Proof. destruct op; simpl; intro H; inversion H; subst; reflexivity. Qed.

Lemma binop_tok_type op o : fop_binop op = Some o -> op_toktype op = binop_tok o.
Proof. destruct op; simpl; intro H; inversion H; subst; reflexivity. Qed.

Lemma unop_tok_type op o : fop_unop op = Some o -> op_toktype op = unop_tok o.
Proof. destruct op; simpl; intro H; inversion H; subst; reflexivity. Qed.

Lemma binop_rank_spec op k : binop_rank op = Some k -> exists o, fop_binop op = Some o /\ rank o = k.
Proof. destruct op; simpl; intro H; inversion H; subst; eexists; split; reflexivity. Qed.

Lemma is_unop_spec op : is_unop op = true -> exists o, fop_unop op = Some o.
Proof. destruct op; simpl; try discriminate; intros _; eexists; reflexivity. Qed.

Lemma toks_write_wss w : toks_of_pieces (write_wss w) = wsl (negb w).
Proof. destruct w; reflexivity. Qed.

Fixpoint toks_fmt_type (t : fty) : forall ty, fty_ty t = Some ty -> toks_of_pieces (fmt_type t) = render_ty ty.
Proof.
  destruct t as [n sub]. intros ty H. cbn [fmt_type]. rewrite toks_app.
  destruct n, sub as [s|]; cbn [fty_ty] in H; try discriminate; try (inversion H; subst; reflexivity).
  - destruct (fty_ty s) as [x|] eqn:E; [|discriminate]. inversion H; subst.
    rewrite (toks_fmt_type s x E). reflexivity.
  - destruct (fty_ty s) as [x|] eqn:E; [|discriminate]. inversion H; subst.
    rewrite (toks_fmt_type s x E). reflexivity.
Qed.

Ltac kw :=
  try change (tok_of_text k_lbr) with (mk T_LBRACKET); try change (tok_of_text k_rbr) with (mk T_RBRACKET);
  try change (tok_of_text k_lpa) with (mk T_LPAREN); try change (tok_of_text k_rpa) with (mk T_RPAREN);
  try change (tok_of_text k_colon) with (mk T_COLON); try change (tok_of_text k_dot) with (mk T_DOT).
Ltac fin := kw; repeat (rewrite <- ?app_assoc; cbn [app]); reflexivity.

Ltac split_and :=
  repeat match goal with H : _ && _ = true |- _ => apply andb_true_iff in H; destruct H end.

(* ---------- 1. the formatter writes the rendering of the derivation ---------- *)
Section RT.
  Variable fx : fixes.

  Lemma render_to_lexp e : forall tr lvl, frag e = true -> prec_ok e = true -> lex_ok e = true ->
    render (to_lexp tr e) = toks_of_pieces (fmt_expr fx lvl e) ++ wsl tr.
  Proof.
    induction e as [n|b t|v q|b|e IH|items els IH|items keys vals IH|n args IH|op r IH|op w l r IHl IHr|l i IHl IHi|l s e IHl IHs IHe|l k IHl|l t IHl|e IH] using fexpr_ind';
      intros tr lvl Hf Hp Hl; cbn [frag prec_ok lex_ok] in Hf, Hp, Hl; try discriminate Hf; cbn [to_lexp fmt_expr].
    - cbn [render atom_tok toks_of_pieces flat_map tok_of_piece app]. rewrite (ident_text_spec n Hl). reflexivity.
    - destruct (num_text_spec t Hl) as [Ht _]. cbn [render atom_tok toks_of_pieces flat_map tok_of_piece app]. rewrite Ht. reflexivity.
    - reflexivity.
    - destruct b; reflexivity.
    - auto.
    - (* unary *)
      split_and. destruct (is_unop_spec op) as [o Ho]; [assumption|]. rewrite Ho.
      cbn [render]. change (T (op_str op) :: fmt_expr fx lvl r) with ([T (op_str op)] ++ fmt_expr fx lvl r).
      rewrite toks_app. cbn [toks_of_pieces flat_map tok_of_piece app]. rewrite (unop_tok_text op o Ho).
      rewrite (IH tr lvl) by assumption. reflexivity.
    - (* binary *)
      destruct (binop_rank op) as [k|] eqn:Ek; [|discriminate]. split_and.
      destruct (binop_rank_spec op k Ek) as (o & Ho & _). rewrite Ho. cbn [render].
      rewrite !toks_app, !toks_write_wss. cbn [toks_of_pieces flat_map tok_of_piece app].
      rewrite (binop_tok_text op o Ho), (IHl (negb w) lvl), (IHr tr lvl) by assumption.
      repeat (rewrite <- !app_assoc; cbn [app]). reflexivity.
    - (* index *)
      split_and. cbn [render]. rewrite !toks_app. cbn [toks_of_pieces flat_map tok_of_piece app wsl].
      rewrite (IHl false lvl), (IHi false lvl) by assumption. cbn [wsl]. rewrite !app_nil_r. fin.
    - (* slice *)
      split_and. cbn [render]. rewrite !toks_app. cbn [toks_of_pieces flat_map tok_of_piece app wsl].
      rewrite (IHl false lvl) by assumption. cbn [wsl]. rewrite !app_nil_r.
      assert (Hs : match option_map (to_lexp false) s with Some x => render x | None => [] end
                   = toks_of_pieces (match s with Some x => fmt_expr fx lvl x | None => [] end)).
      { destruct s as [x|]; [|reflexivity]. cbn [option_map]. rewrite (IHs x eq_refl false lvl) by assumption. apply app_nil_r. }
      assert (He : match option_map (to_lexp false) e with Some x => render x | None => [] end
                   = toks_of_pieces (match e with Some x => fmt_expr fx lvl x | None => [] end)).
      { destruct e as [x|]; [|reflexivity]. cbn [option_map]. rewrite (IHe x eq_refl false lvl) by assumption. apply app_nil_r. }
      rewrite Hs, He. fin.
    - (* dot *)
      split_and. cbn [render]. rewrite !toks_app. cbn [toks_of_pieces flat_map tok_of_piece app].
      rewrite (IHl false lvl) by assumption. cbn [wsl]. rewrite app_nil_r.
      match goal with H : ident_text k = true |- _ => rewrite (ident_text_spec k H) end. fin.
    - (* type assertion *)
      split_and. destruct (fty_ty t) as [ty|] eqn:Et; [|discriminate]. cbn [render].
      rewrite !toks_app. rewrite (toks_fmt_type t ty Et). cbn [toks_of_pieces flat_map tok_of_piece app wsl].
      rewrite (IHl false lvl) by assumption. cbn [wsl]. rewrite !app_nil_r. fin.
    - (* group *)
      cbn [render]. rewrite !toks_app. cbn [toks_of_pieces flat_map tok_of_piece app wsl].
      rewrite (IH false lvl) by assumption. cbn [wsl]. rewrite !app_nil_r. fin.
  Qed.
End RT.

(* ---------- 2. the derivation is one of the layered grammar ---------- *)
Lemma toprank_to_lexp e : forall tr, frag e = true -> prec_ok e = true -> lex_ok e = true ->
  toprank (to_lexp tr e) = rank_of e.
Proof.
  induction e as [n|b t|v q|b|e IH|items els IH|items keys vals IH|n args IH|op r IH|op w l r IHl IHr|l i IHl IHi|l s e IHl IHs IHe|l k IHl|l t IHl|e IH] using fexpr_ind';
    intros tr Hf Hp Hl; cbn [frag prec_ok lex_ok] in Hf, Hp, Hl; try discriminate Hf; cbn [to_lexp rank_of]; try reflexivity.
  - auto.
  - split_and. destruct (is_unop_spec op) as [o Ho]; [assumption|]. rewrite Ho. reflexivity.
  - destruct (binop_rank op) as [k|] eqn:Ek; [|discriminate].
    destruct (binop_rank_spec op k Ek) as (o & Ho & Hr). rewrite Ho. exact Hr.
  - split_and. destruct (fty_ty t) as [ty|]; [reflexivity | discriminate].
Qed.

Lemma lay_to_lexp e : forall tr, frag e = true -> prec_ok e = true -> lex_ok e = true ->
  Lay (rank_of e) (to_lexp tr e).
Proof.
  induction e as [n|b t|v q|b|e IH|items els IH|items keys vals IH|n args IH|op r IH|op w l r IHl IHr|l i IHl IHi|l s e IHl IHs IHe|l k IHl|l t IHl|e IH] using fexpr_ind';
    intros tr Hf Hp Hl; cbn [frag prec_ok lex_ok] in Hf, Hp, Hl; try discriminate Hf; cbn [to_lexp rank_of].
  - apply Lay_atom.
  - apply Lay_atom.
  - apply Lay_atom.
  - apply Lay_atom.
  - auto.
  - split_and. destruct (is_unop_spec op) as [o Ho]; [assumption|]. rewrite Ho.
    apply Lay_un. eapply Lay_le; [|apply IH; assumption].
    match goal with H : (7 <=? rank_of r) = true |- _ => apply Nat.leb_le in H; exact H end.
  - destruct (binop_rank op) as [k|] eqn:Ek; [|discriminate]. split_and.
    destruct (binop_rank_spec op k Ek) as (o & Ho & Hr). rewrite Ho. subst k.
    apply Lay_bin.
    + eapply Lay_le; [|apply IHl; assumption].
      match goal with H : (rank o <=? rank_of l) = true |- _ => apply Nat.leb_le in H; exact H end.
    + eapply Lay_le; [|apply IHr; assumption].
      match goal with H : (rank o <? rank_of r) = true |- _ => apply Nat.ltb_lt in H; exact H end.
  - split_and. apply Lay_index.
    + eapply Lay_le; [|apply IHl; assumption].
      match goal with H : (8 <=? rank_of l) = true |- _ => apply Nat.leb_le in H; exact H end.
    + eapply Lay_le; [|apply IHi; assumption]. lia.
  - split_and. apply Lay_slice.
    + eapply Lay_le; [|apply IHl; assumption].
      match goal with H : (8 <=? rank_of l) = true |- _ => apply Nat.leb_le in H; exact H end.
    + intros x Hx. destruct s as [y|]; [|discriminate]. inversion Hx; subst.
      eapply Lay_le; [|apply (IHs y eq_refl); assumption]. lia.
    + intros x Hx. destruct e as [y|]; [|discriminate]. inversion Hx; subst.
      eapply Lay_le; [|apply (IHe y eq_refl); assumption]. lia.
  - split_and. apply Lay_dot. eapply Lay_le; [|apply IHl; assumption].
    match goal with H : (8 <=? rank_of l) = true |- _ => apply Nat.leb_le in H; exact H end.
  - split_and. destruct (fty_ty t) as [ty|]; [|discriminate]. apply Lay_assert.
    eapply Lay_le; [|apply IHl; assumption].
    match goal with H : (8 <=? rank_of l) = true |- _ => apply Nat.leb_le in H; exact H end.
  - apply Lay_group. eapply Lay_le; [|apply IH; assumption]. lia.
Qed.

(* ---------- 3. its layout is legal; in a tight context it is tight ---------- *)
Lemma last_ws_to_lexp e : forall tr, frag e = true -> prec_ok e = true -> lex_ok e = true ->
  last_ws (to_lexp tr e) = tr.
Proof.
  induction e as [n|b t|v q|b|e IH|items els IH|items keys vals IH|n args IH|op r IH|op w l r IHl IHr|l i IHl IHi|l s e IHl IHs IHe|l k IHl|l t IHl|e IH] using fexpr_ind';
    intros tr Hf Hp Hl; cbn [frag prec_ok lex_ok] in Hf, Hp, Hl; try discriminate Hf; cbn [to_lexp]; try reflexivity.
  - auto.
  - split_and. destruct (is_unop_spec op) as [o Ho]; [assumption|]. rewrite Ho. cbn [last_ws]. auto.
  - destruct (binop_rank op) as [k|] eqn:Ek; [|discriminate]. split_and.
    destruct (binop_rank_spec op k Ek) as (o & Ho & _). rewrite Ho. cbn [last_ws]. auto.
  - split_and. destruct (fty_ty t) as [ty|]; [reflexivity | discriminate].
Qed.

Lemma layout_to_lexp e : forall tr, frag e = true -> prec_ok e = true -> lex_ok e = true ->
  layout_ok (to_lexp tr e) = true.
Proof.
  induction e as [n|b t|v q|b|e IH|items els IH|items keys vals IH|n args IH|op r IH|op w l r IHl IHr|l i IHl IHi|l s e IHl IHs IHe|l k IHl|l t IHl|e IH] using fexpr_ind';
    intros tr Hf Hp Hl; cbn [frag prec_ok lex_ok] in Hf, Hp, Hl; try discriminate Hf; cbn [to_lexp]; try reflexivity.
  - auto.
  - split_and. destruct (is_unop_spec op) as [o Ho]; [assumption|]. rewrite Ho. cbn [layout_ok]. auto.
  - destruct (binop_rank op) as [k|] eqn:Ek; [|discriminate]. split_and.
    destruct (binop_rank_spec op k Ek) as (o & Ho & _). rewrite Ho. cbn [layout_ok].
    rewrite IHl, IHr by assumption. reflexivity.
  - split_and. cbn [layout_ok]. rewrite last_ws_to_lexp, IHl, IHi by assumption. reflexivity.
  - split_and. cbn [layout_ok]. rewrite last_ws_to_lexp, IHl by assumption. cbn [negb andb].
    destruct s as [x|], e as [y|]; cbn [option_map]; rewrite ?(IHs x eq_refl), ?(IHe y eq_refl) by assumption; reflexivity.
  - split_and. cbn [layout_ok]. rewrite last_ws_to_lexp, IHl by assumption. reflexivity.
  - split_and. destruct (fty_ty t) as [ty|]; [|discriminate]. cbn [layout_ok].
    rewrite last_ws_to_lexp, IHl by assumption. reflexivity.
  - cbn [layout_ok]. auto.
Qed.

Lemma tight_to_lexp e : frag e = true -> prec_ok e = true -> lex_ok e = true -> tight e = true ->
  tight_ok (to_lexp false e) = true.
Proof.
  induction e as [n|b t|v q|b|e IH|items els IH|items keys vals IH|n args IH|op r IH|op w l r IHl IHr|l i IHl IHi|l s e IHl IHs IHe|l k IHl|l t IHl|e IH] using fexpr_ind';
    intros Hf Hp Hl Ht; cbn [frag prec_ok lex_ok tight] in Hf, Hp, Hl, Ht; try discriminate Hf; cbn [to_lexp]; try reflexivity.
  - auto.
  - split_and. destruct (is_unop_spec op) as [o Ho]; [assumption|]. rewrite Ho. cbn [tight_ok]. auto.
  - destruct (binop_rank op) as [k|] eqn:Ek; [|discriminate]. split_and.
    destruct (binop_rank_spec op k Ek) as (o & Ho & _). rewrite Ho. subst w. cbn [tight_ok negb andb].
    rewrite IHl, IHr by assumption. reflexivity.
  - split_and. cbn [tight_ok negb andb]. auto.
  - split_and. cbn [tight_ok negb andb]. auto.
  - split_and. cbn [tight_ok negb andb]. auto.
  - split_and. destruct (fty_ty t) as [ty|]; [|discriminate]. cbn [tight_ok negb andb]. auto.
Qed.

(* ---------- 4. its tree is the expression's tree ---------- *)
Lemma tree_to_lexp e : forall tr, frag e = true -> prec_ok e = true -> lex_ok e = true ->
  tree_of (to_lexp tr e) = fexpr_tree e.
Proof.
  induction e as [n|b t|v q|b|e IH|items els IH|items keys vals IH|n args IH|op r IH|op w l r IHl IHr|l i IHl IHi|l s e IHl IHs IHe|l k IHl|l t IHl|e IH] using fexpr_ind';
    intros tr Hf Hp Hl; cbn [frag prec_ok lex_ok] in Hf, Hp, Hl; try discriminate Hf; cbn [to_lexp fexpr_tree]; try reflexivity.
  - auto.
  - split_and. destruct (is_unop_spec op) as [o Ho]; [assumption|]. rewrite Ho. cbn [tree_of].
    rewrite (unop_tok_type op o Ho), IH by assumption. reflexivity.
  - destruct (binop_rank op) as [k|] eqn:Ek; [|discriminate]. split_and.
    destruct (binop_rank_spec op k Ek) as (o & Ho & _). rewrite Ho. cbn [tree_of].
    rewrite (binop_tok_type op o Ho), IHl, IHr by assumption. reflexivity.
  - split_and. cbn [tree_of]. rewrite IHl, IHi by assumption. reflexivity.
  - split_and. cbn [tree_of]. rewrite IHl by assumption.
    destruct s as [x|], e as [y|]; cbn [option_map]; rewrite ?(IHs x eq_refl), ?(IHe y eq_refl) by assumption; reflexivity.
  - split_and. cbn [tree_of]. rewrite IHl by assumption. reflexivity.
  - split_and. destruct (fty_ty t) as [ty|]; [|discriminate]. cbn [tree_of]. rewrite IHl by assumption. reflexivity.
  - cbn [tree_of]. rewrite IH by assumption. reflexivity.
Qed.

(* ---------- 5. scoping: what the environment of the re-parse must provide ---------- *)
Fixpoint vars_of (e : fexpr) : list str :=
  match e with
  | FVar n => [n]
  | FNum _ _ | FStr _ _ | FBool _ => []
  | FAny e | FGroup e | FUn _ e | FDot e _ | FAssert e _ => vars_of e
  | FArr _ els => flat_map vars_of els
  | FMap _ _ vals => flat_map vars_of vals
  | FCall _ args => flat_map vars_of args
  | FBin _ _ l r | FIdx l r => vars_of l ++ vars_of r
  | FSlice l s e => vars_of l ++ match s with Some x => vars_of x | None => [] end ++ match e with Some x => vars_of x | None => [] end
  end.

(* a variable that the re-parse can read: in scope, not "_", not the name of a function *)
Definition var_in_scope (E : env) (n : str) : Prop :=
  str_eqb n (s_ "_"%string) = false /\ mem_str n (e_vars E) = true /\ func_of E n = None.

Lemma atoms_to_lexp E e : forall tr, frag e = true -> prec_ok e = true -> lex_ok e = true ->
  Forall (var_in_scope E) (vars_of e) -> atoms_ok E (to_lexp tr e).
Proof.
  induction e as [n|b t|v q|b|e IH|items els IH|items keys vals IH|n args IH|op r IH|op w l r IHl IHr|l i IHl IHi|l s e IHl IHs IHe|l k IHl|l t IHl|e IH] using fexpr_ind';
    intros tr Hf Hp Hl Hv; cbn [frag prec_ok lex_ok vars_of] in Hf, Hp, Hl, Hv; try discriminate Hf; cbn [to_lexp atoms_ok]; auto.
  - inversion Hv; subst. assumption.
  - apply (num_text_spec t Hl).
  - split_and. destruct (is_unop_spec op) as [o Ho]; [assumption|]. rewrite Ho. cbn [atoms_ok]. auto.
  - destruct (binop_rank op) as [k|] eqn:Ek; [|discriminate]. split_and.
    destruct (binop_rank_spec op k Ek) as (o & Ho & _). rewrite Ho. cbn [atoms_ok].
    apply Forall_app in Hv as [Hv1 Hv2]. split; auto.
  - split_and. apply Forall_app in Hv as [Hv1 Hv2]. split; auto.
  - split_and. apply Forall_app in Hv as [Hv1 Hv2]. apply Forall_app in Hv2 as [Hv2 Hv3].
    split; [auto|]. split.
    + destruct s as [x|]; cbn [option_map]; [apply (IHs x eq_refl); assumption | exact I].
    + destruct e as [y|]; cbn [option_map]; [apply (IHe y eq_refl); assumption | exact I].
  - split_and. auto.
  - split_and. destruct (fty_ty t) as [ty|] eqn:Et; [|discriminate]. cbn [atoms_ok]. split; [auto|].
    intro Hx. subst ty. match goal with H : false = true |- _ => discriminate H end.
Qed.

(* ---------- 6. the round trip ---------- *)
(* parseExpr on the tokens the formatter writes for e returns e's own tree (positions and
   parser.Any wrappers aside), consumes exactly those tokens and reports no error — in a
   whitespace-sensitive list (call arguments, array elements, map values) and outside. *)
Theorem format_parse_roundtrip E fx lvl e st rest0 fuel :
  frag e = true -> prec_ok e = true -> lex_ok e = true ->
  no_tyerr E -> e_fix_slice E = true -> Forall (var_in_scope E) (vars_of e) ->
  rest st = toks_of_pieces (fmt_expr fx lvl e) ++ rest0 ->
  (is_wss st = true -> tight e = true) ->
  (is_wss st = false -> is_ws (look0 rest0) = false) ->
  stop_tok (is_wss st) lowestPrec (look0 rest0) ->
  2 * List.length (toks_of_pieces (fmt_expr fx lvl e)) <= fuel ->
  exists st', parse_expr E fuel lowestPrec st = Some (Some (fexpr_tree e), st')
              /\ rest st' = rest0 /\ wss st' = wss st /\ errs st' = errs st.
Proof.
  intros Hf Hp Hl NT Hfix Hv Hr Ht Hws Hstop Hfuel.
  pose proof (render_to_lexp fx e false lvl Hf Hp Hl) as Hren. cbn [wsl] in Hren. rewrite app_nil_r in Hren.
  destruct (pratt_layered_fixed E (to_lexp false e) st rest0 fuel) as (P & Q & R & S); auto.
  - eapply Lay_le; [|apply lay_to_lexp; assumption]. lia.
  - apply atoms_to_lexp; assumption.
  - apply layout_to_lexp; assumption.
  - rewrite Hren. exact Hr.
  - intro Hw. apply tight_to_lexp; auto.
  - rewrite Hren. exact Hfuel.
  - exists (consume E (to_lexp false e) st). rewrite P, (tree_to_lexp e false Hf Hp Hl). auto.
Qed.

(* the same through parseTopLevelExpr (declarations, assignments, conditions, return values, ...) *)
Theorem format_parse_roundtrip_toplevel E fx lvl e st rest0 fuel :
  frag e = true -> prec_ok e = true -> lex_ok e = true ->
  no_tyerr E -> e_fix_slice E = true -> Forall (var_in_scope E) (vars_of e) ->
  rest st = toks_of_pieces (fmt_expr fx lvl e) ++ rest0 ->
  (is_wss st = true -> tight e = true) ->
  (is_wss st = false -> is_ws (look0 rest0) = false) ->
  stop_tok (is_wss st) lowestPrec (look0 rest0) ->
  2 * List.length (toks_of_pieces (fmt_expr fx lvl e)) <= fuel ->
  exists st', parse_toplevel E (parse_expr E fuel) fuel st = Some (Some (fexpr_tree e), st')
              /\ rest st' = rest0 /\ wss st' = wss st /\ errs st' = errs st.
Proof.
  intros Hf Hp Hl NT Hfix Hv Hr Ht Hws Hstop Hfuel.
  pose proof (render_to_lexp fx e false lvl Hf Hp Hl) as Hren. cbn [wsl] in Hren. rewrite app_nil_r in Hren.
  rewrite (toplevel_is_expr E _ _ st (to_lexp false e) rest0).
  - eapply format_parse_roundtrip; eauto.
  - apply atoms_to_lexp; assumption.
  - rewrite Hren. exact Hr.
Qed.

(* the formatter never needs to add parentheses: it writes the tree as it is, and a tree that is
   not parser-shaped does NOT survive — (a + b) * c without its group node reads back as a + b * c *)
Lemma unparenthesised_tree_does_not_roundtrip :
  let v := fun n : string => FVar (s_ n) in
  let e := FBin OpAsterisk false (FBin OpPlus false (v "a"%string) (v "b"%string)) (v "c"%string) in
  let E := {| e_funcs := []; e_vars := [s_ "a"%string; s_ "b"%string; s_ "c"%string]; e_arity := []; e_tyerr := fun _ _ _ => false; e_fix_slice := true |} in
  let toks := toks_of_pieces (fmt_expr no_fixes 0 e) ++ [mk T_NL] in
  prec_ok e = false /\
  exists t st', parse_expr E 40 lowestPrec (init_state toks) = Some (Some t, st') /\ t <> fexpr_tree e.
Proof. vm_compute. split; [reflexivity|]. eexists; eexists; split; [reflexivity | discriminate]. Qed.
