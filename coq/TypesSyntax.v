(* TypesSyntax.v — source-level syntax shared by the implementation model
   (Types.v) and the declarative specification (TypesSpec.v): type
   expressions as they can be written in an evy program (grammar of
   docs/spec.md: TYPE = "num"|"string"|"bool"|"any"| "[]" TYPE | "{}" TYPE),
   extended with the two "untyped empty composite" leaves that only the types
   of the literals [] and {} have, the operators, and a small expression
   language (the value forms C04 quantifies over).  No semantics here. *)
From Coq Require Import List Bool.
Import ListNotations.

Inductive sty : Set :=
| SNum | SString | SBool | SAny
| SArr (s : sty) | SMap (s : sty)
| SEmptyArr | SEmptyMap.          (* type of the literal [] / {} before it is given a type *)

(* a type that can be written in a program / held by a variable *)
Fixpoint closed (s : sty) : bool :=
  match s with
  | SEmptyArr | SEmptyMap => false
  | SArr s | SMap s => closed s
  | _ => true
  end.

Fixpoint sty_eqb (a b : sty) : bool :=
  match a, b with
  | SNum, SNum | SString, SString | SBool, SBool | SAny, SAny
  | SEmptyArr, SEmptyArr | SEmptyMap, SEmptyMap => true
  | SArr a, SArr b | SMap a, SMap b => sty_eqb a b
  | _, _ => false
  end.

Inductive binop : Set :=
| OpPlus | OpMinus | OpAsterisk | OpSlash | OpPercent
| OpEq | OpNotEq | OpLt | OpGt | OpLtEq | OpGtEq
| OpAnd | OpOr.

Inductive unop : Set := UMinus | UBang.

(* value forms *)
Inductive expr : Set :=
| ELitNum | ELitStr | ELitBool             (* 1  "a"  true *)
| EVar (t : sty)                           (* a variable declared  v:T  *)
| ECall (t : sty)                          (* call of a niladic function  func f:T *)
| EArr (els : list expr)                   (* [e1 e2 …] *)
| EMap (els : list expr)                   (* {k1:e1 k2:e2 …} *)
| EBin (op : binop) (l r : expr)
| EUn (op : unop) (e : expr)
| EGroup (e : expr)                        (* ( e ) *)
| EIndex (l i : expr)                      (* l[i] *)
| ESlice (l : expr) (s e : option expr)    (* l[s:e] *)
| EDot (l : expr)                          (* l.key *)
| EAssert (e : expr) (t : sty)             (* e.(T) *)
| ELoopVar (rng : expr).                   (* the loop variable x of  for x := range rng , used in the loop body *)

(* one step of an assignment target chain  v[i]  v.k  — and the forms that
   are never targets: a slice, a type assertion *)
Inductive tstep : Set :=
| TIdx (i : expr)                  (* …[i] *)
| TDot                             (* ….k *)
| TSlice (s : option expr)         (* …[s:]   (not a target) *)
| TAssert (t : sty).               (* ….(T)   (not a target) *)

(* statement contexts in which a value meets an expected type *)
Inductive ctx : Set :=
| CDecl                    (* x := e                       parseInferredDeclStatement *)
| CAssign (t : sty)        (* v:T ; v = e                  parseAssignmentStatement *)
| CParam (t : sty)         (* func f p:T ; f e             assertArgTypes *)
| CVariadic (t : sty)      (* func f p:T... ; f e          assertArgTypes, variadic branch *)
| CReturn (t : sty)        (* func f:T ; return e          parseReturnStatement *)
| CGenericArr              (* parameter of type GENERIC_ARRAY (builtin) *)
| CGenericMap              (* parameter of type GENERIC_MAP   (builtin has/del) *)
| CCond                    (* if e / while e               parseCondition *)
| CRange                   (* for x := range e             parseForStatement *)
| CAssignTo (root : sty) (steps : list tstep)   (* v:T ; v<steps> = e   parseAssignmentTarget + parseAssignmentStatement *)
| CAssignCall (t : sty)    (* func f:T ; f = e              (a function is not a target) *)
| CRangeMore (rest : list expr).   (* for x := range e r1 r2 …   parseForStatement + parseStepRange (e is the first operand) *)

