(* FormatSpecProofs.v — what the scanner [shape_lines] of Format.v means, line by line
   (the declarative reading of the shape predicate of C07). *)
From Coq Require Import ZArith NArith List Bool Lia Arith.
From EvyV Require Import Base FmtAst Format FormatProofs FormatNlProofs FormatShapeProofs.
Import ListNotations.
Open Scope N_scope.

(* the complete (newline-terminated) lines of a text; [cur] is the line being read *)
Fixpoint clines (cur : str) (s : str) : list str :=
  match s with
  | [] => []
  | c :: r => if c =? 10 then cur :: clines [] r else clines (cur ++ [c]) r
  end.

Definition lines_of (s : str) : list str := clines [] s.

(* a line: empty, or 4k spaces followed by a non-empty text with no white space at either end *)
Definition line_ok (l : str) : Prop :=
  l = [] \/ exists k b, l = spaces (4 * k) ++ b /\ b <> [] /\ is_space (hd 0 b) = false /\ is_space (last b 0) = false.

(* no two consecutive empty lines ([pe]: the line before the list was empty) *)
Fixpoint nde (pe : bool) (ls : list str) : Prop :=
  match ls with
  | [] => True
  | l :: t => ~ (pe = true /\ l = []) /\ nde (match l with [] => true | _ => false end) t
  end.

Definition good (st : shape_st) (cur : str) (pe : bool) : Prop :=
  if at_bol st then cur = spaces (col_spaces st) /\ (pe = true <-> (1 <= blanks st)%nat)
  else exists k b, cur = spaces (4 * k) ++ b /\ b <> [] /\ is_space (hd 0 b) = false
                   /\ last_blank st = is_space (last b 0).

Lemma spaces_snoc n : spaces n ++ [32] = spaces (S n).
Proof. unfold spaces. induction n; simpl; [reflexivity|]. rewrite IHn. reflexivity. Qed.

Lemma last_snoc (b : str) c d : last (b ++ [c]) d = c.
Proof. induction b as [|x b IH]; [reflexivity|]. simpl. destruct (b ++ [c]) eqn:E; [destruct b; discriminate|]. exact IH. Qed.

Lemma hd_snoc (b : str) c : b <> [] -> hd 0 (b ++ [c]) = hd 0 b.
Proof. destruct b; [contradiction | reflexivity]. Qed.

Lemma scan_spec s : forall st cur pe, good st cur pe -> shape_scan st s = true ->
  Forall line_ok (clines cur s) /\ nde pe (clines cur s).
Proof.
  induction s as [|c r IH]; intros st cur pe Hg Hs; [split; constructor|].
  cbn [shape_scan clines] in *. unfold good in Hg.
  destruct (c =? 10) eqn:E10.
  - destruct (at_bol st) eqn:Eb.
    + apply andb_true_iff in Hs as [Hs Hr]. apply andb_true_iff in Hs as [Hc Hb].
      apply Nat.eqb_eq in Hc, Hb. destruct Hg as [-> Hpe]. rewrite Hc. cbn [spaces repeat].
      match type of Hr with shape_scan ?st' r = true => destruct (IH st' [] true) as [H1 H2]; [|exact Hr|] end.
      { unfold good. cbn. split; [reflexivity|]. split; [intros _; lia | reflexivity]. }
      split; [constructor; [left; reflexivity | exact H1]|].
      cbn [nde]. split; [|exact H2]. intros [Hp _]. apply Hpe in Hp. lia.
    + apply andb_true_iff in Hs as [Hl Hr]. apply negb_true_iff in Hl.
      destruct Hg as (k & b & -> & Hne & Hh & Hlast).
      match type of Hr with shape_scan ?st' r = true => destruct (IH st' [] false) as [H1 H2]; [|exact Hr|] end.
      { unfold good. cbn. split; [reflexivity|]. split; [discriminate | lia]. }
      assert (Hcur : spaces (4 * k) ++ b <> []) by (destruct (spaces (4 * k)); destruct b; try discriminate; contradiction).
      split.
      * constructor; [|exact H1]. right. exists k, b. repeat split; auto. congruence.
      * cbn [nde]. split; [intros [_ Hx]; contradiction|].
        destruct (spaces (4 * k) ++ b) eqn:E; [contradiction | exact H2].
  - destruct (at_bol st) eqn:Eb.
    + destruct Hg as [-> Hpe]. destruct (c =? 32) eqn:E32.
      * apply N.eqb_eq in E32. subst c. match type of Hs with shape_scan ?st' r = true => apply (IH st' _ pe); [|exact Hs] end.
        unfold good. cbn. rewrite spaces_snoc. split; [reflexivity | exact Hpe].
      * apply andb_true_iff in Hs as [Hs Hr]. apply andb_true_iff in Hs as [Hsp Hmod].
        apply negb_true_iff in Hsp. apply Nat.eqb_eq in Hmod.
        match type of Hr with shape_scan ?st' r = true => apply (IH st' _ pe); [|exact Hr] end. unfold good. cbn [at_bol last_blank].
        exists (col_spaces st / 4)%nat, [c]. repeat split; auto; try discriminate.
        f_equal. f_equal. apply Nat.div_exact in Hmod; [exact Hmod | discriminate].
    + destruct Hg as (k & b & -> & Hne & Hh & Hlast).
      match type of Hs with shape_scan ?st' r = true => apply (IH st' _ pe); [|exact Hs] end. unfold good. cbn.
      exists k, (b ++ [c]). rewrite <- app_assoc. repeat split; auto.
      * destruct b; discriminate.
      * rewrite hd_snoc by exact Hne. exact Hh.
      * rewrite last_snoc. reflexivity.
Qed.

(* the declarative reading of [shape_lines] *)
Theorem shape_lines_spec s : shape_lines s = true ->
  Forall line_ok (lines_of s) /\ nde false (lines_of s).
Proof.
  intro H. apply (scan_spec s _ [] false) in H; [exact H|].
  unfold good. cbn. split; [reflexivity|]. split; [discriminate | lia].
Qed.

(* and [ends_one_nl]: the text is one or more lines, the last of which is complete and, unless it is the only one, not empty *)
Lemma ends_one_nl_spec s : ends_one_nl s = true ->
  s = [10] \/ exists t c, s = t ++ [c; 10] /\ c <> 10.
Proof.
  unfold ends_one_nl. destruct (rev s) as [|a [|b r]] eqn:E; [discriminate| |].
  - intro H. apply N.eqb_eq in H. subst a. left.
    rewrite <- (rev_involutive s), E. reflexivity.
  - intro H. apply andb_true_iff in H as [Ha Hb]. apply N.eqb_eq in Ha. subst a.
    apply negb_true_iff in Hb. right. exists (rev r), b. split.
    + rewrite <- (rev_involutive s), E. simpl. rewrite <- app_assoc. reflexivity.
    + intro Hx. subst b. discriminate.
Qed.

(* the shape theorem in declarative form *)
Theorem format_lines_ok (fx : fixes) (p : fprog) : wf_prog p = true ->
  Forall line_ok (lines_of (format fx p)) /\ nde false (lines_of (format fx p)).
Proof. intro H. apply shape_lines_spec, format_shape, H. Qed.
