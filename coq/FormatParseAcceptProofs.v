(* FormatParseAcceptProofs.v — C06 round trip: the scoping and control side conditions of the
   statement / program theorems ([sok], [poks] of FormatParseBlockProofs.v) derived from the two
   declarative judgements b-pratt proves for every accepted program:
     - the scope checker of ParserScope.v passes        (C05_scope_accept_scoped), and
     - the structure rules of ParserRules.v hold         (break / return placement, no dead code).
   What remains a hypothesis is per expression: [eok] asks, at every expression position, that the
   expression is in the round-trip fragment ([top_ok] / [item_ok], C06_roundtrip.v) in the context
   the scope checker computes for that position, and that names are identifiers. *)
From Coq Require Import List String NArith ZArith Bool Arith Lia.
From EvyV Require Import Base FmtAst Format FormatProofs Pratt PrattProofs Parser ParserProofs ParserRules ParserScope ParserCursor
  FormatParse FormatParseProofs FormatParseListProofs FormatParseStmtProofs FormatParseTargetProofs FormatParseBlockProofs FormatParseProgProofs.
From EvyV.Gen Require Import Prec.
Import ListNotations.
Local Open Scope nat_scope.

(* ---------- the alwaysTerms flags of formatter trees are the declarative notion ---------- *)
Lemma existsb_ext {X} (f g : X -> bool) l : Forall (fun x => f x = g x) l -> existsb f l = existsb g l.
Proof. induction 1 as [|x l H _ IH]; [reflexivity|]. cbn [existsb]. rewrite H, IH. reflexivity. Qed.

Lemma body_trees_all (P : stmt -> Prop) : P Parser.SEmpty -> forall body, Forall (fun st => P (stmt_tree st)) body ->
  forall e, Forall P (body_trees e body).
Proof.
  intros H0. induction 1 as [|x l Hx _ IH]; intro e; [constructor|]. cbn [body_trees].
  destruct (is_blank x); [destruct e; [apply IH | constructor; [exact H0|apply IH]] | constructor; [exact Hx|apply IH]].
Qed.

Lemma blk_term body e : Forall (fun st => always_terms (stmt_tree st) = stmt_term (stmt_tree st)) body ->
  block_terms (blk_of (body_trees e body)) = block_term (blk_of (body_trees e body)).
Proof.
  intro H. unfold blk_of. cbn [block_terms block_term]. apply existsb_ext.
  apply (body_trees_all (fun t => always_terms t = stmt_term t)); [reflexivity | exact H].
Qed.

Lemma at_st : forall st, always_terms (stmt_tree st) = stmt_term (stmt_tree st).
Proof.
  induction st using fstmt_ind'; try reflexivity.
  destruct ifb as [c ch b]. rewrite stmt_tree_if. cbn [always_terms stmt_term]. cbn [Pblock] in H.
  assert (Hbrs : forallb (fun cb => block_terms (snd cb)) (cb_tree (CBlock c ch b) :: map cb_tree elifs)
                 = forallb (fun cb => block_term (snd cb)) (cb_tree (CBlock c ch b) :: map cb_tree elifs)).
  { cbn [forallb cb_tree snd]. rewrite (blk_term b false H). f_equal.
    induction H0 as [|[c' ch' b'] r Hx _ IH]; [reflexivity|]. cbn [map forallb cb_tree snd]. cbn [Pblock] in Hx.
    rewrite (blk_term b' false Hx), IH. reflexivity. }
  destruct els as [[ce eb]|]; [|reflexivity]. rewrite Hbrs. rewrite (blk_term eb false (H1 ce eb eq_refl)). reflexivity.
Qed.

Section Acc.
  Variable B : benv.
  Variable F : list (str * finfo).
  Let TB := tabs_of B F.

  (* the scope checker on one conditional block *)
  Definition branch_out (G : ctx) (c : fexpr) (b : list fstmt) : option ctx :=
    obind (use_vars (tvars (fexpr_tree c)) ([] :: G)) (scope_block TB (blk_of (body_trees false b))).

  (* ---------- the per-expression conditions, in the checker's contexts ---------- *)
  Fixpoint eok (G : ctx) (st : fstmt) {struct st} : Prop :=
    let body := fix body (G : ctx) (l : list fstmt) {struct l} : Prop :=
      match l with
      | [] => True
      | x :: t => if is_blank x then body G t
                  else eok G x /\ match scope_stmt TB (stmt_tree x) G with Some G' => body G' t | None => False end
      end in
    let branch := fun (G : ctx) (c : fexpr) (b : list fstmt) =>
      top_ok (envG B F G) c /\ b <> [] /\
      match use_vars (tvars (fexpr_tree c)) ([] :: G) with Some G1 => body G1 b | None => False end in
    match st with
    | FmtAst.STypedDecl x t [] => ident_text x = true /\ fty_ty t <> None
    | FmtAst.SInferredDecl x v [] => ident_text x = true /\ top_ok (envG B F G) v
    | FmtAst.SAssign t v [] =>
        match tgt_split t with
        | Some (x, steps) => ident_text x = true /\ mem_str x (map fst F) = false /\
                             Forall (step_ok (envG B F G)) steps /\ top_ok (envG B F G) v
        | None => False
        end
    | FmtAst.SCall n args [] =>
        ident_text n = true /\ Forall (item_ok (envG B F G) true) args
    | FmtAst.SReturn (Some v) [] => top_ok (envG B F G) v
    | FmtAst.SReturn None [] => True
    | FmtAst.SBreak [] => True
    | FmtAst.SWhile c [] b [] => branch G c b
    | FmtAst.SFor lv r [] b [] =>
        match lv with Some x => ident_text x = true | None => True end /\ b <> [] /\
        match (match lv with Some n => declare TB false n ([] :: G) | None => Some ([] :: G) end) with
        | Some Gd => Forall (item_ok (envG B F Gd) true) (range_exprs r) /\
                     match use_vars (lvars (map fexpr_tree (range_exprs r))) Gd with Some G1 => body G1 b | None => False end
        | None => False
        end
    | FmtAst.SIf (CBlock c [] b) elifs els [] =>
        branch G c b /\
        match branch_out G c b with
        | None => False
        | Some Gn =>
          (fix chain (G : ctx) (l : list cblock) {struct l} : Prop :=
             match l with
             | [] => match els with
                     | None => True
                     | Some ([], eb) => eb <> [] /\ body ([] :: G) eb
                     | Some _ => False
                     end
             | CBlock c' [] b' :: r =>
                 branch G c' b' /\ match branch_out G c' b' with Some Gn => chain Gn r | None => False end
             | _ => False
             end) Gn elifs
        end
    | _ => False
    end.

  Fixpoint eokb (G : ctx) (l : list fstmt) : Prop :=
    match l with
    | [] => True
    | x :: t => if is_blank x then eokb G t
                else eok G x /\ match scope_stmt TB (stmt_tree x) G with Some G' => eokb G' t | None => False end
    end.
  Definition eok_branch (G : ctx) (c : fexpr) (b : list fstmt) : Prop :=
    top_ok (envG B F G) c /\ b <> [] /\
    match use_vars (tvars (fexpr_tree c)) ([] :: G) with Some G1 => eokb G1 b | None => False end.
  Definition eok_chain (els : option (str * list fstmt)) : ctx -> list cblock -> Prop :=
    fix chain (G : ctx) (l : list cblock) {struct l} : Prop :=
    match l with
    | [] => match els with
            | None => True
            | Some ([], eb) => eb <> [] /\ eokb ([] :: G) eb
            | Some _ => False
            end
    | CBlock c' [] b' :: r =>
        eok_branch G c' b' /\ match branch_out G c' b' with Some Gn => chain Gn r | None => False end
    | _ => False
    end.

  Lemma eok_while G c b : eok G (FmtAst.SWhile c [] b []) = eok_branch G c b.
  Proof. reflexivity. Qed.
  Lemma eok_for G lv r b : eok G (FmtAst.SFor lv r [] b []) =
    (match lv with Some x => ident_text x = true | None => True end /\ b <> [] /\
     match (match lv with Some n => declare TB false n ([] :: G) | None => Some ([] :: G) end) with
     | Some Gd => Forall (item_ok (envG B F Gd) true) (range_exprs r) /\
                  match use_vars (lvars (map fexpr_tree (range_exprs r))) Gd with Some G1 => eokb G1 b | None => False end
     | None => False
     end).
  Proof. reflexivity. Qed.
  Lemma eok_if G c b elifs els :
    eok G (FmtAst.SIf (CBlock c [] b) elifs els [])
    = (eok_branch G c b /\ match branch_out G c b with None => False | Some Gn => eok_chain els Gn elifs end).
  Proof. reflexivity. Qed.

  (* ---------- frames and function kinds ---------- *)
  Definition kf (k : fkind) (inl : bool) (fr : frs) : Prop :=
    fr_ret fr = negb (is_top k) /\ fr_retv fr = (match k with KFun => true | _ => false end) /\ fr_loop fr = inl.

  Lemma kf_push k inl fr l : kf k inl fr -> kf k (l || inl) (fr_push l fr).
  Proof. intros (H1 & H2 & H3). unfold kf, fr_push. cbn [fr_ret fr_retv]. unfold fr_loop in *. cbn [existsb snd]. rewrite H3. auto. Qed.

  Definition dead_ok (t : bool) (l : list stmt) : bool := (if t then forallb is_empty_stmt l else true) && no_dead l.

  Lemma is_blank_empty x : is_blank x = true -> x = FmtAst.SEmpty [].
  Proof. destruct x; try discriminate. cbn [is_blank]. destruct c; [reflexivity|discriminate]. Qed.

  (* marking variables as used changes neither the chain's length nor the names of its frames *)
  Definition hd_has (n : str) (G : ctx) : bool := match G with f :: _ => fhas n f | [] => false end.
  Lemma cmark_hd n m G : hd_has n (cmark m G) = hd_has n G /\ (G <> [] -> cmark m G <> []).
  Proof.
    destruct G as [|f r]; [split; [reflexivity|intro H; contradiction]|]. cbn [cmark]. destruct (fhas m f).
    - split; [cbn [hd_has]; apply fhas_fmark | discriminate].
    - split; [reflexivity | discriminate].
  Qed.
  Lemma fold_cmark_hd n vs : forall G, hd_has n (fold_left (fun G n => cmark n G) vs G) = hd_has n G /\
                                       (G <> [] -> fold_left (fun G n => cmark n G) vs G <> []).
  Proof.
    induction vs as [|m vs IH]; intro G; [split; [reflexivity|auto]|]. cbn [fold_left].
    destruct (IH (cmark m G)) as [H1 H2]. destruct (cmark_hd n m G) as [H3 H4]. split; [rewrite H1; exact H3 | intro N; apply H2, H4, N].
  Qed.

  Lemma declare_some_iff a n G : declare TB a n G <> None <->
    G <> [] /\ (mem_str n (t_globals TB) || hd_has n G || mem_str n (t_funcs TB) || (negb a && str_eqb n (s_ "_"%string))) = false.
  Proof.
    unfold declare. destruct G as [|f r]; [split; [intro H; contradiction | intros [H _]; contradiction]|]. cbn [hd_has].
    destruct (_ || _ || _ || _); split; intro H; try (split; [discriminate|reflexivity]); try discriminate; try contradiction.
    destruct H as [_ H]. discriminate.
  Qed.

  Lemma declare_after_use a n vs G G2 G' : use_vars vs G = Some G2 -> declare TB a n G2 = Some G' -> declare TB a n G <> None.
  Proof.
    unfold use_vars. destruct (forallb _ vs); [|discriminate]. intro E. injection E as <-. intro D.
    assert (D' : declare TB a n (fold_left (fun G n => cmark n G) vs G) <> None) by (rewrite D; discriminate).
    apply declare_some_iff in D' as [N Hc]. destruct (fold_cmark_hd n vs G) as [H1 H2]. rewrite H1 in Hc.
    apply declare_some_iff. split; [|exact Hc]. intro E. subst G. apply N. clear. induction vs; [reflexivity|assumption].
  Qed.

  Lemma use_in vs G G2 x : use_vars vs G = Some G2 -> In x vs -> cvisible x G = true.
  Proof.
    unfold use_vars. destruct (forallb (fun n => cvisible n G) vs) eqn:E; [|discriminate]. intros _ Hin.
    rewrite forallb_forall in E. exact (E x Hin).
  Qed.
  Lemma use_one x G G2 : use_vars [x] G = Some G2 -> cvisible x G = true.
  Proof. unfold use_vars. cbn [forallb]. destruct (cvisible x G); [reflexivity|discriminate]. Qed.

  (* ---------- the derivation ---------- *)
  Definition P (st : fstmt) : Prop :=
    forall k inl fr G G', kf k inl fr -> eok G st -> stmt_ok k inl (stmt_tree st) = true ->
      stmt_sok B F (stmt_tree st) -> scope_stmt TB (stmt_tree st) G = Some G' -> sok B F fr G st.

  (* the function table is consistent: a function without parameters takes no argument *)
  Definition tbl_ok : Prop := forall n fi, lookup_fn n F = Some fi -> fi_nil fi = true -> fi_arity fi = Some 0.
  Hypothesis TOK : tbl_ok.

  Lemma func_of_mk vs n : func_of (mkenv B F vs) n = match lookup_fn n F with Some fi => Some (fi_nil fi) | None => None end.
  Proof.
    unfold func_of, mkenv. cbn [e_funcs]. induction F as [|[m f] l IH]; [reflexivity|]. cbn [map lookup_func lookup_fn fst snd].
    destruct (str_eqb m n); [reflexivity|exact IH].
  Qed.
  Lemma arity_mk vs n k : arity_wrong (mkenv B F vs) n k =
    match lookup_fn n F with Some fi => match fi_arity fi with Some a => negb (Nat.eqb a k) | None => false end | None => false end.
  Proof.
    unfold arity_wrong, mkenv. cbn [e_arity]. induction F as [|[m f] l IH]; [reflexivity|]. cbn [map lookup_arity lookup_fn fst snd].
    destruct (str_eqb m n); [reflexivity|exact IH].
  Qed.

  (* the call rules of an accepted call statement give what the round trip needs of the table *)
  Lemma call_table G n (args : list fexpr) : expr_sok B F (TCall n (map fexpr_tree args)) ->
    exists fi, lookup_fn n F = Some fi /\ arity_wrong (envG B F G) n (List.length args) = false.
  Proof.
    intros [vs H]. cbn [tree_ok] in H. destruct H as (Hf & _ & Ha). rewrite func_of_mk in Hf, Ha.
    destruct (lookup_fn n F) as [fi|] eqn:L; [|contradiction]. exists fi. split; [reflexivity|].
    unfold envG. rewrite arity_mk, L. destruct Ha as [[Ha _]|[Hnil Hn]].
    - rewrite arity_mk, L, map_length in Ha. exact Ha.
    - injection Hn as Hn. rewrite (TOK n fi L Hn). destruct args; [reflexivity|discriminate Hnil].
  Qed.

  Lemma eok_not_empty G st : eok G st -> is_empty_stmt (stmt_tree st) = false.
  Proof. destruct st; try reflexivity; [intro H; exact (match H with end) | destruct ifb; reflexivity]. Qed.

  Lemma close_used Gend Gn : close_scope Gend = Some Gn -> frame_used Gend /\ Gn = tl Gend.
  Proof.
    unfold close_scope, frame_used. destruct Gend as [|f r]; [discriminate|]. destruct (forallb snd f); [|discriminate].
    intro H. injection H as <-. auto.
  Qed.

  Lemma body_derive : forall body, Forall P body -> forall k inl fr G e t Gend, kf k inl fr -> eokb G body ->
    forallb (stmt_ok k inl) (body_trees e body) = true -> dead_ok t (body_trees e body) = true ->
    Forall (stmt_sok B F) (body_trees e body) ->
    scope_stmts TB (body_trees e body) G = Some Gend -> frame_used Gend -> boks B F fr G t e body.
  Proof.
    induction 1 as [|x rest Hx _ IH]; intros k inl fr G e t Gend Hk He Hok Hd Hso Hs Hu.
    - cbn in Hs. injection Hs as <-. apply boks_nil. exact Hu.
    - cbn [eokb] in He. cbn [body_trees] in Hok, Hd, Hs, Hso. destruct (is_blank x) eqn:Hb.
      + rewrite (is_blank_empty x Hb). apply boks_blank. destruct e.
        * eapply IH; eassumption.
        * cbn [forallb stmt_ok andb] in Hok. cbn [scope_stmts scope_stmt obind] in Hs. inversion Hso; subst.
          eapply IH; eassumption.
      + destruct He as [Hex He]. cbn [forallb] in Hok. apply andb_true_iff in Hok as [Hok1 Hok2]. inversion Hso as [|? ? Hso1 Hso2]; subst.
        cbn [scope_stmts] in Hs. destruct (scope_stmt TB (stmt_tree x) G) as [G'|] eqn:Hsc; [|discriminate Hs]. cbn [obind] in Hs.
        unfold dead_ok in Hd. cbn [forallb no_dead] in Hd. rewrite (eok_not_empty G x Hex) in Hd.
        destruct t; [cbn in Hd; discriminate Hd|]. cbn [andb] in Hd.
        eapply boks_cons; [exact Hb | eapply Hx; eassumption | exact Hsc |].
        eapply IH; try eassumption. unfold dead_ok. rewrite at_st. exact Hd.
  Qed.

  Lemma body_trees_ne b : b <> [] -> body_trees false b <> [].
  Proof. destruct b as [|x r]; [contradiction|]. intros _. cbn [body_trees]. destruct (is_blank x); discriminate. Qed.

  Lemma branch_derive b : Forall P b -> forall k inl fr l G c Gn, kf k inl fr -> eok_branch G c b ->
    block_ok k (l || inl) (blk_of (body_trees false b)) = true -> block_sok B F (blk_of (body_trees false b)) ->
    branch_out G c b = Some Gn ->
    exists G1, top_ok (envG B F G) c /\ body_trees false b <> [] /\ use_vars (tvars (fexpr_tree c)) ([] :: G) = Some G1 /\
               boks B F (fr_push l fr) G1 false false b /\ scope_block TB (blk_of (body_trees false b)) G1 = Some Gn.
  Proof.
    intros Hb k inl fr l G c Gn Hk (Hc & Hne & He) Hok Hbs Ho. unfold branch_out in Ho.
    unfold blk_of in Hbs. cbn [block_sok] in Hbs. apply stmts_sok_fix in Hbs.
    destruct (use_vars (tvars (fexpr_tree c)) ([] :: G)) as [G1|] eqn:Hu; [|discriminate Ho]. cbn [obind] in Ho.
    exists G1. split; [exact Hc|]. split; [apply body_trees_ne, Hne|]. split; [reflexivity|]. split; [|exact Ho].
    unfold blk_of in Ho, Hok. rewrite scope_block_eq in Ho.
    destruct (scope_stmts TB (body_trees false b) G1) as [Gend|] eqn:Hs; [|discriminate Ho]. cbn [obind] in Ho.
    destruct (close_used _ _ Ho) as [Hu' _]. cbn [block_ok] in Hok. apply andb_true_iff in Hok as [Hok1 Hok2].
    apply (body_derive b Hb k (l || inl) (fr_push l fr) G1 false false Gend (kf_push k inl fr l Hk) He Hok1 Hok2 Hbs Hs Hu').
  Qed.

  Lemma chain_derive els : forall elifs, Forall (Pblock P) elifs -> forall k inl fr G Gm, kf k inl fr ->
    eok_chain els G elifs -> forallb (fun cb => block_ok k inl (snd cb)) (map cb_tree elifs) = true ->
    Forall (fun cb => block_sok B F (snd cb)) (map cb_tree elifs) ->
    scope_brs TB (map cb_tree elifs) G = Some Gm -> coks B F fr G elifs Gm /\ eok_chain els Gm [].
  Proof.
    induction 1 as [|[c ch b] r Hx _ IH]; intros k inl fr G Gm Hk He Hok Hbs Hs.
    - cbn in Hs. injection Hs as <-. split; [constructor | exact He].
    - cbn [eok_chain] in He. destruct ch; [|contradiction]. destruct He as [Hbr He].
      cbn [map forallb cb_tree snd] in Hok. apply andb_true_iff in Hok as [Hok1 Hok2].
      cbn [map scope_brs cb_tree fst snd otv'] in Hs. fold (branch_out G c b) in Hs.
      destruct (branch_out G c b) as [Gn|] eqn:Hbo; [|contradiction]. cbn [obind] in Hs.
      cbn [map cb_tree snd] in Hbs. inversion Hbs as [|? ? Hbs1 Hbs2]; subst.
      destruct (branch_derive b Hx k inl fr false G c Gn Hk Hbr Hok1 Hbs1 Hbo) as (G1 & H1 & H2 & H3 & H4 & H5).
      destruct (IH k inl fr Gn Gm Hk He Hok2 Hbs2 Hs) as [Hco Hel].
      split; [|exact Hel]. eapply coks_cons; eassumption.
  Qed.

  Lemma kf_ret k inl fr : kf k inl fr -> is_top k = false -> fr_ret fr = true.
  Proof. intros (H & _) E. rewrite H, E. reflexivity. Qed.

  Theorem derive_all : forall st, P st.
  Proof.
    induction st using fstmt_ind'; intros k inl fr G G' Hk He Hok Hso Hs.
    - exact (match He with end).
    - (* typed declaration *)
      destruct c; [|exact (match He with end)]. cbn [eok] in He. destruct He as [Hx Ht].
      cbn [stmt_tree scope_stmt] in Hs. destruct (fty_ty t) as [ty|] eqn:Ety; [|contradiction].
      eapply sok_typed; [exact Hx | exact Ety | fold TB; rewrite Hs; discriminate].
    - (* inferred declaration *)
      destruct c; [|exact (match He with end)]. cbn [eok] in He. destruct He as [Hx Hv].
      cbn [stmt_tree scope_stmt] in Hs. destruct (use_vars (tvars (fexpr_tree v)) G) as [G2|] eqn:Hu; [|discriminate Hs]. cbn [obind] in Hs.
      apply sok_decl; [exact Hx | exact (declare_after_use false n _ G G2 G' Hu Hs) | exact Hv].
    - (* assignment *)
      destruct c; [|exact (match He with end)]. cbn [eok] in He.
      destruct (tgt_split t) as [[x steps]|] eqn:Hsp; [|contradiction]. destruct He as (Hx & Hnf & Hst & Hv).
      cbn [stmt_tree scope_stmt] in Hs. destruct (use_vars (tvars (fexpr_tree t)) G) as [G2|] eqn:Hu; [|discriminate Hs].
      eapply sok_assign; try eassumption.
      apply (use_in _ G G2 x Hu). rewrite (tgt_tree t x steps Hsp).
      assert (Hg : forall st n1, In x (tvars n1) -> In x (tvars (fold_left step_tree st n1))).
      { induction st as [|s0 r IH]; intros n1 H1; [exact H1|]. cbn [fold_left]. apply IH. destruct s0; cbn [step_tree tvars]; [apply in_or_app; left; exact H1 | exact H1]. }
      apply Hg. left. reflexivity.
    - (* call *)
      destruct c; [|exact (match He with end)]. cbn [eok] in He. destruct He as (Hn & Hall).
      cbn [stmt_tree stmt_sok] in Hso. destruct (call_table G n a Hso) as (fi & Hl & Ha). eapply sok_call; eassumption.
    - (* return *)
      destruct c; [|destruct v; exact (match He with end)]. cbn [stmt_tree stmt_ok] in Hok.
      destruct v as [v|]; cbn [eok] in He.
      + apply sok_retv; [|exact He]. apply (kf_ret k inl fr Hk). destruct k; [discriminate Hok|reflexivity|reflexivity].
      + destruct k; try discriminate Hok. destruct Hk as (H1 & H2 & _). apply sok_ret; [rewrite H1 | rewrite H2]; reflexivity.
    - (* break *)
      destruct c; [|exact (match He with end)]. cbn [stmt_tree stmt_ok] in Hok. destruct Hk as (_ & _ & H3).
      apply sok_break. rewrite H3. exact Hok.
    - (* if *)
      destruct ifb as [c ch b]. destruct ch; [|exact (match He with end)]. destruct cend; [|destruct els as [[? ?]|]; exact (match He with end)].
      rewrite eok_if in He. destruct He as [Hbr He]. destruct (branch_out G c b) as [Gn|] eqn:Hbo; [|contradiction].
      rewrite stmt_tree_if in Hok, Hs. cbn [stmt_ok forallb cb_tree snd] in Hok.
      apply andb_true_iff in Hok as [Hok Hoke]. apply andb_true_iff in Hok as [Hok1 Hok2].
      rewrite scope_if_eq in Hs. cbn [scope_brs cb_tree fst snd otv'] in Hs. fold TB in Hs. fold (branch_out G c b) in Hs. rewrite Hbo in Hs. cbn [obind] in Hs.
      destruct (scope_brs TB (map cb_tree elifs) Gn) as [Gm|] eqn:Hsb; [|discriminate Hs]. cbn [obind] in Hs.
      cbn [Pblock] in H.
      rewrite stmt_tree_if in Hso. cbn [stmt_sok] in Hso. destruct Hso as [Hsb1 Hse]. destruct Hsb1 as (_ & Hcb1 & Hcbs). apply (brs_sok_fix B F) in Hcbs. cbn [cb_tree snd] in Hcb1.
      assert (Hcbs' : Forall (fun cb => block_sok B F (snd cb)) (map cb_tree elifs)) by (eapply Forall_impl; [|exact Hcbs]; intros a Ha; exact (proj2 Ha)).
      destruct (branch_derive b H k inl fr false G c Gn Hk Hbr Hok1 Hcb1 Hbo) as (G1 & B1 & B2 & B3 & B4 & B5).
      destruct (chain_derive els elifs H0 k inl fr Gn Gm Hk He Hok2 Hcbs' Hsb) as [Hco Hel].
      cbn [eok_chain] in Hel. destruct els as [[ce eb]|].
      + destruct ce; [|contradiction]. destruct Hel as [Hne Heb].
        unfold blk_of in Hs. rewrite scope_block_eq in Hs.
        destruct (scope_stmts TB (body_trees false eb) ([] :: Gm)) as [Gend|] eqn:Hse0; [|discriminate Hs]. cbn [obind] in Hs.
        destruct (close_used _ _ Hs) as [Hu' _]. unfold blk_of in Hoke. cbn [block_ok] in Hoke. apply andb_true_iff in Hoke as [Ho1 Ho2].
        eapply sok_if_else; try eassumption; [apply body_trees_ne, Hne|].
        unfold blk_of in Hse. cbn [block_sok] in Hse. apply stmts_sok_fix in Hse.
        apply (body_derive eb (H1 [] eb eq_refl) k (false || inl) (fr_push false fr) ([] :: Gm) false false Gend (kf_push k inl fr false Hk) Heb Ho1 Ho2 Hse Hse0 Hu').
      + eapply sok_if; eassumption.
    - (* while *)
      destruct ch; [|exact (match He with end)]. destruct ce; [|exact (match He with end)].
      rewrite eok_while in He. rewrite stmt_tree_while in Hok, Hs. cbn [stmt_ok] in Hok.
      cbn [scope_stmt otv'] in Hs. fold TB in Hs. fold (branch_out G cond body) in Hs.
      rewrite stmt_tree_while in Hso. cbn [stmt_sok] in Hso. destruct Hso as [_ Hso].
      destruct (branch_derive body H k inl fr true G cond G' Hk He Hok Hso Hs) as (G1 & B1 & B2 & B3 & B4 & B5).
      eapply sok_while; eassumption.
    - (* for *)
      destruct ch; [|exact (match He with end)]. destruct ce; [|exact (match He with end)].
      rewrite eok_for in He. destruct He as (Hlv & Hne & He).
      rewrite stmt_tree_for, range_trees_eq in Hok, Hs. cbn [stmt_ok] in Hok. cbn [scope_stmt] in Hs. fold TB in Hs.
      destruct (match lv with Some n => declare TB false n ([] :: G) | None => Some ([] :: G) end) as [Gd|] eqn:Hd; [|contradiction].
      destruct He as [Hall He]. cbn [obind] in Hs.
      destruct (use_vars (lvars (map fexpr_tree (range_exprs r))) Gd) as [G1|] eqn:Hu; [|contradiction]. cbn [obind] in Hs.
      unfold blk_of in Hs, Hok. rewrite scope_block_eq in Hs.
      destruct (scope_stmts TB (body_trees false body) G1) as [Gend|] eqn:Hss; [|discriminate Hs]. cbn [obind] in Hs.
      destruct (close_used _ _ Hs) as [Hu' _]. cbn [block_ok] in Hok. apply andb_true_iff in Hok as [Ho1 Ho2].
      eapply (sok_for B F fr G lv r body Gd G1); [| exact Hall | exact Hu | apply body_trees_ne, Hne |].
      + destruct lv as [x|]; [split; [exact Hlv|exact Hd] | injection Hd as <-; reflexivity].
      + rewrite stmt_tree_for in Hso. cbn [stmt_sok] in Hso. destruct Hso as (_ & _ & Hso). unfold blk_of in Hso. cbn [block_sok] in Hso. apply stmts_sok_fix in Hso.
        apply (body_derive body H k (true || inl) (fr_push true fr) G1 false false Gend (kf_push k inl fr true Hk) He Ho1 Ho2 Hso Hss Hu').
    - exact (match He with end).
    - exact (match He with end).
  Qed.

  (* at top level no statement that passes the structure rules always terminates *)
  Lemma top_no_term : forall st, stmt_ok KTop false (stmt_tree st) = true -> stmt_term (stmt_tree st) = false.
  Proof.
    induction st using fstmt_ind'; try reflexivity; try (intro H; discriminate H).
    destruct ifb as [c ch b]. rewrite stmt_tree_if. destruct els as [[ce eb]|]; [|reflexivity].
    cbn [stmt_ok stmt_term]. intro Hok. apply andb_true_iff in Hok as [_ Hok]. unfold blk_of in *. cbn [block_ok block_term] in *.
    apply andb_true_iff in Hok as [Hok _].
    assert (E : existsb stmt_term (body_trees false eb) = false).
    { pose proof (body_trees_all (fun t => stmt_ok KTop false t = true -> stmt_term t = false) (fun _ => eq_refl) eb (H1 ce eb eq_refl) false) as HA.
      clear - HA Hok. induction HA as [|t l Ht _ IH]; [reflexivity|]. cbn [forallb existsb] in *. apply andb_true_iff in Hok as [H1 H2].
      rewrite (Ht H1), (IH H2). reflexivity. }
    rewrite E. reflexivity.
  Qed.

  Lemma kf_top : kf KTop false top_fr.
  Proof. repeat split. Qed.

  Lemma poks_derive : forall body G e Gout, eokb G body ->
    forallb (stmt_ok KTop false) (body_trees e body) = true -> Forall (stmt_sok B F) (body_trees e body) ->
    scope_stmts TB (body_trees e body) G = Some Gout -> poks B F G e body Gout.
  Proof.
    induction body as [|x rest IH]; intros G e Gout He Hok Hso Hs.
    - cbn in Hs. injection Hs as <-. constructor.
    - cbn [eokb] in He. cbn [body_trees] in Hok, Hs, Hso. destruct (is_blank x) eqn:Hb.
      + rewrite (is_blank_empty x Hb). apply poks_blank. destruct e; [|inversion Hso; subst]; eapply IH; eassumption.
      + destruct He as [Hex He]. cbn [forallb] in Hok. apply andb_true_iff in Hok as [Hok1 Hok2]. inversion Hso as [|? ? Hso1 Hso2]; subst.
        cbn [scope_stmts] in Hs. destruct (scope_stmt TB (stmt_tree x) G) as [G'|] eqn:Hsc; [|discriminate Hs]. cbn [obind] in Hs.
        eapply poks_cons; [exact Hb | exact (derive_all x KTop false top_fr G G' kf_top Hex Hok1 Hso1 Hsc) | | exact Hsc | eapply IH; eassumption].
        rewrite at_st. apply top_no_term, Hok1.
  Qed.
End Acc.

(* ---------- the program theorem with the judgements of an accepted parse ---------- *)
Section AccProg.
  Variable B : benv.
  Hypothesis BT : forall s t n, b_tyerr B s t n = false.
  Variable fx : fixes.

  (* the builtin table is consistent: a builtin without parameters has arity 0 *)
  Hypothesis TOK : tbl_ok (builtin_table B).

  Theorem program_roundtrip_judged p poss eof :
    p <> [] -> eokb B (builtin_table B) (G0 B) p ->
    structure_ok (body_trees false p) = true ->
    stmts_sok B (builtin_table B) (body_trees false p) ->
    scope_prog (tabs_of B (builtin_table B)) (body_trees false p) = true ->
    List.length poss = List.length (toks_of_pieces (fmt_prog fx p)) ->
    parse B (combine (toks_of_pieces (fmt_prog fx p)) poss) eof = Accept (body_trees false p).
  Proof.
    intros Hne He Hst Hso Hsc Hlen.
    unfold structure_ok in Hst. apply andb_true_iff in Hst as [Hst _].
    unfold scope_prog in Hsc. cbn [t_globals tabs_of] in Hsc. fold (G0 B) in Hsc.
    destruct (scope_stmts (tabs_of B (builtin_table B)) (body_trees false p) (G0 B)) as [Gout|] eqn:Hs; [|discriminate Hsc]. cbn [obind] in Hsc.
    destruct (close_scope Gout) as [Gn|] eqn:Hc; [|discriminate Hsc].
    destruct (close_used _ _ Hc) as [Hu _].
    apply (program_roundtrip B BT fx p Gout poss eof Hne (poks_derive B (builtin_table B) TOK p (G0 B) false Gout He Hst Hso Hs) Hu Hlen).
  Qed.

  (* ... which hold whenever some token list (the source, say) is accepted with p's tree and without
     user-defined functions *)
  Theorem program_roundtrip_accepted p raw eof0 poss eof :
    parse B raw eof0 = Accept (body_trees false p) -> fn_table B raw = builtin_table B ->
    p <> [] -> eokb B (builtin_table B) (G0 B) p ->
    List.length poss = List.length (toks_of_pieces (fmt_prog fx p)) ->
    parse B (combine (toks_of_pieces (fmt_prog fx p)) poss) eof = Accept (body_trees false p).
  Proof.
    intros Hacc Hfn Hne He Hlen.
    apply program_roundtrip_judged; try assumption.
    - exact (accept_structure B raw eof0 _ Hacc).
    - rewrite <- Hfn. exact (accept_static B raw eof0 _ Hacc).
    - rewrite <- Hfn. exact (accept_scoped B raw eof0 _ Hacc).
  Qed.
End AccProg.
