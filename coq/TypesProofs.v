(* TypesProofs.v — the implementation model (Types.v) against the declarative
   specification (TypesSpec.v).  All statements quantify over all types, at any
   nesting depth and any Fixed-bit placement (induction on the type). *)
From Coq Require Import List Bool Lia.
From EvyV Require Import Base TypesSyntax Types TypesOld TypesSpec TypesSpecProofs.
From EvyV.Gen Require Import TypeNames.
Import ListNotations.

(* ---------- the correspondence between model types and spec types ---------- *)
(* Fixed bits erased.  Only meaningful on [spec_ty] types (no NONE_TYPE, no
   GENERIC_* node: those are parser-internal and the specification has no
   name for them). *)
Fixpoint erase (t : ty) : sty :=
  match t with
  | TNum => SNum | TString => SString | TBool => SBool | TAny => SAny
  | TArr _ s => SArr (erase s) | TMap _ s => SMap (erase s)
  | TEmptyArr => SEmptyArr | TEmptyMap => SEmptyMap
  | TNone | TGenArr | TGenMap => SAny
  end.

Fixpoint spec_ty (t : ty) : bool :=
  match t with
  | TNone | TGenArr | TGenMap => false
  | TArr _ s | TMap _ s => spec_ty s
  | _ => true
  end.

Fixpoint has_empty (t : ty) : bool :=
  match t with
  | TEmptyArr | TEmptyMap => true
  | TArr _ s | TMap _ s => has_empty s
  | _ => false
  end.

(* how the parser encodes the specification's value kinds in a type:
   a constant / empty literal has no Fixed node; a variable (fixedType of a
   declared or inferred type) is Fixed at the top only and has no empty leaf.
   Basic types and any carry no flag: for them both kinds coincide in the
   specification as well. *)
Definition kind_of (t : ty) : kind := if has_fixed t then KVar else KConst.

Definition const_ty (t : ty) : bool := spec_ty t && negb (has_fixed t).
Definition var_ty (t : ty) : bool :=
  spec_ty t && negb (has_empty t) &&
  match t with TArr true s | TMap true s => negb (has_fixed s) | _ => false end.
Definition pure_ty (t : ty) : bool := const_ty t || var_ty t.

Lemma erase_embed s : erase (embed s) = s.
Proof. induction s; simpl; congruence. Qed.

Lemma spec_embed s : spec_ty (embed s) = true.
Proof. induction s; simpl; auto. Qed.

(* ---------- accepts on constants: Converts ---------- *)
Lemma spec_not_none r : spec_ty r = true -> is_none r = false.
Proof. destruct r; simpl; auto; discriminate. Qed.

Ltac split_fixed :=
  repeat match goal with
         | H : _ || _ = false |- _ => apply orb_false_iff in H as [? ?]; subst
         end.

Lemma accepts_from_const : forall l r top,
  spec_ty l = true -> spec_ty r = true -> has_fixed r = false ->
  accepts_from top false l r = conv_b (erase r) (erase l).
Proof.
  induction l; intros r top Hl Hr Hf; destruct r; simpl in *; split_fixed;
    try discriminate; try reflexivity; simpl;
    try (apply IHl; assumption);
    try (apply spec_not_none; assumption);
    try (destruct top; reflexivity).
Qed.

(* ---------- accepts once rightFixed is set: identity ---------- *)
Lemma accepts_from_fixed : forall l r top rf,
  spec_ty l = true -> spec_ty r = true -> has_empty r = false -> rf || fixed r = true ->
  accepts_from top rf l r = (top && is_any l) || sty_eqb (erase l) (erase r).
Proof.
  induction l; intros r top rf Hl Hr He Hx; destruct r; simpl in *;
    try discriminate;
    try (rewrite ?andb_true_r, ?andb_false_r, ?orb_false_r; reflexivity);
    try (rewrite Hx; simpl; rewrite ?andb_false_r, ?orb_false_r, ?orb_true_r; try reflexivity);
    try (destruct top; reflexivity);
    try (rewrite IHl by (auto; apply orb_true_l); simpl; reflexivity);
    try (rewrite andb_false_r; simpl; apply spec_not_none; assumption).
Qed.

Lemma is_any_erase t : spec_ty t = true -> is_any t = sty_eqb (erase t) SAny.
Proof. destruct t; simpl; auto; discriminate. Qed.

Lemma var_ty_inv t : var_ty t = true ->
  spec_ty t = true /\ has_empty t = false /\ fixed t = true /\ has_fixed t = true.
Proof.
  unfold var_ty. intro H. apply andb_true_iff in H as [H H3]. apply andb_true_iff in H as [H1 H2].
  apply negb_true_iff in H2.
  destruct t; try discriminate; destruct fx; try discriminate; simpl; auto.
Qed.

(* THE assignability theorem: on the value kinds the specification names
   (variables, constants, empty literals — any type, any nesting depth),
   accepts is exactly Assignable. *)
Theorem accepts_iff_assignable t t2 :
  spec_ty t = true -> pure_ty t2 = true ->
  (accepts t t2 = true <-> Assignable (kind_of t2) (erase t) (erase t2)).
Proof.
  intros Ht Hp. rewrite <- assignable_b_iff. unfold pure_ty in Hp. apply orb_true_iff in Hp as [Hc | Hv].
  - unfold const_ty in Hc. apply andb_true_iff in Hc as [Hs Hf]. apply negb_true_iff in Hf.
    unfold kind_of, accepts. rewrite Hf. rewrite accepts_from_const by assumption. simpl. tauto.
  - apply var_ty_inv in Hv as (Hs & He & Hfx & Hhf).
    unfold kind_of, accepts. rewrite Hhf. rewrite accepts_from_fixed by (auto; rewrite Hfx; reflexivity).
    simpl. rewrite (is_any_erase t Ht). rewrite orb_comm. tauto.
Qed.

(* a literal whose element is directly a composite variable ([x], {k:x})
   behaves like a variable too, as spec.md demands of every literal that
   contains a variable *)
Lemma accepts_literal_of_variable t f s :
  spec_ty t = true -> var_ty s = true ->
  (accepts t (TArr f s) = true <-> Assignable KVar (erase t) (erase (TArr f s))) /\
  (accepts t (TMap f s) = true <-> Assignable KVar (erase t) (erase (TMap f s))).
Proof.
  intros Ht Hv. apply var_ty_inv in Hv as (Hs & He & Hfx & Hhf).
  rewrite <- !assignable_b_iff. unfold accepts.
  destruct t; simpl in *; try discriminate; rewrite ?orb_false_r;
    try (split; split; intro; discriminate); try (split; tauto).
  - rewrite accepts_from_fixed by (auto; rewrite Hfx; apply orb_true_r). simpl. split; tauto.
  - rewrite accepts_from_fixed by (auto; rewrite Hfx; apply orb_true_r). simpl. split; tauto.
  - rewrite (spec_not_none s Hs). split; split; intro; discriminate.
  - rewrite (spec_not_none s Hs). split; split; intro; discriminate.
Qed.

(* ... but one level deeper the parser converts although spec.md says the
   literal is "treated like a variable": REFUTED on the unchanged tree.
   Witness:  x:[]num ; t:[]any ; t = [{k:x}]   (also: t = [[x]]) *)
Lemma accepts_nested_variable_refuted :
  exists t t2, spec_ty t = true /\ spec_ty t2 = true /\ has_empty t2 = false /\
    kind_of t2 = KVar /\ accepts t t2 = true /\ ~ Assignable (kind_of t2) (erase t) (erase t2).
Proof.
  exists (TArr true TAny), (TArr false (TMap false (TArr true TNum))).
  repeat split; try reflexivity.
  rewrite <- assignable_b_iff. vm_compute. discriminate.
Qed.

(* parser-internal shapes the specification has no name for *)
Lemma accepts_generic_array t2 : accepts TGenArr t2 = is_array_name t2.
Proof. destruct t2; reflexivity. Qed.
Lemma accepts_generic_map t2 : accepts TGenMap t2 = is_map_name t2.
Proof. destruct t2; reflexivity. Qed.
Lemma accepts_none t : accepts t TNone = is_none t.
Proof. destruct t; reflexivity. Qed.

(* ---------- matches: the operands are the same type up to untyped empties ---------- *)
Definition unifiable (a b : sty) : bool := match unify a b with Some _ => true | None => false end.

Lemma unifiable_arr a b : unifiable (SArr a) (SArr b) = unifiable a b.
Proof.
  unfold unifiable; simpl. destruct (sty_eqb a b) eqn:E.
  - apply sty_eqb_eq in E; subst. rewrite unify_refl; reflexivity.
  - destruct (unify a b); reflexivity.
Qed.

Lemma unifiable_map a b : unifiable (SMap a) (SMap b) = unifiable a b.
Proof.
  unfold unifiable; simpl. destruct (sty_eqb a b) eqn:E.
  - apply sty_eqb_eq in E; subst. rewrite unify_refl; reflexivity.
  - destruct (unify a b); reflexivity.
Qed.

Lemma matches_unifiable : forall l r, spec_ty l = true -> spec_ty r = true ->
  matches l r = unifiable (erase l) (erase r).
Proof.
  induction l; intros r Hl Hr; destruct r; simpl in *; try discriminate; try reflexivity;
    rewrite ?unifiable_arr, ?unifiable_map; try (apply IHl; assumption);
    try (apply spec_not_none; assumption).
Qed.

Theorem matches_iff_operand_compatible l r :
  spec_ty l = true -> spec_ty r = true ->
  (matches l r = true <-> exists u, Unify (erase l) (erase r) u).
Proof.
  intros Hl Hr. rewrite matches_unifiable by assumption. unfold unifiable.
  destruct (unify (erase l) (erase r)) eqn:U.
  - split; [intros _; exists s; apply unify_iff; exact U | reflexivity].
  - split; [discriminate | intros [u Hu]; apply unify_iff in Hu; congruence].
Qed.

(* ---------- operator table ---------- *)
Lemma erase_num t : spec_ty t = true -> is_num t = sty_eqb (erase t) SNum.
Proof. destruct t; simpl; auto; discriminate. Qed.

Lemma validate_binary_spec op lt rt :
  spec_ty lt = true -> spec_ty rt = true ->
  validate_binary op lt rt = match op_type op (erase lt) (erase rt) with Some _ => true | None => false end.
Proof.
  intros Hl Hr. unfold validate_binary. rewrite matches_unifiable by assumption.
  unfold op_type, unifiable.
  destruct lt; simpl in Hl; try discriminate;
    destruct rt; simpl in Hr; try discriminate;
    destruct op; cbn -[unify];
    try reflexivity;
    try (rewrite unify_refl; reflexivity);
    try (destruct (unify _ _); reflexivity).
Qed.

(* acceptance: validateBinaryType appends no error exactly on the rows of the table *)
Theorem binop_accept_iff op lt rt :
  spec_ty lt = true -> spec_ty rt = true ->
  (validate_binary op lt rt = true <-> exists r, OpType op (erase lt) (erase rt) r).
Proof.
  intros Hl Hr. rewrite validate_binary_spec by assumption.
  destruct (op_type op (erase lt) (erase rt)) eqn:O.
  - split; [intros _; exists s; apply op_type_iff; exact O | reflexivity].
  - split; [discriminate | intros [r Hr']; apply op_type_iff in Hr'; congruence].
Qed.

Lemma closed_erase t : spec_ty t = true -> has_empty t = false -> closed (erase t) = true.
Proof. induction t; simpl; auto; discriminate. Qed.

Lemma unify_closed_left : forall a b u, unify a b = Some u -> closed a = true -> u = a.
Proof.
  induction a; intros b u H Hc; destruct b; simpl in *; try discriminate;
    try (inversion H; subst; reflexivity).
  - destruct (sty_eqb a b); [inversion H; reflexivity|].
    destruct (unify a b) eqn:U; simpl in H; [|discriminate]. inversion H; subst.
    f_equal. eapply IHa; eauto.
  - destruct (sty_eqb a b); [inversion H; reflexivity|].
    destruct (unify a b) eqn:U; simpl in H; [|discriminate]. inversion H; subst.
    f_equal. eapply IHa; eauto.
Qed.

Lemma unify_empty_left b u : unify SEmptyArr b = Some u -> u = b.
Proof. destruct b; simpl; intro H; inversion H; reflexivity. Qed.

Lemma equals_none_r l : equals l TNone = is_none l.
Proof. destruct l; reflexivity. Qed.

Lemma equals_erase : forall l r, spec_ty l = true -> spec_ty r = true ->
  equals l r = sty_eqb (erase l) (erase r).
Proof.
  induction l; intros r Hl Hr; destruct r; simpl in *; try discriminate; try reflexivity;
    try (apply IHl; assumption); try (apply spec_not_none; assumption);
    try (rewrite equals_none_r; apply spec_not_none; assumption).
Qed.

Lemma erase_merge_fixed : forall t t2, spec_ty t = true -> spec_ty t2 = true -> equals t t2 = true ->
  erase (merge_fixed t t2) = erase t.
Proof.
  induction t; intros t2 Hs Hs2 He; simpl;
    try (destruct (negb (has_fixed t2) || _); [reflexivity|]; simpl;
         rewrite equals_erase in He by assumption; apply sty_eqb_eq in He; simpl in He; congruence).
  - destruct (negb (has_fixed t2) || false) eqn:C; [reflexivity|].
    destruct (negb (fx || has_fixed t)) eqn:D.
    + rewrite equals_erase in He by assumption. apply sty_eqb_eq in He. simpl in He. congruence.
    + destruct t2; simpl in *; try discriminate; try reflexivity. f_equal. apply IHt; assumption.
  - destruct (negb (has_fixed t2) || false) eqn:C; [reflexivity|].
    destruct (negb (fx || has_fixed t)) eqn:D.
    + rewrite equals_erase in He by assumption. apply sty_eqb_eq in He. simpl in He. congruence.
    + destruct t2; simpl in *; try discriminate; try reflexivity. f_equal. apply IHt; assumption.
Qed.

(* result type.  [bnt0] is binary_node_type without the final fixedType (which
   does not change the erased type). *)
Definition bnt0 (op : binop) (lt rt : ty) : ty :=
  let exp := if is_comparison op then TBool else lt in
  if is_empty_arr exp && is_plus op then rt else exp.

Lemma erase_fixed_type t : erase (fixed_type t) = erase t.
Proof. destruct t; reflexivity. Qed.

Lemma spec_fixed_type t : spec_ty (fixed_type t) = spec_ty t.
Proof. destruct t; reflexivity. Qed.

Lemma bnt_erase op lt rt : spec_ty lt = true -> spec_ty rt = true ->
  erase (binary_node_type op lt rt) = erase (bnt0 op lt rt).
Proof.
  intros Hl Hr. unfold binary_node_type. fold (bnt0 op lt rt).
  assert (Hb : spec_ty (bnt0 op lt rt) = true).
  { unfold bnt0. destruct (is_comparison op); [destruct (_ && _); auto|]. destruct (_ && _); auto. }
  set (t1 := if is_plus op && is_array_name (bnt0 op lt rt) && equals (bnt0 op lt rt) rt
             then merge_fixed (bnt0 op lt rt) rt else bnt0 op lt rt).
  assert (E1 : erase t1 = erase (bnt0 op lt rt)).
  { unfold t1. destruct (is_plus op && is_array_name (bnt0 op lt rt) && equals (bnt0 op lt rt) rt) eqn:C; [|reflexivity].
    apply andb_true_iff in C as [_ C]. apply erase_merge_fixed; assumption. }
  destruct (is_array_name t1 && fixed rt); [rewrite erase_fixed_type|]; exact E1.
Qed.

(* before commit f8788c6: the T of the node was the table's result type only
   when the left operand has no untyped empty leaf, or is [] under "+" *)
Lemma binop_result_type_old op lt rt :
  spec_ty lt = true -> spec_ty rt = true ->
  validate_binary op lt rt = true ->
  (has_empty lt = false \/ (lt = TEmptyArr /\ op = OpPlus)) ->
  OpType op (erase lt) (erase rt) (erase (binary_node_type_old op lt rt)).
Proof.
  intros Hl Hr Hv Hg. rewrite validate_binary_spec in Hv by assumption.
  destruct (op_type op (erase lt) (erase rt)) eqn:O; [|discriminate]. clear Hv.
  apply op_type_iff. rewrite O. f_equal.
  destruct Hg as [He | [-> ->]].
  - assert (Hc := closed_erase lt Hl He).
    unfold op_type in O. unfold binary_node_type_old.
    destruct op; simpl in *;
      try (destruct (unify (erase lt) (erase rt)); inversion O; reflexivity);
      destruct lt; simpl in *; try discriminate;
      destruct rt; simpl in *; try discriminate; try (inversion O; reflexivity);
      try (match type of O with
           | (if ?c then _ else _) = _ => destruct c eqn:E; [inversion O; reflexivity|]
           end;
           match type of O with
           | option_map _ ?u = _ => destruct u eqn:U; simpl in O; [|discriminate]; inversion O; subst;
                                    f_equal; eapply unify_closed_left; eauto
           end).
  - simpl in *. apply unify_empty_left in O. exact O.
Qed.

(* the current parseBinaryExpr: the T of the node is the table's result type
   for every left operand that is the empty array literal or has no untyped
   empty leaf — [] * n included *)
Theorem binop_result_type op lt rt :
  spec_ty lt = true -> spec_ty rt = true ->
  validate_binary op lt rt = true ->
  (has_empty lt = false \/ lt = TEmptyArr) ->
  OpType op (erase lt) (erase rt) (erase (binary_node_type op lt rt)).
Proof.
  intros Hl Hr Hv Hg. rewrite bnt_erase by assumption. destruct Hg as [He | ->].
  - replace (bnt0 op lt rt) with (binary_node_type_old op lt rt).
    + apply binop_result_type_old; auto.
    + unfold binary_node_type_old, bnt0.
      destruct (is_comparison op); [reflexivity|].
      destruct lt; simpl in *; try reflexivity; discriminate.
  - rewrite validate_binary_spec in Hv by assumption.
    destruct (op_type op (erase TEmptyArr) (erase rt)) eqn:O; [|discriminate].
    apply op_type_iff. rewrite O. f_equal.
    unfold op_type in O. destruct op; simpl in *;
      try (destruct rt; simpl in *; try discriminate; inversion O; reflexivity);
      try discriminate.
Qed.



(* regression lemma about the code BEFORE f8788c6: [] * n was typed by its right operand *)
Lemma binop_result_type_before_fix_refuted :
  exists op lt rt, spec_ty lt = true /\ spec_ty rt = true /\ validate_binary op lt rt = true /\
    ~ OpType op (erase lt) (erase rt) (erase (binary_node_type_old op lt rt)).
Proof.
  exists OpAsterisk, TEmptyArr, TNum. repeat split; try reflexivity.
  intro H. apply op_type_iff in H. vm_compute in H. discriminate.
Qed.

(* unary operators *)
Theorem unop_type_table op t :
  spec_ty t = true ->
  (validate_unary op t = true <-> UnOpType op (erase t) (erase t)).
Proof.
  intro Ht. destruct op, t; simpl in *; try discriminate; split; intro H;
    try reflexivity; try discriminate; try constructor; inversion H.
Qed.

(* ---------- inference ---------- *)
Theorem infer_spec : forall t, spec_ty t = true ->
  exists t', infer t = Some t' /\ Defaults (erase t) (erase t') /\
             spec_ty t' = true /\ has_empty t' = false /\
             fixed t' = fixed t /\ has_fixed t' = has_fixed t.
Proof.
  induction t; intro H; simpl in *; try discriminate;
    try (eexists; repeat split; try reflexivity; constructor; fail).
  - destruct (IHt H) as (t' & E & D & S & Em & _ & HF). rewrite E.
    eexists; repeat split; simpl; try reflexivity; try assumption; try congruence. constructor; exact D.
  - destruct (IHt H) as (t' & E & D & S & Em & _ & HF). rewrite E.
    eexists; repeat split; simpl; try reflexivity; try assumption; try congruence. constructor; exact D.
Qed.

(* infer crashes (nil dereference) exactly on types containing a GENERIC node *)
Fixpoint has_generic (t : ty) : bool :=
  match t with TGenArr | TGenMap => true | TArr _ s | TMap _ s => has_generic s | _ => false end.

Lemma infer_none_iff t : infer t = None <-> has_generic t = true.
Proof.
  induction t; simpl; try (split; discriminate); try tauto.
  - destruct (infer t); [split; [discriminate | intro H; apply IHt in H; discriminate] | tauto].
  - destruct (infer t); [split; [discriminate | intro H; apply IHt in H; discriminate] | tauto].
Qed.

(* ---------- index / slice / dot / type assertion ---------- *)
Theorem index_rule lt it s :
  spec_ty lt = true -> spec_ty it = true -> is_empty lt = false ->
  (IndexType (erase lt) (erase it) s <-> exists t, index_type lt it = Some t /\ erase t = s).
Proof.
  intros Hl Hi He. unfold index_type.
  destruct lt; simpl in *; try discriminate;
    destruct it; simpl in *; try discriminate;
    split; intro H;
    try (inversion H; subst; eexists; split; reflexivity);
    try (destruct H as [t [H1 H2]]; try discriminate; inversion H1; subst; constructor);
    try (inversion H; fail).
Qed.

Definition bound_ok (o : option ty) : bool := match o with Some t => is_num t | None => true end.

Theorem slice_rule lt st et :
  spec_ty lt = true ->
  slice_type lt st et =
    if bound_ok st && bound_ok et && is_array_b (erase lt) || bound_ok st && bound_ok et && sty_eqb (erase lt) SString
    then Some lt else None.
Proof.
  intros Hl. unfold slice_type, bound_ok.
  destruct lt; simpl in *; try discriminate;
    destruct st as [[]|], et as [[]|]; reflexivity.
Qed.

Lemma slice_type_spec a : (exists r, SliceType a r) <-> (is_array_b a = true \/ a = SString).
Proof.
  split.
  - intros [r H]; inversion H; subst; simpl; auto.
  - intros [H | ->]; [destruct a; try discriminate; eexists; constructor | eexists; constructor].
Qed.

Theorem dot_rule lt s :
  spec_ty lt = true -> is_empty lt = false ->
  (DotType (erase lt) s <-> exists t, dot_type lt = Some t /\ erase t = s).
Proof.
  intros Hl He. unfold dot_type.
  destruct lt; simpl in *; try discriminate; split; intro H;
    try (inversion H; subst; eexists; split; reflexivity);
    try (destruct H as [t [H1 H2]]; try discriminate; inversion H1; subst; constructor);
    try (inversion H; fail).
Qed.

Lemma closed_embed_iff s : closed s = true -> has_empty (embed s) = false.
Proof. induction s; simpl; auto; discriminate. Qed.

Theorem assert_rule lt s :
  spec_ty lt = true -> closed s = true ->
  (validate_assert lt (embed s) = true <-> AssertOk (erase lt) s).
Proof.
  intros Hl Hc. unfold validate_assert, AssertOk.
  rewrite andb_true_iff, negb_true_iff.
  rewrite (is_any_erase lt Hl), (is_any_erase (embed s) (spec_embed s)), erase_embed.
  rewrite sty_eqb_eq, sty_eqb_neq. tauto.
Qed.

(* ---------- combineTypes on constants: the strictest common type ---------- *)


Lemma cjoin_comm : forall a b, cjoin a b = cjoin b a.
Proof.
  induction a; intro b; destruct b; simpl; try reflexivity.
  - destruct (sty_eqb a b) eqn:E.
    + apply sty_eqb_eq in E; subst. rewrite sty_eqb_refl; reflexivity.
    + assert (E' : sty_eqb b a = false) by (apply sty_eqb_neq; apply sty_eqb_neq in E; congruence).
      rewrite E'. f_equal; apply IHa.
  - destruct (sty_eqb a b) eqn:E.
    + apply sty_eqb_eq in E; subst. rewrite sty_eqb_refl; reflexivity.
    + assert (E' : sty_eqb b a = false) by (apply sty_eqb_neq; apply sty_eqb_neq in E; congruence).
      rewrite E'. f_equal; apply IHa.
Qed.

Lemma cjoin_eq a b : sty_eqb a b = true -> cjoin a b = a.
Proof. intro E. destruct a; simpl; rewrite ?E; try reflexivity; destruct b; simpl in *; try discriminate; rewrite ?E; reflexivity. Qed.

Lemma const_sub f s : const_ty (TArr f s) = true -> f = false /\ const_ty s = true.
Proof.
  unfold const_ty; simpl. intro H. apply andb_true_iff in H as [H1 H2]. apply negb_true_iff in H2.
  apply orb_false_iff in H2 as [-> H2]. split; [reflexivity|]. rewrite H1, H2; reflexivity.
Qed.
Lemma const_sub_map f s : const_ty (TMap f s) = true -> f = false /\ const_ty s = true.
Proof.
  unfold const_ty; simpl. intro H. apply andb_true_iff in H as [H1 H2]. apply negb_true_iff in H2.
  apply orb_false_iff in H2 as [-> H2]. split; [reflexivity|]. rewrite H1, H2; reflexivity.
Qed.
Lemma const_spec t : const_ty t = true -> spec_ty t = true.
Proof. unfold const_ty; intro H; apply andb_true_iff in H as [H _]; exact H. Qed.

Lemma const_nofix t : const_ty t = true -> has_fixed t = false.
Proof. unfold const_ty; intro H; apply andb_true_iff in H as [_ H]; apply negb_true_iff in H; exact H. Qed.

Lemma merge_fixed_nofix t t2 : has_fixed t2 = false -> merge_fixed t t2 = t.
Proof. intro H. destruct t; simpl; rewrite H; reflexivity. Qed.

Lemma const_arr s : const_ty s = true -> const_ty (TArr false s) = true.
Proof. unfold const_ty; simpl; auto. Qed.
Lemma const_map s : const_ty s = true -> const_ty (TMap false s) = true.
Proof. unfold const_ty; simpl; auto. Qed.

Lemma comb_const : forall a b sw, const_ty a = true -> const_ty b = true ->
  exists r, comb sw a b = Some r /\ const_ty r = true /\ erase r = cjoin (erase a) (erase b).
Proof.
  induction a; intros b sw Ha Hb; try discriminate Ha.
  all: try (destruct b; try discriminate Hb;
            try (apply const_sub in Hb as [-> Hb]); try (apply const_sub_map in Hb as [-> Hb]);
            destruct sw; simpl;
            try rewrite (spec_not_none _ (const_spec _ Hb)); simpl;
            eexists; (split; [reflexivity | split; [assumption || reflexivity | reflexivity]]); fail).
  - (* TArr *)
    apply const_sub in Ha as [-> Ha].
    destruct b; try discriminate Hb;
      try (try (apply const_sub_map in Hb as [-> Hb]);
           destruct sw; simpl; eexists; (split; [reflexivity | split; [reflexivity | reflexivity]]); fail).
    + apply const_sub in Hb as [-> Hb].
      destruct (IHa b (negb sw) Ha Hb) as (r & E & C & ER).
      assert (Eq : equals (TArr false a) (TArr false b) = sty_eqb (erase a) (erase b)).
      { simpl. apply equals_erase; apply const_spec; assumption. }
      assert (Eq' : equals (TArr false b) (TArr false a) = sty_eqb (erase a) (erase b)).
      { simpl. rewrite equals_erase by (apply const_spec; assumption).
        destruct (sty_eqb (erase a) (erase b)) eqn:X.
        - apply sty_eqb_eq in X; rewrite X; apply sty_eqb_refl.
        - apply sty_eqb_neq; apply sty_eqb_neq in X; congruence. }
      destruct sw; cbn [comb]; cbv zeta; [rewrite Eq' | rewrite Eq];
        destruct (sty_eqb (erase a) (erase b)) eqn:X;
        rewrite ?(merge_fixed_nofix _ _ (const_nofix _ (const_arr _ Ha))), ?(merge_fixed_nofix _ _ (const_nofix _ (const_arr _ Hb))).
      * eexists; split; [reflexivity|]. split.
        { unfold const_ty in *; simpl; exact Hb. }
        { simpl. rewrite X. apply sty_eqb_eq in X. rewrite X. reflexivity. }
      * simpl. simpl in E. rewrite E. eexists; split; [reflexivity|]. split.
        { unfold const_ty in *; simpl; exact C. }
        { simpl. rewrite X, ER. reflexivity. }
      * eexists; split; [reflexivity|]. split.
        { unfold const_ty in *; simpl; exact Ha. }
        { simpl. rewrite X. reflexivity. }
      * simpl. simpl in E. rewrite E. eexists; split; [reflexivity|]. split.
        { unfold const_ty in *; simpl; exact C. }
        { simpl. rewrite X, ER. reflexivity. }
    + destruct sw; simpl; rewrite ?equals_none_r, ?(spec_not_none _ (const_spec _ Ha)); simpl;
        eexists; (split; [reflexivity|]); split; try reflexivity;
        unfold const_ty in *; simpl; exact Ha.
  - (* TMap *)
    apply const_sub_map in Ha as [-> Ha].
    destruct b; try discriminate Hb;
      try (try (apply const_sub in Hb as [-> Hb]);
           destruct sw; simpl; eexists; (split; [reflexivity | split; [reflexivity | reflexivity]]); fail).
    + apply const_sub_map in Hb as [-> Hb].
      destruct (IHa b (negb sw) Ha Hb) as (r & E & C & ER).
      assert (Eq : equals (TMap false a) (TMap false b) = sty_eqb (erase a) (erase b)).
      { simpl. apply equals_erase; apply const_spec; assumption. }
      assert (Eq' : equals (TMap false b) (TMap false a) = sty_eqb (erase a) (erase b)).
      { simpl. rewrite equals_erase by (apply const_spec; assumption).
        destruct (sty_eqb (erase a) (erase b)) eqn:X.
        - apply sty_eqb_eq in X; rewrite X; apply sty_eqb_refl.
        - apply sty_eqb_neq; apply sty_eqb_neq in X; congruence. }
      destruct sw; cbn [comb]; cbv zeta; [rewrite Eq' | rewrite Eq];
        destruct (sty_eqb (erase a) (erase b)) eqn:X;
        rewrite ?(merge_fixed_nofix _ _ (const_nofix _ (const_map _ Ha))), ?(merge_fixed_nofix _ _ (const_nofix _ (const_map _ Hb))).
      * eexists; split; [reflexivity|]. split.
        { unfold const_ty in *; simpl; exact Hb. }
        { simpl. rewrite X. apply sty_eqb_eq in X. rewrite X. reflexivity. }
      * simpl. simpl in E. rewrite E. eexists; split; [reflexivity|]. split.
        { unfold const_ty in *; simpl; exact C. }
        { simpl. rewrite X, ER. reflexivity. }
      * eexists; split; [reflexivity|]. split.
        { unfold const_ty in *; simpl; exact Ha. }
        { simpl. rewrite X. reflexivity. }
      * simpl. simpl in E. rewrite E. eexists; split; [reflexivity|]. split.
        { unfold const_ty in *; simpl; exact C. }
        { simpl. rewrite X, ER. reflexivity. }
    + destruct sw; simpl; rewrite ?equals_none_r, ?(spec_not_none _ (const_spec _ Ha)); simpl;
        eexists; (split; [reflexivity|]); split; try reflexivity;
        unfold const_ty in *; simpl; exact Ha.
  - destruct b; try discriminate Hb;
      try (apply const_sub in Hb as [-> Hb]); try (apply const_sub_map in Hb as [-> Hb]);
      destruct sw; simpl; rewrite ?equals_none_r, ?(spec_not_none _ (const_spec _ Hb)); simpl;
      eexists; (split; [reflexivity|]); split; try reflexivity;
      unfold const_ty in *; simpl; try exact Hb.
  - destruct b; try discriminate Hb;
      try (apply const_sub in Hb as [-> Hb]); try (apply const_sub_map in Hb as [-> Hb]);
      destruct sw; simpl; rewrite ?equals_none_r, ?(spec_not_none _ (const_spec _ Hb)); simpl;
      eexists; (split; [reflexivity|]); split; try reflexivity;
      unfold const_ty in *; simpl; try exact Hb.
Qed.


(* ---------- combineTypes on variables, constants and empty literals ---------- *)
Definition abs (t : ty) : kind * sty := (kind_of t, erase t).
Definition aeq (e1 e2 : kind * sty) : Prop := forall T, Asg e1 T <-> Asg e2 T.

Lemma aeq_refl e : aeq e e.
Proof. intro T; tauto. Qed.

Lemma asg_any k T : Assignable k T SAny <-> T = SAny.
Proof.
  split.
  - inversion 1; subst; auto. apply converts_any_inv; assumption.
  - intros ->; constructor.
Qed.

Lemma aeq_any k1 k2 : aeq (k1, SAny) (k2, SAny).
Proof. intro T; unfold Asg; simpl. rewrite !asg_any. tauto. Qed.

Lemma abs_const t : const_ty t = true -> abs t = (KConst, erase t).
Proof. intro H. unfold abs, kind_of. rewrite (const_nofix t H). reflexivity. Qed.

Lemma abs_var t : var_ty t = true -> abs t = (KVar, erase t).
Proof. intro H. apply var_ty_inv in H as (_ & _ & _ & H). unfold abs, kind_of. rewrite H. reflexivity. Qed.

Lemma nofix_fixed t : has_fixed t = false -> fixed t = false.
Proof. destruct t; simpl; auto; intro H; apply orb_false_iff in H as [H _]; exact H. Qed.

Lemma pure_spec t : pure_ty t = true -> spec_ty t = true.
Proof.
  unfold pure_ty. intro H. apply orb_true_iff in H as [H | H].
  - apply const_spec; exact H.
  - apply var_ty_inv in H as [H _]; exact H.
Qed.

Lemma comb_equal c t : equals c t = true -> comb false c t = Some (merge_fixed c t).
Proof. intro H. destruct c; cbn [comb]; cbv zeta; rewrite H; reflexivity. Qed.

Lemma comb_fixed c t : equals c t = false -> fixed t || fixed c = true ->
  comb false c t = Some (if fixed c && negb (fixed t) && accepts c t then c
                         else if fixed t && negb (fixed c) && accepts t c then t else TAny).
Proof.
  intros H H0. destruct c; cbn [comb]; cbv zeta; rewrite H, H0;
    destruct (_ && _ && accepts _ t); try reflexivity; destruct (_ && _ && accepts t _); reflexivity.
Qed.

Lemma sty_eqb_sym a b : sty_eqb a b = sty_eqb b a.
Proof.
  destruct (sty_eqb a b) eqn:E.
  - apply sty_eqb_eq in E; subst; symmetry; apply sty_eqb_refl.
  - symmetry; apply sty_eqb_neq; apply sty_eqb_neq in E; congruence.
Qed.

Lemma merge_fixed_var_const c t : has_fixed c = false -> var_ty t = true -> merge_fixed c t = t.
Proof.
  intros Hc Hv. assert (H := Hv). apply var_ty_inv in H as (_ & _ & _ & Ht).
  unfold var_ty in Hv. destruct t; try (rewrite andb_false_r in Hv; discriminate).
  - destruct c; simpl in *; rewrite Ht; simpl; try reflexivity; rewrite Hc; reflexivity.
  - destruct c; simpl in *; rewrite Ht; simpl; try reflexivity; rewrite Hc; reflexivity.
Qed.

Lemma var_form t : var_ty t = true ->
  exists s, (t = TArr true s \/ t = TMap true s) /\ has_fixed s = false.
Proof.
  unfold var_ty. intro H. apply andb_true_iff in H as [_ H].
  destruct t; try discriminate; destruct fx; try discriminate; apply negb_true_iff in H; eauto.
Qed.

Lemma merge_fixed_var_var c t : var_ty c = true -> var_ty t = true -> equals c t = true -> merge_fixed c t = c.
Proof.
  intros Hc Ht He.
  destruct (var_form c Hc) as (cs & [-> | ->] & Hcs); destruct (var_form t Ht) as (ts & [-> | ->] & Hts);
    simpl in He; try discriminate; simpl; rewrite (merge_fixed_nofix cs ts Hts); reflexivity.
Qed.

(* one loop iteration of combineTypes is the specification's least common
   element type of the two elements (up to the kind of the type any) *)
Lemma combine2_pure c t : pure_ty c = true -> pure_ty t = true ->
  exists r, combine2 c t = Some r /\ pure_ty r = true /\ aeq (abs r) (sjoin (abs c) (abs t)).
Proof.
  intros Pc Pt. assert (Sc := pure_spec c Pc). assert (St := pure_spec t Pt).
  assert (Eq := equals_erase c t Sc St).
  unfold pure_ty in Pc, Pt. apply orb_true_iff in Pc as [Cc | Vc]; apply orb_true_iff in Pt as [Ct | Vt].
  - (* const const *)
    destruct (comb_const c t false Cc Ct) as (r & E & C & ER). exists r. split; [exact E|].
    split; [unfold pure_ty; rewrite C; reflexivity|].
    rewrite (abs_const r C), (abs_const c Cc), (abs_const t Ct), ER. simpl. apply aeq_refl.
  - (* const var *)
    assert (Fc := nofix_fixed c (const_nofix c Cc)).
    assert (Vt' := Vt). apply var_ty_inv in Vt' as (_ & _ & Ft & HFt).
    rewrite (abs_const c Cc), (abs_var t Vt). unfold combine2. simpl.
    destruct (equals c t) eqn:E.
    + rewrite (comb_equal c t E), (merge_fixed_var_const c t (const_nofix c Cc) Vt).
      exists t. split; [reflexivity|]. split; [unfold pure_ty; rewrite Vt; apply orb_true_r|].
      rewrite (abs_var t Vt). symmetry in Eq. apply sty_eqb_eq in Eq. rewrite Eq, conv_b_refl. apply aeq_refl.
    + rewrite (comb_fixed c t E) by (rewrite Ft; reflexivity). rewrite Fc, Ft. simpl.
      unfold accepts. rewrite (accepts_from_const t c true St Sc (const_nofix c Cc)).
      destruct (conv_b (erase c) (erase t)).
      * exists t. split; [reflexivity|]. split; [unfold pure_ty; rewrite Vt; apply orb_true_r|].
        rewrite (abs_var t Vt). apply aeq_refl.
      * exists TAny. split; [reflexivity|]. split; [reflexivity|]. apply aeq_any.
  - (* var const *)
    assert (Ft := nofix_fixed t (const_nofix t Ct)).
    assert (Vc' := Vc). apply var_ty_inv in Vc' as (_ & _ & Fc & HFc).
    rewrite (abs_var c Vc), (abs_const t Ct). unfold combine2. simpl.
    destruct (equals c t) eqn:E.
    + rewrite (comb_equal c t E), (merge_fixed_nofix c t (const_nofix t Ct)).
      exists c. split; [reflexivity|]. split; [unfold pure_ty; rewrite Vc; apply orb_true_r|].
      rewrite (abs_var c Vc). symmetry in Eq. apply sty_eqb_eq in Eq. rewrite <- Eq, conv_b_refl. apply aeq_refl.
    + rewrite (comb_fixed c t E) by (rewrite Fc; apply orb_true_r). rewrite Fc, Ft. simpl.
      unfold accepts. rewrite (accepts_from_const c t true Sc St (const_nofix t Ct)).
      destruct (conv_b (erase t) (erase c)).
      * exists c. split; [reflexivity|]. split; [unfold pure_ty; rewrite Vc; apply orb_true_r|].
        rewrite (abs_var c Vc). apply aeq_refl.
      * exists TAny. split; [reflexivity|]. split; [reflexivity|]. apply aeq_any.
  - (* var var *)
    assert (Vc' := Vc). apply var_ty_inv in Vc' as (_ & _ & Fc & HFc).
    assert (Vt' := Vt). apply var_ty_inv in Vt' as (_ & _ & Ft & HFt).
    rewrite (abs_var c Vc), (abs_var t Vt). unfold combine2. simpl.
    destruct (equals c t) eqn:E.
    + rewrite (comb_equal c t E), (merge_fixed_var_var c t Vc Vt E).
      exists c. split; [reflexivity|]. split; [unfold pure_ty; rewrite Vc; apply orb_true_r|].
      rewrite (abs_var c Vc). rewrite <- Eq. apply aeq_refl.
    + rewrite (comb_fixed c t E) by (rewrite Fc; apply orb_true_r). rewrite Fc, Ft. simpl.
      exists TAny. split; [reflexivity|]. split; [reflexivity|].
      rewrite <- Eq. apply aeq_any.
Qed.

Lemma combine_from_pure : forall ts c, pure_ty c = true -> Forall (fun t => pure_ty t = true) ts ->
  exists r, combine_from c ts = Some r /\ pure_ty r = true /\
    forall T, Asg (abs r) T <-> (Asg (abs c) T /\ forall t, In t ts -> Asg (abs t) T).
Proof.
  induction ts as [|t ts IH]; intros c Pc Hts; simpl.
  - exists c. split; [reflexivity|]. split; [exact Pc|]. intro T. split; [intro H; split; [exact H | intros t []] | intros [H _]; exact H].
  - inversion Hts; subst.
    destruct (combine2_pure c t Pc H1) as (r & E & Pr & A). rewrite E.
    destruct (IH r Pr H2) as (r' & E' & Pr' & U). exists r'. split; [exact E'|]. split; [exact Pr'|].
    intro T. rewrite U, (A T), sjoin_ub. split.
    + intros [[Hc Ht] Hr]. split; [exact Hc|]. intros x [<- | Hx]; auto.
    + intros [Hc Hr]. split; [split; auto|]. intros x Hx; auto.
Qed.

(* THE inference theorem for the current combineTypes: for elements that are
   variables, constants or empty literals (any number, any types, any depth)
   it does not crash and returns the specification's Strictest element type *)
Theorem combine_strictest ts :
  ts <> [] -> Forall (fun t => pure_ty t = true) ts ->
  exists r, combine ts = Some r /\ pure_ty r = true /\ Strictest (map abs ts) (erase r).
Proof.
  intros Hne Hts. destruct ts as [|c ts]; [contradiction|]. inversion Hts; subst.
  destruct (combine_from_pure ts c H1 H2) as (r & E & Pr & U).
  exists r. split; [exact E|]. split; [exact Pr|].
  assert (Hr : Asg (abs r) (erase r)) by (unfold Asg; simpl; constructor).
  apply U in Hr as [Hc Hr]. split.
  - intros e He. simpl in He. destruct He as [<- | He]; [exact Hc|].
    apply in_map_iff in He as [t [<- Ht]]. apply Hr; exact Ht.
  - intros T' HT'. change (erase r) with (snd (abs r)). apply asg_converts. apply U. split.
    + apply HT'. left; reflexivity.
    + intros t Ht. apply HT'. right. apply in_map; exact Ht.
Qed.

(* every element is accepted by the combined type: what wrapAny relies on *)
Corollary combine_upper_bound ts r :
  Forall (fun t => pure_ty t = true) ts -> combine ts = Some r ->
  forall t, In t ts -> accepts r t = true.
Proof.
  intros Hts E t Ht.
  assert (Hne : ts <> []) by (intro; subst; discriminate).
  destruct (combine_strictest ts Hne Hts) as (r' & E' & Pr & [UB _]). rewrite E in E'; inversion E'; subst r'.
  apply accepts_iff_assignable; [apply pure_spec; exact Pr | rewrite Forall_forall in Hts; apply Hts; exact Ht|].
  apply (UB (abs t)). apply in_map; exact Ht.
Qed.

(* invariant under any reordering of the elements *)
Theorem combine_perm ts ts' r r' :
  (forall t, In t ts <-> In t ts') ->
  Forall (fun t => pure_ty t = true) ts -> Forall (fun t => pure_ty t = true) ts' ->
  combine ts = Some r -> combine ts' = Some r' -> erase r = erase r'.
Proof.
  intros P H H' E E'.
  assert (Hne : ts <> []) by (intro; subst; discriminate).
  assert (Hne' : ts' <> []) by (intro; subst; discriminate).
  destruct (combine_strictest ts Hne H) as (x & Ex & _ & Sx).
  destruct (combine_strictest ts' Hne' H') as (x' & Ex' & _ & Sx').
  rewrite E in Ex; inversion Ex; subst x. rewrite E' in Ex'; inversion Ex'; subst x'.
  eapply Strictest_unique; [exact Sx|].
  eapply Strictest_perm; [|exact Sx'].
  intro e. rewrite !in_map_iff. split; intros [t [<- Ht]]; exists t; split; auto; apply P; auto.
Qed.

(* ---------- regression lemmas about combineTypes BEFORE commit 0e214ac ---------- *)
Lemma combine_strictest_before_fix_refuted :
  exists ts r, Forall (fun t => pure_ty t = true) ts /\ combine_old ts = Some r /\
    exists t, In t ts /\ accepts r t = false.
Proof.
  exists [TArr false TNum; TArr true TNum; TArr false TString], (TArr false TAny).
  split; [repeat constructor|]. split; [reflexivity|].
  exists (TArr true TNum). split; [simpl; auto | reflexivity].
Qed.

Lemma combine_perm_before_fix_refuted :
  exists ts ts' r r', (forall t, In t ts <-> In t ts') /\
    Forall (fun t => pure_ty t = true) ts /\
    combine_old ts = Some r /\ combine_old ts' = Some r' /\ erase r <> erase r'.
Proof.
  exists [TArr false TNum; TArr true TNum; TArr false TString],
         [TArr true TNum; TArr false TNum; TArr false TString],
         (TArr false TAny), TAny.
  split; [intro t; simpl; tauto|]. split; [repeat constructor|].
  split; [reflexivity|]. split; [reflexivity|]. discriminate.
Qed.

Lemma combine_not_strictest_before_fix_refuted :
  exists ts r, Forall (fun t => pure_ty t = true) ts /\ combine_old ts = Some r /\
    ~ Strictest (map abs ts) (erase r).
Proof.
  exists [TArr true TNum; TEmptyArr], TAny.
  split; [repeat constructor|]. split; [reflexivity|].
  intros [_ L].
  assert (H : Converts SAny (SArr SNum)).
  { apply L. intros e [<- | [<- | []]]; simpl; [constructor | apply As_conv; constructor]. }
  inversion H.
Qed.

(* ---------- wrapAny ---------- *)
(* wrap_total would say: whenever the parser built node n without error and
   accepts target (type of n), wrapAny n target does not panic.  After commits
   48eed77, a303004, 3a7bc1f every non-literal result is Fixed and wrapAny looks
   into groups, concatenations, repetitions and slices; what is left is the
   concatenation whose LEFT operand has a nested untyped empty: its type is the
   left operand's ([][]), accepts lets it through for any [][]T, and wrapAny
   then tries to retype the right operand too.
   Witness:  t:[][]string ; t = [[]]+[[1]]   *)
Lemma wrap_total_refuted :
  exists e n target, tc e = ONode n false /\ accepts target (node_type n) = true /\ wrap_any n target = None.
Proof.
  exists (EBin OpPlus (EArr [EArr []]) (EArr [EArr [ELitNum]])). eexists.
  exists (TArr true (TArr false TString)).
  split; [vm_compute; reflexivity|]. split; vm_compute; reflexivity.
Qed.

(* regression: the witnesses of the earlier rounds no longer crash *)
Lemma wrap_former_witnesses_ok :
  check (CAssign (SArr SAny)) (ECall (SArr SNum)) = Reject /\
  check (CAssign (SArr SAny)) (EIndex (EVar (SArr (SArr SNum))) ELitNum) = Reject /\
  check CDecl (ESlice (EArr []) None None) = Accept (TArr true TAny) (TArr true TAny) /\
  check CDecl (EBin OpPlus (EMap []) ELitNum) = Reject.
Proof. vm_compute. repeat split; reflexivity. Qed.

(* what IS total: values whose type is rigid (basic types, any, variables and
   everything Fixed) are never converted, only wrapped in Any or passed through *)
Definition rigid (t : ty) : bool :=
  match t with
  | TArr f _ | TMap f _ => f
  | TEmptyArr | TEmptyMap | TGenArr | TGenMap => false
  | _ => true
  end.

Lemma accepts_from_fixed_equals : forall l r rf,
  has_generic l = false -> has_empty r = false -> rf || fixed r = true ->
  accepts_from false rf l r = true -> equals l r = true.
Proof.
  induction l; intros r rf Hg He Hx H; destruct r; simpl in *; try discriminate; try reflexivity;
    try (rewrite Hx in H; simpl in H; try discriminate);
    try (eapply IHl; eauto; apply orb_true_l); try exact H.
Qed.

Theorem wrap_total_rigid t target :
  rigid t = true -> has_empty t = false -> has_generic target = false \/ is_generic target = true ->
  accepts target t = true -> exists n', wrap_any (NLeaf t) target = Some n'.
Proof.
  intros Hr He Hg Ha. unfold wrap_any. simpl.
  destruct (equals target t) eqn:E; [eauto|].
  destruct (is_any target) eqn:A; [eauto|].
  destruct (is_generic target) eqn:G; [eauto|].
  exfalso. destruct Hg as [Hg | Hg]; [|discriminate].
  unfold accepts in Ha.
  destruct target; simpl in *; try discriminate;
    destruct t; simpl in *; try discriminate;
    subst; simpl in *;
    try (apply accepts_from_fixed_equals in Ha; auto; congruence);
    try congruence.
Qed.

(* every expression form that is not a composite literal, group, binary
   expression or slice yields a node of rigid type on the current tree
   (a303004): wrap_total_rigid applies to all of them *)
Definition annot_closed (e : expr) : bool :=
  match e with EVar t | ECall t | EAssert _ t => closed t | _ => true end.

Lemma infer_no_empty : forall t t', infer t = Some t' -> has_empty t' = false /\ has_generic t' = false.
Proof.
  induction t; intros t' H; simpl in H; try (inversion H; subst; split; reflexivity); try discriminate.
  - destruct (infer t) eqn:E; [|discriminate]. inversion H; subst. simpl. apply IHt; reflexivity.
  - destruct (infer t) eqn:E; [|discriminate]. inversion H; subst. simpl. apply IHt; reflexivity.
Qed.

Lemma rigid_fixed_type t : has_empty t = false -> has_generic t = false ->
  rigid (fixed_type t) = true /\ has_empty (fixed_type t) = false.
Proof. destruct t; simpl; intros; try discriminate; auto. Qed.

Lemma embed_no_generic s : has_generic (embed s) = false.
Proof. induction s; simpl; auto. Qed.

Lemma range_var_rigid t vt : range_var_type t = Some (Some vt) -> rigid vt = true /\ has_empty vt = false.
Proof.
  unfold range_var_type. destruct (name t) eqn:N; try discriminate;
    try (intro H; inversion H; subst; auto; fail).
  destruct (infer t) eqn:I; [|discriminate]. apply infer_no_empty in I as [I1 I2].
  destruct t0; simpl; try discriminate; intro H; inversion H; subst; simpl in I1, I2;
    apply rigid_fixed_type; assumption.
Qed.

Theorem tc_leaf_rigid e t err :
  annot_closed e = true -> tc e = ONode (NLeaf t) err -> rigid t = true /\ has_empty t = false.
Proof.
  intros Hc H. destruct e; simpl in *.
  - inversion H; subst; auto.
  - inversion H; subst; auto.
  - inversion H; subst; auto.
  - inversion H; subst. apply rigid_fixed_type; [apply closed_embed_iff; exact Hc | apply embed_no_generic].
  - inversion H; subst. apply rigid_fixed_type; [apply closed_embed_iff; exact Hc | apply embed_no_generic].
  - destruct (seq_outcomes (map tc els)) as [[[ns er]|]|]; try discriminate.
    destruct ns; [discriminate|]. destruct (combine _); [|discriminate]. destruct (wrap_all _ _); discriminate.
  - destruct (seq_outcomes (map tc els)) as [[[ns er]|]|]; try discriminate.
    destruct ns; [discriminate|]. destruct (combine _); [|discriminate]. destruct (wrap_all _ _); discriminate.
  - destruct (tc e1); simpl in H; try discriminate. destruct (tc e2); simpl in H; try discriminate.
    destruct (validate_binary _ _ _); discriminate.
  - destruct (tc e); simpl in H; try discriminate.
    destruct (validate_unary op (node_type n)) eqn:V; [|discriminate]. inversion H; subst.
    destruct op, (node_type n); simpl in V; try discriminate; auto.
  - destruct (tc e); simpl in H; discriminate.
  - destruct (tc e1); simpl in H; try discriminate.
    destruct (negb _); [discriminate|]. destruct (tc e2); simpl in H; try discriminate.
    destruct (index_type _ _); [|destruct (is_generic _); discriminate].
    destruct (infer t0) eqn:I; [|discriminate]. inversion H; subst.
    apply infer_no_empty in I as [I1 I2]. apply rigid_fixed_type; assumption.
  - destruct (tc e); simpl in H; try discriminate.
    destruct (negb _); [discriminate|].
    destruct s as [s|]; [destruct (tc s)|]; try discriminate;
      (destruct (negb _); [discriminate|]);
      (destruct e0 as [e0|]; [destruct (tc e0)|]; try discriminate);
      destruct (slice_type _ _ _); discriminate.
  - destruct (tc e); simpl in H; try discriminate.
    destruct (dot_type _); [|destruct (is_generic _); discriminate].
    destruct (infer t0) eqn:I; [|discriminate]. inversion H; subst.
    apply infer_no_empty in I as [I1 I2]. apply rigid_fixed_type; assumption.
  - destruct (tc e); simpl in H; try discriminate. inversion H; subst.
    apply rigid_fixed_type; [apply closed_embed_iff; exact Hc | apply embed_no_generic].
  - destruct (tc e); simpl in H; try discriminate.
    destruct (range_var_type (node_type n)) as [[vt|]|] eqn:R; try discriminate; inversion H; subst; auto.
    eapply range_var_rigid; eauto.
Qed.



(* ---------- assignment targets: parseAssignmentTarget against spec.md "Assignments" ---------- *)
Definition erase_step (k : kstep) : sstep :=
  match k with KIdx it => SKIdx (erase it) | KDot => SKDot | KSlice => SKSlice | KAssert => SKAssert end.
Definition spec_step (k : kstep) : bool := match k with KIdx it => spec_ty it | _ => true end.

Lemma infer_id : forall t, spec_ty t = true -> has_empty t = false -> infer t = Some t.
Proof.
  induction t; simpl; intros Hs He; try discriminate; try reflexivity.
  - rewrite (IHt Hs He); reflexivity.
  - rewrite (IHt Hs He); reflexivity.
Qed.

Lemma fixed_type_keeps t : spec_ty (fixed_type t) = spec_ty t /\ has_empty (fixed_type t) = has_empty t.
Proof. destruct t; simpl; auto. Qed.

Lemma target_step_spec t k :
  spec_ty t = true -> has_empty t = false -> spec_step k = true ->
  match target_step_s (erase t) (erase_step k) with
  | Some s => exists T, target_step t k = Some (Some T) /\ erase T = s /\ spec_ty T = true /\ has_empty T = false
  | None => target_step t k = Some None
  end.
Proof.
  intros Hs He Hk.
  destruct t; simpl in Hs, He; try discriminate;
    destruct k as [it| | |]; simpl in Hk; try reflexivity;
    try (destruct it; simpl in Hk; try discriminate; try reflexivity);
    simpl; unfold index_type, dot_type; simpl;
    try (rewrite (infer_id _ Hs He);
         eexists; split; [reflexivity|]; split; [apply erase_fixed_type|];
         destruct (fixed_type_keeps t) as [A B]; rewrite A, B; auto).
Qed.

(* THE target theorem, for all root types and all chains: the chain is a
   target by spec.md (a variable, an indexed array, a map field — never a
   character of a string, a slice or a type assertion) exactly when
   parseAssignmentTarget builds a node, and the node's type is the target's *)
Theorem target_ok_iff : forall ks t,
  spec_ty t = true -> has_empty t = false -> forallb spec_step ks = true ->
  forall s, (TargetChain (erase t) (map erase_step ks) s <->
             exists T, target_chain t ks = Some (Some T) /\ erase T = s).
Proof.
  induction ks as [|k ks IH]; intros t Hs He Hk s; simpl.
  - split.
    + inversion 1; subst. eexists; split; reflexivity.
    + intros [T [E <-]]. inversion E; subst. constructor.
  - simpl in Hk. apply andb_true_iff in Hk as [Hk1 Hk2].
    rewrite <- target_chain_s_iff. simpl.
    assert (St := target_step_spec t k Hs He Hk1).
    destruct (target_step_s (erase t) (erase_step k)) as [s1|].
    + destruct St as (T1 & E1 & <- & S1 & N1). rewrite E1.
      rewrite target_chain_s_iff. apply IH; assumption.
    + rewrite St. split; [discriminate | intros [T [E _]]; discriminate].
Qed.

(* parseAssignmentTarget never panics on specification types *)
Corollary target_chain_no_crash : forall ks t,
  spec_ty t = true -> has_empty t = false -> forallb spec_step ks = true -> target_chain t ks <> None.
Proof.
  induction ks as [|k ks IH]; intros t Hs He Hk; simpl; [discriminate|].
  simpl in Hk. apply andb_true_iff in Hk as [Hk1 Hk2].
  assert (St := target_step_spec t k Hs He Hk1).
  destruct (target_step_s (erase t) (erase_step k)).
  - destruct St as (T1 & E1 & _ & S1 & N1). rewrite E1. apply IH; assumption.
  - rewrite St. discriminate.
Qed.

(* a character of a string is never a target, at any depth of the chain *)
Corollary target_string_char_rejected ks t it rest :
  spec_ty t = true -> has_empty t = false -> forallb spec_step ks = true ->
  target_chain t ks = Some (Some TString) -> target_chain t (ks ++ KIdx it :: rest) = Some None.
Proof.
  revert t. induction ks as [|k ks IH]; intros t Hs He Hk H; simpl in *.
  - inversion H; subst. reflexivity.
  - apply andb_true_iff in Hk as [Hk1 Hk2].
    assert (St := target_step_spec t k Hs He Hk1).
    destruct (target_step_s (erase t) (erase_step k)).
    + destruct St as (T1 & E1 & _ & S1 & N1). rewrite E1 in *. apply IH; assumption.
    + rewrite St in H. discriminate.
Qed.

(* ---------- loop variables (parseForStatement) ---------- *)
(* for every range operand of a specification type: the loop variable exists
   exactly for the iterable types, its type is the element type (keys and
   characters: string; counting: num; untyped empties defaulted) … *)
Theorem range_var_spec t :
  spec_ty t = true ->
  match range_elem_s (erase t) with
  | Some s => exists vt, range_var_type t = Some (Some vt) /\ erase vt = s /\ spec_ty vt = true
  | None => range_var_type t = None
  end.
Proof.
  intro Hs. destruct t; simpl in Hs; try discriminate; simpl;
    try (eexists; repeat split; reflexivity); try reflexivity.
  - destruct (infer_spec t Hs) as (t' & E & D & S & Em & _).
    unfold range_var_type; simpl. rewrite E. simpl.
    eexists; split; [reflexivity|]. rewrite erase_fixed_type. split.
    + symmetry. apply defaults_iff in D. exact D.
    + destruct (fixed_type_keeps t') as [A _]; rewrite A; exact S.
Qed.

(* … and it is a VARIABLE of that type: when the operand is a variable, a
   constant or an empty literal, the loop variable's type is a pure variable
   type (Fixed at the top if composite, nothing convertible below), so by
   accepts_iff_assignable it is assignable to the identical type or any only *)
Theorem range_var_is_variable t vt :
  pure_ty t = true -> range_var_type t = Some (Some vt) ->
  (rigid vt = true /\ has_empty vt = false) /\
  (forall T, spec_ty T = true -> is_array_name vt || is_map_name vt = true ->
             (accepts T vt = true <-> Assignable KVar (erase T) (erase vt))).
Proof.
  intros Hp Hr. split; [eapply range_var_rigid; eauto|].
  intros T HT Hcomp.
  assert (Hv : var_ty vt = true).
  { assert (Hs := pure_spec t Hp).
    unfold range_var_type in Hr. destruct (name t) eqn:N; try discriminate;
      try (inversion Hr; subst; discriminate).
    destruct (infer_spec t Hs) as (t' & E & _ & S & Em & _ & HF). rewrite E in Hr.
    assert (HFs : forall s, sub t' = Some s -> has_fixed s = false).
    { unfold pure_ty in Hp. apply orb_true_iff in Hp as [Hc | Hv'].
      - apply const_nofix in Hc. rewrite <- HF in Hc. intros s Hsub.
        destruct t'; simpl in *; try discriminate; inversion Hsub; subst;
          apply orb_false_iff in Hc as [_ Hc]; exact Hc.
      - destruct (var_form t Hv') as (ts & [-> | ->] & Hts); simpl in E;
          destruct (infer ts) eqn:I; try discriminate; inversion E; subst; simpl;
          intros s Hsub; inversion Hsub; subst;
          destruct (infer_spec ts) as (x & Ex & _ & _ & _ & _ & Hx);
          try (apply var_ty_inv in Hv' as [Hv' _]; simpl in Hv'; exact Hv');
          rewrite I in Ex; inversion Ex; subst; congruence. }
    destruct t'; simpl in Hr; try discriminate; inversion Hr; subst; simpl in S, Em;
      specialize (HFs _ eq_refl);
      destruct t'; simpl in Hcomp; try discriminate; unfold var_ty; simpl in *;
      rewrite S, Em; simpl; apply orb_false_iff in HFs as [_ HFs]; rewrite HFs; reflexivity. }
  assert (K : kind_of vt = KVar).
  { apply var_ty_inv in Hv as (_ & _ & _ & H). unfold kind_of. rewrite H. reflexivity. }
  rewrite <- K. apply accepts_iff_assignable; [exact HT | unfold pure_ty; rewrite Hv; apply orb_true_r].
Qed.

(* regression, about parseBinaryExpr before commit 6b5553c: only the TOP-LEVEL
   Fixed flag of the right operand was looked at, so  [[1]] + [nums]  (nums a
   variable) kept the unfixed type [][]num of its left operand; accepts let it
   through for [][]any although the right operand itself is not accepted — and
   wrapAny then panicked on nums.   nums := [1] ; a:[][]any ; a = [[1]] + [nums] *)
Lemma concat_inner_fixed_before_fix_refuted :
  exists lt rt target, validate_binary OpPlus lt rt = true /\ has_empty lt = false /\ has_empty rt = false /\
    accepts target (binary_node_type_pre_6b5553c OpPlus lt rt) = true /\ accepts target rt = false.
Proof.
  exists (TArr false (TArr false TNum)), (TArr false (TArr true TNum)), (TArr true (TArr false TAny)).
  repeat split; reflexivity.
Qed.

(* on the current tree the same program is a type error, and the node type carries the variable's flag *)
Lemma concat_inner_fixed_now :
  binary_node_type OpPlus (TArr false (TArr false TNum)) (TArr false (TArr true TNum)) = TArr false (TArr true TNum) /\
  check (CAssign (SArr (SArr SAny))) (EBin OpPlus (EArr [EArr [ELitNum]]) (EArr [EVar (SArr SNum)])) = Reject /\
  check (CAssign (SArr SAny)) (EBin OpPlus (EArr [EArr [ELitNum]]) (EArr [EVar (SArr SNum)])) = Reject /\
  check (CAssign (SArr (SArr SNum))) (EBin OpPlus (EArr [EArr [ELitNum]]) (EArr [EVar (SArr SNum)])) =
    Accept (TArr true (TArr false TNum)) (TArr false (TArr true TNum)).
Proof. vm_compute. repeat split; reflexivity. Qed.

(* the node type of a binary expression over specification types is a specification type *)
Lemma spec_merge_fixed : forall t t2, spec_ty t = true -> spec_ty t2 = true -> spec_ty (merge_fixed t t2) = true.
Proof.
  induction t; intros t2 Hs Hs2; simpl in Hs; try discriminate Hs; simpl;
    try (destruct (negb (has_fixed t2) || _); [reflexivity|]; simpl; assumption).
  - destruct (negb (has_fixed t2) || false) eqn:C; [assumption|].
    destruct (negb (fx || has_fixed t)); [assumption|].
    destruct t2; simpl in *; try discriminate C; try assumption; apply IHt; assumption.
  - destruct (negb (has_fixed t2) || false) eqn:C; [assumption|].
    destruct (negb (fx || has_fixed t)); [assumption|].
    destruct t2; simpl in *; try discriminate C; try assumption; apply IHt; assumption.
Qed.

Lemma binary_node_type_spec_ty op lt rt :
  spec_ty lt = true -> spec_ty rt = true -> spec_ty (binary_node_type op lt rt) = true.
Proof.
  intros Hl Hr. unfold binary_node_type.
  set (t0 := if is_empty_arr (if is_comparison op then TBool else lt) && is_plus op then rt
             else if is_comparison op then TBool else lt).
  assert (H0 : spec_ty t0 = true).
  { unfold t0. destruct (is_comparison op); destruct (_ && _); auto. }
  set (t1 := if is_plus op && is_array_name t0 && equals t0 rt then merge_fixed t0 rt else t0).
  assert (H1 : spec_ty t1 = true).
  { unfold t1. destruct (_ && _ && _); [apply spec_merge_fixed; assumption | exact H0]. }
  destruct (is_array_name t1 && fixed rt); [rewrite spec_fixed_type|]; exact H1.
Qed.

(* ---------- range operands (parseForStatement + parseStepRange) ---------- *)
Lemma range_operands_spec ts :
  forallb spec_ty ts = true -> range_operands_ok ts = range_operands_s (map erase ts).
Proof.
  destruct ts as [|t [|t2 [|t3 [|t4 r]]]]; simpl; intro H; try reflexivity.
  - destruct t; simpl in *; try discriminate; reflexivity.
  - destruct t; simpl in *; try discriminate; try reflexivity;
      destruct t2; simpl in *; try discriminate; reflexivity.
  - destruct t; simpl in *; try discriminate; try reflexivity;
      destruct t2; simpl in *; try discriminate; try reflexivity;
      destruct t3; simpl in *; try discriminate; reflexivity.
  - destruct t; simpl in *; try discriminate; try reflexivity;
      destruct t2; simpl in *; try discriminate; try reflexivity;
      destruct t3; simpl in *; try discriminate; reflexivity.
Qed.

(* the range clause is accepted exactly for: one operand of an iterable type
   (num, string, array, map), or two or three operands that are all num — for
   every operand position and every type; four or more operands never *)
Theorem range_operands_ok_iff ts :
  forallb spec_ty ts = true -> (range_operands_ok ts = true <-> RangeOperands (map erase ts)).
Proof. intro H. rewrite (range_operands_spec ts H). apply range_operands_s_iff. Qed.
