(* TypesProofs.v — the implementation model (Types.v) against the declarative
   specification (TypesSpec.v).  All statements quantify over all types, at any
   nesting depth and any Fixed-bit placement (induction on the type). *)
From Coq Require Import List Bool Lia.
From EvyV Require Import Base TypesSyntax Types TypesFixed TypesSpec TypesSpecProofs.
From EvyV.Gen Require Import TypeNames.
Import ListNotations.

(* ---------- the correspondence between model types and spec types ---------- *)
(* Fixed bits erased.  Only meaningful on [spec_ty] types (no NONE_TYPE, no
   GENERIC_* node: those are parser-internal and the specification has no
   name for them). *)
Fixpoint erase (t : ty) : sty :=
  match t with
  | TNum => SNum | TString => SString | TBool => SBool | TAny => SAny
  | TArr _ s => SArr (erase s) | TMap _ s => SMap (erase s)
  | TEmptyArr => SEmptyArr | TEmptyMap => SEmptyMap
  | TNone | TGenArr | TGenMap => SAny
  end.

Fixpoint spec_ty (t : ty) : bool :=
  match t with
  | TNone | TGenArr | TGenMap => false
  | TArr _ s | TMap _ s => spec_ty s
  | _ => true
  end.

Fixpoint has_empty (t : ty) : bool :=
  match t with
  | TEmptyArr | TEmptyMap => true
  | TArr _ s | TMap _ s => has_empty s
  | _ => false
  end.

(* how the parser encodes the specification's value kinds in a type:
   a constant / empty literal has no Fixed node; a variable (fixedType of a
   declared or inferred type) is Fixed at the top only and has no empty leaf.
   Basic types and any carry no flag: for them both kinds coincide in the
   specification as well. *)
Definition kind_of (t : ty) : kind := if has_fixed t then KVar else KConst.

Definition const_ty (t : ty) : bool := spec_ty t && negb (has_fixed t).
Definition var_ty (t : ty) : bool :=
  spec_ty t && negb (has_empty t) &&
  match t with TArr true s | TMap true s => negb (has_fixed s) | _ => false end.
Definition pure_ty (t : ty) : bool := const_ty t || var_ty t.

Lemma erase_embed s : erase (embed s) = s.
Proof. induction s; simpl; congruence. Qed.

Lemma spec_embed s : spec_ty (embed s) = true.
Proof. induction s; simpl; auto. Qed.

(* ---------- accepts on constants: Converts ---------- *)
Lemma spec_not_none r : spec_ty r = true -> is_none r = false.
Proof. destruct r; simpl; auto; discriminate. Qed.

Ltac split_fixed :=
  repeat match goal with
         | H : _ || _ = false |- _ => apply orb_false_iff in H as [? ?]; subst
         end.

Lemma accepts_from_const : forall l r top,
  spec_ty l = true -> spec_ty r = true -> has_fixed r = false ->
  accepts_from top false l r = conv_b (erase r) (erase l).
Proof.
  induction l; intros r top Hl Hr Hf; destruct r; simpl in *; split_fixed;
    try discriminate; try reflexivity; simpl;
    try (apply IHl; assumption);
    try (apply spec_not_none; assumption);
    try (destruct top; reflexivity).
Qed.

(* ---------- accepts once rightFixed is set: identity ---------- *)
Lemma accepts_from_fixed : forall l r top rf,
  spec_ty l = true -> spec_ty r = true -> has_empty r = false -> rf || fixed r = true ->
  accepts_from top rf l r = (top && is_any l) || sty_eqb (erase l) (erase r).
Proof.
  induction l; intros r top rf Hl Hr He Hx; destruct r; simpl in *;
    try discriminate;
    try (rewrite ?andb_true_r, ?andb_false_r, ?orb_false_r; reflexivity);
    try (rewrite Hx; simpl; rewrite ?andb_false_r, ?orb_false_r, ?orb_true_r; try reflexivity);
    try (destruct top; reflexivity);
    try (rewrite IHl by (auto; apply orb_true_l); simpl; reflexivity);
    try (rewrite andb_false_r; simpl; apply spec_not_none; assumption).
Qed.

Lemma is_any_erase t : spec_ty t = true -> is_any t = sty_eqb (erase t) SAny.
Proof. destruct t; simpl; auto; discriminate. Qed.

Lemma var_ty_inv t : var_ty t = true ->
  spec_ty t = true /\ has_empty t = false /\ fixed t = true /\ has_fixed t = true.
Proof.
  unfold var_ty. intro H. apply andb_true_iff in H as [H H3]. apply andb_true_iff in H as [H1 H2].
  apply negb_true_iff in H2.
  destruct t; try discriminate; destruct fx; try discriminate; simpl; auto.
Qed.

(* THE assignability theorem: on the value kinds the specification names
   (variables, constants, empty literals — any type, any nesting depth),
   accepts is exactly Assignable. *)
Theorem accepts_iff_assignable t t2 :
  spec_ty t = true -> pure_ty t2 = true ->
  (accepts t t2 = true <-> Assignable (kind_of t2) (erase t) (erase t2)).
Proof.
  intros Ht Hp. rewrite <- assignable_b_iff. unfold pure_ty in Hp. apply orb_true_iff in Hp as [Hc | Hv].
  - unfold const_ty in Hc. apply andb_true_iff in Hc as [Hs Hf]. apply negb_true_iff in Hf.
    unfold kind_of, accepts. rewrite Hf. rewrite accepts_from_const by assumption. simpl. tauto.
  - apply var_ty_inv in Hv as (Hs & He & Hfx & Hhf).
    unfold kind_of, accepts. rewrite Hhf. rewrite accepts_from_fixed by (auto; rewrite Hfx; reflexivity).
    simpl. rewrite (is_any_erase t Ht). rewrite orb_comm. tauto.
Qed.

(* a literal whose element is directly a composite variable ([x], {k:x})
   behaves like a variable too, as spec.md demands of every literal that
   contains a variable *)
Lemma accepts_literal_of_variable t f s :
  spec_ty t = true -> var_ty s = true ->
  (accepts t (TArr f s) = true <-> Assignable KVar (erase t) (erase (TArr f s))) /\
  (accepts t (TMap f s) = true <-> Assignable KVar (erase t) (erase (TMap f s))).
Proof.
  intros Ht Hv. apply var_ty_inv in Hv as (Hs & He & Hfx & Hhf).
  rewrite <- !assignable_b_iff. unfold accepts.
  destruct t; simpl in *; try discriminate; rewrite ?orb_false_r;
    try (split; split; intro; discriminate); try (split; tauto).
  - rewrite accepts_from_fixed by (auto; rewrite Hfx; apply orb_true_r). simpl. split; tauto.
  - rewrite accepts_from_fixed by (auto; rewrite Hfx; apply orb_true_r). simpl. split; tauto.
  - rewrite (spec_not_none s Hs). split; split; intro; discriminate.
  - rewrite (spec_not_none s Hs). split; split; intro; discriminate.
Qed.

(* ... but one level deeper the parser converts although spec.md says the
   literal is "treated like a variable": REFUTED on the unchanged tree.
   Witness:  x:[]num ; t:[]any ; t = [{k:x}]   (also: t = [[x]]) *)
Lemma accepts_nested_variable_refuted :
  exists t t2, spec_ty t = true /\ spec_ty t2 = true /\ has_empty t2 = false /\
    kind_of t2 = KVar /\ accepts t t2 = true /\ ~ Assignable (kind_of t2) (erase t) (erase t2).
Proof.
  exists (TArr true TAny), (TArr false (TMap false (TArr true TNum))).
  repeat split; try reflexivity.
  rewrite <- assignable_b_iff. vm_compute. discriminate.
Qed.

(* parser-internal shapes the specification has no name for *)
Lemma accepts_generic_array t2 : accepts TGenArr t2 = is_array_name t2.
Proof. destruct t2; reflexivity. Qed.
Lemma accepts_generic_map t2 : accepts TGenMap t2 = is_map_name t2.
Proof. destruct t2; reflexivity. Qed.
Lemma accepts_none t : accepts t TNone = is_none t.
Proof. destruct t; reflexivity. Qed.

(* ---------- matches: the operands are the same type up to untyped empties ---------- *)
Definition unifiable (a b : sty) : bool := match unify a b with Some _ => true | None => false end.

Lemma unifiable_arr a b : unifiable (SArr a) (SArr b) = unifiable a b.
Proof.
  unfold unifiable; simpl. destruct (sty_eqb a b) eqn:E.
  - apply sty_eqb_eq in E; subst. rewrite unify_refl; reflexivity.
  - destruct (unify a b); reflexivity.
Qed.

Lemma unifiable_map a b : unifiable (SMap a) (SMap b) = unifiable a b.
Proof.
  unfold unifiable; simpl. destruct (sty_eqb a b) eqn:E.
  - apply sty_eqb_eq in E; subst. rewrite unify_refl; reflexivity.
  - destruct (unify a b); reflexivity.
Qed.

Lemma matches_unifiable : forall l r, spec_ty l = true -> spec_ty r = true ->
  matches l r = unifiable (erase l) (erase r).
Proof.
  induction l; intros r Hl Hr; destruct r; simpl in *; try discriminate; try reflexivity;
    rewrite ?unifiable_arr, ?unifiable_map; try (apply IHl; assumption);
    try (apply spec_not_none; assumption).
Qed.

Theorem matches_iff_operand_compatible l r :
  spec_ty l = true -> spec_ty r = true ->
  (matches l r = true <-> exists u, Unify (erase l) (erase r) u).
Proof.
  intros Hl Hr. rewrite matches_unifiable by assumption. unfold unifiable.
  destruct (unify (erase l) (erase r)) eqn:U.
  - split; [intros _; exists s; apply unify_iff; exact U | reflexivity].
  - split; [discriminate | intros [u Hu]; apply unify_iff in Hu; congruence].
Qed.

(* ---------- operator table ---------- *)
Lemma erase_num t : spec_ty t = true -> is_num t = sty_eqb (erase t) SNum.
Proof. destruct t; simpl; auto; discriminate. Qed.

Lemma validate_binary_spec op lt rt :
  spec_ty lt = true -> spec_ty rt = true ->
  validate_binary op lt rt = match op_type op (erase lt) (erase rt) with Some _ => true | None => false end.
Proof.
  intros Hl Hr. unfold validate_binary. rewrite matches_unifiable by assumption.
  unfold op_type, unifiable.
  destruct lt; simpl in Hl; try discriminate;
    destruct rt; simpl in Hr; try discriminate;
    destruct op; cbn -[unify];
    try reflexivity;
    try (rewrite unify_refl; reflexivity);
    try (destruct (unify _ _); reflexivity).
Qed.

(* acceptance: validateBinaryType appends no error exactly on the rows of the table *)
Theorem binop_accept_iff op lt rt :
  spec_ty lt = true -> spec_ty rt = true ->
  (validate_binary op lt rt = true <-> exists r, OpType op (erase lt) (erase rt) r).
Proof.
  intros Hl Hr. rewrite validate_binary_spec by assumption.
  destruct (op_type op (erase lt) (erase rt)) eqn:O.
  - split; [intros _; exists s; apply op_type_iff; exact O | reflexivity].
  - split; [discriminate | intros [r Hr']; apply op_type_iff in Hr'; congruence].
Qed.

Lemma closed_erase t : spec_ty t = true -> has_empty t = false -> closed (erase t) = true.
Proof. induction t; simpl; auto; discriminate. Qed.

Lemma unify_closed_left : forall a b u, unify a b = Some u -> closed a = true -> u = a.
Proof.
  induction a; intros b u H Hc; destruct b; simpl in *; try discriminate;
    try (inversion H; subst; reflexivity).
  - destruct (sty_eqb a b); [inversion H; reflexivity|].
    destruct (unify a b) eqn:U; simpl in H; [|discriminate]. inversion H; subst.
    f_equal. eapply IHa; eauto.
  - destruct (sty_eqb a b); [inversion H; reflexivity|].
    destruct (unify a b) eqn:U; simpl in H; [|discriminate]. inversion H; subst.
    f_equal. eapply IHa; eauto.
Qed.

Lemma unify_empty_left b u : unify SEmptyArr b = Some u -> u = b.
Proof. destruct b; simpl; intro H; inversion H; reflexivity. Qed.

(* result type: the T the parser gives the BinaryExpression is the table's
   result type — when the left operand has no untyped empty leaf, or is the
   empty array literal itself under "+" *)
Theorem binop_result_type op lt rt :
  spec_ty lt = true -> spec_ty rt = true ->
  validate_binary op lt rt = true ->
  (has_empty lt = false \/ (lt = TEmptyArr /\ op = OpPlus)) ->
  OpType op (erase lt) (erase rt) (erase (binary_node_type op lt rt)).
Proof.
  intros Hl Hr Hv Hg. rewrite validate_binary_spec in Hv by assumption.
  destruct (op_type op (erase lt) (erase rt)) eqn:O; [|discriminate]. clear Hv.
  apply op_type_iff. rewrite O. f_equal.
  destruct Hg as [He | [-> ->]].
  - assert (Hc := closed_erase lt Hl He).
    unfold op_type in O. unfold binary_node_type.
    destruct op; simpl in *;
      try (destruct (unify (erase lt) (erase rt)); inversion O; reflexivity);
      destruct lt; simpl in *; try discriminate;
      destruct rt; simpl in *; try discriminate; try (inversion O; reflexivity);
      try (match type of O with
           | (if ?c then _ else _) = _ => destruct c eqn:E; [inversion O; reflexivity|]
           end;
           match type of O with
           | option_map _ ?u = _ => destruct u eqn:U; simpl in O; [|discriminate]; inversion O; subst;
                                    f_equal; eapply unify_closed_left; eauto
           end).
  - simpl in *. apply unify_empty_left in O. exact O.
Qed.

(* the same for the corrected parseBinaryExpr, now including [] * n *)
Theorem binop_result_type_fixed op lt rt :
  spec_ty lt = true -> spec_ty rt = true ->
  validate_binary op lt rt = true ->
  (has_empty lt = false \/ lt = TEmptyArr) ->
  OpType op (erase lt) (erase rt) (erase (binary_node_type_fixed op lt rt)).
Proof.
  intros Hl Hr Hv [He | ->].
  - replace (binary_node_type_fixed op lt rt) with (binary_node_type op lt rt).
    + apply binop_result_type; auto.
    + unfold binary_node_type, binary_node_type_fixed.
      destruct (is_comparison op); [reflexivity|].
      destruct lt; simpl in *; try reflexivity; discriminate.
  - rewrite validate_binary_spec in Hv by assumption.
    destruct (op_type op (erase TEmptyArr) (erase rt)) eqn:O; [|discriminate].
    apply op_type_iff. rewrite O. f_equal.
    unfold op_type in O. destruct op; simpl in *;
      try (destruct rt; simpl in *; try discriminate; inversion O; reflexivity);
      try discriminate.
Qed.

(* REFUTED on the unchanged tree: [] * n is typed by its right operand *)
Lemma binop_result_type_refuted :
  exists op lt rt, spec_ty lt = true /\ spec_ty rt = true /\ validate_binary op lt rt = true /\
    ~ OpType op (erase lt) (erase rt) (erase (binary_node_type op lt rt)).
Proof.
  exists OpAsterisk, TEmptyArr, TNum. repeat split; try reflexivity.
  intro H. apply op_type_iff in H. vm_compute in H. discriminate.
Qed.

(* unary operators *)
Theorem unop_type_table op t :
  spec_ty t = true ->
  (validate_unary op t = true <-> UnOpType op (erase t) (erase t)).
Proof.
  intro Ht. destruct op, t; simpl in *; try discriminate; split; intro H;
    try reflexivity; try discriminate; try constructor; inversion H.
Qed.

(* ---------- inference ---------- *)
Theorem infer_spec : forall t, spec_ty t = true ->
  exists t', infer t = Some t' /\ Defaults (erase t) (erase t') /\
             spec_ty t' = true /\ has_empty t' = false /\
             fixed t' = fixed t /\ has_fixed t' = has_fixed t.
Proof.
  induction t; intro H; simpl in *; try discriminate;
    try (eexists; repeat split; try reflexivity; constructor; fail).
  - destruct (IHt H) as (t' & E & D & S & Em & _ & HF). rewrite E.
    eexists; repeat split; simpl; try reflexivity; try assumption; try congruence. constructor; exact D.
  - destruct (IHt H) as (t' & E & D & S & Em & _ & HF). rewrite E.
    eexists; repeat split; simpl; try reflexivity; try assumption; try congruence. constructor; exact D.
Qed.

(* infer crashes (nil dereference) exactly on types containing a GENERIC node *)
Fixpoint has_generic (t : ty) : bool :=
  match t with TGenArr | TGenMap => true | TArr _ s | TMap _ s => has_generic s | _ => false end.

Lemma infer_none_iff t : infer t = None <-> has_generic t = true.
Proof.
  induction t; simpl; try (split; discriminate); try tauto.
  - destruct (infer t); [split; [discriminate | intro H; apply IHt in H; discriminate] | tauto].
  - destruct (infer t); [split; [discriminate | intro H; apply IHt in H; discriminate] | tauto].
Qed.

(* ---------- index / slice / dot / type assertion ---------- *)
Theorem index_rule lt it s :
  spec_ty lt = true -> spec_ty it = true -> is_empty lt = false ->
  (IndexType (erase lt) (erase it) s <-> exists t, index_type lt it = Some t /\ erase t = s).
Proof.
  intros Hl Hi He. unfold index_type.
  destruct lt; simpl in *; try discriminate;
    destruct it; simpl in *; try discriminate;
    split; intro H;
    try (inversion H; subst; eexists; split; reflexivity);
    try (destruct H as [t [H1 H2]]; try discriminate; inversion H1; subst; constructor);
    try (inversion H; fail).
Qed.

Definition bound_ok (o : option ty) : bool := match o with Some t => is_num t | None => true end.

Theorem slice_rule lt st et :
  spec_ty lt = true ->
  slice_type lt st et =
    if bound_ok st && bound_ok et && is_array_b (erase lt) || bound_ok st && bound_ok et && sty_eqb (erase lt) SString
    then Some lt else None.
Proof.
  intros Hl. unfold slice_type, bound_ok.
  destruct lt; simpl in *; try discriminate;
    destruct st as [[]|], et as [[]|]; reflexivity.
Qed.

Lemma slice_type_spec a : (exists r, SliceType a r) <-> (is_array_b a = true \/ a = SString).
Proof.
  split.
  - intros [r H]; inversion H; subst; simpl; auto.
  - intros [H | ->]; [destruct a; try discriminate; eexists; constructor | eexists; constructor].
Qed.

Theorem dot_rule lt s :
  spec_ty lt = true -> is_empty lt = false ->
  (DotType (erase lt) s <-> exists t, dot_type lt = Some t /\ erase t = s).
Proof.
  intros Hl He. unfold dot_type.
  destruct lt; simpl in *; try discriminate; split; intro H;
    try (inversion H; subst; eexists; split; reflexivity);
    try (destruct H as [t [H1 H2]]; try discriminate; inversion H1; subst; constructor);
    try (inversion H; fail).
Qed.

Lemma closed_embed_iff s : closed s = true -> has_empty (embed s) = false.
Proof. induction s; simpl; auto; discriminate. Qed.

Theorem assert_rule lt s :
  spec_ty lt = true -> closed s = true ->
  (validate_assert lt (embed s) = true <-> AssertOk (erase lt) s).
Proof.
  intros Hl Hc. unfold validate_assert, AssertOk.
  rewrite andb_true_iff, negb_true_iff.
  rewrite (is_any_erase lt Hl), (is_any_erase (embed s) (spec_embed s)), erase_embed.
  rewrite sty_eqb_eq, sty_eqb_neq. tauto.
Qed.

(* ---------- combineTypes on constants: the strictest common type ---------- *)
Lemma equals_none_r l : equals l TNone = is_none l.
Proof. destruct l; reflexivity. Qed.

Lemma equals_erase : forall l r, spec_ty l = true -> spec_ty r = true ->
  equals l r = sty_eqb (erase l) (erase r).
Proof.
  induction l; intros r Hl Hr; destruct r; simpl in *; try discriminate; try reflexivity;
    try (apply IHl; assumption); try (apply spec_not_none; assumption);
    try (rewrite equals_none_r; apply spec_not_none; assumption).
Qed.

Lemma cjoin_comm : forall a b, cjoin a b = cjoin b a.
Proof.
  induction a; intro b; destruct b; simpl; try reflexivity.
  - destruct (sty_eqb a b) eqn:E.
    + apply sty_eqb_eq in E; subst. rewrite sty_eqb_refl; reflexivity.
    + assert (E' : sty_eqb b a = false) by (apply sty_eqb_neq; apply sty_eqb_neq in E; congruence).
      rewrite E'. f_equal; apply IHa.
  - destruct (sty_eqb a b) eqn:E.
    + apply sty_eqb_eq in E; subst. rewrite sty_eqb_refl; reflexivity.
    + assert (E' : sty_eqb b a = false) by (apply sty_eqb_neq; apply sty_eqb_neq in E; congruence).
      rewrite E'. f_equal; apply IHa.
Qed.

Lemma cjoin_eq a b : sty_eqb a b = true -> cjoin a b = a.
Proof. intro E. destruct a; simpl; rewrite ?E; try reflexivity; destruct b; simpl in *; try discriminate; rewrite ?E; reflexivity. Qed.

Lemma const_sub f s : const_ty (TArr f s) = true -> f = false /\ const_ty s = true.
Proof.
  unfold const_ty; simpl. intro H. apply andb_true_iff in H as [H1 H2]. apply negb_true_iff in H2.
  apply orb_false_iff in H2 as [-> H2]. split; [reflexivity|]. rewrite H1, H2; reflexivity.
Qed.
Lemma const_sub_map f s : const_ty (TMap f s) = true -> f = false /\ const_ty s = true.
Proof.
  unfold const_ty; simpl. intro H. apply andb_true_iff in H as [H1 H2]. apply negb_true_iff in H2.
  apply orb_false_iff in H2 as [-> H2]. split; [reflexivity|]. rewrite H1, H2; reflexivity.
Qed.
Lemma const_spec t : const_ty t = true -> spec_ty t = true.
Proof. unfold const_ty; intro H; apply andb_true_iff in H as [H _]; exact H. Qed.

Lemma comb_const : forall a b sw, const_ty a = true -> const_ty b = true ->
  exists r, comb sw a b = Some r /\ const_ty r = true /\ erase r = cjoin (erase a) (erase b).
Proof.
  induction a; intros b sw Ha Hb; try discriminate Ha.
  all: try (destruct b; try discriminate Hb;
            try (apply const_sub in Hb as [-> Hb]); try (apply const_sub_map in Hb as [-> Hb]);
            destruct sw; simpl;
            try rewrite (spec_not_none _ (const_spec _ Hb)); simpl;
            eexists; (split; [reflexivity | split; [assumption || reflexivity | reflexivity]]); fail).
  - (* TArr *)
    apply const_sub in Ha as [-> Ha].
    destruct b; try discriminate Hb;
      try (try (apply const_sub_map in Hb as [-> Hb]);
           destruct sw; simpl; eexists; (split; [reflexivity | split; [reflexivity | reflexivity]]); fail).
    + apply const_sub in Hb as [-> Hb].
      destruct (IHa b (negb sw) Ha Hb) as (r & E & C & ER).
      assert (Eq : equals (TArr false a) (TArr false b) = sty_eqb (erase a) (erase b)).
      { simpl. apply equals_erase; apply const_spec; assumption. }
      assert (Eq' : equals (TArr false b) (TArr false a) = sty_eqb (erase a) (erase b)).
      { simpl. rewrite equals_erase by (apply const_spec; assumption).
        destruct (sty_eqb (erase a) (erase b)) eqn:X.
        - apply sty_eqb_eq in X; rewrite X; apply sty_eqb_refl.
        - apply sty_eqb_neq; apply sty_eqb_neq in X; congruence. }
      destruct sw; cbn [comb]; cbv zeta; [rewrite Eq' | rewrite Eq];
        destruct (sty_eqb (erase a) (erase b)) eqn:X.
      * eexists; split; [reflexivity|]. split.
        { unfold const_ty in *; simpl; exact Hb. }
        { simpl. rewrite X. apply sty_eqb_eq in X. rewrite X. reflexivity. }
      * simpl. simpl in E. rewrite E. eexists; split; [reflexivity|]. split.
        { unfold const_ty in *; simpl; exact C. }
        { simpl. rewrite X, ER. reflexivity. }
      * eexists; split; [reflexivity|]. split.
        { unfold const_ty in *; simpl; exact Ha. }
        { simpl. rewrite X. reflexivity. }
      * simpl. simpl in E. rewrite E. eexists; split; [reflexivity|]. split.
        { unfold const_ty in *; simpl; exact C. }
        { simpl. rewrite X, ER. reflexivity. }
    + destruct sw; simpl; rewrite ?equals_none_r, ?(spec_not_none _ (const_spec _ Ha)); simpl;
        eexists; (split; [reflexivity|]); split; try reflexivity;
        unfold const_ty in *; simpl; exact Ha.
  - (* TMap *)
    apply const_sub_map in Ha as [-> Ha].
    destruct b; try discriminate Hb;
      try (try (apply const_sub in Hb as [-> Hb]);
           destruct sw; simpl; eexists; (split; [reflexivity | split; [reflexivity | reflexivity]]); fail).
    + apply const_sub_map in Hb as [-> Hb].
      destruct (IHa b (negb sw) Ha Hb) as (r & E & C & ER).
      assert (Eq : equals (TMap false a) (TMap false b) = sty_eqb (erase a) (erase b)).
      { simpl. apply equals_erase; apply const_spec; assumption. }
      assert (Eq' : equals (TMap false b) (TMap false a) = sty_eqb (erase a) (erase b)).
      { simpl. rewrite equals_erase by (apply const_spec; assumption).
        destruct (sty_eqb (erase a) (erase b)) eqn:X.
        - apply sty_eqb_eq in X; rewrite X; apply sty_eqb_refl.
        - apply sty_eqb_neq; apply sty_eqb_neq in X; congruence. }
      destruct sw; cbn [comb]; cbv zeta; [rewrite Eq' | rewrite Eq];
        destruct (sty_eqb (erase a) (erase b)) eqn:X.
      * eexists; split; [reflexivity|]. split.
        { unfold const_ty in *; simpl; exact Hb. }
        { simpl. rewrite X. apply sty_eqb_eq in X. rewrite X. reflexivity. }
      * simpl. simpl in E. rewrite E. eexists; split; [reflexivity|]. split.
        { unfold const_ty in *; simpl; exact C. }
        { simpl. rewrite X, ER. reflexivity. }
      * eexists; split; [reflexivity|]. split.
        { unfold const_ty in *; simpl; exact Ha. }
        { simpl. rewrite X. reflexivity. }
      * simpl. simpl in E. rewrite E. eexists; split; [reflexivity|]. split.
        { unfold const_ty in *; simpl; exact C. }
        { simpl. rewrite X, ER. reflexivity. }
    + destruct sw; simpl; rewrite ?equals_none_r, ?(spec_not_none _ (const_spec _ Ha)); simpl;
        eexists; (split; [reflexivity|]); split; try reflexivity;
        unfold const_ty in *; simpl; exact Ha.
  - destruct b; try discriminate Hb;
      try (apply const_sub in Hb as [-> Hb]); try (apply const_sub_map in Hb as [-> Hb]);
      destruct sw; simpl; rewrite ?equals_none_r, ?(spec_not_none _ (const_spec _ Hb)); simpl;
      eexists; (split; [reflexivity|]); split; try reflexivity;
      unfold const_ty in *; simpl; try exact Hb.
  - destruct b; try discriminate Hb;
      try (apply const_sub in Hb as [-> Hb]); try (apply const_sub_map in Hb as [-> Hb]);
      destruct sw; simpl; rewrite ?equals_none_r, ?(spec_not_none _ (const_spec _ Hb)); simpl;
      eexists; (split; [reflexivity|]); split; try reflexivity;
      unfold const_ty in *; simpl; try exact Hb.
Qed.

Definition abs (t : ty) : kind * sty := (kind_of t, erase t).

Lemma abs_const t : const_ty t = true -> abs t = (KConst, erase t).
Proof.
  unfold const_ty, abs, kind_of. intro H. apply andb_true_iff in H as [_ H]. apply negb_true_iff in H.
  rewrite H; reflexivity.
Qed.

Lemma combine_from_const : forall ts c, const_ty c = true -> Forall (fun t => const_ty t = true) ts ->
  exists r, combine_from c ts = Some r /\ const_ty r = true /\
            (KConst, erase r) = fold_left sjoin (map abs ts) (KConst, erase c).
Proof.
  induction ts as [|t ts IH]; intros c Hc Hts; simpl.
  - eexists; repeat split; auto.
  - inversion Hts; subst. unfold combine2.
    destruct (comb_const c t false Hc H1) as (r & E & C & ER). rewrite E.
    destruct (IH r C H2) as (r' & E' & C' & F). exists r'. repeat split; auto.
    rewrite F. assert (K : kind_of t = KConst) by (generalize (abs_const t H1); unfold abs; congruence).
    rewrite K, ER. reflexivity.
Qed.

(* combineTypes on constants and empty literals (any number, any depth): it
   does not crash and yields the specification's Strictest element type *)
Theorem combine_const_strictest ts :
  ts <> [] -> Forall (fun t => const_ty t = true) ts ->
  exists r, combine ts = Some r /\ const_ty r = true /\ Strictest (map abs ts) (erase r).
Proof.
  intros Hne Hts. destruct ts as [|c ts]; [contradiction|]. inversion Hts; subst.
  destruct (combine_from_const ts c H1 H2) as (r & E & C & F).
  exists r. split; [exact E|]. split; [exact C|].
  change (erase r) with (snd (KConst, erase r)).
  apply strictest_is_Strictest. simpl. rewrite (abs_const c H1). rewrite F. reflexivity.
Qed.

(* hence invariant under any reordering of the elements (what C08 needs for
   map literals, whose values are visited in Go map order) *)
Theorem combine_const_perm ts ts' r r' :
  (forall t, In t ts <-> In t ts') ->
  Forall (fun t => const_ty t = true) ts -> Forall (fun t => const_ty t = true) ts' ->
  combine ts = Some r -> combine ts' = Some r' -> erase r = erase r'.
Proof.
  intros P H H' E E'.
  assert (Hne : ts <> []) by (intro; subst; discriminate).
  assert (Hne' : ts' <> []) by (intro; subst; discriminate).
  destruct (combine_const_strictest ts Hne H) as (x & Ex & _ & Sx).
  destruct (combine_const_strictest ts' Hne' H') as (x' & Ex' & _ & Sx').
  rewrite E in Ex; inversion Ex; subst x. rewrite E' in Ex'; inversion Ex'; subst x'.
  eapply Strictest_unique; [exact Sx|].
  eapply Strictest_perm; [|exact Sx'].
  intro e. rewrite !in_map_iff. split; intros [t [<- Ht]]; exists t; split; auto; apply P; auto.
Qed.

(* REFUTED on the unchanged tree as soon as a variable is mixed with literals:
   [[2] x ["a"]] with x:[]num.  combineTypes answers []any although the
   variable x (Fixed []num) is not assignable to it (wrapAny then panics),
   and the answer depends on the order of the elements. *)
Lemma combine_strictest_refuted :
  exists ts r, Forall (fun t => pure_ty t = true) ts /\ combine ts = Some r /\
    exists t, In t ts /\ accepts r t = false.
Proof.
  exists [TArr false TNum; TArr true TNum; TArr false TString], (TArr false TAny).
  split; [repeat constructor|]. split; [reflexivity|].
  exists (TArr true TNum). split; [simpl; auto | reflexivity].
Qed.

Lemma combine_perm_refuted :
  exists ts ts' r r', (forall t, In t ts <-> In t ts') /\
    Forall (fun t => pure_ty t = true) ts /\
    combine ts = Some r /\ combine ts' = Some r' /\ erase r <> erase r'.
Proof.
  exists [TArr false TNum; TArr true TNum; TArr false TString],
         [TArr true TNum; TArr false TNum; TArr false TString],
         (TArr false TAny), TAny.
  split; [intro t; simpl; tauto|]. split; [repeat constructor|].
  split; [reflexivity|]. split; [reflexivity|]. discriminate.
Qed.

(* not the strictest type either:  [x []]  with x:[]num is typed []any *)
Lemma combine_not_strictest_refuted :
  exists ts r, Forall (fun t => pure_ty t = true) ts /\ combine ts = Some r /\
    ~ Strictest (map abs ts) (erase r).
Proof.
  exists [TArr true TNum; TEmptyArr], TAny.
  split; [repeat constructor|]. split; [reflexivity|].
  intros [_ L].
  assert (H : Converts SAny (SArr SNum)).
  { apply L. intros e [<- | [<- | []]]; simpl; [constructor | apply As_conv; constructor]. }
  inversion H.
Qed.
