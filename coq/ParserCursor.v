(* The cursor of the statement pass: always a suffix of the token list, and the whitespace-sensitivity
   stack is restored by every parser function.  Consequence: a signature pre-pass without errors implies that the
   statement loop never stands on a `func` keyword that is not followed by an identifier (Parser.funcs_named). *)
From Coq Require Import List NArith ZArith Bool Arith String Lia.
From EvyV Require Import Base Pratt Parser ParserProofs ParserRules.
From EvyV.Gen Require Import Prec.
Import ListNotations.
Local Open Scope nat_scope.
Local Set Warnings "-unused-intro-pattern".

Definition sfx (a b : list token) : Prop := exists l, b = l ++ a.
Lemma sfx_refl a : sfx a a. Proof. exists []. reflexivity. Qed.
Lemma sfx_trans a b c : sfx a b -> sfx b c -> sfx a c.
Proof. intros [l1 ->] [l2 ->]. exists (l2 ++ l1). rewrite app_assoc. reflexivity. Qed.
Lemma sfx_tl a b : sfx a b -> sfx (tl a) b.
Proof. intros [l ->]. destruct a as [|x a]; [exists l; reflexivity|]. exists (l ++ [x]). rewrite <- app_assoc. reflexivity. Qed.

Section Cursor.
Variable toks : list token.

Definition Inv (w : list bool) (c : pstate) : Prop := sfx (rest c) toks /\ wss c = w.
(* a parser function from c to c': the cursor stays inside the token list and the wss stack is restored *)
Definition PI (c c' : pstate) : Prop := forall w, Inv w c -> Inv w c'.
Lemma PI_refl c : PI c c. Proof. intros w I; exact I. Qed.
Lemma PI_trans a b c : PI a b -> PI b c -> PI a c. Proof. intros H1 H2 w I. apply H2, H1, I. Qed.

Lemma Inv_advance_wss w c : Inv w c -> Inv w (advance_wss c).
Proof. intros [S W]. split; [simpl; apply sfx_tl; exact S|exact W]. Qed.
Lemma Inv_advance_if_ws w c : Inv w c -> Inv w (advance_if_ws c).
Proof. unfold advance_if_ws. intro I. destruct (is_ws (cur c)); [apply Inv_advance_wss|]; exact I. Qed.
Lemma Inv_advance w c : Inv w c -> Inv w (advance c).
Proof.
  unfold advance. intro I. destruct (is_wss (advance_wss c)); [apply Inv_advance_wss; exact I|].
  pose proof (Inv_advance_if_ws _ _ (Inv_advance_wss _ _ I)) as I2.
  destruct (is_ws (peek (advance_if_ws (advance_wss c)))); [|exact I2]. destruct I2 as [S W]. split; assumption.
Qed.
Lemma Inv_push b w c : Inv w c -> Inv (b :: w) (push_wss b c).
Proof. intros [S W]. split; [exact S|simpl; rewrite W; reflexivity]. Qed.
Lemma Inv_pop b w c : Inv (b :: w) c -> Inv w (pop_wss c).
Proof.
  intros [S W]. unfold pop_wss.
  match goal with |- Inv w (if _ then advance ?x else _) => assert (I1 : Inv w x) by (split; [exact S|simpl; rewrite W; reflexivity]) end.
  destruct (_ && _); [apply Inv_advance|]; exact I1.
Qed.
Lemma Inv_add_err_at e n w c : Inv w c -> Inv w (add_err_at e n c).
Proof. intros [S W]. split; assumption. Qed.
Lemma Inv_add_err e w c : Inv w c -> Inv w (add_err e c).
Proof. apply Inv_add_err_at. Qed.
Lemma Inv_mark_used n w c : Inv w c -> Inv w (mark_used n c).
Proof. intros [S W]. split; assumption. Qed.
Lemma Inv_slice_close E w c : Inv w c -> Inv w (slice_close E c).
Proof. unfold slice_close. intro I. destruct (e_fix_slice E); [apply Inv_advance_wss|apply Inv_advance]; exact I. Qed.
Lemma Inv_unexpected_left w c : Inv w c -> Inv w (unexpected_left c).
Proof. unfold unexpected_left. intro I. destruct (_ && _); [apply Inv_add_err_at|apply Inv_add_err]; exact I. Qed.
Lemma assert_token_pi t c ok c' : assert_token t c = (ok, c') -> PI c c'.
Proof.
  unfold assert_token. destruct (toktype_beq (cur_t c) t); intro H; inversion H; subst; intros w I; [exact I|apply Inv_add_err; exact I].
Qed.
Lemma Inv_snd_assert t w c : Inv w c -> Inv w (snd (assert_token t c)).
Proof. intro I. destruct (assert_token t c) as [ok c'] eqn:A. exact (assert_token_pi _ _ _ _ A w I). Qed.

(* backward: reduce  Inv w (f (g .. c))  to a hypothesis *)
Ltac inv :=
  repeat match goal with |- context[if ?b then _ else _] => destruct b end;
  repeat first
   [ assumption
   | match goal with
     | H : PI ?a ?b |- Inv _ ?b => apply H
     | A : assert_token _ ?x = (_, ?y) |- Inv _ ?y => apply (assert_token_pi _ _ _ _ A)
     end
   | apply Inv_advance | apply Inv_advance_wss | apply Inv_advance_if_ws | apply Inv_add_err_at | apply Inv_add_err
   | apply Inv_mark_used | apply Inv_slice_close | apply Inv_unexpected_left | apply Inv_snd_assert
   | eapply Inv_pop | apply Inv_push ].
Ltac fin_pi H := solve [ unfold ret in H; injection H as ? ?; subst; intros w I; inv ].

Lemma multiline_ws_pi : forall fuel c c', parse_multiline_ws fuel c = Some c' -> PI c c'.
Proof.
  induction fuel as [|f IH]; intros c c' H; [discriminate|]. cbn [parse_multiline_ws] in H.
  destruct (cur_t c); try (inversion H; subst; apply PI_refl); apply IH in H; intros w I; inv.
Qed.

Lemma parse_type_pi : forall fuel c a c', parse_type fuel c = Some (a, c') -> PI c c'.
Proof.
  induction fuel as [|f IH]; intros c a c' H; [discriminate|]. cbn [parse_type] in H. unfold ret in H.
  destruct (cur_t c); try fin_pi H.
  - destruct (cur_t (advance c)); try fin_pi H.
    destruct (parse_type f (advance (advance c))) as [[sub c2]|] eqn:P; [|discriminate H].
    injection H as ? ?; subst. apply IH in P. intros w I. inv.
  - destruct (cur_t (advance c)); try fin_pi H.
    destruct (parse_type f (advance (advance c))) as [[sub c2]|] eqn:P; [|discriminate H].
    injection H as ? ?; subst. apply IH in P. intros w I. inv.
Qed.

Ltac sub_ne P ::= first [ apply multiline_ws_pi in P | apply parse_type_pi in P ].

Section ExprPI.
Variable E : env.
Variable pe : nat -> pstate -> res (option tree).
Hypothesis HPE : forall p c a c', pe p c = Some (a, c') -> PI c c'.

Ltac sub_ne P ::= first [ apply multiline_ws_pi in P | apply parse_type_pi in P | apply HPE in P ].

Lemma expr_wss_pi c a c' : parse_expr_wss pe c = Some (a, c') -> PI c c'.
Proof. unfold parse_expr_wss. intro H. chew H. fin_pi H. Qed.

Ltac sub_ne P ::= first [ apply multiline_ws_pi in P | apply parse_type_pi in P | apply HPE in P | apply expr_wss_pi in P ].

Lemma expr_list_pi : forall fuel acc c a c', parse_expr_list pe fuel acc c = Some (a, c') -> PI c c'.
Proof.
  induction fuel as [|f IH]; intros acc c a c' H; [discriminate|]. cbn [parse_expr_list] in H.
  assert (D : (if is_at_eol c then ret (Some (rev acc)) c else
            (do (n, st1) <- parse_expr_wss pe c;
             match n with None => ret None st1 | Some t => parse_expr_list pe f (t :: acc) (advance_if_ws st1) end)) = Some (a, c') -> PI c c').
  { clear H. intro H. chew H; try fin_pi H. apply IH in H. intros w I. inv. }
  destruct (cur_t c); try exact (D H); fin_pi H.
Qed.
Ltac sub_ne P ::= first [ apply multiline_ws_pi in P | apply parse_type_pi in P | apply HPE in P | apply expr_wss_pi in P
                        | apply expr_list_pi in P ].

Lemma func_call_pi fuel top nil c a c' : parse_func_call E pe fuel top nil c = Some (a, c') -> PI c c'.
Proof. unfold parse_func_call, tyerr. intro H. chew H; fin_pi H. Qed.
Ltac sub_ne P ::= first [ apply multiline_ws_pi in P | apply parse_type_pi in P | apply HPE in P | apply expr_wss_pi in P
                        | apply expr_list_pi in P | apply func_call_pi in P ].

Lemma toplevel_pi fuel c a c' : parse_toplevel E pe fuel c = Some (a, c') -> PI c c'.
Proof.
  unfold parse_toplevel. intro H.
  destruct (cur_t c); try (apply HPE in H; exact H).
  destruct (func_of E (tlit (cur c))) as [[|]|]; try (apply HPE in H; exact H).
  apply func_call_pi in H. exact H.
Qed.

Lemma lookup_var_pi c a c' : lookup_var E c = Some (a, c') -> PI c c'.
Proof. unfold lookup_var. intro H. chew H; fin_pi H. Qed.

Lemma ident_expr_pi fuel c a c' : parse_ident_expr E pe fuel c = Some (a, c') -> PI c c'.
Proof.
  unfold parse_ident_expr. intro H.
  destruct (func_of E _) as [[|]|]; first [apply func_call_pi in H | apply lookup_var_pi in H]; exact H.
Qed.
Ltac sub_ne P ::= first [ apply multiline_ws_pi in P | apply parse_type_pi in P | apply HPE in P | apply expr_wss_pi in P
                        | apply expr_list_pi in P | apply func_call_pi in P | apply toplevel_pi in P ].

Lemma array_elems_pi : forall fuel acc c a c', parse_array_elems E pe fuel acc c = Some (a, c') -> PI c c'.
Proof.
  induction fuel as [|f IH]; intros acc c a c' H; [discriminate|]. cbn [parse_array_elems] in H. unfold tyerr in H.
  destruct (cur_t c); try fin_pi H;
    (chew H; try fin_pi H; apply IH in H; intros w I; inv).
Qed.

Lemma array_literal_pi fuel c a c' : parse_array_literal E pe fuel c = Some (a, c') -> PI c c'.
Proof.
  unfold parse_array_literal. intro H.
  destruct (parse_multiline_ws fuel (advance c)) as [c2|] eqn:W; [|discriminate H]. apply multiline_ws_pi in W.
  destruct (parse_array_elems E pe fuel [] c2) as [[els c3]|] eqn:P; [|discriminate H]. apply array_elems_pi in P.
  chew H; fin_pi H.
Qed.

Lemma map_pairs_pi : forall fuel acc c a c', parse_map_pairs E pe fuel acc c = Some (a, c') -> PI c c'.
Proof.
  induction fuel as [|f IH]; intros acc c a c' H; [discriminate|]. cbn [parse_map_pairs] in H. unfold tyerr in H.
  destruct (cur_t c); try fin_pi H;
    (set (st0 := match ttype (as_ident (cur c)) with T_IDENT => c | _ => add_err E_map_key c end) in H;
     assert (N0 : PI c st0) by (unfold st0; destruct (ttype (as_ident (cur c))); intros w I; inv);
     chew H; try fin_pi H;
     apply IH in H; intros w I; inv).
Qed.

Lemma map_literal_pi fuel c a c' : parse_map_literal E pe fuel c = Some (a, c') -> PI c c'.
Proof.
  unfold parse_map_literal. intro H.
  destruct (parse_multiline_ws fuel (advance (push_wss false c))) as [c2|] eqn:W; [|discriminate H]. apply multiline_ws_pi in W.
  destruct (parse_map_pairs E pe fuel [] c2) as [[ps c3]|] eqn:P; [|discriminate H]. apply map_pairs_pi in P.
  chew H; fin_pi H.
Qed.

Lemma literal_pi fuel c a c' : parse_literal E pe fuel c = Some (a, c') -> PI c c'.
Proof.
  unfold parse_literal. intro H.
  destruct (ttype (cur c)); try fin_pi H.
  - chew H; fin_pi H.
  - apply array_literal_pi in H. exact H.
  - apply map_literal_pi in H. exact H.
Qed.

Lemma unary_pi c a c' : parse_unary E pe c = Some (a, c') -> PI c c'.
Proof.
  unfold parse_unary, tyerr. intro H.
  set (st2 := if is_ws (prev (advance c)) then add_err_at E_ws_after_unary (here c) (advance c) else advance c) in H.
  assert (N2 : PI c st2) by (unfold st2; intros w I; inv).
  chew H; fin_pi H.
Qed.

Lemma binary_pi left c a c' : parse_binary E pe left c = Some (a, c') -> PI c c'.
Proof. unfold parse_binary, tyerr. intro H. chew H; fin_pi H. Qed.

Lemma grouped_pi fuel c a c' : parse_grouped E pe fuel c = Some (a, c') -> PI c c'.
Proof. unfold parse_grouped. intro H. chew H; fin_pi H. Qed.

Lemma slice_pi fuel tok left start c a c' : parse_slice E pe fuel tok left start c = Some (a, c') -> PI c c'.
Proof.
  unfold parse_slice, tyerr. intro H.
  destruct (e_tyerr E TS_not_sliceable left tok); [fin_pi H|].
  destruct (cur_t c); cbv zeta in H; chew H; fin_pi H.
Qed.
Ltac sub_ne P ::= first [ apply multiline_ws_pi in P | apply parse_type_pi in P | apply HPE in P | apply expr_wss_pi in P
                        | apply expr_list_pi in P | apply func_call_pi in P | apply toplevel_pi in P | apply slice_pi in P ].

Lemma index_or_slice_pi fuel allow left c a c' : parse_index_or_slice E pe fuel allow left c = Some (a, c') -> PI c c'.
Proof. unfold parse_index_or_slice, tyerr. intro H. chew H; fin_pi H. Qed.

Lemma dot_pi left c a c' : parse_dot E left c = Some (a, c') -> PI c c'.
Proof. unfold parse_dot, tyerr. intro H. chew H; fin_pi H. Qed.

Lemma type_assertion_pi fuel left c a c' : parse_type_assertion E fuel left c = Some (a, c') -> PI c c'.
Proof.
  unfold parse_type_assertion, tyerr. intro H.
  destruct (is_ws (prev c)); [fin_pi H|]. destruct (is_ws (look1 (rest c))); [fin_pi H|].
  destruct (parse_type fuel (advance (advance (push_wss false c)))) as [[t c2]|] eqn:P; [|discriminate H]. apply parse_type_pi in P.
  set (st3 := match t with None => add_err_at E_bad_type (here c) c2 | Some TyAny => add_err_at E_assert_any (here c) c2 | Some _ => c2 end) in H.
  assert (N3 : PI c2 st3) by (unfold st3; destruct t as [[]|]; intros w I; inv).
  destruct (assert_token T_RPAREN st3) as [ok c4] eqn:A.
  destruct t; unfold ret in H; injection H as ? ?; subst; intros w I; inv.
Qed.

Lemma prefix_pi fuel c a c' : parse_prefix E pe fuel c = Some (a, c') -> PI c c'.
Proof.
  unfold parse_prefix. intro H.
  destruct (cur_t c); try fin_pi H;
    first [ apply ident_expr_pi in H | apply literal_pi in H | apply unary_pi in H | apply grouped_pi in H ]; exact H.
Qed.

Lemma infix_pi fuel left c r a c' : parse_infix E pe fuel left c = Some r -> r = Some (a, c') -> PI c c'.
Proof.
  unfold parse_infix. intros H R.
  destruct (is_binary_op (cur_t c)).
  - injection H as <-. apply binary_pi in R. exact R.
  - destruct (cur_t c); try discriminate H.
    + injection H as <-. apply index_or_slice_pi in R. exact R.
    + destruct (ttype (peek c)); injection H as <-; first [apply type_assertion_pi in R | apply dot_pi in R]; exact R.
Qed.

End ExprPI.

Lemma expr_pi E : forall fuel,
  (forall p c a c', parse_expr E fuel p c = Some (a, c') -> PI c c') /\
  (forall p l c a c', expr_loop E fuel p l c = Some (a, c') -> PI c c').
Proof.
  induction fuel as [|f [IHe IHl]]; [split; intros; discriminate|].
  split.
  - intros p c a c' H. rewrite parse_expr_unfold in H.
    destruct (parse_prefix E (parse_expr E f) f c) as [[l c1]|] eqn:P; [|discriminate H].
    apply (prefix_pi E (parse_expr E f) IHe) in P.
    destruct l as [lf|].
    + apply IHl in H. eapply PI_trans; eassumption.
    + unfold ret in H. injection H as ? ?; subst. exact P.
  - intros p l c a c' H. rewrite expr_loop_unfold in H.
    destruct (is_at_expr_end c); [unfold ret in H; injection H as ? ?; subst; apply PI_refl|].
    destruct (loop_continues p (precedences (cur_t c))); [|unfold ret in H; injection H as ? ?; subst; apply PI_refl].
    destruct (parse_infix E (parse_expr E f) f l c) as [r|] eqn:PX; [|unfold ret in H; injection H as ? ?; subst; apply PI_refl].
    destruct r as [[l1 c1]|] eqn:R; [|discriminate H].
    pose proof (infix_pi E (parse_expr E f) IHe f l c _ l1 c1 PX eq_refl) as N1.
    destruct l1 as [lf|].
    + apply IHl in H. eapply PI_trans; eassumption.
    + unfold ret in H. injection H as ? ?; subst. exact N1.
Qed.
