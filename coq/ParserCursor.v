(* The cursor of the statement pass: always a suffix of the token list, and the whitespace-sensitivity
   stack is restored by every parser function.  Consequence: a signature pre-pass without errors implies that the
   statement loop never stands on a `func` keyword that is not followed by an identifier (Parser.funcs_named). *)
From Coq Require Import List NArith ZArith Bool Arith String Lia.
From EvyV Require Import Base Pratt Parser ParserProofs ParserRules.
From EvyV.Gen Require Import Prec.
Import ListNotations.
Local Open Scope nat_scope.
Local Set Warnings "-unused-intro-pattern".

Definition sfx (a b : list token) : Prop := exists l, b = l ++ a.
Lemma sfx_refl a : sfx a a. Proof. exists []. reflexivity. Qed.
Lemma sfx_trans a b c : sfx a b -> sfx b c -> sfx a c.
Proof. intros [l1 ->] [l2 ->]. exists (l2 ++ l1). rewrite app_assoc. reflexivity. Qed.
Lemma sfx_tl a b : sfx a b -> sfx (tl a) b.
Proof. intros [l ->]. destruct a as [|x a]; [exists l; reflexivity|]. exists (l ++ [x]). rewrite <- app_assoc. reflexivity. Qed.

Section Cursor.
Variable toks : list token.

Definition Inv (w : list bool) (c : pstate) : Prop := sfx (rest c) toks /\ wss c = w.
(* a parser function from c to c': the cursor stays inside the token list and the wss stack is restored *)
Definition PI (c c' : pstate) : Prop := forall w, Inv w c -> Inv w c'.
Lemma PI_refl c : PI c c. Proof. intros w I; exact I. Qed.
Lemma PI_trans a b c : PI a b -> PI b c -> PI a c. Proof. intros H1 H2 w I. apply H2, H1, I. Qed.

Lemma Inv_advance_wss w c : Inv w c -> Inv w (advance_wss c).
Proof. intros [S W]. split; [simpl; apply sfx_tl; exact S|exact W]. Qed.
Lemma Inv_advance_if_ws w c : Inv w c -> Inv w (advance_if_ws c).
Proof. unfold advance_if_ws. intro I. destruct (is_ws (cur c)); [apply Inv_advance_wss|]; exact I. Qed.
Lemma Inv_advance w c : Inv w c -> Inv w (advance c).
Proof.
  unfold advance. intro I. destruct (is_wss (advance_wss c)); [apply Inv_advance_wss; exact I|].
  pose proof (Inv_advance_if_ws _ _ (Inv_advance_wss _ _ I)) as I2.
  destruct (is_ws (peek (advance_if_ws (advance_wss c)))); [|exact I2]. destruct I2 as [S W]. split; assumption.
Qed.
Lemma Inv_push b w c : Inv w c -> Inv (b :: w) (push_wss b c).
Proof. intros [S W]. split; [exact S|simpl; rewrite W; reflexivity]. Qed.
Lemma Inv_pop b w c : Inv (b :: w) c -> Inv w (pop_wss c).
Proof.
  intros [S W]. unfold pop_wss.
  match goal with |- Inv w (if _ then advance ?x else _) => assert (I1 : Inv w x) by (split; [exact S|simpl; rewrite W; reflexivity]) end.
  destruct (_ && _); [apply Inv_advance|]; exact I1.
Qed.
Lemma Inv_add_err_at e n w c : Inv w c -> Inv w (add_err_at e n c).
Proof. intros [S W]. split; assumption. Qed.
Lemma Inv_add_err e w c : Inv w c -> Inv w (add_err e c).
Proof. apply Inv_add_err_at. Qed.
Lemma Inv_mark_used n w c : Inv w c -> Inv w (mark_used n c).
Proof. intros [S W]. split; assumption. Qed.
Lemma Inv_slice_close E w c : Inv w c -> Inv w (slice_close E c).
Proof. unfold slice_close. intro I. destruct (e_fix_slice E); [apply Inv_advance_wss|apply Inv_advance]; exact I. Qed.
Lemma Inv_unexpected_left w c : Inv w c -> Inv w (unexpected_left c).
Proof. unfold unexpected_left. intro I. destruct (_ && _); [apply Inv_add_err_at|apply Inv_add_err]; exact I. Qed.
Lemma assert_token_pi t c ok c' : assert_token t c = (ok, c') -> PI c c'.
Proof.
  unfold assert_token. destruct (toktype_beq (cur_t c) t); intro H; inversion H; subst; intros w I; [exact I|apply Inv_add_err; exact I].
Qed.
Lemma Inv_snd_assert t w c : Inv w c -> Inv w (snd (assert_token t c)).
Proof. intro I. destruct (assert_token t c) as [ok c'] eqn:A. exact (assert_token_pi _ _ _ _ A w I). Qed.

(* backward: reduce  Inv w (f (g .. c))  to a hypothesis *)
Ltac inv :=
  repeat match goal with |- context[if ?b then _ else _] => destruct b end;
  repeat first
   [ assumption
   | match goal with
     | H : PI ?a ?b |- Inv _ ?b => apply H
     | A : assert_token _ ?x = (_, ?y) |- Inv _ ?y => apply (assert_token_pi _ _ _ _ A)
     end
   | apply Inv_advance | apply Inv_advance_wss | apply Inv_advance_if_ws | apply Inv_add_err_at | apply Inv_add_err
   | apply Inv_mark_used | apply Inv_slice_close | apply Inv_unexpected_left | apply Inv_snd_assert
   | eapply Inv_pop | apply Inv_push ].
Ltac fin_pi H := solve [ unfold ret in H; injection H as ? ?; subst; intros w I; inv ].

Lemma multiline_ws_pi : forall fuel c c', parse_multiline_ws fuel c = Some c' -> PI c c'.
Proof.
  induction fuel as [|f IH]; intros c c' H; [discriminate|]. cbn [parse_multiline_ws] in H.
  destruct (cur_t c); try (inversion H; subst; apply PI_refl); apply IH in H; intros w I; inv.
Qed.

Lemma parse_type_pi : forall fuel c a c', parse_type fuel c = Some (a, c') -> PI c c'.
Proof.
  induction fuel as [|f IH]; intros c a c' H; [discriminate|]. cbn [parse_type] in H. unfold ret in H.
  destruct (cur_t c); try fin_pi H.
  - destruct (cur_t (advance c)); try fin_pi H.
    destruct (parse_type f (advance (advance c))) as [[sub c2]|] eqn:P; [|discriminate H].
    injection H as ? ?; subst. apply IH in P. intros w I. inv.
  - destruct (cur_t (advance c)); try fin_pi H.
    destruct (parse_type f (advance (advance c))) as [[sub c2]|] eqn:P; [|discriminate H].
    injection H as ? ?; subst. apply IH in P. intros w I. inv.
Qed.

Ltac sub_ne P ::= first [ apply multiline_ws_pi in P | apply parse_type_pi in P ].

Section ExprPI.
Variable E : env.
Variable pe : nat -> pstate -> res (option tree).
Hypothesis HPE : forall p c a c', pe p c = Some (a, c') -> PI c c'.

Ltac sub_ne P ::= first [ apply multiline_ws_pi in P | apply parse_type_pi in P | apply HPE in P ].

Lemma expr_wss_pi c a c' : parse_expr_wss pe c = Some (a, c') -> PI c c'.
Proof. unfold parse_expr_wss. intro H. chew H. fin_pi H. Qed.

Ltac sub_ne P ::= first [ apply multiline_ws_pi in P | apply parse_type_pi in P | apply HPE in P | apply expr_wss_pi in P ].

Lemma expr_list_pi : forall fuel acc c a c', parse_expr_list pe fuel acc c = Some (a, c') -> PI c c'.
Proof.
  induction fuel as [|f IH]; intros acc c a c' H; [discriminate|]. cbn [parse_expr_list] in H.
  assert (D : (if is_at_eol c then ret (Some (rev acc)) c else
            (do (n, st1) <- parse_expr_wss pe c;
             match n with None => ret None st1 | Some t => parse_expr_list pe f (t :: acc) (advance_if_ws st1) end)) = Some (a, c') -> PI c c').
  { clear H. intro H. chew H; try fin_pi H. apply IH in H. intros w I. inv. }
  destruct (cur_t c); try exact (D H); fin_pi H.
Qed.
Ltac sub_ne P ::= first [ apply multiline_ws_pi in P | apply parse_type_pi in P | apply HPE in P | apply expr_wss_pi in P
                        | apply expr_list_pi in P ].

Lemma func_call_pi fuel top nil c a c' : parse_func_call E pe fuel top nil c = Some (a, c') -> PI c c'.
Proof. unfold parse_func_call, tyerr. intro H. chew H; fin_pi H. Qed.
Ltac sub_ne P ::= first [ apply multiline_ws_pi in P | apply parse_type_pi in P | apply HPE in P | apply expr_wss_pi in P
                        | apply expr_list_pi in P | apply func_call_pi in P ].

Lemma toplevel_pi fuel c a c' : parse_toplevel E pe fuel c = Some (a, c') -> PI c c'.
Proof.
  unfold parse_toplevel. intro H.
  destruct (cur_t c); try (apply HPE in H; exact H).
  destruct (func_of E (tlit (cur c))) as [[|]|]; try (apply HPE in H; exact H).
  apply func_call_pi in H. exact H.
Qed.

Lemma lookup_var_pi c a c' : lookup_var E c = Some (a, c') -> PI c c'.
Proof. unfold lookup_var. intro H. chew H; fin_pi H. Qed.

Lemma ident_expr_pi fuel c a c' : parse_ident_expr E pe fuel c = Some (a, c') -> PI c c'.
Proof.
  unfold parse_ident_expr. intro H.
  destruct (func_of E _) as [[|]|]; first [apply func_call_pi in H | apply lookup_var_pi in H]; exact H.
Qed.
Ltac sub_ne P ::= first [ apply multiline_ws_pi in P | apply parse_type_pi in P | apply HPE in P | apply expr_wss_pi in P
                        | apply expr_list_pi in P | apply func_call_pi in P | apply toplevel_pi in P ].

Lemma array_elems_pi : forall fuel acc c a c', parse_array_elems E pe fuel acc c = Some (a, c') -> PI c c'.
Proof.
  induction fuel as [|f IH]; intros acc c a c' H; [discriminate|]. cbn [parse_array_elems] in H. unfold tyerr in H.
  destruct (cur_t c); try fin_pi H;
    (chew H; try fin_pi H; apply IH in H; intros w I; inv).
Qed.

Lemma array_literal_pi fuel c a c' : parse_array_literal E pe fuel c = Some (a, c') -> PI c c'.
Proof.
  unfold parse_array_literal. intro H.
  destruct (parse_multiline_ws fuel (advance c)) as [c2|] eqn:W; [|discriminate H]. apply multiline_ws_pi in W.
  destruct (parse_array_elems E pe fuel [] c2) as [[els c3]|] eqn:P; [|discriminate H]. apply array_elems_pi in P.
  chew H; fin_pi H.
Qed.

Lemma map_pairs_pi : forall fuel acc c a c', parse_map_pairs E pe fuel acc c = Some (a, c') -> PI c c'.
Proof.
  induction fuel as [|f IH]; intros acc c a c' H; [discriminate|]. cbn [parse_map_pairs] in H. unfold tyerr in H.
  destruct (cur_t c); try fin_pi H;
    (set (st0 := match ttype (as_ident (cur c)) with T_IDENT => c | _ => add_err E_map_key c end) in H;
     assert (N0 : PI c st0) by (unfold st0; destruct (ttype (as_ident (cur c))); intros w I; inv);
     chew H; try fin_pi H;
     apply IH in H; intros w I; inv).
Qed.

Lemma map_literal_pi fuel c a c' : parse_map_literal E pe fuel c = Some (a, c') -> PI c c'.
Proof.
  unfold parse_map_literal. intro H.
  destruct (parse_multiline_ws fuel (advance (push_wss false c))) as [c2|] eqn:W; [|discriminate H]. apply multiline_ws_pi in W.
  destruct (parse_map_pairs E pe fuel [] c2) as [[ps c3]|] eqn:P; [|discriminate H]. apply map_pairs_pi in P.
  chew H; fin_pi H.
Qed.

Lemma literal_pi fuel c a c' : parse_literal E pe fuel c = Some (a, c') -> PI c c'.
Proof.
  unfold parse_literal. intro H.
  destruct (ttype (cur c)); try fin_pi H.
  - chew H; fin_pi H.
  - apply array_literal_pi in H. exact H.
  - apply map_literal_pi in H. exact H.
Qed.

Lemma unary_pi c a c' : parse_unary E pe c = Some (a, c') -> PI c c'.
Proof.
  unfold parse_unary, tyerr. intro H.
  set (st2 := if is_ws (prev (advance c)) then add_err_at E_ws_after_unary (here c) (advance c) else advance c) in H.
  assert (N2 : PI c st2) by (unfold st2; intros w I; inv).
  chew H; fin_pi H.
Qed.

Lemma binary_pi left c a c' : parse_binary E pe left c = Some (a, c') -> PI c c'.
Proof. unfold parse_binary, tyerr. intro H. chew H; fin_pi H. Qed.

Lemma grouped_pi fuel c a c' : parse_grouped E pe fuel c = Some (a, c') -> PI c c'.
Proof. unfold parse_grouped. intro H. chew H; fin_pi H. Qed.

Lemma slice_pi fuel tok left start c a c' : parse_slice E pe fuel tok left start c = Some (a, c') -> PI c c'.
Proof.
  unfold parse_slice, tyerr. intro H.
  destruct (e_tyerr E TS_not_sliceable left tok); [fin_pi H|].
  destruct (cur_t c); cbv zeta in H; chew H; fin_pi H.
Qed.
Ltac sub_ne P ::= first [ apply multiline_ws_pi in P | apply parse_type_pi in P | apply HPE in P | apply expr_wss_pi in P
                        | apply expr_list_pi in P | apply func_call_pi in P | apply toplevel_pi in P | apply slice_pi in P ].

Lemma index_or_slice_pi fuel allow left c a c' : parse_index_or_slice E pe fuel allow left c = Some (a, c') -> PI c c'.
Proof. unfold parse_index_or_slice, tyerr. intro H. chew H; fin_pi H. Qed.

Lemma dot_pi left c a c' : parse_dot E left c = Some (a, c') -> PI c c'.
Proof. unfold parse_dot, tyerr. intro H. chew H; fin_pi H. Qed.

Lemma type_assertion_pi fuel left c a c' : parse_type_assertion E fuel left c = Some (a, c') -> PI c c'.
Proof.
  unfold parse_type_assertion, tyerr. intro H.
  destruct (is_ws (prev c)); [fin_pi H|]. destruct (is_ws (look1 (rest c))); [fin_pi H|].
  destruct (parse_type fuel (advance (advance (push_wss false c)))) as [[t c2]|] eqn:P; [|discriminate H]. apply parse_type_pi in P.
  set (st3 := match t with None => add_err_at E_bad_type (here c) c2 | Some TyAny => add_err_at E_assert_any (here c) c2 | Some _ => c2 end) in H.
  assert (N3 : PI c2 st3) by (unfold st3; destruct t as [[]|]; intros w I; inv).
  destruct (assert_token T_RPAREN st3) as [ok c4] eqn:A.
  destruct t; unfold ret in H; injection H as ? ?; subst; intros w I; inv.
Qed.

Lemma prefix_pi fuel c a c' : parse_prefix E pe fuel c = Some (a, c') -> PI c c'.
Proof.
  unfold parse_prefix. intro H.
  destruct (cur_t c); try fin_pi H;
    first [ apply ident_expr_pi in H | apply literal_pi in H | apply unary_pi in H | apply grouped_pi in H ]; exact H.
Qed.

Lemma infix_pi fuel left c r a c' : parse_infix E pe fuel left c = Some r -> r = Some (a, c') -> PI c c'.
Proof.
  unfold parse_infix. intros H R.
  destruct (is_binary_op (cur_t c)).
  - injection H as <-. apply binary_pi in R. exact R.
  - destruct (cur_t c); try discriminate H.
    + injection H as <-. apply index_or_slice_pi in R. exact R.
    + destruct (ttype (peek c)); injection H as <-; first [apply type_assertion_pi in R | apply dot_pi in R]; exact R.
Qed.

End ExprPI.

Lemma expr_pi E : forall fuel,
  (forall p c a c', parse_expr E fuel p c = Some (a, c') -> PI c c') /\
  (forall p l c a c', expr_loop E fuel p l c = Some (a, c') -> PI c c').
Proof.
  induction fuel as [|f [IHe IHl]]; [split; intros; discriminate|].
  split.
  - intros p c a c' H. rewrite parse_expr_unfold in H.
    destruct (parse_prefix E (parse_expr E f) f c) as [[l c1]|] eqn:P; [|discriminate H].
    apply (prefix_pi E (parse_expr E f) IHe) in P.
    destruct l as [lf|].
    + apply IHl in H. eapply PI_trans; eassumption.
    + unfold ret in H. injection H as ? ?; subst. exact P.
  - intros p l c a c' H. rewrite expr_loop_unfold in H.
    destruct (is_at_expr_end c); [unfold ret in H; injection H as ? ?; subst; apply PI_refl|].
    destruct (loop_continues p (precedences (cur_t c))); [|unfold ret in H; injection H as ? ?; subst; apply PI_refl].
    destruct (parse_infix E (parse_expr E f) f l c) as [r|] eqn:PX; [|unfold ret in H; injection H as ? ?; subst; apply PI_refl].
    destruct r as [[l1 c1]|] eqn:R; [|discriminate H].
    pose proof (infix_pi E (parse_expr E f) IHe f l c _ l1 c1 PX eq_refl) as N1.
    destruct l1 as [lf|].
    + apply IHl in H. eapply PI_trans; eassumption.
    + unfold ret in H. injection H as ? ?; subst. exact N1.
Qed.

(* ================================================================ *)
(** * The statement parser                                           *)

Definition SI (w : list bool) (s : pst) : Prop := Inv w (cs s).
Definition SPI (s s' : pst) : Prop := forall w, SI w s -> SI w s'.
Lemma SPI_refl s : SPI s s. Proof. intros w I; exact I. Qed.
Lemma SPI_trans a b c : SPI a b -> SPI b c -> SPI a c. Proof. intros H1 H2 w I. apply H2, H1, I. Qed.

Lemma SI_cs w s s' : cs s' = cs s -> SI w s -> SI w s'.
Proof. unfold SI. intros ->. auto. Qed.
Lemma SI_upd f w s : (forall c, Inv w c -> Inv w (f c)) -> SI w s -> SI w (upd f s).
Proof. intros Hf I. apply Hf. exact I. Qed.
Lemma SI_adv w s : SI w s -> SI w (adv s). Proof. apply Inv_advance. Qed.
Lemma Inv_apnl_loop w : forall fuel c, Inv w c -> Inv w (apnl_loop fuel c).
Proof.
  induction fuel as [|f IH]; intros c I; [exact I|]. cbn [apnl_loop].
  destruct (cur_t c); try (apply IH; apply Inv_advance; exact I); first [exact I | apply Inv_advance; exact I].
Qed.
Lemma SI_apnl w s : SI w s -> SI w (apnl s). Proof. apply Inv_apnl_loop. Qed.
Lemma SI_serr_at k n w s : SI w s -> SI w (serr_at k n s). Proof. apply Inv_add_err_at. Qed.
Lemma SI_serr k w s : SI w s -> SI w (serr k s). Proof. apply Inv_add_err_at. Qed.
Lemma SI_upd_err e n w s : SI w s -> SI w (upd (add_err_at e n) s). Proof. apply Inv_add_err_at. Qed.
Lemma SI_ty_err_here site w s : SI w s -> SI w (ty_err_here site s). Proof. apply Inv_add_err. Qed.
Lemma SI_assert_eol w s : SI w s -> SI w (assert_eol s).
Proof. unfold assert_eol. intro I. destruct (is_at_eol (cs s)); [exact I|apply SI_serr; exact I]. Qed.
Lemma passert_spi t s ok s' : passert t s = (ok, s') -> SPI s s'.
Proof.
  unfold passert. destruct (assert_token t (cs s)) as [o c] eqn:A. intro H. injection H as ? ?; subst.
  intros w I. exact (assert_token_pi _ _ _ _ A w I).
Qed.
Lemma SI_passert t w s : SI w s -> SI w (snd (passert t s)).
Proof. intro I. destruct (passert t s) as [ok s'] eqn:A. exact (passert_spi _ _ _ _ A w I). Qed.
Lemma SI_scope_set n p w s : SI w s -> SI w (scope_set n p s).
Proof. unfold scope_set. intro I. destruct (str_eqb _ _); [exact I|]. destruct (scs s); exact I. Qed.
Lemma SI_mark n w s : SI w s -> SI w (mark n s). Proof. exact (fun I => I). Qed.
Lemma SI_push_scope a b c w s : SI w s -> SI w (push_scope a b c s). Proof. exact (fun I => I). Qed.
Lemma SI_push_inherit b w s : SI w s -> SI w (push_inherit b s). Proof. exact (fun I => I). Qed.
Lemma SI_pop_scope w s : SI w s -> SI w (pop_scope s). Proof. exact (fun I => I). Qed.
Lemma SI_rec w s b h : SI w s -> SI w {| cs := cs s; scs := scs s; fns := fns s; bodies := b; hds := h |}. Proof. exact (fun I => I). Qed.
Lemma SI_validate_scope w s : SI w s -> SI w (validate_scope s).
Proof.
  unfold validate_scope. intro I. destruct (scs s) as [|sc r]; [exact I|].
  generalize (sort_by_pos (filter (fun v => negb (v_used v)) (sc_vars sc))). intro l. revert s I.
  induction l as [|x l IH]; intros s I; simpl; [exact I|]. apply IH. apply SI_serr_at. exact I.
Qed.
Lemma vvd_spi B n p a s ok s' : validate_var_decl B n p a s = (ok, s') -> SPI s s'.
Proof.
  unfold validate_var_decl. intro H.
  repeat match type of H with (if ?b then _ else _) = _ => destruct b end; injection H as ? ?; subst; intros w I;
    try apply SI_serr_at; exact I.
Qed.
Lemma SI_vvd B n p a w s : SI w s -> SI w (snd (validate_var_decl B n p a s)).
Proof. intro I. destruct (validate_var_decl B n p a s) as [ok s'] eqn:V. exact (vvd_spi _ _ _ _ _ _ _ V w I). Qed.
Lemma SI_finish_end w s : SI w s -> SI w (finish_end s).
Proof. unfold finish_end. intro I. apply SI_apnl, SI_assert_eol, SI_adv, SI_passert. exact I. Qed.
Lemma Inv_collect w s c : Inv w c -> SI w (collect s c).
Proof.
  unfold collect, SI. intros [S W].
  assert (F : forall l s0, cs (fold_right mark s0 l) = cs s0) by (induction l; intro; simpl; auto).
  unfold upd, with_cs. simpl. rewrite F. simpl. split; assumption.
Qed.
Lemma expr_call_spi {A} B (f : env -> nat -> pstate -> res A) s a s' :
  (forall E fu c x c', f E fu c = Some (x, c') -> PI c c') -> expr_call B f s = Ok a s' -> SPI s s'.
Proof.
  unfold expr_call. intros Hf H. destruct (f _ _ _) as [[x c]|] eqn:P; [|discriminate H].
  injection H as ? ?; subst. intros w I. apply Inv_collect. exact (Hf _ _ _ _ _ P w I).
Qed.
Lemma p_toplevel_spi B s a s' : p_toplevel B s = Ok a s' -> SPI s s'.
Proof. apply expr_call_spi. intros E fu c x c'. apply toplevel_pi. apply (expr_pi E fu). Qed.
Lemma p_expr_list_spi B s a s' : p_expr_list B s = Ok a s' -> SPI s s'.
Proof. apply expr_call_spi. intros E fu c x c'. apply expr_list_pi. apply (expr_pi E fu). Qed.
Lemma p_func_call_spi B nil s a s' : p_func_call B nil s = Ok a s' -> SPI s s'.
Proof. apply expr_call_spi. intros E fu c x c'. apply func_call_pi. apply (expr_pi E fu). Qed.
Lemma p_index_spi B left s a s' : p_index B left s = Ok a s' -> SPI s s'.
Proof. apply expr_call_spi. intros E fu c x c'. apply index_or_slice_pi. apply (expr_pi E fu). Qed.
Lemma p_dot_spi B left s a s' : p_dot B left s = Ok a s' -> SPI s s'.
Proof. apply expr_call_spi. intros E fu c x c'. apply dot_pi. Qed.
Lemma p_type_spi B s a s' : p_type B s = Ok a s' -> SPI s s'.
Proof. apply expr_call_spi. intros E fu c x c'. apply parse_type_pi. Qed.

(* backward: reduce  SI w (f (g .. s))  to a hypothesis *)
Ltac sinv :=
  repeat match goal with |- context[match ?m with _ => _ end] => destruct m eqn:? end;
  cbn [fst snd];
  repeat first
   [ assumption
   | match goal with
     | H : SPI ?a ?b |- SI _ ?b => apply H
     | A : passert _ ?x = (_, ?y) |- SI _ ?y => apply (passert_spi _ _ _ _ A)
     | V : validate_var_decl _ _ _ _ ?x = (_, ?y) |- SI _ ?y => apply (vvd_spi _ _ _ _ _ _ _ V)
     end
   | match goal with
     | |- SI _ (adv _) => apply SI_adv
     | |- SI _ (apnl _) => apply SI_apnl
     | |- SI _ (serr_at _ _ _) => apply SI_serr_at
     | |- SI _ (serr _ _) => apply SI_serr
     | |- SI _ (upd (add_err_at _ _) _) => apply SI_upd_err
     | |- SI _ (ty_err_here _ _) => apply SI_ty_err_here
     | |- SI _ (assert_eol _) => apply SI_assert_eol
     | |- SI _ (snd (passert _ _)) => apply SI_passert
     | |- SI _ (scope_set _ _ _) => apply SI_scope_set
     | |- SI _ (mark _ _) => apply SI_mark
     | |- SI _ (push_scope _ _ _ _) => apply SI_push_scope
     | |- SI _ (push_inherit _ _) => apply SI_push_inherit
     | |- SI _ (pop_scope _) => apply SI_pop_scope
     | |- SI _ {| cs := cs _; scs := _; fns := _; bodies := _; hds := _ |} => apply SI_rec
     | |- SI _ (validate_scope _) => apply SI_validate_scope
     | |- SI _ (snd (validate_var_decl _ _ _ _ _)) => apply SI_vvd
     | |- SI _ (finish_end _) => apply SI_finish_end
     end
   | match goal with |- context[match ?m with _ => _ end] => destruct m eqn:?; cbn [fst snd] end ].

Ltac sub_spi P :=
  first [ apply p_toplevel_spi in P | apply p_expr_list_spi in P | apply p_func_call_spi in P | apply p_index_spi in P
        | apply p_dot_spi in P | apply p_type_spi in P ].
Ltac schew H :=
  repeat (first
    [ discriminate H
    | match type of H with
      | Ok _ _ = Ok _ _ => fail 1
      | (match ?m with _ => _ end) = Ok _ _ =>
          lazymatch m with
          | context[match _ with _ => _ end] => fail
          | _ => let P := fresh "P" in first [ destruct m as [? ?| |] eqn:P | destruct m eqn:P ]; try sub_spi P
          end
      end ]).
Ltac sfin H := solve [ apply Ok_inj in H as [? ?]; subst; intros w I; sinv ].

Section StmtPI.
Variable B : benv.

Lemma typed_decl_spi s d s' : parse_typed_decl B s = Ok d s' -> SPI s s'.
Proof. unfold parse_typed_decl. intro H. schew H; sfin H. Qed.
Ltac sub_spi P ::=
  first [ apply p_toplevel_spi in P | apply p_expr_list_spi in P | apply p_func_call_spi in P | apply p_index_spi in P
        | apply p_dot_spi in P | apply p_type_spi in P | apply typed_decl_spi in P ].

Lemma typed_decl_stmt_spi s r s' : parse_typed_decl_stmt B s = Ok r s' -> SPI s s'.
Proof. unfold parse_typed_decl_stmt. intro H. schew H; sfin H. Qed.

Lemma inferred_decl_stmt_spi s r s' : parse_inferred_decl_stmt B s = Ok r s' -> SPI s s'.
Proof. unfold parse_inferred_decl_stmt. intro H. cbv zeta in H. schew H; sfin H. Qed.

Lemma assign_target_loop_spi : forall fuel tok n s r s', assign_target_loop B fuel tok n s = Ok r s' -> SPI s s'.
Proof.
  induction fuel as [|f IH]; intros tok n s r s' H; [discriminate|]. cbn [assign_target_loop] in H.
  destruct (ct s); try (apply Ok_inj in H as [? ?]; subst; apply SPI_refl).
  - destruct (tyerr_s B _ _ _); [sfin H|].
    destruct (p_index B n s) as [x s1| |] eqn:P; try discriminate H. apply p_index_spi in P.
    destruct x; [apply IH in H; eapply SPI_trans; eassumption|sfin H].
  - destruct (p_dot B n s) as [x s1| |] eqn:P; try discriminate H. apply p_dot_spi in P.
    destruct x; [apply IH in H; eapply SPI_trans; eassumption|sfin H].
Qed.

Lemma assign_target_spi s r s' : parse_assign_target B s = Ok r s' -> SPI s s'.
Proof.
  unfold parse_assign_target. intro H.
  destruct (str_eqb _ _); [sfin H|]. destruct (negb _); [sfin H|].
  apply assign_target_loop_spi in H. intros w I. apply H. sinv.
Qed.
Ltac sub_spi P ::=
  first [ apply p_toplevel_spi in P | apply p_expr_list_spi in P | apply p_func_call_spi in P | apply p_index_spi in P
        | apply p_dot_spi in P | apply p_type_spi in P | apply typed_decl_spi in P | apply assign_target_spi in P ].

Lemma assign_stmt_spi s r s' : parse_assign_stmt B s = Ok r s' -> SPI s s'.
Proof. unfold parse_assign_stmt. intro H. cbv zeta in H. schew H; sfin H. Qed.

Lemma call_stmt_spi s r s' : parse_call_stmt B s = Ok r s' -> SPI s s'.
Proof. unfold parse_call_stmt. intro H. schew H; sfin H. Qed.

Lemma break_stmt_spi s r s' : parse_break_stmt s = Ok r s' -> SPI s s'.
Proof. unfold parse_break_stmt. intro H. sfin H. Qed.

Lemma return_stmt_spi s r s' : parse_return_stmt B s = Ok r s' -> SPI s s'.
Proof.
  unfold parse_return_stmt. intro H. cbv zeta in H.
  destruct (is_at_eol (cs (adv s))); [sfin H|].
  destruct (p_toplevel B (adv s)) as [x s2| |] eqn:P; try discriminate H. apply p_toplevel_spi in P.
  destruct x; sfin H.
Qed.

Lemma condition_spi s r s' : parse_condition B s = Ok r s' -> SPI s s'.
Proof. unfold parse_condition. intro H. schew H; sfin H. Qed.

Lemma empty_stmt_spi s r s' : parse_empty_stmt s = Ok r s' -> SPI s s'.
Proof. unfold parse_empty_stmt. intro H. destruct (ct s); try discriminate H; sfin H. Qed.

(* ---- the part that is open in parseStatement ---- *)
Variable ps : pst -> PR (option stmt).
Hypothesis HPS : forall s r s', ps s = Ok r s' -> SPI s s'.

Lemma block_loop_spi : forall fuel els acc terms s b s', block_loop ps fuel els acc terms s = Ok b s' -> SPI s s'.
Proof.
  induction fuel as [|f IH]; intros els acc terms s b s' H; [discriminate|]. cbn [block_loop] in H.
  destruct (match ct s with T_END | T_EOF => true | T_ELSE => els | _ => false end);
    [apply Ok_inj in H as [? ?]; subst; apply SPI_refl|].
  destruct (ps s) as [r s1| |] eqn:P; try discriminate H. apply HPS in P.
  destruct r as [st|]; [destruct (terms && negb (is_empty_stmt st))|]; apply IH in H;
    (eapply SPI_trans; [exact P|]); [|exact H|exact H].
  intros w I. apply H. sinv.
Qed.

Lemma block_with_spi fuel els s b s' : parse_block_with ps fuel els s = Ok b s' -> SPI s s'.
Proof.
  unfold parse_block_with. intro H.
  destruct (block_loop ps fuel els [] false s) as [b1 s1| |] eqn:P; try discriminate H. apply block_loop_spi in P.
  sfin H.
Qed.
Ltac sub_spi P ::=
  first [ apply p_toplevel_spi in P | apply p_expr_list_spi in P | apply p_func_call_spi in P | apply p_index_spi in P
        | apply p_dot_spi in P | apply p_type_spi in P | apply typed_decl_spi in P | apply assign_target_spi in P
        | apply condition_spi in P | apply block_with_spi in P ].

Lemma while_stmt_spi fuel s r s' : parse_while_stmt B ps fuel s = Ok r s' -> SPI s s'.
Proof. unfold parse_while_stmt. intro H. cbv zeta in H. schew H; sfin H. Qed.

Lemma if_cond_block_spi fuel s cb s' : parse_if_cond_block B ps fuel s = Ok cb s' -> SPI s s'.
Proof. unfold parse_if_cond_block. intro H. cbv zeta in H. schew H; sfin H. Qed.

Lemma else_if_loop_spi : forall fuel bfuel acc s r s', else_if_loop B ps fuel bfuel acc s = Ok r s' -> SPI s s'.
Proof.
  induction fuel as [|f IH]; intros bfuel acc s r s' H; [discriminate|]. cbn [else_if_loop] in H.
  destruct (ct s); try (apply Ok_inj in H as [? ?]; subst; apply SPI_refl).
  destruct (ttype (peek (cs s))); try (apply Ok_inj in H as [? ?]; subst; apply SPI_refl).
  destruct (parse_if_cond_block B ps bfuel (adv s)) as [cb s1| |] eqn:P; try discriminate H.
  apply if_cond_block_spi in P. apply IH in H. intros w I. apply H, P. sinv.
Qed.

Lemma if_stmt_spi fuel s r s' : parse_if_stmt B ps fuel s = Ok r s' -> SPI s s'.
Proof.
  unfold parse_if_stmt. intro H.
  destruct (parse_if_cond_block B ps fuel s) as [cb s1| |] eqn:P1; try discriminate H. apply if_cond_block_spi in P1.
  destruct (else_if_loop B ps (S (pos s1)) fuel [cb] s1) as [brs s2| |] eqn:P2; try discriminate H. apply else_if_loop_spi in P2.
  destruct (ct s2); try sfin H.
  cbv zeta in H. destruct (parse_block_with ps fuel false _) as [b s4| |] eqn:PB; try discriminate H.
  apply block_with_spi in PB. sfin H.
Qed.

Lemma for_stmt_spi fuel s r s' : parse_for_stmt B ps fuel s = Ok r s' -> SPI s s'.
Proof.
  unfold parse_for_stmt. intro H. cbv zeta in H.
  set (s1 := adv (push_inherit true s)) in H.
  match type of H with (match ?lv with _ => _ end) = _ => set (LV := lv) in H end.
  assert (NL : SPI s (snd LV)).
  { unfold LV, s1. intros w I. destruct (ct _); cbn [snd]; sinv. }
  destruct LV as [[v|] s4]; cbn [snd] in NL; [|sfin H].
  destruct (passert T_RANGE s4) as [ok s5] eqn:A.
  destruct ok; cbn [negb] in H; [|sfin H].
  destruct (p_expr_list B (adv s5)) as [ns s7| |] eqn:P; try discriminate H. apply p_expr_list_spi in P.
  destruct (match ns with Some l => l | None => [] end) as [|n more]; [sfin H|].
  destruct (_ && _); [sfin H|].
  destruct (parse_block_with ps fuel false _) as [b s10| |] eqn:PB; try discriminate H. apply block_with_spi in PB.
  sfin H.
Qed.

Lemma statement_body_spi fuel s r s' : parse_statement_body B ps fuel s = Ok r s' -> SPI s s'.
Proof.
  unfold parse_statement_body. intro H.
  destruct (ct s); try sfin H.
  - apply empty_stmt_spi in H. exact H.
  - destruct (ttype (peek (cs s)));
      try (apply assign_stmt_spi in H; exact H); try (apply typed_decl_stmt_spi in H; exact H);
      try (apply inferred_decl_stmt_spi in H; exact H);
      (destruct (is_func (tlit (cur (cs s))) s); [apply call_stmt_spi in H; exact H|]);
      try (apply assign_stmt_spi in H; exact H); sfin H.
  - apply empty_stmt_spi in H. exact H.
  - apply if_stmt_spi in H. exact H.
  - apply return_stmt_spi in H. exact H.
  - apply for_stmt_spi in H. exact H.
  - apply while_stmt_spi in H. exact H.
Qed.

End StmtPI.

Section ProgramPI.
Variable B : benv.

Theorem stmt_spi : forall fuel s r s', parse_statement B fuel s = Ok r s' -> SPI s s'.
Proof.
  induction fuel as [|f IH]; intros s r s' H; [discriminate|]. cbn [parse_statement] in H.
  apply (statement_body_spi B (parse_statement B f) IH) in H. exact H.
Qed.

Lemma parse_block_spi fuel s b s' : parse_block B fuel s = Ok b s' -> SPI s s'.
Proof. unfold parse_block. apply block_with_spi. apply stmt_spi. Qed.

Lemma add_params_spi l : forall s, SPI s (add_params B l s).
Proof.
  unfold add_params. induction l as [|x l IH]; intro s; simpl; [apply SPI_refl|].
  eapply SPI_trans; [|apply IH]. intros w I. sinv.
Qed.

Lemma on_params_loop_spi : forall fuel acc s r s', on_params_loop B fuel acc s = Ok r s' -> SPI s s'.
Proof.
  induction fuel as [|f IH]; intros acc s r s' H; [discriminate|]. cbn [on_params_loop] in H.
  destruct (is_at_eol (cs s)); [apply Ok_inj in H as [? ?]; subst; apply SPI_refl|].
  destruct (parse_typed_decl B (snd (passert T_IDENT s))) as [d s1| |] eqn:P; try discriminate H.
  apply typed_decl_spi in P. apply IH in H. intros w I. apply H, P. sinv.
Qed.

Lemma add_event_params_spi ps : forall ex s, SPI s (add_event_params B ps ex s).
Proof.
  induction ps as [|[[n p] t] ps IH]; intros ex s; simpl; [apply SPI_refl|].
  destruct ex as [|e ex]; [apply SPI_refl|].
  eapply SPI_trans; [|apply IH]. intros w I. sinv.
Qed.

Lemma func_spi fuel s r s' : parse_func B fuel s = Ok r s' -> SPI s s'.
Proof.
  unfold parse_func. intro H. cbv zeta in H.
  match type of H with context[parse_block B fuel ?x] => set (s3 := x) in H end.
  destruct (parse_block B fuel s3) as [b s4| |] eqn:PB; try discriminate H. apply parse_block_spi in PB.
  assert (N3 : SPI s s3) by (unfold s3; intros w I; apply add_params_spi; sinv).
  destruct (negb _); [sfin H|]. destruct (mem_str _ _); [sfin H|].
  apply Ok_inj in H as [? ?]; subst. intros w I.
  match goal with |- SI w (pop_scope {| cs := cs ?x; scs := _; fns := _; bodies := _; hds := _ |}) => apply (SI_cs w x); [reflexivity|] end.
  sinv.
Qed.

Lemma event_handler_spi fuel s r s' : parse_event_handler B fuel s = Ok r s' -> SPI s s'.
Proof.
  unfold parse_event_handler. intro H. cbv zeta in H.
  destruct (passert T_IDENT (adv s)) as [ok s2] eqn:A.
  destruct ok; cbn [negb] in H; [|sfin H].
  match type of H with context[on_params_loop B _ [] (adv ?x)] => set (s3 := x) in H end.
  assert (N3 : SPI s2 s3).
  { unfold s3. intros w I. destruct (mem_str _ _); [sinv|]. destruct (lookup_ev _ _); [exact I|sinv]. }
  destruct (on_params_loop B (S (pos s3)) [] (adv s3)) as [params s4| |] eqn:PL; try discriminate H.
  apply on_params_loop_spi in PL.
  match type of H with context[parse_block B fuel ?x] => set (s6 := x) in H end.
  destruct (parse_block B fuel s6) as [b s7| |] eqn:PB; try discriminate H. apply parse_block_spi in PB.
  assert (N6 : SPI s4 s6).
  { unfold s6. intros w I. destruct params as [|d ds]; [sinv|]. destruct (lookup_ev _ _); [|sinv].
    apply add_event_params_spi. sinv. }
  sfin H.
Qed.

Lemma program_loop_spi : forall fuel acc terms s p s', program_loop B fuel acc terms s = Ok p s' -> SPI s s'.
Proof.
  induction fuel as [|f IH]; intros acc terms s p s' H; [discriminate|]. cbn [program_loop] in H.
  assert (DS : (pdo (r, s1) <- parse_statement B f s;
        match r with
        | None => program_loop B f acc terms s1
        | Some st => if terms then program_loop B f acc terms (serr_at K_unreachable (pos s) s1)
                     else program_loop B f (st :: acc) (always_terms st) s1
        end) = Ok p s' -> SPI s s').
  { intro H1. destruct (parse_statement B f s) as [r s1| |] eqn:P; try discriminate H1.
    apply stmt_spi in P.
    destruct r as [st|]; [destruct terms|]; apply IH in H1; (eapply SPI_trans; [exact P|]); [|exact H1|exact H1].
    intros w I. apply H1. sinv. }
  destruct (ct s); try exact (DS H).
  - apply Ok_inj in H as [? ?]; subst. apply SPI_refl.
  - destruct (parse_func B f s) as [r s1| |] eqn:P; try discriminate H. apply IH in H. apply func_spi in P.
    eapply SPI_trans; eassumption.
  - destruct (parse_event_handler B f s) as [r s1| |] eqn:P; try discriminate H. apply IH in H. apply event_handler_spi in P.
    eapply SPI_trans; eassumption.
Qed.

End ProgramPI.

End Cursor.

(* ================================================================ *)
(** * The pre-pass has seen every `func` keyword                     *)

(* the token type after advance() from a cursor standing at the head of l, whitespace-insensitive *)
Definition nxt (l : list token) : toktype := cur_t (advance (state_at tEOF l [])).

Lemma cur_advance_ext c c' : rest c = rest c' -> is_wss c = false -> is_wss c' = false ->
  cur (advance c) = cur (advance c').
Proof.
  intros R W W'. unfold advance.
  assert (W1 : is_wss (advance_wss c) = false) by exact W. assert (W1' : is_wss (advance_wss c') = false) by exact W'.
  rewrite W1, W1'.
  assert (R2 : rest (advance_if_ws (advance_wss c)) = rest (advance_if_ws (advance_wss c'))).
  { unfold advance_if_ws, cur, advance_wss. simpl. rewrite R. destruct (is_ws (look0 (tl (rest c')))); simpl; rewrite ?R; reflexivity. }
  destruct (is_ws (peek (advance_if_ws (advance_wss c)))), (is_ws (peek (advance_if_ws (advance_wss c'))));
    unfold cur; simpl; rewrite R2; reflexivity.
Qed.
Lemma cur_t_advance_ext c c' : rest c = rest c' -> is_wss c = false -> is_wss c' = false ->
  cur_t (advance c) = cur_t (advance c').
Proof. intros R W W'. unfold cur_t. rewrite (cur_advance_ext c c' R W W'). reflexivity. Qed.

Fixpoint named (toks : list token) : Prop :=
  match toks with
  | [] => True
  | t :: r => (ttype t = T_FUNC -> nxt (t :: r) = T_IDENT) /\ named r
  end.
Lemma named_sfx toks : named toks -> forall t r, sfx (t :: r) toks -> ttype t = T_FUNC -> nxt (t :: r) = T_IDENT.
Proof.
  induction toks as [|x l IH]; intros N t r [pre E] TF.
  - destruct pre; discriminate E.
  - destruct N as [N1 N2]. destruct pre as [|y pre]; simpl in E.
    + injection E as -> ->. exact (N1 TF).
    + injection E as -> ->. apply (IH N2 t r); [exists pre; reflexivity|exact TF].
Qed.

Section PrePass.
Variable B : benv.

Lemma sig_params_loop_sn : forall fuel acc s r s', sig_params_loop B fuel acc s = Ok r s' -> SN s s'.
Proof.
  induction fuel as [|f IH]; intros acc s r s' H; [discriminate|]. cbn [sig_params_loop] in H.
  destruct (_ || _); [apply Ok_inj in H as [? ?]; subst; apply SN_refl|].
  destruct (parse_typed_decl B (snd (passert T_IDENT s))) as [[[n p] t] s1| |] eqn:P; try discriminate H.
  apply typed_decl_sn in P. apply IH in H. eapply SN_trans; [apply SN_passert|]. eapply SN_trans; eassumption.
Qed.

Lemma func_def_signature_named s r s' : parse_func_def_signature B s = Ok r s' -> serrs s' = [] ->
  serrs s = [] /\ ct (adv s) = T_IDENT.
Proof.
  unfold parse_func_def_signature. intros H Q. cbv zeta in H.
  destruct (passert T_IDENT (adv s)) as [ok s2] eqn:A.
  assert (AK : serrs s2 = [] -> serrs s = [] /\ ct (adv s) = T_IDENT).
  { intro Q2. destruct (passert_ne _ _ _ _ A Q2) as [-> ->]. split; [destruct (SN_adv s Q2) as [Q0 _]; exact Q0|].
    unfold passert, assert_token in A. change (cur_t (cs (adv s))) with (ct (adv s)) in A.
    destruct (toktype_beq (ct (adv s)) T_IDENT) eqn:TB; [apply toktype_beq_eq in TB; exact TB|discriminate A]. }
  destruct ok; cbn [negb] in H.
  2:{ apply Ok_inj in H as [? ?]; subst. apply AK. destruct (SN_apnl s2 Q) as [Q2 _]. exact Q2. }
  match type of H with (pdo (ret, s4) <- ?m; _) = _ => destruct m as [ret s4| |] eqn:PR end; try discriminate H.
  destruct (sig_params_loop B (S (pos s4)) [] s4) as [params s5| |] eqn:PL; try discriminate H.
  apply Ok_inj in H as [? ?]; subst.
  destruct (SN_apnl _ Q) as [Q6a _]. destruct (SN_assert_eol _ Q6a) as [Q6 _].
  assert (Q5 : serrs s5 = []).
  { destruct (ct s5); try exact Q6. destruct (Nat.eqb _ _); [rewrite serrs_adv in Q6; exact Q6|rewrite serrs_serr in Q6; discriminate Q6]. }
  destruct (sig_params_loop_sn _ _ _ _ _ PL Q5) as [Q4 _].
  apply AK.
  destruct (ct (adv s2)).
  all: try (apply Ok_inj in PR as [? ?]; subst; rewrite serrs_adv in Q4; exact Q4).
  destruct (p_type B (adv (adv s2))) as [t s5'| |] eqn:PT; try discriminate PR.
  apply Ok_inj in PR as [? ?]; subst.
  assert (Q5' : serrs s5' = []) by (destruct t; [exact Q4|rewrite serrs_serr_at in Q4; discriminate Q4]).
  destruct (p_type_sn B _ _ _ PT Q5') as [Q' _]. rewrite !serrs_adv in Q'. exact Q'.
Qed.

Lemma signature_step_named pv toks s u s' : signature_step B pv toks s = Ok u s' -> serrs s' = [] ->
  serrs s = [] /\ nxt toks = T_IDENT.
Proof.
  unfold signature_step. intros H Q. cbv zeta in H.
  set (s0 := with_cs s (state_at pv toks (errs (cs s)))) in *.
  destruct (parse_func_def_signature B s0) as [r s1| |] eqn:P; try discriminate H.
  assert (Q1 : serrs s1 = []).
  { destruct r as [[name fi]|]; apply Ok_inj in H as [? ?]; subst; [|exact Q].
    change (serrs (match lookup_fn name (map (fun nb : str * bool => (fst nb, {| fi_nil := snd nb; fi_ret := false; fi_arity := None; fi_params := [] |})) (b_funcs B)) with
                   | Some _ => serr_at K_override_builtin_func (pos s0) (if mem_str name (b_globals B) then serr_at K_override_builtin_var (pos s0) s1 else s1)
                   | None => if is_func name (if mem_str name (b_globals B) then serr_at K_override_builtin_var (pos s0) s1 else s1)
                             then serr_at K_redecl_func (pos s0) (if mem_str name (b_globals B) then serr_at K_override_builtin_var (pos s0) s1 else s1)
                             else (if mem_str name (b_globals B) then serr_at K_override_builtin_var (pos s0) s1 else s1)
                   end) = []) in Q.
    destruct (lookup_fn name _); [discriminate Q|].
    destruct (mem_str name (b_globals B)); [destruct (is_func _ _); discriminate Q|].
    destruct (is_func name s1); [discriminate Q|exact Q]. }
  destruct (func_def_signature_named _ _ _ P Q1) as [Q0 TI]. split; [exact Q0|].
  unfold nxt. rewrite <- TI. symmetry. apply cur_t_advance_ext; reflexivity.
Qed.

Lemma signatures_named : forall toks pv s u s', signatures B pv toks s = Ok u s' -> serrs s' = [] ->
  serrs s = [] /\ named toks.
Proof.
  induction toks as [|t r IH]; intros pv s u s' H Q; cbn [signatures] in H.
  - apply Ok_inj in H as [? ?]; subst. split; [exact Q|exact I].
  - destruct (ttype t) eqn:TT; try (destruct (IH _ _ _ _ H Q) as [Q0 N]; split; [exact Q0|]; cbn [named]; rewrite TT; split; [intro X; discriminate X|exact N]).
    destruct (signature_step B pv (t :: r) s) as [u1 s1| |] eqn:P; try discriminate H.
    destruct (IH _ _ _ _ H Q) as [Q1 N]. destruct (signature_step_named _ _ _ _ _ P Q1) as [Q0 TI].
    split; [exact Q0|]. cbn [named]. split; [intros _; exact TI|exact N].
Qed.

(* ---- the function table built by the pre-pass ---- *)
Definition nxt_tok (l : list token) : token := cur (advance (state_at tEOF l [])).
(* the identifiers following the `func` keywords, in source order *)
Fixpoint func_names (toks : list token) : list str :=
  match toks with
  | [] => []
  | t :: r => (match ttype t with T_FUNC => [tlit (nxt_tok (t :: r))] | _ => [] end) ++ func_names r
  end.
(* an entry made from a parsed signature: niladic iff no parameters; the arity is the number of parsed parameters,
   or None for a single variadic parameter *)
Definition fi_wf (fi : finfo) : Prop :=
  fi_nil fi = (match fi_params fi with [] => true | _ => false end) /\
  (fi_arity fi = Some (List.length (fi_params fi)) \/ (fi_arity fi = None /\ List.length (fi_params fi) = 1)).

Lemma func_def_signature_shape s name fi s' : parse_func_def_signature B s = Ok (Some (name, fi)) s' ->
  name = tlit (cur (cs (adv s))) /\ fi_wf fi.
Proof.
  unfold parse_func_def_signature. intro H. cbv zeta in H.
  destruct (passert T_IDENT (adv s)) as [ok s2] eqn:A.
  destruct ok; cbn [negb] in H; [|discriminate H].
  assert (E2 : s2 = adv s).
  { unfold passert in A. destruct (assert_token T_IDENT (cs (adv s))) as [o c] eqn:AT. injection A as -> <-.
    unfold assert_token in AT. destruct (toktype_beq _ _); [|discriminate AT]. injection AT as <-. reflexivity. }
  subst s2.
  match type of H with (pdo (ret, s4) <- ?m; _) = _ => destruct m as [ret s4| |] end; try discriminate H.
  destruct (sig_params_loop B (S (pos s4)) [] s4) as [params s5| |]; try discriminate H.
  apply Ok_inj in H as [E _]. injection E as -> ->. split; [reflexivity|].
  unfold fi_wf. cbn [fi_nil fi_params fi_arity]. split; [reflexivity|].
  destruct (ct s5); try (left; reflexivity).
  destruct (Nat.eqb (List.length params) 1) eqn:L; [right; split; [reflexivity|apply Nat.eqb_eq; exact L]|left; reflexivity].
Qed.

Lemma func_def_signature_none s s' : parse_func_def_signature B s = Ok None s' -> serrs s' <> [].
Proof.
  unfold parse_func_def_signature. intros H Q. cbv zeta in H.
  destruct (passert T_IDENT (adv s)) as [ok s2] eqn:A.
  destruct ok; cbn [negb] in H.
  - match type of H with (pdo (ret, s4) <- ?m; _) = _ => destruct m as [ret s4| |] end; try discriminate H.
    destruct (sig_params_loop B (S (pos s4)) [] s4) as [params s5| |]; discriminate H.
  - apply Ok_inj in H as [_ ->]. rewrite serrs_apnl in Q. destruct (passert_ne _ _ _ _ A Q) as [X _]. discriminate X.
Qed.

Lemma signature_step_table pv toks s u s' : signature_step B pv toks s = Ok u s' -> serrs s' = [] ->
  exists fi, fns s' = (tlit (nxt_tok toks), fi) :: fns s /\ fi_wf fi.
Proof.
  unfold signature_step. intros H Q. cbv zeta in H.
  set (s0 := with_cs s (state_at pv toks (errs (cs s)))) in *.
  destruct (parse_func_def_signature B s0) as [r s1| |] eqn:P; try discriminate H.
  destruct r as [[name fi]|].
  - destruct (func_def_signature_shape _ _ _ _ P) as [EN WF].
    apply Ok_inj in H as [_ ->]. exists fi. split; [|exact WF]. cbn [fns].
    assert (F1 : fns s1 = fns s).
    { clear - P. unfold parse_func_def_signature in P. cbv zeta in P.
      destruct (passert T_IDENT (adv s0)) as [ok s2] eqn:A. pose proof (passert_fns _ _ _ _ A) as F2.
      destruct ok; cbn [negb] in P; [|discriminate P].
      match type of P with (pdo (ret, s4) <- ?m; _) = _ => destruct m as [ret s4| |] eqn:PR end; try discriminate P.
      destruct (sig_params_loop B (S (pos s4)) [] s4) as [params s5| |] eqn:PL; try discriminate P.
      apply Ok_inj in P as [_ ->].
      assert (F5 : fns s5 = fns s4).
      { clear - PL. revert PL. generalize (S (pos s4)) (@nil (str * nat)). intros fu. revert s4.
        induction fu as [|f IH]; intros s4 acc PL; [discriminate|]. cbn [sig_params_loop] in PL.
        destruct (_ || _); [apply Ok_inj in PL as [_ ->]; reflexivity|].
        destruct (parse_typed_decl B (snd (passert T_IDENT s4))) as [[[n p] t] s1| |] eqn:PT; try discriminate PL.
        apply IH in PL. rewrite PL. unfold parse_typed_decl in PT.
        destruct (p_type B _) as [ty s2| |] eqn:PY; try discriminate PT. unfold p_type in PY. apply expr_call_fn in PY.
        destruct ty; apply Ok_inj in PT as [_ ->]; rewrite ?fns_serr_at, PY, ?fns_adv, ?fns_passert, ?fns_adv, ?fns_passert; reflexivity. }
      assert (F4 : fns s4 = fns s2).
      { destruct (ct (adv s2)); try (apply Ok_inj in PR as [_ ->]; apply fns_adv).
        destruct (p_type B (adv (adv s2))) as [t s5'| |] eqn:PT; try discriminate PR. unfold p_type in PT. apply expr_call_fn in PT.
        apply Ok_inj in PR as [_ ->]. destruct t; rewrite ?fns_serr_at, PT, !fns_adv; reflexivity. }
      rewrite fns_apnl, fns_assert_eol.
      transitivity (fns s5); [destruct (ct s5); try reflexivity; destruct (Nat.eqb _ _); rewrite ?fns_serr, fns_adv; reflexivity|].
      rewrite F5, F4, F2. reflexivity. }
    match goal with |- (name, fi) :: fns ?x = _ => assert (F3 : fns x = fns s1) end.
    { destruct (lookup_fn name _); [rewrite fns_serr_at|destruct (is_func name _); rewrite ?fns_serr_at];
        destruct (mem_str name (b_globals B)); rewrite ?fns_serr_at; reflexivity. }
    rewrite F3, F1. f_equal. f_equal. rewrite EN. f_equal. unfold nxt_tok. apply cur_advance_ext; reflexivity.
  - exfalso. apply Ok_inj in H as [_ ->]. exact (func_def_signature_none _ _ P Q).
Qed.

Lemma signatures_table : forall toks pv s u s', signatures B pv toks s = Ok u s' -> serrs s' = [] ->
  exists sigs, fns s' = sigs ++ fns s /\ map fst sigs = rev (func_names toks) /\ Forall (fun nf => fi_wf (snd nf)) sigs.
Proof.
  induction toks as [|t r IH]; intros pv s u s' H Q; cbn [signatures] in H.
  - apply Ok_inj in H as [_ ->]. exists []. repeat split; constructor.
  - cbn [func_names]. destruct (ttype t) eqn:TT; try (exact (IH _ _ _ _ H Q)).
    destruct (signature_step B pv (t :: r) s) as [u1 s1| |] eqn:P; try discriminate H.
    destruct (IH _ _ _ _ H Q) as (sigs & F & NM & WF).
    destruct (signatures_named _ _ _ _ _ H Q) as [Q1 _].
    destruct (signature_step_table _ _ _ _ _ P Q1) as (fi & F1 & W1).
    exists (sigs ++ [(tlit (nxt_tok (t :: r)), fi)]). split; [rewrite F, F1, <- app_assoc; reflexivity|]. split.
    + rewrite map_app, NM. simpl. reflexivity.
    + apply Forall_app. split; [exact WF|constructor; [exact W1|constructor]].
Qed.

(* the statement loop from a cursor inside the token list, whitespace-insensitive: every `func` it meets is named *)
Lemma loop_named_true toks : named toks -> forall fuel terms s, SI toks [false] s -> loop_named B fuel terms s = true.
Proof.
  intros N. induction fuel as [|f IH]; intros terms s I; [reflexivity|]. cbn [loop_named].
  assert (DS : match parse_statement B f s with
               | Ok None s1 => loop_named B f terms s1
               | Ok (Some st) s1 => if terms then true else loop_named B f (always_terms st) s1
               | _ => true
               end = true).
  { destruct (parse_statement B f s) as [r s1| |] eqn:P; try reflexivity.
    pose proof (stmt_spi toks B _ _ _ _ P _ I) as I1.
    destruct r as [st|]; [destruct terms; [reflexivity|]|]; apply IH; exact I1. }
  destruct (ct s) eqn:CT; try exact DS.
  - reflexivity.
  - apply andb_true_iff. split.
    + assert (TI : ct (adv s) = T_IDENT).
      { destruct I as [S W]. unfold ct, cur_t, cur in CT.
        destruct (rest (cs s)) as [|t r] eqn:R; [discriminate CT|]. simpl in CT.
        rewrite <- (named_sfx toks N t r S CT). unfold nxt, ct. apply cur_t_advance_ext; [exact R| |reflexivity].
        unfold is_wss. rewrite W. reflexivity. }
      rewrite TI. reflexivity.
    + destruct (parse_func B f s) as [r s1| |] eqn:P; try reflexivity. apply IH. exact (func_spi toks B _ _ _ _ P _ I).
  - destruct (parse_event_handler B f s) as [r s1| |] eqn:P; try reflexivity. apply IH. exact (event_handler_spi toks B _ _ _ _ P _ I).
Qed.

End PrePass.

(* an accepted parse: the premise of the scoping theorem holds *)
Theorem accept_funcs_named B raw eof p : parse B raw eof = Accept p -> funcs_named B raw = true.
Proof.
  unfold parse, funcs_named, loop_start_state, fn_table, legal_toks, newparser_state.
  destruct (signatures B tEOF _ _) as [u s1| |] eqn:SG; try discriminate.
  destruct (_ ++ _) as [|e0 es0] eqn:EE; [|discriminate]. intros _.
  apply app_eq_nil in EE as [_ EE]. apply map_rev_nil in EE.
  destruct (signatures_named B _ _ _ _ _ SG EE) as [_ N].
  apply (loop_named_true B _ N). split; [apply sfx_refl|reflexivity].
Qed.

(* the function table of an accepted parse: the builtins, preceded by one entry per `func` keyword (latest first), named by
   the identifier that follows the keyword, with the arity of the parsed parameter list *)
Definition builtin_table (B : benv) : list (str * finfo) :=
  map (fun nb => (fst nb, {| fi_nil := snd nb; fi_ret := true;
                             fi_arity := match lookup_arity (fst nb) (b_arity B) with Some a => a | None => None end;
                             fi_params := [] |})) (b_funcs B).
Theorem fn_table_shape B raw eof p : parse B raw eof = Accept p ->
  exists sigs, fn_table B raw = sigs ++ builtin_table B /\
               map fst sigs = rev (func_names (legal_toks raw)) /\ Forall (fun nf => fi_wf (snd nf)) sigs.
Proof.
  unfold parse, fn_table, legal_toks, newparser_state, builtin_table.
  destruct (signatures B tEOF _ _) as [u s1| |] eqn:SG; try discriminate.
  destruct (_ ++ _) as [|e0 es0] eqn:EE; [|discriminate]. intros _.
  apply app_eq_nil in EE as [_ EE]. apply map_rev_nil in EE.
  exact (signatures_table B _ _ _ _ _ SG EE).
Qed.

(* ================================================================ *)
(** * The scoping theorem without premise                            *)
From EvyV Require Import ParserScope.

Theorem accept_scoped B raw eof p : parse B raw eof = Accept p -> scope_prog (tabs_of B (fn_table B raw)) p = true.
Proof. intro H. exact (accept_scoped_partial B raw eof p H (accept_funcs_named B raw eof p H)). Qed.
