(* CompileSemTie.v — the tie between the source semantics of compile_correct (C16:
   CompileSem.lx_l, a fuel-indexed big-step semantics over value environments) and the
   evaluator model coq/Sem.v (every value a heap cell), on a fragment:

     expressions  number / bool / ASCII string literals, variables, groups, unary - and !,
                  binary + - * / % < <= > >= on numbers, + and the comparisons on strings,
                  array literals, a[i] on arrays and strings, + on arrays,
                  == and != when one operand is manifestly scalar (scalar_valued);
     statements   declarations, assignments to variables, if / else if / else, while, break,
                  the empty statement — declarations anywhere (block scopes).

   Whenever lx_l is defined, the Sem run of the corresponding Ast program ends normally and
   every variable of lx_l's final environment is a global of the Sem state whose cell HOLDS
   that value.  Missing (hence _partial): maps, slices, array repetition, == on two
   composites, non-ASCII strings and the for loops (see the end of the file). *)
From Coq Require Import ZArith NArith PArith List String Bool Floats FMapPositive Lia.
From EvyV Require Import Base Num Ast Omap Sem SemOrder SemStoreBase SemFresh SemEvents SemIso.
From EvyV Require Vm Compile CompileSem.
Import ListNotations.
Local Open Scope positive_scope.


(* ====================================================================== *)
(* 1. The two syntaxes                                                     *)
(* ====================================================================== *)
(* Compile.v's AST carries what compiler.go inspects; Ast.v's is the typed tree the evaluator
   walks.  [xrel e x]: x is e with arbitrary type annotations (Sem.v never looks at them in
   this fragment). *)
Definition trop (op : Compile.binop) : option binop :=
  match op with
  | Compile.BPlus => Some BPlus | Compile.BMinus => Some BMinus | Compile.BStar => Some BAsterisk | Compile.BSlash => Some BSlash
  | Compile.BPercent => Some BPercent
  | Compile.BLt => Some BLt | Compile.BLe => Some BLtEq | Compile.BGt => Some BGt | Compile.BGe => Some BGtEq
  | Compile.BEq => Some BEq | Compile.BNe => Some BNotEq
  | _ => None
  end.

Inductive xrel : Compile.expr -> expr -> Prop :=
| x_num f : xrel (Compile.ENum f) (ENum f)
| x_bool b : xrel (Compile.EBool b) (EBool b)
| x_str s : xrel (Compile.EStr s) (EStr s)
| x_var n t : xrel (Compile.EVar n) (EVar n t)
| x_group e x : xrel e x -> xrel (Compile.EGroup e) (EGroup x)
| x_neg e x : xrel e x -> xrel (Compile.EUn Compile.UMinus e) (EUn UMinus x)
| x_not e x : xrel e x -> xrel (Compile.EUn Compile.UBang e) (EUn UBang x)
| x_bin op op' lt rt t l r xl xr : trop op = Some op' -> xrel l xl -> xrel r xr ->
    xrel (Compile.EBin op lt rt l r) (EBin op' t xl xr)
| x_arr l xl t : xlrel l xl -> xrel (Compile.EArr l) (EArr t xl)
| x_index l i xl xi t : xrel l xl -> xrel i xi -> xrel (Compile.EIndex l i) (EIndex t xl xi)
with xlrel : Compile.elist -> list expr -> Prop :=
| xl_nil : xlrel Compile.ENil []
| xl_cons e t x xt : xrel e x -> xlrel t xt -> xlrel (Compile.ECons e t) (x :: xt).

Scheme xrel_mind := Minimality for xrel Sort Prop
  with xlrel_mind := Minimality for xlrel Sort Prop.
Combined Scheme xrel_xlrel_ind from xrel_mind, xlrel_mind.

(* an expression whose value, when defined, is a number, a string or a bool whatever the
   variables hold: == and != are in the fragment when one operand is of this form (then a
   defined comparison has two scalar operands: value.Equals is undefined on mixed kinds) *)
Fixpoint scalar_valued (e : Compile.expr) : bool :=
  match e with
  | Compile.ENum _ | Compile.EBool _ | Compile.EStr _ => true
  | Compile.EGroup e1 => scalar_valued e1
  | Compile.EUn Compile.UMinus _ | Compile.EUn Compile.UBang _ => true
  | Compile.EBin op lt _ _ _ =>
      match op with
      | Compile.BPlus | Compile.BStar => match lt with Compile.TNum | Compile.TStr => true | _ => false end
      | _ => true
      end
  | _ => false
  end.

Definition name_ok (n : str) : bool := negb (str_eqb n underscore).

(* the expression fragment of the tie *)
Fixpoint tfrag_e (e : Compile.expr) : bool :=
  match e with
  | Compile.ENum _ | Compile.EBool _ => true
  | Compile.EStr s => is_ascii s
  | Compile.EVar n => name_ok n
  | Compile.EGroup e1 => tfrag_e e1
  | Compile.EUn Compile.UMinus e1 | Compile.EUn Compile.UBang e1 => tfrag_e e1
  | Compile.EBin op lt rt l r =>
      match trop op with
      | Some _ =>
          tfrag_e l && tfrag_e r &&
          match op with
          | Compile.BEq | Compile.BNe => scalar_valued l || scalar_valued r
          | Compile.BStar => match lt with Compile.TArr => false | _ => true end   (* no repetition (deepCopy) *)
          | _ => true
          end
      | None => false
      end
  | Compile.EArr l => tfrag_el l
  | Compile.EIndex l i => tfrag_e l && tfrag_e i
  | _ => false
  end
with tfrag_el (l : Compile.elist) : bool :=
  match l with Compile.ENil => true | Compile.ECons e t => tfrag_e e && tfrag_el t end.

(* ====================================================================== *)
(* 2. Values against cells, environments against scopes                    *)
(* ====================================================================== *)
(* the cell l of heap h holds the plain value v (strings: ASCII, where UTF-8 bytes and code
   points coincide) *)
Inductive holds (h : heap) : loc -> Vm.value -> Prop :=
| h_num l f : hget h l = Some (HNum f) -> holds h l (Vm.VNum f)
| h_bool l b : hget h l = Some (HBool b) -> holds h l (Vm.VBool b)
| h_str l x : hget h l = Some (HStr x) -> is_ascii x = true -> holds h l (Vm.VStr x)
| h_arr l ls vs : hget h l = Some (HArr ls) -> Forall2 (holds h) ls vs -> holds h l (Vm.VArr vs).

Lemma holds_ext h h' : heap_extends h h' -> forall l v, holds h l v -> holds h' l v.
Proof.
  intros [_ E]. fix IH 3. intros l v H. destruct H as [l f G|l b G|l x G A|l ls vs G F].
  - apply h_num; auto.
  - apply h_bool; auto.
  - apply h_str; auto.
  - apply (h_arr h' l ls vs); [apply E; exact G|].
    clear G. revert ls vs F. fix IHF 3. intros ls vs F. destruct F; constructor; [apply IH; assumption | apply IHF; assumption].
Qed.

(* a held cell is a basic cell or an array cell *)
Lemma holds_cell h l v : holds h l v ->
  exists x, hget h l = Some x /\ (is_basic x = true \/ is_composite x = true).
Proof. intro H. destruct H; eauto. Qed.

Definition scalar (v : Vm.value) : Prop :=
  match v with Vm.VNum _ | Vm.VBool _ | Vm.VStr _ => True | _ => False end.

Lemma utf8_ascii s : is_ascii s = true -> Vm.utf8_encode s = s.
Proof.
  unfold is_ascii, Vm.utf8_encode. induction s as [|c t IH]; simpl; auto.
  intro H. apply andb_true_iff in H as [H1 H2]. rewrite IH by auto.
  unfold Vm.utf8_cp. rewrite H1. reflexivity.
Qed.
Lemma is_ascii_app a b : is_ascii a = true -> is_ascii b = true -> is_ascii (a ++ b) = true.
Proof. unfold is_ascii. intros. rewrite forallb_app. apply andb_true_iff; auto. Qed.

(* a frame of lx_l against a frame of Sem: the same names, related values *)
Definition frel_in (h : heap) (lf : CompileSem.frame) (sf : frame) : Prop :=
  forall n, match frame_get n sf with
            | Some l => exists v, CompileSem.alook n lf = Some v /\ holds h l v
            | None => CompileSem.alook n lf = None
            end.
(* the global frame of lx_l against the globals of Sem (which also hold err, errmsg, pi) *)
Definition frel_gl (h : heap) (gf : CompileSem.frame) (g : frame) : Prop :=
  forall n v, CompileSem.alook n gf = Some v -> exists l, frame_get n g = Some l /\ holds h l v.

(* lenv = inner frames ++ [globals] against (env, st_globals) *)
Definition envrel (lenv : CompileSem.senv) (E : env) (s : state) : Prop :=
  exists lfs gf, lenv = lfs ++ [gf] /\
                 Forall2 (frel_in (st_heap s)) lfs E /\ frel_gl (st_heap s) gf (st_globals s).

Lemma frel_in_ext h h' lf sf : heap_extends h h' -> frel_in h lf sf -> frel_in h' lf sf.
Proof.
  intros X F n. specialize (F n). destruct (frame_get n sf); auto.
  destruct F as (v & A & H). exists v; split; auto. eapply holds_ext; eauto.
Qed.
Lemma frel_gl_ext h h' gf g : heap_extends h h' -> frel_gl h gf g -> frel_gl h' gf g.
Proof.
  intros X F n v A. destruct (F n v A) as (l & G & H). exists l; split; auto. eapply holds_ext; eauto.
Qed.
Lemma envrel_ext lenv E s s' :
  heap_extends (st_heap s) (st_heap s') -> st_globals s' = st_globals s -> envrel lenv E s -> envrel lenv E s'.
Proof.
  intros X G (lfs & gf & -> & F & FG). exists lfs, gf. split; auto. split.
  - eapply Forall2_impl; [|exact F]. intros; eapply frel_in_ext; eauto.
  - rewrite G. eapply frel_gl_ext; eauto.
Qed.

(* lookups agree *)
Lemma lookup_tie lenv E s n v :
  envrel lenv E s -> name_ok n = true -> CompileSem.slook n lenv = Some v ->
  exists l, lookup n E s = (Ok (Some l), s) /\ holds (st_heap s) l v.
Proof.
  intros (lfs & gf & -> & F & FG) N H. unfold lookup. unfold name_ok in N.
  apply negb_true_iff in N. rewrite N.
  induction F as [|lf sf lt st Hf F IH]; simpl in *.
  - destruct (CompileSem.alook n gf) as [w|] eqn:A; [|discriminate]. inversion H; subst w.
    destruct (FG n v A) as (l & G & Hl). exists l. rewrite G. auto.
  - specialize (Hf n). destruct (frame_get n sf) as [l|].
    + destruct Hf as (w & A & Hl). rewrite A in H. inversion H; subst w. exists l. auto.
    + rewrite Hf in H. apply IH; auto.
Qed.

(* ====================================================================== *)
(* 3. States in which the evaluator runs undisturbed                       *)
(* ====================================================================== *)
Definition good (s : state) : Prop := wf s /\ tick_ok s.

(* s' comes from s by allocations and yields only *)
Definition sext (s s' : state) : Prop :=
  heap_extends (st_heap s) (st_heap s') /\ good s' /\
  st_globals s' = st_globals s /\ st_trace s' = st_trace s /\
  st_total s' = st_total s /\ st_fails s' = st_fails s.

Lemma sext_refl s : good s -> sext s s.
Proof. intro G. repeat split; auto; try apply heap_extends_refl; apply G. Qed.
Lemma sext_trans a b c : sext a b -> sext b c -> sext a c.
Proof.
  intros (A1 & A2 & A3 & A4 & A5 & A6) (B1 & B2 & B3 & B4 & B5 & B6).
  split; [eapply heap_extends_trans; eauto|]. split; [exact B2|]. repeat split; congruence.
Qed.

Definition tickst (s : state) : state := upd_yield (S (st_yields s)) false s.
Lemma tick_good s : good s -> tick s = (Ok tt, tickst s) /\ sext s (tickst s).
Proof.
  intros [W T]. split; [apply tick_run; auto|].
  repeat split; simpl; auto; try apply heap_extends_refl; apply T.
Qed.

Definition allocst (s : state) (v : hval) : state := upd_heap (snd (halloc (st_heap s) v)) s.
Lemma alloc_good s v : good s ->
  alloc v s = (Ok (hnext (st_heap s)), allocst s v) /\ sext s (allocst s v) /\
  hget (st_heap (allocst s v)) (hnext (st_heap s)) = Some v.
Proof.
  intros [W T]. split; [reflexivity|]. split.
  - repeat split; simpl; auto; try apply T.
    + lia.
    + intros l x Hx. apply hget_halloc_old; auto.
    + apply fresh_ok_halloc; auto.
  - apply hget_halloc_new.
Qed.

(* fuel: a successful run is reproduced with more fuel *)
Lemma expr_mono P n m E x s l s' : (n <= m)%nat ->
  eval_expr n P E x s = (Ok l, s') -> eval_expr m P E x s = (Ok l, s').
Proof. intros L H. eapply (proj1 (fuel_mono n m L)); [exact H | discriminate]. Qed.

(* ====================================================================== *)
(* 4. Expressions                                                          *)
(* ====================================================================== *)
Definition ev_ok (P : program) (E : env) (x : expr) (s : state) (v : Vm.value) : Prop :=
  exists N l s', eval_expr N P E x s = (Ok l, s') /\ holds (st_heap s') l v /\ sext s s'.

Lemma value_depth_S : exists d, value_depth = S d.
Proof. exists (Z.to_nat 3999). reflexivity. Qed.

(* running the primitives *)
Lemma run_tick {A} (k : unit -> M A) s : good s -> bindM tick k s = k tt (tickst s).
Proof. intros [_ T]. unfold bindM. rewrite (tick_run s T). reflexivity. Qed.
Lemma run_load {A} (k : hval -> M A) s l v : hget (st_heap s) l = Some v -> bindM (load l) k s = k v s.
Proof. intro H. unfold bindM, load. rewrite H. reflexivity. Qed.
Lemma run_alloc {A} (k : loc -> M A) s v : bindM (alloc v) k s = k (hnext (st_heap s)) (allocst s v).
Proof. reflexivity. Qed.
Lemma run_ok {A B} (m : M A) (k : A -> M B) s a s' : m s = (Ok a, s') -> bindM m k s = k a s'.
Proof. intro H. unfold bindM. rewrite H. reflexivity. Qed.

Lemma good_tickst s : good s -> good (tickst s).
Proof. intro G. apply (tick_good s G). Qed.
Lemma sext_tickst s : good s -> sext s (tickst s).
Proof. intro G. apply (tick_good s G). Qed.
Lemma good_allocst s v : good s -> good (allocst s v).
Proof. intro G. apply (alloc_good s v G). Qed.
Lemma sext_allocst s v : good s -> sext s (allocst s v).
Proof. intro G. apply (alloc_good s v G). Qed.
Lemma hget_allocst s v : hget (st_heap (allocst s v)) (hnext (st_heap s)) = Some v.
Proof. apply hget_halloc_new. Qed.
Lemma sext_good s s' : sext s s' -> good s'.
Proof. intros (_ & G & _). exact G. Qed.
Lemma sext_heap s s' : sext s s' -> heap_extends (st_heap s) (st_heap s').
Proof. intros (H & _). exact H. Qed.
Lemma sext_globals s s' : sext s s' -> st_globals s' = st_globals s.
Proof. intros (_ & _ & H & _). exact H. Qed.
Lemma envrel_sext lenv E s s' : sext s s' -> envrel lenv E s -> envrel lenv E s'.
Proof. intros X. apply envrel_ext; [apply (sext_heap _ _ X) | apply (sext_globals _ _ X)]. Qed.

(* a literal: one yield, one allocation *)
Lemma ev_lit P E x s hv v :
  good s -> (forall n, eval_expr (S n) P E x = (let* _ := tick in alloc hv)) ->
  (forall h l, hget h l = Some hv -> holds h l v) -> ev_ok P E x s v.
Proof.
  intros G Hx Hh. exists 1%nat, (hnext (st_heap (tickst s))), (allocst (tickst s) hv).
  rewrite Hx, (run_tick _ s G). split; [reflexivity|]. split.
  - apply Hh. apply hget_allocst.
  - eapply sext_trans; [apply sext_tickst; auto | apply sext_allocst, good_tickst; auto].
Qed.

Lemma run_load_num {A} (k : float -> M A) s l f : hget (st_heap s) l = Some (HNum f) -> bindM (load_num l) k s = k f s.
Proof. intro H. unfold bindM, load_num, bindM, load. rewrite H. reflexivity. Qed.
Lemma run_load_str {A} (k : str -> M A) s l f : hget (st_heap s) l = Some (HStr f) -> bindM (load_str l) k s = k f s.
Proof. intro H. unfold bindM, load_str, bindM, load. rewrite H. reflexivity. Qed.
Lemma run_load_bool {A} (k : bool -> M A) s l f : hget (st_heap s) l = Some (HBool f) -> bindM (load_bool l) k s = k f s.
Proof. intro H. unfold bindM, load_bool, bindM, load. rewrite H. reflexivity. Qed.

(* math.Mod: the VM model's and the evaluator model's definitions agree *)
Lemma is_nan_spec x : is_nan x = match Prim2SF x with SpecFloat.S754_nan => true | _ => false end.
Proof.
  unfold is_nan. rewrite FloatAxioms.eqb_spec. unfold SpecFloat.SFeqb, SpecFloat.SFcompare.
  destruct (Prim2SF x) as [s|s| |s m e]; try reflexivity.
  - destruct s; reflexivity.
  - rewrite Z.compare_refl, Pos.compare_cont_refl. destruct s; reflexivity.
Qed.
Lemma float_mod_fmod x y : Vm.float_mod x y = fmod x y.
Proof.
  unfold Vm.float_mod, fmod. rewrite !is_nan_spec.
  destruct (Prim2SF x) as [sx|sx| |sx mx ex], (Prim2SF y) as [sy|sy| |sy my ey]; try reflexivity.
Qed.

Lemma run_depth {A} (k : nat -> M A) s : bindM depth_fuel k s = k value_depth s.
Proof. reflexivity. Qed.

(* copying the value of one cell to another cell of a larger heap *)
Lemma holds_of_cell h h' l c v hv :
  heap_extends h h' -> holds h l v -> hget h l = Some hv -> hget h' c = Some hv -> holds h' c v.
Proof.
  intros X H G G'. destruct H as [l f G0|l b G0|l x G0 A|l ls vs G0 F]; rewrite G in G0; inversion G0; subst.
  - apply h_num; auto.
  - apply h_bool; auto.
  - apply h_str; auto.
  - apply (h_arr h' c ls vs); auto. eapply Forall2_impl; [|exact F]. intros; eapply holds_ext; eauto.
Qed.

(* copyOrRef of a held cell: a fresh cell for a basic value, the same cell for an array *)
Lemma copy_tie d s l v : good s -> holds (st_heap s) l v ->
  exists c s', copy_or_ref (S d) l s = (Ok c, s') /\ holds (st_heap s') c v /\ sext s s'.
Proof.
  intros G H. destruct (holds_cell _ _ _ H) as (hv & Gl & [B|Cc]).
  - exists (hnext (st_heap s)), (allocst s hv). split; [apply (basic_copied d l s hv Gl B)|].
    split; [|apply sext_allocst; auto].
    eapply holds_of_cell; [apply (sext_heap _ _ (sext_allocst s hv G)) | exact H | exact Gl | apply hget_allocst].
  - exists l, s. split; [apply (composite_shared d l s hv Gl Cc)|]. split; [exact H | apply sext_refl; auto].
Qed.

Lemma copy_list_tie d : forall ls vs s, good s -> Forall2 (holds (st_heap s)) ls vs ->
  exists ls' s', mapM (copy_or_ref (S d)) ls s = (Ok ls', s') /\ Forall2 (holds (st_heap s')) ls' vs /\ sext s s'.
Proof.
  induction ls as [|l t IH]; intros vs s G F; inversion F as [|? v ? vt Hl Ft]; subst.
  - exists [], s. split; [reflexivity|]. split; [constructor | apply sext_refl; auto].
  - destruct (copy_tie d s l v G Hl) as (c & s1 & Hc & Hh & X1).
    assert (Ft1 : Forall2 (holds (st_heap s1)) t vt).
    { eapply Forall2_impl; [|exact Ft]. intros; eapply holds_ext; [apply (sext_heap _ _ X1) | eauto]. }
    destruct (IH vt s1 (sext_good _ _ X1) Ft1) as (t' & s2 & Ht & Hh2 & X2).
    exists (c :: t'), s2. split.
    + cbn [mapM]. rewrite (run_ok _ _ _ _ _ Hc), (run_ok _ _ _ _ _ Ht). reflexivity.
    + split; [|eapply sext_trans; eauto]. constructor; auto.
      eapply holds_ext; [apply (sext_heap _ _ X2) | exact Hh].
Qed.

(* value.Equals on two cells that hold plain values, one of them a scalar *)
Lemma equals_tie d s la lb a b t :
  holds (st_heap s) la a -> holds (st_heap s) lb b -> scalar a \/ scalar b -> Vm.val_equals a b = Some t ->
  equals (S d) la lb s = (Ok t, s).
Proof.
  intros Ha Hb Sc Hv. simpl.
  destruct Ha as [la x Ga|la x Ga|la x Ga Aa|la xs vxs Ga Fa], Hb as [lb y Gb|lb y Gb|lb y Gb Ab|lb ys vys Gb Fb];
    simpl in Hv; try discriminate; try (destruct Sc as [[]|[]]; fail);
    rewrite (run_load _ s la _ Ga), (run_load _ s lb _ Gb); inversion Hv; reflexivity.
Qed.

Lemma Forall2_app_holds h a va b vb :
  Forall2 (holds h) a va -> Forall2 (holds h) b vb -> Forall2 (holds h) (a ++ b) (va ++ vb).
Proof. intros F G. induction F; simpl; auto. Qed.

(* the operator on two cells that hold plain values (no repetition of arrays) *)
Lemma dispatch_tie op op' lt rt s la lb a b v :
  trop op = Some op' -> op <> Compile.BEq -> op <> Compile.BNe -> (op = Compile.BStar -> lt <> Compile.TArr) -> good s ->
  holds (st_heap s) la a -> holds (st_heap s) lb b -> Compile.eval_binop op lt rt a b = Some v ->
  exists l s', bin_dispatch op' la lb s = (Ok l, s') /\ holds (st_heap s') l v /\ sext s s'.
Proof.
  intros T N1 N2 NR G Ha Hb Hv. unfold bin_dispatch.
  destruct Ha as [la x Ga|la x Ga|la x Ga Aa|la xs vxs Ga Fa], Hb as [lb y Gb|lb y Gb|lb y Gb Ab|lb ys vys Gb Fb];
    destruct op; try congruence; simpl in T; inversion T; subst op'; clear T;
    simpl in Hv; destruct lt, rt; try discriminate Hv; try (exfalso; apply NR; reflexivity);
    rewrite (run_load _ s la _ Ga); cbv iota.
  (* array + array *)
  15: { inversion Hv; subst v; clear Hv. unfold bin_arr. rewrite (run_load _ s lb _ Gb), run_depth.
        destruct value_depth_S as [d Hd]. rewrite Hd.
        destruct (copy_list_tie d xs vxs s G Fa) as (xs' & s1 & Hx & Hhx & X1).
        assert (Fb1 : Forall2 (holds (st_heap s1)) ys vys)
          by (eapply Forall2_impl; [|exact Fb]; intros; eapply holds_ext; [apply (sext_heap _ _ X1) | eauto]).
        destruct (copy_list_tie d ys vys s1 (sext_good _ _ X1) Fb1) as (ys' & s2 & Hy & Hhy & X2).
        rewrite (run_ok _ _ _ _ _ Hx), (run_ok _ _ _ _ _ Hy).
        exists (hnext (st_heap s2)), (allocst s2 (HArr (xs' ++ ys'))).
        split; [reflexivity|].
        pose proof (sext_allocst s2 (HArr (xs' ++ ys')) (sext_good _ _ X2)) as X3.
        split; [|eapply sext_trans; [exact X1|]; eapply sext_trans; eauto].
        apply (h_arr _ _ (xs' ++ ys') (vxs ++ vys)); [apply hget_allocst|].
        apply Forall2_app_holds.
        - eapply Forall2_impl; [|exact Hhx]. intros; eapply holds_ext;
            [eapply heap_extends_trans; [apply (sext_heap _ _ X2) | apply (sext_heap _ _ X3)] | eauto].
        - eapply Forall2_impl; [|exact Hhy]. intros; eapply holds_ext; [apply (sext_heap _ _ X3) | eauto]. }
  all: first [rewrite (run_load_num _ s lb _ Gb) | rewrite (run_load_str _ s lb _ Gb) | rewrite (run_load_bool _ s lb _ Gb)];
       cbn [bin_num bin_str bin_bool].
  all: try (destruct (PrimFloat.eqb y 0); [discriminate Hv|]).
  all: inversion Hv; subst v; clear Hv;
       eexists _, (allocst s _); (split; [reflexivity|]); (split; [|apply sext_allocst; auto]).
  all: try (apply h_num; apply hget_allocst); try (apply h_bool; apply hget_allocst).
  all: try (rewrite float_mod_fmod; apply h_num; apply hget_allocst).
  all: try (apply h_str; [apply hget_allocst | apply is_ascii_app; assumption]).
Qed.

Lemma short_of_trop op op' v : trop op = Some op' -> short_of op' v = false.
Proof. destruct op; simpl; intro T; inversion T; subst; reflexivity. Qed.

(* a manifestly scalar expression has a scalar value whenever it has one *)
Lemma scalar_valued_sound env : forall e v, scalar_valued e = true -> Compile.eval_expr env e = Some v -> scalar v.
Proof.
  fix IH 1. intros e v S Ev. destruct e; simpl in S; try discriminate; simpl in Ev.
  - inversion Ev; exact I.
  - inversion Ev; exact I.
  - inversion Ev; exact I.
  - destruct op; try discriminate;
      destruct (Compile.eval_expr env e) as [[]|]; try discriminate; inversion Ev; exact I.
  - destruct (Compile.eval_expr env e1) as [a|]; [|discriminate]. destruct (Compile.eval_expr env e2) as [b|]; [|discriminate].
    unfold Compile.eval_binop in Ev.
    destruct op; try discriminate;
      try (destruct (Vm.val_equals a b); [inversion Ev; exact I | discriminate]);
      destruct lt; try discriminate; destruct rt; try discriminate;
      destruct a; try discriminate; destruct b; try discriminate;
      try (destruct (PrimFloat.eqb _ 0); try discriminate); inversion Ev; exact I.
  - apply (IH e v S Ev).
Qed.

(* indices *)
Lemma norm_idx_eq f n b i : Vm.normalize_index f n b = Vm.IOk i -> normalize_index f n b = Ok i.
Proof.
  unfold Vm.normalize_index, normalize_index.
  change (Vm.go_int_exact f) with (Num.go_int_exact f).
  destruct (go_int_exact f) as [z|]; [|discriminate].
  destruct ((z <? - Z.of_nat n) || ((if b then Z.of_nat n else Z.of_nat n - 1) <? z))%Z; [discriminate|].
  destruct (z <? 0)%Z; intro H; inversion H; reflexivity.
Qed.
Lemma norm_idx_lt f n i : Vm.normalize_index f n false = Vm.IOk i -> (i < n)%nat.
Proof.
  unfold Vm.normalize_index. destruct (Vm.go_int_exact f) as [z|]; [|discriminate].
  destruct ((z <? - Z.of_nat n) || (Z.of_nat n - 1 <? z))%Z eqn:Q; [discriminate|].
  apply orb_false_iff in Q as [Q1 Q2]. apply Z.ltb_ge in Q1, Q2.
  destruct (z <? 0)%Z eqn:Q3; intro H; inversion H; subst.
  - apply Z.ltb_lt in Q3. lia.
  - apply Z.ltb_ge in Q3. lia.
Qed.
Lemma Forall2_nth_holds h ls vs i v :
  Forall2 (holds h) ls vs -> nth_error vs i = Some v -> exists l, nth_error ls i = Some l /\ holds h l v.
Proof.
  intro F. revert i. induction F as [|l w lt vt Hl F IH]; intros [|i] H; simpl in *; try discriminate.
  - inversion H; subst. eauto.
  - apply IH; auto.
Qed.
Lemma Forall2_len_holds h ls vs : Forall2 (holds h) ls vs -> List.length ls = List.length vs.
Proof. induction 1; simpl; auto. Qed.
Lemma dec_ascii_fuel : forall s n, is_ascii s = true -> (List.length s <= n)%nat -> Vm.utf8_decode_fuel n s = s.
Proof.
  induction s as [|c t IH]; intros n A L; destruct n; simpl in *; auto; try lia.
  unfold is_ascii in A. simpl in A. apply andb_true_iff in A as [A1 A2].
  rewrite A1. simpl. f_equal. apply IH; auto. lia.
Qed.
Lemma dec_ascii s : is_ascii s = true -> Vm.utf8_decode s = s.
Proof. intro A. apply dec_ascii_fuel; auto. Qed.
Lemma nth_first_skip {A} (l : list A) i c : nth_error l i = Some c -> firstn 1 (skipn i l) = [c].
Proof. revert i. induction l as [|a t IH]; intros [|i] H; simpl in *; try discriminate; [inversion H; auto | auto]. Qed.
Lemma is_ascii_nth s i c : is_ascii s = true -> nth_error s i = Some c -> is_ascii [c] = true.
Proof.
  unfold is_ascii. intros A H. apply nth_error_In in H. rewrite forallb_forall in A. simpl. rewrite (A c H). reflexivity.
Qed.

Definition evs_ok (P : program) (E : env) (xs : list expr) (s : state) (vs : list Vm.value) : Prop :=
  exists N ls s', eval_exprs N P E xs s = (Ok ls, s') /\ Forall2 (holds (st_heap s')) ls vs /\ sext s s'.

Lemma exprs_mono P n m E x s l s' : (n <= m)%nat ->
  eval_exprs n P E x s = (Ok l, s') -> eval_exprs m P E x s = (Ok l, s').
Proof. intros L H. eapply (proj1 (proj2 (fuel_mono n m L))); [exact H | discriminate]. Qed.

Theorem tie_expr_all P :
  (forall e x, xrel e x -> forall lenv E s v,
     tfrag_e e = true -> Compile.eval_expr (fun n => CompileSem.slook n lenv) e = Some v ->
     envrel lenv E s -> good s -> ev_ok P E x s v) /\
  (forall l xl, xlrel l xl -> forall lenv E s vs,
     tfrag_el l = true -> Compile.eval_list (fun n => CompileSem.slook n lenv) l = Some vs ->
     envrel lenv E s -> good s -> evs_ok P E xl s vs).
Proof.
  apply xrel_xlrel_ind;
    [ intros f | intros b | intros str0 | intros n t | intros e x Hx0 IH | intros e x Hx0 IH | intros e x Hx0 IH
    | intros op op' lt rt t l r xl xr H Hxl IHl Hxr IHr
    | intros l xl t Hl IHl | intros l i xl xi t Hxl IHl Hxi IHi
    | | intros e t x xt Hx0 IHx Hxt IHt ];
    intros lenv E s v Fr Ev R G; simpl in Fr, Ev.
  - inversion Ev; subst. apply ev_lit with (hv := HNum f); auto. intros; apply h_num; auto.
  - inversion Ev; subst. apply ev_lit with (hv := HBool b); auto. intros; apply h_bool; auto.
  - inversion Ev; subst. rewrite (utf8_ascii _ Fr). apply ev_lit with (hv := HStr str0); auto.
    intros; apply h_str; auto.
  - (* variable *)
    pose proof (envrel_sext _ _ _ _ (sext_tickst s G) R) as R1.
    destruct (lookup_tie _ _ _ _ _ R1 Fr Ev) as (l & L & Hl).
    exists 1%nat, l, (tickst s). split; [|split; [exact Hl | apply sext_tickst; auto]].
    cbn [eval_expr]. rewrite (run_tick _ s G), (run_ok _ _ _ _ _ L). reflexivity.
  - (* group *)
    pose proof (envrel_sext _ _ _ _ (sext_tickst s G) R) as R1.
    destruct (IH _ _ _ _ Fr Ev R1 (good_tickst s G)) as (N & l & s' & Hx & Hl & X).
    exists (S N), l, s'. split; [|split; [exact Hl | eapply sext_trans; [apply sext_tickst; auto | exact X]]].
    cbn [eval_expr]. rewrite (run_tick _ s G). exact Hx.
  - (* unary minus *)
    destruct (Compile.eval_expr _ e) as [[f| | | | | |]|] eqn:Ee; try discriminate. inversion Ev; subst v.
    pose proof (envrel_sext _ _ _ _ (sext_tickst s G) R) as R1.
    destruct (IH _ _ _ _ Fr Ee R1 (good_tickst s G)) as (N & l & s' & Hx & Hl & X).
    inversion Hl; subst.
    exists (S N), (hnext (st_heap s')), (allocst s' (HNum (- f))).
    split; [|split; [apply h_num, hget_allocst|]].
    + cbn [eval_expr]. rewrite (run_tick _ s G), (run_ok _ _ _ _ _ Hx), (run_load _ s' l _ H1). reflexivity.
    + eapply sext_trans; [apply sext_tickst; auto|]. eapply sext_trans; [exact X|].
      apply sext_allocst. eapply sext_good; eauto.
  - (* not *)
    destruct (Compile.eval_expr _ e) as [[| b | | | | |]|] eqn:Ee; try discriminate. inversion Ev; subst v.
    pose proof (envrel_sext _ _ _ _ (sext_tickst s G) R) as R1.
    destruct (IH _ _ _ _ Fr Ee R1 (good_tickst s G)) as (N & l & s' & Hx & Hl & X).
    inversion Hl; subst.
    exists (S N), (hnext (st_heap s')), (allocst s' (HBool (negb b))).
    split; [|split; [apply h_bool, hget_allocst|]].
    + cbn [eval_expr]. rewrite (run_tick _ s G), (run_ok _ _ _ _ _ Hx), (run_load _ s' l _ H1). reflexivity.
    + eapply sext_trans; [apply sext_tickst; auto|]. eapply sext_trans; [exact X|].
      apply sext_allocst. eapply sext_good; eauto.
  - (* binary *)
    rewrite H in Fr. apply andb_true_iff in Fr as [Fr Fx]. apply andb_true_iff in Fr as [Fl Fr].
    destruct (Compile.eval_expr _ l) as [a|] eqn:El; [|discriminate].
    destruct (Compile.eval_expr _ r) as [b|] eqn:Er; [|discriminate].
    pose proof (envrel_sext _ _ _ _ (sext_tickst s G) R) as R1.
    destruct (IHl _ _ _ _ Fl El R1 (good_tickst s G)) as (N1 & la & s1 & Hx1 & Hl1 & X1).
    pose proof (envrel_sext _ _ _ _ X1 R1) as R2.
    destruct (IHr _ _ _ _ Fr Er R2 (sext_good _ _ X1)) as (N2 & lb & s2 & Hx2 & Hl2 & X2).
    pose proof (holds_ext _ _ (sext_heap _ _ X2) _ _ Hl1) as Hl1'.
    apply (expr_mono P N1 (Nat.max N1 N2)) in Hx1; [|lia].
    apply (expr_mono P N2 (Nat.max N1 N2)) in Hx2; [|lia].
    destruct (holds_cell _ _ _ Hl1) as (hva & Ga & _).
    assert (X02 : sext s s2).
    { eapply sext_trans; [apply sext_tickst; auto|]. eapply sext_trans; eauto. }
    assert (Pr : eval_expr (S (Nat.max N1 N2)) P E (EBin op' t xl xr) s =
               (match op' with
                | BEq => let* d := depth_fuel in let* r := equals d la lb in alloc (HBool r)
                | BNotEq => let* d := depth_fuel in let* r := equals d la lb in alloc (HBool (negb r))
                | _ => bin_dispatch op' la lb
                end) s2).
    { rewrite eval_expr_EBin, (run_tick _ s G), (run_ok _ _ _ _ _ Hx1), (run_load _ s1 la _ Ga).
      rewrite (short_of_trop _ _ hva H), (run_ok _ _ _ _ _ Hx2). reflexivity. }
    destruct (value_depth_S) as [d Hd].
    destruct op; simpl in H; inversion H; subst op'; clear H.
    10,11: simpl in Ev; destruct (Vm.val_equals a b) as [tb|] eqn:Q; [|discriminate]; inversion Ev; subst v;
      assert (Sc : scalar a \/ scalar b)
        by (apply orb_true_iff in Fx as [Fx|Fx];
            [left; eapply scalar_valued_sound; eauto | right; eapply scalar_valued_sound; eauto]);
      rewrite run_depth, Hd in Pr;
      rewrite (run_ok _ _ _ _ _ (equals_tie d s2 la lb a b tb Hl1' Hl2 Sc Q)) in Pr;
      eexists _, _, _; (split; [exact Pr|]); (split; [apply h_bool, hget_allocst|]);
      (eapply sext_trans; [exact X02 | apply sext_allocst; eapply sext_good; eauto]).
    all: match type of Ev with Compile.eval_binop ?cop _ _ _ _ = _ =>
           destruct (dispatch_tie cop _ lt rt s2 la lb a b v eq_refl ltac:(discriminate) ltac:(discriminate)
                       ltac:(first [intro Q; discriminate Q | intros _ Q; subst lt; discriminate Fx])
                       (sext_good _ _ X02) Hl1' Hl2 Ev)
             as (lr & s3 & D & Hh & X3) end;
         rewrite D in Pr; eexists _, _, _; (split; [exact Pr|]); (split; [exact Hh|]);
         (eapply sext_trans; [exact X02 | exact X3]).
  - (* array literal *)
    destruct (Compile.eval_list _ l) as [vs|] eqn:El; [|discriminate]. inversion Ev; subst v.
    pose proof (envrel_sext _ _ _ _ (sext_tickst s G) R) as R1.
    destruct (IHl _ _ _ _ Fr El R1 (good_tickst s G)) as (N & ls & s1 & Hx & Hh & X1).
    pose proof (sext_allocst s1 (HArr ls) (sext_good _ _ X1)) as X2.
    exists (S N), (hnext (st_heap s1)), (allocst s1 (HArr ls)). split; [|split].
    + cbn [eval_expr]. rewrite (run_tick _ s G), (run_ok _ _ _ _ _ Hx). reflexivity.
    + apply (h_arr _ _ ls vs); [apply hget_allocst|].
      eapply Forall2_impl; [|exact Hh]. intros; eapply holds_ext; [apply (sext_heap _ _ X2) | eauto].
    + eapply sext_trans; [apply sext_tickst; auto|]. eapply sext_trans; eauto.
  - (* index *)
    apply andb_true_iff in Fr as [Fl Fi].
    destruct (Compile.eval_expr _ l) as [a|] eqn:El; [|discriminate].
    destruct (Compile.eval_expr _ i) as [b|] eqn:Ei; [|discriminate].
    destruct (Vm.index_value a b) as [w| |] eqn:Iv; try discriminate. inversion Ev; subst w.
    pose proof (envrel_sext _ _ _ _ (sext_tickst s G) R) as R1.
    destruct (IHl _ _ _ _ Fl El R1 (good_tickst s G)) as (N1 & la & s1 & Hx1 & Hl1 & X1).
    pose proof (envrel_sext _ _ _ _ X1 R1) as R2.
    destruct (IHi _ _ _ _ Fi Ei R2 (sext_good _ _ X1)) as (N2 & li & s2 & Hx2 & Hl2 & X2).
    pose proof (holds_ext _ _ (sext_heap _ _ X2) _ _ Hl1) as Hl1'.
    apply (expr_mono P N1 (Nat.max N1 N2)) in Hx1; [|lia].
    apply (expr_mono P N2 (Nat.max N1 N2)) in Hx2; [|lia].
    assert (X02 : sext s s2).
    { eapply sext_trans; [apply sext_tickst; auto|]. eapply sext_trans; eauto. }
    assert (Pr : forall k, eval_expr (S (Nat.max N1 N2)) P E (EIndex t xl xi) s =
                 (let* va := load la in k va) s2 -> True) by auto. clear Pr.
    unfold Vm.index_value in Iv.
    destruct Hl1' as [la x Ga|la x Ga|la x Ga Aa|la ls vs Ga Fa]; try discriminate.
    + (* a string *)
      destruct Hl2 as [li f Gi|li y Gi|li y Gi Ai|li ys vys Gi Fi']; try discriminate.
      rewrite (dec_ascii _ Aa) in Iv.
      destruct (Vm.normalize_index f (List.length x) false) as [k|] eqn:Nk; [|discriminate]. inversion Iv; subst v.
      pose proof (norm_idx_lt _ _ _ Nk) as Lk.
      destruct (nth_error x k) as [c|] eqn:Nc; [|apply nth_error_None in Nc; lia].
      change (match skipn k x with [] => [] | a0 :: _ => [a0] end) with (firstn 1 (skipn k x)).
      rewrite (nth_first_skip _ _ _ Nc). pose proof (is_ascii_nth _ _ _ Aa Nc) as Ac. rewrite (utf8_ascii _ Ac).
      exists (S (Nat.max N1 N2)), (hnext (st_heap s2)), (allocst s2 (HStr [c])). split; [|split].
      * cbn [eval_expr]. rewrite (run_tick _ s G), (run_ok _ _ _ _ _ Hx1), (run_ok _ _ _ _ _ Hx2).
        rewrite (run_load _ s2 la _ Ga), (run_load_num _ s2 li _ Gi).
        unfold lift at 1. unfold bindM at 1. rewrite (norm_idx_eq _ _ _ _ Nk). rewrite Nc. reflexivity.
      * apply h_str; [apply hget_allocst | exact Ac].
      * eapply sext_trans; [exact X02 | apply sext_allocst; eapply sext_good; eauto].
    + (* an array: the element cell itself *)
      destruct Hl2 as [li f Gi|li y Gi|li y Gi Ai|li ys vys Gi Fi']; try discriminate.
      destruct (Vm.normalize_index f (List.length vs) false) as [k|] eqn:Nk; [|discriminate].
      destruct (nth_error vs k) as [w|] eqn:Nw; [|discriminate]. inversion Iv; subst w.
      destruct (Forall2_nth_holds _ _ _ _ _ Fa Nw) as (le & Nl & Hle).
      exists (S (Nat.max N1 N2)), le, s2. split; [|split; [exact Hle | exact X02]].
      cbn [eval_expr]. rewrite (run_tick _ s G), (run_ok _ _ _ _ _ Hx1), (run_ok _ _ _ _ _ Hx2).
      rewrite (run_load _ s2 la _ Ga), (run_load_num _ s2 li _ Gi).
      unfold lift at 1. unfold bindM at 1. rewrite (Forall2_len_holds _ _ _ Fa), (norm_idx_eq _ _ _ _ Nk).
      rewrite Nl. reflexivity.
  - (* the empty list *)
    inversion Ev; subst. exists 1%nat, [], s. split; [reflexivity|]. split; [constructor | apply sext_refl; auto].
  - (* a list *)
    apply andb_true_iff in Fr as [Fe Ft].
    destruct (Compile.eval_expr _ e) as [w|] eqn:Ee; [|discriminate].
    destruct (Compile.eval_list _ t) as [ws|] eqn:Et; [|discriminate]. inversion Ev; subst v.
    destruct (IHx _ _ _ _ Fe Ee R G) as (N1 & l & s1 & Hx1 & Hl1 & X1).
    destruct value_depth_S as [d Hd].
    destruct (copy_tie d s1 l w (sext_good _ _ X1) Hl1) as (c & s2 & Hc & Hhc & X2).
    assert (X12 : sext s s2) by (eapply sext_trans; eauto).
    destruct (IHt _ _ _ _ Ft Et (envrel_sext _ _ _ _ X12 R) (sext_good _ _ X12)) as (N2 & ls & s3 & Hx3 & Hl3 & X3).
    exists (S (Nat.max N1 N2)), (c :: ls), s3. split; [|split].
    + cbn [eval_exprs]. rewrite (run_ok _ _ _ _ _ (expr_mono P N1 _ _ _ _ _ _ (Nat.le_max_l N1 N2) Hx1)).
      rewrite run_depth, Hd, (run_ok _ _ _ _ _ Hc).
      rewrite (run_ok _ _ _ _ _ (exprs_mono P N2 _ _ _ _ _ _ (Nat.le_max_r N1 N2) Hx3)). reflexivity.
    + constructor; auto. eapply holds_ext; [apply (sext_heap _ _ X3) | exact Hhc].
    + eapply sext_trans; eauto.
Qed.

Definition tie_expr P := proj1 (tie_expr_all P).

(* ====================================================================== *)
(* 5. Statements                                                           *)
(* ====================================================================== *)
Inductive srel : Compile.stmt -> stmt -> Prop :=
| s_decl n t e x : xrel e x -> srel (Compile.SDecl n e) (SDecl n t x)
| s_assign n t e x : xrel e x -> srel (Compile.SAssign (Compile.EVar n) e) (SAssign (EVar n t) x)
| s_empty : srel Compile.SEmpty SNop
| s_break : srel Compile.SBreak SBreak
| s_if c b elifs els xc xb xelifs xels :
    xrel c xc -> lrel b xb -> crel elifs xelifs -> orel els xels ->
    srel (Compile.SIf c b elifs els) (SIf ((xc, xb) :: xelifs) xels)
| s_while c b xc xb : xrel c xc -> lrel b xb -> srel (Compile.SWhile c b) (SWhile xc xb)
with lrel : Compile.slist -> list stmt -> Prop :=
| l_nil : lrel Compile.SNil []
| l_cons s t x xt : srel s x -> lrel t xt -> lrel (Compile.SCons s t) (x :: xt)
with crel : Compile.clist -> list (expr * list stmt) -> Prop :=
| c_nil : crel Compile.CNil []
| c_cons c b t xc xb xt : xrel c xc -> lrel b xb -> crel t xt -> crel (Compile.CCons c b t) ((xc, xb) :: xt)
with orel : Compile.oslist -> option (list stmt) -> Prop :=
| o_none : orel Compile.NoElse None
| o_some b xb : lrel b xb -> orel (Compile.Else b) (Some xb).

(* the statement fragment of the tie *)
Fixpoint tfrag_s (s : Compile.stmt) : bool :=
  match s with
  | Compile.SDecl n e => name_ok n && tfrag_e e
  | Compile.SAssign (Compile.EVar n) e => name_ok n && tfrag_e e
  | Compile.SEmpty | Compile.SBreak => true
  | Compile.SIf c b elifs els =>
      tfrag_e c && tfrag_l b && tfrag_c elifs && match els with Compile.NoElse => true | Compile.Else eb => tfrag_l eb end
  | Compile.SWhile c b => tfrag_e c && tfrag_l b
  | _ => false
  end
with tfrag_l (l : Compile.slist) : bool :=
  match l with Compile.SNil => true | Compile.SCons s t => tfrag_s s && tfrag_l t end
with tfrag_c (l : Compile.clist) : bool :=
  match l with Compile.CNil => true | Compile.CCons c b t => tfrag_e c && tfrag_l b && tfrag_c t end.

(* fuel monotonicity of the statement-level functions, for successful runs *)
Lemma stmt_mono P n m E x s r s' : (n <= m)%nat ->
  exec_stmt n P E x s = (Ok r, s') -> exec_stmt m P E x s = (Ok r, s').
Proof. intros L H. eapply (proj1 (proj2 (proj2 (proj2 (fuel_mono n m L))))); [exact H | discriminate]. Qed.
Lemma stmts_mono P n m E x s r s' : (n <= m)%nat ->
  exec_stmts n P E x s = (Ok r, s') -> exec_stmts m P E x s = (Ok r, s').
Proof. intros L H. eapply (proj1 (proj2 (proj2 (proj2 (proj2 (fuel_mono n m L)))))); [exact H | discriminate]. Qed.
Lemma block_mono P n m E x s r s' : (n <= m)%nat ->
  exec_block n P E x s = (Ok r, s') -> exec_block m P E x s = (Ok r, s').
Proof. intros L H. eapply (proj1 (proj2 (proj2 (proj2 (proj2 (proj2 (fuel_mono n m L))))))); [exact H | discriminate]. Qed.
Lemma while_mono P n m E c b s r s' : (n <= m)%nat ->
  exec_while n P E c b s = (Ok r, s') -> exec_while m P E c b s = (Ok r, s').
Proof.
  intros L H. eapply (proj1 (proj2 (proj2 (proj2 (proj2 (proj2 (proj2 (proj2 (fuel_mono n m L))))))))); [exact H | discriminate].
Qed.

(* ---------- frames ---------- *)
Lemma alook_cons n m v lf : CompileSem.alook m ((n, v) :: lf) = if str_eqb n m then Some v else CompileSem.alook m lf.
Proof. reflexivity. Qed.

Lemma frel_in_decl h n v c lf sf :
  frel_in h lf sf -> holds h c v -> frel_in h ((n, v) :: lf) (frame_set n c sf).
Proof.
  intros F H m. rewrite alook_cons. destruct (str_eqb n m) eqn:Q.
  - apply str_eqb_eq in Q; subst m. rewrite frame_get_set_same. eauto.
  - apply str_eqb_neq in Q. rewrite frame_get_set_other by congruence. apply F.
Qed.
Lemma frel_gl_decl h n v c gf g :
  frel_gl h gf g -> holds h c v -> frel_gl h ((n, v) :: gf) (frame_set n c g).
Proof.
  intros F H m w. rewrite alook_cons. destruct (str_eqb n m) eqn:Q.
  - apply str_eqb_eq in Q; subst m. intro A; inversion A; subst w. rewrite frame_get_set_same. eauto.
  - apply str_eqb_neq in Q. rewrite frame_get_set_other by congruence. apply F.
Qed.
Lemma frel_in_assign h n v c lf sf x :
  frel_in h lf sf -> holds h c v -> frame_get n sf = Some x ->
  frel_in h ((n, v) :: lf) (frame_replace n c sf).
Proof.
  intros F H G m. rewrite alook_cons. destruct (str_eqb n m) eqn:Q.
  - apply str_eqb_eq in Q; subst m. rewrite (frame_get_replace_same _ _ _ _ G). eauto.
  - apply str_eqb_neq in Q. rewrite frame_get_replace_other by congruence. apply F.
Qed.
Lemma frel_gl_assign h n v c gf g x :
  frel_gl h gf g -> holds h c v -> frame_get n g = Some x ->
  frel_gl h ((n, v) :: gf) (frame_replace n c g).
Proof.
  intros F H G m w. rewrite alook_cons. destruct (str_eqb n m) eqn:Q.
  - apply str_eqb_eq in Q; subst m. intro A; inversion A; subst w.
    rewrite (frame_get_replace_same _ _ _ _ G). eauto.
  - apply str_eqb_neq in Q. rewrite frame_get_replace_other by congruence. apply F.
Qed.

(* x := e *)
Lemma decl_tie lenv E s n v c :
  envrel lenv E s -> name_ok n = true -> holds (st_heap s) c v ->
  exists E' s', set_var n c E s = (Ok E', s') /\ envrel (CompileSem.sdecl n v lenv) E' s' /\
                st_heap s' = st_heap s /\ List.length E' = List.length E /\
                (forall t, t = s' -> st_trace t = st_trace s /\ st_stopped t = st_stopped s /\
                                     st_stop_at t = st_stop_at s /\ st_total t = st_total s /\ st_fails t = st_fails s).
Proof.
  intros (lfs & gf & -> & F & FG) N H. unfold set_var. unfold name_ok in N.
  apply negb_true_iff in N. rewrite N.
  inversion F as [|lf sf lt st Hf F']; subst.
  - eexists [], _. split; [reflexivity|]. split.
    + exists [], ((n, v) :: gf). split; [reflexivity|]. split; [constructor|].
      simpl. apply frel_gl_decl; auto.
    + simpl. repeat split; intros; subst; reflexivity.
  - eexists _, s. split; [reflexivity|]. split.
    + exists (((n, v) :: lf) :: lt), gf. split; [reflexivity|]. split; [|exact FG].
      constructor; auto. apply frel_in_decl; auto.
    + simpl. repeat split; intros; subst; reflexivity.
Qed.

(* x = e *)
Lemma assign_tie lenv E s n v c lenv' :
  envrel lenv E s -> name_ok n = true -> holds (st_heap s) c v -> CompileSem.sassign n v lenv = Some lenv' ->
  exists E' s', update_var n c E s = (Ok E', s') /\ envrel lenv' E' s' /\
                st_heap s' = st_heap s /\ List.length E' = List.length E /\
                (forall t, t = s' -> st_trace t = st_trace s /\ st_stopped t = st_stopped s /\
                                     st_stop_at t = st_stop_at s /\ st_total t = st_total s /\ st_fails t = st_fails s).
Proof.
  intros (lfs & gf & -> & F & FG) N H A. unfold update_var. unfold name_ok in N.
  apply negb_true_iff in N. rewrite N.
  revert lenv' A. induction F as [|lf sf lt st Hf F IH]; intros lenv' A; simpl in A |- *.
  - destruct (CompileSem.alook n gf) as [w|] eqn:Q; [|discriminate]. inversion A; subst lenv'.
    destruct (FG n w Q) as (l0 & G0 & _). rewrite G0.
    eexists [], _. split; [reflexivity|]. split.
    + exists [], ((n, v) :: gf). split; [reflexivity|]. split; [constructor|].
      simpl. eapply frel_gl_assign; eauto.
    + simpl. repeat split; intros; subst; reflexivity.
  - pose proof (Hf n) as Hn. destruct (frame_get n sf) as [l0|] eqn:G0.
    + destruct Hn as (w & Q & _). rewrite Q in A. inversion A; subst lenv'.
      eexists _, s. split; [reflexivity|]. split.
      * exists (((n, v) :: lf) :: lt), gf. split; [reflexivity|]. split; [|exact FG].
        constructor; auto. eapply frel_in_assign; eauto.
      * simpl. repeat split; intros; subst; reflexivity.
    + rewrite Hn in A. destruct (CompileSem.sassign n v (lt ++ [gf])) as [r|] eqn:Q; [|discriminate].
      inversion A; subst lenv'. destruct (IH _ eq_refl) as (E' & s' & U & R' & Hh & Hlen & Hrest).
      destruct (env_update n c st) as [st'|] eqn:U'.
      * inversion U; subst. eexists _, _. split; [reflexivity|]. split.
        -- destruct R' as (lfs' & gf' & Eq & F' & FG'). exists (lf :: lfs'), gf'.
           split; [simpl; rewrite Eq; reflexivity|]. split; [constructor; auto | exact FG'].
        -- simpl. simpl in Hlen. repeat split; intros; subst; try reflexivity. f_equal; exact Hlen.
      * destruct (frame_get n (st_globals s)); inversion U; subst.
        eexists _, _. split; [reflexivity|]. split.
        -- destruct R' as (lfs' & gf' & Eq & F' & FG'). exists (lf :: lfs'), gf'.
           split; [simpl; rewrite Eq; reflexivity|]. split; [|exact FG'].
           constructor; auto.
        -- simpl. simpl in Hlen. split; [reflexivity|]. split; [f_equal; exact Hlen|]. intros; subst; repeat split.
Qed.

(* ---------- what a statement may do to the state ---------- *)
Definition gext (s s' : state) : Prop :=
  heap_extends (st_heap s) (st_heap s') /\ good s' /\
  st_trace s' = st_trace s /\ st_total s' = st_total s /\ st_fails s' = st_fails s.
Lemma gext_refl s : good s -> gext s s.
Proof. intro G. split; [apply heap_extends_refl|]. split; [exact G|]. auto. Qed.
Lemma gext_trans a b c : gext a b -> gext b c -> gext a c.
Proof.
  intros (A1 & A2 & A3 & A4 & A5) (B1 & B2 & B3 & B4 & B5).
  split; [eapply heap_extends_trans; eauto|]. split; [exact B2|]. repeat split; congruence.
Qed.
Lemma sext_gext s s' : sext s s' -> gext s s'.
Proof. intros (A1 & A2 & A3 & A4 & A5 & A6). split; [exact A1|]. split; [exact A2|]. auto. Qed.
Lemma gext_good s s' : gext s s' -> good s'.
Proof. intros (_ & G & _). exact G. Qed.
Lemma gext_same_heap s s' : good s -> st_heap s' = st_heap s ->
  (st_trace s' = st_trace s /\ st_stopped s' = st_stopped s /\ st_stop_at s' = st_stop_at s /\
   st_total s' = st_total s /\ st_fails s' = st_fails s) -> gext s s'.
Proof.
  intros [W [T1 T2]] Hh (A & B & C0 & D & F). split; [rewrite Hh; apply heap_extends_refl|].
  split; [|auto]. split; [unfold wf; rewrite Hh; exact W | split; congruence].
Qed.

Definition sigbr (sig : signal) (br : bool) : Prop :=
  match sig, br with SigNone, false => True | SigBreak, true => True | _, _ => False end.

Lemma envrel_push lenv E s : envrel lenv E s -> envrel ([] :: lenv) ([] :: E) s.
Proof.
  intros (lfs & gf & -> & F & FG). exists ([] :: lfs), gf. split; [reflexivity|]. split; [|exact FG].
  constructor; auto. intro n. reflexivity.
Qed.
Lemma envrel_pop lenv E s : envrel lenv E s -> E <> [] -> envrel (tl lenv) (tl E) s.
Proof.
  intros (lfs & gf & -> & F & FG) N. inversion F; subst; [congruence|].
  exists l, gf. auto.
Qed.
Lemma envrel_gext lenv E s s' :
  heap_extends (st_heap s) (st_heap s') -> frel_gl (st_heap s') (last lenv []) (st_globals s') ->
  envrel lenv E s -> envrel lenv E s'.
Proof.
  intros X FG (lfs & gf & -> & F & _). exists lfs, gf. split; auto. split.
  - eapply Forall2_impl; [|exact F]. intros; eapply frel_in_ext; eauto.
  - rewrite last_last in FG. exact FG.
Qed.

Section Stmts.
  Variable P : program.

  (* the statement list part of the induction, at a given fuel of lx *)
  Definition list_tie (f : nat) : Prop :=
    forall l xl lenv E s lenv' br,
      CompileSem.lx_l f l lenv = Some (lenv', br) -> lrel l xl -> tfrag_l l = true -> envrel lenv E s -> good s ->
      exists N sig E' s', exec_stmts N P E xl s = (Ok (sig, E'), s') /\ sigbr sig br /\
                          envrel lenv' E' s' /\ gext s s' /\ List.length E' = List.length E.

  (* a block: push, run, pop *)
  Lemma block_tie f b xb lenv E s lenv1 br :
    list_tie f -> CompileSem.leave (CompileSem.lx_l f b ([] :: lenv)) = Some (lenv1, br) ->
    lrel b xb -> tfrag_l b = true -> envrel lenv E s -> good s ->
    exists N sig E2 s', exec_block N P ([] :: E) xb s = (Ok (sig, E2), s') /\ sigbr sig br /\
                        envrel lenv1 (tl E2) s' /\ gext s s' /\ List.length (tl E2) = List.length E.
  Proof.
    intros HL Hl Rb Fb R G. unfold CompileSem.leave in Hl.
    destruct (CompileSem.lx_l f b ([] :: lenv)) as [[lenv2 br2]|] eqn:Q; [|discriminate]. inversion Hl; subst.
    pose proof (envrel_sext _ _ _ _ (sext_tickst s G) (envrel_push _ _ _ R)) as R1.
    destruct (HL _ _ _ _ _ _ _ Q Rb Fb R1 (good_tickst s G)) as (N & sig & E2 & s' & Hx & Hs & R2 & X & Hlen).
    exists (S N), sig, E2, s'. split; [cbn [exec_block]; rewrite (run_tick _ s G); exact Hx|].
    split; [exact Hs|]. simpl in Hlen.
    split; [apply envrel_pop; auto; destruct E2; [discriminate | congruence]|].
    split; [eapply gext_trans; [apply sext_gext, sext_tickst; auto | exact X]|].
    destruct E2; simpl in *; [discriminate | lia].
  Qed.

  (* a condition with its block *)
  Lemma cond_true_tie f c b xc xb lenv E s lenv1 br :
    list_tie f -> Compile.eval_expr (fun n => CompileSem.slook n lenv) c = Some (Vm.VBool true) ->
    CompileSem.leave (CompileSem.lx_l f b ([] :: lenv)) = Some (lenv1, br) ->
    xrel c xc -> lrel b xb -> tfrag_e c = true -> tfrag_l b = true -> envrel lenv E s -> good s ->
    exists N sig E1 s', exec_cond N P E xc xb s = (Ok (Some sig, E1), s') /\ sigbr sig br /\
                        envrel lenv1 E1 s' /\ gext s s' /\ List.length E1 = List.length E.
  Proof.
    intros HL Ec Hl Rc Rb Fc Fb R G.
    destruct (tie_expr P c xc Rc ([] :: lenv) ([] :: E) s _ Fc Ec (envrel_push _ _ _ R) G)
      as (N1 & l & s1 & Hx & Hh & X1).
    inversion Hh; subst.
    destruct (block_tie f b xb lenv E s1 lenv1 br HL Hl Rb Fb (envrel_sext _ _ _ _ X1 R) (sext_good _ _ X1))
      as (N2 & sig & E2 & s' & Hb & Hs & R2 & X2 & Hlen).
    exists (S (Nat.max N1 N2)), sig, (tl E2), s'.
    split.
    - cbn [exec_cond]. rewrite (run_ok _ _ _ _ _ (expr_mono P N1 _ _ _ _ _ _ (Nat.le_max_l N1 N2) Hx)).
      rewrite (run_load _ s1 l _ H1). rewrite (run_ok _ _ _ _ _ (block_mono P N2 _ _ _ _ _ _ (Nat.le_max_r N1 N2) Hb)).
      reflexivity.
    - split; [exact Hs|]. split; [exact R2|]. split; [|exact Hlen].
      eapply gext_trans; [apply sext_gext; exact X1 | exact X2].
  Qed.

  Lemma cond_false_tie c xc xb lenv E s :
    Compile.eval_expr (fun n => CompileSem.slook n lenv) c = Some (Vm.VBool false) ->
    xrel c xc -> tfrag_e c = true -> envrel lenv E s -> good s ->
    exists N s', exec_cond N P E xc xb s = (Ok (None, E), s') /\ envrel lenv E s' /\ gext s s'.
  Proof.
    intros Ec Rc Fc R G.
    destruct (tie_expr P c xc Rc ([] :: lenv) ([] :: E) s _ Fc Ec (envrel_push _ _ _ R) G)
      as (N1 & l & s1 & Hx & Hh & X1).
    inversion Hh; subst. exists (S N1), s1. split.
    - cbn [exec_cond]. rewrite (run_ok _ _ _ _ _ Hx), (run_load _ s1 l _ H1). reflexivity.
    - split; [eapply envrel_sext; eauto | apply sext_gext; exact X1].
  Qed.
End Stmts.

Lemma cond_mono P n m E c b s r s' : (n <= m)%nat ->
  exec_cond n P E c b s = (Ok r, s') -> exec_cond m P E c b s = (Ok r, s').
Proof.
  intros L H. eapply (proj1 (proj2 (proj2 (proj2 (proj2 (proj2 (proj2 (fuel_mono n m L)))))))); [exact H | discriminate].
Qed.

Lemma if_go_mono P n m els : (n <= m)%nat -> forall cl E s r s',
  SemStore.if_go (exec_cond n P) (exec_block n P) els cl E s = (Ok r, s') ->
  SemStore.if_go (exec_cond m P) (exec_block m P) els cl E s = (Ok r, s').
Proof.
  intros L cl. induction cl as [|[c b] t IH]; intros E s r s' H; simpl in H |- *.
  - destruct els as [body|]; [|exact H].
    unfold bindM in *. destruct (exec_block n P ([] :: E) body s) as [[[sig e1]|er] s1] eqn:Q; [|discriminate].
    rewrite (block_mono P n m _ _ _ _ _ L Q). exact H.
  - unfold bindM in *. destruct (exec_cond n P E c b s) as [[[o e1]|er] s1] eqn:Q; [|discriminate].
    rewrite (cond_mono P n m _ _ _ _ _ _ L Q). destruct o; [exact H | apply IH; exact H].
Qed.

(* destruct the scrutinee of the match at the head of an equation in H *)
Ltac dscrut H Hl :=
  match type of H with (match ?t with _ => _ end) = _ => destruct t eqn:Hl end.

Section Main.
  Variable P : program.

  Definition stmt_tie (f : nat) : Prop :=
    forall st x lenv E s lenv' br,
      CompileSem.lx_s f st lenv = Some (lenv', br) -> srel st x -> tfrag_s st = true -> envrel lenv E s -> good s ->
      exists N sig E' s', exec_stmt N P E x s = (Ok (sig, E'), s') /\ sigbr sig br /\
                          envrel lenv' E' s' /\ gext s s' /\ List.length E' = List.length E.
  Definition conds_tie (f : nat) : Prop :=
    forall cl els xcl xels lenv E s lenv' br,
      CompileSem.lx_c f cl els lenv = Some (lenv', br) -> crel cl xcl -> orel els xels -> tfrag_c cl = true ->
      match els with Compile.NoElse => true | Compile.Else eb => tfrag_l eb end = true -> envrel lenv E s -> good s ->
      exists N sig E' s',
        SemStore.if_go (exec_cond N P) (exec_block N P) xels xcl E s = (Ok (sig, E'), s') /\ sigbr sig br /\
        envrel lenv' E' s' /\ gext s s' /\ List.length E' = List.length E.
  Definition while_tie (f : nat) : Prop :=
    forall c b xc xb lenv E s lenv' br,
      CompileSem.lx_s f (Compile.SWhile c b) lenv = Some (lenv', br) -> xrel c xc -> lrel b xb ->
      tfrag_e c = true -> tfrag_l b = true -> envrel lenv E s -> good s ->
      exists N E' s', exec_while N P E xc xb s = (Ok (SigNone, E'), s') /\ br = false /\
                      envrel lenv' E' s' /\ gext s s' /\ List.length E' = List.length E.

  (* the value of a declaration / assignment: evaluate, copy *)
  Lemma value_copy_tie e x lenv E s v :
    xrel e x -> tfrag_e e = true -> Compile.eval_expr (fun n => CompileSem.slook n lenv) e = Some v ->
    envrel lenv E s -> good s ->
    exists N c s2, (let* v0 := eval_expr N P E x in let* d := depth_fuel in copy_or_ref d v0) (tickst s) = (Ok c, s2) /\
                   holds (st_heap s2) c v /\ sext s s2.
  Proof.
    intros Rx Fx Ev R G.
    destruct (tie_expr P e x Rx lenv E (tickst s) v Fx Ev (envrel_sext _ _ _ _ (sext_tickst s G) R) (good_tickst s G))
      as (N & l & s1 & Hx & Hh & X1).
    destruct value_depth_S as [d Hd].
    destruct (copy_tie d s1 l v (sext_good _ _ X1) Hh) as (c & s2 & Hc & Hhc & X2).
    exists N, c, s2. split.
    - rewrite (run_ok _ _ _ _ _ Hx), run_depth, Hd. exact Hc.
    - split; [exact Hhc|]. eapply sext_trans; [apply sext_tickst; auto|]. eapply sext_trans; eauto.
  Qed.

  Lemma while_step f : list_tie P f -> while_tie f -> while_tie (S f).
  Proof.
    intros IL IW c b xc xb lenv E s lenv' br H Rc Rb Fc Fb R G. cbn [CompileSem.lx_s] in H.
    destruct (Compile.eval_expr (fun x => CompileSem.slook x lenv) c) as [[| [|] | | | | |]|] eqn:Ec; try discriminate.
    - (* the condition holds *)
      dscrut H Hl; [|discriminate H]. destruct p as [env1 br1].
      destruct (cond_true_tie P f c b xc xb lenv E s env1 br1 IL Ec Hl Rc Rb Fc Fb R G)
        as (N1 & sig & E1 & s1 & Hc & Hs & R1 & X1 & Hlen1).
      destruct br1.
      + (* break *)
        inversion H; subst. destruct sig; simpl in Hs; try contradiction.
        exists (S N1), E1, s1. split; [cbn [exec_while]; rewrite (run_ok _ _ _ _ _ Hc); reflexivity|]. auto.
      + destruct sig; simpl in Hs; try contradiction.
        destruct (IW c b xc xb env1 E1 s1 lenv' br H Rc Rb Fc Fb R1 (gext_good _ _ X1))
          as (N2 & E2 & s2 & Hw & Hbr & R2 & X2 & Hlen2).
        exists (S (Nat.max N1 N2)), E2, s2. split.
        * cbn [exec_while]. rewrite (run_ok _ _ _ _ _ (cond_mono P N1 _ _ _ _ _ _ _ (Nat.le_max_l N1 N2) Hc)).
          exact (while_mono P N2 _ _ _ _ _ _ _ (Nat.le_max_r N1 N2) Hw).
        * split; [exact Hbr|]. split; [exact R2|]. split; [eapply gext_trans; eauto | congruence].
    - (* the condition fails *)
      inversion H; subst.
      destruct (cond_false_tie P c xc xb lenv' E s Ec Rc Fc R G) as (N1 & s1 & Hc & R1 & X1).
      exists (S N1), E, s1. split; [cbn [exec_while]; rewrite (run_ok _ _ _ _ _ Hc); reflexivity|]. auto.
  Qed.

  Lemma conds_step f : list_tie P f -> conds_tie f -> conds_tie (S f).
  Proof.
    intros IL IC cl els xcl xels lenv E s lenv' br H Rc Ro Fc Fo R G. cbn [CompileSem.lx_c] in H.
    inversion Rc as [|c b t xc xb xt Rc1 Rb1 Rt1]; subst.
    - (* no condition left: the else block, if any *)
      inversion Ro as [|eb xeb Reb]; subst.
      + inversion H; subst. exists 0%nat, SigNone, E, s. simpl. repeat split; auto; try apply G; apply heap_extends_refl.
      + destruct (block_tie P f eb xeb lenv E s lenv' br IL H Reb Fo R G) as (N & sig & E2 & s' & Hb & Hs & R2 & X & Hlen).
        exists N, sig, (tl E2), s'. simpl. rewrite (run_ok _ _ _ _ _ Hb). auto.
    - simpl in Fc. apply andb_true_iff in Fc as [Fc Ft]. apply andb_true_iff in Fc as [Fc1 Fb1].
      destruct (Compile.eval_expr (fun x => CompileSem.slook x lenv) c) as [[| [|] | | | | |]|] eqn:Ec; try discriminate.
      + destruct (cond_true_tie P f c b xc xb lenv E s lenv' br IL Ec H Rc1 Rb1 Fc1 Fb1 R G)
          as (N1 & sig & E1 & s1 & Hc & Hs & R1 & X1 & Hlen1).
        exists N1, sig, E1, s1. simpl. rewrite (run_ok _ _ _ _ _ Hc). auto.
      + destruct (cond_false_tie P c xc xb lenv E s Ec Rc1 Fc1 R G) as (N1 & s1 & Hc & R1 & X1).
        destruct (IC t els xt xels lenv E s1 lenv' br H Rt1 Ro Ft Fo R1 (gext_good _ _ X1))
          as (N2 & sig & E2 & s2 & Hi & Hs & R2 & X2 & Hlen2).
        exists (Nat.max N1 N2), sig, E2, s2. simpl.
        rewrite (run_ok _ _ _ _ _ (cond_mono P N1 _ _ _ _ _ _ _ (Nat.le_max_l N1 N2) Hc)).
        split; [exact (if_go_mono P N2 _ _ (Nat.le_max_r N1 N2) _ _ _ _ _ Hi)|].
        split; [exact Hs|]. split; [exact R2|]. split; [eapply gext_trans; eauto | exact Hlen2].
  Qed.
  Lemma stmt_step f : conds_tie f -> while_tie (S f) -> stmt_tie (S f).
  Proof.
    intros IC IW st x lenv E s lenv' br H Rs Fs R G.
    inversion Rs as [n t e xe Rx|n t e xe Rx| | |c b elifs els xc xb xelifs xels Rc Rb Rl Ro|c b xc xb Rc Rb];
      subst; cbn [CompileSem.lx_s] in H; simpl in Fs.
    - (* x := e *)
      apply andb_true_iff in Fs as [Fn Fe].
      destruct (Compile.eval_expr (fun x0 => CompileSem.slook x0 lenv) e) as [v|] eqn:Ev; [|discriminate]. inversion H; subst.
      destruct (value_copy_tie e xe lenv E s v Rx Fe Ev R G) as (N & c & s2 & Hv & Hh & X2).
      destruct (decl_tie lenv E s2 n v c (envrel_sext _ _ _ _ X2 R) Fn Hh) as (E' & s3 & Hd & R3 & Hheap & Hlen & Hrest).
      exists (S N), SigNone, E', s3. split.
      + cbn [exec_stmt]. rewrite (run_tick _ s G). unfold bindM at 1.
        unfold bindM at 1 in Hv. destruct (eval_expr N P E xe (tickst s)) as [[v0|er] s1]; [|discriminate].
        unfold bindM at 1. unfold bindM at 1 in Hv. cbn [depth_fuel] in *.
        unfold bindM at 1. rewrite Hv. unfold bindM at 1. rewrite Hd. reflexivity.
      + split; [exact I|]. split; [exact R3|]. split; [|exact Hlen].
        eapply gext_trans; [apply sext_gext; exact X2|].
        apply gext_same_heap; [eapply sext_good; eauto | exact Hheap | apply (Hrest s3 eq_refl)].
    - (* x = e *)
      apply andb_true_iff in Fs as [Fn Fe].
      destruct (Compile.eval_expr (fun x0 => CompileSem.slook x0 lenv) e) as [v|] eqn:Ev; [|discriminate].
      destruct (CompileSem.sassign n v lenv) as [lenv1|] eqn:Ha; [|discriminate]. inversion H; subst.
      destruct (value_copy_tie e xe lenv E s v Rx Fe Ev R G) as (N & c & s2 & Hv & Hh & X2).
      destruct (assign_tie lenv E s2 n v c lenv' (envrel_sext _ _ _ _ X2 R) Fn Hh Ha)
        as (E' & s3 & Hd & R3 & Hheap & Hlen & Hrest).
      exists (S N), SigNone, E', s3. split.
      + cbn [exec_stmt]. rewrite (run_tick _ s G). unfold bindM at 1.
        unfold bindM at 1 in Hv. destruct (eval_expr N P E xe (tickst s)) as [[v0|er] s1]; [|discriminate].
        unfold bindM at 1. unfold bindM at 1 in Hv. cbn [depth_fuel] in *.
        unfold bindM at 1. rewrite Hv. unfold bindM at 1. rewrite Hd. reflexivity.
      + split; [exact I|]. split; [exact R3|]. split; [|exact Hlen].
        eapply gext_trans; [apply sext_gext; exact X2|].
        apply gext_same_heap; [eapply sext_good; eauto | exact Hheap | apply (Hrest s3 eq_refl)].
    - (* empty statement *)
      inversion H; subst. exists 1%nat, SigNone, E, (tickst s).
      split; [cbn [exec_stmt]; rewrite (run_tick _ s G); reflexivity|].
      split; [exact I|]. split; [eapply envrel_sext; [apply sext_tickst; auto | exact R]|].
      split; [apply sext_gext, sext_tickst; auto | reflexivity].
    - (* break *)
      inversion H; subst. exists 1%nat, SigBreak, E, (tickst s).
      split; [cbn [exec_stmt]; rewrite (run_tick _ s G); reflexivity|].
      split; [exact I|]. split; [eapply envrel_sext; [apply sext_tickst; auto | exact R]|].
      split; [apply sext_gext, sext_tickst; auto | reflexivity].
    - (* if *)
      apply andb_true_iff in Fs as [Fs Fo]. apply andb_true_iff in Fs as [Fs Fl]. apply andb_true_iff in Fs as [Fc Fb].
      destruct (IC (Compile.CCons c b elifs) els ((xc, xb) :: xelifs) xels lenv E (tickst s) lenv' br H
                   (c_cons _ _ _ _ _ _ Rc Rb Rl) Ro)
        as (N & sig & E' & s' & Hi & Hs & R' & X & Hlen).
      { simpl. rewrite Fc, Fb, Fl. reflexivity. }
      { exact Fo. }
      { eapply envrel_sext; [apply sext_tickst; auto | exact R]. }
      { apply good_tickst; auto. }
      exists (S N), sig, E', s'. split; [rewrite SemStore.exec_stmt_SIf, (run_tick _ s G); exact Hi|].
      split; [exact Hs|]. split; [exact R'|]. split; [|exact Hlen].
      eapply gext_trans; [apply sext_gext, sext_tickst; auto | exact X].
    - (* while *)
      apply andb_true_iff in Fs as [Fc Fb].
      destruct (IW c b xc xb lenv E (tickst s) lenv' br H Rc Rb Fc Fb
                   (envrel_sext _ _ _ _ (sext_tickst s G) R) (good_tickst s G))
        as (N & E' & s' & Hw & Hbr & R' & X & Hlen).
      subst br. exists (S N), SigNone, E', s'.
      split; [cbn [exec_stmt]; rewrite (run_tick _ s G); exact Hw|].
      split; [exact I|]. split; [exact R'|]. split; [|exact Hlen].
      eapply gext_trans; [apply sext_gext, sext_tickst; auto | exact X].
  Qed.

  Lemma list_step f : stmt_tie f -> list_tie P f -> list_tie P (S f).
  Proof.
    intros IS IL l xl lenv E s lenv' br H Rl Fl R G. cbn [CompileSem.lx_l] in H.
    inversion Rl as [|st t x xt Rs Rt]; subst.
    - inversion H; subst. exists 1%nat, SigNone, E, s. split; [reflexivity|].
      split; [exact I|]. split; [exact R|]. split; [apply gext_refl; auto | reflexivity].
    - simpl in Fl. apply andb_true_iff in Fl as [Fs Ft].
      dscrut H Hs; [|discriminate H]. destruct p as [env1 br1].
      destruct (IS st x lenv E s env1 br1 Hs Rs Fs R G) as (N1 & sig & E1 & s1 & Hx & Hsig & R1 & X1 & Hlen1).
      destruct br1.
      + inversion H; subst. destruct sig; simpl in Hsig; try contradiction.
        exists (S N1), SigBreak, E1, s1. split; [cbn [exec_stmts]; rewrite (run_ok _ _ _ _ _ Hx); reflexivity|]. auto.
      + destruct sig; simpl in Hsig; try contradiction.
        destruct (IL t xt env1 E1 s1 lenv' br H Rt Ft R1 (gext_good _ _ X1)) as (N2 & sig & E2 & s2 & Hl & Hsig2 & R2 & X2 & Hlen2).
        exists (S (Nat.max N1 N2)), sig, E2, s2. split.
        * cbn [exec_stmts]. rewrite (run_ok _ _ _ _ _ (stmt_mono P N1 _ _ _ _ _ _ (Nat.le_max_l N1 N2) Hx)).
          exact (stmts_mono P N2 _ _ _ _ _ _ (Nat.le_max_r N1 N2) Hl).
        * split; [exact Hsig2|]. split; [exact R2|]. split; [eapply gext_trans; eauto | congruence].
  Qed.

  Theorem tie_all : forall f, stmt_tie f /\ list_tie P f /\ conds_tie f /\ while_tie f.
  Proof.
    induction f as [|f (IS & IL & IC & IW)].
    - repeat split; intro; intros; discriminate.
    - pose proof (while_step f IL IW) as W.
      split; [apply stmt_step; auto|]. split; [apply list_step; auto|]. split; [apply conds_step; auto | exact W].
  Qed.
End Main.

(* ====================================================================== *)
(* 6. Whole programs                                                       *)
(* ====================================================================== *)
(* reading a basic cell back as a plain value; arrays are read back by the relation [holds] *)
Definition reify (h : heap) (l : loc) : option Vm.value :=
  match hget h l with
  | Some (HNum f) => Some (Vm.VNum f)
  | Some (HBool b) => Some (Vm.VBool b)
  | Some (HStr x) => if is_ascii x then Some (Vm.VStr (Vm.utf8_encode x)) else None
  | _ => None
  end.
Lemma reify_holds h l v : reify h l = Some v -> holds h l v.
Proof.
  unfold reify. destruct (hget h l) as [[f|x|b| | | |]|] eqn:G; try discriminate.
  - intro Q; inversion Q; apply h_num; auto.
  - destruct (is_ascii x) eqn:A; [|discriminate]. rewrite (utf8_ascii _ A).
    intro Q; inversion Q; apply h_str; auto.
  - intro Q; inversion Q; apply h_bool; auto.
Qed.
Lemma holds_reify h l v : scalar v -> holds h l v -> reify h l = Some v.
Proof.
  unfold reify. intros S H. destruct H; try contradiction; rewrite H; auto.
  rewrite H0, (utf8_ascii _ H0). reflexivity.
Qed.

(* the global n of the Sem state reads back as v *)
Definition sem_global (s : state) (n : str) (v : Vm.value) : Prop :=
  exists l, frame_get n (st_globals s) = Some l /\ holds (st_heap s) l v.

Theorem tie_program (P : program) (p : Compile.slist) fuel env' s0 :
  CompileSem.lx_l fuel p [[]] = Some (env', false) ->
  lrel p (p_stmts P) -> tfrag_l p = true ->
  good s0 -> st_total s0 = 0%nat -> st_fails s0 = 0%nat ->
  exists N s1, (forall n, (N <= n)%nat -> run_program n P s0 = (ODone, s1)) /\
               st_trace s1 = st_trace s0 /\
               forall n v, CompileSem.slook n env' = Some v -> sem_global s1 n v.
Proof.
  intros H Rl Fl G T0 F0.
  destruct (tie_all P fuel) as (_ & IL & _ & _).
  assert (R0 : envrel [[]] [] (tickst s0)).
  { exists [], []. split; [reflexivity|]. split; [constructor|]. intros n v A; discriminate. }
  destruct (IL p (p_stmts P) [[]] [] (tickst s0) env' false H Rl Fl R0 (good_tickst s0 G))
    as (N & sig & E' & s1 & Hx & _ & R1 & X & Hlen).
  destruct E'; [|discriminate].
  exists N, s1. split; [|split].
  - intros n Ln. unfold run_program. rewrite (run_tick _ s0 G).
    rewrite (run_ok _ _ _ _ _ (stmts_mono P N n _ _ _ _ _ Ln Hx)). cbn [ret].
    destruct X as (_ & _ & Xt & Xtot & Xf). simpl in Xtot, Xf.
    unfold test_report. rewrite Xtot, T0. simpl. rewrite Xf, F0. reflexivity.
  - destruct X as (_ & _ & Xt & _). exact Xt.
  - intros n v A. destruct R1 as (lfs & gf & Eq & F & FG).
    inversion F; subst. simpl in A.
    destruct (CompileSem.alook n gf) as [w|] eqn:Q; [|discriminate]. inversion A; subst w.
    destruct (FG n v Q) as (l & Gl & Hl). exists l. auto.
Qed.

Lemma good_init input ff ay : good (init_state None input ff ay).
Proof. split; [apply SemStore.wf_init | split; reflexivity]. Qed.

(* ====================================================================== *)
(* 7. The translation (with every type annotation TNone: Sem.v does not look at them here) *)
(* ====================================================================== *)
Fixpoint tr_e (e : Compile.expr) : expr :=
  match e with
  | Compile.ENum f => ENum f
  | Compile.EBool b => EBool b
  | Compile.EStr s => EStr s
  | Compile.EVar n => EVar n TNone
  | Compile.EGroup e1 => EGroup (tr_e e1)
  | Compile.EUn Compile.UMinus e1 => EUn UMinus (tr_e e1)
  | Compile.EUn _ e1 => EUn UBang (tr_e e1)
  | Compile.EBin op _ _ l r => EBin (match trop op with Some o => o | None => BPlus end) TNone (tr_e l) (tr_e r)
  | Compile.EArr l => EArr TNone (tr_el l)
  | Compile.EIndex l i => EIndex TNone (tr_e l) (tr_e i)
  | _ => ENum 0%float
  end
with tr_el (l : Compile.elist) : list expr :=
  match l with Compile.ENil => [] | Compile.ECons e t => tr_e e :: tr_el t end.

Fixpoint tr_s (s : Compile.stmt) : stmt :=
  match s with
  | Compile.SDecl n e => SDecl n TNone (tr_e e)
  | Compile.SAssign (Compile.EVar n) e => SAssign (EVar n TNone) (tr_e e)
  | Compile.SBreak => SBreak
  | Compile.SIf c b elifs els =>
      SIf ((tr_e c, tr_l b) :: tr_c elifs) (match els with Compile.NoElse => None | Compile.Else eb => Some (tr_l eb) end)
  | Compile.SWhile c b => SWhile (tr_e c) (tr_l b)
  | _ => SNop
  end
with tr_l (l : Compile.slist) : list stmt :=
  match l with Compile.SNil => [] | Compile.SCons s t => tr_s s :: tr_l t end
with tr_c (l : Compile.clist) : list (expr * list stmt) :=
  match l with Compile.CNil => [] | Compile.CCons c b t => (tr_e c, tr_l b) :: tr_c t end.

Lemma tr_e_rel : forall e, tfrag_e e = true -> xrel e (tr_e e).
Proof.
  fix IH 1 with (IHl (l : Compile.elist) : tfrag_el l = true -> xlrel l (tr_el l)).
  - intros e F. destruct e; simpl in F; try discriminate.
    + constructor.
    + constructor.
    + constructor.
    + constructor.
    + simpl. constructor. apply IHl; exact F.
    + destruct op; try discriminate; simpl; constructor; apply IH; exact F.
    + simpl. destruct (trop op) as [o|] eqn:T; [|discriminate]. apply andb_true_iff in F as [F F3].
      apply andb_true_iff in F as [F1 F2].
      apply x_bin; [exact T | apply IH; exact F1 | apply IH; exact F2].
    + simpl. apply andb_true_iff in F as [F1 F2]. constructor; apply IH; assumption.
    + simpl. constructor. apply IH; exact F.
  - intros l F. destruct l; simpl in F |- *; [constructor|].
    apply andb_true_iff in F as [F1 F2]. constructor; [apply IH; exact F1 | apply IHl; exact F2].
Qed.

Lemma tr_rel :
  (forall s, tfrag_s s = true -> srel s (tr_s s)) /\
  (forall l, tfrag_l l = true -> lrel l (tr_l l)) /\
  (forall l, tfrag_c l = true -> crel l (tr_c l)).
Proof.
  assert (HS : forall s, tfrag_s s = true -> srel s (tr_s s))
    by (fix IHs 1 with (IHl (l : Compile.slist) : tfrag_l l = true -> lrel l (tr_l l))
                       (IHc (l : Compile.clist) : tfrag_c l = true -> crel l (tr_c l));
        [ intros s F; destruct s; simpl in F; try discriminate; simpl
        | intros l F; destruct l; simpl in F |- *; [constructor | apply andb_true_iff in F as [F1 F2]; constructor; auto]
        | intros l F; destruct l; simpl in F |- *;
          [constructor | apply andb_true_iff in F as [F1 F3]; apply andb_true_iff in F1 as [F1 F2];
                         constructor; auto using tr_e_rel] ];
        [ apply andb_true_iff in F as [F1 F2]; constructor; apply tr_e_rel; auto
        | destruct target; try discriminate; apply andb_true_iff in F as [F1 F2]; constructor; apply tr_e_rel; auto
        | apply andb_true_iff in F as [F F4]; apply andb_true_iff in F as [F F3]; apply andb_true_iff in F as [F1 F2];
          constructor; auto using tr_e_rel; destruct els; constructor; auto
        | apply andb_true_iff in F as [F1 F2]; constructor; auto using tr_e_rel
        | constructor | constructor ]).
  split; [exact HS|]. split.
  - fix IHl 1. intros l F. destruct l; simpl in F |- *; [constructor|].
    apply andb_true_iff in F as [F1 F2]. constructor; auto.
  - assert (HL : forall l, tfrag_l l = true -> lrel l (tr_l l)).
    { fix IHl 1. intros l F. destruct l; simpl in F |- *; [constructor|].
      apply andb_true_iff in F as [F1 F2]. constructor; auto. }
    fix IHc 1. intros l F. destruct l; simpl in F |- *; [constructor|].
    apply andb_true_iff in F as [F1 F3]. apply andb_true_iff in F1 as [F1 F2]. constructor; auto using tr_e_rel.
Qed.

(* ====================================================================== *)
(* What is missing, and what stands in the way                              *)
(* ======================================================================
   - for loops.  lx_r / lx_i declare the loop variable in the ENCLOSING frame (lv_decl) and
     leave it there when the loop ends; Sem.v (as evalFor) gives the loop its own scope and
     pops it.  With the frame-by-frame relation used here (same names in corresponding frames)
     the two environments stop corresponding after the first loop.  A tie needs a static
     side condition that lx_l cannot see: the loop variable is not declared or used outside
     its loop (the parser's scoping).  Example where lx_l and Sem.v differ without it:
         x := 1
         if true
             for x := range 2
             end
             x = 5          // lx_l: assigns the stale loop variable; Sem.v: the global x
         end
   - == on two composites, array repetition, maps, slices.  Sem.equals and Sem.deep_copy walk at
     most value_depth = 4000 levels and then crash (Go: stack overflow); lx_l's val_equals and
     arr_repeat have no bound, and `a = [a]` in a loop builds values of any depth — so == is in the
     fragment only when one operand is manifestly scalar, and * on arrays is out.  Maps and slices
     are not done (the relation would extend as for arrays; Vm.normalize_index and
     Sem.normalize_index agree: norm_idx_eq).
   - strings beyond ASCII.  Vm.value strings are UTF-8 bytes, Sem.v strings are code points:
     the tie needs utf8_decode (utf8_encode s) = s and that byte-wise comparison of encodings
     is code-point comparison, for valid code points; no such lemma exists yet.  (ASCII:
     utf8_ascii above.)
   - the converse (lx_l undefined => Sem.v panics) is not an equivalence: x / 0 is undefined in
     lx_l (the VM raises "division by zero") and +Inf in Sem.v (the evaluator divides). *)
