(* CompileWfProofs.v — compile_wf_partial: the compiler's output is well formed
   (judgment WF of Bytecode.v) for the straight-line fragment: top-level
   declarations and assignments of fragment expressions.  Jumps (if / while /
   for, back-patching) are NOT covered by this theorem; for them the tie is
   the verified validator wf_check run on every emitted program (C17). *)
From Coq Require Import ZArith NArith List Bool Lia ZifyBool ZifyNat ZifyN Floats.
From EvyV Require Import Base Bytecode BytecodeProofs SymTab SymTabProofs Vm VmProofs Compile CompileSem CompileProofs.
Require Import EvyV.Gen.Opcodes.
Import ListNotations.
Open Scope N_scope.

(* ---------- straight-line code as a list of (opcode, operand) ---------- *)
Definition sop := (opc * N)%type.

Definition enc1 (x : sop) : list N :=
  match make (N_of_opc (fst x)) (if has_operand (fst x) then [Z.of_N (snd x)] else []) with
  | Some bs => bs
  | None => []
  end.
Definition encode (ops : list sop) : list N := flat_map enc1 ops.

Definition ilen_of (x : sop) : N := if has_operand (fst x) then 3 else 1.
Definition instr_of (x : sop) : instr :=
  {| iop := N_of_opc (fst x); iargs := if has_operand (fst x) then [snd x] else []; ilen := ilen_of x |}.

Definition is_sl (o : opc) : bool :=
  match o with
  | Jump | JumpOnFalse | StepRange | IterRange => false
  | _ => true
  end.

(* the operand of a local access is below lc (checked apart from the heights:
   the heights of this file are counted from LocalCount, see WFg_shift) *)
Definition is_local (o : opc) : bool := match o with GetLocal | SetLocal => true | _ => false end.
Definition lopk (lc : N) (x : sop) : Prop := is_local (fst x) = true -> snd x < lc.

(* one instruction is fine at height k above the locals; the operand of
   OpGetLocal / OpSetLocal is not checked here (lopk) *)
Definition sop_ok (nc gc : N) (x : sop) (k : N) : option N :=
  let (o, arg) := x in
  if negb (is_sl o) then None
  else if negb (arg <? 65536) then None
  else if negb (has_operand o) && negb (arg =? 0) then None
  else match simple_effect o arg with
       | None => None
       | Some (pn, q) =>
           if k <? pn then None
           else if match o with
                   | Constant => arg <? nc
                   | GetGlobal | SetGlobal => arg <? gc
                   | _ => true
                   end then Some (k - pn + q) else None
       end.

Fixpoint runs (nc gc : N) (ops : list sop) (k : N) : option N :=
  match ops with
  | [] => Some k
  | x :: t => match sop_ok nc gc x k with Some k' => runs nc gc t k' | None => None end
  end.

Lemma runs_app nc gc a : forall b k k1 k2,
  runs nc gc a k = Some k1 -> runs nc gc b k1 = Some k2 -> runs nc gc (a ++ b) k = Some k2.
Proof.
  induction a as [|x t IH]; simpl; intros b k k1 k2 H1 H2.
  - inversion H1; subst; exact H2.
  - destruct (sop_ok nc gc x k); [|discriminate]. eauto.
Qed.

Lemma sop_ok_mono nc gc nc' gc' x k k' : nc <= nc' -> gc <= gc' ->
  sop_ok nc gc x k = Some k' -> sop_ok nc' gc' x k = Some k'.
Proof.
  intros Hn Hg. unfold sop_ok. destruct x as [o arg].
  destruct (negb (is_sl o)); [discriminate|]. destruct (negb (arg <? 65536)); [discriminate|].
  destruct (negb (has_operand o) && negb (arg =? 0)); [discriminate|].
  destruct (simple_effect o arg) as [[pn q]|]; [|discriminate].
  destruct (k <? pn); [discriminate|].
  destruct o; auto;
    match goal with |- (if ?a <? ?b then _ else _) = _ -> (if ?a <? ?c then _ else _) = _ =>
      destruct (a <? b) eqn:E1; [|discriminate]; destruct (a <? c) eqn:E2; [auto|]; lia end.
Qed.

Lemma runs_mono nc gc nc' gc' ops : forall k k', nc <= nc' -> gc <= gc' ->
  runs nc gc ops k = Some k' -> runs nc' gc' ops k = Some k'.
Proof.
  induction ops as [|x t IH]; simpl; intros k k' Hn Hg H; [exact H|].
  destruct (sop_ok nc gc x k) as [k1|] eqn:E; [|discriminate].
  rewrite (sop_ok_mono _ _ _ _ _ _ _ Hn Hg E). eauto.
Qed.

(* ---------- decoding what was encoded ---------- *)
Lemma decode1_enc1 x rest nc gc k k' : sop_ok nc gc x k = Some k' ->
  decode1 (enc1 x ++ rest) = Some (instr_of x, rest) /\ N.of_nat (List.length (enc1 x)) = ilen_of x.
Proof.
  unfold sop_ok. destruct x as [o arg]. intro H.
  destruct (negb (is_sl o)); [discriminate|]. destruct (arg <? 65536) eqn:EA; [|discriminate]. simpl in H.
  unfold enc1, instr_of, ilen_of. cbn [fst snd].
  destruct (has_operand o) eqn:HO.
  - destruct (make_decode o (Z.of_N arg) rest HO) as (bs & HM & HD); [lia|]. rewrite HM.
    rewrite N2Z.id in HD. split; [exact HD|].
    destruct (make_arg_bytes o (Z.of_N arg) HO) as (hi & lo & HM' & _); [lia|]. rewrite HM in HM'.
    inversion HM'; subst. reflexivity.
  - destruct (make_decode_noarg o rest HO) as [HM HD]. rewrite HM. split; [exact HD|reflexivity].
Qed.

Fixpoint instrs_of (ops : list sop) (pc : N) : list (N * instr) :=
  match ops with
  | [] => []
  | x :: t => (pc, instr_of x) :: instrs_of t (pc + ilen_of x)
  end.

Fixpoint annot (nc gc : N) (ops : list sop) (pc k : N) : list (N * N) :=
  match ops with
  | [] => []
  | x :: t => (pc, k) :: match sop_ok nc gc x k with
                         | Some k' => annot nc gc t (pc + ilen_of x) k'
                         | None => []
                         end
  end.

Lemma encode_len nc gc ops : forall k k', runs nc gc ops k = Some k' ->
  N.of_nat (List.length (encode ops)) = fold_right (fun x a => ilen_of x + a) 0 ops.
Proof.
  induction ops as [|x t IH]; simpl; intros k k' H; [reflexivity|].
  destruct (sop_ok nc gc x k) as [k1|] eqn:E; [|discriminate].
  destruct (decode1_enc1 x [] _ _ _ _ E) as [_ HL]. rewrite app_length, Nat2N.inj_add, HL, (IH _ _ H). reflexivity.
Qed.

Lemma decode_from_encode nc gc ops : forall pc k k' fuel,
  runs nc gc ops k = Some k' -> (List.length (encode ops) <= fuel)%nat ->
  decode_from fuel pc (encode ops) = Some (instrs_of ops pc).
Proof.
  induction ops as [|x t IH]; intros pc k k' fuel H HF; simpl.
  - destruct fuel; reflexivity.
  - simpl in H. destruct (sop_ok nc gc x k) as [k1|] eqn:E; [|discriminate].
    destruct (decode1_enc1 x (encode t) _ _ _ _ E) as [HD HL].
    assert (HP : (1 <= List.length (enc1 x))%nat) by (unfold ilen_of in HL; destruct (has_operand (fst x)); lia).
    simpl in HF. rewrite app_length in HF.
    destruct (enc1 x ++ encode t) as [|b r] eqn:EL; [apply (f_equal (@List.length N)) in EL; rewrite app_length in EL; simpl in EL; lia|].
    destruct fuel as [|f]; [lia|]. cbn [decode_from]. rewrite <- EL in *. rewrite HD.
    cbn [ilen instr_of]. rewrite (IH (pc + ilen_of x) k1 k' f H) by lia. reflexivity.
Qed.

(* ---------- the height assignment ---------- *)
Fixpoint alookup (pc : N) (l : list (N * N)) : option N :=
  match l with
  | [] => None
  | (p, k) :: t => if p =? pc then Some k else alookup pc t
  end.

Lemma ilen_pos x : 1 <= ilen_of x.
Proof. unfold ilen_of. destruct (has_operand (fst x)); lia. Qed.

Lemma annot_ge nc gc ops : forall pc0 k0 pc k, In (pc, k) (annot nc gc ops pc0 k0) -> pc0 <= pc.
Proof.
  induction ops as [|x t IH]; simpl; intros pc0 k0 pc k H; [destruct H|].
  destruct H as [E|H]; [inversion E; lia|].
  destruct (sop_ok nc gc x k0); [|destruct H]. apply IH in H. pose proof (ilen_pos x). lia.
Qed.

Lemma alookup_in nc gc ops : forall pc0 k0 pc k,
  In (pc, k) (annot nc gc ops pc0 k0) -> alookup pc (annot nc gc ops pc0 k0) = Some k.
Proof.
  induction ops as [|x t IH]; simpl; intros pc0 k0 pc k H; [destruct H|].
  destruct H as [E|H].
  - inversion E; subst. rewrite N.eqb_refl. reflexivity.
  - destruct (sop_ok nc gc x k0) eqn:ES; [|destruct H].
    pose proof (annot_ge _ _ _ _ _ _ _ H). pose proof (ilen_pos x).
    destruct (pc0 =? pc) eqn:EQ; [apply N.eqb_eq in EQ; lia|]. apply IH; exact H.
Qed.

Lemma alookup_some pc l k : alookup pc l = Some k -> In (pc, k) l.
Proof.
  induction l as [|[p k0] t IH]; simpl; [discriminate|].
  destruct (p =? pc) eqn:E; intro H.
  - apply N.eqb_eq in E. inversion H; subst. left; reflexivity.
  - right; auto.
Qed.

Definition total_len (ops : list sop) : N := fold_right (fun x a => ilen_of x + a) 0 ops.

(* every annotated point is an instruction of the decode, its transfer is
   defined, and its successor is the next annotated point or the end *)
Lemma flow_ok nc gc ops : forall pc0 k0 kend,
  runs nc gc ops k0 = Some kend ->
  forall pc k, In (pc, k) (annot nc gc ops pc0 k0) ->
    pc < pc0 + total_len ops /\
    exists x k', In (pc, instr_of x) (instrs_of ops pc0) /\ sop_ok nc gc x k = Some k' /\
      ((pc + ilen_of x = pc0 + total_len ops /\ k' = kend) \/
       In (pc + ilen_of x, k') (annot nc gc ops pc0 k0)).
Proof.
  induction ops as [|x t IH]; simpl; intros pc0 k0 kend HR pc k H; [destruct H|].
  destruct (sop_ok nc gc x k0) as [k1|] eqn:ES; [|discriminate].
  pose proof (ilen_pos x) as HP.
  destruct H as [E|H].
  - inversion E; subst pc k. split; [unfold total_len; simpl; lia|].
    exists x, k1. split; [left; reflexivity|]. split; [exact ES|].
    destruct t as [|y t'].
    + left. simpl in HR. inversion HR; subst. unfold total_len; simpl. split; [lia|reflexivity].
    + right. right. simpl. left. reflexivity.
  - destruct (IH (pc0 + ilen_of x) k1 kend HR pc k H) as (HB & y & k' & HI & HS & HN).
    split; [unfold total_len in *; simpl; lia|].
    exists y, k'. split; [right; exact HI|]. split; [exact HS|].
    destruct HN as [[HE HK]|HN].
    + left. unfold total_len in *. simpl. split; [lia|exact HK].
    + right. right. exact HN.
Qed.

(* ---------- WF with the two roles of LocalCount apart ---------- *)
(* WFg chk lb code: the judgment WF of Bytecode.v with the operand check chk
   and the heights counted from lb.  WF bc is WFg (operand_ok bc) (lcount bc). *)
Definition WFg (chk : instr -> bool) (lb : N) (code : list N) : Prop :=
  exists (instrs : list (N * instr)) (h : N -> option ast),
    decode_all code = Some instrs /\
    (forall pc i, In (pc, i) instrs ->
       chk i = true /\
       forall t, jump_target i = Some t -> t = N.of_nat (List.length code) \/ In t (map fst instrs)) /\
    (instrs <> [] -> h 0 = Some (AH lb)) /\
    (forall pc a, h pc = Some a ->
       exists i succs, In (pc, i) instrs /\ xfer lb pc i a = Some succs /\
         forall t a', In (t, a') succs ->
           (t = N.of_nat (List.length code) /\ a' = AH lb) \/ (t < N.of_nat (List.length code) /\ h t = Some a')).

Lemma WF_WFg bc : WF bc <-> WFg (operand_ok bc) (lcount bc) (bcode bc).
Proof. unfold WF, WFg, codelen. tauto. Qed.

(* the transfer function does not depend on where the heights are counted from *)
Definition ashift (lb : N) (a : ast) : ast := match a with AH k => AH (lb + k) | ACond k => ACond (lb + k) end.

Lemma xfer_shift lb pc i a succs : xfer 0 pc i a = Some succs ->
  xfer lb pc i (ashift lb a) = Some (map (fun ta => (fst ta, ashift lb (snd ta))) succs).
Proof.
  unfold xfer. destruct (opc_of_N (iop i)) as [o|]; [|discriminate].
  destruct o; destruct a as [k|k]; cbn [ashift]; try discriminate;
    try (destruct (simple_effect _ (arg0 i)) as [[p q]|]; [|discriminate]);
    repeat match goal with
    | |- (if ?c then _ else _) = _ -> _ => let E := fresh "E" in destruct c eqn:E; [|discriminate]
    end;
    intro H; inversion H; subst succs; clear H;
    repeat match goal with
    | |- context [?x <=? ?y] => let E2 := fresh "E2" in destruct (x <=? y) eqn:E2; [|lia]
    end; cbn [map fst snd ashift];
    try (destruct (arg0 i =? 0); cbn [ashift]);
    repeat first [reflexivity | lia | progress f_equal].
Qed.

Lemma WFg_shift chk lb code : WFg chk 0 code -> WFg chk lb code.
Proof.
  intros (instrs & h & D & O & E & F).
  exists instrs, (fun pc => option_map (ashift lb) (h pc)). split; [exact D|]. split; [exact O|]. split.
  - intro NE. rewrite (E NE). cbn [option_map ashift]. rewrite N.add_0_r. reflexivity.
  - intros pc a Ha. destruct (h pc) as [a0|] eqn:EH; [|discriminate]. cbn [option_map] in Ha. inversion Ha; subst a.
    destruct (F pc a0 EH) as (i & succs & HI & HX & HS).
    exists i, (map (fun ta => (fst ta, ashift lb (snd ta))) succs). split; [exact HI|]. split; [apply xfer_shift; exact HX|].
    intros t a' Hin. apply in_map_iff in Hin. destruct Hin as ([t0 a0'] & Eq & Hin). cbn [fst snd] in Eq. inversion Eq; subst t a'.
    destruct (HS _ _ Hin) as [[E1 E2]|[E1 E2]].
    + left. split; [exact E1|]. subst a0'. cbn [ashift]. rewrite N.add_0_r. reflexivity.
    + right. split; [exact E1|]. rewrite E2. reflexivity.
Qed.

(* the operand check without the locals *)
Definition chk_nl (nc gc : N) (i : instr) : bool :=
  match opc_of_N (iop i) with
  | Some Constant => arg0 i <? nc
  | Some GetGlobal | Some SetGlobal => arg0 i <? gc
  | Some _ => true
  | None => false
  end.

Lemma WFg_WF nc gc lc code : WFg (chk_nl nc gc) 0 code ->
  (forall instrs pc i, decode_all code = Some instrs -> In (pc, i) instrs ->
     match opc_of_N (iop i) with Some GetLocal | Some SetLocal => arg0 i < lc | _ => True end) ->
  WF {| bcode := code; nconsts := nc; gcount := gc; lcount := lc |}.
Proof.
  intros HW HL. apply (WFg_shift _ lc) in HW. apply WF_WFg. cbn [bcode lcount].
  destruct HW as (instrs & h & D & O & E & F). exists instrs, h. split; [exact D|]. split; [|split; assumption].
  intros pc i HI. destruct (O pc i HI) as [C J]. split; [|exact J].
  specialize (HL instrs pc i D HI). unfold chk_nl in C. unfold operand_ok. cbn [nconsts gcount lcount].
  destruct (opc_of_N (iop i)) as [o|]; [|discriminate]. destruct o; try exact C; apply N.ltb_lt; exact HL.
Qed.

Lemma instrs_of_in ops : forall pc0 pc i, In (pc, i) (instrs_of ops pc0) -> exists x, In x ops /\ i = instr_of x.
Proof.
  induction ops as [|x t IH]; simpl; intros pc0 pc i H; [destruct H|].
  destruct H as [E|H]; [inversion E; subst; eauto|]. destruct (IH _ _ _ H) as (y & Hy & ->). eauto.
Qed.

Lemma lopk_instr lc x : lopk lc x ->
  match opc_of_N (iop (instr_of x)) with Some GetLocal | Some SetLocal => arg0 (instr_of x) < lc | _ => True end.
Proof.
  unfold lopk, instr_of, arg0. destruct x as [o arg]. cbn [fst snd iop iargs]. rewrite opc_of_N_of_opc.
  intro H. destruct o; try exact I; cbn [has_operand nth]; apply H; reflexivity.
Qed.

Lemma instrs_ok nc gc ops : forall pc0 k0 kend, runs nc gc ops k0 = Some kend ->
  forall pc i, In (pc, i) (instrs_of ops pc0) ->
    chk_nl nc gc i = true /\ jump_target i = None.
Proof.
  induction ops as [|x t IH]; simpl; intros pc0 k0 kend HR pc i H; [destruct H|].
  destruct (sop_ok nc gc x k0) as [k1|] eqn:ES; [|discriminate].
  destruct H as [E|H].
  - inversion E; subst pc i. clear IH. unfold sop_ok in ES. destruct x as [o arg].
    destruct (is_sl o) eqn:SL; [|discriminate]. destruct (arg <? 65536); [|discriminate]. simpl in ES.
    destruct (negb (has_operand o) && negb (arg =? 0)); [discriminate|].
    destruct (simple_effect o arg) as [[pn q]|]; [|discriminate]. destruct (k0 <? pn); [discriminate|].
    unfold chk_nl, jump_target, instr_of, arg0. cbn [iop iargs fst snd].
    rewrite opc_of_N_of_opc.
    destruct o; try discriminate SL; cbn [has_operand nth] in *; split; auto;
      match type of ES with (if ?c then _ else _) = _ => destruct c; [reflexivity|discriminate] end.
  - apply (IH _ _ _ HR _ _ H).
Qed.

Lemma sop_ok_xfer nc gc x k k' pc : sop_ok nc gc x k = Some k' ->
  xfer 0 pc (instr_of x) (AH k) = Some [(pc + ilen_of x, AH k')].
Proof.
  unfold sop_ok. destruct x as [o arg]. intro H.
  destruct (is_sl o) eqn:SL; [|discriminate]. destruct (arg <? 65536); [|discriminate]. simpl in H.
  destruct (negb (has_operand o) && negb (arg =? 0)) eqn:EZ; [discriminate|].
  unfold xfer, instr_of, arg0. cbn [iop iargs ilen fst snd]. rewrite opc_of_N_of_opc.
  assert (HA : nth 0 (if has_operand o then [arg] else []) 0 = arg).
  { destruct (has_operand o); simpl in *; [reflexivity|]. destruct (arg =? 0) eqn:E0; [apply N.eqb_eq in E0; congruence|discriminate]. }
  rewrite HA.
  destruct (simple_effect o arg) as [[pn q]|] eqn:SE; [|discriminate].
  destruct (k <? pn) eqn:EK; [discriminate|]. apply N.ltb_ge in EK.
  assert (HK : k' = k - pn + q).
  { destruct o; try discriminate SL;
      try (inversion H; reflexivity);
      match type of H with (if ?c then _ else _) = _ => destruct c; [inversion H; reflexivity|discriminate] end. }
  subst k'.
  destruct o; try discriminate SL; rewrite ?SE;
    (destruct (0 + pn <=? k) eqn:E2; [reflexivity|apply N.leb_gt in E2; lia]).
Qed.

Theorem runs_WFg : forall nc gc ops,
  runs nc gc ops 0 = Some 0 ->
  WFg (chk_nl nc gc) 0 (encode ops).
Proof.
  intros nc gc ops HR.
  assert (HLEN : N.of_nat (List.length (encode ops)) = total_len ops).
  { apply (encode_len nc gc ops 0 0 HR). }
  exists (instrs_of ops 0), (fun pc => option_map AH (alookup pc (annot nc gc ops 0 0))).
  split; [|split; [|split]].
  - unfold decode_all. simpl. eapply decode_from_encode; eauto.
  - intros pc i HI. destruct (instrs_ok nc gc ops 0 0 0 HR pc i HI) as [A B].
    split; [exact A|]. intros t Ht. rewrite B in Ht. discriminate.
  - intro NE. destruct ops as [|x t]; [simpl in NE; congruence|]. simpl. reflexivity.
  - intros pc a Ha.
    destruct (alookup pc (annot nc gc ops 0 0)) as [k|] eqn:EL; [|discriminate]. simpl in Ha. inversion Ha; subst a.
    apply alookup_some in EL.
    destruct (flow_ok nc gc ops 0 0 0 HR pc k EL) as (HB & x & k' & HI & HS & HN).
    exists (instr_of x), [(pc + ilen_of x, AH k')]. split; [exact HI|]. split; [apply (sop_ok_xfer _ _ _ _ _ _ HS)|].
    intros t a' [E|[]]. inversion E; subst t a'. rewrite HLEN.
    destruct HN as [[HE HK]|HN].
    + left. split; [lia|subst; reflexivity].
    + right. destruct (flow_ok nc gc ops 0 0 0 HR _ _ HN) as (HB' & _).
      split; [lia|]. rewrite (alookup_in _ _ _ _ _ _ _ HN). reflexivity.
Qed.

(* straight-line code whose local operands are below lc *)
Theorem runs_WF : forall nc gc lc ops,
  runs nc gc ops 0 = Some 0 -> Forall (lopk lc) ops ->
  WF {| bcode := encode ops; nconsts := nc; gcount := gc; lcount := lc |}.
Proof.
  intros nc gc lc ops HR HL. apply WFg_WF; [apply runs_WFg; exact HR|].
  intros instrs pc i HD HI.
  assert (instrs = instrs_of ops 0).
  { unfold decode_all in HD. rewrite (decode_from_encode nc gc ops 0 0 0 _ HR (le_n _)) in HD. congruence. }
  subst instrs. destruct (instrs_of_in _ _ _ _ HI) as (x & Hx & ->). apply lopk_instr.
  rewrite Forall_forall in HL. apply HL. exact Hx.
Qed.

(* ====================================================================== *)
(* the compiler emits straight-line code for the straight-line fragment    *)
(* ====================================================================== *)
Lemma emit_enc0 o st st' : has_operand o = false -> emit true o [] st = COk st' ->
  st' = {| ccode := ccode st ++ enc1 (o, 0); cconsts := cconsts st; csym := csym st; cbreaks := cbreaks st |}.
Proof.
  intros HO H. apply emit_ok in H. destruct H as (ins & HM & ->).
  unfold enc1. cbn [fst snd]. rewrite HO, HM. reflexivity.
Qed.

Lemma emit_enc1 o z st st' : has_operand o = true -> emit true o [z] st = COk st' ->
  (0 <= z < 65536)%Z /\
  st' = {| ccode := ccode st ++ enc1 (o, Z.to_N z); cconsts := cconsts st; csym := csym st; cbreaks := cbreaks st |}.
Proof.
  intros HO H. apply emit_ok in H. destruct H as (ins & HM & ->).
  pose proof (make_some_range o z ins HO HM) as HR. split; [exact HR|].
  unfold enc1. cbn [fst snd]. rewrite HO, Z2N.id, HM by lia. reflexivity.
Qed.

Lemma sop_ok_const nc gc idx k : idx < nc -> idx < 65536 -> sop_ok nc gc (Constant, idx) k = Some (k + 1).
Proof.
  intros H1 H2. unfold sop_ok. cbn [is_sl negb has_operand andb simple_effect].
  destruct (idx <? 65536) eqn:E; [|apply N.ltb_ge in E; lia]. cbn [negb].
  destruct (k <? 0) eqn:E0; [apply N.ltb_lt in E0; lia|].
  destruct (idx <? nc) eqn:E1; [|apply N.ltb_ge in E1; lia]. f_equal. lia.
Qed.

Lemma sop_ok_getglobal nc gc idx k : idx < gc -> idx < 65536 -> sop_ok nc gc (GetGlobal, idx) k = Some (k + 1).
Proof.
  intros H1 H2. unfold sop_ok. cbn [is_sl negb has_operand andb simple_effect].
  destruct (idx <? 65536) eqn:E; [|apply N.ltb_ge in E; lia]. cbn [negb].
  destruct (k <? 0) eqn:E0; [apply N.ltb_lt in E0; lia|].
  destruct (idx <? gc) eqn:E1; [|apply N.ltb_ge in E1; lia]. f_equal. lia.
Qed.

Lemma sop_ok_setglobal nc gc idx k : idx < gc -> idx < 65536 -> sop_ok nc gc (SetGlobal, idx) (k + 1) = Some k.
Proof.
  intros H1 H2. unfold sop_ok. cbn [is_sl negb has_operand andb simple_effect].
  destruct (idx <? 65536) eqn:E; [|apply N.ltb_ge in E; lia]. cbn [negb].
  destruct (k + 1 <? 1) eqn:E0; [apply N.ltb_lt in E0; lia|].
  destruct (idx <? gc) eqn:E1; [|apply N.ltb_ge in E1; lia]. f_equal. lia.
Qed.

(* the operand-less instructions used by the fragment *)
Lemma sop_ok_noarg nc gc o pn k :
  has_operand o = false -> is_sl o = true -> simple_effect o 0 = Some (pn, 1) -> pn <= k ->
  sop_ok nc gc (o, 0) k = Some (k - pn + 1).
Proof.
  intros HO HS HE HK. unfold sop_ok. rewrite HS, HO, HE. cbn [negb andb].
  change (0 <? 65536) with true. change (0 =? 0) with true. cbn [negb andb].
  destruct (k <? pn) eqn:E0; [apply N.ltb_lt in E0; lia|].
  destruct o; try discriminate HO; reflexivity.
Qed.

Definition globals_below (sym : symtab) (gc : N) : Prop :=
  forall n y, st_resolve n sym = Some y -> sscp y = GlobalScope /\ sidx y < gc.

Definition expr_sl (e : expr) : Prop :=
  forall st st', compile_expr true e st = COk st' ->
    csym st' = csym st /\
    exists ops newc,
      ccode st' = ccode st ++ encode ops /\ cconsts st' = cconsts st ++ newc /\
      forall nc gc k,
        N.of_nat (List.length (cconsts st')) <= nc ->
        globals_below (csym st) gc ->
        runs nc gc ops k = Some (k + 1).

Lemma encode_one x : encode [x] = enc1 x.
Proof. unfold encode. cbn [flat_map]. apply app_nil_r. Qed.

Lemma const_sl k0 st st' : emit_const true k0 st = COk st' ->
  N.of_nat (List.length (cconsts st)) < 65536 /\
  csym st' = csym st /\
  ccode st' = ccode st ++ encode [(Constant, N.of_nat (List.length (cconsts st)))] /\
  cconsts st' = cconsts st ++ [k0].
Proof.
  unfold emit_const. intro H. apply emit_enc1 in H; [|reflexivity]. destruct H as [HR ->]. cbn [csym ccode cconsts].
  split; [lia|]. split; [reflexivity|]. split; [|reflexivity]. rewrite encode_one.
  replace (Z.to_N (Z.of_nat (List.length (cconsts st)))) with (N.of_nat (List.length (cconsts st))) by lia. reflexivity.
Qed.

Lemma encode_app a b : encode (a ++ b) = encode a ++ encode b.
Proof. unfold encode. apply flat_map_app. Qed.

Lemma binop_opc op lt rt st2 st' : compile_binop true op lt rt st2 = COk st' ->
  exists o, emit true o [] st2 = COk st' /\ has_operand o = false /\ is_sl o = true /\ simple_effect o 0 = Some (2, 1).
Proof.
  unfold compile_binop. intro H.
  destruct op; try (eexists; split; [exact H|]; repeat split);
    destruct lt, rt; try discriminate; cbn [num_binop str_binop] in H; try discriminate;
    (eexists; split; [exact H|]; repeat split).
Qed.

(* the weak forms: locals may be visible *)
Definition gbw (sym : symtab) (gc : N) : Prop :=
  forall n y, st_resolve n sym = Some y -> sscp y = GlobalScope -> sidx y < gc.
Definition lbw (sym : symtab) (lc : N) : Prop :=
  forall n y, st_resolve n sym = Some y -> sscp y = LocalScope -> sidx y < lc.

Lemma globals_below_gbw sym gc : globals_below sym gc -> gbw sym gc.
Proof. intros H n y HR _. apply (H n y HR). Qed.

Definition expr_sl2 (e : expr) : Prop :=
  forall st st', compile_expr true e st = COk st' ->
    csym st' = csym st /\
    exists ops newc,
      ccode st' = ccode st ++ encode ops /\ cconsts st' = cconsts st ++ newc /\
      (forall nc gc k,
        N.of_nat (List.length (cconsts st')) <= nc ->
        gbw (csym st) gc ->
        runs nc gc ops k = Some (k + 1)) /\
      (forall lc, lbw (csym st) lc -> Forall (lopk lc) ops).

Lemma sop_ok_getlocal nc gc idx k : idx < 65536 -> sop_ok nc gc (GetLocal, idx) k = Some (k + 1).
Proof.
  intros H2. unfold sop_ok. cbn [is_sl negb has_operand andb simple_effect].
  destruct (idx <? 65536) eqn:E; [|apply N.ltb_ge in E; lia]. cbn [negb].
  destruct (k <? 0) eqn:E0; [apply N.ltb_lt in E0; lia|]. f_equal. lia.
Qed.

Lemma lopk_nonlocal lc o a : is_local o = false -> lopk lc (o, a).
Proof. intros H X. cbn [fst] in X. congruence. Qed.
Lemma noarg_nonlocal o : has_operand o = false -> is_local o = false.
Proof. destruct o; try reflexivity; discriminate. Qed.

Fixpoint elen (l : elist) : N := match l with ENil => 0 | ECons _ t => 1 + elen t end.
Lemma elen_len l : elist_len l = Z.of_N (elen l).
Proof. induction l as [|e t IH]; cbn [elist_len elen]; lia. Qed.

Definition elist_sl2 (l : elist) : Prop :=
  forall st st', compile_elist true l st = COk st' ->
    csym st' = csym st /\
    exists ops newc,
      ccode st' = ccode st ++ encode ops /\ cconsts st' = cconsts st ++ newc /\
      (forall nc gc k,
        N.of_nat (List.length (cconsts st')) <= nc ->
        gbw (csym st) gc ->
        runs nc gc ops k = Some (k + elen l)) /\
      (forall lc, lbw (csym st) lc -> Forall (lopk lc) ops).

Lemma sop_ok_array nc gc n k : n < 65536 -> sop_ok nc gc (Array, n) (k + n) = Some (k + 1).
Proof.
  intro H. unfold sop_ok. cbn [is_sl negb has_operand andb simple_effect].
  destruct (n <? 65536) eqn:E; [|apply N.ltb_ge in E; lia]. cbn [negb].
  destruct (k + n <? n) eqn:E0; [apply N.ltb_lt in E0; lia|]. f_equal. lia.
Qed.

Fixpoint plen (l : eplist) : N := match l with PNil => 0 | PCons _ _ t => 1 + plen t end.
Lemma plen_len l : pairs_len l = Z.of_N (plen l).
Proof. induction l as [|k e t IH]; cbn [pairs_len plen]; lia. Qed.

Definition pairs_sl2 (l : eplist) : Prop :=
  forall st st', compile_pairs true l st = COk st' ->
    csym st' = csym st /\
    exists ops newc,
      ccode st' = ccode st ++ encode ops /\ cconsts st' = cconsts st ++ newc /\
      (forall nc gc k,
        N.of_nat (List.length (cconsts st')) <= nc ->
        gbw (csym st) gc ->
        runs nc gc ops k = Some (k + 2 * plen l)) /\
      (forall lc, lbw (csym st) lc -> Forall (lopk lc) ops).

Lemma sop_ok_map nc gc n k : n < 65536 -> sop_ok nc gc (Map, n) (k + 2 * n) = Some (k + 1).
Proof.
  intro H. unfold sop_ok. cbn [is_sl negb has_operand andb simple_effect].
  destruct (n <? 65536) eqn:E; [|apply N.ltb_ge in E; lia]. cbn [negb].
  destruct (k + 2 * n <? 2 * n) eqn:E0; [apply N.ltb_lt in E0; lia|]. f_equal. lia.
Qed.

Definition oexpr_sl2 (o : oexpr) : Prop :=
  forall st st', compile_oexpr true o st = COk st' ->
    csym st' = csym st /\
    exists ops newc,
      ccode st' = ccode st ++ encode ops /\ cconsts st' = cconsts st ++ newc /\
      (forall nc gc k,
        N.of_nat (List.length (cconsts st')) <= nc ->
        gbw (csym st) gc ->
        runs nc gc ops k = Some (k + 1)) /\
      (forall lc, lbw (csym st) lc -> Forall (lopk lc) ops).

Theorem efrag_sl2_all :
  (forall e, efrag e = true -> expr_sl2 e) /\
  (forall l, efrag_list l = true -> elist_sl2 l) /\
  (forall l, efrag_pairs l = true -> pairs_sl2 l) /\
  (forall o, efrag_o o = true -> oexpr_sl2 o).
Proof.
  apply expr_mutind; try (intros; exact I).
  - (* ENum *) intros f HF; unfold expr_sl2; intros st st' HC.
    simpl in HC. destruct (const_sl _ _ _ HC) as (R0 & A & B & C).
    split; [exact A|]. eexists _, _. split; [exact B|]. split; [exact C|]. split.
    + intros nc gc k H1 _. rewrite C, app_length in H1. simpl in H1. cbn [runs].
      rewrite sop_ok_const by lia. reflexivity.
    + intros lc _. constructor; [apply lopk_nonlocal; reflexivity|constructor].
  - (* EBool *) intros b HF; unfold expr_sl2; intros st st' HC.
    simpl in HC.
    assert (HO : has_operand (if b then OTrue else OFalse) = false) by (destruct b; reflexivity).
    pose proof (emit_enc0 _ _ _ HO HC) as ->. cbn [csym ccode cconsts].
    split; [reflexivity|]. exists [(if b then OTrue else OFalse, 0)], []. split; [rewrite encode_one; reflexivity|].
    split; [rewrite app_nil_r; reflexivity|]. split.
    + intros nc gc k _ _. cbn [runs].
      rewrite (sop_ok_noarg nc gc _ 0 k HO) by (destruct b; try reflexivity; lia). f_equal. lia.
    + intros lc _. constructor; [apply lopk_nonlocal, noarg_nonlocal; exact HO|constructor].
  - (* EStr *) intros s HF; unfold expr_sl2; intros st st' HC.
    simpl in HC. destruct (const_sl _ _ _ HC) as (R0 & A & B & C).
    split; [exact A|]. eexists _, _. split; [exact B|]. split; [exact C|]. split.
    + intros nc gc k H1 _. rewrite C, app_length in H1. simpl in H1. cbn [runs].
      rewrite sop_ok_const by lia. reflexivity.
    + intros lc _. constructor; [apply lopk_nonlocal; reflexivity|constructor].
  - (* EVar *) intros n HF; unfold expr_sl2; intros st st' HC.
    simpl in HC. unfold compile_var in HC.
    destruct (st_resolve n (csym st)) as [y|] eqn:ER; [|discriminate].
    destruct (sscp y) eqn:ES.
    + apply emit_enc1 in HC; [|reflexivity]. destruct HC as [HRng ->]. cbn [csym ccode cconsts].
      split; [reflexivity|]. exists [(GetGlobal, sidx y)], []. rewrite N2Z.id.
      split; [rewrite encode_one; reflexivity|]. split; [rewrite app_nil_r; reflexivity|]. split.
      * intros nc gc k _ HG. pose proof (HG _ _ ER ES) as HI. cbn [runs].
        rewrite sop_ok_getglobal by lia. reflexivity.
      * intros lc _. constructor; [apply lopk_nonlocal; reflexivity|constructor].
    + apply emit_enc1 in HC; [|reflexivity]. destruct HC as [HRng ->]. cbn [csym ccode cconsts].
      split; [reflexivity|]. exists [(GetLocal, sidx y)], []. rewrite N2Z.id.
      split; [rewrite encode_one; reflexivity|]. split; [rewrite app_nil_r; reflexivity|]. split.
      * intros nc gc k _ _. cbn [runs]. rewrite sop_ok_getlocal by lia. reflexivity.
      * intros lc HL. constructor; [|constructor]. intros _. cbn [snd]. apply (HL _ _ ER ES).
  - (* EArr *) intros l IHl HF; unfold expr_sl2; intros st st' HC.
    cbn [efrag] in HF. simpl in HC. bind_inv HC.
    destruct (IHl HF _ _ H) as (A & ops & newc & B & C & D & L).
    apply emit_enc1 in HC; [|reflexivity]. destruct HC as [HRng ->]. cbn [csym ccode cconsts].
    rewrite elen_len, N2Z.id in *.
    split; [exact A|]. exists (ops ++ [(Array, elen l)]), newc.
    split; [rewrite encode_app, encode_one, B, app_assoc; reflexivity|]. split; [exact C|]. split.
    + intros nc gc k H1 HG. eapply runs_app; [apply (D nc gc k); auto|]. cbn [runs].
      rewrite sop_ok_array by lia. reflexivity.
    + intros lc HL. apply Forall_app. split; [apply L; exact HL|]. constructor; [apply lopk_nonlocal; reflexivity|constructor].
  - (* EMap *) intros kvs IHl np HF; unfold expr_sl2; intros st st' HC.
    cbn [efrag] in HF. apply andb_true_iff in HF. destruct HF as [HNP HF]. apply Z.eqb_eq in HNP. subst np.
    simpl in HC. bind_inv HC.
    destruct (IHl HF _ _ H) as (A & ops & newc & B & C & D & L).
    apply emit_enc1 in HC; [|reflexivity]. destruct HC as [HRng ->]. cbn [csym ccode cconsts].
    rewrite plen_len, N2Z.id in *.
    split; [exact A|]. exists (ops ++ [(Map, plen kvs)]), newc.
    split; [rewrite encode_app, encode_one, B, app_assoc; reflexivity|]. split; [exact C|]. split.
    + intros nc gc k H1 HG. eapply runs_app; [apply (D nc gc k); auto|]. cbn [runs].
      rewrite sop_ok_map by lia. reflexivity.
    + intros lc HL. apply Forall_app. split; [apply L; exact HL|]. constructor; [apply lopk_nonlocal; reflexivity|constructor].
  - (* EUn *) intros op e IHe HF; unfold expr_sl2; intros st st' HC.
   
    assert (HF1 : efrag e = true) by (destruct op; simpl in HF; congruence).
    specialize (IHe HF1). simpl in HC. bind_inv HC.
    destruct (IHe _ _ H) as (A & ops & newc & B & C & D & L).
    assert (exists o, emit true o [] st0 = COk st' /\ has_operand o = false /\ is_sl o = true /\ simple_effect o 0 = Some (1, 1))
      as (o & HEm & HO & HS & HE).
    { destruct op; try discriminate HF; (eexists; split; [exact HC|]; repeat split). }
    pose proof (emit_enc0 _ _ _ HO HEm) as ->. cbn [csym ccode cconsts].
    split; [exact A|]. exists (ops ++ [(o, 0)]), newc.
    split; [rewrite encode_app, encode_one, B, app_assoc; reflexivity|].
    split; [exact C|]. split.
    + intros nc gc k H1 HG.
      eapply runs_app; [apply (D nc gc k); auto|]. cbn [runs].
      rewrite (sop_ok_noarg nc gc o 1 (k + 1) HO HS HE) by lia. f_equal. lia.
    + intros lc HL. apply Forall_app. split; [apply L; exact HL|].
      constructor; [apply lopk_nonlocal, noarg_nonlocal; exact HO|constructor].
  - (* EBin *) intros op lt rt e1 IHe1 e2 IHe2 HF; unfold expr_sl2; intros st st' HC.
   
    simpl in HF. apply andb_true_iff in HF. destruct HF as [HF1 HF2].
    specialize (IHe1 HF1). specialize (IHe2 HF2). simpl in HC. bind_inv HC. bind_inv H.
    destruct (IHe1 _ _ H0) as (A1 & ops1 & newc1 & B1 & C1 & D1 & L1).
    destruct (IHe2 _ _ H) as (A2 & ops2 & newc2 & B2 & C2 & D2 & L2).
    destruct (binop_opc _ _ _ _ _ HC) as (o & HEm & HO & HS & HE).
    pose proof (emit_enc0 _ _ _ HO HEm) as ->. cbn [csym ccode cconsts].
    split; [congruence|]. exists (ops1 ++ ops2 ++ [(o, 0)]), (newc1 ++ newc2).
    split; [rewrite !encode_app, encode_one, B2, B1, <- !app_assoc; reflexivity|].
    split; [rewrite C2, C1, <- app_assoc; reflexivity|]. split.
    + intros nc gc k H1 HG.
      eapply runs_app; [apply (D1 nc gc k); auto; rewrite C2, app_length in H1; lia|].
      eapply runs_app; [apply (D2 nc gc (k + 1)); auto; rewrite A1; exact HG|]. cbn [runs].
      rewrite (sop_ok_noarg nc gc o 2 (k + 1 + 1) HO HS HE) by lia. f_equal. lia.
    + intros lc HL. apply Forall_app. split; [apply L1; exact HL|]. apply Forall_app. split; [apply L2; rewrite A1; exact HL|].
      constructor; [apply lopk_nonlocal, noarg_nonlocal; exact HO|constructor].
  - (* EIndex *) intros e1 IHe1 e2 IHe2 HF; unfold expr_sl2; intros st st' HC.
   
    simpl in HF. apply andb_true_iff in HF. destruct HF as [HF1 HF2].
    specialize (IHe1 HF1). specialize (IHe2 HF2). simpl in HC. bind_inv HC. bind_inv H.
    destruct (IHe1 _ _ H0) as (A1 & ops1 & newc1 & B1 & C1 & D1 & L1).
    destruct (IHe2 _ _ H) as (A2 & ops2 & newc2 & B2 & C2 & D2 & L2).
    assert (exists o, emit true o [] st0 = COk st' /\ has_operand o = false /\ is_sl o = true /\ simple_effect o 0 = Some (2, 1))
      as (o & HEm & HO & HS & HE) by (exists Index; repeat split; exact HC).
    pose proof (emit_enc0 _ _ _ HO HEm) as ->. cbn [csym ccode cconsts].
    split; [congruence|]. exists (ops1 ++ ops2 ++ [(o, 0)]), (newc1 ++ newc2).
    split; [rewrite !encode_app, encode_one, B2, B1, <- !app_assoc; reflexivity|].
    split; [rewrite C2, C1, <- app_assoc; reflexivity|]. split.
    + intros nc gc k H1 HG.
      eapply runs_app; [apply (D1 nc gc k); auto; rewrite C2, app_length in H1; lia|].
      eapply runs_app; [apply (D2 nc gc (k + 1)); auto; rewrite A1; exact HG|]. cbn [runs].
      rewrite (sop_ok_noarg nc gc o 2 (k + 1 + 1) HO HS HE) by lia. f_equal. lia.
    + intros lc HL. apply Forall_app. split; [apply L1; exact HL|]. apply Forall_app. split; [apply L2; rewrite A1; exact HL|].
      constructor; [apply lopk_nonlocal, noarg_nonlocal; exact HO|constructor].
  - (* ESlice *) intros l IHl a IHa b IHb HF; unfold expr_sl2; intros st st' HC.
    cbn [efrag] in HF. apply andb_true_iff in HF. destruct HF as [HF HF3]. apply andb_true_iff in HF. destruct HF as [HF1 HF2].
    cbn [compile_expr] in HC.
    apply bind_ok in HC; destruct HC as (c3 & HC3 & HC). apply bind_ok in HC3; destruct HC3 as (c2 & HC2 & HCb).
    apply bind_ok in HC2; destruct HC2 as (c1 & HCl & HCa).
    destruct (IHl HF1 _ _ HCl) as (A1 & ops1 & newc1 & B1 & C1 & D1 & L1).
    destruct (IHa HF2 _ _ HCa) as (A2 & ops2 & newc2 & B2 & C2 & D2 & L2).
    destruct (IHb HF3 _ _ HCb) as (A3 & ops3 & newc3 & B3 & C3 & D3 & L3).
    pose proof (emit_enc0 Slice _ _ eq_refl HC) as ->. cbn [csym ccode cconsts].
    split; [congruence|]. exists (ops1 ++ ops2 ++ ops3 ++ [(Slice, 0)]), (newc1 ++ newc2 ++ newc3).
    split; [rewrite !encode_app, encode_one, B3, B2, B1, <- !app_assoc; reflexivity|].
    split; [rewrite C3, C2, C1, <- !app_assoc; reflexivity|]. split.
    + intros nc gc k H1 HG. rewrite C3, C2, !app_length in H1.
      eapply runs_app; [apply (D1 nc gc k); auto; lia|].
      eapply runs_app; [apply (D2 nc gc (k + 1)); [rewrite C2, app_length; lia|rewrite A1; exact HG]|].
      eapply runs_app; [apply (D3 nc gc (k + 1 + 1)); [rewrite C3, C2, !app_length; lia|rewrite A2, A1; exact HG]|]. cbn [runs].
      rewrite (sop_ok_noarg nc gc Slice 3 (k + 1 + 1 + 1) eq_refl eq_refl eq_refl) by lia. f_equal. lia.
    + intros lc HL. apply Forall_app. split; [apply L1; exact HL|]. apply Forall_app. split; [apply L2; rewrite A1; exact HL|].
      apply Forall_app. split; [apply L3; rewrite A2, A1; exact HL|].
      constructor; [apply lopk_nonlocal; reflexivity|constructor].
  - (* EGroup *) intros e IHe HF; unfold expr_sl2; intros st st' HC.
    simpl in HF, HC. apply (IHe HF _ _ HC).
  - (* EUnsupported *) intros w HF. discriminate HF.
  - (* ENil *) intros _ st st' HC. simpl in HC. inversion HC; subst st'.
    split; [reflexivity|]. exists [], []. split; [simpl; rewrite app_nil_r; reflexivity|]. split; [rewrite app_nil_r; reflexivity|].
    split; [intros nc gc k _ _; cbn [runs elen]; f_equal; lia|intros; constructor].
  - (* ECons *) intros e IHe t IHt HF st st' HC.
    cbn [efrag_list] in HF. apply andb_true_iff in HF. destruct HF as [HF1 HF2]. simpl in HC. bind_inv HC.
    destruct (IHe HF1 _ _ H) as (A1 & ops1 & newc1 & B1 & C1 & D1 & L1).
    destruct (IHt HF2 _ _ HC) as (A2 & ops2 & newc2 & B2 & C2 & D2 & L2).
    split; [congruence|]. exists (ops1 ++ ops2), (newc1 ++ newc2).
    split; [rewrite encode_app, B2, B1, app_assoc; reflexivity|].
    split; [rewrite C2, C1, app_assoc; reflexivity|]. split.
    + intros nc gc k H1 HG.
      eapply runs_app; [apply (D1 nc gc k); auto; rewrite C2, app_length in H1; lia|].
      cbn [elen]. replace (k + (1 + elen t)) with (k + 1 + elen t) by lia.
      apply (D2 nc gc (k + 1)); auto. rewrite A1. exact HG.
    + intros lc HL. apply Forall_app. split; [apply L1; exact HL|apply L2; rewrite A1; exact HL].
  - (* PNil *) intros _ st st' HC. simpl in HC. inversion HC; subst st'.
    split; [reflexivity|]. exists [], []. split; [simpl; rewrite app_nil_r; reflexivity|]. split; [rewrite app_nil_r; reflexivity|].
    split; [intros nc gc k _ _; cbn [runs plen]; f_equal; lia|intros; constructor].
  - (* PCons *) intros k0 e IHe t IHt HF st st' HC.
    cbn [efrag_pairs] in HF. apply andb_true_iff in HF. destruct HF as [HF1 HF2]. cbn [compile_pairs] in HC. bind_inv HC. bind_inv H.
    destruct (const_sl _ _ _ H0) as (R0 & A0 & B0 & C0).
    destruct (IHe HF1 _ _ H) as (A1 & ops1 & newc1 & B1 & C1 & D1 & L1).
    destruct (IHt HF2 _ _ HC) as (A2 & ops2 & newc2 & B2 & C2 & D2 & L2).
    split; [congruence|]. exists ([(Constant, N.of_nat (List.length (cconsts st)))] ++ ops1 ++ ops2), ([KStr k0] ++ newc1 ++ newc2).
    split; [rewrite !encode_app, B2, B1, B0, <- !app_assoc; reflexivity|].
    split; [rewrite C2, C1, C0, <- !app_assoc; reflexivity|]. split.
    + intros nc gc k H1 HG. rewrite C2, C1, C0, !app_length in H1. cbn [List.length] in H1.
      eapply runs_app; [cbn [runs]; rewrite sop_ok_const by lia; reflexivity|].
      eapply runs_app; [apply (D1 nc gc (k + 1)); [rewrite C1, C0, !app_length; cbn [List.length]; lia|rewrite A0; exact HG]|].
      cbn [plen]. replace (k + 2 * (1 + plen t)) with (k + 1 + 1 + 2 * plen t) by lia.
      apply (D2 nc gc (k + 1 + 1)); [rewrite C2, C1, C0, !app_length; cbn [List.length]; lia|rewrite A1, A0; exact HG].
    + intros lc HL. apply Forall_app. split; [constructor; [apply lopk_nonlocal; reflexivity|constructor]|].
      apply Forall_app. split; [apply L1; rewrite A0; exact HL|apply L2; rewrite A1, A0; exact HL].
  - (* ONoneE *) intros _ st st' HC. cbn [compile_oexpr] in HC.
    pose proof (emit_enc0 ONone _ _ eq_refl HC) as ->. cbn [csym ccode cconsts].
    split; [reflexivity|]. exists [(ONone, 0)], []. split; [rewrite encode_one; reflexivity|].
    split; [rewrite app_nil_r; reflexivity|]. split.
    + intros nc gc k _ _. cbn [runs]. rewrite (sop_ok_noarg nc gc ONone 0 k eq_refl eq_refl eq_refl) by lia. f_equal. lia.
    + intros lc _. constructor; [apply lopk_nonlocal; reflexivity|constructor].
  - (* OSome *) intros e IHe HF st st' HC. cbn [efrag_o] in HF. cbn [compile_oexpr] in HC. exact (IHe HF st st' HC).
Qed.

Theorem efrag_sl2 : forall e, efrag e = true -> expr_sl2 e.
Proof. exact (proj1 efrag_sl2_all). Qed.

Theorem efrag_sl : forall e, efrag e = true -> expr_sl e.
Proof.
  intros e HF st st' HC. destruct (efrag_sl2 e HF st st' HC) as (A & ops & newc & B & C & D & _).
  split; [exact A|]. exists ops, newc. split; [exact B|]. split; [exact C|].
  intros nc gc k H1 HG. apply (D nc gc k H1). apply globals_below_gbw. exact HG.
Qed.

(* ---------- statements of the fragment, at top level ---------- *)
Definition sfrag_stmt (s : stmt) : bool :=
  match s with
  | SDecl _ e => efrag e
  | SAssign (EVar _) e => efrag e
  | SEmpty => true
  | _ => false
  end.
Fixpoint sfrag (p : slist) : bool :=
  match p with SNil => true | SCons s t => sfrag_stmt s && sfrag t end.

Definition top_ok (st : cstate) : Prop :=
  outers (csym st) = [] /\ Inv (csym st) /\ nmax (cur (csym st)) = 0.

Lemma sym_top_globals sym : outers sym = [] -> Inv sym ->
  forall n y, st_resolve n sym = Some y -> sscp y = GlobalScope /\ sidx y < index (cur sym).
Proof.
  intros HO HI n y HR. unfold st_resolve in HR. rewrite HO in HR. simpl in HR.
  destruct (slookup n (store (cur sym))) as [y'|] eqn:E; [|discriminate]. inversion HR; subst y'.
  unfold Inv in HI. rewrite HO in HI. simpl in HI. destruct HI as (_ & B & _).
  destruct (B _ _ E) as (_ & S & R). split; [exact S|lia].
Qed.

Lemma top_globals st : top_ok st -> globals_below (csym st) (index (cur (csym st))).
Proof. intros (HO & HI & _) n y HR. apply (sym_top_globals _ HO HI n y HR). Qed.

Lemma define_frame n s :
  outers (fst (st_define n s)) = outers s /\ nmax (cur (fst (st_define n s))) = nmax (cur s) /\
  index (cur s) <= index (cur (fst (st_define n s))).
Proof.
  unfold st_define. destruct (slookup n (store (cur s))); cbn [fst cur outers nmax index]; repeat split; lia.
Qed.

Definition stmt_sl (st st' : cstate) : Prop :=
  top_ok st' /\ index (cur (csym st)) <= index (cur (csym st')) /\
  exists ops newc,
    ccode st' = ccode st ++ encode ops /\ cconsts st' = cconsts st ++ newc /\
    forall nc gc,
      N.of_nat (List.length (cconsts st')) <= nc ->
      index (cur (csym st')) <= gc ->
      runs nc gc ops 0 = Some 0 /\ Forall (lopk 0) ops.

Lemma set_global_sl y st1 st' gcur :
  emit_set_var true y st1 = COk st' -> sscp y = GlobalScope -> sidx y < gcur ->
  csym st' = csym st1 /\ cconsts st' = cconsts st1 /\
  ccode st' = ccode st1 ++ encode [(SetGlobal, sidx y)] /\
  forall nc gc, gcur <= gc -> runs nc gc [(SetGlobal, sidx y)] (0 + 1) = Some 0.
Proof.
  unfold emit_set_var. intros H HS HI. rewrite HS in H. apply emit_enc1 in H; [|reflexivity]. destruct H as [HRng ->].
  cbn [csym ccode cconsts]. rewrite N2Z.id. repeat split; try (rewrite encode_one; reflexivity).
  intros nc gc H1. cbn [runs]. rewrite sop_ok_setglobal by lia. reflexivity.
Qed.

Lemma top_lbw st : top_ok st -> lbw (csym st) 0.
Proof. intros (HO & HI & _) n y HR HS. destruct (sym_top_globals _ HO HI n y HR) as [S _]. congruence. Qed.

Lemma stmt_frag_sl s st st' :
  sfrag_stmt s = true -> compile_stmt true s st = COk st' -> top_ok st -> stmt_sl st st'.
Proof.
  intros HF HC HT. pose proof HT as (HO & HI & HN). unfold stmt_sl, top_ok.
  destruct s; try discriminate HF.
  - (* SDecl *)
    simpl in HF, HC. bind_inv HC.
    destruct (efrag_sl2 e HF _ _ H) as (A & ops & newc & B & C & D & L).
    destruct (st_define n (csym st0)) as [sym' y] eqn:ED.
    assert (HD : fst (st_define n (csym st0)) = sym' /\ snd (st_define n (csym st0)) = y) by (rewrite ED; auto).
    destruct HD as [HD1 HD2].
    assert (TOP' : outers sym' = [] /\ Inv sym' /\ nmax (cur sym') = 0 /\ index (cur (csym st)) <= index (cur sym') /\
                   sscp y = GlobalScope /\ sidx y < index (cur sym')).
    { rewrite <- HD1, <- HD2. rewrite A.
      destruct (define_frame n (csym st)) as (F1 & F2 & F3).
      pose proof (inv_define n (csym st) HI) as HI'.
      pose proof (define_then_resolve (csym st) n) as DR.
      assert (FO : outers (fst (st_define n (csym st))) = []) by congruence.
      destruct (sym_top_globals _ FO HI' _ _ DR) as [S R].
      repeat split; auto; congruence. }
    destruct TOP' as (T1 & T2 & T3 & T4 & T5 & T6).
    destruct (set_global_sl y (with_sym sym' st0) st' (index (cur sym')) HC T5 T6) as (E1 & E2 & E3 & E4).
    cbn [with_sym csym ccode cconsts] in E1, E2, E3.
    split; [rewrite E1; repeat split; auto|]. split; [rewrite E1; exact T4|].
    exists (ops ++ [(SetGlobal, sidx y)]), newc.
    split; [rewrite encode_app, E3, B, app_assoc; reflexivity|]. split; [rewrite E2; exact C|].
    intros nc gc H1 H3. rewrite E1 in H3. cbn [csym] in H3. split.
    + eapply runs_app.
      * apply (D nc gc 0); auto; [rewrite <- E2; exact H1|].
        intros m ym HR _. destruct (top_globals st HT m ym HR) as [S R]. lia.
      * apply E4; auto.
    + apply Forall_app. split; [apply L; apply top_lbw; exact HT|]. constructor; [apply lopk_nonlocal; reflexivity|constructor].
  - (* SAssign (EVar n) e *)
    destruct target; try discriminate HF. simpl in HF, HC. bind_inv HC.
    destruct (efrag_sl2 e HF _ _ H) as (A & ops & newc & B & C & D & L).
    destruct (st_resolve n (csym st0)) as [y|] eqn:ER; [|discriminate].
    rewrite A in ER. destruct (top_globals st HT n y ER) as [S R].
    destruct (set_global_sl y st0 st' (index (cur (csym st))) HC S R) as (E1 & E2 & E3 & E4).
    split; [rewrite E1, A; exact HT|]. split; [rewrite E1, A; lia|].
    exists (ops ++ [(SetGlobal, sidx y)]), newc.
    split; [rewrite encode_app, E3, B, app_assoc; reflexivity|]. split; [rewrite E2; exact C|].
    intros nc gc H1 H3. rewrite E1, A in H3. split.
    + eapply runs_app.
      * apply (D nc gc 0); auto; [rewrite <- E2; exact H1|].
        intros m ym HR _. destruct (top_globals st HT m ym HR) as [S' R']. lia.
      * apply E4; auto.
    + apply Forall_app. split; [apply L; apply top_lbw; exact HT|]. constructor; [apply lopk_nonlocal; reflexivity|constructor].
  - (* SEmpty *)
    simpl in HC. inversion HC; subst st'. split; [exact HT|]. split; [lia|].
    exists [], []. split; [simpl; rewrite app_nil_r; reflexivity|]. split; [rewrite app_nil_r; reflexivity|].
    intros; split; [reflexivity|constructor].
Qed.

Lemma slist_frag_sl p : forall st st',
  sfrag p = true -> compile_slist true p st = COk st' -> top_ok st -> stmt_sl st st'.
Proof.
  induction p as [|s t IH]; intros st st' HF HC HT; unfold stmt_sl.
  - simpl in HC. inversion HC; subst st'. split; [exact HT|]. split; [lia|].
    exists [], []. split; [simpl; rewrite app_nil_r; reflexivity|]. split; [rewrite app_nil_r; reflexivity|].
    intros; split; [reflexivity|constructor].
  - simpl in HF. apply andb_true_iff in HF. destruct HF as [HF1 HF2]. simpl in HC. bind_inv HC.
    destruct (stmt_frag_sl s st st0 HF1 H HT) as (T1 & M1 & ops1 & newc1 & B1 & C1 & D1).
    destruct (IH st0 st' HF2 HC T1) as (T2 & M2 & ops2 & newc2 & B2 & C2 & D2).
    split; [exact T2|]. split; [lia|]. exists (ops1 ++ ops2), (newc1 ++ newc2).
    split; [rewrite encode_app, B2, B1, app_assoc; reflexivity|].
    split; [rewrite C2, C1, app_assoc; reflexivity|].
    intros nc gc H1 H3.
    destruct (D1 nc gc) as [R1 L1]; auto; [rewrite C2, app_length in H1; lia|lia|].
    destruct (D2 nc gc) as [R2 L2]; auto.
    split; [eapply runs_app; eauto|apply Forall_app; auto].
Qed.

Lemma slist_ind_plain : forall (P : slist -> Prop), P SNil -> (forall s t, P t -> P (SCons s t)) -> forall l, P l.
Proof. intros P H0 H1. fix F 1. intros [|s t]; [exact H0|apply H1; apply F]. Qed.

(* compile_wf_partial: for every top-level program of declarations and
   assignments of fragment expressions, if the compiler succeeds its output is
   well formed.  No size guard: an operand that does not fit 16 bits makes the
   compiler at HEAD fail (ErrOperandRange) instead of emitting code. *)
Theorem compile_wf_partial : forall (p : slist) (st : cstate),
  sfrag p = true -> compile p = COk st ->
  WF {| bcode := out_code (bytecode_of st); nconsts := N.of_nat (List.length (out_consts (bytecode_of st)));
        gcount := out_gcount (bytecode_of st); lcount := out_lcount (bytecode_of st) |}.
Proof.
  intros p st HF HC. unfold compile, compile_program in HC.
  assert (HT : top_ok cinit) by (split; [reflexivity|split; [apply inv_new|reflexivity]]).
  destruct (slist_frag_sl p cinit st HF HC HT) as ((T1 & T2 & T3) & _ & ops & newc & B & C & D).
  unfold bytecode_of. cbn [out_code out_consts out_gcount out_lcount]. unfold st_local_count, st_global_count in *.
  rewrite T3. simpl in B. rewrite B.
  destruct (D (N.of_nat (List.length (cconsts st))) (index (cur (csym st)))) as [R L]; [lia|lia|].
  apply runs_WF; assumption.
Qed.
