(* CompileLocProofs.v — compile_correct with locals: declarations and loop
   variables inside blocks.  The semantics lx_l of CompileSem.v keeps a list
   of frames; the compiler's symbol table keeps a list of tables; the
   simulation relation RELs maps every live binding (visible or shadowed) to
   its slot — a global slot or a slot of the VM's local area.  Slot
   disjointness of simultaneously live symbols (SymTabProofs.chain_no_sharing)
   is what makes a store leave all other bindings alone. *)
From Coq Require Import ZArith NArith List Bool Lia ZifyBool ZifyNat ZifyN Floats.
From EvyV Require Import Base Bytecode BytecodeProofs SymTab SymTabProofs Vm VmProofs Compile CompileSem CompileProofs
     CompileWfProofs CompileStmtProofs CompileJumpProofs CompileHoleProofs CompileSymProofs CompileCtlProofs CompileSemProofs.
Require Import EvyV.Gen.Opcodes.
Import ListNotations.
Open Scope N_scope.

(* ====================================================================== *)
(* Part A: frames against tables                                           *)
(* ====================================================================== *)
Definition tstore := list (str * symbol).
Definition stores (s : symtab) : list tstore := map store (cur s :: outers s).

Fixpoint sres (n : str) (ss : list tstore) : option symbol :=
  match ss with
  | [] => None
  | t :: r => match slookup n t with Some y => Some y | None => sres n r end
  end.

Lemma resolve_sres n s : st_resolve n s = sres n (stores s).
Proof.
  unfold st_resolve, stores. generalize (cur s :: outers s). induction l as [|t r IH]; [reflexivity|].
  cbn [resolve_in map sres]. destruct (slookup n (store t)); [reflexivity|exact IH].
Qed.

Definition FREL (ls gs : list value) (f : frame) (t : tstore) : Prop :=
  (forall n, alook n f = None <-> slookup n t = None) /\
  (forall n v y, alook n f = Some v -> slookup n t = Some y -> slot_holds y v ls gs).
Definition RELs (env : senv) (ss : list tstore) (ls gs : list value) : Prop := Forall2 (FREL ls gs) env ss.

Lemma rels_lookup env ss ls gs : RELs env ss ls gs -> forall n y v,
  sres n ss = Some y -> slook n env = Some v -> slot_holds y v ls gs.
Proof.
  induction 1 as [|f t env ss (HD & HV) _ IH]; intros n y v HR HL; [discriminate|].
  cbn [sres slook] in HR, HL.
  destruct (slookup n t) as [y0|] eqn:ES.
  - inversion HR; subst y0. destruct (alook n f) as [v0|] eqn:EA; [inversion HL; subst; eapply HV; eauto|].
    apply HD in EA. congruence.
  - destruct (alook n f) as [v0|] eqn:EA; [apply HD in ES; congruence|]. eapply IH; eauto.
Qed.

Lemma rels_vars_hold env s ls gs : RELs env (stores s) ls gs -> vars_hold (fun x => slook x env) s ls gs.
Proof. intros H n y v HR HE. rewrite resolve_sres in HR. apply (rels_lookup _ _ _ _ H n y v HR HE). Qed.

(* ---------- writing a slot ---------- *)
Definition same_slot (y y' : symbol) : Prop := sscp y = sscp y' /\ sidx y = sidx y'.
Definition put (y : symbol) (v : value) (ls gs : list value) : list value * list value :=
  match sscp y with
  | GlobalScope => (ls, set_nth (N.to_nat (sidx y)) v gs)
  | LocalScope => (set_nth (N.to_nat (sidx y)) v ls, gs)
  end.
Definition in_range (y : symbol) (ls gs : list value) : Prop :=
  match sscp y with
  | GlobalScope => (N.to_nat (sidx y) < List.length gs)%nat
  | LocalScope => (N.to_nat (sidx y) < List.length ls)%nat
  end.

Lemma put_same y v ls gs : in_range y ls gs -> slot_holds y v (fst (put y v ls gs)) (snd (put y v ls gs)).
Proof.
  unfold in_range, slot_holds, put. destruct (sscp y); cbn [fst snd]; intro H; apply nth_error_set_nth_same; exact H.
Qed.

Lemma put_other y v y' v' ls gs : ~ same_slot y y' -> slot_holds y' v' ls gs ->
  slot_holds y' v' (fst (put y v ls gs)) (snd (put y v ls gs)).
Proof.
  unfold same_slot, slot_holds, put. intros HN H.
  destruct (sscp y) eqn:E1; destruct (sscp y') eqn:E2; cbn [fst snd]; try exact H.
  - rewrite nth_error_set_nth_other; [exact H|]. intro EQ. apply HN. split; [reflexivity|lia].
  - rewrite nth_error_set_nth_other; [exact H|]. intro EQ. apply HN. split; [reflexivity|lia].
Qed.

Lemma put_lengths y v ls gs : List.length (fst (put y v ls gs)) = List.length ls /\ List.length (snd (put y v ls gs)) = List.length gs.
Proof. unfold put. destruct (sscp y); cbn [fst snd]; rewrite ?set_nth_length; auto. Qed.

(* every other binding of a table has another slot *)
Definition other (y : symbol) (t : tstore) (except : option str) : Prop :=
  forall n' y', slookup n' t = Some y' -> except <> Some n' -> ~ same_slot y y'.

Fixpoint sepl (y : symbol) (n : str) (ss : list tstore) : Prop :=
  match ss with
  | [] => True
  | t :: r => match slookup n t with
              | Some _ => other y t (Some n) /\ Forall (fun t' => other y t' None) r
              | None => other y t None /\ sepl y n r
              end
  end.

Lemma frel_put_other y v ls gs f t : other y t None -> FREL ls gs f t -> FREL (fst (put y v ls gs)) (snd (put y v ls gs)) f t.
Proof.
  intros HO (HD & HV). split; [exact HD|]. intros n v' y' HA HS.
  apply put_other; [apply (HO n y' HS); discriminate|apply (HV n v' y' HA HS)].
Qed.

Lemma rels_put_other y v ls gs env ss : Forall (fun t => other y t None) ss -> RELs env ss ls gs ->
  RELs env ss (fst (put y v ls gs)) (snd (put y v ls gs)).
Proof.
  intros HF H. induction H as [|f t env ss HFR _ IH]; [constructor|]. inversion HF; subst.
  constructor; [apply frel_put_other; assumption|apply IH; assumption].
Qed.

Lemma alook_cons_same n v f : alook n ((n, v) :: f) = Some v.
Proof. simpl. rewrite str_eqb_refl. reflexivity. Qed.
Lemma alook_cons_other n m v f : m <> n -> alook m ((n, v) :: f) = alook m f.
Proof. intro NE. simpl. destruct (str_eqb n m) eqn:E; [apply str_eqb_eq in E; congruence|reflexivity]. Qed.

(* the head frame gets a (new) binding for n whose symbol y is in the head table *)
Lemma frel_head_update y v ls gs f t n : in_range y ls gs -> slookup n t = Some y -> other y t (Some n) ->
  FREL ls gs f t -> FREL (fst (put y v ls gs)) (snd (put y v ls gs)) ((n, v) :: f) t.
Proof.
  intros HR HS HO (HD & HV). split.
  - intro m. destruct (str_eqb n m) eqn:E.
    + apply str_eqb_eq in E. subst m. rewrite alook_cons_same, HS. split; discriminate.
    + rewrite alook_cons_other; [apply HD|]. intros ->. rewrite str_eqb_refl in E. discriminate.
  - intros m v' y' HA HS'. destruct (str_eqb n m) eqn:E.
    + apply str_eqb_eq in E. subst m. rewrite alook_cons_same in HA. inversion HA; subst v'.
      rewrite HS in HS'. inversion HS'; subst y'. apply put_same. exact HR.
    + assert (NE : m <> n) by (intros ->; rewrite str_eqb_refl in E; discriminate).
      rewrite alook_cons_other in HA by exact NE. apply put_other; [|apply (HV m v' y' HA HS')].
      apply (HO m y' HS'). intro X. inversion X. congruence.
Qed.

(* x = e *)
Lemma rels_assign env ss ls gs : RELs env ss ls gs -> forall n y v env',
  sres n ss = Some y -> sassign n v env = Some env' -> sepl y n ss -> in_range y ls gs ->
  RELs env' ss (fst (put y v ls gs)) (snd (put y v ls gs)).
Proof.
  induction 1 as [|f t env ss HFR HT IH]; intros n y v env' HR HA HS HI; [discriminate|].
  cbn [sres sassign sepl] in HR, HA, HS. destruct HFR as (HD & HV).
  destruct (slookup n t) as [y0|] eqn:ES.
  - inversion HR; subst y0. destruct HS as [HO1 HO2].
    destruct (alook n f) as [v0|] eqn:EA; [|apply HD in EA; congruence].
    inversion HA; subst env'. constructor.
    + apply frel_head_update; auto. split; assumption.
    + apply rels_put_other; assumption.
  - destruct HS as [HO1 HS]. destruct (alook n f) as [v0|] eqn:EA; [apply HD in ES; congruence|].
    destruct (sassign n v env) as [env1|] eqn:EA1; [|discriminate]. inversion HA; subst env'.
    constructor; [apply frel_put_other; [exact HO1|split; assumption]|eapply IH; eauto].
Qed.

(* ---------- separation from the symbol-table invariant ---------- *)
Definition NOSHARE (ts : list table) : Prop :=
  forall d1 d2 n1 n2 y1 y2, live_in ts d1 n1 y1 -> live_in ts d2 n2 y2 ->
    sscp y1 = sscp y2 -> sidx y1 = sidx y2 -> d1 = d2 /\ n1 = n2.

Lemma noshare_tail t r : NOSHARE (t :: r) -> NOSHARE r.
Proof.
  intros H d1 d2 n1 n2 y1 y2 L1 L2 E1 E2.
  assert (A1 : live_in (t :: r) (S d1) n1 y1) by (apply live_in_S; exact L1).
  assert (A2 : live_in (t :: r) (S d2) n2 y2) by (apply live_in_S; exact L2).
  destruct (H (S d1) (S d2) n1 n2 y1 y2 A1 A2 E1 E2) as [A B]. split; [lia|exact B].
Qed.

Lemma noshare_other_tail y n t r : NOSHARE (t :: r) -> live_in (t :: r) 0 n y ->
  Forall (fun t' => other y (store t') None) r.
Proof.
  intros H L. apply Forall_forall. intros t' HIn n' y' HS _ [E1 E2].
  apply In_nth_error in HIn. destruct HIn as (k & Hk).
  assert (L' : live_in (t :: r) (S k) n' y') by (apply live_in_S; exists t'; auto).
  destruct (H 0%nat (S k) n n' y y' L L' E1 E2). discriminate.
Qed.

Lemma sres_live : forall r n y, sres n (map store r) = Some y -> exists d, live_in r d n y.
Proof.
  induction r as [|t' r' IH]; intros n y HR; [discriminate|]. cbn [map sres] in HR.
  destruct (slookup n (store t')) as [y1|] eqn:E.
  - inversion HR; subst. exists 0%nat. apply live_in_0. exact E.
  - destruct (IH n y HR) as (d & L). exists (S d). apply live_in_S. exact L.
Qed.

Lemma noshare_sepl ts : NOSHARE ts -> forall n y, sres n (map store ts) = Some y -> sepl y n (map store ts).
Proof.
  induction ts as [|t r IH]; intros H n y HR; [exact I|]. cbn [map sres sepl] in *.
  destruct (slookup n (store t)) as [y0|] eqn:ES.
  - inversion HR; subst y0. assert (L : live_in (t :: r) 0 n y) by (apply live_in_0; exact ES). split.
    + intros n' y' HS NE [E1 E2]. assert (L' : live_in (t :: r) 0 n' y') by (apply live_in_0; exact HS).
      destruct (H 0%nat 0%nat n n' y y' L L' E1 E2) as [_ ->]. congruence.
    + rewrite Forall_map. apply (noshare_other_tail y n t r H L).
  - split.
    + intros n' y' HS _ [E1 E2].
      destruct (sres_live r n y HR) as (d & L0). assert (L : live_in (t :: r) (S d) n y) by (apply live_in_S; exact L0).
      assert (L' : live_in (t :: r) 0 n' y') by (apply live_in_0; exact HS).
      destruct (H (S d) 0%nat n n' y y' L L' E1 E2). discriminate.
    + apply IH; [eapply noshare_tail; eauto|exact HR].
Qed.

Lemma inv_sepl s n y : Inv s -> st_resolve n s = Some y -> sepl y n (stores s).
Proof.
  intros HI HR. rewrite resolve_sres in HR. unfold stores in *.
  apply noshare_sepl; [|exact HR]. intros d1 d2 n1 n2 y1 y2. apply (chain_no_sharing _ HI).
Qed.

(* ---------- x := e ---------- *)
Lemma stores_define n s : stores (fst (st_define n s)) =
  match slookup n (store (cur s)) with
  | Some _ => stores s
  | None => ((n, snd (st_define n s)) :: store (cur s)) :: map store (outers s)
  end.
Proof. unfold st_define, stores. destruct (slookup n (store (cur s))); reflexivity. Qed.

Lemma rels_declare env s ls gs n v : RELs env (stores s) ls gs -> Inv s ->
  let s' := fst (st_define n s) in let y := snd (st_define n s) in
  in_range y ls gs ->
  RELs (sdecl n v env) (stores s') (fst (put y v ls gs)) (snd (put y v ls gs)).
Proof.
  intros H HI s' y HR.
  pose proof (inv_define n s HI) as HI'. pose proof (define_then_resolve s n) as DR. fold s' y in HI', DR.
  pose proof (inv_sepl s' n y HI' DR) as HS.
  unfold s' in HS |- *. rewrite stores_define in HS |- *. unfold stores in H. cbn [map] in H.
  inversion H as [|f t env0 ss0 HFR HT]; subst. cbn [sdecl].
  destruct (slookup n (store (cur s))) as [y0|] eqn:ES.
  - (* an existing symbol of this scope *)
    assert (y = y0) by (unfold y, st_define; rewrite ES; reflexivity). subst y0.
    unfold stores in HS. cbn [map sepl] in HS. rewrite ES in HS. destruct HS as [HO1 HO2].
    unfold stores. cbn [map]. constructor; [apply frel_head_update; auto|apply rels_put_other; assumption].
  - cbn [sepl slookup] in HS. rewrite str_eqb_refl in HS. destruct HS as [HO1 HO2].
    constructor; [|apply rels_put_other; assumption].
    destruct HFR as (HD & HV). split.
    + intro m. cbn [slookup]. destruct (str_eqb n m) eqn:E.
      * apply str_eqb_eq in E. subst m. rewrite alook_cons_same. split; discriminate.
      * rewrite alook_cons_other; [apply HD|]. intros ->. rewrite str_eqb_refl in E. discriminate.
    + intros m v' y' HA HS'. cbn [slookup] in HS'. destruct (str_eqb n m) eqn:E.
      * apply str_eqb_eq in E. subst m. rewrite alook_cons_same in HA. inversion HA; subst v'. inversion HS'; subst y'.
        apply put_same. exact HR.
      * assert (NE : m <> n) by (intros ->; rewrite str_eqb_refl in E; discriminate).
        rewrite alook_cons_other in HA by exact NE. apply put_other; [|apply (HV m v' y' HA HS')].
        apply (HO1 m y'); [cbn [slookup]; rewrite E; exact HS'|]. intro X. inversion X. congruence.
Qed.

(* ---------- blocks ---------- *)
Lemma stores_push s : stores (st_push s) = [] :: stores s.
Proof. reflexivity. Qed.

Lemma stores_pop s : outers s <> [] -> stores (st_pop s) = tl (stores s).
Proof. unfold st_pop, stores. destruct (outers s) as [|o r]; [congruence|]. reflexivity. Qed.

Lemma rels_push env ss ls gs : RELs env ss ls gs -> RELs ([] :: env) ([] :: ss) ls gs.
Proof. intro H. constructor; [|exact H]. split; [intro n; split; reflexivity|intros n v y HA; discriminate]. Qed.

Lemma rels_tl env ss ls gs : RELs env ss ls gs -> RELs (tl env) (tl ss) ls gs.
Proof. intro H. inversion H; subst; [constructor|assumption]. Qed.

(* ---------- the count of global slots ---------- *)
Definition rootcount (s : symtab) : N := index (last (outers s) (cur s)).

(* what a compiled statement may do to the symbol table, declarations at top
   level included: outer tables untouched, invariant kept, the bound on local
   slots and the count of global slots only grow *)
Record SY (s s' : symtab) : Prop := {
  sy_out : outers s' = outers s;
  sy_inv : Inv s -> Inv s';
  sy_bound : bound s <= bound s';
  sy_gc : rootcount s <= rootcount s'
}.

Lemma SY_refl s : SY s s.
Proof. constructor; auto; lia. Qed.
Lemma SY_eq s s' : s' = s -> SY s s'.
Proof. intros ->. apply SY_refl. Qed.
Lemma SY_trans s1 s2 s3 : SY s1 s2 -> SY s2 s3 -> SY s1 s3.
Proof.
  intros A B. constructor.
  - rewrite (sy_out _ _ B). apply (sy_out _ _ A).
  - intro H. apply (sy_inv _ _ B), (sy_inv _ _ A), H.
  - pose proof (sy_bound _ _ A). pose proof (sy_bound _ _ B). lia.
  - pose proof (sy_gc _ _ A). pose proof (sy_gc _ _ B). lia.
Qed.

Lemma SY_define n s : SY s (fst (st_define n s)).
Proof.
  destruct (define_frame n s) as (F1 & F2 & F3). constructor.
  - exact F1.
  - intro HI. apply inv_define. exact HI.
  - pose proof (bound_step (SDefine n) s) as B. cbn [st_step] in B. destruct (st_define n s); exact B.
  - unfold rootcount. rewrite F1. destruct (outers s) as [|o r]; [cbn [last]; exact F3|].
    assert (forall (a b : table), last (o :: r) a = last (o :: r) b) as X.
    { clear. intros a b. revert o. induction r as [|x r IH]; intro o; [reflexivity|]. cbn [last]. apply IH. }
    rewrite (X (cur (fst (st_define n s))) (cur s)). lia.
Qed.

Lemma last_cons_ne {A} (x : A) l d d' : l <> [] -> last (x :: l) d = last l d'.
Proof.
  revert x. induction l as [|y r IH]; intros x H; [congruence|]. destruct r as [|z r']; [reflexivity|].
  change (last (x :: y :: z :: r') d) with (last (y :: z :: r') d). apply IH. discriminate.
Qed.

Lemma rootcount_push s : rootcount (st_push s) = rootcount s.
Proof.
  unfold rootcount, st_push. cbn [cur outers]. destruct (outers s) as [|o r]; [reflexivity|].
  apply (f_equal index). apply last_cons_ne. discriminate.
Qed.

Lemma SY_block s s3 : SY (st_push s) s3 -> SY s (st_pop s3).
Proof.
  intro A. pose proof (sy_out _ _ A) as HO. cbn [st_push outers] in HO.
  assert (EP : st_pop s3 = {| cur := {| store := store (cur s); index := index (cur s);
                                         nmax := N.max (nmax (cur s)) (nmax (cur s3) + index (cur s3)) |};
                              outers := outers s |}).
  { unfold st_pop. rewrite HO. reflexivity. }
  constructor.
  - rewrite EP. reflexivity.
  - intro H. apply inv_pop, (sy_inv _ _ A), inv_push, H.
  - pose proof (bound_step SPush s) as B1. pose proof (sy_bound _ _ A) as B2. pose proof (bound_step SPop s3) as B3.
    cbn [st_step fst] in B1, B3. lia.
  - rewrite EP. unfold rootcount. cbn [cur outers]. destruct (outers s) as [|o r]; [cbn [last index]; lia|].
    assert (forall (a b : table), last (o :: r) a = last (o :: r) b) as X.
    { clear. intros a b. revert o. induction r as [|x r IH]; intro o; [reflexivity|]. cbn [last]. apply IH. }
    apply N.eq_le_incl. f_equal. apply X.
Qed.

(* ====================================================================== *)
(* Part B: the layout of compiled statements, with declarations             *)
(* ====================================================================== *)
Definition lvsym := option (str * symbol).
Definition hvof (lvi : lvsym) : N := match lvi with Some _ => 1 | None => 0 end.
(* the store of the loop variable at the head of every round *)
Definition lvstore (lvi : lvsym) (sym : symtab) (sgv : list N) : Prop :=
  match lvi with
  | Some (n, y) => jbytes (setop y) (sidx y) sgv /\ st_resolve n sym = Some y
  | None => sgv = []
  end.
(* the prologue of a for loop: the loop variable is defined in the current
   scope and set to none *)
Definition LVPRO (lv : option str) (s3 sa : cstate) (segp : list N) (lvi : lvsym) : Prop :=
  match lv with
  | None => ccode sa = ccode s3 /\ cconsts sa = cconsts s3 /\ csym sa = csym s3 /\ segp = [] /\ lvi = None
  | Some n =>
      let y := snd (st_define n (csym s3)) in
      exists sg, jbytes (setop y) (sidx y) sg /\ segp = [N_of_opc ONone] ++ sg /\
        ccode sa = ccode s3 ++ segp /\ cconsts sa = cconsts s3 /\ csym sa = fst (st_define n (csym s3)) /\
        lvi = Some (n, y)
  end.

Inductive LY : option N -> stmt -> cstate -> cstate -> list Z -> list N -> Prop :=
| ly_decl brk n e st st1 st' seg_e sg :
    efrag e = true -> compile_expr true e st = COk st1 -> ccode st1 = ccode st ++ seg_e ->
    jbytes (setop (snd (st_define n (csym st)))) (sidx (snd (st_define n (csym st)))) sg ->
    cconsts st' = cconsts st1 -> csym st' = fst (st_define n (csym st)) ->
    LY brk (SDecl n e) st st' [] (seg_e ++ sg)
| ly_assign brk n e st st1 st' y seg_e sg :
    efrag e = true -> compile_expr true e st = COk st1 -> ccode st1 = ccode st ++ seg_e ->
    st_resolve n (csym st) = Some y -> jbytes (setop y) (sidx y) sg ->
    cconsts st' = cconsts st1 -> csym st' = csym st ->
    LY brk (SAssign (EVar n) e) st st' [] (seg_e ++ sg)
| ly_empty brk st : LY brk SEmpty st st [] []
| ly_break brk st st' jb :
    bshape brk jb -> cconsts st' = cconsts st -> csym st' = csym st ->
    LY brk SBreak st st' [Z.of_nat (List.length (ccode st))] jb
| ly_while brk c b st st1 stx stb st' bs_b seg_c seg_b jf jb :
    efrag c = true -> compile_expr true c st = COk st1 -> ccode st1 = ccode st ++ seg_c ->
    cconsts stx = cconsts st1 -> csym stx = st_push (csym st) ->
    N.of_nat (List.length (ccode stx)) = N.of_nat (List.length (ccode st1)) + 3 ->
    LYL (Some (N.of_nat (List.length (ccode st)) + N.of_nat (List.length (seg_c ++ jf ++ seg_b ++ jb)))) b stx stb bs_b seg_b ->
    jbytes JumpOnFalse (N.of_nat (List.length (ccode st)) + N.of_nat (List.length (seg_c ++ jf ++ seg_b ++ jb))) jf ->
    jbytes Jump (N.of_nat (List.length (ccode st))) jb ->
    cconsts st' = cconsts stb -> csym st' = st_pop (csym stb) ->
    LY brk (SWhile c b) st st' [] (seg_c ++ jf ++ seg_b ++ jb)
| ly_forstep brk lv start stop step b st s1 s2 s3 sa st' seg1 seg2 seg3 segp seg_r lvi :
    efrag stop = true -> compile_expr true stop st = COk s1 -> ccode s1 = ccode st ++ seg1 ->
    efrag (match step with OSome e => e | ONoneE => ENum 1 end) = true ->
    compile_expr true (match step with OSome e => e | ONoneE => ENum 1 end) s1 = COk s2 -> ccode s2 = ccode s1 ++ seg2 ->
    efrag (match start with OSome e => e | ONoneE => ENum 0 end) = true ->
    compile_expr true (match start with OSome e => e | ONoneE => ENum 0 end) s2 = COk s3 -> ccode s3 = ccode s2 ++ seg3 ->
    LVPRO lv s3 sa segp lvi ->
    LYR lvi b sa st' 3 StepRange seg_r ->
    LY brk (SForStep lv start stop step b) st st' [] (seg1 ++ seg2 ++ seg3 ++ segp ++ seg_r)
| ly_foriter brk lv t e b st s1 s2 sa st' seg1 segk segp seg_r lvi :
    (t = TStr \/ t = TArr \/ t = TMap) ->
    efrag e = true -> compile_expr true e st = COk s1 -> ccode s1 = ccode st ++ seg1 ->
    emit_const true (KNum 0) s1 = COk s2 -> ccode s2 = ccode s1 ++ segk ->
    LVPRO lv s2 sa segp lvi ->
    LYR lvi b sa st' 2 IterRange seg_r ->
    LY brk (SForIter lv t e b) st st' [] (seg1 ++ segk ++ segp ++ seg_r)
| ly_if brk c b elifs els st ste st' js bs seg :
    LYC brk true (CCons c b elifs) els st ste (N.of_nat (List.length (ccode st)) + N.of_nat (List.length seg)) js bs seg ->
    cconsts st' = cconsts ste -> csym st' = csym ste ->
    LY brk (SIf c b elifs els) st st' bs seg
(* l[i] = e: the value, the container, the index, OpSetIndex.  (The semantics lx_s
   has no element stores — Vm.v does not perform them —, so the simulation is
   vacuous here; the constructor exists for the static properties of the layout:
   CompileInitProofs.v.) *)
| ly_store brk l i e st st1 st2 st3 st' seg_e seg_l seg_i :
    efrag e = true -> compile_expr true e st = COk st1 -> ccode st1 = ccode st ++ seg_e ->
    efrag l = true -> compile_expr true l st1 = COk st2 -> ccode st2 = ccode st1 ++ seg_l ->
    efrag i = true -> compile_expr true i st2 = COk st3 -> ccode st3 = ccode st2 ++ seg_i ->
    cconsts st' = cconsts st3 -> csym st' = csym st ->
    LY brk (SAssign (EIndex l i) e) st st' [] (seg_e ++ seg_l ++ seg_i ++ [N_of_opc SetIndex])
with LYL : option N -> slist -> cstate -> cstate -> list Z -> list N -> Prop :=
| lyl_nil brk st : LYL brk SNil st st [] []
| lyl_cons brk s t st st1 st2 bs1 bs2 seg1 seg2 :
    LY brk s st st1 bs1 seg1 ->
    N.of_nat (List.length (ccode st1)) = N.of_nat (List.length (ccode st)) + N.of_nat (List.length seg1) ->
    LYL brk t st1 st2 bs2 seg2 ->
    LYL brk (SCons s t) st st2 (bs1 ++ bs2) (seg1 ++ seg2)
with LYC : option N -> bool -> clist -> oslist -> cstate -> cstate -> N -> list Z -> list Z -> list N -> Prop :=
| lyc_nil_noelse brk fin st End : End = N.of_nat (List.length (ccode st)) -> LYC brk fin CNil NoElse st st End [] [] []
| lyc_nil_else brk fin eb st sty ste st' End bs_e seg_e :
    cconsts sty = cconsts st -> csym sty = st_push (csym st) ->
    List.length (ccode sty) = List.length (ccode st) ->
    LYL brk eb sty ste bs_e seg_e -> End = N.of_nat (List.length (ccode st)) + N.of_nat (List.length seg_e) ->
    cconsts st' = cconsts ste -> csym st' = st_pop (csym ste) ->
    LYC brk fin CNil (Else eb) st st' End [] bs_e seg_e
| lyc_cons brk fin c b t els st st1 stx stb sty st' End js bs_b bs_r seg_c seg_b jf je seg_r :
    efrag c = true -> compile_expr true c st = COk st1 -> ccode st1 = ccode st ++ seg_c ->
    cconsts stx = cconsts st1 -> csym stx = st_push (csym st) ->
    N.of_nat (List.length (ccode stx)) = N.of_nat (List.length (ccode st1)) + 3 ->
    LYL brk b stx stb bs_b seg_b ->
    jbytes JumpOnFalse (N.of_nat (List.length (ccode st)) + N.of_nat (List.length (seg_c ++ jf ++ seg_b ++ je))) jf ->
    jshape fin End je ->
    cconsts sty = cconsts stb -> csym sty = st_pop (csym stb) ->
    N.of_nat (List.length (ccode sty)) = N.of_nat (List.length (ccode stb)) + 3 ->
    LYC brk fin t els sty st' End js bs_r seg_r ->
    LYC brk fin (CCons c b t) els st st' End
         (Z.of_nat (List.length (ccode st) + List.length (seg_c ++ jf ++ seg_b)) :: js)
         (bs_b ++ bs_r)
         (seg_c ++ jf ++ seg_b ++ je ++ seg_r)
with LYR : lvsym -> slist -> cstate -> cstate -> N -> opc -> list N -> Prop :=
| lyr rop S lvi b s3 stx stb st' bs_b seg_b jf jb sgv :
    lvstore lvi (csym s3) sgv ->
    cconsts stx = cconsts s3 -> csym stx = st_push (csym s3) ->
    N.of_nat (List.length (ccode stx)) = N.of_nat (List.length (ccode s3)) + 6 + N.of_nat (List.length sgv) ->
    LYL (Some (N.of_nat (List.length (ccode s3)) + N.of_nat (List.length ([N_of_opc rop; 0; hvof lvi] ++ jf ++ sgv ++ seg_b ++ jb)))) b stx stb bs_b seg_b ->
    jbytes JumpOnFalse (N.of_nat (List.length (ccode s3)) + N.of_nat (List.length ([N_of_opc rop; 0; hvof lvi] ++ jf ++ sgv ++ seg_b ++ jb))) jf ->
    jbytes Jump (N.of_nat (List.length (ccode s3))) jb ->
    cconsts st' = cconsts stb -> csym st' = st_pop (csym stb) ->
    LYR lvi b s3 st' S rop ([N_of_opc rop; 0; hvof lvi] ++ jf ++ sgv ++ seg_b ++ jb ++ [N_of_opc Drop; 0; S]).

Scheme LY_mind := Induction for LY Sort Prop
  with LYL_mind := Induction for LYL Sort Prop
  with LYC_mind := Induction for LYC Sort Prop
  with LYR_mind := Induction for LYR Sort Prop.
Combined Scheme LY_mutind from LY_mind, LYL_mind, LYC_mind, LYR_mind.

Lemma lvpro_frame lv s3 sa segp lvi : LVPRO lv s3 sa segp lvi ->
  cconsts sa = cconsts s3 /\ SY (csym s3) (csym sa) /\
  N.of_nat (List.length (ccode sa)) = N.of_nat (List.length (ccode s3)) + N.of_nat (List.length segp) /\
  lvstore lvi (csym sa) (match lvi with Some _ => skipn 1 segp | None => [] end).
Proof.
  unfold LVPRO. destruct lv as [n|].
  - intros (sg & HJ & -> & C & K & S & ->). split; [exact K|]. split; [rewrite S; apply SY_define|].
    split; [rewrite C, app_length; lia|]. cbn [lvstore skipn app]. split; [exact HJ|]. rewrite S. apply define_then_resolve.
  - intros (C & K & S & -> & ->). split; [exact K|]. split; [apply SY_eq; exact S|]. split; [rewrite C; simpl; lia|reflexivity].
Qed.

(* consts only grow; the table moves along SY *)
Lemma ly_frame :
  (forall brk s st st' bs seg, LY brk s st st' bs seg -> (exists newc, cconsts st' = cconsts st ++ newc) /\ SY (csym st) (csym st')) /\
  (forall brk l st st' bs seg, LYL brk l st st' bs seg -> (exists newc, cconsts st' = cconsts st ++ newc) /\ SY (csym st) (csym st')) /\
  (forall brk fin l els st st' End js bs seg, LYC brk fin l els st st' End js bs seg ->
     (exists newc, cconsts st' = cconsts st ++ newc) /\ SY (csym st) (csym st')) /\
  (forall lvi b s3 st' S rop seg, LYR lvi b s3 st' S rop seg ->
     (exists newc, cconsts st' = cconsts s3 ++ newc) /\ SY (csym s3) (csym st')).
Proof.
  apply LY_mutind; intros;
    repeat match goal with
    | HF : efrag ?e = true, HC : compile_expr true ?e ?st = COk ?st1 |- _ =>
        let nc := fresh "nc" in let K := fresh "K" in let SE := fresh "SE" in
        destruct (efrag_consts e st st1 HF HC) as [(nc & K) SE]; clear HC
    | HC : emit_const true ?k ?st = COk ?st1 |- _ =>
        let K := fresh "Kk" in let SE := fresh "SEk" in
        destruct (const_sl _ _ _ HC) as (_ & SE & _ & K); clear HC
    | HP : LVPRO _ _ _ _ _ |- _ =>
        let K := fresh "Kp" in let SP := fresh "SP" in
        destruct (lvpro_frame _ _ _ _ _ HP) as (K & SP & _ & _); clear HP
    | H : (exists newc, _) /\ _ |- _ => let nb := fresh "nb" in let Kb := fresh "Kb" in let Sb := fresh "Sb" in destruct H as [(nb & Kb) Sb]
    end;
    (split; [first [exists []; rewrite app_nil_r; first [reflexivity|assumption] | chain_consts]|]).
  all: try apply SY_refl. all: try (apply SY_eq; congruence).
  all: try (match goal with H : csym ?b = fst (st_define _ _) |- SY _ (csym ?b) => rewrite H; apply SY_define end).
  all: try (match goal with
            | Hpop : csym ?b = st_pop (csym ?c), Hpush : csym ?x = st_push (csym ?a), Sb : SY (csym ?x) (csym ?c) |- SY (csym ?a) (csym ?b) =>
                rewrite Hpop; apply SY_block; rewrite <- Hpush; exact Sb
            end).
  all: try (match goal with H : csym ?b = csym ?c, Sb : SY ?a (csym ?c) |- SY ?a (csym ?b) => rewrite H; exact Sb end).
  all: try (eapply SY_trans; [eassumption|eassumption]).
  all: try (match goal with
            | SP : SY (csym ?s3) (csym ?sa), Sb : SY (csym ?sa) (csym ?b) |- SY (csym ?a) (csym ?b) =>
                eapply SY_trans; [|exact Sb]; eapply SY_trans; [|exact SP]; apply SY_eq; congruence
            end).
  all: try (match goal with
            | Sb0 : SY (csym ?y) (csym ?b), Hpop : csym ?y = st_pop (csym ?c), Hpush : csym ?x = st_push (csym ?a), Sb : SY (csym ?x) (csym ?c) |- SY (csym ?a) (csym ?b) =>
                eapply SY_trans; [|exact Sb0]; rewrite Hpop; apply SY_block; rewrite <- Hpush; exact Sb
            end).
Qed.

Lemma ly_len :
  (forall brk s st st' bs seg, LY brk s st st' bs seg -> True) /\
  (forall brk l st st' bs seg, LYL brk l st st' bs seg ->
     N.of_nat (List.length (ccode st')) = N.of_nat (List.length (ccode st)) + N.of_nat (List.length seg)) /\
  (forall brk fin l els st st' End js bs seg, LYC brk fin l els st st' End js bs seg ->
     End = N.of_nat (List.length (ccode st)) + N.of_nat (List.length seg)) /\
  (forall lvi b s3 st' S rop seg, LYR lvi b s3 st' S rop seg -> True).
Proof.
  apply LY_mutind; intros; auto.
  - simpl. lia.
  - rewrite app_length, Nat2N.inj_add. lia.
  - simpl. lia.
  - subst End. pose proof (jbytes_len _ _ _ j) as Lj.
    assert (Lje : List.length je = 3%nat).
    { destruct fin; cbn [jshape] in j0; [apply (jbytes_len _ _ _ j0)|destruct j0 as (hh & ll & ->); reflexivity]. }
    apply (f_equal (@List.length N)) in e1. rewrite app_length in e1.
    rewrite !app_length, Lj, Lje, !Nat2N.inj_add. lia.
Qed.

Lemma lyl_len : forall brk l st st' bs seg, LYL brk l st st' bs seg ->
  N.of_nat (List.length (ccode st')) = N.of_nat (List.length (ccode st)) + N.of_nat (List.length seg).
Proof. apply ly_len. Qed.

(* ====================================================================== *)
(* Part C: the simulation                                                   *)
(* ====================================================================== *)
(* ---------- slots are in range ---------- *)
Lemma chain_global_below ts : chain_ok ts -> forall d n y, live_in ts d n y -> sscp y = GlobalScope ->
  sidx y < index (last ts {| store := []; index := 0; nmax := 0 |}).
Proof.
  induction ts as [|t tl IH]; [simpl; tauto|]. intros H d n y L S.
  destruct tl as [|o r].
  - destruct d; [|destruct L as (? & E & _); destruct d; discriminate].
    apply live_0 in L. simpl in H. destruct H as (_ & B & _). apply B in L. cbn [last]. lia.
  - apply chain_ok_cons in H; [|discriminate]. destruct H as [(A & B & C) H2].
    destruct d.
    + apply live_0 in L. apply B in L. destruct L as (_ & X & _). congruence.
    + apply live_S in L. change (last (t :: o :: r) _) with (last (o :: r) {| store := []; index := 0; nmax := 0 |}).
      apply (IH H2 d n y L S).
Qed.

Lemma last_irrel {A} (l : list A) a b : l <> [] -> last l a = last l b.
Proof. induction l as [|x r IH]; [congruence|]. intros _. destruct r; [reflexivity|]. cbn [last]. apply IH. discriminate. Qed.

Lemma resolve_global_below s n y : Inv s -> st_resolve n s = Some y -> sscp y = GlobalScope -> sidx y < rootcount s.
Proof.
  intros HI HR HS. pose proof (resolve_innermost s n) as RI. rewrite HR in RI. destruct RI as (d & L & _).
  pose proof (chain_global_below _ HI d n y L HS) as X. unfold rootcount.
  destruct (outers s) as [|o r] eqn:E; [cbn [last] in *; exact X|].
  change (last (cur s :: o :: r) _) with (last (o :: r) {| store := []; index := 0; nmax := 0 |}) in X.
  rewrite (last_irrel (o :: r) (cur s) {| store := []; index := 0; nmax := 0 |}) by discriminate. exact X.
Qed.

Lemma resolve_in_range s n y ls gs : Inv s -> st_resolve n s = Some y ->
  rootcount s <= N.of_nat (List.length gs) -> bound s <= N.of_nat (List.length ls) -> in_range y ls gs.
Proof.
  intros HI HR HG HL. unfold in_range. destruct (sscp y) eqn:E.
  - pose proof (resolve_global_below s n y HI HR E). lia.
  - pose proof (resolve_local_below s n y HI HR E). lia.
Qed.

(* ---------- the machine state ---------- *)
Definition MS (G L : nat) (st : cstate) (env : senv) (base : list value) (vs : vmstate) : Prop :=
  ostack vs = base /\ List.length (locals vs) = L /\ List.length (globals vs) = G /\
  RELs env (stores (csym st)) (locals vs) (globals vs).
(* while a break is under way the innermost frame may lack declarations the
   table already has (the rest of the block was compiled but not executed) *)
Definition MSb (br : bool) (G L : nat) (st : cstate) (env : senv) (base : list value) (vs : vmstate) : Prop :=
  ostack vs = base /\ List.length (locals vs) = L /\ List.length (globals vs) = G /\
  if br then RELs (tl env) (tl (stores (csym st))) (locals vs) (globals vs)
  else RELs env (stores (csym st)) (locals vs) (globals vs).

Lemma ms_msb G L st env base vs br : MS G L st env base vs -> MSb br G L st env base vs.
Proof. intros (A & B & C & D). repeat split; auto. destruct br; [apply rels_tl|]; exact D. Qed.

(* an expression, from any stack *)
Lemma expr_runs_l G L e st st1 seg_e env v base p vs pre post :
  efrag e = true -> compile_expr true e st = COk st1 -> ccode st1 = ccode st ++ seg_e ->
  eval_expr (fun x => slook x env) e = Some v ->
  pcode p = pre ++ seg_e ++ post -> consts_of p st1 -> ip vs = N.of_nat (List.length pre) ->
  MS G L st env base vs -> N.of_nat L + N.of_nat (List.length base) + edepth e <= StackSize ->
  reaches p vs {| ip := ip vs + N.of_nat (List.length seg_e); ostack := v :: base; locals := locals vs; globals := globals vs |}.
Proof.
  intros HF HC HSeg HE HP (more & HK) HI (M1 & M2 & M3 & M4) HD.
  destruct (compile_expr_correct_v e HF _ st st1 v HC HE) as (_ & seg & newc & B & _ & D).
  assert (seg = seg_e) by (rewrite HSeg in B; apply app_inv_head in B; congruence). subst seg.
  destruct (D p vs more pre post HP HK HI (rels_vars_hold _ _ _ _ M4)) as (n & R).
  - rewrite M1, M2. lia.
  - exists n. rewrite R, M1. reflexivity.
Qed.

(* the store of a variable, global or local *)
Lemma step_setvar p vs pre post sg y v rest :
  jbytes (setop y) (sidx y) sg -> pcode p = pre ++ sg ++ post -> ip vs = N.of_nat (List.length pre) ->
  ostack vs = v :: rest -> in_range y (locals vs) (globals vs) ->
  vm_step p vs = Running {| ip := ip vs + 3; ostack := rest;
                            locals := fst (put y v (locals vs) (globals vs)); globals := snd (put y v (locals vs) (globals vs)) |}.
Proof.
  intros (hi & lo & -> & E) HC HI HS HR.
  assert (HO : has_operand (setop y) = true) by (unfold setop; destruct (sscp y); reflexivity).
  rewrite (fetch_arg p vs (setop y) hi lo pre post HC HI HO). rewrite E.
  unfold setop, put, in_range in *. destruct (sscp y).
  - rewrite (exec_setglobal p vs _ _ v rest HS HR). reflexivity.
  - unfold exec. cbn [simple_effect]. change (N.to_nat 1) with 1%nat. rewrite HS. cbn [List.length Nat.ltb Nat.leb firstn skipn hd].
    unfold set_nth_opt. destruct (N.to_nat (sidx y) <? List.length (locals vs))%nat eqn:EL; [reflexivity|apply Nat.ltb_ge in EL; lia].
Qed.

Lemma stores_tl s : tl (stores s) = map store (outers s).
Proof. reflexivity. Qed.

Lemma block_stores s s3 : outers s3 = cur s :: outers s -> stores (st_pop s3) = stores s.
Proof. intro H. unfold st_pop, stores. rewrite H. reflexivity. Qed.

Lemma rootcount_pop s : outers s <> [] -> rootcount (st_pop s) = rootcount s.
Proof.
  unfold rootcount, st_pop. destruct (outers s) as [|o r]; [congruence|]. intros _. cbn [cur outers].
  destruct r as [|o2 r2]; [reflexivity|]. apply (f_equal index).
  change (last (o :: o2 :: r2) (cur s)) with (last (o2 :: r2) (cur s)). apply last_irrel. discriminate.
Qed.

Lemma bound_pop s : bound s <= bound (st_pop s).
Proof. apply (bound_step SPop s). Qed.
Lemma bound_push s : bound s <= bound (st_push s).
Proof. apply (bound_step SPush s). Qed.

Definition SIMs (fuel : nat) (T : N) (s : stmt) (st st' : cstate) (seg : list N) : Prop :=
  forall G L env env' br base, lx_s fuel s env = Some (env', br) -> forall p vs pre post,
    pcode p = pre ++ seg ++ post -> List.length pre = List.length (ccode st) -> consts_of p st' ->
    ip vs = N.of_nat (List.length pre) -> MS G L st env base vs -> Inv (csym st) ->
    rootcount (csym st') <= N.of_nat G -> bound (csym st') <= N.of_nat L ->
    N.of_nat L + N.of_nat (List.length base) + sdepth s <= StackSize ->
    exists vs', reaches p vs vs' /\ ip vs' = (if br then T else ip vs + N.of_nat (List.length seg)) /\ MSb br G L st' env' base vs'.

Definition SIMl (fuel : nat) (T : N) (l : slist) (st st' : cstate) (seg : list N) : Prop :=
  forall G L env env' br base, lx_l fuel l env = Some (env', br) -> forall p vs pre post,
    pcode p = pre ++ seg ++ post -> List.length pre = List.length (ccode st) -> consts_of p st' ->
    ip vs = N.of_nat (List.length pre) -> MS G L st env base vs -> Inv (csym st) ->
    rootcount (csym st') <= N.of_nat G -> bound (csym st') <= N.of_nat L ->
    N.of_nat L + N.of_nat (List.length base) + ldepth l <= StackSize ->
    exists vs', reaches p vs vs' /\ ip vs' = (if br then T else ip vs + N.of_nat (List.length seg)) /\ MSb br G L st' env' base vs'.

Definition SIMc (fuel : nat) (T : N) (l : clist) (els : oslist) (st st' : cstate) (End : N) (seg : list N) : Prop :=
  forall G L env env' br base, lx_c fuel l els env = Some (env', br) -> forall p vs pre post,
    pcode p = pre ++ seg ++ post -> List.length pre = List.length (ccode st) -> consts_of p st' ->
    ip vs = N.of_nat (List.length pre) -> MS G L st env base vs -> Inv (csym st) ->
    rootcount (csym st') <= N.of_nat G -> bound (csym st') <= N.of_nat L ->
    N.of_nat L + N.of_nat (List.length base) + cdepth l <= StackSize ->
    N.of_nat L + N.of_nat (List.length base) + odepth els <= StackSize ->
    exists vs', reaches p vs vs' /\ ip vs' = (if br then T else End) /\ MSb br G L st' env' base vs'.

Definition lvname (lvi : lvsym) : option str := option_map fst lvi.

Definition SIMr (fuel : nat) (lvi : lvsym) (b : slist) (s3 st' : cstate) (seg : list N) : Prop :=
  forall G L env env' br idx stp stop base, lx_r fuel (lvname lvi) idx stp stop b env = Some (env', br) -> forall p vs pre post,
    pcode p = pre ++ seg ++ post -> List.length pre = List.length (ccode s3) -> consts_of p st' ->
    ip vs = N.of_nat (List.length pre) -> PrimFloat.eqb stp 0 = false ->
    MS G L s3 env (VNum idx :: VNum stp :: VNum stop :: base) vs -> Inv (csym s3) ->
    rootcount (csym st') <= N.of_nat G -> bound (csym st') <= N.of_nat L ->
    N.of_nat L + N.of_nat (List.length base) + 5 <= StackSize -> N.of_nat L + N.of_nat (List.length base) + 3 + ldepth b <= StackSize ->
    exists vs', reaches p vs vs' /\ ip vs' = ip vs + N.of_nat (List.length seg) /\ br = false /\ MS G L st' env' base vs'.

Definition SIMi (fuel : nat) (lvi : lvsym) (b : slist) (s3 st' : cstate) (seg : list N) : Prop :=
  forall G L env env' br idx iter base, lx_i fuel (lvname lvi) idx iter b env = Some (env', br) -> forall p vs pre post,
    pcode p = pre ++ seg ++ post -> List.length pre = List.length (ccode s3) -> consts_of p st' ->
    ip vs = N.of_nat (List.length pre) ->
    MS G L s3 env (VNum idx :: iter :: base) vs -> Inv (csym s3) ->
    rootcount (csym st') <= N.of_nat G -> bound (csym st') <= N.of_nat L ->
    N.of_nat L + N.of_nat (List.length base) + 4 <= StackSize -> N.of_nat L + N.of_nat (List.length base) + 2 + ldepth b <= StackSize ->
    exists vs', reaches p vs vs' /\ ip vs' = ip vs + N.of_nat (List.length seg) /\ br = false /\ MS G L st' env' base vs'.

Definition ALLs f := forall T s st st' bs seg, LY (Some T) s st st' bs seg -> SIMs f T s st st' seg.
Definition ALLl f := forall T l st st' bs seg, LYL (Some T) l st st' bs seg -> SIMl f T l st st' seg.
Definition ALLc f := forall T l els st st' End js bs seg, LYC (Some T) true l els st st' End js bs seg -> SIMc f T l els st st' End seg.
Definition ALLr f := forall lvi b s3 st' seg, LYR lvi b s3 st' 3 StepRange seg -> SIMr f lvi b s3 st' seg.
Definition ALLi f := forall lvi b s3 st' seg, LYR lvi b s3 st' 2 IterRange seg -> SIMi f lvi b s3 st' seg.

(* ---------- a block: the frame pushed before, popped after ---------- *)
(* the body of a block compiled from stx (= the pushed state) to stb, run from
   [] :: env; the result is stated for the popped state *)
Lemma sim_block f T b stx stb bs seg_b (s0 : symtab) :
  ALLl f -> LYL (Some T) b stx stb bs seg_b -> csym stx = st_push s0 ->
  forall G L env env1 br base, leave (lx_l f b ([] :: env)) = Some (env1, br) -> forall p vs pre post,
    pcode p = pre ++ seg_b ++ post -> List.length pre = List.length (ccode stx) -> consts_of p stb ->
    ip vs = N.of_nat (List.length pre) ->
    ostack vs = base -> List.length (locals vs) = L -> List.length (globals vs) = G ->
    RELs env (stores s0) (locals vs) (globals vs) -> Inv s0 ->
    rootcount (st_pop (csym stb)) <= N.of_nat G -> bound (st_pop (csym stb)) <= N.of_nat L ->
    N.of_nat L + N.of_nat (List.length base) + ldepth b <= StackSize ->
    exists vs', reaches p vs vs' /\ ip vs' = (if br then T else ip vs + N.of_nat (List.length seg_b)) /\
      ostack vs' = base /\ List.length (locals vs') = L /\ List.length (globals vs') = G /\
      RELs env1 (stores s0) (locals vs') (globals vs') /\ stores (st_pop (csym stb)) = stores s0.
Proof.
  intros IHl HL HS G L env env1 br base HX p vs pre post HP HLen HK HI HO HLl HLg HR HInv HG HB HD.
  unfold leave in HX. destruct (lx_l f b ([] :: env)) as [[env1' br']|] eqn:HXb; [|discriminate]. inversion HX; subst env1 br'.
  destruct (proj1 (proj2 ly_frame) _ _ _ _ _ _ HL) as [_ SYb].
  pose proof (sy_out _ _ SYb) as HOut. rewrite HS in HOut. cbn [st_push outers] in HOut.
  assert (HNE : outers (csym stb) <> []) by (rewrite HOut; discriminate).
  assert (HM : MS G L stx ([] :: env) base vs).
  { repeat split; auto. rewrite HS, stores_push. apply rels_push. exact HR. }
  destruct (IHl _ _ _ _ _ _ HL G L ([] :: env) env1' br base HXb p vs pre post HP HLen HK HI HM) as (vs' & R & I & (A1 & A2 & A3 & A4)).
  { rewrite HS. apply inv_push. exact HInv. }
  { rewrite <- (rootcount_pop _ HNE). exact HG. }
  { pose proof (bound_pop (csym stb)). lia. }
  { exact HD. }
  exists vs'. split; [exact R|]. split; [exact I|]. split; [exact A1|]. split; [exact A2|]. split; [exact A3|].
  pose proof (block_stores s0 (csym stb) HOut) as ES. split; [|exact ES].
  assert (ET : tl (stores (csym stb)) = stores s0) by (rewrite <- ES, (stores_pop _ HNE); reflexivity).
  rewrite <- ET. destruct br; [exact A4|apply rels_tl; exact A4].
Qed.

(* ---------- the simple statements ---------- *)
Lemma sim_decl f T n e st st' bs seg : LY (Some T) (SDecl n e) st st' bs seg -> SIMs (S f) T (SDecl n e) st st' seg.
Proof.
  intro HL. inversion HL as [? ? ? ? st1 ? seg_e sg HF HC HS HJ HKc HSy| | | | | | | | ]; subst.
  intros G L env env' br base HX p vs pre post HP HLen HK HI HM HInv HG HB HD.
  cbn [lx_s] in HX. destruct (eval_expr (fun x => slook x env) e) as [v|] eqn:HE; [|discriminate]. inversion HX; subst env' br.
  cbn [sdepth] in HD.
  assert (HK1 : consts_of p st1) by (destruct HK as (more & HK); exists more; rewrite HK, HKc; reflexivity).
  pose proof (expr_runs_l G L e st st1 seg_e env v base p vs pre (sg ++ post) HF HC HS HE
                ltac:(rewrite HP, <- !app_assoc; reflexivity) HK1 HI HM HD) as R1.
  set (vs1 := {| ip := ip vs + N.of_nat (List.length seg_e); ostack := v :: base; locals := locals vs; globals := globals vs |}) in *.
  destruct HM as (M1 & M2 & M3 & M4).
  set (y := snd (st_define n (csym st))) in *. set (s' := fst (st_define n (csym st))) in *.
  assert (HR : in_range y (locals vs) (globals vs)).
  { apply (resolve_in_range s' n y); [apply inv_define; exact HInv|apply define_then_resolve|rewrite M3, <- HSy; exact HG|rewrite M2, <- HSy; exact HB]. }
  pose proof (step_setvar p vs1 (pre ++ seg_e) post sg y v base HJ
                ltac:(rewrite HP, <- !app_assoc; reflexivity)
                ltac:(unfold vs1; simpl; rewrite HI, app_length; lia) eq_refl HR) as R2.
  eexists. split; [eapply reaches_trans; [exact R1|apply reaches_step; exact R2]|]. split.
  - simpl. rewrite app_length. pose proof (jbytes_len _ _ _ HJ). lia.
  - destruct (put_lengths y v (locals vs) (globals vs)) as [PL PG].
    unfold MSb. cbn [ostack locals globals]. split; [reflexivity|]. split; [unfold vs1; cbn [locals globals]; congruence|].
    split; [unfold vs1; cbn [locals globals]; congruence|]. rewrite HSy. apply rels_declare; assumption.
Qed.

Lemma sim_assign f T n e st st' bs seg : LY (Some T) (SAssign (EVar n) e) st st' bs seg -> SIMs (S f) T (SAssign (EVar n) e) st st' seg.
Proof.
  intro HL. inversion HL as [|? ? ? ? st1 ? y seg_e sg HF HC HS HRy HJ HKc HSy| | | | | | | ]; subst.
  intros G L env env' br base HX p vs pre post HP HLen HK HI HM HInv HG HB HD.
  cbn [lx_s] in HX. destruct (eval_expr (fun x => slook x env) e) as [v|] eqn:HE; [|discriminate].
  destruct (sassign n v env) as [env1|] eqn:HA; [|discriminate]. inversion HX; subst env' br.
  cbn [sdepth] in HD.
  assert (HK1 : consts_of p st1) by (destruct HK as (more & HK); exists more; rewrite HK, HKc; reflexivity).
  pose proof (expr_runs_l G L e st st1 seg_e env v base p vs pre (sg ++ post) HF HC HS HE
                ltac:(rewrite HP, <- !app_assoc; reflexivity) HK1 HI HM HD) as R1.
  set (vs1 := {| ip := ip vs + N.of_nat (List.length seg_e); ostack := v :: base; locals := locals vs; globals := globals vs |}) in *.
  destruct HM as (M1 & M2 & M3 & M4).
  assert (HR : in_range y (locals vs) (globals vs)).
  { apply (resolve_in_range (csym st) n y _ _ HInv HRy); [rewrite M3, <- HSy; exact HG|rewrite M2, <- HSy; exact HB]. }
  pose proof (step_setvar p vs1 (pre ++ seg_e) post sg y v base HJ
                ltac:(rewrite HP, <- !app_assoc; reflexivity)
                ltac:(unfold vs1; simpl; rewrite HI, app_length; lia) eq_refl HR) as R2.
  eexists. split; [eapply reaches_trans; [exact R1|apply reaches_step; exact R2]|]. split.
  - simpl. rewrite app_length. pose proof (jbytes_len _ _ _ HJ). lia.
  - destruct (put_lengths y v (locals vs) (globals vs)) as [PL PG].
    unfold MSb. cbn [ostack locals globals]. split; [reflexivity|]. split; [unfold vs1; cbn [locals globals]; congruence|].
    split; [unfold vs1; cbn [locals globals]; congruence|]. rewrite HSy.
    apply (rels_assign env (stores (csym st)) _ _ M4 n y v env1); [rewrite <- resolve_sres; exact HRy|exact HA|apply inv_sepl; assumption|exact HR].
Qed.

Lemma sim_empty f T st st' bs seg : LY (Some T) SEmpty st st' bs seg -> SIMs (S f) T SEmpty st st' seg.
Proof.
  intro HL. inversion HL; subst. intros G L env env' br base HX p vs pre post HP HLen HK HI HM HInv HG HB HD.
  cbn [lx_s] in HX. inversion HX; subst. exists vs. split; [apply reaches_refl|]. split; [simpl; lia|apply ms_msb; exact HM].
Qed.

Lemma sim_break f T st st' bs seg : LY (Some T) SBreak st st' bs seg -> SIMs (S f) T SBreak st st' seg.
Proof.
  intro HL. inversion HL as [| | |? ? ? jb HBs HKc HSy| | | | | ]; subst.
  intros G L env env' br base HX p vs pre post HP HLen HK HI HM HInv HG HB HD.
  cbn [lx_s] in HX. inversion HX; subst env' br. cbn [bshape] in HBs.
  pose proof (step_jump p vs pre post seg T HBs HP HI) as R.
  eexists. split; [apply reaches_step; exact R|]. split; [reflexivity|].
  apply ms_msb. destruct HM as (M1 & M2 & M3 & M4). repeat split; auto. cbn [locals globals]. rewrite HSy. exact M4.
Qed.

(* ---------- sequences ---------- *)
Lemma sim_list f : ALLs f -> ALLl f -> ALLl (S f).
Proof.
  intros IHs IHl T l st st' bs seg HL.
  inversion HL as [|? s t ? st1 ? bs1 bs2 seg1 seg2 H H0 H1]; subst; intros G L env env' br base HX p vs pre post HP HLen HK HI HM HInv HG HB HD.
  - cbn [lx_l] in HX. inversion HX; subst. exists vs. split; [apply reaches_refl|]. split; [simpl; lia|apply ms_msb; exact HM].
  - cbn [lx_l] in HX. cbn [ldepth] in HD.
    destruct (lx_s f s env) as [[env1 br1]|] eqn:HX1; [|discriminate].
    destruct (proj1 ly_frame _ _ _ _ _ _ H) as [(n1 & K1) S1]. destruct (proj1 (proj2 ly_frame) _ _ _ _ _ _ H1) as [(n2 & K2) S2].
    assert (HK1 : consts_of p st1) by (apply (consts_of_prefix p st1 st' n2 K2 HK)).
    destruct (IHs _ _ _ _ _ _ H G L env env1 br1 base HX1 p vs pre (seg2 ++ post)) as (vs1 & R1 & I1 & HM1); auto.
    { rewrite HP, <- !app_assoc. reflexivity. }
    { pose proof (sy_gc _ _ S2). lia. }
    { pose proof (sy_bound _ _ S2). lia. }
    { lia. }
    destruct br1.
    + inversion HX; subst env' br. exists vs1. split; [exact R1|]. split; [exact I1|].
      destruct HM1 as (A1 & A2 & A3 & A4). repeat split; auto.
      rewrite stores_tl in A4 |- *. rewrite (sy_out _ _ S2). exact A4.
    + destruct (IHl _ _ _ _ _ _ H1 G L env1 env' br base HX p vs1 (pre ++ seg1) post) as (vs2 & R2 & I2 & HM2); auto.
      { rewrite HP, <- !app_assoc. reflexivity. }
      { rewrite app_length. apply Nat2N.inj. rewrite H0, Nat2N.inj_add, HLen. reflexivity. }
      { rewrite I1, HI, app_length. lia. }
      { apply (sy_inv _ _ S1). exact HInv. }
      { lia. }
      exists vs2. split; [eapply reaches_trans; eauto|]. split; [rewrite I2, I1, app_length; destruct br; [reflexivity|lia]|exact HM2].
Qed.

(* ---------- while ---------- *)
Lemma sim_while f c b : ALLs f -> ALLl f ->
  forall T st st' bs seg, LY (Some T) (SWhile c b) st st' bs seg -> SIMs (S f) T (SWhile c b) st st' seg.
Proof.
  intros IHs IHl T st st' bs seg HL.
  inversion HL as [| | | |? ? ? ? st1 stx stb ? bs_b seg_c seg_b jf jb HF HC HS HKx HSx HLx HLb HJf HJb HKc HSy| | | | ]; subst.
  intros G L env env' br base HX p vs pre post HP HLen HK HI HM HInv HG HB HD.
  cbn [lx_s] in HX. cbn [sdepth] in HD.
  destruct (proj1 (proj2 ly_frame) _ _ _ _ _ _ HLb) as [(nb & Kb) Sb].
  destruct (efrag_consts c st st1 HF HC) as [(nc & K1) S1].
  assert (HKb : consts_of p stb) by (destruct HK as (more & HK); exists more; rewrite HK, HKc; reflexivity).
  assert (HK1 : consts_of p st1).
  { apply (consts_of_prefix p st1 stb nb); [rewrite Kb, HKx; reflexivity|exact HKb]. }
  pose proof (jbytes_len _ _ _ HJf) as Ljf. pose proof (jbytes_len _ _ _ HJb) as Ljb.
  destruct (eval_expr (fun x => slook x env) c) as [[| [] | | | | |]|] eqn:HE; try discriminate.
  - (* true: one more round *)
    destruct (leave (lx_l f b ([] :: env))) as [[env1 brb]|] eqn:HXb; [|discriminate].
    pose proof (expr_runs_l G L c st st1 seg_c env (VBool true) base p vs pre (jf ++ seg_b ++ jb ++ post) HF HC HS HE
                  ltac:(rewrite HP, <- !app_assoc; reflexivity) HK1 HI HM ltac:(lia)) as R1.
    set (vs1 := {| ip := ip vs + N.of_nat (List.length seg_c); ostack := VBool true :: base; locals := locals vs; globals := globals vs |}) in *.
    pose proof (step_jof p vs1 (pre ++ seg_c) (seg_b ++ jb ++ post) jf _ true base HJf
                  ltac:(rewrite HP, <- !app_assoc; reflexivity)
                  ltac:(unfold vs1; simpl; rewrite HI, app_length; lia) eq_refl) as R2.
    set (vs2 := {| ip := ip vs1 + 3; ostack := base; locals := locals vs1; globals := globals vs1 |}) in *.
    destruct HM as (M1 & M2 & M3 & M4).
    destruct (sim_block f _ b stx stb bs_b seg_b (csym st) IHl HLb HSx G L env env1 brb base HXb p vs2 (pre ++ seg_c ++ jf) (jb ++ post))
      as (vs3 & R3 & I3 & O3 & L3 & G3 & REL3 & ES3); auto.
    { rewrite HP, <- !app_assoc. reflexivity. }
    { rewrite !app_length, Ljf. apply Nat2N.inj. rewrite HLx, HS, app_length, !Nat2N.inj_add, HLen. simpl. lia. }
    { unfold vs2, vs1; simpl. rewrite HI, !app_length, Ljf. lia. }
    { rewrite <- HSy. exact HG. }
    { rewrite <- HSy. exact HB. }
    { lia. }
    destruct brb.
    + (* the body broke out: the machine is at the end of the loop *)
      inversion HX; subst env' br.
      exists vs3. split; [|split].
      * eapply reaches_trans; [exact R1|]. eapply reaches_trans; [apply reaches_step; exact R2|exact R3].
      * rewrite I3, HI, HLen. reflexivity.
      * repeat split; auto. rewrite HSy, ES3. exact REL3.
    + pose proof (step_jump p vs3 (pre ++ seg_c ++ jf ++ seg_b) post jb _ HJb
                    ltac:(rewrite HP, <- !app_assoc; reflexivity)
                    ltac:(rewrite I3; unfold vs2, vs1; simpl; rewrite HI, !app_length, Ljf; lia)) as R4.
      set (vs4 := {| ip := N.of_nat (List.length (ccode st)); ostack := ostack vs3; locals := locals vs3; globals := globals vs3 |}) in *.
      assert (HM4 : MS G L st env1 base vs4) by (unfold vs4; repeat split; auto).
      destruct (IHs _ _ _ _ _ _ HL G L env1 env' br base HX p vs4 pre post HP HLen HK) as (vs5 & R5 & I5 & HM5); auto.
      { unfold vs4; simpl. rewrite HLen. reflexivity. }
      exists vs5. split; [|split; [|exact HM5]].
      * eapply reaches_trans; [exact R1|]. eapply reaches_trans; [apply reaches_step; exact R2|].
        eapply reaches_trans; [exact R3|]. eapply reaches_trans; [apply reaches_step; exact R4|exact R5].
      * rewrite I5. unfold vs4; simpl. rewrite HI, HLen. reflexivity.
  - (* false: leave the loop *)
    inversion HX; subst env' br.
    pose proof (expr_runs_l G L c st st1 seg_c env (VBool false) base p vs pre (jf ++ seg_b ++ jb ++ post) HF HC HS HE
                  ltac:(rewrite HP, <- !app_assoc; reflexivity) HK1 HI HM ltac:(lia)) as R1.
    set (vs1 := {| ip := ip vs + N.of_nat (List.length seg_c); ostack := VBool false :: base; locals := locals vs; globals := globals vs |}) in *.
    pose proof (step_jof p vs1 (pre ++ seg_c) (seg_b ++ jb ++ post) jf _ false base HJf
                  ltac:(rewrite HP, <- !app_assoc; reflexivity)
                  ltac:(unfold vs1; simpl; rewrite HI, app_length; lia) eq_refl) as R2.
    eexists. split; [eapply reaches_trans; [exact R1|apply reaches_step; exact R2]|].
    destruct HM as (M1 & M2 & M3 & M4). split; [simpl; rewrite HI, HLen; reflexivity|].
    unfold MSb, vs1; simpl. repeat split; auto.
    destruct (proj1 (proj2 ly_frame) _ _ _ _ _ _ HLb) as [_ SYb]. pose proof (sy_out _ _ SYb) as HOut. rewrite HSx in HOut. cbn [st_push outers] in HOut.
    rewrite HSy, (block_stores (csym st) (csym stb) HOut). exact M4.
Qed.

(* ---------- if / else-if / else ---------- *)
Lemma lyc_stores :
  (forall brk s st st' bs seg, LY brk s st st' bs seg -> True) /\
  (forall brk l st st' bs seg, LYL brk l st st' bs seg -> True) /\
  (forall brk fin l els st st' End js bs seg, LYC brk fin l els st st' End js bs seg -> stores (csym st') = stores (csym st)) /\
  (forall lvi b s3 st' S rop seg, LYR lvi b s3 st' S rop seg -> True).
Proof.
  apply LY_mutind; intros; auto.
  - destruct (proj1 (proj2 ly_frame) _ _ _ _ _ _ l) as [_ SYb]. pose proof (sy_out _ _ SYb) as HOut. rewrite e0 in HOut.
    rewrite e4. apply block_stores. exact HOut.
  - destruct (proj1 (proj2 ly_frame) _ _ _ _ _ _ l) as [_ SYb]. pose proof (sy_out _ _ SYb) as HOut. rewrite e3 in HOut.
    rewrite H0, e6. apply block_stores. exact HOut.
Qed.

Lemma sim_chain f : ALLl f -> ALLc f -> ALLc (S f).
Proof.
  intros IHl IHc T l els st st' End js bs seg HL.
  inversion HL as [? ? ? ? HE0|? ? eb ? sty ste ? ? bs_e seg_e HKy HSy HLy HLe HE0 HKc HSc
                  |? ? c b t ? ? st1 stx stb sty ? ? js0 bs_b bs_r seg_c seg_b jf je seg_r HF HC HS HKx HSx HLx HLb HJf HJe HKy HSy HLy HT]; subst;
    intros G L env env' br base HX p vs pre post HP HLen HK HI HM HInv HG HB HD HDo.
  - (* no more conditions, no else *)
    cbn [lx_c] in HX. inversion HX; subst. exists vs. split; [apply reaches_refl|]. split; [rewrite HI, HLen; reflexivity|apply ms_msb; exact HM].
  - (* the else block *)
    cbn [lx_c] in HX. unfold odepth in HDo. destruct HM as (M1 & M2 & M3 & M4).
    destruct (sim_block f _ eb sty ste bs seg (csym st) IHl HLe HSy G L env env' br base HX p vs pre post)
      as (vs3 & R3 & I3 & O3 & L3 & G3 & REL3 & ES3); auto.
    { congruence. }
    { destruct HK as (more & HK); exists more; rewrite HK, HKc; reflexivity. }
    { rewrite <- HSc. exact HG. }
    { rewrite <- HSc. exact HB. }
    exists vs3. split; [exact R3|]. split; [rewrite I3, HI, HLen; destruct br; reflexivity|].
    repeat split; auto. rewrite HSc, ES3. destruct br; [apply rels_tl|]; exact REL3.
  - (* a condition *)
    cbn [lx_c] in HX. cbn [cdepth] in HD. cbn [jshape] in HJe.
    destruct (proj1 (proj2 ly_frame) _ _ _ _ _ _ HLb) as [(nb & Kb) Sb].
    destruct (proj1 (proj2 (proj2 ly_frame)) _ _ _ _ _ _ _ _ _ _ HT) as [(nr & Kr) Sr].
    destruct (efrag_consts c st st1 HF HC) as [(nc & K1) S1].
    assert (HKb : consts_of p stb).
    { apply (consts_of_prefix p stb st' nr); [rewrite Kr, HKy; reflexivity|exact HK]. }
    assert (HK1 : consts_of p st1).
    { apply (consts_of_prefix p st1 stb nb); [rewrite Kb, HKx; reflexivity|exact HKb]. }
    pose proof (jbytes_len _ _ _ HJf) as Ljf. pose proof (jbytes_len _ _ _ HJe) as Lje.
    pose proof (lyl_len _ _ _ _ _ _ HLb) as LLb.
    pose proof (sy_out _ _ Sb) as HOut. rewrite HSx in HOut. cbn [st_push outers] in HOut.
    pose proof (block_stores (csym st) (csym stb) HOut) as ESb.
    pose proof (proj1 (proj2 (proj2 lyc_stores)) _ _ _ _ _ _ _ _ _ _ HT) as EST.
    assert (ESall : stores (csym st') = stores (csym st)) by (rewrite EST, HSy, ESb; reflexivity).
    destruct (eval_expr (fun x => slook x env) c) as [[| [] | | | | |]|] eqn:HE; try discriminate.
    + pose proof (expr_runs_l G L c st st1 seg_c env (VBool true) base p vs pre (jf ++ seg_b ++ je ++ seg_r ++ post) HF HC HS HE
                    ltac:(rewrite HP, <- !app_assoc; reflexivity) HK1 HI HM ltac:(lia)) as R1.
      set (vs1 := {| ip := ip vs + N.of_nat (List.length seg_c); ostack := VBool true :: base; locals := locals vs; globals := globals vs |}) in *.
      pose proof (step_jof p vs1 (pre ++ seg_c) (seg_b ++ je ++ seg_r ++ post) jf _ true base HJf
                    ltac:(rewrite HP, <- !app_assoc; reflexivity)
                    ltac:(unfold vs1; simpl; rewrite HI, app_length; lia) eq_refl) as R2.
      set (vs2 := {| ip := ip vs1 + 3; ostack := base; locals := locals vs1; globals := globals vs1 |}) in *.
      destruct HM as (M1 & M2 & M3 & M4).
      destruct (sim_block f _ b stx stb bs_b seg_b (csym st) IHl HLb HSx G L env env' br base HX p vs2 (pre ++ seg_c ++ jf) (je ++ seg_r ++ post))
        as (vs3 & R3 & I3 & O3 & L3 & G3 & REL3 & ES3); auto.
      { rewrite HP, <- !app_assoc. reflexivity. }
      { rewrite !app_length, Ljf. apply Nat2N.inj. rewrite HLx, HS, app_length, !Nat2N.inj_add, HLen. simpl. lia. }
      { unfold vs2, vs1; simpl. rewrite HI, !app_length, Ljf. lia. }
      { rewrite <- HSy. pose proof (sy_gc _ _ Sr). lia. }
      { rewrite <- HSy. pose proof (sy_bound _ _ Sr). lia. }
      { lia. }
      destruct br.
      * exists vs3. split; [|split].
        -- eapply reaches_trans; [exact R1|]. eapply reaches_trans; [apply reaches_step; exact R2|exact R3].
        -- exact I3.
        -- repeat split; auto. rewrite ESall. apply rels_tl. exact REL3.
      * pose proof (step_jump p vs3 (pre ++ seg_c ++ jf ++ seg_b) (seg_r ++ post) je _ HJe
                      ltac:(rewrite HP, <- !app_assoc; reflexivity)
                      ltac:(rewrite I3; unfold vs2, vs1; simpl; rewrite HI, !app_length, Ljf; lia)) as R4.
        eexists. split; [|split].
        -- eapply reaches_trans; [exact R1|]. eapply reaches_trans; [apply reaches_step; exact R2|].
           eapply reaches_trans; [exact R3|apply reaches_step; exact R4].
        -- reflexivity.
        -- unfold MSb; cbn [ostack locals globals]. repeat split; auto. rewrite ESall. exact REL3.
    + pose proof (expr_runs_l G L c st st1 seg_c env (VBool false) base p vs pre (jf ++ seg_b ++ je ++ seg_r ++ post) HF HC HS HE
                    ltac:(rewrite HP, <- !app_assoc; reflexivity) HK1 HI HM ltac:(lia)) as R1.
      set (vs1 := {| ip := ip vs + N.of_nat (List.length seg_c); ostack := VBool false :: base; locals := locals vs; globals := globals vs |}) in *.
      pose proof (step_jof p vs1 (pre ++ seg_c) (seg_b ++ je ++ seg_r ++ post) jf _ false base HJf
                    ltac:(rewrite HP, <- !app_assoc; reflexivity)
                    ltac:(unfold vs1; simpl; rewrite HI, app_length; lia) eq_refl) as R2.
      set (vs2 := {| ip := N.of_nat (List.length (ccode st)) + N.of_nat (List.length (seg_c ++ jf ++ seg_b ++ je));
                     ostack := base; locals := locals vs1; globals := globals vs1 |}) in *.
      destruct HM as (M1 & M2 & M3 & M4).
      assert (HM2 : MS G L sty env base vs2).
      { unfold vs2, vs1; repeat split; auto. cbn [locals globals]. rewrite HSy, ESb. exact M4. }
      destruct (IHc _ _ _ _ _ _ _ _ _ HT G L env env' br base HX p vs2 (pre ++ seg_c ++ jf ++ seg_b ++ je) post) as (vs3 & R3 & I3 & HM3); auto.
      { rewrite HP, <- !app_assoc. reflexivity. }
      { assert (X : N.of_nat (List.length (ccode st1)) = N.of_nat (List.length (ccode st)) + N.of_nat (List.length seg_c)) by (rewrite HS, app_length; lia).
        apply Nat2N.inj. rewrite !app_length, Ljf, Lje. lia. }
      { unfold vs2; simpl. rewrite !app_length, HLen. lia. }
      { rewrite HSy. apply inv_pop. apply (sy_inv _ _ Sb). rewrite HSx. apply inv_push. exact HInv. }
      { lia. }
      exists vs3. split; [|split; [exact I3|exact HM3]].
      eapply reaches_trans; [exact R1|]. eapply reaches_trans; [apply reaches_step; exact R2|exact R3].
Qed.

Lemma sim_if f c b elifs els : ALLc f ->
  forall T st st' bs seg, LY (Some T) (SIf c b elifs els) st st' bs seg -> SIMs (S f) T (SIf c b elifs els) st st' seg.
Proof.
  intros IHc T st st' bs seg HL.
  inversion HL as [| | | | | | |? ? ? ? ? ? ste ? js ? ? HCh HKc HSy| ]; subst.
  intros G L env env' br base HX p vs pre post HP HLen HK HI HM HInv HG HB HD.
  cbn [lx_s] in HX. cbn [sdepth] in HD.
  destruct (IHc _ _ _ _ _ _ _ _ _ HCh G L env env' br base HX p vs pre post HP HLen) as (vs' & R & I & HM'); auto.
  { destruct HK as (more & HK); exists more; rewrite HK, HKc; reflexivity. }
  { rewrite <- HSy. exact HG. }
  { rewrite <- HSy. exact HB. }
  { cbn [cdepth]. lia. }
  { unfold odepth. lia. }
  exists vs'. split; [exact R|]. split; [rewrite I, HI, HLen; reflexivity|].
  destruct HM' as (A1 & A2 & A3 & A4). repeat split; auto. rewrite HSy. exact A4.
Qed.

(* ---------- range loops ---------- *)
(* the exit of a range loop: OpDrop S removes the range state *)
Lemma step_dropS p vs pre post S (rs : list value) base :
  S < 256 -> N.to_nat S = List.length rs ->
  pcode p = pre ++ [N_of_opc Drop; 0; S] ++ post -> ip vs = N.of_nat (List.length pre) ->
  ostack vs = rs ++ base ->
  vm_step p vs = Running {| ip := ip vs + 3; ostack := base; locals := locals vs; globals := globals vs |}.
Proof.
  intros HS HL HC HI HO. rewrite (fetch_arg p vs Drop 0 S pre post HC HI eq_refl).
  unfold exec. change (0 * 256 + S) with S. cbn [simple_effect]. rewrite HO, HL, app_length.
  destruct (List.length rs + List.length base <? List.length rs)%nat eqn:E; [apply Nat.ltb_lt in E; lia|].
  rewrite skipn_app, skipn_all, Nat.sub_diag. reflexivity.
Qed.

(* the head of a round that goes on: the range op has pushed the flag (and the
   value for the loop variable); the exit jump falls through; the loop
   variable is stored *)
Lemma round_head G L lvi s3 sgv (v : value) env env0 base' p vs0 pre0 post0 jf Endp :
  lvstore lvi (csym s3) sgv -> lv_set (lvname lvi) v env = Some env0 ->
  jbytes JumpOnFalse Endp jf -> pcode p = pre0 ++ jf ++ sgv ++ post0 -> ip vs0 = N.of_nat (List.length pre0) ->
  ostack vs0 = VBool true :: (match lvi with Some _ => [v] | None => [] end) ++ base' ->
  List.length (locals vs0) = L -> List.length (globals vs0) = G ->
  RELs env (stores (csym s3)) (locals vs0) (globals vs0) -> Inv (csym s3) ->
  rootcount (csym s3) <= N.of_nat G -> bound (csym s3) <= N.of_nat L ->
  exists vsA, reaches p vs0 vsA /\ ip vsA = ip vs0 + 3 + N.of_nat (List.length sgv) /\ ostack vsA = base' /\
    List.length (locals vsA) = L /\ List.length (globals vsA) = G /\
    RELs env0 (stores (csym s3)) (locals vsA) (globals vsA).
Proof.
  intros HLV HSet HJ HP HI HO HLl HLg HR HInv HG HB.
  pose proof (jbytes_len _ _ _ HJ) as Ljf.
  pose proof (step_jof p vs0 pre0 (sgv ++ post0) jf _ true _ HJ HP HI HO) as R2.
  set (vs1 := {| ip := ip vs0 + 3; ostack := (match lvi with Some _ => [v] | None => [] end) ++ base'; locals := locals vs0; globals := globals vs0 |}) in *.
  destruct lvi as [[n y]|]; cbn [lvstore lvname option_map fst lv_set] in *.
  - destruct HLV as [HSG HRy].
    assert (HRng : in_range y (locals vs0) (globals vs0)) by (apply (resolve_in_range (csym s3) n y _ _ HInv HRy); lia).
    pose proof (step_setvar p vs1 (pre0 ++ jf) post0 sgv y v base' HSG
                  ltac:(rewrite HP, <- !app_assoc; reflexivity)
                  ltac:(unfold vs1; cbn [ip]; rewrite HI, app_length, Ljf; lia) eq_refl HRng) as R3.
    destruct (put_lengths y v (locals vs0) (globals vs0)) as [PL PG].
    eexists. split; [eapply reaches_trans; [apply reaches_step; exact R2|apply reaches_step; exact R3]|].
    unfold vs1. cbn [ip ostack locals globals]. pose proof (jbytes_len _ _ _ HSG) as Lsg.
    split; [rewrite Lsg; lia|]. split; [reflexivity|]. split; [congruence|]. split; [congruence|].
    apply (rels_assign env (stores (csym s3)) _ _ HR n y v env0); [rewrite <- resolve_sres; exact HRy|exact HSet|apply inv_sepl; assumption|exact HRng].
  - subst sgv. inversion HSet; subst env0. exists vs1. split; [apply reaches_step; exact R2|].
    unfold vs1; cbn [ip ostack locals globals app List.length]. repeat split; auto. lia.
Qed.

Lemma lx_r_false : forall fuel lv idx stp stop b env env' br, lx_r fuel lv idx stp stop b env = Some (env', br) -> br = false.
Proof.
  induction fuel as [|f IH]; intros lv idx stp stop b env env' br H; [discriminate|]. cbn [lx_r] in H.
  destruct (going idx stp stop); [|inversion H; reflexivity].
  destruct (lv_set lv (VNum idx) env) as [env0|]; [|discriminate].
  destruct (leave (lx_l f b ([] :: env0))) as [[env1 [|]]|]; [inversion H; reflexivity|apply (IH _ _ _ _ _ _ _ _ H)|discriminate].
Qed.
Lemma lx_i_false : forall fuel lv idx iter b env env' br, lx_i fuel lv idx iter b env = Some (env', br) -> br = false.
Proof.
  induction fuel as [|f IH]; intros lv idx iter b env env' br H; [discriminate|]. cbn [lx_i] in H.
  destruct (iter_next iter idx) as [[v|]|]; [|inversion H; reflexivity|discriminate].
  destruct (lv_set lv v env) as [env0|]; [|discriminate].
  destruct (leave (lx_l f b ([] :: env0))) as [[env1 [|]]|]; [inversion H; reflexivity|apply (IH _ _ _ _ _ _ _ H)|discriminate].
Qed.

Lemma hvof_cases lvi : (lvi = None /\ hvof lvi = 0) \/ (exists ny, lvi = Some ny /\ hvof lvi = 1).
Proof. destruct lvi as [ny|]; [right; eauto|left; auto]. Qed.

Lemma sim_r f : ALLl f -> ALLr f -> ALLr (S f).
Proof.
  intros IHl IHr lvi b s3 st' seg HL.
  inversion HL as [? ? ? ? ? stx stb ? bs_b seg_b jf jb sgv HLV HKx HSx HLx HLb HJf HJb HKc HSy]; subst.
  intros G L env env' br idx stp stop base HX p vs pre post HP HLen HK HI HZ HM HInv HG HB HD5 HDb.
  pose proof (lx_r_false _ _ _ _ _ _ _ _ _ HX) as ->. cbn [lx_r] in HX.
  set (sr := [N_of_opc StepRange; 0; hvof lvi]) in *. set (dr := [N_of_opc Drop; 0; 3]) in *.
  set (Endp := N.of_nat (List.length (ccode s3)) + N.of_nat (List.length (sr ++ jf ++ sgv ++ seg_b ++ jb))) in *.
  destruct (proj1 (proj2 ly_frame) _ _ _ _ _ _ HLb) as [(nb & Kb) Sb].
  destruct (proj2 (proj2 (proj2 ly_frame)) _ _ _ _ _ _ _ HL) as [_ Sall].
  assert (HKb : consts_of p stb) by (destruct HK as (more & HK); exists more; rewrite HK, HKc; reflexivity).
  pose proof (jbytes_len _ _ _ HJf) as Ljf. pose proof (jbytes_len _ _ _ HJb) as Ljb.
  pose proof (sy_out _ _ Sb) as HOut. rewrite HSx in HOut. cbn [st_push outers] in HOut.
  pose proof (block_stores (csym s3) (csym stb) HOut) as ESb.
  destruct HM as (M1 & M2 & M3 & M4).
  set (base' := VNum (idx + stp)%float :: VNum stp :: VNum stop :: base) in *.
  (* the range op *)
  assert (R1 : exists vs1, vm_step p vs = Running vs1 /\ ip vs1 = ip vs + 3 /\ locals vs1 = locals vs /\ globals vs1 = globals vs /\
            ostack vs1 = VBool (going idx stp stop) :: (if going idx stp stop then match lvi with Some _ => [VNum idx] | None => [] end else []) ++ base').
  { destruct (hvof_cases lvi) as [[-> EH]|((n0 & y0) & -> & EH)]; unfold sr in HP; cbn [hvof] in HP.
    - eexists. split; [apply (step_steprange p vs pre (jf ++ sgv ++ seg_b ++ jb ++ dr ++ post) idx stp stop base
                                 ltac:(rewrite HP, <- !app_assoc; reflexivity) HI M1 HZ ltac:(rewrite M2; simpl; lia))|].
      cbn [ip locals globals ostack]. repeat split; auto. destruct (going idx stp stop); reflexivity.
    - eexists. split; [apply (step_steprange_lv p vs pre (jf ++ sgv ++ seg_b ++ jb ++ dr ++ post) idx stp stop base
                                 ltac:(rewrite HP, <- !app_assoc; reflexivity) HI M1 HZ ltac:(rewrite M2; simpl; lia))|].
      cbn [ip locals globals ostack]. repeat split; auto. }
  destruct R1 as (vs1 & R1 & I1 & L1 & G1 & O1).
  (* the exit *)
  assert (EXIT : forall env2 vsd, ip vsd = Endp -> ostack vsd = base' -> List.length (locals vsd) = L -> List.length (globals vsd) = G ->
            RELs env2 (stores (csym s3)) (locals vsd) (globals vsd) ->
            exists vs', reaches p vsd vs' /\ ip vs' = ip vs + N.of_nat (List.length (sr ++ jf ++ sgv ++ seg_b ++ jb ++ dr)) /\ MS G L st' env2 base vs').
  { intros env2 vsd ID OD LD GD RD.
    pose proof (step_dropS p vsd (pre ++ sr ++ jf ++ sgv ++ seg_b ++ jb) post 3 [VNum (idx + stp)%float; VNum stp; VNum stop] base
                  ltac:(lia) eq_refl ltac:(rewrite HP; unfold dr; rewrite <- !app_assoc; reflexivity)
                  ltac:(rewrite ID; unfold Endp; rewrite !app_length, HLen, !Nat2N.inj_add; lia) OD) as RD'.
    eexists. split; [apply reaches_step; exact RD'|]. split.
    - simpl. rewrite ID, HI. unfold Endp, dr. rewrite !app_length, HLen. simpl. lia.
    - unfold MS; simpl. repeat split; auto. rewrite HSy, ESb. exact RD. }
  destruct (going idx stp stop) eqn:HGo.
  - destruct (lv_set (lvname lvi) (VNum idx) env) as [env0|] eqn:HSet; [|discriminate].
    destruct (leave (lx_l f b ([] :: env0))) as [[env1 brb]|] eqn:HXb; [|discriminate].
    destruct (round_head G L lvi s3 sgv (VNum idx) env env0 base' p vs1 (pre ++ sr) (seg_b ++ jb ++ dr ++ post) jf Endp HLV HSet HJf)
      as (vsA & RA & IA & OA & LA & GA & RELA); auto.
    { rewrite HP, <- !app_assoc. reflexivity. }
    { rewrite I1, HI, app_length. unfold sr. simpl. lia. }
    { congruence. }
    { congruence. }
    { rewrite L1, G1. exact M4. }
    { pose proof (sy_gc _ _ Sall). lia. }
    { pose proof (sy_bound _ _ Sall). lia. }
    destruct (sim_block f _ b stx stb bs_b seg_b (csym s3) IHl HLb HSx G L env0 env1 brb base' HXb p vsA (pre ++ sr ++ jf ++ sgv) (jb ++ dr ++ post))
      as (vs3 & R3 & I3 & O3 & L3 & G3 & REL3 & ES3); auto.
    { rewrite HP, <- !app_assoc. reflexivity. }
    { apply Nat2N.inj. rewrite HLx, !app_length, Ljf, HLen. unfold sr. cbn [List.length]. lia. }
    { rewrite IA, I1, HI, !app_length, Ljf. unfold sr. cbn [List.length]. lia. }
    { rewrite <- HSy. exact HG. }
    { rewrite <- HSy. exact HB. }
    { unfold base'. cbn [List.length]. lia. }
    destruct brb.
    + inversion HX; subst env'.
      destruct (EXIT env1 vs3 I3 O3 L3 G3 REL3) as (vs' & RE & IE & ME).
      exists vs'. split; [|split; [exact IE|split; [reflexivity|exact ME]]].
      eapply reaches_trans; [apply reaches_step; exact R1|]. eapply reaches_trans; [exact RA|]. eapply reaches_trans; [exact R3|exact RE].
    + pose proof (step_jump p vs3 (pre ++ sr ++ jf ++ sgv ++ seg_b) (dr ++ post) jb _ HJb
                    ltac:(rewrite HP, <- !app_assoc; reflexivity)
                    ltac:(rewrite I3, IA, I1, HI, !app_length, Ljf; unfold sr; simpl; lia)) as R4.
      set (vs4 := {| ip := N.of_nat (List.length (ccode s3)); ostack := ostack vs3; locals := locals vs3; globals := globals vs3 |}) in *.
      assert (HM4 : MS G L s3 env1 base' vs4) by (unfold vs4; repeat split; auto).
      destruct (IHr _ _ _ _ _ HL G L env1 env' false (idx + stp)%float stp stop base HX p vs4 pre post HP HLen HK) as (vs5 & R5 & I5 & _ & HM5); auto.
      { unfold vs4; simpl. rewrite HLen. reflexivity. }
      exists vs5. split; [|split; [|split; [reflexivity|exact HM5]]].
      * eapply reaches_trans; [apply reaches_step; exact R1|]. eapply reaches_trans; [exact RA|].
        eapply reaches_trans; [exact R3|]. eapply reaches_trans; [apply reaches_step; exact R4|exact R5].
      * rewrite I5. unfold vs4; simpl. rewrite HI, HLen. reflexivity.
  - (* the range is exhausted *)
    inversion HX; subst env'. cbn [app] in O1.
    pose proof (step_jof p vs1 (pre ++ sr) (sgv ++ seg_b ++ jb ++ dr ++ post) jf _ false base' HJf
                  ltac:(rewrite HP, <- !app_assoc; reflexivity)
                  ltac:(rewrite I1, HI, app_length; unfold sr; simpl; lia) O1) as R2.
    set (vs2 := {| ip := Endp; ostack := base'; locals := locals vs1; globals := globals vs1 |}) in *.
    destruct (EXIT env vs2 eq_refl eq_refl) as (vs' & RE & IE & ME); [unfold vs2; simpl; congruence|unfold vs2; simpl; congruence|unfold vs2; simpl; rewrite L1, G1; exact M4|].
    exists vs'. split; [|split; [exact IE|split; [reflexivity|exact ME]]].
    eapply reaches_trans; [apply reaches_step; exact R1|]. eapply reaches_trans; [apply reaches_step; exact R2|exact RE].
Qed.

Lemma sim_i f : ALLl f -> ALLi f -> ALLi (S f).
Proof.
  intros IHl IHi lvi b s3 st' seg HL.
  inversion HL as [? ? ? ? ? stx stb ? bs_b seg_b jf jb sgv HLV HKx HSx HLx HLb HJf HJb HKc HSy]; subst.
  intros G L env env' br idx iter base HX p vs pre post HP HLen HK HI HM HInv HG HB HD5 HDb.
  pose proof (lx_i_false _ _ _ _ _ _ _ _ HX) as ->. cbn [lx_i] in HX.
  destruct (iter_next iter idx) as [r|] eqn:HN; [|discriminate].
  set (sr := [N_of_opc IterRange; 0; hvof lvi]) in *. set (dr := [N_of_opc Drop; 0; 2]) in *.
  set (Endp := N.of_nat (List.length (ccode s3)) + N.of_nat (List.length (sr ++ jf ++ sgv ++ seg_b ++ jb))) in *.
  destruct (proj1 (proj2 ly_frame) _ _ _ _ _ _ HLb) as [(nb & Kb) Sb].
  destruct (proj2 (proj2 (proj2 ly_frame)) _ _ _ _ _ _ _ HL) as [_ Sall].
  assert (HKb : consts_of p stb) by (destruct HK as (more & HK); exists more; rewrite HK, HKc; reflexivity).
  pose proof (jbytes_len _ _ _ HJf) as Ljf. pose proof (jbytes_len _ _ _ HJb) as Ljb.
  pose proof (sy_out _ _ Sb) as HOut. rewrite HSx in HOut. cbn [st_push outers] in HOut.
  pose proof (block_stores (csym s3) (csym stb) HOut) as ESb.
  destruct HM as (M1 & M2 & M3 & M4).
  set (base' := VNum (idx + 1)%float :: iter :: base) in *.
  (* the range op *)
  assert (R1 : exists vs1, vm_step p vs = Running vs1 /\ ip vs1 = ip vs + 3 /\ locals vs1 = locals vs /\ globals vs1 = globals vs /\
            ostack vs1 = match r with
                         | Some v => VBool true :: (match lvi with Some _ => [v] | None => [] end) ++ base'
                         | None => VBool false :: base'
                         end).
  { destruct (hvof_cases lvi) as [[-> EH]|((n0 & y0) & -> & EH)]; unfold sr in HP; cbn [hvof] in HP.
    - eexists. split; [apply (step_iterrange p vs pre (jf ++ sgv ++ seg_b ++ jb ++ dr ++ post) idx iter base
                                 ltac:(rewrite HP, <- !app_assoc; reflexivity) HI M1 ltac:(rewrite M2; simpl; lia) r HN)|].
      cbn [ip locals globals ostack]. repeat split; auto; try (destruct r; reflexivity).
    - eexists. split; [apply (step_iterrange_lv p vs pre (jf ++ sgv ++ seg_b ++ jb ++ dr ++ post) idx iter base
                                 ltac:(rewrite HP, <- !app_assoc; reflexivity) HI M1 ltac:(rewrite M2; simpl; lia) r HN)|].
      cbn [ip locals globals ostack]. repeat split; auto; try (destruct r; reflexivity). }
  destruct R1 as (vs1 & R1 & I1 & L1 & G1 & O1).
  (* the exit *)
  assert (EXIT : forall env2 vsd, ip vsd = Endp -> ostack vsd = base' -> List.length (locals vsd) = L -> List.length (globals vsd) = G ->
            RELs env2 (stores (csym s3)) (locals vsd) (globals vsd) ->
            exists vs', reaches p vsd vs' /\ ip vs' = ip vs + N.of_nat (List.length (sr ++ jf ++ sgv ++ seg_b ++ jb ++ dr)) /\ MS G L st' env2 base vs').
  { intros env2 vsd ID OD LD GD RD.
    pose proof (step_dropS p vsd (pre ++ sr ++ jf ++ sgv ++ seg_b ++ jb) post 2 [VNum (idx + 1)%float; iter] base
                  ltac:(lia) eq_refl ltac:(rewrite HP; unfold dr; rewrite <- !app_assoc; reflexivity)
                  ltac:(rewrite ID; unfold Endp; rewrite !app_length, HLen, !Nat2N.inj_add; lia) OD) as RD'.
    eexists. split; [apply reaches_step; exact RD'|]. split.
    - simpl. rewrite ID, HI. unfold Endp, dr. rewrite !app_length, HLen. simpl. lia.
    - unfold MS; simpl. repeat split; auto. rewrite HSy, ESb. exact RD. }
  destruct r as [v|].
  - destruct (lv_set (lvname lvi) v env) as [env0|] eqn:HSet; [|discriminate].
    destruct (leave (lx_l f b ([] :: env0))) as [[env1 brb]|] eqn:HXb; [|discriminate].
    destruct (round_head G L lvi s3 sgv v env env0 base' p vs1 (pre ++ sr) (seg_b ++ jb ++ dr ++ post) jf Endp HLV HSet HJf)
      as (vsA & RA & IA & OA & LA & GA & RELA); auto.
    { rewrite HP, <- !app_assoc. reflexivity. }
    { rewrite I1, HI, app_length. unfold sr. simpl. lia. }
    { congruence. }
    { congruence. }
    { rewrite L1, G1. exact M4. }
    { pose proof (sy_gc _ _ Sall). lia. }
    { pose proof (sy_bound _ _ Sall). lia. }
    destruct (sim_block f _ b stx stb bs_b seg_b (csym s3) IHl HLb HSx G L env0 env1 brb base' HXb p vsA (pre ++ sr ++ jf ++ sgv) (jb ++ dr ++ post))
      as (vs3 & R3 & I3 & O3 & L3 & G3 & REL3 & ES3); auto.
    { rewrite HP, <- !app_assoc. reflexivity. }
    { apply Nat2N.inj. rewrite HLx, !app_length, Ljf, HLen. unfold sr. cbn [List.length]. lia. }
    { rewrite IA, I1, HI, !app_length, Ljf. unfold sr. cbn [List.length]. lia. }
    { rewrite <- HSy. exact HG. }
    { rewrite <- HSy. exact HB. }
    { unfold base'. cbn [List.length]. lia. }
    destruct brb.
    + inversion HX; subst env'.
      destruct (EXIT env1 vs3 I3 O3 L3 G3 REL3) as (vs' & RE & IE & ME).
      exists vs'. split; [|split; [exact IE|split; [reflexivity|exact ME]]].
      eapply reaches_trans; [apply reaches_step; exact R1|]. eapply reaches_trans; [exact RA|]. eapply reaches_trans; [exact R3|exact RE].
    + pose proof (step_jump p vs3 (pre ++ sr ++ jf ++ sgv ++ seg_b) (dr ++ post) jb _ HJb
                    ltac:(rewrite HP, <- !app_assoc; reflexivity)
                    ltac:(rewrite I3, IA, I1, HI, !app_length, Ljf; unfold sr; simpl; lia)) as R4.
      set (vs4 := {| ip := N.of_nat (List.length (ccode s3)); ostack := ostack vs3; locals := locals vs3; globals := globals vs3 |}) in *.
      assert (HM4 : MS G L s3 env1 base' vs4) by (unfold vs4; repeat split; auto).
      destruct (IHi _ _ _ _ _ HL G L env1 env' false (idx + 1)%float iter base HX p vs4 pre post HP HLen HK) as (vs5 & R5 & I5 & _ & HM5); auto.
      { unfold vs4; simpl. rewrite HLen. reflexivity. }
      exists vs5. split; [|split; [|split; [reflexivity|exact HM5]]].
      * eapply reaches_trans; [apply reaches_step; exact R1|]. eapply reaches_trans; [exact RA|].
        eapply reaches_trans; [exact R3|]. eapply reaches_trans; [apply reaches_step; exact R4|exact R5].
      * rewrite I5. unfold vs4; simpl. rewrite HI, HLen. reflexivity.
  - (* the range is exhausted *)
    inversion HX; subst env'.
    pose proof (step_jof p vs1 (pre ++ sr) (sgv ++ seg_b ++ jb ++ dr ++ post) jf _ false base' HJf
                  ltac:(rewrite HP, <- !app_assoc; reflexivity)
                  ltac:(rewrite I1, HI, app_length; unfold sr; simpl; lia) O1) as R2.
    set (vs2 := {| ip := Endp; ostack := base'; locals := locals vs1; globals := globals vs1 |}) in *.
    destruct (EXIT env vs2 eq_refl eq_refl) as (vs' & RE & IE & ME); [unfold vs2; simpl; congruence|unfold vs2; simpl; congruence|unfold vs2; simpl; rewrite L1, G1; exact M4|].
    exists vs'. split; [|split; [exact IE|split; [reflexivity|exact ME]]].
    eapply reaches_trans; [apply reaches_step; exact R1|]. eapply reaches_trans; [apply reaches_step; exact R2|exact RE].
Qed.

(* ---------- the prologue of a for loop ---------- *)
Lemma sim_prologue G L lv s3 sa segp lvi env stk p vs pre0 post0 :
  LVPRO lv s3 sa segp lvi -> Inv (csym s3) ->
  pcode p = pre0 ++ segp ++ post0 -> ip vs = N.of_nat (List.length pre0) -> ostack vs = stk ->
  List.length (locals vs) = L -> List.length (globals vs) = G ->
  RELs env (stores (csym s3)) (locals vs) (globals vs) ->
  rootcount (csym sa) <= N.of_nat G -> bound (csym sa) <= N.of_nat L ->
  N.of_nat L + N.of_nat (List.length stk) + 1 <= StackSize ->
  exists vsA, reaches p vs vsA /\ ip vsA = ip vs + N.of_nat (List.length segp) /\ ostack vsA = stk /\
    List.length (locals vsA) = L /\ List.length (globals vsA) = G /\
    RELs (lv_decl lv env) (stores (csym sa)) (locals vsA) (globals vsA) /\ lvname lvi = lv.
Proof.
  intros HPRO HInv HP HI HO HLl HLg HR HG HB HD. unfold LVPRO in HPRO. destruct lv as [n|].
  - destruct HPRO as (sg & HSG & -> & C & K & S & ->). cbn [lvname option_map fst lv_decl].
    set (y := snd (st_define n (csym s3))) in *.
    pose proof (step_onone p vs pre0 (sg ++ post0) ltac:(rewrite HP, <- !app_assoc; reflexivity) HI ltac:(rewrite HO, HLl; lia)) as R1.
    set (vs1 := {| ip := ip vs + 1; ostack := VNone :: ostack vs; locals := locals vs; globals := globals vs |}) in *.
    assert (HRng : in_range y (locals vs) (globals vs)).
    { apply (resolve_in_range (csym sa) n y); [rewrite S; apply inv_define; exact HInv|rewrite S; apply define_then_resolve|lia|lia]. }
    pose proof (step_setvar p vs1 (pre0 ++ [N_of_opc ONone]) post0 sg y VNone stk HSG
                  ltac:(rewrite HP, <- !app_assoc; reflexivity)
                  ltac:(unfold vs1; cbn [ip]; rewrite HI, app_length; simpl; lia)
                  ltac:(unfold vs1; cbn [ostack]; rewrite HO; reflexivity) HRng) as R2.
    destruct (put_lengths y VNone (locals vs) (globals vs)) as [PL PG].
    eexists. split; [eapply reaches_trans; [apply reaches_step; exact R1|apply reaches_step; exact R2]|].
    unfold vs1. cbn [ip ostack locals globals]. pose proof (jbytes_len _ _ _ HSG) as Lsg.
    split; [rewrite app_length, Lsg; simpl; lia|]. split; [reflexivity|]. split; [congruence|]. split; [congruence|].
    split; [|reflexivity]. rewrite S. apply rels_declare; assumption.
  - destruct HPRO as (C & K & S & -> & ->). exists vs. split; [apply reaches_refl|].
    split; [simpl; lia|]. split; [exact HO|]. split; [exact HLl|]. split; [exact HLg|]. split; [|reflexivity].
    cbn [lv_decl]. rewrite S. exact HR.
Qed.

Lemma sim_forstep f lv start stop step b : ALLr f ->
  forall T st st' bs seg, LY (Some T) (SForStep lv start stop step b) st st' bs seg -> SIMs (S f) T (SForStep lv start stop step b) st st' seg.
Proof.
  intros IHr T st st' bs seg HL.
  inversion HL as [| | | | |? ? ? ? ? ? ? s1 s2 s3 sa ? seg1 seg2 seg3 segp seg_r lvi HF1 HC1 HS1 HF2 HC2 HS2 HF3 HC3 HS3 HPRO HR| | | ]; subst.
  intros G L env env' br base HX p vs pre post HP HLen HK HI HM HInv HG HB HD.
  cbn [lx_s] in HX. cbn [sdepth] in HD.
  set (estep := match step with OSome e => e | ONoneE => ENum 1 end) in *.
  set (estart := match start with OSome e => e | ONoneE => ENum 0 end) in *.
  destruct (eval_expr (fun x => slook x env) stop) as [[vstop| | | | | |]|] eqn:HE1; try discriminate.
  destruct (eval_expr (fun x => slook x env) estep) as [[vstep| | | | | |]|] eqn:HE2; try discriminate.
  destruct (eval_expr (fun x => slook x env) estart) as [[vstart| | | | | |]|] eqn:HE3; try discriminate.
  destruct (PrimFloat.eqb vstep 0) eqn:HZ; [discriminate|].
  destruct (efrag_consts stop st s1 HF1 HC1) as [(n1 & K1) S1].
  destruct (efrag_consts estep s1 s2 HF2 HC2) as [(n2 & K2) S2].
  destruct (efrag_consts estart s2 s3 HF3 HC3) as [(n3 & K3) S3].
  destruct (lvpro_frame _ _ _ _ _ HPRO) as (Kp & SYp & Lp & _).
  destruct (proj2 (proj2 (proj2 ly_frame)) _ _ _ _ _ _ _ HR) as [(nr & Kr) Sr].
  assert (HKa : consts_of p sa) by (apply (consts_of_prefix p sa st' nr Kr HK)).
  assert (HK3 : consts_of p s3) by (destruct HKa as (more & HKa); exists more; rewrite HKa, Kp; reflexivity).
  assert (HK2 : consts_of p s2) by (apply (consts_of_prefix p s2 s3 n3 K3 HK3)).
  assert (HK1 : consts_of p s1) by (apply (consts_of_prefix p s1 s2 n2 K2 HK2)).
  pose proof (expr_runs_l G L stop st s1 seg1 env (VNum vstop) base p vs pre (seg2 ++ seg3 ++ segp ++ seg_r ++ post) HF1 HC1 HS1 HE1
                ltac:(rewrite HP, <- !app_assoc; reflexivity) HK1 HI HM ltac:(lia)) as R1.
  set (vs1 := {| ip := ip vs + N.of_nat (List.length seg1); ostack := VNum vstop :: base; locals := locals vs; globals := globals vs |}) in *.
  destruct HM as (M1 & M2 & M3 & M4).
  assert (HM1 : MS G L s1 env (VNum vstop :: base) vs1) by (unfold vs1; repeat split; auto; cbn [locals globals]; rewrite S1; exact M4).
  pose proof (expr_runs_l G L estep s1 s2 seg2 env (VNum vstep) (VNum vstop :: base) p vs1 (pre ++ seg1) (seg3 ++ segp ++ seg_r ++ post) HF2 HC2 HS2 HE2
                ltac:(rewrite HP, <- !app_assoc; reflexivity) HK2 ltac:(unfold vs1; simpl; rewrite HI, app_length; lia) HM1
                ltac:(cbn [List.length]; lia)) as R2.
  set (vs2 := {| ip := ip vs1 + N.of_nat (List.length seg2); ostack := VNum vstep :: VNum vstop :: base; locals := locals vs1; globals := globals vs1 |}) in *.
  assert (HM2 : MS G L s2 env (VNum vstep :: VNum vstop :: base) vs2) by (unfold vs2, vs1; repeat split; auto; cbn [locals globals]; rewrite S2, S1; exact M4).
  pose proof (expr_runs_l G L estart s2 s3 seg3 env (VNum vstart) (VNum vstep :: VNum vstop :: base) p vs2 (pre ++ seg1 ++ seg2) (segp ++ seg_r ++ post) HF3 HC3 HS3 HE3
                ltac:(rewrite HP, <- !app_assoc; reflexivity) HK3 ltac:(unfold vs2, vs1; simpl; rewrite HI, !app_length; lia) HM2
                ltac:(cbn [List.length]; lia)) as R3.
  set (vs3 := {| ip := ip vs2 + N.of_nat (List.length seg3); ostack := VNum vstart :: VNum vstep :: VNum vstop :: base; locals := locals vs2; globals := globals vs2 |}) in *.
  assert (HInv3 : Inv (csym s3)) by (rewrite S3, S2, S1; exact HInv).
  destruct (sim_prologue G L lv s3 sa segp lvi env (VNum vstart :: VNum vstep :: VNum vstop :: base) p vs3 (pre ++ seg1 ++ seg2 ++ seg3) (seg_r ++ post) HPRO HInv3)
    as (vsA & RA & IA & OA & LA & GA & RELA & ELV); auto.
  { rewrite HP, <- !app_assoc. reflexivity. }
  { unfold vs3, vs2, vs1; simpl. rewrite HI, !app_length. lia. }
  { unfold vs3, vs2, vs1; cbn [locals globals]. rewrite S3, S2, S1. exact M4. }
  { pose proof (sy_gc _ _ Sr). lia. }
  { pose proof (sy_bound _ _ Sr). lia. }
  { cbn [List.length]. lia. }
  subst lv.
  destruct (IHr _ _ _ _ _ HR G L (lv_decl (lvname lvi) env) env' br vstart vstep vstop base HX p vsA (pre ++ seg1 ++ seg2 ++ seg3 ++ segp) post)
    as (vs4 & R4 & I4 & -> & HM4); auto.
  { rewrite HP, <- !app_assoc. reflexivity. }
  { apply Nat2N.inj. rewrite Lp, !app_length, HS3, HS2, HS1, !app_length, HLen. lia. }
  { rewrite IA. unfold vs3, vs2, vs1; simpl. rewrite HI, !app_length. lia. }
  { repeat split; auto. }
  { apply (sy_inv _ _ SYp). exact HInv3. }
  { lia. }
  { lia. }
  exists vs4. split; [|split; [|apply ms_msb; exact HM4]].
  - eapply reaches_trans; [exact R1|]. eapply reaches_trans; [exact R2|]. eapply reaches_trans; [exact R3|]. eapply reaches_trans; [exact RA|exact R4].
  - rewrite I4, IA. unfold vs3, vs2, vs1; simpl. rewrite !app_length. lia.
Qed.

Lemma sim_foriter f lv t e b : ALLi f ->
  forall T st st' bs seg, LY (Some T) (SForIter lv t e b) st st' bs seg -> SIMs (S f) T (SForIter lv t e b) st st' seg.
Proof.
  intros IHi T st st' bs seg HL.
  inversion HL as [| | | | | |? ? ? ? ? ? s1 s2 sa ? seg1 segk segp seg_r lvi Ht HF1 HC1 HS1 HCk HSk HPRO HR| | ]; subst.
  intros G L env env' br base HX p vs pre post HP HLen HK HI HM HInv HG HB HD.
  cbn [lx_s] in HX. cbn [sdepth] in HD.
  assert (HX' : match eval_expr (fun x => slook x env) e with Some iter => lx_i f lv 0%float iter b (lv_decl lv env) | None => None end = Some (env', br))
    by (destruct Ht as [->|[->| ->]]; exact HX). clear HX.
  destruct (eval_expr (fun x => slook x env) e) as [iter|] eqn:HE1; [|discriminate].
  destruct (efrag_consts e st s1 HF1 HC1) as [(n1 & K1) S1].
  destruct (const_correct _ _ _ HCk) as (S2 & segk' & C2 & K2 & D2).
  assert (segk' = segk) by (rewrite C2 in HSk; apply app_inv_head in HSk; exact HSk). subst segk'.
  destruct (lvpro_frame _ _ _ _ _ HPRO) as (Kp & SYp & Lp & _).
  destruct (proj2 (proj2 (proj2 ly_frame)) _ _ _ _ _ _ _ HR) as [(nr & Kr) Sr].
  assert (HKa : consts_of p sa) by (apply (consts_of_prefix p sa st' nr Kr HK)).
  assert (HK2 : consts_of p s2) by (destruct HKa as (more & HKa); exists more; rewrite HKa, Kp; reflexivity).
  assert (HK1 : consts_of p s1) by (apply (consts_of_prefix p s1 s2 [KNum 0] K2 HK2)).
  pose proof (expr_runs_l G L e st s1 seg1 env iter base p vs pre (segk ++ segp ++ seg_r ++ post) HF1 HC1 HS1 HE1
                ltac:(rewrite HP, <- !app_assoc; reflexivity) HK1 HI HM ltac:(lia)) as R1.
  set (vs1 := {| ip := ip vs + N.of_nat (List.length seg1); ostack := iter :: base; locals := locals vs; globals := globals vs |}) in *.
  destruct HM as (M1 & M2 & M3 & M4).
  destruct HK2 as (more2 & HK2).
  destruct (D2 p vs1 more2 (pre ++ seg1) (segp ++ seg_r ++ post)) as (nk & R2).
  { rewrite HP, <- !app_assoc. reflexivity. }
  { exact HK2. }
  { unfold vs1; simpl. rewrite HI, app_length. lia. }
  { unfold vs1; simpl. rewrite M2. lia. }
  cbn [const_value] in R2.
  set (vs2 := {| ip := ip vs1 + N.of_nat (List.length segk); ostack := VNum 0 :: ostack vs1; locals := locals vs1; globals := globals vs1 |}) in *.
  assert (HInv2 : Inv (csym s2)) by (rewrite S2, S1; exact HInv).
  destruct (sim_prologue G L lv s2 sa segp lvi env (VNum 0 :: iter :: base) p vs2 (pre ++ seg1 ++ segk) (seg_r ++ post) HPRO HInv2)
    as (vsA & RA & IA & OA & LA & GA & RELA & ELV); auto.
  { rewrite HP, <- !app_assoc. reflexivity. }
  { unfold vs2, vs1; simpl. rewrite HI, !app_length. lia. }
  { unfold vs2, vs1; cbn [locals globals]. rewrite S2, S1. exact M4. }
  { pose proof (sy_gc _ _ Sr). lia. }
  { pose proof (sy_bound _ _ Sr). lia. }
  { cbn [List.length]. lia. }
  subst lv.
  destruct (IHi _ _ _ _ _ HR G L (lv_decl (lvname lvi) env) env' br 0%float iter base HX' p vsA (pre ++ seg1 ++ segk ++ segp) post)
    as (vs4 & R4 & I4 & -> & HM4); auto.
  { rewrite HP, <- !app_assoc. reflexivity. }
  { apply Nat2N.inj. rewrite Lp, !app_length, HSk, HS1, !app_length, HLen. lia. }
  { rewrite IA. unfold vs2, vs1; simpl. rewrite HI, !app_length. lia. }
  { repeat split; auto. }
  { apply (sy_inv _ _ SYp). exact HInv2. }
  { lia. }
  { lia. }
  exists vs4. split; [|split; [|apply ms_msb; exact HM4]].
  - eapply reaches_trans; [exact R1|]. eapply reaches_trans; [exists nk; exact R2|]. eapply reaches_trans; [exact RA|exact R4].
  - rewrite I4, IA. unfold vs2, vs1; simpl. rewrite !app_length. lia.
Qed.

(* ---------- all together ---------- *)
Theorem sim_all : forall fuel, ALLs fuel /\ ALLl fuel /\ ALLc fuel /\ ALLr fuel /\ ALLi fuel.
Proof.
  induction fuel as [|f (IHs & IHl & IHc & IHr & IHi)].
  - repeat split; repeat intro; simpl in *; discriminate.
  - split; [|split; [|split; [|split]]].
    + intros T s st st' bs seg HL. destruct s;
        try (inversion HL; fail).
      * apply (sim_decl f T n e st st' bs seg HL).
      * inversion HL; subst; [eapply sim_assign; eassumption|].
        repeat intro. match goal with HX : lx_s _ _ _ = Some _ |- _ => cbn in HX; discriminate HX end.
      * apply (sim_if f c b elifs els IHc T st st' bs seg HL).
      * apply (sim_while f c b IHs IHl T st st' bs seg HL).
      * apply (sim_forstep f lv start stop step b IHr T st st' bs seg HL).
      * apply (sim_foriter f lv t e b IHi T st st' bs seg HL).
      * apply (sim_break f T st st' bs seg HL).
      * apply (sim_empty f T st st' bs seg HL).
    + apply sim_list; assumption.
    + apply sim_chain; assumption.
    + apply sim_r; assumption.
    + apply sim_i; assumption.
Qed.

(* ====================================================================== *)
(* Part D: the compiler lays its code out that way                          *)
(* ====================================================================== *)
Lemma ly_brk_patch T :
  (forall brk s st st' bs seg, LY brk s st st' bs seg -> brk = None ->
     PATCHED T bs st seg (fun seg' => LY (Some (Z.to_N T)) s st st' bs seg')) /\
  (forall brk l st st' bs seg, LYL brk l st st' bs seg -> brk = None ->
     PATCHED T bs st seg (fun seg' => LYL (Some (Z.to_N T)) l st st' bs seg')) /\
  (forall brk fin l els st st' End js bs seg, LYC brk fin l els st st' End js bs seg -> brk = None ->
     PATCHED T bs st seg (fun seg' => LYC (Some (Z.to_N T)) fin l els st st' End js bs seg')) /\
  (forall lvi b s3 st' S rop seg, LYR lvi b s3 st' S rop seg -> True).
Proof.
  apply LY_mutind; intros; try exact I; subst brk; intros x x' pre post HC HLen HP.
  - rewrite patch_all_nil in HP. inversion HP; subst x'. eexists. repeat split; eauto. eapply ly_decl; eauto.
  - rewrite patch_all_nil in HP. inversion HP; subst x'. eexists. repeat split; eauto. eapply ly_assign; eauto.
  - rewrite patch_all_nil in HP. inversion HP; subst x'. eexists. repeat split; eauto. constructor.
  - cbn [bshape] in b. destruct b as (h0 & l0 & ->).
    unfold patch_all in HP. cbn [fold_left bind] in HP. rewrite <- HLen in HP.
    destruct (patch_bytes pre _ h0 l0 post T x x' HC HP) as (HT & hi & lo & EH & ->).
    exists [N_of_opc Jump; hi; lo]. cbn [ccode cconsts csym cbreaks]. repeat split; auto.
    apply ly_break; auto. exists hi, lo. auto.
  - rewrite patch_all_nil in HP. inversion HP; subst x'. eexists. repeat split; eauto. eapply ly_while; eauto.
  - rewrite patch_all_nil in HP. inversion HP; subst x'. eexists. repeat split; eauto. eapply ly_forstep; eauto.
  - rewrite patch_all_nil in HP. inversion HP; subst x'. eexists. repeat split; eauto. eapply ly_foriter; eauto.
  - destruct (H eq_refl x x' pre post HC HLen HP) as (seg' & C' & K' & S' & B' & L' & LY).
    exists seg'. repeat split; auto. eapply ly_if; eauto. rewrite L'. exact LY.
  - rewrite patch_all_nil in HP. inversion HP; subst x'. eexists. repeat split; eauto. eapply ly_store; eauto.
  - rewrite patch_all_nil in HP. inversion HP; subst x'. exists []. repeat split; auto. constructor.
  - rewrite patch_all_app in HP. destruct (patch_all true bs1 T x) as [x1|] eqn:E1; [|discriminate]. cbn [bind] in HP.
    destruct (H eq_refl x x1 pre (seg2 ++ post)) as (seg1' & C1 & K1 & S1 & B1 & L1 & LY1); auto.
    { rewrite HC, <- app_assoc. reflexivity. }
    destruct (H0 eq_refl x1 x' (pre ++ seg1') post) as (seg2' & C2 & K2 & S2 & B2 & L2 & LY2); auto.
    { rewrite C1, <- app_assoc. reflexivity. }
    { apply Nat2N.inj. rewrite app_length, L1, e, Nat2N.inj_add, HLen. reflexivity. }
    exists (seg1' ++ seg2'). split; [rewrite C2, <- !app_assoc; reflexivity|].
    split; [congruence|]. split; [congruence|]. split; [congruence|]. split; [rewrite !app_length; congruence|].
    eapply lyl_cons; eauto. rewrite L1. exact e.
  - rewrite patch_all_nil in HP. inversion HP; subst x'. exists []. repeat split; auto. constructor; assumption.
  - destruct (H eq_refl x x' pre post HC) as (seg' & C' & K' & S' & B' & L' & LY); auto; [congruence|].
    exists seg'. repeat split; auto. eapply lyc_nil_else; eauto. rewrite L'. assumption.
  - rewrite patch_all_app in HP. destruct (patch_all true bs_b T x) as [x1|] eqn:E1; [|discriminate]. cbn [bind] in HP.
    pose proof (jbytes_len _ _ _ j) as Ljf.
    pose proof (f_equal (@List.length N) e1) as L1. rewrite app_length in L1.
    pose proof (lyl_len _ _ _ _ _ _ l) as LLb.
    destruct (H eq_refl x x1 (pre ++ seg_c ++ jf) (je ++ seg_r ++ post)) as (seg_b' & C1 & K1 & S1 & B1 & Lb & LY1); auto.
    { rewrite HC, <- !app_assoc. reflexivity. }
    { apply Nat2N.inj. rewrite !app_length, Ljf. lia. }
    destruct (H0 eq_refl x1 x' (pre ++ seg_c ++ jf ++ seg_b' ++ je) post) as (seg_r' & C2 & K2 & S2 & B2 & Lr & LY2); auto.
    { rewrite C1, <- !app_assoc. reflexivity. }
    { assert (Lje : List.length je = 3%nat).
      { destruct fin; cbn [jshape] in j0; [apply (jbytes_len _ _ _ j0)|destruct j0 as (hh & ll & ->); reflexivity]. }
      apply Nat2N.inj. rewrite !app_length, Ljf, Lje, Lb. lia. }
    exists (seg_c ++ jf ++ seg_b' ++ je ++ seg_r'). split; [rewrite C2, <- !app_assoc; reflexivity|].
    split; [congruence|]. split; [congruence|]. split; [congruence|]. split; [rewrite !app_length; congruence|].
    replace (List.length (ccode st) + List.length (seg_c ++ jf ++ seg_b))%nat
      with (List.length (ccode st) + List.length (seg_c ++ jf ++ seg_b'))%nat by (rewrite !app_length, Lb; reflexivity).
    eapply lyc_cons; eauto.
    replace (List.length (seg_c ++ jf ++ seg_b' ++ je)) with (List.length (seg_c ++ jf ++ seg_b ++ je)) by (rewrite !app_length, Lb; reflexivity).
    exact j.
Qed.


Definition LYOK (s : stmt) (st st' : cstate) : Prop :=
  exists bs seg, LY None s st st' bs seg /\ ccode st' = ccode st ++ seg /\ cbreaks st' = cbreaks st ++ bs.
Definition LYLOK (l : slist) (st st' : cstate) : Prop :=
  exists bs seg, LYL None l st st' bs seg /\ ccode st' = ccode st ++ seg /\ cbreaks st' = cbreaks st ++ bs.
Definition slist_ly (l : slist) : Prop := forall st st', body_of true l st = COk st' -> LYLOK l st st'.

(* emit_set_var: the bytes of the store *)
Lemma set_var_bytes y st1 st' : emit_set_var true y st1 = COk st' ->
  exists sg, jbytes (setop y) (sidx y) sg /\
    st' = {| ccode := ccode st1 ++ sg; cconsts := cconsts st1; csym := csym st1; cbreaks := cbreaks st1 |}.
Proof.
  unfold emit_set_var, setop. intro H. destruct (sscp y); apply emit_op_bytes in H; try reflexivity;
    destruct H as (sg & _ & HJ & ->); rewrite N2Z.id in HJ; eauto.
Qed.

Lemma ly_decl_ok n e st st' : efrag e = true -> compile_stmt true (SDecl n e) st = COk st' -> LYOK (SDecl n e) st st'.
Proof.
  intros HF HC. cbn [compile_stmt] in HC.
  destruct (compile_expr true e st) as [st1|] eqn:E1; [|discriminate]. cbn [bind] in HC.
  destruct (efrag_sl2 e HF st st1 E1) as (S1 & ops & newc & C & K & _).
  pose proof (efrag_breaks e HF _ _ E1) as B1.
  destruct (st_define n (csym st1)) as [sym' y] eqn:ED. rewrite S1 in ED.
  apply set_var_bytes in HC. destruct HC as (sg & HJ & ->). cbn [with_sym ccode cconsts csym cbreaks] in *.
  exists [], (encode ops ++ sg). split; [|split].
  - eapply ly_decl; eauto; cbn [cconsts csym]; rewrite ?ED; auto.
  - cbn [ccode]. rewrite C, app_assoc. reflexivity.
  - cbn [cbreaks]. rewrite app_nil_r. exact B1.
Qed.

Lemma ly_assign_ok n e st st' : efrag e = true -> compile_stmt true (SAssign (EVar n) e) st = COk st' -> LYOK (SAssign (EVar n) e) st st'.
Proof.
  intros HF HC. cbn [compile_stmt] in HC.
  destruct (compile_expr true e st) as [st1|] eqn:E1; [|discriminate]. cbn [bind] in HC.
  destruct (efrag_sl2 e HF st st1 E1) as (S1 & ops & newc & C & K & _).
  pose proof (efrag_breaks e HF _ _ E1) as B1.
  destruct (st_resolve n (csym st1)) as [y|] eqn:ER; [|discriminate]. rewrite S1 in ER.
  apply set_var_bytes in HC. destruct HC as (sg & HJ & ->).
  exists [], (encode ops ++ sg). split; [|split].
  - eapply ly_assign; eauto.
  - cbn [ccode]. rewrite C, app_assoc. reflexivity.
  - cbn [cbreaks]. rewrite app_nil_r. exact B1.
Qed.

Lemma ly_break_ok st st' : compile_stmt true SBreak st = COk st' -> LYOK SBreak st st'.
Proof.
  intro HC. cbn [compile_stmt] in HC.
  destruct (emit true Jump [JumpPlaceholderZ] st) as [st1|] eqn:E1; [|discriminate]. cbn [bind] in HC.
  apply emit_hole_bytes in E1; [|reflexivity]. destruct E1 as (h0 & l0 & ->). inversion HC; subst st'; clear HC.
  cbn [with_breaks ccode cconsts csym cbreaks].
  exists [pos_of st], [N_of_opc Jump; h0; l0]. split; [|split]; try reflexivity.
  unfold pos_of. apply ly_break; [exists h0, l0; reflexivity|reflexivity|reflexivity].
Qed.

(* a block body compiled between enterScope and leaveScope *)
Lemma ly_block b st st' : slist_ly b -> compile_block true b st = COk st' ->
  exists stx stb bs seg, LYL None b stx stb bs seg /\
    cconsts stx = cconsts st /\ csym stx = st_push (csym st) /\ ccode stx = ccode st /\
    ccode st' = ccode st ++ seg /\ ccode stb = ccode st' /\ cconsts st' = cconsts stb /\
    cbreaks st' = cbreaks st ++ bs /\ csym st' = st_pop (csym stb).
Proof.
  intros HB HC. rewrite compile_block_body in HC.
  destruct (body_of true b (with_sym (st_push (csym st)) st)) as [st3|] eqn:E; [|discriminate]. cbn [bind] in HC.
  inversion HC; subst st'; clear HC.
  destruct (HB _ _ E) as (bs & seg & L & C & B).
  cbn [with_sym ccode cconsts csym cbreaks] in *.
  exists (with_sym (st_push (csym st)) st), st3, bs, seg. cbn [with_sym ccode cconsts csym cbreaks]. auto 10.
Qed.

Lemma ly_while_ok c b st st' : efrag c = true -> slist_ly b ->
  compile_stmt true (SWhile c b) st = COk st' -> LYOK (SWhile c b) st st'.
Proof.
  intros HF HB HC. cbn [compile_stmt] in HC.
  destruct (compile_expr true c st) as [st1|] eqn:E1; [|discriminate]. cbn [bind] in HC.
  destruct (emit true JumpOnFalse [JumpPlaceholderZ] st1) as [st2|] eqn:E2; [|discriminate]. cbn [bind] in HC.
  destruct (compile_block true b (with_breaks [] st2)) as [stb|] eqn:E3; [|discriminate]. cbn [bind] in HC.
  destruct (emit true Jump [pos_of st] stb) as [st3|] eqn:E4; [|discriminate]. cbn [bind] in HC.
  destruct (patch true (pos_of st1) (pos_of st3) st3) as [st4|] eqn:E5; [|discriminate]. cbn [bind] in HC.
  destruct (patch_all true (cbreaks st3) (pos_of st3) st4) as [st5|] eqn:E6; [|discriminate]. cbn [bind] in HC.
  inversion HC; subst st'; clear HC.
  destruct (efrag_sl2 c HF st st1 E1) as (S1 & ops & newc & C & K & _).
  pose proof (efrag_breaks c HF _ _ E1) as B1.
  apply emit_hole_bytes in E2; [|reflexivity]. destruct E2 as (h0 & l0 & ->).
  destruct (ly_block b _ stb HB E3) as (stx & stbb & bs_b & seg_b & L & Kx & Sx & Cx & Cb & Cbb & Kb & Bb & Sb).
  cbn [with_breaks ccode cconsts csym cbreaks app] in Kx, Sx, Cx, Cb, Bb, Sb.
  apply emit_jump_bytes in E4. destruct E4 as (jb & HJB & ->).
  cbn [cbreaks] in E6. rewrite Bb in E6.
  assert (C3 : ccode stb ++ jb = ccode st1 ++ N_of_opc JumpOnFalse :: h0 :: l0 :: (seg_b ++ jb)).
  { rewrite Cb, <- !app_assoc. reflexivity. }
  unfold pos_of at 1 in E5.
  match type of E5 with patch _ _ ?T0 ?s0 = _ =>
    destruct (patch_bytes (ccode st1) _ h0 l0 (seg_b ++ jb) T0 s0 st4 C3 E5) as (HT & hi & lo & EH & ->) end.
  cbn [with_breaks ccode cconsts csym cbreaks] in E6 |- *.
  set (jf := [N_of_opc JumpOnFalse; hi; lo]).
  pose proof (jbytes_len _ _ _ HJB) as Ljb.
  match type of E6 with patch_all _ _ ?T0 ?x = _ =>
    destruct (proj1 (proj2 (ly_brk_patch T0)) _ _ _ _ _ _ L eq_refl x st5 (ccode st1 ++ jf) jb) as (seg_b' & C5 & K5 & S5 & B5 & L5 & LY5);
      [cbn [ccode]; unfold jf; rewrite <- !app_assoc; reflexivity
      |rewrite Cx, !app_length; reflexivity
      |exact E6|] end.
  cbn [ccode cconsts csym cbreaks] in C5, K5, S5, B5.
  exists [], (encode ops ++ jf ++ seg_b' ++ jb).
  assert (LEN : N.of_nat (List.length (ccode st)) + N.of_nat (List.length (encode ops ++ jf ++ seg_b' ++ jb)) = hi * 256 + lo).
  { rewrite EH. unfold pos_of. cbn [ccode]. rewrite C3, C.
    rewrite ?app_length; simpl List.length; rewrite ?app_length; simpl List.length; lia. }
  match type of LY5 with LYL (Some ?X) _ _ _ _ _ => replace X with (N.of_nat (List.length (ccode st)) + N.of_nat (List.length (encode ops ++ jf ++ seg_b' ++ jb))) in LY5 by (rewrite LEN, EH; reflexivity) end.
  split; [|split].
  - assert (F4 : cconsts stx = cconsts st1) by (rewrite Kx; reflexivity).
    assert (F5 : csym stx = st_push (csym st)) by (rewrite Sx, S1; reflexivity).
    assert (F6 : N.of_nat (List.length (ccode stx)) = N.of_nat (List.length (ccode st1)) + 3) by (rewrite Cx, app_length; simpl; lia).
    assert (F8 : jbytes JumpOnFalse (N.of_nat (List.length (ccode st)) + N.of_nat (List.length (encode ops ++ jf ++ seg_b' ++ jb))) jf)
      by (exists hi, lo; split; [reflexivity|rewrite LEN; reflexivity]).
    assert (F9 : jbytes Jump (N.of_nat (List.length (ccode st))) jb) by (rewrite pos_pcof, N2Z.id in HJB; exact HJB).
    refine (ly_while None c b st st1 stx stbb _ bs_b (encode ops) seg_b' jf jb HF E1 C F4 F5 F6 LY5 F8 F9 _ _).
    + cbn [with_breaks cconsts]. rewrite K5. exact Kb.
    + cbn [with_breaks csym]. rewrite S5. exact Sb.
  - cbn [with_breaks ccode]. rewrite C5, C. unfold jf. rewrite <- !app_assoc. reflexivity.
  - cbn [with_breaks cbreaks]. rewrite app_nil_r. exact B1.
Qed.

(* ---------- for loops ---------- *)
Lemma for_loop_body lv rop S b st : for_loop true lv rop S b st =
  (for_declare true lv st >>= fun st1 =>
   emit true rop [match lv with Some _ => 1%Z | None => 0%Z end] st1 >>= fun st2 =>
   emit true JumpOnFalse [JumpPlaceholderZ] st2 >>= for_assign true lv >>= fun st3 =>
   body_of true b (with_sym (st_push (csym st3)) (with_breaks [] st3)) >>= fun st4 =>
   emit true Jump [pos_of st1] (with_sym (st_pop (csym st4)) st4) >>= fun st5 =>
   emit true Drop [S] st5 >>= fun st6 =>
   patch true (pos_of st2) (pos_of st5) st6 >>= patch_all true (cbreaks st6) (pos_of st5) >>= fun st7 =>
   COk (with_breaks (cbreaks st3) st7)).
Proof. destruct b; reflexivity. Qed.

Lemma for_declare_ok lv s3 sa : for_declare true lv s3 = COk sa ->
  cbreaks sa = cbreaks s3 /\ exists segp lvi, LVPRO lv s3 sa segp lvi.
Proof.
  unfold for_declare, LVPRO. destruct lv as [n|]; intro H.
  - destruct (st_define n (csym s3)) as [sym' y] eqn:ED. cbn [fst snd].
    destruct (emit true ONone [] (with_sym sym' s3)) as [s4|] eqn:Ea; [|discriminate]. cbn [bind] in H.
    apply emit_ok in Ea. destruct Ea as (insa & HMa & ->).
    assert (Xa : make (N_of_opc ONone) [] = Some [N_of_opc ONone]) by (vm_compute; reflexivity).
    assert (Ya : insa = [N_of_opc ONone]) by congruence. subst insa.
    apply set_var_bytes in H. destruct H as (sg & HJ & ->). cbn [with_sym ccode cconsts csym cbreaks].
    split; [reflexivity|]. exists ([N_of_opc ONone] ++ sg), (Some (n, y)). exists sg.
    split; [exact HJ|]. split; [reflexivity|]. split; [rewrite <- app_assoc; reflexivity|]. auto.
  - inversion H; subst sa. split; [reflexivity|]. exists [], None. auto 10.
Qed.

Lemma lyr_ok rop S lv b s3 sa st' segp lvi : range_op rop S -> slist_ly b ->
  LVPRO lv s3 sa segp lvi -> for_declare true lv s3 = COk sa ->
  for_loop true lv rop (Z.of_N S) b s3 = COk st' ->
  exists seg_r, LYR lvi b sa st' S rop seg_r /\ ccode st' = ccode sa ++ seg_r /\ cbreaks st' = cbreaks sa.
Proof.
  intros HRO HB HPRO HDecl HC. rewrite for_loop_body, HDecl in HC. cbn [bind] in HC.
  destruct (lvpro_frame _ _ _ _ _ HPRO) as (_ & _ & _ & HLVS).
  assert (EHV : (match lv with Some _ => 1%Z | None => 0%Z end) = Z.of_N (hvof lvi) /\
                (lv = None -> lvi = None) /\ (forall n, lv = Some n -> exists y, lvi = Some (n, y))).
  { unfold LVPRO in HPRO. destruct lv as [n|].
    - destruct HPRO as (sg & _ & _ & _ & _ & _ & ->). split; [reflexivity|]. split; [discriminate|]. intros n0 E; inversion E; subst; eauto.
    - destruct HPRO as (_ & _ & _ & _ & ->). split; [reflexivity|]. split; [reflexivity|discriminate]. }
  destruct EHV as (EHV & ELN & ELS). rewrite EHV in HC.
  assert (X1 : make (N_of_opc rop) [Z.of_N (hvof lvi)] = Some [N_of_opc rop; 0; hvof lvi])
    by (destruct HRO as [[-> ->]|[-> ->]]; destruct lvi; vm_compute; reflexivity).
  assert (X5 : make (N_of_opc Drop) [Z.of_N S] = Some [N_of_opc Drop; 0; S]) by (destruct HRO as [[-> ->]|[-> ->]]; vm_compute; reflexivity).
  destruct (emit true rop [Z.of_N (hvof lvi)] sa) as [st2|] eqn:E1; [|discriminate]. cbn [bind] in HC.
  destruct (emit true JumpOnFalse [JumpPlaceholderZ] st2) as [st2'|] eqn:E2; [|discriminate]. cbn [bind] in HC.
  destruct (for_assign true lv st2') as [st3|] eqn:E2a; [|discriminate]. cbn [bind] in HC.
  destruct (body_of true b (with_sym (st_push (csym st3)) (with_breaks [] st3))) as [st4|] eqn:E3; [|discriminate]. cbn [bind] in HC.
  destruct (emit true Jump [pos_of sa] (with_sym (st_pop (csym st4)) st4)) as [st5|] eqn:E4; [|discriminate]. cbn [bind] in HC.
  destruct (emit true Drop [Z.of_N S] st5) as [st6|] eqn:E5; [|discriminate]. cbn [bind] in HC.
  destruct (patch true (pos_of st2) (pos_of st5) st6) as [st7|] eqn:E6; [|discriminate]. cbn [bind] in HC.
  destruct (patch_all true (cbreaks st6) (pos_of st5) st7) as [st8|] eqn:E7; [|discriminate]. cbn [bind] in HC.
  inversion HC; subst st'; clear HC.
  apply emit_ok in E1. destruct E1 as (ins1 & HM1 & ->).
  assert (Y1 : ins1 = [N_of_opc rop; 0; hvof lvi]) by congruence. subst ins1. clear X1 HM1.
  apply emit_hole_bytes in E2; [|reflexivity]. destruct E2 as (h0 & l0 & ->). cbn [ccode cconsts csym cbreaks] in *.
  set (sr := [N_of_opc rop; 0; hvof lvi]) in *.
  (* the store of the loop variable *)
  assert (HSGV : exists sgv, lvstore lvi (csym sa) sgv /\
            st3 = {| ccode := ((ccode sa ++ sr) ++ [N_of_opc JumpOnFalse; h0; l0]) ++ sgv; cconsts := cconsts sa; csym := csym sa; cbreaks := cbreaks sa |}).
  { unfold for_assign in E2a. destruct lv as [n|].
    - destruct (ELS n eq_refl) as (y & ->). cbn [lvstore] in HLVS. destruct HLVS as [_ HRy]. cbn [csym] in E2a. rewrite HRy in E2a.
      apply set_var_bytes in E2a. destruct E2a as (sg & HJ & ->). exists sg. cbn [lvstore ccode cconsts csym cbreaks]. auto.
    - rewrite (ELN eq_refl). inversion E2a; subst st3. exists []. split; [reflexivity|]. rewrite app_nil_r. reflexivity. }
  destruct HSGV as (sgv & HLV & ->). cbn [ccode cconsts csym cbreaks] in *.
  destruct (HB _ _ E3) as (bs_b & seg_b & L & Cb & Bb).
  cbn [with_sym with_breaks ccode cconsts csym cbreaks app] in Cb, Bb.
  apply emit_jump_bytes in E4. destruct E4 as (jb & HJB & ->). cbn [with_sym ccode cconsts csym cbreaks] in *.
  apply emit_ok in E5. destruct E5 as (ins5 & HM5 & ->).
  assert (Y5 : ins5 = [N_of_opc Drop; 0; S]) by congruence. subst ins5. clear X5 HM5.
  cbn [ccode cconsts csym cbreaks] in *.
  set (dr := [N_of_opc Drop; 0; S]) in *.
  pose proof (jbytes_len _ _ _ HJB) as Ljb.
  assert (C6 : (ccode st4 ++ jb) ++ dr = (ccode sa ++ sr) ++ N_of_opc JumpOnFalse :: h0 :: l0 :: (sgv ++ seg_b ++ jb ++ dr)).
  { rewrite Cb, <- !app_assoc. reflexivity. }
  assert (EP : pos_of {| ccode := ccode sa ++ sr; cconsts := cconsts sa; csym := csym sa; cbreaks := cbreaks sa |} = Z.of_nat (List.length (ccode sa ++ sr)))
    by reflexivity.
  rewrite EP in E6.
  match type of E6 with patch _ _ ?T0 ?s0 = _ =>
    destruct (patch_bytes (ccode sa ++ sr) _ h0 l0 (sgv ++ seg_b ++ jb ++ dr) T0 s0 st7 C6 E6) as (HTz & hi & lo & EH & ->) end.
  cbn [ccode cconsts csym cbreaks] in E7 |- *. rewrite Bb in E7.
  set (jf := [N_of_opc JumpOnFalse; hi; lo]).
  match type of E7 with patch_all _ _ ?T0 ?x = _ =>
    destruct (proj1 (proj2 (ly_brk_patch T0)) _ _ _ _ _ _ L eq_refl x st8 (((ccode sa ++ sr) ++ jf) ++ sgv) (jb ++ dr)) as (seg_b' & C8 & K8 & S8 & B8 & L8 & LY8);
      [cbn [ccode]; unfold jf; rewrite <- !app_assoc; reflexivity
      |cbn [with_sym with_breaks ccode]; unfold jf; rewrite !app_length; reflexivity
      |exact E7|] end.
  cbn [ccode cconsts csym cbreaks] in C8, K8, S8, B8.
  assert (LEN : N.of_nat (List.length (ccode sa)) + N.of_nat (List.length (sr ++ jf ++ sgv ++ seg_b' ++ jb)) = hi * 256 + lo).
  { rewrite EH. unfold pos_of. cbn [ccode]. rewrite Cb.
    rewrite ?app_length; simpl List.length; rewrite ?app_length; simpl List.length; lia. }
  match type of LY8 with LYL (Some ?X) _ _ _ _ _ => replace X with (N.of_nat (List.length (ccode sa)) + N.of_nat (List.length (sr ++ jf ++ sgv ++ seg_b' ++ jb))) in LY8 by (rewrite LEN, EH; reflexivity) end.
  exists (sr ++ jf ++ sgv ++ seg_b' ++ jb ++ dr).
  split; [|split].
  - match type of LY8 with LYL _ _ ?stx _ _ _ => refine (lyr rop S lvi b sa stx st4 _ bs_b seg_b' jf jb sgv HLV _ _ _ LY8 _ _ _ _) end.
    + reflexivity.
    + reflexivity.
    + cbn [with_sym with_breaks ccode]. unfold sr. rewrite !app_length. simpl. lia.
    + exists hi, lo. split; [reflexivity|]. symmetry. exact LEN.
    + rewrite pos_pcof, N2Z.id in HJB. exact HJB.
    + cbn [with_breaks cconsts]. exact K8.
    + cbn [with_breaks csym]. exact S8.
  - cbn [with_breaks ccode]. rewrite C8. unfold jf. rewrite <- !app_assoc. reflexivity.
  - reflexivity.
Qed.

Lemma ly_forstep_ok lv start stop step b st st' :
  ofrag start = true -> efrag stop = true -> ofrag step = true -> slist_ly b ->
  compile_stmt true (SForStep lv start stop step b) st = COk st' -> LYOK (SForStep lv start stop step b) st st'.
Proof.
  intros F1 F2 F3 HB HC. cbn [compile_stmt] in HC.
  pose proof (ofrag_expr step 1 F3) as F3'. pose proof (ofrag_expr start 0 F1) as F1'.
  destruct (compile_expr true stop st) as [s1|] eqn:E1; [|discriminate]. cbn [bind] in HC.
  destruct (compile_expr true (match step with OSome e => e | ONoneE => ENum 1 end) s1) as [s2|] eqn:E2; [|discriminate]. cbn [bind] in HC.
  destruct (compile_expr true (match start with OSome e => e | ONoneE => ENum 0 end) s2) as [s3|] eqn:E3; [|discriminate]. cbn [bind] in HC.
  destruct (efrag_sl2 _ F2 st s1 E1) as (S1 & o1 & c1 & C1 & K1 & _). pose proof (efrag_breaks _ F2 _ _ E1) as B1.
  destruct (efrag_sl2 _ F3' s1 s2 E2) as (S2 & o2 & c2 & C2 & K2 & _). pose proof (efrag_breaks _ F3' _ _ E2) as B2.
  destruct (efrag_sl2 _ F1' s2 s3 E3) as (S3 & o3 & c3 & C3 & K3 & _). pose proof (efrag_breaks _ F1' _ _ E3) as B3.
  assert (HD : exists sa, for_declare true lv s3 = COk sa).
  { rewrite for_loop_body in HC. destruct (for_declare true lv s3) as [sa|]; [eauto|discriminate]. }
  destruct HD as (sa & HD). destruct (for_declare_ok lv s3 sa HD) as (Bp & segp & lvi & HPRO).
  destruct (lvpro_frame _ _ _ _ _ HPRO) as (_ & _ & Lp & _).
  change 3%Z with (Z.of_N 3) in HC.
  destruct (lyr_ok StepRange 3 lv b s3 sa st' segp lvi (or_introl (conj eq_refl eq_refl)) HB HPRO HD HC) as (seg_r & LR & CR & BR).
  assert (Cp : ccode sa = ccode s3 ++ segp).
  { unfold LVPRO in HPRO. destruct lv; [destruct HPRO as (sg & _ & _ & Cp & _); exact Cp|destruct HPRO as (Cp & _ & _ & -> & _); rewrite app_nil_r; exact Cp]. }
  exists [], (encode o1 ++ encode o2 ++ encode o3 ++ segp ++ seg_r). split; [|split].
  - eapply ly_forstep; eauto.
  - rewrite CR, Cp, C3, C2, C1, <- !app_assoc. reflexivity.
  - rewrite app_nil_r. congruence.
Qed.

Lemma ly_foriter_ok lv t e b st st' :
  (t = TStr \/ t = TArr \/ t = TMap) -> efrag e = true -> slist_ly b ->
  compile_stmt true (SForIter lv t e b) st = COk st' -> LYOK (SForIter lv t e b) st st'.
Proof.
  intros Ht F HB HC. cbn [compile_stmt] in HC.
  assert (HC' : compile_expr true e st >>= emit_const true (KNum 0) >>= for_loop true lv IterRange 2 b = COk st')
    by (destruct Ht as [->|[->| ->]]; exact HC). clear HC.
  destruct (compile_expr true e st) as [s1|] eqn:E1; [|discriminate]. cbn [bind] in HC'.
  destruct (emit_const true (KNum 0) s1) as [s2|] eqn:E2; [|discriminate]. cbn [bind] in HC'.
  destruct (efrag_sl2 _ F st s1 E1) as (S1 & o1 & c1 & C1 & K1 & _). pose proof (efrag_breaks _ F _ _ E1) as B1.
  destruct (const_correct _ _ _ E2) as (S2 & segk & C2 & K2 & _).
  assert (B2 : cbreaks s2 = cbreaks s1) by (unfold emit_const in E2; apply emit_breaks in E2; exact E2).
  assert (HD : exists sa, for_declare true lv s2 = COk sa).
  { rewrite for_loop_body in HC'. destruct (for_declare true lv s2) as [sa|]; [eauto|discriminate]. }
  destruct HD as (sa & HD). destruct (for_declare_ok lv s2 sa HD) as (Bp & segp & lvi & HPRO).
  change 2%Z with (Z.of_N 2) in HC'.
  destruct (lyr_ok IterRange 2 lv b s2 sa st' segp lvi (or_intror (conj eq_refl eq_refl)) HB HPRO HD HC') as (seg_r & LR & CR & BR).
  assert (Cp : ccode sa = ccode s2 ++ segp).
  { unfold LVPRO in HPRO. destruct lv; [destruct HPRO as (sg & _ & _ & Cp & _); exact Cp|destruct HPRO as (Cp & _ & _ & -> & _); rewrite app_nil_r; exact Cp]. }
  exists [], (encode o1 ++ segk ++ segp ++ seg_r). split; [|split].
  - eapply ly_foriter; eauto.
  - rewrite CR, Cp, C2, C1, <- !app_assoc. reflexivity.
  - rewrite app_nil_r. congruence.
Qed.

(* one `cond / block` (compileConditionalBlock): a builder for the head of a
   chain whose end jump still holds the placeholder *)
Lemma cond_ly c b st st1 : efrag c = true -> slist_ly b ->
  compile_cond true c b st = COk st1 ->
  exists bs_h segh, cbreaks st1 = cbreaks st ++ bs_h /\ ccode st1 = ccode st ++ segh /\
    forall t els st' End js bs_r seg_r, LYC None false t els st1 st' End js bs_r seg_r ->
      LYC None false (CCons c b t) els st st' End ((pos_of st1 - 3)%Z :: js) (bs_h ++ bs_r) (segh ++ seg_r).
Proof.
  intros HF HB HC. rewrite compile_cond_body in HC.
  destruct (compile_expr true c st) as [ste|] eqn:E1; [|discriminate]. cbn [bind] in HC.
  destruct (emit true JumpOnFalse [JumpPlaceholderZ] ste) as [st2|] eqn:E2; [|discriminate]. cbn [bind] in HC.
  destruct (body_of true b (with_sym (st_push (csym st2)) st2)) as [st3|] eqn:E3; [|discriminate]. cbn [bind] in HC.
  destruct (emit true Jump [JumpPlaceholderZ] (with_sym (st_pop (csym st3)) st3)) as [st4|] eqn:E4; [|discriminate]. cbn [bind] in HC.
  rename HC into E5.
  destruct (efrag_sl2 c HF st ste E1) as (S1 & ops & newc & C & K & _).
  pose proof (efrag_breaks c HF _ _ E1) as B1.
  apply emit_hole_bytes in E2; [|reflexivity]. destruct E2 as (h0 & l0 & ->). cbn [csym] in E3.
  destruct (HB _ _ E3) as (bs_b & seg_b & L & Cb & Bb).
  cbn [with_sym ccode cconsts csym cbreaks] in Cb, Bb.
  apply emit_hole_bytes in E4; [|reflexivity]. destruct E4 as (h1 & l1 & ->). cbn [with_sym ccode cconsts csym cbreaks] in *.
  assert (C4 : ccode st3 ++ [N_of_opc Jump; h1; l1] = ccode ste ++ N_of_opc JumpOnFalse :: h0 :: l0 :: (seg_b ++ [N_of_opc Jump; h1; l1])).
  { rewrite Cb, <- !app_assoc. reflexivity. }
  unfold pos_of at 1 in E5.
  match type of E5 with patch _ _ ?T0 ?s0 = _ =>
    destruct (patch_bytes (ccode ste) _ h0 l0 (seg_b ++ [N_of_opc Jump; h1; l1]) T0 s0 st1 C4 E5) as (HT & hi & lo & EH & ->) end.
  cbn [ccode cconsts csym cbreaks].
  set (jf := [N_of_opc JumpOnFalse; hi; lo]) in *.
  set (je := [N_of_opc Jump; h1; l1]) in *.
  set (stc := {| ccode := ccode ste ++ N_of_opc JumpOnFalse :: hi :: lo :: seg_b ++ je;
                 cconsts := cconsts st3; csym := st_pop (csym st3); cbreaks := cbreaks st3 |}) in *.
  assert (EJ : (pos_of stc - 3)%Z = Z.of_nat (List.length (ccode st) + List.length (encode ops ++ jf ++ seg_b))).
  { unfold pos_of, stc, jf, je. cbn [ccode]. rewrite C. rewrite ?app_length; simpl List.length; rewrite ?app_length; simpl List.length; lia. }
  assert (JFT : N.of_nat (List.length (ccode st)) + N.of_nat (List.length (encode ops ++ jf ++ seg_b ++ je)) = hi * 256 + lo).
  { rewrite EH. unfold pos_of. cbn [ccode]. rewrite C4, C. unfold je. rewrite ?app_length; simpl List.length; rewrite ?app_length; simpl List.length; lia. }
  exists bs_b, (encode ops ++ jf ++ seg_b ++ je). split; [unfold stc; cbn [cbreaks]; rewrite Bb, B1; reflexivity|]. split.
  { unfold stc, jf. cbn [ccode]. rewrite C, <- !app_assoc. reflexivity. }
  intros t els st' End js bs_r seg_r HT2. rewrite EJ, <- !app_assoc.
  set (stx := {| ccode := ccode ste ++ [N_of_opc JumpOnFalse; h0; l0]; cconsts := cconsts ste; csym := st_push (csym ste); cbreaks := cbreaks ste |}) in *.
  assert (F4 : cconsts stx = cconsts ste) by reflexivity.
  assert (F5 : csym stx = st_push (csym st)) by (unfold stx; cbn [csym]; rewrite S1; reflexivity).
  assert (F6 : N.of_nat (List.length (ccode stx)) = N.of_nat (List.length (ccode ste)) + 3) by (unfold stx; cbn [ccode]; rewrite app_length; simpl; lia).
  assert (F8 : jbytes JumpOnFalse (N.of_nat (List.length (ccode st)) + N.of_nat (List.length (encode ops ++ jf ++ seg_b ++ je))) jf).
  { exists hi, lo. split; [reflexivity|]. rewrite <- JFT. reflexivity. }
  assert (F9 : jshape false End je) by (exists h1, l1; reflexivity).
  assert (G1 : cconsts stc = cconsts st3) by reflexivity.
  assert (G2 : csym stc = st_pop (csym st3)) by reflexivity.
  assert (G3 : N.of_nat (List.length (ccode stc)) = N.of_nat (List.length (ccode st3)) + 3).
  { unfold stc, je. cbn [ccode]. rewrite Cb. unfold stx. cbn [ccode]. rewrite ?app_length; simpl List.length; rewrite ?app_length; simpl List.length; lia. }
  exact (lyc_cons None false c b t els st ste stx st3 stc st' End js bs_b bs_r (encode ops) seg_b jf je seg_r HF E1 C F4 F5 F6 L F8 F9 G1 G2 G3 HT2).
Qed.

Fixpoint clist_lyok (l : clist) : Prop :=
  match l with CNil => True | CCons c b t => efrag c = true /\ slist_ly b /\ clist_lyok t end.

(* the else-if blocks: the chain up to its (still unknown) tail *)
Lemma elifs_ly : forall l, clist_lyok l -> forall jumps st st2 js',
  compile_elifs true l jumps st = (COk st2, js') ->
  exists js bs seg, js' = jumps ++ js /\ ccode st2 = ccode st ++ seg /\ cbreaks st2 = cbreaks st ++ bs /\
    forall els st' End bs_e seg_e, LYC None false CNil els st2 st' End [] bs_e seg_e ->
      LYC None false l els st st' End js (bs ++ bs_e) (seg ++ seg_e).
Proof.
  induction l as [|c b t IH]; intros HOK jumps st st2 js' HC.
  - cbn [compile_elifs] in HC. inversion HC; subst.
    exists [], [], []. split; [rewrite app_nil_r; reflexivity|]. split; [rewrite app_nil_r; reflexivity|]. split; [rewrite app_nil_r; reflexivity|].
    intros els st' End bs_e seg_e HT. exact HT.
  - destruct HOK as (HF & HB & HOK). cbn [compile_elifs] in HC.
    destruct (compile_cond true c b st) as [st1|] eqn:E1; [|inversion HC].
    destruct (cond_ly c b st st1 HF HB E1) as (bs_h & segh & B1 & C1 & BUILD).
    destruct (IH HOK _ _ _ _ HC) as (js & bs & seg & EJ & C2 & B2 & TAIL).
    exists ((pos_of st1 - 3)%Z :: js), (bs_h ++ bs), (segh ++ seg). split; [rewrite EJ, <- app_assoc; reflexivity|].
    split; [rewrite C2, C1, app_assoc; reflexivity|]. split; [rewrite B2, B1, app_assoc; reflexivity|].
    intros els st' End bs_e seg_e HT. rewrite <- !app_assoc. apply BUILD. apply TAIL. exact HT.
Qed.

(* the final patching of compileIfStatement turns the pending chain into the
   final one; segment lengths and all compile-time states stay *)
Lemma lyc_patch brk : forall l els st st' End js bs seg, LYC brk false l els st st' End js bs seg ->
  forall T s s' pre post, Z.to_N T = End -> ccode s = pre ++ seg ++ post -> List.length pre = List.length (ccode st) ->
  patch_all true js T s = COk s' ->
  exists seg', ccode s' = pre ++ seg' ++ post /\ cconsts s' = cconsts s /\ csym s' = csym s /\ cbreaks s' = cbreaks s /\
    List.length seg' = List.length seg /\ LYC brk true l els st st' End js bs seg'.
Proof.
  induction l as [|c b t IH]; intros els st st' End js bs seg HL T s s' pre post HT HC HLen HP.
  - inversion HL; subst; rewrite patch_all_nil in HP; inversion HP; subst s'.
    + exists []. repeat split; auto. constructor; assumption.
    + exists seg. repeat split; auto. econstructor; eauto.
  - inversion HL; subst.
    match goal with H : jshape false _ _ |- _ => cbn [jshape] in H; destruct H as (h0 & l0 & ->) end.
    unfold patch_all in HP. cbn [fold_left bind] in HP.
    match type of HP with fold_left _ _ ?X = _ => destruct X as [s1|e] eqn:E1; [|rewrite fold_cerr in HP; discriminate] end.
    change (patch_all true js0 T s1 = COk s') in HP.
    assert (CC : ccode s = (pre ++ seg_c ++ jf ++ seg_b) ++ N_of_opc Jump :: h0 :: l0 :: (seg_r ++ post)).
    { rewrite HC, <- !app_assoc. reflexivity. }
    assert (EL : (List.length (ccode st) + List.length (seg_c ++ jf ++ seg_b))%nat = List.length (pre ++ seg_c ++ jf ++ seg_b)).
    { rewrite (app_length pre), HLen. reflexivity. }
    rewrite EL in E1.
    destruct (patch_bytes _ _ h0 l0 (seg_r ++ post) T s s1 CC E1) as (HTr & hi & lo & EH & ->).
    match goal with HJ : jbytes JumpOnFalse _ jf |- _ => pose proof (jbytes_len _ _ _ HJ) as Ljf end.
    match goal with HB : LYL _ b stx stb _ seg_b |- _ => pose proof (lyl_len _ _ _ _ _ _ HB) as LLb end.
    match goal with H1 : ccode st1 = ccode st ++ seg_c |- _ => pose proof (f_equal (@List.length N) H1) as L1; rewrite app_length in L1 end.
    match type of HP with patch_all _ _ _ ?s1 = _ => set (s1v := s1) in * end.
    lazymatch goal with HT2 : LYC _ false t els sty st' _ js0 _ seg_r |- _ =>
      destruct (IH els sty st' _ js0 _ seg_r HT2 T s1v s' (pre ++ seg_c ++ jf ++ seg_b ++ [N_of_opc Jump; hi; lo]) post eq_refl) as
        (seg_r' & C' & K' & S' & B' & L' & LY'); [unfold s1v; cbn [ccode]; rewrite <- !app_assoc; reflexivity| |exact HP|] end.
    { apply Nat2N.inj. rewrite !app_length, Ljf. simpl List.length. lia. }
    unfold s1v in *. cbn [ccode cconsts csym cbreaks] in *.
    exists (seg_c ++ jf ++ seg_b ++ [N_of_opc Jump; hi; lo] ++ seg_r').
    split; [rewrite C', <- !app_assoc; reflexivity|]. split; [exact K'|]. split; [exact S'|]. split; [exact B'|].
    split; [rewrite !app_length, L'; reflexivity|].
    eapply lyc_cons; try eassumption.
    + match goal with HJ : jbytes JumpOnFalse ?X jf |- jbytes JumpOnFalse ?Y jf => replace Y with X; [exact HJ|] end.
      rewrite !app_length. reflexivity.
    + cbn [jshape]. exists hi, lo. split; [reflexivity|exact EH].
Qed.

Lemma ly_if_ok c b elifs els st st' : efrag c = true -> slist_ly b -> clist_lyok elifs ->
  (match els with NoElse => True | Else eb => slist_ly eb end) ->
  compile_stmt true (SIf c b elifs els) st = COk st' ->
  LYOK (SIf c b elifs els) st st'.
Proof.
  intros HF HB HEL HE HC. cbn [compile_stmt] in HC.
  destruct (compile_cond true c b st) as [st1|] eqn:E1; [|discriminate]. cbn [bind] in HC.
  destruct (compile_elifs true elifs [(pos_of st1 - 3)%Z] st1) as [r jumps] eqn:E2.
  destruct r as [st2|]; [|discriminate]. cbn [bind] in HC.
  destruct (cond_ly c b st st1 HF HB E1) as (bs_h & segh & B1 & C1 & BUILD).
  destruct (elifs_ly elifs HEL _ _ _ _ E2) as (js & bs2 & seg2 & EJ & C2 & B2 & TAIL).
  subst jumps. cbn [app] in HC.
  assert (TAILOK : exists st3 ste End bs_e seg_e,
            (match els with NoElse => COk st2 | Else eb => compile_block true eb st2 end) = COk st3 /\
            LYC None false CNil els st2 ste End [] bs_e seg_e /\ ccode st3 = ccode st2 ++ seg_e /\
            End = N.of_nat (List.length (ccode st3)) /\ cconsts st3 = cconsts ste /\ csym st3 = csym ste /\
            cbreaks st3 = cbreaks st2 ++ bs_e).
  { destruct els as [|eb].
    - exists st2, st2, (N.of_nat (List.length (ccode st2))), [], []. repeat split; auto; [constructor; reflexivity|rewrite app_nil_r; reflexivity|rewrite app_nil_r; reflexivity].
    - destruct (compile_block true eb st2) as [st3|] eqn:E6; [|discriminate]. cbn [bind] in HC.
      destruct (ly_block eb st2 st3 HE E6) as (sty & stee & bs_e & seg_e & Le & Ky & Sy & Cy & Ce & Cee & Ke & Be & Se).
      exists st3, st3, (N.of_nat (List.length (ccode st2)) + N.of_nat (List.length seg_e)), bs_e, seg_e.
      split; [reflexivity|]. split; [apply (lyc_nil_else None false eb st2 sty stee st3 _ bs_e seg_e Ky Sy (f_equal (@List.length N) Cy) Le eq_refl Ke Se)|].
      split; [exact Ce|]. split; [rewrite Ce, app_length, Nat2N.inj_add; reflexivity|]. auto. }
  destruct TAILOK as (st3 & ste & End & bs_e & seg_e & E3 & LT & C3 & EE & K3 & S3 & B3). rewrite E3 in HC. cbn [bind] in HC.
  pose proof (BUILD _ _ _ _ _ _ _ (TAIL _ _ _ _ _ LT)) as LC.
  destruct (lyc_patch _ _ _ _ _ _ _ _ _ LC (pos_of st3) st3 st' (ccode st) []) as (seg' & C' & K' & S' & B' & L' & LY).
  { unfold pos_of. rewrite EE. lia. }
  { rewrite C3, C2, C1, app_nil_r, <- !app_assoc. reflexivity. }
  { reflexivity. }
  { exact HC. }
  rewrite app_nil_r in C'.
  exists (bs_h ++ bs2 ++ bs_e), seg'. split; [|split; [exact C'|]].
  - eapply ly_if; [|rewrite K'; exact K3|rewrite S'; exact S3].
    replace (N.of_nat (List.length (ccode st)) + N.of_nat (List.length seg')) with End; [exact LY|].
    rewrite EE, C3, C2, C1, L', !app_length, !Nat2N.inj_add. lia.
  - rewrite B', B3, B2, B1, <- !app_assoc. reflexivity.
Qed.


(* ---------- every statement of the fragment ---------- *)
Theorem ly_all :
  (forall s, lfrag_stmt s = true -> forall st st', compile_stmt true s st = COk st' -> LYOK s st st') /\
  (forall l, lfrag_slist l = true -> slist_ly l) /\
  (forall l, lfrag_clist l = true -> clist_lyok l) /\
  (forall o, match o with NoElse => True | Else b => lfrag_slist b = true -> slist_ly b end).
Proof.
  apply stmt_mutind; try (intros; exact I).
  - intros n e HF st st' HC. apply (ly_decl_ok n e st st' HF HC).
  - intros target e HF st st' HC. destruct target; try discriminate HF. apply (ly_assign_ok n e st st' HF HC).
  - intros c b Hb elifs Hc els Ho HF st st' HC. cbn [lfrag_stmt] in HF.
    apply andb_true_iff in HF. destruct HF as [HF F4]. apply andb_true_iff in HF. destruct HF as [HF F3].
    apply andb_true_iff in HF. destruct HF as [F1 F2].
    apply (ly_if_ok c b elifs els st st' F1 (Hb F2) (Hc F3)); auto. destruct els; [exact I|apply Ho; exact F4].
  - intros c b Hb HF st st' HC. cbn [lfrag_stmt] in HF. apply andb_true_iff in HF. destruct HF as [F1 F2].
    apply (ly_while_ok c b st st' F1 (Hb F2) HC).
  - intros lv start stop step b Hb HF st st' HC. cbn [lfrag_stmt] in HF.
    apply andb_true_iff in HF. destruct HF as [HF F4]. apply andb_true_iff in HF. destruct HF as [HF F3].
    apply andb_true_iff in HF. destruct HF as [F1 F2].
    apply (ly_forstep_ok lv start stop step b st st' F1 F2 F3 (Hb F4) HC).
  - intros lv t e b Hb HF st st' HC. cbn [lfrag_stmt] in HF.
    assert (Ht : t = TStr \/ t = TArr \/ t = TMap) by (destruct t; try discriminate HF; auto).
    assert (HF' : efrag e && lfrag_slist b = true) by (destruct t; try discriminate HF; exact HF).
    apply andb_true_iff in HF'. destruct HF' as [F1 F2].
    apply (ly_foriter_ok lv t e b st st' Ht F1 (Hb F2) HC).
  - intros _ st st' HC. apply (ly_break_ok st st' HC).
  - intros _ st st' HC. cbn [compile_stmt] in HC. inversion HC; subst.
    exists [], []. split; [constructor|]. split; rewrite app_nil_r; reflexivity.
  - intros b _ HF. discriminate.
  - intros w HF. discriminate.
  - intros _ st st' HC. cbn [body_of] in HC. inversion HC; subst.
    exists [], []. split; [constructor|]. split; rewrite app_nil_r; reflexivity.
  - intros s Hs t Ht HF st st' HC. cbn [lfrag_slist] in HF. apply andb_true_iff in HF. destruct HF as [F1 F2].
    cbn [body_of] in HC. destruct (compile_stmt true s st) as [st1|] eqn:E1; [|discriminate]. cbn [bind] in HC.
    destruct (Hs F1 st st1 E1) as (bs1 & seg1 & L1 & C1 & B1). rewrite compile_slist_body in HC.
    destruct (Ht F2 st1 st' HC) as (bs2 & seg2 & L2 & C2 & B2).
    exists (bs1 ++ bs2), (seg1 ++ seg2). split; [|split; [rewrite C2, C1, app_assoc; reflexivity|rewrite B2, B1, app_assoc; reflexivity]].
    eapply lyl_cons; eauto. rewrite C1, app_length, Nat2N.inj_add. reflexivity.
  - intros c b Hb t Ht HF. cbn [lfrag_clist] in HF.
    apply andb_true_iff in HF. destruct HF as [HF F3]. apply andb_true_iff in HF. destruct HF as [F1 F2].
    cbn [clist_lyok]. auto.
  - intros b Hb. exact Hb.
Qed.

(* no break outside a loop: nothing is pending *)
Lemma ly_no_breaks :
  (forall brk s st st' bs seg, LY brk s st st' bs seg -> nb_stmt s = true -> bs = []) /\
  (forall brk l st st' bs seg, LYL brk l st st' bs seg -> nb_slist l = true -> bs = []) /\
  (forall brk fin l els st st' End js bs seg, LYC brk fin l els st st' End js bs seg ->
     nb_clist l = true -> match els with NoElse => True | Else eb => nb_slist eb = true end -> bs = []) /\
  (forall lvi b s3 st' S rop seg, LYR lvi b s3 st' S rop seg -> True).
Proof.
  apply LY_mutind; intros; try reflexivity; try exact I.
  - discriminate.
  - cbn [nb_stmt] in H0. apply andb_true_iff in H0. destruct H0 as [H0 F3]. apply andb_true_iff in H0. destruct H0 as [F1 F2].
    apply H; [cbn [nb_clist]; rewrite F1, F2; reflexivity|destruct els; [exact I|exact F3]].
  - cbn [nb_slist] in H1. apply andb_true_iff in H1. destruct H1 as [F1 F2]. rewrite (H F1), (H0 F2). reflexivity.
  - apply H. exact H1.
  - cbn [nb_clist] in H1. apply andb_true_iff in H1. destruct H1 as [F1 F2]. rewrite (H F1), (H0 F2 H2). reflexivity.
Qed.

(* ====================================================================== *)
(* Part E: whole programs                                                   *)
(* ====================================================================== *)
(* compile_correct with locals: for every program of the fragment lpfrag
   (declarations and for loops with a loop variable at top level AND inside
   blocks, assignments to globals and locals, if / else-if / else, while,
   break, for loops over step ranges and iterables, nested; expressions in
   efrag): if the compiler succeeds and the scoped big-step semantics lx_l is
   defined for some fuel, the VM model started by NewVM runs to the end of the
   code, halts there with an empty operand stack, and every global the
   compiler knows holds the value the semantics gives it. *)
Theorem compile_correct_locals : forall (p : slist) (st : cstate) (fuel : nat) (env' : senv),
  lpfrag p = true -> compile p = COk st -> lx_l fuel p [[]] = Some (env', false) ->
  st_local_count (csym st) + ldepth p <= StackSize ->
  let prog := program_of (bytecode_of st) in
  exists s, reaches prog (vm_init prog) s /\
            vm_step prog s = Halted s /\ ostack s = [] /\
            forall n y v, st_resolve n (csym st) = Some y -> slook n env' = Some v ->
                          nth_error (globals s) (N.to_nat (sidx y)) = Some v.
Proof.
  intros p st fuel env' HF HC HX HD prog. unfold lpfrag in HF. apply andb_true_iff in HF. destruct HF as [HF HNB].
  unfold compile, compile_program in HC. rewrite compile_slist_body in HC.
  destruct (proj1 (proj2 ly_all) p HF cinit st HC) as (bs & seg & L0 & C & B).
  pose proof (proj1 (proj2 ly_no_breaks) _ _ _ _ _ _ L0 HNB) as ->.
  destruct (proj1 (proj2 (ly_brk_patch 0%Z)) _ _ _ _ _ _ L0 eq_refl st st (ccode cinit) []) as (seg' & C' & _ & _ & _ & _ & L);
    [rewrite app_nil_r; exact C|reflexivity|reflexivity|].
  rewrite app_nil_r, C in C'. apply app_inv_head in C'. subst seg'.
  destruct (proj1 (proj2 ly_frame) _ _ _ _ _ _ L) as [_ SYp].
  pose proof (sy_out _ _ SYp) as HO. simpl in HO.
  pose proof (sy_inv _ _ SYp inv_new) as HI'.
  set (G := N.to_nat (st_global_count (csym st))). set (Lc := N.to_nat (st_local_count (csym st))).
  assert (HM : MS G Lc cinit [[]] [] (vm_init prog)).
  { unfold MS, vm_init, prog, program_of, bytecode_of. cbn [ostack locals globals plcount pgcount out_lcount out_gcount].
    rewrite !repeat_length. repeat split; auto. constructor; [|constructor]. split; [intro n; split; reflexivity|intros n v y HA; discriminate]. }
  destruct (proj1 (proj2 (sim_all fuel)) _ p cinit st _ seg L G Lc [[]] env' false [] HX prog (vm_init prog) [] []) as (s & R & I & (A1 & A2 & A3 & A4)); auto.
  - unfold prog, program_of, bytecode_of. cbn [pcode out_code]. rewrite C, app_nil_r. reflexivity.
  - exists []. unfold prog, program_of, bytecode_of. cbn [pconsts out_consts]. rewrite app_nil_r. reflexivity.
  - apply inv_new.
  - unfold rootcount, G, st_global_count. rewrite HO. cbn [last]. lia.
  - rewrite (bound_top _ HO). unfold Lc, st_local_count. lia.
  - unfold Lc. cbn [List.length]. lia.
  - exists s. split; [exact R|]. split; [|split; [exact A1|]].
    + unfold vm_step. rewrite I. unfold prog, program_of, bytecode_of. cbn [pcode out_code vm_init ip]. rewrite C.
      simpl N.of_nat. rewrite N.add_0_l, Nat2N.id, skipn_all. reflexivity.
    + intros n y v HR HV. pose proof HR as HR'. rewrite resolve_sres in HR'.
      pose proof (rels_lookup _ _ _ _ A4 n y v HR' HV) as SH. unfold slot_holds in SH.
      destruct (sym_top_globals _ HO HI' n y HR) as [SG _]. rewrite SG in SH. exact SH.
Qed.

(* ====================================================================== *)
(* Part F: the layout for the fragment WITH element stores (static uses)    *)
(* ====================================================================== *)
Lemma ly_store_ok l i e st st' : efrag l = true -> efrag i = true -> efrag e = true ->
  compile_stmt true (SAssign (EIndex l i) e) st = COk st' -> LYOK (SAssign (EIndex l i) e) st st'.
Proof.
  intros HFl HFi HFe HC. cbn [compile_stmt] in HC.
  destruct (compile_expr true e st) as [st1|] eqn:E1; [|discriminate]. cbn [bind] in HC.
  apply bind_ok in HC. destruct HC as (st3 & HC3 & HC). apply bind_ok in HC3. destruct HC3 as (st2 & E2 & E3).
  destruct (efrag_sl2 e HFe st st1 E1) as (S1 & ops1 & newc1 & C1 & K1 & _).
  destruct (efrag_sl2 l HFl st1 st2 E2) as (S2 & ops2 & newc2 & C2 & K2 & _).
  destruct (efrag_sl2 i HFi st2 st3 E3) as (S3 & ops3 & newc3 & C3 & K3 & _).
  pose proof (efrag_breaks e HFe _ _ E1) as B1. pose proof (efrag_breaks l HFl _ _ E2) as B2. pose proof (efrag_breaks i HFi _ _ E3) as B3.
  pose proof (emit_enc0 SetIndex _ _ eq_refl HC) as ->. cbn [csym ccode cconsts cbreaks].
  change (enc1 (SetIndex, 0)) with [N_of_opc SetIndex].
  exists [], (encode ops1 ++ encode ops2 ++ encode ops3 ++ [N_of_opc SetIndex]). split; [|split].
  - eapply ly_store; eauto; cbn [cconsts csym]; congruence.
  - rewrite C3, C2, C1, <- !app_assoc. reflexivity.
  - rewrite B3, B2, B1, app_nil_r. reflexivity.
Qed.

Theorem ly_all_w :
  (forall s, cfrag_stmt s = true -> forall st st', compile_stmt true s st = COk st' -> LYOK s st st') /\
  (forall l, cfrag_slist l = true -> slist_ly l) /\
  (forall l, cfrag_clist l = true -> clist_lyok l) /\
  (forall o, match o with NoElse => True | Else b => cfrag_slist b = true -> slist_ly b end).
Proof.
  apply stmt_mutind; try (intros; exact I).
  - intros n e HF st st' HC. apply (ly_decl_ok n e st st' HF HC).
  - intros target e HF st st' HC. destruct target; try discriminate HF.
    + apply (ly_assign_ok n e st st' HF HC).
    + cbn [cfrag_stmt] in HF. apply andb_true_iff in HF. destruct HF as [HF F3]. apply andb_true_iff in HF. destruct HF as [F1 F2].
      apply (ly_store_ok target1 target2 e st st' F1 F2 F3 HC).
  - intros c b Hb elifs Hc els Ho HF st st' HC. cbn [cfrag_stmt] in HF.
    apply andb_true_iff in HF. destruct HF as [HF F4]. apply andb_true_iff in HF. destruct HF as [HF F3].
    apply andb_true_iff in HF. destruct HF as [F1 F2].
    apply (ly_if_ok c b elifs els st st' F1 (Hb F2) (Hc F3)); auto. destruct els; [exact I|apply Ho; exact F4].
  - intros c b Hb HF st st' HC. cbn [cfrag_stmt] in HF. apply andb_true_iff in HF. destruct HF as [F1 F2].
    apply (ly_while_ok c b st st' F1 (Hb F2) HC).
  - intros lv start stop step b Hb HF st st' HC. cbn [cfrag_stmt] in HF.
    apply andb_true_iff in HF. destruct HF as [HF F4]. apply andb_true_iff in HF. destruct HF as [HF F3].
    apply andb_true_iff in HF. destruct HF as [F1 F2].
    apply (ly_forstep_ok lv start stop step b st st' F1 F2 F3 (Hb F4) HC).
  - intros lv t e b Hb HF st st' HC. cbn [cfrag_stmt] in HF.
    assert (Ht : t = TStr \/ t = TArr \/ t = TMap) by (destruct t; try discriminate HF; auto).
    assert (HF' : efrag e && cfrag_slist b = true) by (destruct t; try discriminate HF; exact HF).
    apply andb_true_iff in HF'. destruct HF' as [F1 F2].
    apply (ly_foriter_ok lv t e b st st' Ht F1 (Hb F2) HC).
  - intros _ st st' HC. apply (ly_break_ok st st' HC).
  - intros _ st st' HC. cbn [compile_stmt] in HC. inversion HC; subst.
    exists [], []. split; [constructor|]. split; rewrite app_nil_r; reflexivity.
  - intros b _ HF. discriminate.
  - intros w HF. discriminate.
  - intros _ st st' HC. cbn [body_of] in HC. inversion HC; subst.
    exists [], []. split; [constructor|]. split; rewrite app_nil_r; reflexivity.
  - intros s Hs t Ht HF st st' HC. cbn [cfrag_slist] in HF. apply andb_true_iff in HF. destruct HF as [F1 F2].
    cbn [body_of] in HC. destruct (compile_stmt true s st) as [st1|] eqn:E1; [|discriminate]. cbn [bind] in HC.
    destruct (Hs F1 st st1 E1) as (bs1 & seg1 & L1 & C1 & B1). rewrite compile_slist_body in HC.
    destruct (Ht F2 st1 st' HC) as (bs2 & seg2 & L2 & C2 & B2).
    exists (bs1 ++ bs2), (seg1 ++ seg2). split; [|split; [rewrite C2, C1, app_assoc; reflexivity|rewrite B2, B1, app_assoc; reflexivity]].
    eapply lyl_cons; eauto. rewrite C1, app_length, Nat2N.inj_add. reflexivity.
  - intros c b Hb t Ht HF. cbn [cfrag_clist] in HF.
    apply andb_true_iff in HF. destruct HF as [HF F3]. apply andb_true_iff in HF. destruct HF as [F1 F2].
    cbn [clist_lyok]. auto.
  - intros b Hb. exact Hb.
Qed.
